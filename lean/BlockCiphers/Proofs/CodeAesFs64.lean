import BlockCiphers.Gen.Aes_Fs64
import BlockCiphers.Gen.Aes_Fs64c
import BlockCiphers.Proofs.GenAesFs64Ed128
import BlockCiphers.Proofs.GenAesFs64Ed128c
import BlockCiphers.Proofs.GenAesFs64Ed192
import BlockCiphers.Proofs.GenAesFs64Ed192c
import BlockCiphers.Proofs.GenAesFs64Ed256
import BlockCiphers.Proofs.GenAesFs64Ed256c
import BlockCiphers.Proofs.GenAesFs64Ks128
import BlockCiphers.Proofs.GenAesFs64Ks192
import BlockCiphers.Proofs.GenAesFs64Ks256
import BlockCiphers.Proofs.AesFixslice
import BlockCiphers.Proofs.AesNiBytes
import Std.Tactic.BVDecide
/-
Code-level theorems for the 64-bit fixsliced AES software backend (`aes/src/soft/fixslice64.rs`), AES-128/192/256, default
build and `--cfg aes_compact` build.
`enc<N>[c]` / `dec<N>[c]` are built ONLY from regenerated definitions (`Gen/Aes_Fs64.lean`, `Gen/Aes_Fs64c.lean`:
`fs64_aes<N>_key_schedule[_compact]`, `fs64_aes<N>_{en,de}crypt[_compact]`).  The backend processes a batch of 4 blocks, so
`enc`/`dec` take 4 blocks and return the 4-tuple of results.  For every key and every batch: round trips, and every lane
equals FIPS-197 AES (`Spec.Aes.encrypt` / `decrypt`, S-box computed from GF(2^8) inversion) of that block, the key being
passed to the specification as its bytes `unpackBE n key` (byte 0 = most significant byte of the `BitVec`).
They compose: key-schedule ties `GenAesFs64Ks<N>.aes<N>_key_schedule[_compact]_eq`, cipher ties
`GenAesFs64Ed<N>[c].aes<N>_{en,de}crypt[_compact]_eq_fn`, model theorems `Proofs/AesFs64RoundTrip` (batch round trips),
`Proofs/AesFs64Bytes.aes<N>[_compact]_eq_spec` (batch conformance; the source of `AesSoft.soft_conforms_<N>`, Thm/C02).
Produced by gen_fs64.py (only the long tuple patterns are mechanical).
-/
namespace BC.Code.AesFs64
open BC.Gen.Fn
set_option maxRecDepth 100000

/-! ### glue: a `BitVec (8n)` is the big-endian packing of its `n` bytes -/

theorem range16 : List.range 16 = [0,1,2,3,4,5,6,7,8,9,10,11,12,13,14,15] := by decide +kernel

theorem unpackBE16_inj (x y : BitVec 128) (h : BC.unpackBE 16 x = BC.unpackBE 16 y) : x = y := by
  simp only [BC.unpackBE, range16, List.map_cons, List.map_nil, List.cons.injEq, Nat.reduceSub, Nat.reduceMul, and_true] at h
  obtain ⟨h0, h1, h2, h3, h4, h5, h6, h7, h8, h9, h10, h11, h12, h13, h14, h15⟩ := h
  bv_decide (config := { timeout := 300 })

theorem unpackBE16_length (x : BitVec 128) : (BC.unpackBE 16 x).length = 16 := by simp [BC.unpackBE]

theorem pack_unpack16 (key : BitVec 128) : BC.packBE 16 (BC.unpackBE 16 key) = key :=
  unpackBE16_inj _ _ (BC.AesNi.unpack_pack16 _ (unpackBE16_length key))

theorem range24 : List.range 24 = [0,1,2,3,4,5,6,7,8,9,10,11,12,13,14,15,16,17,18,19,20,21,22,23] := by decide +kernel

theorem unpackBE24_inj (x y : BitVec 192) (h : BC.unpackBE 24 x = BC.unpackBE 24 y) : x = y := by
  simp only [BC.unpackBE, range24, List.map_cons, List.map_nil, List.cons.injEq, Nat.reduceSub, Nat.reduceMul, and_true] at h
  obtain ⟨h0, h1, h2, h3, h4, h5, h6, h7, h8, h9, h10, h11, h12, h13, h14, h15, h16, h17, h18, h19, h20, h21, h22, h23⟩ := h
  bv_decide (config := { timeout := 300 })

theorem unpackBE24_length (x : BitVec 192) : (BC.unpackBE 24 x).length = 24 := by simp [BC.unpackBE]

theorem pack_unpack24 (key : BitVec 192) : BC.packBE 24 (BC.unpackBE 24 key) = key :=
  unpackBE24_inj _ _ (BC.AesNi.unpack_pack24 _ (unpackBE24_length key))

theorem range32 : List.range 32 = [0,1,2,3,4,5,6,7,8,9,10,11,12,13,14,15,16,17,18,19,20,21,22,23,24,25,26,27,28,29,30,31] := by decide +kernel

theorem unpackBE32_inj (x y : BitVec 256) (h : BC.unpackBE 32 x = BC.unpackBE 32 y) : x = y := by
  simp only [BC.unpackBE, range32, List.map_cons, List.map_nil, List.cons.injEq, Nat.reduceSub, Nat.reduceMul, and_true] at h
  obtain ⟨h0, h1, h2, h3, h4, h5, h6, h7, h8, h9, h10, h11, h12, h13, h14, h15, h16, h17, h18, h19, h20, h21, h22, h23, h24, h25, h26, h27, h28, h29, h30, h31⟩ := h
  bv_decide (config := { timeout := 300 })

theorem unpackBE32_length (x : BitVec 256) : (BC.unpackBE 32 x).length = 32 := by simp [BC.unpackBE]

theorem pack_unpack32 (key : BitVec 256) : BC.packBE 32 (BC.unpackBE 32 key) = key :=
  unpackBE32_inj _ _ (BC.AesNi.unpack_pack32 _ (unpackBE32_length key))

/-! ## AES-128, default build -/

/-- `aes128_encrypt(&aes128_key_schedule(key), blocks)` of fixslice64.rs, default build — regenerated code only -/
def enc128 (key : BitVec 128) (b0 b1 b2 b3 : BitVec 128) : BitVec 128 × BitVec 128 × BitVec 128 × BitVec 128 :=
  match fs64_aes128_key_schedule key with
  | (k0, k1, k2, k3, k4, k5, k6, k7, k8, k9, k10, k11, k12, k13, k14, k15, k16, k17, k18, k19, k20, k21, k22, k23, k24, k25, k26, k27, k28, k29, k30, k31, k32, k33, k34, k35, k36, k37, k38, k39, k40, k41, k42, k43, k44, k45, k46, k47, k48, k49, k50, k51, k52, k53, k54, k55, k56, k57, k58, k59, k60, k61, k62, k63, k64, k65, k66, k67, k68, k69, k70, k71, k72, k73, k74, k75, k76, k77, k78, k79, k80, k81, k82, k83, k84, k85, k86, k87) => fs64_aes128_encrypt k0 k1 k2 k3 k4 k5 k6 k7 k8 k9 k10 k11 k12 k13 k14 k15 k16 k17 k18 k19 k20 k21 k22 k23 k24 k25 k26 k27 k28 k29 k30 k31 k32 k33 k34 k35 k36 k37 k38 k39 k40 k41 k42 k43 k44 k45 k46 k47 k48 k49 k50 k51 k52 k53 k54 k55 k56 k57 k58 k59 k60 k61 k62 k63 k64 k65 k66 k67 k68 k69 k70 k71 k72 k73 k74 k75 k76 k77 k78 k79 k80 k81 k82 k83 k84 k85 k86 k87 b0 b1 b2 b3

/-- `aes128_decrypt(&aes128_key_schedule(key), blocks)` of fixslice64.rs, default build — regenerated code only -/
def dec128 (key : BitVec 128) (b0 b1 b2 b3 : BitVec 128) : BitVec 128 × BitVec 128 × BitVec 128 × BitVec 128 :=
  match fs64_aes128_key_schedule key with
  | (k0, k1, k2, k3, k4, k5, k6, k7, k8, k9, k10, k11, k12, k13, k14, k15, k16, k17, k18, k19, k20, k21, k22, k23, k24, k25, k26, k27, k28, k29, k30, k31, k32, k33, k34, k35, k36, k37, k38, k39, k40, k41, k42, k43, k44, k45, k46, k47, k48, k49, k50, k51, k52, k53, k54, k55, k56, k57, k58, k59, k60, k61, k62, k63, k64, k65, k66, k67, k68, k69, k70, k71, k72, k73, k74, k75, k76, k77, k78, k79, k80, k81, k82, k83, k84, k85, k86, k87) => fs64_aes128_decrypt k0 k1 k2 k3 k4 k5 k6 k7 k8 k9 k10 k11 k12 k13 k14 k15 k16 k17 k18 k19 k20 k21 k22 k23 k24 k25 k26 k27 k28 k29 k30 k31 k32 k33 k34 k35 k36 k37 k38 k39 k40 k41 k42 k43 k44 k45 k46 k47 k48 k49 k50 k51 k52 k53 k54 k55 k56 k57 k58 k59 k60 k61 k62 k63 k64 k65 k66 k67 k68 k69 k70 k71 k72 k73 k74 k75 k76 k77 k78 k79 k80 k81 k82 k83 k84 k85 k86 k87 b0 b1 b2 b3

theorem enc128_eq_impl (key : BitVec 128) (b0 b1 b2 b3 : BitVec 128) :
    enc128 key b0 b1 b2 b3 = BC.GenAes.Fs64.outB (BC.AesFs64.aes128_encrypt (BC.AesFs64.rkFn (BC.AesFs64.aes128_key_schedule key)) ⟨b0, b1, b2, b3⟩) := by
  unfold enc128
  rw [BC.GenAes.Fs64.aes128_key_schedule_eq]
  exact BC.GenAes.Fs64.aes128_encrypt_eq_fn (BC.AesFs64.rkFn (BC.AesFs64.aes128_key_schedule key)) b0 b1 b2 b3

theorem dec128_eq_impl (key : BitVec 128) (b0 b1 b2 b3 : BitVec 128) :
    dec128 key b0 b1 b2 b3 = BC.GenAes.Fs64.outB (BC.AesFs64.aes128_decrypt (BC.AesFs64.rkFn (BC.AesFs64.aes128_key_schedule key)) ⟨b0, b1, b2, b3⟩) := by
  unfold dec128
  rw [BC.GenAes.Fs64.aes128_key_schedule_eq]
  exact BC.GenAes.Fs64.aes128_decrypt_eq_fn (BC.AesFs64.rkFn (BC.AesFs64.aes128_key_schedule key)) b0 b1 b2 b3

/-- decryption inverts encryption on every batch, every key -/
theorem dec128_enc128 (key : BitVec 128) (b0 b1 b2 b3 : BitVec 128) :
    (match enc128 key b0 b1 b2 b3 with | (c0, c1, c2, c3) => dec128 key c0 c1 c2 c3) = (b0, b1, b2, b3) := by
  rw [enc128_eq_impl]
  generalize hX : BC.AesFs64.aes128_encrypt (BC.AesFs64.rkFn (BC.AesFs64.aes128_key_schedule key)) ⟨b0, b1, b2, b3⟩ = X
  show dec128 key X.b0 X.b1 X.b2 X.b3 = _
  rw [dec128_eq_impl]
  have e : (⟨X.b0, X.b1, X.b2, X.b3⟩ : BC.AesFs64.Batch) = X := rfl
  rw [e, ← hX, BC.AesFs64.aes128_decrypt_aes128_encrypt]; rfl

theorem enc128_dec128 (key : BitVec 128) (b0 b1 b2 b3 : BitVec 128) :
    (match dec128 key b0 b1 b2 b3 with | (c0, c1, c2, c3) => enc128 key c0 c1 c2 c3) = (b0, b1, b2, b3) := by
  rw [dec128_eq_impl]
  generalize hX : BC.AesFs64.aes128_decrypt (BC.AesFs64.rkFn (BC.AesFs64.aes128_key_schedule key)) ⟨b0, b1, b2, b3⟩ = X
  show enc128 key X.b0 X.b1 X.b2 X.b3 = _
  rw [enc128_eq_impl]
  have e : (⟨X.b0, X.b1, X.b2, X.b3⟩ : BC.AesFs64.Batch) = X := rfl
  rw [e, ← hX, BC.AesFs64.aes128_encrypt_aes128_decrypt]; rfl

/-- every lane of the regenerated code computes FIPS-197 AES of that block -/
theorem enc128_eq_spec (key : BitVec 128) (b0 b1 b2 b3 : BitVec 128) :
    enc128 key b0 b1 b2 b3 = (BC.Spec.Aes.encrypt (BC.unpackBE 16 key) b0, BC.Spec.Aes.encrypt (BC.unpackBE 16 key) b1,
      BC.Spec.Aes.encrypt (BC.unpackBE 16 key) b2, BC.Spec.Aes.encrypt (BC.unpackBE 16 key) b3) := by
  have h := (BC.AesFs64.aes128_eq_spec (BC.unpackBE 16 key) (unpackBE16_length key)).2.2.1 ⟨b0, b1, b2, b3⟩
  rw [pack_unpack16] at h
  rw [enc128_eq_impl, h]; rfl

theorem dec128_eq_spec (key : BitVec 128) (b0 b1 b2 b3 : BitVec 128) :
    dec128 key b0 b1 b2 b3 = (BC.Spec.Aes.decrypt (BC.unpackBE 16 key) b0, BC.Spec.Aes.decrypt (BC.unpackBE 16 key) b1,
      BC.Spec.Aes.decrypt (BC.unpackBE 16 key) b2, BC.Spec.Aes.decrypt (BC.unpackBE 16 key) b3) := by
  have h := (BC.AesFs64.aes128_eq_spec (BC.unpackBE 16 key) (unpackBE16_length key)).2.2.2 ⟨b0, b1, b2, b3⟩
  rw [pack_unpack16] at h
  rw [dec128_eq_impl, h]; rfl

/-! ## AES-128, `--cfg aes_compact` build -/

/-- `aes128_encrypt(&aes128_key_schedule(key), blocks)` of fixslice64.rs, `--cfg aes_compact` build — regenerated code only -/
def enc128c (key : BitVec 128) (b0 b1 b2 b3 : BitVec 128) : BitVec 128 × BitVec 128 × BitVec 128 × BitVec 128 :=
  match fs64_aes128_key_schedule_compact key with
  | (k0, k1, k2, k3, k4, k5, k6, k7, k8, k9, k10, k11, k12, k13, k14, k15, k16, k17, k18, k19, k20, k21, k22, k23, k24, k25, k26, k27, k28, k29, k30, k31, k32, k33, k34, k35, k36, k37, k38, k39, k40, k41, k42, k43, k44, k45, k46, k47, k48, k49, k50, k51, k52, k53, k54, k55, k56, k57, k58, k59, k60, k61, k62, k63, k64, k65, k66, k67, k68, k69, k70, k71, k72, k73, k74, k75, k76, k77, k78, k79, k80, k81, k82, k83, k84, k85, k86, k87) => fs64_aes128_encrypt_compact k0 k1 k2 k3 k4 k5 k6 k7 k8 k9 k10 k11 k12 k13 k14 k15 k16 k17 k18 k19 k20 k21 k22 k23 k24 k25 k26 k27 k28 k29 k30 k31 k32 k33 k34 k35 k36 k37 k38 k39 k40 k41 k42 k43 k44 k45 k46 k47 k48 k49 k50 k51 k52 k53 k54 k55 k56 k57 k58 k59 k60 k61 k62 k63 k64 k65 k66 k67 k68 k69 k70 k71 k72 k73 k74 k75 k76 k77 k78 k79 k80 k81 k82 k83 k84 k85 k86 k87 b0 b1 b2 b3

/-- `aes128_decrypt(&aes128_key_schedule(key), blocks)` of fixslice64.rs, `--cfg aes_compact` build — regenerated code only -/
def dec128c (key : BitVec 128) (b0 b1 b2 b3 : BitVec 128) : BitVec 128 × BitVec 128 × BitVec 128 × BitVec 128 :=
  match fs64_aes128_key_schedule_compact key with
  | (k0, k1, k2, k3, k4, k5, k6, k7, k8, k9, k10, k11, k12, k13, k14, k15, k16, k17, k18, k19, k20, k21, k22, k23, k24, k25, k26, k27, k28, k29, k30, k31, k32, k33, k34, k35, k36, k37, k38, k39, k40, k41, k42, k43, k44, k45, k46, k47, k48, k49, k50, k51, k52, k53, k54, k55, k56, k57, k58, k59, k60, k61, k62, k63, k64, k65, k66, k67, k68, k69, k70, k71, k72, k73, k74, k75, k76, k77, k78, k79, k80, k81, k82, k83, k84, k85, k86, k87) => fs64_aes128_decrypt_compact k0 k1 k2 k3 k4 k5 k6 k7 k8 k9 k10 k11 k12 k13 k14 k15 k16 k17 k18 k19 k20 k21 k22 k23 k24 k25 k26 k27 k28 k29 k30 k31 k32 k33 k34 k35 k36 k37 k38 k39 k40 k41 k42 k43 k44 k45 k46 k47 k48 k49 k50 k51 k52 k53 k54 k55 k56 k57 k58 k59 k60 k61 k62 k63 k64 k65 k66 k67 k68 k69 k70 k71 k72 k73 k74 k75 k76 k77 k78 k79 k80 k81 k82 k83 k84 k85 k86 k87 b0 b1 b2 b3

theorem enc128c_eq_impl (key : BitVec 128) (b0 b1 b2 b3 : BitVec 128) :
    enc128c key b0 b1 b2 b3 = BC.GenAes.Fs64.outB (BC.AesFs64.aes128_encrypt_compact (BC.AesFs64.rkFn (BC.AesFs64.aes128_key_schedule_compact key)) ⟨b0, b1, b2, b3⟩) := by
  unfold enc128c
  rw [BC.GenAes.Fs64.aes128_key_schedule_compact_eq]
  exact BC.GenAes.Fs64.aes128_encrypt_compact_eq_fn (BC.AesFs64.rkFn (BC.AesFs64.aes128_key_schedule_compact key)) b0 b1 b2 b3

theorem dec128c_eq_impl (key : BitVec 128) (b0 b1 b2 b3 : BitVec 128) :
    dec128c key b0 b1 b2 b3 = BC.GenAes.Fs64.outB (BC.AesFs64.aes128_decrypt_compact (BC.AesFs64.rkFn (BC.AesFs64.aes128_key_schedule_compact key)) ⟨b0, b1, b2, b3⟩) := by
  unfold dec128c
  rw [BC.GenAes.Fs64.aes128_key_schedule_compact_eq]
  exact BC.GenAes.Fs64.aes128_decrypt_compact_eq_fn (BC.AesFs64.rkFn (BC.AesFs64.aes128_key_schedule_compact key)) b0 b1 b2 b3

/-- decryption inverts encryption on every batch, every key -/
theorem dec128c_enc128c (key : BitVec 128) (b0 b1 b2 b3 : BitVec 128) :
    (match enc128c key b0 b1 b2 b3 with | (c0, c1, c2, c3) => dec128c key c0 c1 c2 c3) = (b0, b1, b2, b3) := by
  rw [enc128c_eq_impl]
  generalize hX : BC.AesFs64.aes128_encrypt_compact (BC.AesFs64.rkFn (BC.AesFs64.aes128_key_schedule_compact key)) ⟨b0, b1, b2, b3⟩ = X
  show dec128c key X.b0 X.b1 X.b2 X.b3 = _
  rw [dec128c_eq_impl]
  have e : (⟨X.b0, X.b1, X.b2, X.b3⟩ : BC.AesFs64.Batch) = X := rfl
  rw [e, ← hX, BC.AesFs64.aes128_decrypt_compact_aes128_encrypt_compact]; rfl

theorem enc128c_dec128c (key : BitVec 128) (b0 b1 b2 b3 : BitVec 128) :
    (match dec128c key b0 b1 b2 b3 with | (c0, c1, c2, c3) => enc128c key c0 c1 c2 c3) = (b0, b1, b2, b3) := by
  rw [dec128c_eq_impl]
  generalize hX : BC.AesFs64.aes128_decrypt_compact (BC.AesFs64.rkFn (BC.AesFs64.aes128_key_schedule_compact key)) ⟨b0, b1, b2, b3⟩ = X
  show enc128c key X.b0 X.b1 X.b2 X.b3 = _
  rw [enc128c_eq_impl]
  have e : (⟨X.b0, X.b1, X.b2, X.b3⟩ : BC.AesFs64.Batch) = X := rfl
  rw [e, ← hX, BC.AesFs64.aes128_encrypt_compact_aes128_decrypt_compact]; rfl

/-- every lane of the regenerated code computes FIPS-197 AES of that block -/
theorem enc128c_eq_spec (key : BitVec 128) (b0 b1 b2 b3 : BitVec 128) :
    enc128c key b0 b1 b2 b3 = (BC.Spec.Aes.encrypt (BC.unpackBE 16 key) b0, BC.Spec.Aes.encrypt (BC.unpackBE 16 key) b1,
      BC.Spec.Aes.encrypt (BC.unpackBE 16 key) b2, BC.Spec.Aes.encrypt (BC.unpackBE 16 key) b3) := by
  have h := (BC.AesFs64.aes128_compact_eq_spec (BC.unpackBE 16 key) (unpackBE16_length key)).2.2.1 ⟨b0, b1, b2, b3⟩
  rw [pack_unpack16] at h
  rw [enc128c_eq_impl, h]; rfl

theorem dec128c_eq_spec (key : BitVec 128) (b0 b1 b2 b3 : BitVec 128) :
    dec128c key b0 b1 b2 b3 = (BC.Spec.Aes.decrypt (BC.unpackBE 16 key) b0, BC.Spec.Aes.decrypt (BC.unpackBE 16 key) b1,
      BC.Spec.Aes.decrypt (BC.unpackBE 16 key) b2, BC.Spec.Aes.decrypt (BC.unpackBE 16 key) b3) := by
  have h := (BC.AesFs64.aes128_compact_eq_spec (BC.unpackBE 16 key) (unpackBE16_length key)).2.2.2 ⟨b0, b1, b2, b3⟩
  rw [pack_unpack16] at h
  rw [dec128c_eq_impl, h]; rfl

/-! ## AES-192, default build -/

/-- `aes192_encrypt(&aes192_key_schedule(key), blocks)` of fixslice64.rs, default build — regenerated code only -/
def enc192 (key : BitVec 192) (b0 b1 b2 b3 : BitVec 128) : BitVec 128 × BitVec 128 × BitVec 128 × BitVec 128 :=
  match fs64_aes192_key_schedule key with
  | (k0, k1, k2, k3, k4, k5, k6, k7, k8, k9, k10, k11, k12, k13, k14, k15, k16, k17, k18, k19, k20, k21, k22, k23, k24, k25, k26, k27, k28, k29, k30, k31, k32, k33, k34, k35, k36, k37, k38, k39, k40, k41, k42, k43, k44, k45, k46, k47, k48, k49, k50, k51, k52, k53, k54, k55, k56, k57, k58, k59, k60, k61, k62, k63, k64, k65, k66, k67, k68, k69, k70, k71, k72, k73, k74, k75, k76, k77, k78, k79, k80, k81, k82, k83, k84, k85, k86, k87, k88, k89, k90, k91, k92, k93, k94, k95, k96, k97, k98, k99, k100, k101, k102, k103) => fs64_aes192_encrypt k0 k1 k2 k3 k4 k5 k6 k7 k8 k9 k10 k11 k12 k13 k14 k15 k16 k17 k18 k19 k20 k21 k22 k23 k24 k25 k26 k27 k28 k29 k30 k31 k32 k33 k34 k35 k36 k37 k38 k39 k40 k41 k42 k43 k44 k45 k46 k47 k48 k49 k50 k51 k52 k53 k54 k55 k56 k57 k58 k59 k60 k61 k62 k63 k64 k65 k66 k67 k68 k69 k70 k71 k72 k73 k74 k75 k76 k77 k78 k79 k80 k81 k82 k83 k84 k85 k86 k87 k88 k89 k90 k91 k92 k93 k94 k95 k96 k97 k98 k99 k100 k101 k102 k103 b0 b1 b2 b3

/-- `aes192_decrypt(&aes192_key_schedule(key), blocks)` of fixslice64.rs, default build — regenerated code only -/
def dec192 (key : BitVec 192) (b0 b1 b2 b3 : BitVec 128) : BitVec 128 × BitVec 128 × BitVec 128 × BitVec 128 :=
  match fs64_aes192_key_schedule key with
  | (k0, k1, k2, k3, k4, k5, k6, k7, k8, k9, k10, k11, k12, k13, k14, k15, k16, k17, k18, k19, k20, k21, k22, k23, k24, k25, k26, k27, k28, k29, k30, k31, k32, k33, k34, k35, k36, k37, k38, k39, k40, k41, k42, k43, k44, k45, k46, k47, k48, k49, k50, k51, k52, k53, k54, k55, k56, k57, k58, k59, k60, k61, k62, k63, k64, k65, k66, k67, k68, k69, k70, k71, k72, k73, k74, k75, k76, k77, k78, k79, k80, k81, k82, k83, k84, k85, k86, k87, k88, k89, k90, k91, k92, k93, k94, k95, k96, k97, k98, k99, k100, k101, k102, k103) => fs64_aes192_decrypt k0 k1 k2 k3 k4 k5 k6 k7 k8 k9 k10 k11 k12 k13 k14 k15 k16 k17 k18 k19 k20 k21 k22 k23 k24 k25 k26 k27 k28 k29 k30 k31 k32 k33 k34 k35 k36 k37 k38 k39 k40 k41 k42 k43 k44 k45 k46 k47 k48 k49 k50 k51 k52 k53 k54 k55 k56 k57 k58 k59 k60 k61 k62 k63 k64 k65 k66 k67 k68 k69 k70 k71 k72 k73 k74 k75 k76 k77 k78 k79 k80 k81 k82 k83 k84 k85 k86 k87 k88 k89 k90 k91 k92 k93 k94 k95 k96 k97 k98 k99 k100 k101 k102 k103 b0 b1 b2 b3

theorem enc192_eq_impl (key : BitVec 192) (b0 b1 b2 b3 : BitVec 128) :
    enc192 key b0 b1 b2 b3 = BC.GenAes.Fs64.outB (BC.AesFs64.aes192_encrypt (BC.AesFs64.rkFn (BC.AesFs64.aes192_key_schedule key)) ⟨b0, b1, b2, b3⟩) := by
  unfold enc192
  rw [BC.GenAes.Fs64.aes192_key_schedule_eq]
  exact BC.GenAes.Fs64.aes192_encrypt_eq_fn (BC.AesFs64.rkFn (BC.AesFs64.aes192_key_schedule key)) b0 b1 b2 b3

theorem dec192_eq_impl (key : BitVec 192) (b0 b1 b2 b3 : BitVec 128) :
    dec192 key b0 b1 b2 b3 = BC.GenAes.Fs64.outB (BC.AesFs64.aes192_decrypt (BC.AesFs64.rkFn (BC.AesFs64.aes192_key_schedule key)) ⟨b0, b1, b2, b3⟩) := by
  unfold dec192
  rw [BC.GenAes.Fs64.aes192_key_schedule_eq]
  exact BC.GenAes.Fs64.aes192_decrypt_eq_fn (BC.AesFs64.rkFn (BC.AesFs64.aes192_key_schedule key)) b0 b1 b2 b3

/-- decryption inverts encryption on every batch, every key -/
theorem dec192_enc192 (key : BitVec 192) (b0 b1 b2 b3 : BitVec 128) :
    (match enc192 key b0 b1 b2 b3 with | (c0, c1, c2, c3) => dec192 key c0 c1 c2 c3) = (b0, b1, b2, b3) := by
  rw [enc192_eq_impl]
  generalize hX : BC.AesFs64.aes192_encrypt (BC.AesFs64.rkFn (BC.AesFs64.aes192_key_schedule key)) ⟨b0, b1, b2, b3⟩ = X
  show dec192 key X.b0 X.b1 X.b2 X.b3 = _
  rw [dec192_eq_impl]
  have e : (⟨X.b0, X.b1, X.b2, X.b3⟩ : BC.AesFs64.Batch) = X := rfl
  rw [e, ← hX, BC.AesFs64.aes192_decrypt_aes192_encrypt]; rfl

theorem enc192_dec192 (key : BitVec 192) (b0 b1 b2 b3 : BitVec 128) :
    (match dec192 key b0 b1 b2 b3 with | (c0, c1, c2, c3) => enc192 key c0 c1 c2 c3) = (b0, b1, b2, b3) := by
  rw [dec192_eq_impl]
  generalize hX : BC.AesFs64.aes192_decrypt (BC.AesFs64.rkFn (BC.AesFs64.aes192_key_schedule key)) ⟨b0, b1, b2, b3⟩ = X
  show enc192 key X.b0 X.b1 X.b2 X.b3 = _
  rw [enc192_eq_impl]
  have e : (⟨X.b0, X.b1, X.b2, X.b3⟩ : BC.AesFs64.Batch) = X := rfl
  rw [e, ← hX, BC.AesFs64.aes192_encrypt_aes192_decrypt]; rfl

/-- every lane of the regenerated code computes FIPS-197 AES of that block -/
theorem enc192_eq_spec (key : BitVec 192) (b0 b1 b2 b3 : BitVec 128) :
    enc192 key b0 b1 b2 b3 = (BC.Spec.Aes.encrypt (BC.unpackBE 24 key) b0, BC.Spec.Aes.encrypt (BC.unpackBE 24 key) b1,
      BC.Spec.Aes.encrypt (BC.unpackBE 24 key) b2, BC.Spec.Aes.encrypt (BC.unpackBE 24 key) b3) := by
  have h := (BC.AesFs64.aes192_eq_spec (BC.unpackBE 24 key) (unpackBE24_length key)).2.2.1 ⟨b0, b1, b2, b3⟩
  rw [pack_unpack24] at h
  rw [enc192_eq_impl, h]; rfl

theorem dec192_eq_spec (key : BitVec 192) (b0 b1 b2 b3 : BitVec 128) :
    dec192 key b0 b1 b2 b3 = (BC.Spec.Aes.decrypt (BC.unpackBE 24 key) b0, BC.Spec.Aes.decrypt (BC.unpackBE 24 key) b1,
      BC.Spec.Aes.decrypt (BC.unpackBE 24 key) b2, BC.Spec.Aes.decrypt (BC.unpackBE 24 key) b3) := by
  have h := (BC.AesFs64.aes192_eq_spec (BC.unpackBE 24 key) (unpackBE24_length key)).2.2.2 ⟨b0, b1, b2, b3⟩
  rw [pack_unpack24] at h
  rw [dec192_eq_impl, h]; rfl

/-! ## AES-192, `--cfg aes_compact` build -/

/-- `aes192_encrypt(&aes192_key_schedule(key), blocks)` of fixslice64.rs, `--cfg aes_compact` build — regenerated code only -/
def enc192c (key : BitVec 192) (b0 b1 b2 b3 : BitVec 128) : BitVec 128 × BitVec 128 × BitVec 128 × BitVec 128 :=
  match fs64_aes192_key_schedule_compact key with
  | (k0, k1, k2, k3, k4, k5, k6, k7, k8, k9, k10, k11, k12, k13, k14, k15, k16, k17, k18, k19, k20, k21, k22, k23, k24, k25, k26, k27, k28, k29, k30, k31, k32, k33, k34, k35, k36, k37, k38, k39, k40, k41, k42, k43, k44, k45, k46, k47, k48, k49, k50, k51, k52, k53, k54, k55, k56, k57, k58, k59, k60, k61, k62, k63, k64, k65, k66, k67, k68, k69, k70, k71, k72, k73, k74, k75, k76, k77, k78, k79, k80, k81, k82, k83, k84, k85, k86, k87, k88, k89, k90, k91, k92, k93, k94, k95, k96, k97, k98, k99, k100, k101, k102, k103) => fs64_aes192_encrypt_compact k0 k1 k2 k3 k4 k5 k6 k7 k8 k9 k10 k11 k12 k13 k14 k15 k16 k17 k18 k19 k20 k21 k22 k23 k24 k25 k26 k27 k28 k29 k30 k31 k32 k33 k34 k35 k36 k37 k38 k39 k40 k41 k42 k43 k44 k45 k46 k47 k48 k49 k50 k51 k52 k53 k54 k55 k56 k57 k58 k59 k60 k61 k62 k63 k64 k65 k66 k67 k68 k69 k70 k71 k72 k73 k74 k75 k76 k77 k78 k79 k80 k81 k82 k83 k84 k85 k86 k87 k88 k89 k90 k91 k92 k93 k94 k95 k96 k97 k98 k99 k100 k101 k102 k103 b0 b1 b2 b3

/-- `aes192_decrypt(&aes192_key_schedule(key), blocks)` of fixslice64.rs, `--cfg aes_compact` build — regenerated code only -/
def dec192c (key : BitVec 192) (b0 b1 b2 b3 : BitVec 128) : BitVec 128 × BitVec 128 × BitVec 128 × BitVec 128 :=
  match fs64_aes192_key_schedule_compact key with
  | (k0, k1, k2, k3, k4, k5, k6, k7, k8, k9, k10, k11, k12, k13, k14, k15, k16, k17, k18, k19, k20, k21, k22, k23, k24, k25, k26, k27, k28, k29, k30, k31, k32, k33, k34, k35, k36, k37, k38, k39, k40, k41, k42, k43, k44, k45, k46, k47, k48, k49, k50, k51, k52, k53, k54, k55, k56, k57, k58, k59, k60, k61, k62, k63, k64, k65, k66, k67, k68, k69, k70, k71, k72, k73, k74, k75, k76, k77, k78, k79, k80, k81, k82, k83, k84, k85, k86, k87, k88, k89, k90, k91, k92, k93, k94, k95, k96, k97, k98, k99, k100, k101, k102, k103) => fs64_aes192_decrypt_compact k0 k1 k2 k3 k4 k5 k6 k7 k8 k9 k10 k11 k12 k13 k14 k15 k16 k17 k18 k19 k20 k21 k22 k23 k24 k25 k26 k27 k28 k29 k30 k31 k32 k33 k34 k35 k36 k37 k38 k39 k40 k41 k42 k43 k44 k45 k46 k47 k48 k49 k50 k51 k52 k53 k54 k55 k56 k57 k58 k59 k60 k61 k62 k63 k64 k65 k66 k67 k68 k69 k70 k71 k72 k73 k74 k75 k76 k77 k78 k79 k80 k81 k82 k83 k84 k85 k86 k87 k88 k89 k90 k91 k92 k93 k94 k95 k96 k97 k98 k99 k100 k101 k102 k103 b0 b1 b2 b3

theorem enc192c_eq_impl (key : BitVec 192) (b0 b1 b2 b3 : BitVec 128) :
    enc192c key b0 b1 b2 b3 = BC.GenAes.Fs64.outB (BC.AesFs64.aes192_encrypt_compact (BC.AesFs64.rkFn (BC.AesFs64.aes192_key_schedule_compact key)) ⟨b0, b1, b2, b3⟩) := by
  unfold enc192c
  rw [BC.GenAes.Fs64.aes192_key_schedule_compact_eq]
  exact BC.GenAes.Fs64.aes192_encrypt_compact_eq_fn (BC.AesFs64.rkFn (BC.AesFs64.aes192_key_schedule_compact key)) b0 b1 b2 b3

theorem dec192c_eq_impl (key : BitVec 192) (b0 b1 b2 b3 : BitVec 128) :
    dec192c key b0 b1 b2 b3 = BC.GenAes.Fs64.outB (BC.AesFs64.aes192_decrypt_compact (BC.AesFs64.rkFn (BC.AesFs64.aes192_key_schedule_compact key)) ⟨b0, b1, b2, b3⟩) := by
  unfold dec192c
  rw [BC.GenAes.Fs64.aes192_key_schedule_compact_eq]
  exact BC.GenAes.Fs64.aes192_decrypt_compact_eq_fn (BC.AesFs64.rkFn (BC.AesFs64.aes192_key_schedule_compact key)) b0 b1 b2 b3

/-- decryption inverts encryption on every batch, every key -/
theorem dec192c_enc192c (key : BitVec 192) (b0 b1 b2 b3 : BitVec 128) :
    (match enc192c key b0 b1 b2 b3 with | (c0, c1, c2, c3) => dec192c key c0 c1 c2 c3) = (b0, b1, b2, b3) := by
  rw [enc192c_eq_impl]
  generalize hX : BC.AesFs64.aes192_encrypt_compact (BC.AesFs64.rkFn (BC.AesFs64.aes192_key_schedule_compact key)) ⟨b0, b1, b2, b3⟩ = X
  show dec192c key X.b0 X.b1 X.b2 X.b3 = _
  rw [dec192c_eq_impl]
  have e : (⟨X.b0, X.b1, X.b2, X.b3⟩ : BC.AesFs64.Batch) = X := rfl
  rw [e, ← hX, BC.AesFs64.aes192_decrypt_compact_aes192_encrypt_compact]; rfl

theorem enc192c_dec192c (key : BitVec 192) (b0 b1 b2 b3 : BitVec 128) :
    (match dec192c key b0 b1 b2 b3 with | (c0, c1, c2, c3) => enc192c key c0 c1 c2 c3) = (b0, b1, b2, b3) := by
  rw [dec192c_eq_impl]
  generalize hX : BC.AesFs64.aes192_decrypt_compact (BC.AesFs64.rkFn (BC.AesFs64.aes192_key_schedule_compact key)) ⟨b0, b1, b2, b3⟩ = X
  show enc192c key X.b0 X.b1 X.b2 X.b3 = _
  rw [enc192c_eq_impl]
  have e : (⟨X.b0, X.b1, X.b2, X.b3⟩ : BC.AesFs64.Batch) = X := rfl
  rw [e, ← hX, BC.AesFs64.aes192_encrypt_compact_aes192_decrypt_compact]; rfl

/-- every lane of the regenerated code computes FIPS-197 AES of that block -/
theorem enc192c_eq_spec (key : BitVec 192) (b0 b1 b2 b3 : BitVec 128) :
    enc192c key b0 b1 b2 b3 = (BC.Spec.Aes.encrypt (BC.unpackBE 24 key) b0, BC.Spec.Aes.encrypt (BC.unpackBE 24 key) b1,
      BC.Spec.Aes.encrypt (BC.unpackBE 24 key) b2, BC.Spec.Aes.encrypt (BC.unpackBE 24 key) b3) := by
  have h := (BC.AesFs64.aes192_compact_eq_spec (BC.unpackBE 24 key) (unpackBE24_length key)).2.2.1 ⟨b0, b1, b2, b3⟩
  rw [pack_unpack24] at h
  rw [enc192c_eq_impl, h]; rfl

theorem dec192c_eq_spec (key : BitVec 192) (b0 b1 b2 b3 : BitVec 128) :
    dec192c key b0 b1 b2 b3 = (BC.Spec.Aes.decrypt (BC.unpackBE 24 key) b0, BC.Spec.Aes.decrypt (BC.unpackBE 24 key) b1,
      BC.Spec.Aes.decrypt (BC.unpackBE 24 key) b2, BC.Spec.Aes.decrypt (BC.unpackBE 24 key) b3) := by
  have h := (BC.AesFs64.aes192_compact_eq_spec (BC.unpackBE 24 key) (unpackBE24_length key)).2.2.2 ⟨b0, b1, b2, b3⟩
  rw [pack_unpack24] at h
  rw [dec192c_eq_impl, h]; rfl

/-! ## AES-256, default build -/

/-- `aes256_encrypt(&aes256_key_schedule(key), blocks)` of fixslice64.rs, default build — regenerated code only -/
def enc256 (key : BitVec 256) (b0 b1 b2 b3 : BitVec 128) : BitVec 128 × BitVec 128 × BitVec 128 × BitVec 128 :=
  match fs64_aes256_key_schedule key with
  | (k0, k1, k2, k3, k4, k5, k6, k7, k8, k9, k10, k11, k12, k13, k14, k15, k16, k17, k18, k19, k20, k21, k22, k23, k24, k25, k26, k27, k28, k29, k30, k31, k32, k33, k34, k35, k36, k37, k38, k39, k40, k41, k42, k43, k44, k45, k46, k47, k48, k49, k50, k51, k52, k53, k54, k55, k56, k57, k58, k59, k60, k61, k62, k63, k64, k65, k66, k67, k68, k69, k70, k71, k72, k73, k74, k75, k76, k77, k78, k79, k80, k81, k82, k83, k84, k85, k86, k87, k88, k89, k90, k91, k92, k93, k94, k95, k96, k97, k98, k99, k100, k101, k102, k103, k104, k105, k106, k107, k108, k109, k110, k111, k112, k113, k114, k115, k116, k117, k118, k119) => fs64_aes256_encrypt k0 k1 k2 k3 k4 k5 k6 k7 k8 k9 k10 k11 k12 k13 k14 k15 k16 k17 k18 k19 k20 k21 k22 k23 k24 k25 k26 k27 k28 k29 k30 k31 k32 k33 k34 k35 k36 k37 k38 k39 k40 k41 k42 k43 k44 k45 k46 k47 k48 k49 k50 k51 k52 k53 k54 k55 k56 k57 k58 k59 k60 k61 k62 k63 k64 k65 k66 k67 k68 k69 k70 k71 k72 k73 k74 k75 k76 k77 k78 k79 k80 k81 k82 k83 k84 k85 k86 k87 k88 k89 k90 k91 k92 k93 k94 k95 k96 k97 k98 k99 k100 k101 k102 k103 k104 k105 k106 k107 k108 k109 k110 k111 k112 k113 k114 k115 k116 k117 k118 k119 b0 b1 b2 b3

/-- `aes256_decrypt(&aes256_key_schedule(key), blocks)` of fixslice64.rs, default build — regenerated code only -/
def dec256 (key : BitVec 256) (b0 b1 b2 b3 : BitVec 128) : BitVec 128 × BitVec 128 × BitVec 128 × BitVec 128 :=
  match fs64_aes256_key_schedule key with
  | (k0, k1, k2, k3, k4, k5, k6, k7, k8, k9, k10, k11, k12, k13, k14, k15, k16, k17, k18, k19, k20, k21, k22, k23, k24, k25, k26, k27, k28, k29, k30, k31, k32, k33, k34, k35, k36, k37, k38, k39, k40, k41, k42, k43, k44, k45, k46, k47, k48, k49, k50, k51, k52, k53, k54, k55, k56, k57, k58, k59, k60, k61, k62, k63, k64, k65, k66, k67, k68, k69, k70, k71, k72, k73, k74, k75, k76, k77, k78, k79, k80, k81, k82, k83, k84, k85, k86, k87, k88, k89, k90, k91, k92, k93, k94, k95, k96, k97, k98, k99, k100, k101, k102, k103, k104, k105, k106, k107, k108, k109, k110, k111, k112, k113, k114, k115, k116, k117, k118, k119) => fs64_aes256_decrypt k0 k1 k2 k3 k4 k5 k6 k7 k8 k9 k10 k11 k12 k13 k14 k15 k16 k17 k18 k19 k20 k21 k22 k23 k24 k25 k26 k27 k28 k29 k30 k31 k32 k33 k34 k35 k36 k37 k38 k39 k40 k41 k42 k43 k44 k45 k46 k47 k48 k49 k50 k51 k52 k53 k54 k55 k56 k57 k58 k59 k60 k61 k62 k63 k64 k65 k66 k67 k68 k69 k70 k71 k72 k73 k74 k75 k76 k77 k78 k79 k80 k81 k82 k83 k84 k85 k86 k87 k88 k89 k90 k91 k92 k93 k94 k95 k96 k97 k98 k99 k100 k101 k102 k103 k104 k105 k106 k107 k108 k109 k110 k111 k112 k113 k114 k115 k116 k117 k118 k119 b0 b1 b2 b3

theorem enc256_eq_impl (key : BitVec 256) (b0 b1 b2 b3 : BitVec 128) :
    enc256 key b0 b1 b2 b3 = BC.GenAes.Fs64.outB (BC.AesFs64.aes256_encrypt (BC.AesFs64.rkFn (BC.AesFs64.aes256_key_schedule key)) ⟨b0, b1, b2, b3⟩) := by
  unfold enc256
  rw [BC.GenAes.Fs64.aes256_key_schedule_eq]
  exact BC.GenAes.Fs64.aes256_encrypt_eq_fn (BC.AesFs64.rkFn (BC.AesFs64.aes256_key_schedule key)) b0 b1 b2 b3

theorem dec256_eq_impl (key : BitVec 256) (b0 b1 b2 b3 : BitVec 128) :
    dec256 key b0 b1 b2 b3 = BC.GenAes.Fs64.outB (BC.AesFs64.aes256_decrypt (BC.AesFs64.rkFn (BC.AesFs64.aes256_key_schedule key)) ⟨b0, b1, b2, b3⟩) := by
  unfold dec256
  rw [BC.GenAes.Fs64.aes256_key_schedule_eq]
  exact BC.GenAes.Fs64.aes256_decrypt_eq_fn (BC.AesFs64.rkFn (BC.AesFs64.aes256_key_schedule key)) b0 b1 b2 b3

/-- decryption inverts encryption on every batch, every key -/
theorem dec256_enc256 (key : BitVec 256) (b0 b1 b2 b3 : BitVec 128) :
    (match enc256 key b0 b1 b2 b3 with | (c0, c1, c2, c3) => dec256 key c0 c1 c2 c3) = (b0, b1, b2, b3) := by
  rw [enc256_eq_impl]
  generalize hX : BC.AesFs64.aes256_encrypt (BC.AesFs64.rkFn (BC.AesFs64.aes256_key_schedule key)) ⟨b0, b1, b2, b3⟩ = X
  show dec256 key X.b0 X.b1 X.b2 X.b3 = _
  rw [dec256_eq_impl]
  have e : (⟨X.b0, X.b1, X.b2, X.b3⟩ : BC.AesFs64.Batch) = X := rfl
  rw [e, ← hX, BC.AesFs64.aes256_decrypt_aes256_encrypt]; rfl

theorem enc256_dec256 (key : BitVec 256) (b0 b1 b2 b3 : BitVec 128) :
    (match dec256 key b0 b1 b2 b3 with | (c0, c1, c2, c3) => enc256 key c0 c1 c2 c3) = (b0, b1, b2, b3) := by
  rw [dec256_eq_impl]
  generalize hX : BC.AesFs64.aes256_decrypt (BC.AesFs64.rkFn (BC.AesFs64.aes256_key_schedule key)) ⟨b0, b1, b2, b3⟩ = X
  show enc256 key X.b0 X.b1 X.b2 X.b3 = _
  rw [enc256_eq_impl]
  have e : (⟨X.b0, X.b1, X.b2, X.b3⟩ : BC.AesFs64.Batch) = X := rfl
  rw [e, ← hX, BC.AesFs64.aes256_encrypt_aes256_decrypt]; rfl

/-- every lane of the regenerated code computes FIPS-197 AES of that block -/
theorem enc256_eq_spec (key : BitVec 256) (b0 b1 b2 b3 : BitVec 128) :
    enc256 key b0 b1 b2 b3 = (BC.Spec.Aes.encrypt (BC.unpackBE 32 key) b0, BC.Spec.Aes.encrypt (BC.unpackBE 32 key) b1,
      BC.Spec.Aes.encrypt (BC.unpackBE 32 key) b2, BC.Spec.Aes.encrypt (BC.unpackBE 32 key) b3) := by
  have h := (BC.AesFs64.aes256_eq_spec (BC.unpackBE 32 key) (unpackBE32_length key)).2.2.1 ⟨b0, b1, b2, b3⟩
  rw [pack_unpack32] at h
  rw [enc256_eq_impl, h]; rfl

theorem dec256_eq_spec (key : BitVec 256) (b0 b1 b2 b3 : BitVec 128) :
    dec256 key b0 b1 b2 b3 = (BC.Spec.Aes.decrypt (BC.unpackBE 32 key) b0, BC.Spec.Aes.decrypt (BC.unpackBE 32 key) b1,
      BC.Spec.Aes.decrypt (BC.unpackBE 32 key) b2, BC.Spec.Aes.decrypt (BC.unpackBE 32 key) b3) := by
  have h := (BC.AesFs64.aes256_eq_spec (BC.unpackBE 32 key) (unpackBE32_length key)).2.2.2 ⟨b0, b1, b2, b3⟩
  rw [pack_unpack32] at h
  rw [dec256_eq_impl, h]; rfl

/-! ## AES-256, `--cfg aes_compact` build -/

/-- `aes256_encrypt(&aes256_key_schedule(key), blocks)` of fixslice64.rs, `--cfg aes_compact` build — regenerated code only -/
def enc256c (key : BitVec 256) (b0 b1 b2 b3 : BitVec 128) : BitVec 128 × BitVec 128 × BitVec 128 × BitVec 128 :=
  match fs64_aes256_key_schedule_compact key with
  | (k0, k1, k2, k3, k4, k5, k6, k7, k8, k9, k10, k11, k12, k13, k14, k15, k16, k17, k18, k19, k20, k21, k22, k23, k24, k25, k26, k27, k28, k29, k30, k31, k32, k33, k34, k35, k36, k37, k38, k39, k40, k41, k42, k43, k44, k45, k46, k47, k48, k49, k50, k51, k52, k53, k54, k55, k56, k57, k58, k59, k60, k61, k62, k63, k64, k65, k66, k67, k68, k69, k70, k71, k72, k73, k74, k75, k76, k77, k78, k79, k80, k81, k82, k83, k84, k85, k86, k87, k88, k89, k90, k91, k92, k93, k94, k95, k96, k97, k98, k99, k100, k101, k102, k103, k104, k105, k106, k107, k108, k109, k110, k111, k112, k113, k114, k115, k116, k117, k118, k119) => fs64_aes256_encrypt_compact k0 k1 k2 k3 k4 k5 k6 k7 k8 k9 k10 k11 k12 k13 k14 k15 k16 k17 k18 k19 k20 k21 k22 k23 k24 k25 k26 k27 k28 k29 k30 k31 k32 k33 k34 k35 k36 k37 k38 k39 k40 k41 k42 k43 k44 k45 k46 k47 k48 k49 k50 k51 k52 k53 k54 k55 k56 k57 k58 k59 k60 k61 k62 k63 k64 k65 k66 k67 k68 k69 k70 k71 k72 k73 k74 k75 k76 k77 k78 k79 k80 k81 k82 k83 k84 k85 k86 k87 k88 k89 k90 k91 k92 k93 k94 k95 k96 k97 k98 k99 k100 k101 k102 k103 k104 k105 k106 k107 k108 k109 k110 k111 k112 k113 k114 k115 k116 k117 k118 k119 b0 b1 b2 b3

/-- `aes256_decrypt(&aes256_key_schedule(key), blocks)` of fixslice64.rs, `--cfg aes_compact` build — regenerated code only -/
def dec256c (key : BitVec 256) (b0 b1 b2 b3 : BitVec 128) : BitVec 128 × BitVec 128 × BitVec 128 × BitVec 128 :=
  match fs64_aes256_key_schedule_compact key with
  | (k0, k1, k2, k3, k4, k5, k6, k7, k8, k9, k10, k11, k12, k13, k14, k15, k16, k17, k18, k19, k20, k21, k22, k23, k24, k25, k26, k27, k28, k29, k30, k31, k32, k33, k34, k35, k36, k37, k38, k39, k40, k41, k42, k43, k44, k45, k46, k47, k48, k49, k50, k51, k52, k53, k54, k55, k56, k57, k58, k59, k60, k61, k62, k63, k64, k65, k66, k67, k68, k69, k70, k71, k72, k73, k74, k75, k76, k77, k78, k79, k80, k81, k82, k83, k84, k85, k86, k87, k88, k89, k90, k91, k92, k93, k94, k95, k96, k97, k98, k99, k100, k101, k102, k103, k104, k105, k106, k107, k108, k109, k110, k111, k112, k113, k114, k115, k116, k117, k118, k119) => fs64_aes256_decrypt_compact k0 k1 k2 k3 k4 k5 k6 k7 k8 k9 k10 k11 k12 k13 k14 k15 k16 k17 k18 k19 k20 k21 k22 k23 k24 k25 k26 k27 k28 k29 k30 k31 k32 k33 k34 k35 k36 k37 k38 k39 k40 k41 k42 k43 k44 k45 k46 k47 k48 k49 k50 k51 k52 k53 k54 k55 k56 k57 k58 k59 k60 k61 k62 k63 k64 k65 k66 k67 k68 k69 k70 k71 k72 k73 k74 k75 k76 k77 k78 k79 k80 k81 k82 k83 k84 k85 k86 k87 k88 k89 k90 k91 k92 k93 k94 k95 k96 k97 k98 k99 k100 k101 k102 k103 k104 k105 k106 k107 k108 k109 k110 k111 k112 k113 k114 k115 k116 k117 k118 k119 b0 b1 b2 b3

theorem enc256c_eq_impl (key : BitVec 256) (b0 b1 b2 b3 : BitVec 128) :
    enc256c key b0 b1 b2 b3 = BC.GenAes.Fs64.outB (BC.AesFs64.aes256_encrypt_compact (BC.AesFs64.rkFn (BC.AesFs64.aes256_key_schedule_compact key)) ⟨b0, b1, b2, b3⟩) := by
  unfold enc256c
  rw [BC.GenAes.Fs64.aes256_key_schedule_compact_eq]
  exact BC.GenAes.Fs64.aes256_encrypt_compact_eq_fn (BC.AesFs64.rkFn (BC.AesFs64.aes256_key_schedule_compact key)) b0 b1 b2 b3

theorem dec256c_eq_impl (key : BitVec 256) (b0 b1 b2 b3 : BitVec 128) :
    dec256c key b0 b1 b2 b3 = BC.GenAes.Fs64.outB (BC.AesFs64.aes256_decrypt_compact (BC.AesFs64.rkFn (BC.AesFs64.aes256_key_schedule_compact key)) ⟨b0, b1, b2, b3⟩) := by
  unfold dec256c
  rw [BC.GenAes.Fs64.aes256_key_schedule_compact_eq]
  exact BC.GenAes.Fs64.aes256_decrypt_compact_eq_fn (BC.AesFs64.rkFn (BC.AesFs64.aes256_key_schedule_compact key)) b0 b1 b2 b3

/-- decryption inverts encryption on every batch, every key -/
theorem dec256c_enc256c (key : BitVec 256) (b0 b1 b2 b3 : BitVec 128) :
    (match enc256c key b0 b1 b2 b3 with | (c0, c1, c2, c3) => dec256c key c0 c1 c2 c3) = (b0, b1, b2, b3) := by
  rw [enc256c_eq_impl]
  generalize hX : BC.AesFs64.aes256_encrypt_compact (BC.AesFs64.rkFn (BC.AesFs64.aes256_key_schedule_compact key)) ⟨b0, b1, b2, b3⟩ = X
  show dec256c key X.b0 X.b1 X.b2 X.b3 = _
  rw [dec256c_eq_impl]
  have e : (⟨X.b0, X.b1, X.b2, X.b3⟩ : BC.AesFs64.Batch) = X := rfl
  rw [e, ← hX, BC.AesFs64.aes256_decrypt_compact_aes256_encrypt_compact]; rfl

theorem enc256c_dec256c (key : BitVec 256) (b0 b1 b2 b3 : BitVec 128) :
    (match dec256c key b0 b1 b2 b3 with | (c0, c1, c2, c3) => enc256c key c0 c1 c2 c3) = (b0, b1, b2, b3) := by
  rw [dec256c_eq_impl]
  generalize hX : BC.AesFs64.aes256_decrypt_compact (BC.AesFs64.rkFn (BC.AesFs64.aes256_key_schedule_compact key)) ⟨b0, b1, b2, b3⟩ = X
  show enc256c key X.b0 X.b1 X.b2 X.b3 = _
  rw [enc256c_eq_impl]
  have e : (⟨X.b0, X.b1, X.b2, X.b3⟩ : BC.AesFs64.Batch) = X := rfl
  rw [e, ← hX, BC.AesFs64.aes256_encrypt_compact_aes256_decrypt_compact]; rfl

/-- every lane of the regenerated code computes FIPS-197 AES of that block -/
theorem enc256c_eq_spec (key : BitVec 256) (b0 b1 b2 b3 : BitVec 128) :
    enc256c key b0 b1 b2 b3 = (BC.Spec.Aes.encrypt (BC.unpackBE 32 key) b0, BC.Spec.Aes.encrypt (BC.unpackBE 32 key) b1,
      BC.Spec.Aes.encrypt (BC.unpackBE 32 key) b2, BC.Spec.Aes.encrypt (BC.unpackBE 32 key) b3) := by
  have h := (BC.AesFs64.aes256_compact_eq_spec (BC.unpackBE 32 key) (unpackBE32_length key)).2.2.1 ⟨b0, b1, b2, b3⟩
  rw [pack_unpack32] at h
  rw [enc256c_eq_impl, h]; rfl

theorem dec256c_eq_spec (key : BitVec 256) (b0 b1 b2 b3 : BitVec 128) :
    dec256c key b0 b1 b2 b3 = (BC.Spec.Aes.decrypt (BC.unpackBE 32 key) b0, BC.Spec.Aes.decrypt (BC.unpackBE 32 key) b1,
      BC.Spec.Aes.decrypt (BC.unpackBE 32 key) b2, BC.Spec.Aes.decrypt (BC.unpackBE 32 key) b3) := by
  have h := (BC.AesFs64.aes256_compact_eq_spec (BC.unpackBE 32 key) (unpackBE32_length key)).2.2.2 ⟨b0, b1, b2, b3⟩
  rw [pack_unpack32] at h
  rw [dec256c_eq_impl, h]; rfl

end BC.Code.AesFs64
