import BlockCiphers.Proofs.KuznyechikGf
import BlockCiphers.Proofs.KuznyechikBytes
/-
Kuznyechik: what is literally true of `l_step` in /repo/kuznyechik/src/utils.rs — for every index `i` it is an
INVOLUTION: it XORs a function of the fifteen other bytes into byte `(15 − i) & 15` and leaves those fifteen bytes
unchanged.  Hence the loop `l_step(·, 15), …, l_step(·, 0)` of `lsx_inv` undoes the loop `l_step(·, 0), …, l_step(·, 15)`
of `lsx` step by step (also obtained through L / L⁻¹ in Proofs/KuznyechikCompact.lean: `l_bwd_l_fwd`, `l_fwd_l_bwd`).
-/
namespace BC.Kuznyechik
open BC.Spec.Kuznyechik

theorem l_step_involutive (m : BitVec 128) : ∀ i, i < 16 → l_step (l_step m i) i = m := by
  apply forall_lt_16 <;>
  · simp only [l_step, get_m, get_idx, GFT_16_eq, GFT_32_eq, GFT_133_eq, GFT_148_eq, GFT_192_eq, GFT_194_eq,
      GFT_251_eq, getb, setb]
    simp only [gfmul_eq_gfc]
    simp only [gfc, bitmask]
    bv_decide (config := { timeout := 120 })

end BC.Kuznyechik
