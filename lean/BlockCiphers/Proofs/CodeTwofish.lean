import BlockCiphers.Gen.Cipher_Twofish
import BlockCiphers.Gen.Keys_Twofish
import BlockCiphers.Proofs.GenCipherTwofish
import BlockCiphers.Proofs.GenKeysTwofish
import BlockCiphers.Proofs.Twofish
import BlockCiphers.Proofs.TwofishSpec
/-!
Code-level theorems for Twofish: statements mention ONLY the regenerated code (`BC.Gen.Fn.twofish_new_from_slice_<n>`,
`twofish_s<start>_encrypt_block`, `twofish_s<start>_decrypt_block`) and the specification `BC.Spec.Twofish` (the Twofish
paper).  One family per accepted key length n = 16, 24, 32 bytes; the key is a `BitVec (8·n)` whose most significant byte is
byte 0 of the Rust slice (`(unpackBE n key).toArray` on the Spec side).  The translator emits one `encrypt_block` /
`decrypt_block` pair per value of the struct field `start`; `start_<n>` states that the regenerated constructor for n-byte
keys sets `start` to the value (2, 1, 0) whose pair `enc_<n>` / `dec_<n>` use.
Composition of
  (1) `BC.Twofish.decrypt_encrypt_key`, `encrypt_decrypt_key` (Proofs/Twofish.lean; Thm C01), `encrypt_eq_spec`,
      `decrypt_spec_encrypt`, `spec_encrypt_decrypt` (Proofs/TwofishSpec.lean; Thm C08; the specification defines
      encryption only, so "decrypt = Spec" is stated as: `dec` is the two-sided inverse of `Spec.Twofish.encrypt`),
  (2) `BC.GenCipher.Twofish.s<start>_encrypt_block_eq` / `s<start>_decrypt_block_eq`,
  (3) `BC.GenKeys.Twofish.new_from_slice_<n>_eq` (with `keySchedule_<n>`: all fields of the model's key schedule listed).
-/
set_option maxRecDepth 100000
namespace BC.Code.Twofish
open BC BC.Gen.Fn

/-! ### 16-byte keys (`start = 2`) -/

/-- `Twofish::new_from_slice(key).encrypt_block(b)` for a 16-byte key, on the regenerated code -/
def enc_16 (key : BitVec 128) (b : BitVec 128) : BitVec 128 :=
  match twofish_new_from_slice_16 key with
  | (s0, s1, s2, s3, s4, s5, s6, s7, s8, s9, s10, s11, s12, s13, s14, s15, k0, k1, k2, k3, k4, k5, k6, k7, k8, k9, k10, k11, k12, k13, k14, k15, k16, k17, k18, k19, k20, k21, k22, k23, k24, k25, k26, k27, k28, k29, k30, k31, k32, k33, k34, k35, k36, k37, k38, k39, _start) =>
    twofish_s2_encrypt_block s0 s1 s2 s3 s4 s5 s6 s7 s8 s9 s10 s11 s12 s13 s14 s15 k0 k1 k2 k3 k4 k5 k6 k7 k8 k9 k10 k11 k12 k13 k14 k15 k16 k17 k18 k19 k20 k21 k22 k23 k24 k25 k26 k27 k28 k29 k30 k31 k32 k33 k34 k35 k36 k37 k38 k39 b

/-- `Twofish::new_from_slice(key).decrypt_block(b)` for a 16-byte key, on the regenerated code -/
def dec_16 (key : BitVec 128) (b : BitVec 128) : BitVec 128 :=
  match twofish_new_from_slice_16 key with
  | (s0, s1, s2, s3, s4, s5, s6, s7, s8, s9, s10, s11, s12, s13, s14, s15, k0, k1, k2, k3, k4, k5, k6, k7, k8, k9, k10, k11, k12, k13, k14, k15, k16, k17, k18, k19, k20, k21, k22, k23, k24, k25, k26, k27, k28, k29, k30, k31, k32, k33, k34, k35, k36, k37, k38, k39, _start) =>
    twofish_s2_decrypt_block s0 s1 s2 s3 s4 s5 s6 s7 s8 s9 s10 s11 s12 s13 s14 s15 k0 k1 k2 k3 k4 k5 k6 k7 k8 k9 k10 k11 k12 k13 k14 k15 k16 k17 k18 k19 k20 k21 k22 k23 k24 k25 k26 k27 k28 k29 k30 k31 k32 k33 k34 k35 k36 k37 k38 k39 b

/-- the regenerated constructor for 16-byte keys sets the field `start` to 2 (the `s2` pair is the one to use) -/
theorem start_16 (key : BitVec 128) :
    (match twofish_new_from_slice_16 key with
     | (_, _, _, _, _, _, _, _, _, _, _, _, _, _, _, _, _, _, _, _, _, _, _, _, _, _, _, _, _, _, _, _, _, _, _, _, _, _, _, _, _, _, _, _, _, _, _, _, _, _, _, _, _, _, _, _, start) => start) = 2#64 := by
  rw [BC.GenKeys.Twofish.new_from_slice_16_eq key, BC.GenKeys.Twofish.keySchedule_16]
  rfl

theorem enc_16_eq_impl (key : BitVec 128) (b : BitVec 128) :
    enc_16 key b = BC.Twofish.encrypt (BC.Twofish.keySchedule (unpackBE 16 key).toArray) b := by
  unfold enc_16
  rw [BC.GenKeys.Twofish.new_from_slice_16_eq key, BC.GenKeys.Twofish.keySchedule_16]
  show twofish_s2_encrypt_block ((BC.GenKeys.Twofish.ks16 key).s.getD 0 0#8) ((BC.GenKeys.Twofish.ks16 key).s.getD 1 0#8) ((BC.GenKeys.Twofish.ks16 key).s.getD 2 0#8) ((BC.GenKeys.Twofish.ks16 key).s.getD 3 0#8) ((BC.GenKeys.Twofish.ks16 key).s.getD 4 0#8) ((BC.GenKeys.Twofish.ks16 key).s.getD 5 0#8) ((BC.GenKeys.Twofish.ks16 key).s.getD 6 0#8) ((BC.GenKeys.Twofish.ks16 key).s.getD 7 0#8) ((BC.GenKeys.Twofish.ks16 key).s.getD 8 0#8) ((BC.GenKeys.Twofish.ks16 key).s.getD 9 0#8) ((BC.GenKeys.Twofish.ks16 key).s.getD 10 0#8) ((BC.GenKeys.Twofish.ks16 key).s.getD 11 0#8) ((BC.GenKeys.Twofish.ks16 key).s.getD 12 0#8) ((BC.GenKeys.Twofish.ks16 key).s.getD 13 0#8) ((BC.GenKeys.Twofish.ks16 key).s.getD 14 0#8) ((BC.GenKeys.Twofish.ks16 key).s.getD 15 0#8) ((BC.GenKeys.Twofish.ks16 key).k[0]) ((BC.GenKeys.Twofish.ks16 key).k[1]) ((BC.GenKeys.Twofish.ks16 key).k[2]) ((BC.GenKeys.Twofish.ks16 key).k[3]) ((BC.GenKeys.Twofish.ks16 key).k[4]) ((BC.GenKeys.Twofish.ks16 key).k[5]) ((BC.GenKeys.Twofish.ks16 key).k[6]) ((BC.GenKeys.Twofish.ks16 key).k[7]) ((BC.GenKeys.Twofish.ks16 key).k[8]) ((BC.GenKeys.Twofish.ks16 key).k[9]) ((BC.GenKeys.Twofish.ks16 key).k[10]) ((BC.GenKeys.Twofish.ks16 key).k[11]) ((BC.GenKeys.Twofish.ks16 key).k[12]) ((BC.GenKeys.Twofish.ks16 key).k[13]) ((BC.GenKeys.Twofish.ks16 key).k[14]) ((BC.GenKeys.Twofish.ks16 key).k[15]) ((BC.GenKeys.Twofish.ks16 key).k[16]) ((BC.GenKeys.Twofish.ks16 key).k[17]) ((BC.GenKeys.Twofish.ks16 key).k[18]) ((BC.GenKeys.Twofish.ks16 key).k[19]) ((BC.GenKeys.Twofish.ks16 key).k[20]) ((BC.GenKeys.Twofish.ks16 key).k[21]) ((BC.GenKeys.Twofish.ks16 key).k[22]) ((BC.GenKeys.Twofish.ks16 key).k[23]) ((BC.GenKeys.Twofish.ks16 key).k[24]) ((BC.GenKeys.Twofish.ks16 key).k[25]) ((BC.GenKeys.Twofish.ks16 key).k[26]) ((BC.GenKeys.Twofish.ks16 key).k[27]) ((BC.GenKeys.Twofish.ks16 key).k[28]) ((BC.GenKeys.Twofish.ks16 key).k[29]) ((BC.GenKeys.Twofish.ks16 key).k[30]) ((BC.GenKeys.Twofish.ks16 key).k[31]) ((BC.GenKeys.Twofish.ks16 key).k[32]) ((BC.GenKeys.Twofish.ks16 key).k[33]) ((BC.GenKeys.Twofish.ks16 key).k[34]) ((BC.GenKeys.Twofish.ks16 key).k[35]) ((BC.GenKeys.Twofish.ks16 key).k[36]) ((BC.GenKeys.Twofish.ks16 key).k[37]) ((BC.GenKeys.Twofish.ks16 key).k[38]) ((BC.GenKeys.Twofish.ks16 key).k[39]) b = _
  rw [BC.GenCipher.Twofish.s2_encrypt_block_eq]
  rfl

theorem dec_16_eq_impl (key : BitVec 128) (b : BitVec 128) :
    dec_16 key b = BC.Twofish.decrypt (BC.Twofish.keySchedule (unpackBE 16 key).toArray) b := by
  unfold dec_16
  rw [BC.GenKeys.Twofish.new_from_slice_16_eq key, BC.GenKeys.Twofish.keySchedule_16]
  show twofish_s2_decrypt_block ((BC.GenKeys.Twofish.ks16 key).s.getD 0 0#8) ((BC.GenKeys.Twofish.ks16 key).s.getD 1 0#8) ((BC.GenKeys.Twofish.ks16 key).s.getD 2 0#8) ((BC.GenKeys.Twofish.ks16 key).s.getD 3 0#8) ((BC.GenKeys.Twofish.ks16 key).s.getD 4 0#8) ((BC.GenKeys.Twofish.ks16 key).s.getD 5 0#8) ((BC.GenKeys.Twofish.ks16 key).s.getD 6 0#8) ((BC.GenKeys.Twofish.ks16 key).s.getD 7 0#8) ((BC.GenKeys.Twofish.ks16 key).s.getD 8 0#8) ((BC.GenKeys.Twofish.ks16 key).s.getD 9 0#8) ((BC.GenKeys.Twofish.ks16 key).s.getD 10 0#8) ((BC.GenKeys.Twofish.ks16 key).s.getD 11 0#8) ((BC.GenKeys.Twofish.ks16 key).s.getD 12 0#8) ((BC.GenKeys.Twofish.ks16 key).s.getD 13 0#8) ((BC.GenKeys.Twofish.ks16 key).s.getD 14 0#8) ((BC.GenKeys.Twofish.ks16 key).s.getD 15 0#8) ((BC.GenKeys.Twofish.ks16 key).k[0]) ((BC.GenKeys.Twofish.ks16 key).k[1]) ((BC.GenKeys.Twofish.ks16 key).k[2]) ((BC.GenKeys.Twofish.ks16 key).k[3]) ((BC.GenKeys.Twofish.ks16 key).k[4]) ((BC.GenKeys.Twofish.ks16 key).k[5]) ((BC.GenKeys.Twofish.ks16 key).k[6]) ((BC.GenKeys.Twofish.ks16 key).k[7]) ((BC.GenKeys.Twofish.ks16 key).k[8]) ((BC.GenKeys.Twofish.ks16 key).k[9]) ((BC.GenKeys.Twofish.ks16 key).k[10]) ((BC.GenKeys.Twofish.ks16 key).k[11]) ((BC.GenKeys.Twofish.ks16 key).k[12]) ((BC.GenKeys.Twofish.ks16 key).k[13]) ((BC.GenKeys.Twofish.ks16 key).k[14]) ((BC.GenKeys.Twofish.ks16 key).k[15]) ((BC.GenKeys.Twofish.ks16 key).k[16]) ((BC.GenKeys.Twofish.ks16 key).k[17]) ((BC.GenKeys.Twofish.ks16 key).k[18]) ((BC.GenKeys.Twofish.ks16 key).k[19]) ((BC.GenKeys.Twofish.ks16 key).k[20]) ((BC.GenKeys.Twofish.ks16 key).k[21]) ((BC.GenKeys.Twofish.ks16 key).k[22]) ((BC.GenKeys.Twofish.ks16 key).k[23]) ((BC.GenKeys.Twofish.ks16 key).k[24]) ((BC.GenKeys.Twofish.ks16 key).k[25]) ((BC.GenKeys.Twofish.ks16 key).k[26]) ((BC.GenKeys.Twofish.ks16 key).k[27]) ((BC.GenKeys.Twofish.ks16 key).k[28]) ((BC.GenKeys.Twofish.ks16 key).k[29]) ((BC.GenKeys.Twofish.ks16 key).k[30]) ((BC.GenKeys.Twofish.ks16 key).k[31]) ((BC.GenKeys.Twofish.ks16 key).k[32]) ((BC.GenKeys.Twofish.ks16 key).k[33]) ((BC.GenKeys.Twofish.ks16 key).k[34]) ((BC.GenKeys.Twofish.ks16 key).k[35]) ((BC.GenKeys.Twofish.ks16 key).k[36]) ((BC.GenKeys.Twofish.ks16 key).k[37]) ((BC.GenKeys.Twofish.ks16 key).k[38]) ((BC.GenKeys.Twofish.ks16 key).k[39]) b = _
  rw [BC.GenCipher.Twofish.s2_decrypt_block_eq]
  rfl

theorem size_16 (key : BitVec 128) : (unpackBE 16 key).toArray.size = 16 := by
  simp [unpackBE]

theorem accepts_16 (key : BitVec 128) :
    (unpackBE 16 key).toArray.size = 16 ∨ (unpackBE 16 key).toArray.size = 24 ∨ (unpackBE 16 key).toArray.size = 32 := by
  rw [size_16]; decide

theorem dec_enc_16 (key : BitVec 128) (b : BitVec 128) : dec_16 key (enc_16 key b) = b := by
  rw [enc_16_eq_impl, dec_16_eq_impl, BC.Twofish.decrypt_encrypt_key]

theorem enc_dec_16 (key : BitVec 128) (b : BitVec 128) : enc_16 key (dec_16 key b) = b := by
  rw [enc_16_eq_impl, dec_16_eq_impl, BC.Twofish.encrypt_decrypt_key]

/-- the regenerated Twofish code = the Twofish paper's encryption, 16-byte keys -/
theorem enc_16_eq_spec (key : BitVec 128) (b : BitVec 128) :
    enc_16 key b = BC.Spec.Twofish.encrypt (unpackBE 16 key).toArray b := by
  rw [enc_16_eq_impl, BC.Twofish.encrypt_eq_spec _ (accepts_16 key)]

/-- the regenerated `decrypt_block` inverts the paper's encryption (left inverse), 16-byte keys -/
theorem dec_16_spec_encrypt (key : BitVec 128) (b : BitVec 128) :
    dec_16 key (BC.Spec.Twofish.encrypt (unpackBE 16 key).toArray b) = b := by
  rw [dec_16_eq_impl, BC.Twofish.decrypt_spec_encrypt _ (accepts_16 key)]

/-- … and is its right inverse: `dec_16 key` IS the inverse permutation of `Spec.Twofish.encrypt key` -/
theorem spec_encrypt_dec_16 (key : BitVec 128) (b : BitVec 128) :
    BC.Spec.Twofish.encrypt (unpackBE 16 key).toArray (dec_16 key b) = b := by
  rw [dec_16_eq_impl, BC.Twofish.spec_encrypt_decrypt _ (accepts_16 key)]

/-! ### 24-byte keys (`start = 1`) -/

/-- `Twofish::new_from_slice(key).encrypt_block(b)` for a 24-byte key, on the regenerated code -/
def enc_24 (key : BitVec 192) (b : BitVec 128) : BitVec 128 :=
  match twofish_new_from_slice_24 key with
  | (s0, s1, s2, s3, s4, s5, s6, s7, s8, s9, s10, s11, s12, s13, s14, s15, k0, k1, k2, k3, k4, k5, k6, k7, k8, k9, k10, k11, k12, k13, k14, k15, k16, k17, k18, k19, k20, k21, k22, k23, k24, k25, k26, k27, k28, k29, k30, k31, k32, k33, k34, k35, k36, k37, k38, k39, _start) =>
    twofish_s1_encrypt_block s0 s1 s2 s3 s4 s5 s6 s7 s8 s9 s10 s11 s12 s13 s14 s15 k0 k1 k2 k3 k4 k5 k6 k7 k8 k9 k10 k11 k12 k13 k14 k15 k16 k17 k18 k19 k20 k21 k22 k23 k24 k25 k26 k27 k28 k29 k30 k31 k32 k33 k34 k35 k36 k37 k38 k39 b

/-- `Twofish::new_from_slice(key).decrypt_block(b)` for a 24-byte key, on the regenerated code -/
def dec_24 (key : BitVec 192) (b : BitVec 128) : BitVec 128 :=
  match twofish_new_from_slice_24 key with
  | (s0, s1, s2, s3, s4, s5, s6, s7, s8, s9, s10, s11, s12, s13, s14, s15, k0, k1, k2, k3, k4, k5, k6, k7, k8, k9, k10, k11, k12, k13, k14, k15, k16, k17, k18, k19, k20, k21, k22, k23, k24, k25, k26, k27, k28, k29, k30, k31, k32, k33, k34, k35, k36, k37, k38, k39, _start) =>
    twofish_s1_decrypt_block s0 s1 s2 s3 s4 s5 s6 s7 s8 s9 s10 s11 s12 s13 s14 s15 k0 k1 k2 k3 k4 k5 k6 k7 k8 k9 k10 k11 k12 k13 k14 k15 k16 k17 k18 k19 k20 k21 k22 k23 k24 k25 k26 k27 k28 k29 k30 k31 k32 k33 k34 k35 k36 k37 k38 k39 b

/-- the regenerated constructor for 24-byte keys sets the field `start` to 1 (the `s1` pair is the one to use) -/
theorem start_24 (key : BitVec 192) :
    (match twofish_new_from_slice_24 key with
     | (_, _, _, _, _, _, _, _, _, _, _, _, _, _, _, _, _, _, _, _, _, _, _, _, _, _, _, _, _, _, _, _, _, _, _, _, _, _, _, _, _, _, _, _, _, _, _, _, _, _, _, _, _, _, _, _, start) => start) = 1#64 := by
  rw [BC.GenKeys.Twofish.new_from_slice_24_eq key, BC.GenKeys.Twofish.keySchedule_24]
  rfl

theorem enc_24_eq_impl (key : BitVec 192) (b : BitVec 128) :
    enc_24 key b = BC.Twofish.encrypt (BC.Twofish.keySchedule (unpackBE 24 key).toArray) b := by
  unfold enc_24
  rw [BC.GenKeys.Twofish.new_from_slice_24_eq key, BC.GenKeys.Twofish.keySchedule_24]
  show twofish_s1_encrypt_block ((BC.GenKeys.Twofish.ks24 key).s.getD 0 0#8) ((BC.GenKeys.Twofish.ks24 key).s.getD 1 0#8) ((BC.GenKeys.Twofish.ks24 key).s.getD 2 0#8) ((BC.GenKeys.Twofish.ks24 key).s.getD 3 0#8) ((BC.GenKeys.Twofish.ks24 key).s.getD 4 0#8) ((BC.GenKeys.Twofish.ks24 key).s.getD 5 0#8) ((BC.GenKeys.Twofish.ks24 key).s.getD 6 0#8) ((BC.GenKeys.Twofish.ks24 key).s.getD 7 0#8) ((BC.GenKeys.Twofish.ks24 key).s.getD 8 0#8) ((BC.GenKeys.Twofish.ks24 key).s.getD 9 0#8) ((BC.GenKeys.Twofish.ks24 key).s.getD 10 0#8) ((BC.GenKeys.Twofish.ks24 key).s.getD 11 0#8) ((BC.GenKeys.Twofish.ks24 key).s.getD 12 0#8) ((BC.GenKeys.Twofish.ks24 key).s.getD 13 0#8) ((BC.GenKeys.Twofish.ks24 key).s.getD 14 0#8) ((BC.GenKeys.Twofish.ks24 key).s.getD 15 0#8) ((BC.GenKeys.Twofish.ks24 key).k[0]) ((BC.GenKeys.Twofish.ks24 key).k[1]) ((BC.GenKeys.Twofish.ks24 key).k[2]) ((BC.GenKeys.Twofish.ks24 key).k[3]) ((BC.GenKeys.Twofish.ks24 key).k[4]) ((BC.GenKeys.Twofish.ks24 key).k[5]) ((BC.GenKeys.Twofish.ks24 key).k[6]) ((BC.GenKeys.Twofish.ks24 key).k[7]) ((BC.GenKeys.Twofish.ks24 key).k[8]) ((BC.GenKeys.Twofish.ks24 key).k[9]) ((BC.GenKeys.Twofish.ks24 key).k[10]) ((BC.GenKeys.Twofish.ks24 key).k[11]) ((BC.GenKeys.Twofish.ks24 key).k[12]) ((BC.GenKeys.Twofish.ks24 key).k[13]) ((BC.GenKeys.Twofish.ks24 key).k[14]) ((BC.GenKeys.Twofish.ks24 key).k[15]) ((BC.GenKeys.Twofish.ks24 key).k[16]) ((BC.GenKeys.Twofish.ks24 key).k[17]) ((BC.GenKeys.Twofish.ks24 key).k[18]) ((BC.GenKeys.Twofish.ks24 key).k[19]) ((BC.GenKeys.Twofish.ks24 key).k[20]) ((BC.GenKeys.Twofish.ks24 key).k[21]) ((BC.GenKeys.Twofish.ks24 key).k[22]) ((BC.GenKeys.Twofish.ks24 key).k[23]) ((BC.GenKeys.Twofish.ks24 key).k[24]) ((BC.GenKeys.Twofish.ks24 key).k[25]) ((BC.GenKeys.Twofish.ks24 key).k[26]) ((BC.GenKeys.Twofish.ks24 key).k[27]) ((BC.GenKeys.Twofish.ks24 key).k[28]) ((BC.GenKeys.Twofish.ks24 key).k[29]) ((BC.GenKeys.Twofish.ks24 key).k[30]) ((BC.GenKeys.Twofish.ks24 key).k[31]) ((BC.GenKeys.Twofish.ks24 key).k[32]) ((BC.GenKeys.Twofish.ks24 key).k[33]) ((BC.GenKeys.Twofish.ks24 key).k[34]) ((BC.GenKeys.Twofish.ks24 key).k[35]) ((BC.GenKeys.Twofish.ks24 key).k[36]) ((BC.GenKeys.Twofish.ks24 key).k[37]) ((BC.GenKeys.Twofish.ks24 key).k[38]) ((BC.GenKeys.Twofish.ks24 key).k[39]) b = _
  rw [BC.GenCipher.Twofish.s1_encrypt_block_eq]
  rfl

theorem dec_24_eq_impl (key : BitVec 192) (b : BitVec 128) :
    dec_24 key b = BC.Twofish.decrypt (BC.Twofish.keySchedule (unpackBE 24 key).toArray) b := by
  unfold dec_24
  rw [BC.GenKeys.Twofish.new_from_slice_24_eq key, BC.GenKeys.Twofish.keySchedule_24]
  show twofish_s1_decrypt_block ((BC.GenKeys.Twofish.ks24 key).s.getD 0 0#8) ((BC.GenKeys.Twofish.ks24 key).s.getD 1 0#8) ((BC.GenKeys.Twofish.ks24 key).s.getD 2 0#8) ((BC.GenKeys.Twofish.ks24 key).s.getD 3 0#8) ((BC.GenKeys.Twofish.ks24 key).s.getD 4 0#8) ((BC.GenKeys.Twofish.ks24 key).s.getD 5 0#8) ((BC.GenKeys.Twofish.ks24 key).s.getD 6 0#8) ((BC.GenKeys.Twofish.ks24 key).s.getD 7 0#8) ((BC.GenKeys.Twofish.ks24 key).s.getD 8 0#8) ((BC.GenKeys.Twofish.ks24 key).s.getD 9 0#8) ((BC.GenKeys.Twofish.ks24 key).s.getD 10 0#8) ((BC.GenKeys.Twofish.ks24 key).s.getD 11 0#8) ((BC.GenKeys.Twofish.ks24 key).s.getD 12 0#8) ((BC.GenKeys.Twofish.ks24 key).s.getD 13 0#8) ((BC.GenKeys.Twofish.ks24 key).s.getD 14 0#8) ((BC.GenKeys.Twofish.ks24 key).s.getD 15 0#8) ((BC.GenKeys.Twofish.ks24 key).k[0]) ((BC.GenKeys.Twofish.ks24 key).k[1]) ((BC.GenKeys.Twofish.ks24 key).k[2]) ((BC.GenKeys.Twofish.ks24 key).k[3]) ((BC.GenKeys.Twofish.ks24 key).k[4]) ((BC.GenKeys.Twofish.ks24 key).k[5]) ((BC.GenKeys.Twofish.ks24 key).k[6]) ((BC.GenKeys.Twofish.ks24 key).k[7]) ((BC.GenKeys.Twofish.ks24 key).k[8]) ((BC.GenKeys.Twofish.ks24 key).k[9]) ((BC.GenKeys.Twofish.ks24 key).k[10]) ((BC.GenKeys.Twofish.ks24 key).k[11]) ((BC.GenKeys.Twofish.ks24 key).k[12]) ((BC.GenKeys.Twofish.ks24 key).k[13]) ((BC.GenKeys.Twofish.ks24 key).k[14]) ((BC.GenKeys.Twofish.ks24 key).k[15]) ((BC.GenKeys.Twofish.ks24 key).k[16]) ((BC.GenKeys.Twofish.ks24 key).k[17]) ((BC.GenKeys.Twofish.ks24 key).k[18]) ((BC.GenKeys.Twofish.ks24 key).k[19]) ((BC.GenKeys.Twofish.ks24 key).k[20]) ((BC.GenKeys.Twofish.ks24 key).k[21]) ((BC.GenKeys.Twofish.ks24 key).k[22]) ((BC.GenKeys.Twofish.ks24 key).k[23]) ((BC.GenKeys.Twofish.ks24 key).k[24]) ((BC.GenKeys.Twofish.ks24 key).k[25]) ((BC.GenKeys.Twofish.ks24 key).k[26]) ((BC.GenKeys.Twofish.ks24 key).k[27]) ((BC.GenKeys.Twofish.ks24 key).k[28]) ((BC.GenKeys.Twofish.ks24 key).k[29]) ((BC.GenKeys.Twofish.ks24 key).k[30]) ((BC.GenKeys.Twofish.ks24 key).k[31]) ((BC.GenKeys.Twofish.ks24 key).k[32]) ((BC.GenKeys.Twofish.ks24 key).k[33]) ((BC.GenKeys.Twofish.ks24 key).k[34]) ((BC.GenKeys.Twofish.ks24 key).k[35]) ((BC.GenKeys.Twofish.ks24 key).k[36]) ((BC.GenKeys.Twofish.ks24 key).k[37]) ((BC.GenKeys.Twofish.ks24 key).k[38]) ((BC.GenKeys.Twofish.ks24 key).k[39]) b = _
  rw [BC.GenCipher.Twofish.s1_decrypt_block_eq]
  rfl

theorem size_24 (key : BitVec 192) : (unpackBE 24 key).toArray.size = 24 := by
  simp [unpackBE]

theorem accepts_24 (key : BitVec 192) :
    (unpackBE 24 key).toArray.size = 16 ∨ (unpackBE 24 key).toArray.size = 24 ∨ (unpackBE 24 key).toArray.size = 32 := by
  rw [size_24]; decide

theorem dec_enc_24 (key : BitVec 192) (b : BitVec 128) : dec_24 key (enc_24 key b) = b := by
  rw [enc_24_eq_impl, dec_24_eq_impl, BC.Twofish.decrypt_encrypt_key]

theorem enc_dec_24 (key : BitVec 192) (b : BitVec 128) : enc_24 key (dec_24 key b) = b := by
  rw [enc_24_eq_impl, dec_24_eq_impl, BC.Twofish.encrypt_decrypt_key]

/-- the regenerated Twofish code = the Twofish paper's encryption, 24-byte keys -/
theorem enc_24_eq_spec (key : BitVec 192) (b : BitVec 128) :
    enc_24 key b = BC.Spec.Twofish.encrypt (unpackBE 24 key).toArray b := by
  rw [enc_24_eq_impl, BC.Twofish.encrypt_eq_spec _ (accepts_24 key)]

/-- the regenerated `decrypt_block` inverts the paper's encryption (left inverse), 24-byte keys -/
theorem dec_24_spec_encrypt (key : BitVec 192) (b : BitVec 128) :
    dec_24 key (BC.Spec.Twofish.encrypt (unpackBE 24 key).toArray b) = b := by
  rw [dec_24_eq_impl, BC.Twofish.decrypt_spec_encrypt _ (accepts_24 key)]

/-- … and is its right inverse: `dec_24 key` IS the inverse permutation of `Spec.Twofish.encrypt key` -/
theorem spec_encrypt_dec_24 (key : BitVec 192) (b : BitVec 128) :
    BC.Spec.Twofish.encrypt (unpackBE 24 key).toArray (dec_24 key b) = b := by
  rw [dec_24_eq_impl, BC.Twofish.spec_encrypt_decrypt _ (accepts_24 key)]

/-! ### 32-byte keys (`start = 0`) -/

/-- `Twofish::new_from_slice(key).encrypt_block(b)` for a 32-byte key, on the regenerated code -/
def enc_32 (key : BitVec 256) (b : BitVec 128) : BitVec 128 :=
  match twofish_new_from_slice_32 key with
  | (s0, s1, s2, s3, s4, s5, s6, s7, s8, s9, s10, s11, s12, s13, s14, s15, k0, k1, k2, k3, k4, k5, k6, k7, k8, k9, k10, k11, k12, k13, k14, k15, k16, k17, k18, k19, k20, k21, k22, k23, k24, k25, k26, k27, k28, k29, k30, k31, k32, k33, k34, k35, k36, k37, k38, k39, _start) =>
    twofish_s0_encrypt_block s0 s1 s2 s3 s4 s5 s6 s7 s8 s9 s10 s11 s12 s13 s14 s15 k0 k1 k2 k3 k4 k5 k6 k7 k8 k9 k10 k11 k12 k13 k14 k15 k16 k17 k18 k19 k20 k21 k22 k23 k24 k25 k26 k27 k28 k29 k30 k31 k32 k33 k34 k35 k36 k37 k38 k39 b

/-- `Twofish::new_from_slice(key).decrypt_block(b)` for a 32-byte key, on the regenerated code -/
def dec_32 (key : BitVec 256) (b : BitVec 128) : BitVec 128 :=
  match twofish_new_from_slice_32 key with
  | (s0, s1, s2, s3, s4, s5, s6, s7, s8, s9, s10, s11, s12, s13, s14, s15, k0, k1, k2, k3, k4, k5, k6, k7, k8, k9, k10, k11, k12, k13, k14, k15, k16, k17, k18, k19, k20, k21, k22, k23, k24, k25, k26, k27, k28, k29, k30, k31, k32, k33, k34, k35, k36, k37, k38, k39, _start) =>
    twofish_s0_decrypt_block s0 s1 s2 s3 s4 s5 s6 s7 s8 s9 s10 s11 s12 s13 s14 s15 k0 k1 k2 k3 k4 k5 k6 k7 k8 k9 k10 k11 k12 k13 k14 k15 k16 k17 k18 k19 k20 k21 k22 k23 k24 k25 k26 k27 k28 k29 k30 k31 k32 k33 k34 k35 k36 k37 k38 k39 b

/-- the regenerated constructor for 32-byte keys sets the field `start` to 0 (the `s0` pair is the one to use) -/
theorem start_32 (key : BitVec 256) :
    (match twofish_new_from_slice_32 key with
     | (_, _, _, _, _, _, _, _, _, _, _, _, _, _, _, _, _, _, _, _, _, _, _, _, _, _, _, _, _, _, _, _, _, _, _, _, _, _, _, _, _, _, _, _, _, _, _, _, _, _, _, _, _, _, _, _, start) => start) = 0#64 := by
  rw [BC.GenKeys.Twofish.new_from_slice_32_eq key, BC.GenKeys.Twofish.keySchedule_32]
  rfl

theorem enc_32_eq_impl (key : BitVec 256) (b : BitVec 128) :
    enc_32 key b = BC.Twofish.encrypt (BC.Twofish.keySchedule (unpackBE 32 key).toArray) b := by
  unfold enc_32
  rw [BC.GenKeys.Twofish.new_from_slice_32_eq key, BC.GenKeys.Twofish.keySchedule_32]
  show twofish_s0_encrypt_block ((BC.GenKeys.Twofish.ks32 key).s.getD 0 0#8) ((BC.GenKeys.Twofish.ks32 key).s.getD 1 0#8) ((BC.GenKeys.Twofish.ks32 key).s.getD 2 0#8) ((BC.GenKeys.Twofish.ks32 key).s.getD 3 0#8) ((BC.GenKeys.Twofish.ks32 key).s.getD 4 0#8) ((BC.GenKeys.Twofish.ks32 key).s.getD 5 0#8) ((BC.GenKeys.Twofish.ks32 key).s.getD 6 0#8) ((BC.GenKeys.Twofish.ks32 key).s.getD 7 0#8) ((BC.GenKeys.Twofish.ks32 key).s.getD 8 0#8) ((BC.GenKeys.Twofish.ks32 key).s.getD 9 0#8) ((BC.GenKeys.Twofish.ks32 key).s.getD 10 0#8) ((BC.GenKeys.Twofish.ks32 key).s.getD 11 0#8) ((BC.GenKeys.Twofish.ks32 key).s.getD 12 0#8) ((BC.GenKeys.Twofish.ks32 key).s.getD 13 0#8) ((BC.GenKeys.Twofish.ks32 key).s.getD 14 0#8) ((BC.GenKeys.Twofish.ks32 key).s.getD 15 0#8) ((BC.GenKeys.Twofish.ks32 key).k[0]) ((BC.GenKeys.Twofish.ks32 key).k[1]) ((BC.GenKeys.Twofish.ks32 key).k[2]) ((BC.GenKeys.Twofish.ks32 key).k[3]) ((BC.GenKeys.Twofish.ks32 key).k[4]) ((BC.GenKeys.Twofish.ks32 key).k[5]) ((BC.GenKeys.Twofish.ks32 key).k[6]) ((BC.GenKeys.Twofish.ks32 key).k[7]) ((BC.GenKeys.Twofish.ks32 key).k[8]) ((BC.GenKeys.Twofish.ks32 key).k[9]) ((BC.GenKeys.Twofish.ks32 key).k[10]) ((BC.GenKeys.Twofish.ks32 key).k[11]) ((BC.GenKeys.Twofish.ks32 key).k[12]) ((BC.GenKeys.Twofish.ks32 key).k[13]) ((BC.GenKeys.Twofish.ks32 key).k[14]) ((BC.GenKeys.Twofish.ks32 key).k[15]) ((BC.GenKeys.Twofish.ks32 key).k[16]) ((BC.GenKeys.Twofish.ks32 key).k[17]) ((BC.GenKeys.Twofish.ks32 key).k[18]) ((BC.GenKeys.Twofish.ks32 key).k[19]) ((BC.GenKeys.Twofish.ks32 key).k[20]) ((BC.GenKeys.Twofish.ks32 key).k[21]) ((BC.GenKeys.Twofish.ks32 key).k[22]) ((BC.GenKeys.Twofish.ks32 key).k[23]) ((BC.GenKeys.Twofish.ks32 key).k[24]) ((BC.GenKeys.Twofish.ks32 key).k[25]) ((BC.GenKeys.Twofish.ks32 key).k[26]) ((BC.GenKeys.Twofish.ks32 key).k[27]) ((BC.GenKeys.Twofish.ks32 key).k[28]) ((BC.GenKeys.Twofish.ks32 key).k[29]) ((BC.GenKeys.Twofish.ks32 key).k[30]) ((BC.GenKeys.Twofish.ks32 key).k[31]) ((BC.GenKeys.Twofish.ks32 key).k[32]) ((BC.GenKeys.Twofish.ks32 key).k[33]) ((BC.GenKeys.Twofish.ks32 key).k[34]) ((BC.GenKeys.Twofish.ks32 key).k[35]) ((BC.GenKeys.Twofish.ks32 key).k[36]) ((BC.GenKeys.Twofish.ks32 key).k[37]) ((BC.GenKeys.Twofish.ks32 key).k[38]) ((BC.GenKeys.Twofish.ks32 key).k[39]) b = _
  rw [BC.GenCipher.Twofish.s0_encrypt_block_eq]
  rfl

theorem dec_32_eq_impl (key : BitVec 256) (b : BitVec 128) :
    dec_32 key b = BC.Twofish.decrypt (BC.Twofish.keySchedule (unpackBE 32 key).toArray) b := by
  unfold dec_32
  rw [BC.GenKeys.Twofish.new_from_slice_32_eq key, BC.GenKeys.Twofish.keySchedule_32]
  show twofish_s0_decrypt_block ((BC.GenKeys.Twofish.ks32 key).s.getD 0 0#8) ((BC.GenKeys.Twofish.ks32 key).s.getD 1 0#8) ((BC.GenKeys.Twofish.ks32 key).s.getD 2 0#8) ((BC.GenKeys.Twofish.ks32 key).s.getD 3 0#8) ((BC.GenKeys.Twofish.ks32 key).s.getD 4 0#8) ((BC.GenKeys.Twofish.ks32 key).s.getD 5 0#8) ((BC.GenKeys.Twofish.ks32 key).s.getD 6 0#8) ((BC.GenKeys.Twofish.ks32 key).s.getD 7 0#8) ((BC.GenKeys.Twofish.ks32 key).s.getD 8 0#8) ((BC.GenKeys.Twofish.ks32 key).s.getD 9 0#8) ((BC.GenKeys.Twofish.ks32 key).s.getD 10 0#8) ((BC.GenKeys.Twofish.ks32 key).s.getD 11 0#8) ((BC.GenKeys.Twofish.ks32 key).s.getD 12 0#8) ((BC.GenKeys.Twofish.ks32 key).s.getD 13 0#8) ((BC.GenKeys.Twofish.ks32 key).s.getD 14 0#8) ((BC.GenKeys.Twofish.ks32 key).s.getD 15 0#8) ((BC.GenKeys.Twofish.ks32 key).k[0]) ((BC.GenKeys.Twofish.ks32 key).k[1]) ((BC.GenKeys.Twofish.ks32 key).k[2]) ((BC.GenKeys.Twofish.ks32 key).k[3]) ((BC.GenKeys.Twofish.ks32 key).k[4]) ((BC.GenKeys.Twofish.ks32 key).k[5]) ((BC.GenKeys.Twofish.ks32 key).k[6]) ((BC.GenKeys.Twofish.ks32 key).k[7]) ((BC.GenKeys.Twofish.ks32 key).k[8]) ((BC.GenKeys.Twofish.ks32 key).k[9]) ((BC.GenKeys.Twofish.ks32 key).k[10]) ((BC.GenKeys.Twofish.ks32 key).k[11]) ((BC.GenKeys.Twofish.ks32 key).k[12]) ((BC.GenKeys.Twofish.ks32 key).k[13]) ((BC.GenKeys.Twofish.ks32 key).k[14]) ((BC.GenKeys.Twofish.ks32 key).k[15]) ((BC.GenKeys.Twofish.ks32 key).k[16]) ((BC.GenKeys.Twofish.ks32 key).k[17]) ((BC.GenKeys.Twofish.ks32 key).k[18]) ((BC.GenKeys.Twofish.ks32 key).k[19]) ((BC.GenKeys.Twofish.ks32 key).k[20]) ((BC.GenKeys.Twofish.ks32 key).k[21]) ((BC.GenKeys.Twofish.ks32 key).k[22]) ((BC.GenKeys.Twofish.ks32 key).k[23]) ((BC.GenKeys.Twofish.ks32 key).k[24]) ((BC.GenKeys.Twofish.ks32 key).k[25]) ((BC.GenKeys.Twofish.ks32 key).k[26]) ((BC.GenKeys.Twofish.ks32 key).k[27]) ((BC.GenKeys.Twofish.ks32 key).k[28]) ((BC.GenKeys.Twofish.ks32 key).k[29]) ((BC.GenKeys.Twofish.ks32 key).k[30]) ((BC.GenKeys.Twofish.ks32 key).k[31]) ((BC.GenKeys.Twofish.ks32 key).k[32]) ((BC.GenKeys.Twofish.ks32 key).k[33]) ((BC.GenKeys.Twofish.ks32 key).k[34]) ((BC.GenKeys.Twofish.ks32 key).k[35]) ((BC.GenKeys.Twofish.ks32 key).k[36]) ((BC.GenKeys.Twofish.ks32 key).k[37]) ((BC.GenKeys.Twofish.ks32 key).k[38]) ((BC.GenKeys.Twofish.ks32 key).k[39]) b = _
  rw [BC.GenCipher.Twofish.s0_decrypt_block_eq]
  rfl

theorem size_32 (key : BitVec 256) : (unpackBE 32 key).toArray.size = 32 := by
  simp [unpackBE]

theorem accepts_32 (key : BitVec 256) :
    (unpackBE 32 key).toArray.size = 16 ∨ (unpackBE 32 key).toArray.size = 24 ∨ (unpackBE 32 key).toArray.size = 32 := by
  rw [size_32]; decide

theorem dec_enc_32 (key : BitVec 256) (b : BitVec 128) : dec_32 key (enc_32 key b) = b := by
  rw [enc_32_eq_impl, dec_32_eq_impl, BC.Twofish.decrypt_encrypt_key]

theorem enc_dec_32 (key : BitVec 256) (b : BitVec 128) : enc_32 key (dec_32 key b) = b := by
  rw [enc_32_eq_impl, dec_32_eq_impl, BC.Twofish.encrypt_decrypt_key]

/-- the regenerated Twofish code = the Twofish paper's encryption, 32-byte keys -/
theorem enc_32_eq_spec (key : BitVec 256) (b : BitVec 128) :
    enc_32 key b = BC.Spec.Twofish.encrypt (unpackBE 32 key).toArray b := by
  rw [enc_32_eq_impl, BC.Twofish.encrypt_eq_spec _ (accepts_32 key)]

/-- the regenerated `decrypt_block` inverts the paper's encryption (left inverse), 32-byte keys -/
theorem dec_32_spec_encrypt (key : BitVec 256) (b : BitVec 128) :
    dec_32 key (BC.Spec.Twofish.encrypt (unpackBE 32 key).toArray b) = b := by
  rw [dec_32_eq_impl, BC.Twofish.decrypt_spec_encrypt _ (accepts_32 key)]

/-- … and is its right inverse: `dec_32 key` IS the inverse permutation of `Spec.Twofish.encrypt key` -/
theorem spec_encrypt_dec_32 (key : BitVec 256) (b : BitVec 128) :
    BC.Spec.Twofish.encrypt (unpackBE 32 key).toArray (dec_32 key b) = b := by
  rw [dec_32_eq_impl, BC.Twofish.spec_encrypt_decrypt _ (accepts_32 key)]

end BC.Code.Twofish