import BlockCiphers.Proofs.AesFs64Arr
import BlockCiphers.Proofs.AesFs64KsSpec
import BlockCiphers.Proofs.AesFs64CommSB
import BlockCiphers.Proofs.AesFs64KeyForm
/-!
C02 stage (iv): `aes128_key_schedule` (normal and compact) produces, for every key, the FIPS-197
round keys `roundKey (keyExpansion 4 10 key) r`, r = 0..10, the same key in all four lanes, in the
fixsliced form `fsKey 10 r` / `fsKeyC r` that `Proofs/AesFs64Cipher` assumes.
-/
namespace BC.AesFs64
open BC.Spec.Aes
set_option linter.unusedSimpArgs false

/-- the four big-endian words of a 16-byte key -/
def words128 (key : BitVec 128) : List (BitVec 32) :=
  [key.extractLsb' 96 32, key.extractLsb' 64 32, key.extractLsb' 32 32, key.extractLsb' 0 32]

/-- FIPS-197 round key `r` of a 128-bit key -/
def rk128 (key : BitVec 128) (r : Nat) : BitVec 128 := roundKey (keyExpansion 4 10 (words128 key)) r

/-- the sequence of 8-word groups the loop of `aes128_key_schedule` writes -/
def ks128S (key : BitVec 128) : Nat → St
  | 0 => bitslice key key key key
  | r + 1 => xor_columns_st (ks128S key r) (arc128 r (sub_bytes_nots (sub_bytes (ks128S key r)))) (ror_distance 1 3)

theorem rk128_zero (key : BitVec 128) : rk128 key 0 = key := by
  simp only [rk128, roundKey, keyExpansion_eq_kxA, words128]
  rw [kxA_getD_init _ _ _ _ (by simp), kxA_getD_init _ _ _ _ (by simp), kxA_getD_init _ _ _ _ (by simp),
    kxA_getD_init _ _ _ _ (by simp)]
  simp only [List.getD, List.getElem?_cons_zero, List.getElem?_cons_succ, Option.getD_some, Nat.reduceMul, Nat.reduceAdd]
  bv_decide (config := { timeout := 600 })

theorem rk128_succ (key : BitVec 128) (r : Nat) (hr : r < 10) :
    rk128 key (r + 1) = linKS true (rcon (r + 1)) (rk128 key r) (subBytes (rk128 key r)) :=
  roundKey_succ_128 (words128 key) rfl r hr

theorem rcon_vals : rcon 1 = 0x01000000#32 ∧ rcon 2 = 0x02000000#32 ∧ rcon 3 = 0x04000000#32 ∧
    rcon 4 = 0x08000000#32 ∧ rcon 5 = 0x10000000#32 ∧ rcon 6 = 0x20000000#32 ∧ rcon 7 = 0x40000000#32 ∧
    rcon 8 = 0x80000000#32 ∧ rcon 9 = 0x1b000000#32 ∧ rcon 10 = 0x36000000#32 := by decide

theorem ks128S_step (key : BitVec 128) (r : Nat) (hr : r < 10)
    (ih : ks128S key r = bitslice (rk128 key r) (rk128 key r) (rk128 key r) (rk128 key r)) :
    ks128S key (r + 1) = bitslice (rk128 key (r + 1)) (rk128 key (r + 1)) (rk128 key (r + 1)) (rk128 key (r + 1)) := by
  rw [ks128S, ih, sub_bytes_rep0, sub_bytes_nots_invol, rk128_succ key r hr]
  obtain ⟨c1, c2, c3, c4, c5, c6, c7, c8, c9, c10⟩ := rcon_vals
  match r, hr with
  | 0, _ => rw [ks_step_rot_0, c1]
  | 1, _ => rw [ks_step_rot_1, c2]
  | 2, _ => rw [ks_step_rot_2, c3]
  | 3, _ => rw [ks_step_rot_3, c4]
  | 4, _ => rw [ks_step_rot_4, c5]
  | 5, _ => rw [ks_step_rot_5, c6]
  | 6, _ => rw [ks_step_rot_6, c7]
  | 7, _ => rw [ks_step_rot_7, c8]
  | 8, _ => rw [ks_step_rot_8, c9]
  | 9, _ => rw [ks_step_rot_9, c10]

/-- the loop of the key schedule computes the FIPS round keys, packed with the same key in all four lanes -/
theorem ks128S_spec (key : BitVec 128) (r : Nat) (hr : r ≤ 10) :
    ks128S key r = bitslice (rk128 key r) (rk128 key r) (rk128 key r) (rk128 key r) := by
  induction r with
  | zero => rw [ks128S, rk128_zero]
  | succ r ih => exact ks128S_step key r (by omega) (ih (by omega))

end BC.AesFs64
