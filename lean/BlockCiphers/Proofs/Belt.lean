import BlockCiphers.Proofs.Basic
import BlockCiphers.Impl.Belt
/-
BelT block (belt_block_raw / BeltBlock): decryption inverts encryption, both orders, every key.
Each of the nine sub-steps of a round is undone in place by the corresponding sub-step of the
decryption round run on the word-reversed state.
-/
namespace BC.Belt

/-- full word reversal `(a, b, c, d) ↦ (d, c, b, a)` = the square of the round permutation -/
def rev (s : W4) : W4 := { a := s.d, b := s.c, c := s.b, d := s.a }

/-- the permutation at the end of an encryption round / of `belt_block_raw`: `(a,b,c,d) ↦ (b,d,a,c)` -/
def permE (s : W4) : W4 := { a := s.b, b := s.d, c := s.a, d := s.c }

/-- the permutation at the end of a decryption round / of `decrypt_block`: `(a,b,c,d) ↦ (c,a,d,b)` -/
def permD (s : W4) : W4 := { a := s.c, b := s.a, c := s.d, d := s.b }

theorem permD_permE (s : W4) : permD (permE s) = s := by cases s; rfl
theorem permE_permD (s : W4) : permE (permD s) = s := by cases s; rfl
theorem permE_permE (s : W4) : permE (permE s) = rev s := by cases s; rfl
theorem permD_permD (s : W4) : permD (permD s) = rev s := by cases s; rfl
theorem rev_rev (s : W4) : rev (rev s) = s := by cases s; rfl

/-- steps 5.1 – 5.9 of an encryption round (before the swaps) -/
def encF (key : Key) (i : Nat) (s : W4) : W4 :=
  let a := s.a; let b := s.b; let c := s.c; let d := s.d
  let b := b ^^^ g5 (a + key_idx key i 6)
  let c := c ^^^ g21 (d + key_idx key i 5)
  let a := a - g13 (b + key_idx key i 4)
  let e := g21 (b + c + key_idx key i 3) ^^^ BitVec.ofNat 32 i
  let b := b + e
  let c := c - e
  let d := d + g13 (c + key_idx key i 2)
  let b := b ^^^ g21 (a + key_idx key i 1)
  let c := c ^^^ g5 (d + key_idx key i 0)
  { a := a, b := b, c := c, d := d }

/-- steps 5.1 – 5.9 of a decryption round -/
def decF (key : Key) (i : Nat) (s : W4) : W4 :=
  let a := s.a; let b := s.b; let c := s.c; let d := s.d
  let b := b ^^^ g5 (a + key_idx key i 0)
  let c := c ^^^ g21 (d + key_idx key i 1)
  let a := a - g13 (b + key_idx key i 2)
  let e := g21 (b + c + key_idx key i 3) ^^^ BitVec.ofNat 32 i
  let b := b + e
  let c := c - e
  let d := d + g13 (c + key_idx key i 4)
  let b := b ^^^ g21 (a + key_idx key i 5)
  let c := c ^^^ g5 (d + key_idx key i 6)
  { a := a, b := b, c := c, d := d }

theorem encRound_eq (key : Key) (i : Nat) (s : W4) : encRound key i s = permE (encF key i s) := rfl
theorem decRound_eq (key : Key) (i : Nat) (s : W4) : decRound key i s = permD (decF key i s) := rfl

theorem xor_cancel (x y : BitVec 32) : x ^^^ y ^^^ y = x := by
  rw [BitVec.xor_assoc, BitVec.xor_self, BitVec.xor_zero]

/-- 5.4–5.6: `b + c` is invariant under `b += e; c -= e` (read on the reversed state) -/
theorem sum_invariant (b c e : BitVec 32) : (c - e) + (b + e) = b + c := by bv_decide (config := { timeout := 600 })

/-- the nine sub-steps of the decryption round, run on the reversed state, undo the nine sub-steps of the
encryption round one by one (5.9 by 5.1, 5.8 by 5.2, 5.7 by 5.3, 5.4–5.6 by themselves, 5.3 by 5.7, …) -/
theorem decF_rev_encF (key : Key) (i : Nat) (s : W4) : decF key i (rev (encF key i s)) = rev s := by
  cases s with | mk a b c d =>
  simp only [encF, decF, rev, xor_cancel, BitVec.add_sub_cancel, BitVec.sub_add_cancel, sum_invariant]

theorem encF_rev_decF (key : Key) (i : Nat) (s : W4) : encF key i (rev (decF key i s)) = rev s := by
  cases s with | mk a b c d =>
  simp only [encF, decF, rev, xor_cancel, BitVec.add_sub_cancel, BitVec.sub_add_cancel, sum_invariant]

/-- a decryption round undoes the encryption round with the same index (up to `permE`) -/
theorem decRound_permE_encRound (key : Key) (i : Nat) (s : W4) :
    decRound key i (permE (encRound key i s)) = permE s := by
  rw [encRound_eq, decRound_eq, permE_permE, decF_rev_encF]
  cases s; rfl

theorem encRound_permD_decRound (key : Key) (i : Nat) (s : W4) :
    encRound key i (permD (decRound key i s)) = permD s := by
  rw [encRound_eq, decRound_eq, permD_permD, encF_rev_decF]
  cases s; rfl

theorem belt_block_raw_eq (x : W4) (key : Key) :
    belt_block_raw x key = permE (forRange 1 8 (encRound key) x) := rfl
theorem belt_block_raw_dec_eq (x : W4) (key : Key) :
    belt_block_raw_dec x key = permD (forRangeRev 1 8 (decRound key) x) := rfl

/-- C01 on words: `decrypt_block`'s word function inverts `belt_block_raw` -/
theorem raw_dec_raw (x : W4) (key : Key) : belt_block_raw_dec (belt_block_raw x key) key = x := by
  rw [belt_block_raw_eq, belt_block_raw_dec_eq,
    forRangeRev_forRange 1 8 (encRound key) (decRound key) permE
      (fun i _ _ s => decRound_permE_encRound key i s),
    permD_permE]

theorem raw_raw_dec (x : W4) (key : Key) : belt_block_raw (belt_block_raw_dec x key) key = x := by
  rw [belt_block_raw_eq, belt_block_raw_dec_eq,
    forRange_forRangeRev 1 8 (decRound key) (encRound key) permD
      (fun i _ _ s => encRound_permD_decRound key i s),
    permE_permD]

theorem toU32x4_fromU32x4 (w : W4) : toU32x4 (fromU32x4 w) = w := by
  cases w with | mk a b c d =>
  simp only [toU32x4, fromU32x4, W4.mk.injEq]
  have h0 : (bswap32 a ++ bswap32 b ++ bswap32 c ++ bswap32 d).extractLsb' 96 32 = bswap32 a := by bv_decide (config := { timeout := 600 })
  have h1 : (bswap32 a ++ bswap32 b ++ bswap32 c ++ bswap32 d).extractLsb' 64 32 = bswap32 b := by bv_decide (config := { timeout := 600 })
  have h2 : (bswap32 a ++ bswap32 b ++ bswap32 c ++ bswap32 d).extractLsb' 32 32 = bswap32 c := by bv_decide (config := { timeout := 600 })
  have h3 : (bswap32 a ++ bswap32 b ++ bswap32 c ++ bswap32 d).extractLsb' 0 32 = bswap32 d := by bv_decide (config := { timeout := 600 })
  rw [h0, h1, h2, h3]
  simp only [bswap32_bswap32, and_self]

theorem fromU32x4_toU32x4 (b : BitVec 128) : fromU32x4 (toU32x4 b) = b := by
  simp only [toU32x4, fromU32x4, bswap32_bswap32]; bv_decide (config := { timeout := 600 })

/-- C01 for `BeltBlock`, every key -/
theorem decrypt_encrypt (c : BeltBlock) (b : BitVec 128) : decrypt c (encrypt c b) = b := by
  simp only [decrypt, encrypt, toU32x4_fromU32x4, raw_dec_raw, fromU32x4_toU32x4]

theorem encrypt_decrypt (c : BeltBlock) (b : BitVec 128) : encrypt c (decrypt c b) = b := by
  simp only [decrypt, encrypt, toU32x4_fromU32x4, raw_raw_dec, fromU32x4_toU32x4]

theorem decrypt_encrypt_key (key : BitVec 256) (b : BitVec 128) :
    decrypt (new key) (encrypt (new key) b) = b := decrypt_encrypt _ b

theorem encrypt_decrypt_key (key : BitVec 256) (b : BitVec 128) :
    encrypt (new key) (decrypt (new key) b) = b := encrypt_decrypt _ b

end BC.Belt
