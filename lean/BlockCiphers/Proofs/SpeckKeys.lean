import BlockCiphers.Proofs.Speck
/-
Speck key schedule: `KeyInit::new` (arrays `k`, `l` in the carrier type, loop over `round_function` with the
round counter as "key") computes the round keys `k_0 … k_{T-1}` of the paper (`Spec.Speck.roundKeys`,
sliding-window formulation on `n`-bit words), for every well-formed parameter set; all stored round keys are
clean (zero above bit `n`).
-/
namespace BC.Speck
open BC

theorem getD_setIfInBounds {α : Type} (L : Array α) (i j : Nat) (v d : α) :
    (L.setIfInBounds i v).getD j d = if i = j ∧ j < L.size then v else L.getD j d := by
  simp only [Array.getD_eq_getD_getElem?, Array.getElem?_setIfInBounds]
  by_cases h : i = j
  · subst h
    by_cases h2 : i < L.size
    · simp [h2]
    · simp [h2]
  · simp [h]

/-- iterations `i, i+1, …, i+cnt-1` of the key-schedule loop -/
def ksFrom (p : Params) : Nat → Nat → KS p.cw → KS p.cw
  | 0, _, s => s
  | cnt + 1, i, s => ksFrom p cnt (i + 1) (ksStep p i s)

theorem ksFrom_succ (p : Params) (cnt i : Nat) (s : KS p.cw) :
    ksFrom p (cnt + 1) i s = ksStep p (i + cnt) (ksFrom p cnt i s) := by
  induction cnt generalizing i s with
  | zero => rfl
  | succ cnt ih =>
    rw [ksFrom, ih (i + 1) (ksStep p i s)]
    have : i + 1 + cnt = i + (cnt + 1) := by omega
    rw [this]; rfl

theorem ksLoop_eq_ksFrom (p : Params) (n : Nat) (s : KS p.cw) : ksLoop p n s = ksFrom p n 0 s := by
  induction n with
  | zero => rfl
  | succ n ih => rw [ksLoop, ih, ksFrom_succ, Nat.zero_add]

/-- a carrier word is clean: zero above bit `n` -/
def Clean (n : Nat) {cw : Nat} (x : BitVec cw) : Prop := x = (x.setWidth n).setWidth cw

theorem clean_emb {cw n : Nat} (hn : n ≤ cw) (y : BitVec n) : Clean n (y.setWidth cw) := by
  unfold Clean; rw [lo_embed hn]

/-- the window `[l_i, …, l_{i+m-2}]` (low `n` bits) -/
def win (p : Params) (s : KS p.cw) (i : Nat) : List (BitVec p.n) :=
  (List.range (p.m - 1)).map (fun d => (s.l.getD (i + d) 0).setWidth p.n)

structure Good (p : Params) (i : Nat) (s : KS p.cw) : Prop where
  sizeK : s.k.size = p.rounds
  sizeL : s.l.size = p.m - 1 + p.rounds - 1
  cleanK : Clean p.n (s.k.getD i 0)
  cleanL : ∀ d, d < p.m - 1 → Clean p.n (s.l.getD (i + d) 0)

/-- one step of the loop, on clean `l[i]`, `k[i]`, in terms of the paper's round -/
theorem ksStep_res (p : Params) (hwf : Spec.Speck.WF p) (i : Nat) (s : KS p.cw)
    (hk : Clean p.n (s.k.getD i 0)) (hl : Clean p.n (s.l.getD i 0)) :
    roundFunction p (BitVec.ofNat p.cw i) { x := s.l.getD i 0, y := s.k.getD i 0 }
      = emb p.cw (Spec.Speck.round p.alpha p.beta (BitVec.ofNat p.n i)
          { x := (s.l.getD i 0).setWidth p.n, y := (s.k.getD i 0).setWidth p.n }) := by
  have hn := hwf.2.1
  have := roundFunction_emb p hwf (BitVec.ofNat p.cw i)
    { x := (s.l.getD i 0).setWidth p.n, y := (s.k.getD i 0).setWidth p.n }
  rw [BitVec.setWidth_ofNat_of_le hn] at this
  rw [← this]
  simp only [emb]
  rw [← hk, ← hl]

theorem good_step (p : Params) (hwf : Spec.Speck.WF p) (i : Nat) (s : KS p.cw) (hg : Good p i s)
    (hi : i + 1 ≤ p.rounds - 1) : Good p (i + 1) (ksStep p i s) := by
  have hwf' : Spec.Speck.WF p := hwf
  obtain ⟨hm, hn, -, -, -, -, -, -, -, -, hm2, hT, -⟩ := hwf
  obtain ⟨sK, sL, cK, cL⟩ := hg
  have hres := ksStep_res p hwf' i s cK (by simpa using cL 0 (by omega))
  constructor
  · simp only [ksStep, Array.size_setIfInBounds]; exact sK
  · simp only [ksStep, Array.size_setIfInBounds]; exact sL
  · simp only [ksStep]
    rw [getD_setIfInBounds, if_pos ⟨rfl, by omega⟩, hres]
    exact clean_emb hn _
  · intro d hd
    simp only [ksStep]
    rw [getD_setIfInBounds]
    by_cases h : i + p.m - 1 = i + 1 + d
    · rw [if_pos ⟨h, by omega⟩, hres]; exact clean_emb hn _
    · rw [if_neg (fun hh => h hh.1)]
      have : i + 1 + d = i + (d + 1) := by omega
      rw [this]; exact cL (d + 1) (by omega)

theorem expandFrom_one {n : Nat} (a b i : Nat) (k : BitVec n) (ls : List (BitVec n)) :
    Spec.Speck.expandFrom a b 1 i k ls = [k] := by
  cases ls <;> simp [Spec.Speck.expandFrom]

/-- the loop from iteration `i` on produces the paper's round keys `k_i, k_{i+1}, …` and never touches
`k[0..i]` again -/
theorem ksFrom_spec (p : Params) (hwf : Spec.Speck.WF p) (cnt i : Nat) (s : KS p.cw)
    (hg : Good p i s) (hi : i + cnt ≤ p.rounds - 1) :
    (∀ j, j ≤ i → (ksFrom p cnt i s).k.getD j 0 = s.k.getD j 0) ∧
    Spec.Speck.expandFrom p.alpha p.beta (cnt + 1) i ((s.k.getD i 0).setWidth p.n) (win p s i)
      = (List.range (cnt + 1)).map (fun d => ((ksFrom p cnt i s).k.getD (i + d) 0).setWidth p.n) := by
  induction cnt generalizing i s with
  | zero =>
    refine ⟨fun j _ => rfl, ?_⟩
    rw [expandFrom_one]; rfl
  | succ cnt ih =>
    have hn := hwf.2.1
    have hm2 : 2 ≤ p.m := hwf.2.2.2.2.2.2.2.2.2.2.1
    have hg1 := good_step p hwf i s hg (by omega)
    obtain ⟨iha, ihb⟩ := ih (i + 1) (ksStep p i s) hg1 (by omega)
    obtain ⟨sK, sL, cK, cL⟩ := hg
    have hres := ksStep_res p hwf i s cK (by simpa using cL 0 (by omega))
    have hk_old : ∀ j, j ≤ i → (ksStep p i s).k.getD j 0 = s.k.getD j 0 := by
      intro j hj
      simp only [ksStep]; rw [getD_setIfInBounds, if_neg (by omega)]
    constructor
    · intro j hj
      rw [ksFrom, iha j (by omega), hk_old j hj]
    · -- unfold one step of the specification
      obtain ⟨q, hq⟩ : ∃ q, p.m - 1 = q + 1 := ⟨p.m - 2, by omega⟩
      have hwin : win p s i = (s.l.getD i 0).setWidth p.n ::
          (List.range q).map (fun d => (s.l.getD (i + 1 + d) 0).setWidth p.n) := by
        unfold win
        rw [hq, List.range_succ_eq_map, List.map_cons, List.map_map]
        simp only [Nat.add_zero, List.cons.injEq, true_and]
        apply List.map_congr_left; intro d _
        simp only [Function.comp, Nat.succ_eq_add_one]
        have : i + (d + 1) = i + 1 + d := by omega
        rw [this]
      have hk' : (ksStep p i s).k.getD (i + 1) 0 =
          ((Spec.Speck.round p.alpha p.beta (BitVec.ofNat p.n i)
            { x := (s.l.getD i 0).setWidth p.n, y := (s.k.getD i 0).setWidth p.n }).y).setWidth p.cw := by
        simp only [ksStep]; rw [getD_setIfInBounds, if_pos ⟨rfl, by omega⟩, hres]; rfl
      have hl' : (ksStep p i s).l.getD (i + 1 + q) 0 =
          ((Spec.Speck.round p.alpha p.beta (BitVec.ofNat p.n i)
            { x := (s.l.getD i 0).setWidth p.n, y := (s.k.getD i 0).setWidth p.n }).x).setWidth p.cw := by
        simp only [ksStep]; rw [getD_setIfInBounds, if_pos ⟨by omega, by omega⟩, hres]; rfl
      have hwin1 : win p (ksStep p i s) (i + 1) =
          (List.range q).map (fun d => (s.l.getD (i + 1 + d) 0).setWidth p.n) ++
            [(Spec.Speck.round p.alpha p.beta (BitVec.ofNat p.n i)
              { x := (s.l.getD i 0).setWidth p.n, y := (s.k.getD i 0).setWidth p.n }).x] := by
        unfold win
        rw [hq, List.range_succ, List.map_append, List.map_cons, List.map_nil, hl', lo_embed hn]
        congr 1
        apply List.map_congr_left; intro d hd
        have hd' : d < q := List.mem_range.mp hd
        simp only [ksStep]; rw [getD_setIfInBounds, if_neg (by omega)]
      rw [hwin, Spec.Speck.expandFrom]
      simp only
      rw [List.range_succ_eq_map, List.map_cons, List.map_map]
      have hk0 : (ksFrom p (cnt + 1) i s).k.getD (i + 0) 0 = s.k.getD i 0 := by
        show (ksFrom p cnt (i + 1) (ksStep p i s)).k.getD i 0 = s.k.getD i 0
        rw [iha i (by omega), hk_old i (Nat.le_refl _)]
      rw [hk0]
      congr 1
      have e1 : (fun d => ((ksFrom p (cnt + 1) i s).k.getD (i + d) 0).setWidth p.n) ∘ Nat.succ
          = fun d => ((ksFrom p cnt (i + 1) (ksStep p i s)).k.getD (i + 1 + d) 0).setWidth p.n := by
        funext d
        simp only [Function.comp, Nat.succ_eq_add_one, ksFrom]
        have : i + (d + 1) = i + 1 + d := by omega
        rw [this]
      rw [e1, ← ihb, hwin1, hk', lo_embed hn]
      simp only [Spec.Speck.round, BitVec.add_comm]

/-! ### the initial arrays -/

theorem size_lInit (p : Params) (key : Bytes) (cnt : Nat) (l : Array (BitVec p.cw)) :
    (lInit p key cnt l).size = l.size := by
  induction cnt with
  | zero => rfl
  | succ cnt ih => simp only [lInit, Array.size_setIfInBounds, ih]

theorem lInit_getD (p : Params) (key : Bytes) (cnt : Nat) (l : Array (BitVec p.cw)) (d : Nat)
    (hd : d < cnt) (hc : cnt ≤ l.size) :
    (lInit p key cnt l).getD d 0
      = fromBE p.cw (slice key ((p.m - 2 - d) * (p.n / 8)) ((p.m - 1 - d) * (p.n / 8))) := by
  induction cnt with
  | zero => omega
  | succ cnt ih =>
    simp only [lInit]
    rw [getD_setIfInBounds]
    by_cases h : cnt = d
    · subst h; rw [if_pos ⟨rfl, by rw [size_lInit]; omega⟩]
    · rw [if_neg (fun hh => h hh.1)]; exact ih (by omega) (by omega)

/-- the state before the key-schedule loop -/
def ks0 (p : Params) (key : Bytes) : KS p.cw :=
  { k := (Array.replicate p.rounds 0).setIfInBounds 0
      (fromBE p.cw (slice key ((p.m - 1) * (p.n / 8)) (p.m * (p.n / 8)))),
    l := lInit p key (p.m - 1) (Array.replicate (p.m - 1 + p.rounds - 1) 0) }

theorem keySchedule_eq (p : Params) (key : Bytes) :
    keySchedule p key = (ksFrom p (p.rounds - 1) 0 (ks0 p key)).k := by
  unfold keySchedule ks0; simp only []; rw [ksLoop_eq_ksFrom]

theorem lo_fromBE {cw n : Nat} (hn : n ≤ cw) (bs : Bytes) :
    (fromBE cw bs).setWidth n = BitVec.ofNat n (bytesToNat bs) := by
  unfold fromBE; rw [BitVec.setWidth_ofNat_of_le hn]

theorem ks0_k0 (p : Params) (hwf : Spec.Speck.WF p) (key : Bytes) :
    (ks0 p key).k.getD 0 0 = fromBE p.cw (slice key ((p.m - 1) * (p.n / 8)) (p.m * (p.n / 8))) := by
  have hT : 1 ≤ p.rounds := hwf.2.2.2.2.2.2.2.2.2.2.2.1
  simp only [ks0]; rw [getD_setIfInBounds, if_pos ⟨rfl, by simp; omega⟩]

theorem ks0_l (p : Params) (hwf : Spec.Speck.WF p) (key : Bytes) (d : Nat) (hd : d < p.m - 1) :
    (ks0 p key).l.getD d 0
      = fromBE p.cw (slice key ((p.m - 2 - d) * (p.n / 8)) ((p.m - 1 - d) * (p.n / 8))) := by
  have hT : 1 ≤ p.rounds := hwf.2.2.2.2.2.2.2.2.2.2.2.1
  simp only [ks0]; exact lInit_getD p key _ _ d hd (by simp; omega)

theorem good_ks0 (p : Params) (hwf : Spec.Speck.WF p) (key : Bytes) : Good p 0 (ks0 p key) := by
  have hn := hwf.2.1
  have h8 := hwf.2.2.1
  constructor
  · simp [ks0]
  · simp [ks0, size_lInit]
  · rw [ks0_k0 p hwf, fromBE_emb hn h8 _ (by
      have := length_slice_le key ((p.m - 1) * (p.n / 8)) (p.m * (p.n / 8))
      have e : p.m * (p.n / 8) - (p.m - 1) * (p.n / 8) ≤ p.n / 8 := by
        rw [← Nat.sub_mul]; have : p.m - (p.m - 1) ≤ 1 := by omega
        calc (p.m - (p.m - 1)) * (p.n / 8) ≤ 1 * (p.n / 8) := Nat.mul_le_mul_right _ this
          _ = p.n / 8 := Nat.one_mul _
      omega)]
    exact clean_emb hn _
  · intro d hd
    rw [Nat.zero_add, ks0_l p hwf key d hd, fromBE_emb hn h8 _ (by
      have := length_slice_le key ((p.m - 2 - d) * (p.n / 8)) ((p.m - 1 - d) * (p.n / 8))
      have e : (p.m - 1 - d) * (p.n / 8) - (p.m - 2 - d) * (p.n / 8) ≤ p.n / 8 := by
        rw [← Nat.sub_mul]; have : (p.m - 1 - d) - (p.m - 2 - d) ≤ 1 := by omega
        calc ((p.m - 1 - d) - (p.m - 2 - d)) * (p.n / 8) ≤ 1 * (p.n / 8) := Nat.mul_le_mul_right _ this
          _ = p.n / 8 := Nat.one_mul _
      omega)]
    exact clean_emb hn _

/-- **key schedule**: the low `n` bits of the stored round keys `k[0..T-1]` are the paper's round keys of the
key `(l_{m-2}, …, l_0, k_0)` read big-endian from the key bytes -/
theorem keySchedule_eq_spec (p : Params) (hwf : Spec.Speck.WF p) (key : Bytes) :
    (List.range p.rounds).map (fun j => ((keySchedule p key).getD j 0).setWidth p.n)
      = Spec.Speck.roundKeys p.n p.m p.alpha p.beta p.rounds key := by
  have hn := hwf.2.1
  have hm2 : 2 ≤ p.m := hwf.2.2.2.2.2.2.2.2.2.2.1
  have hT : 1 ≤ p.rounds := hwf.2.2.2.2.2.2.2.2.2.2.2.1
  obtain ⟨-, hb⟩ := ksFrom_spec p hwf (p.rounds - 1) 0 (ks0 p key) (good_ks0 p hwf key) (by omega)
  have hT' : p.rounds - 1 + 1 = p.rounds := by omega
  rw [hT'] at hb
  rw [keySchedule_eq]
  simp only [Nat.zero_add] at hb
  rw [← hb]
  unfold Spec.Speck.roundKeys
  congr 1
  · rw [ks0_k0 p hwf, lo_fromBE hn]
    unfold Spec.Speck.keyWord
    have : p.m - 1 + 1 = p.m := by omega
    rw [this]
  · unfold win
    apply List.map_congr_left; intro d hd
    have hd' : d < p.m - 1 := List.mem_range.mp hd
    rw [Nat.zero_add, ks0_l p hwf key d hd', lo_fromBE hn]
    unfold Spec.Speck.keyWord
    have : p.m - 2 - d + 1 = p.m - 1 - d := by omega
    rw [this]

theorem encRounds_congr {n : Nat} (a b : Nat) (rk rk' : Nat → BitVec n) (T : Nat)
    (h : ∀ j, j < T → rk j = rk' j) (s : Spec.Speck.XY n) :
    Spec.Speck.encRounds a b rk T s = Spec.Speck.encRounds a b rk' T s := by
  induction T with
  | zero => rfl
  | succ T ih =>
    simp only [Spec.Speck.encRounds]
    rw [ih (fun j hj => h j (by omega)), h T (by omega)]

theorem decRounds_congr {n : Nat} (a b : Nat) (rk rk' : Nat → BitVec n) (T : Nat)
    (h : ∀ j, j < T → rk j = rk' j) (s : Spec.Speck.XY n) :
    Spec.Speck.decRounds a b rk T s = Spec.Speck.decRounds a b rk' T s := by
  induction T generalizing s with
  | zero => rfl
  | succ T ih =>
    simp only [Spec.Speck.decRounds]
    rw [ih (fun j hj => h j (by omega)), h T (by omega)]

theorem roundKey_eq (p : Params) (hwf : Spec.Speck.WF p) (key : Bytes) (j : Nat) (hj : j < p.rounds) :
    ((keySchedule p key).getD j 0).setWidth p.n
      = (Spec.Speck.roundKeys p.n p.m p.alpha p.beta p.rounds key).getD j 0 := by
  rw [← keySchedule_eq_spec p hwf key]
  simp [List.getD_eq_getElem?_getD, hj]

/-- **C10 (Speck)**: for every well-formed macro invocation (the ten types: `wf_all`, and they are the
rows of the paper's table: `table_ok`), every key and every block, `encrypt_block`/`decrypt_block` after
`KeyInit::new` are the paper's Speck with the paper's key schedule. -/
theorem speck_computes_spec (p : Params) (hwf : Spec.Speck.WF p) (key b : Bytes) :
    encryptBlock p (keySchedule p key) b
      = Spec.Speck.encryptBytes p.n p.alpha p.beta p.rounds
          (fun j => (Spec.Speck.roundKeys p.n p.m p.alpha p.beta p.rounds key).getD j 0) b ∧
    decryptBlock p (keySchedule p key) b
      = Spec.Speck.decryptBytes p.n p.alpha p.beta p.rounds
          (fun j => (Spec.Speck.roundKeys p.n p.m p.alpha p.beta p.rounds key).getD j 0) b := by
  constructor
  · rw [encryptBlock_eq_spec p hwf]
    unfold Spec.Speck.encryptBytes
    rw [encRounds_congr _ _ _ _ _ (fun j hj => roundKey_eq p hwf key j hj)]
  · rw [decryptBlock_eq_spec p hwf]
    unfold Spec.Speck.decryptBytes
    rw [decRounds_congr _ _ _ _ _ (fun j hj => roundKey_eq p hwf key j hj)]

theorem speck_all_compute_spec : ∀ p ∈ all, Spec.Speck.ofParams p ∈ Spec.Speck.table ∧
    ∀ key b : Bytes,
    encryptBlock p (keySchedule p key) b
      = Spec.Speck.encryptBytes p.n p.alpha p.beta p.rounds
          (fun j => (Spec.Speck.roundKeys p.n p.m p.alpha p.beta p.rounds key).getD j 0) b ∧
    decryptBlock p (keySchedule p key) b
      = Spec.Speck.decryptBytes p.n p.alpha p.beta p.rounds
          (fun j => (Spec.Speck.roundKeys p.n p.m p.alpha p.beta p.rounds key).getD j 0) b := by
  intro p hp
  refine ⟨?_, fun key b => speck_computes_spec p (wf_all p hp) key b⟩
  rw [← table_ok]; exact List.mem_map_of_mem hp

end BC.Speck
