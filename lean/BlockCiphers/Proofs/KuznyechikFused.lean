import BlockCiphers.Proofs.KuznyechikSpec
/-
Kuznyechik, the fused tables of /repo/kuznyechik/src/fused_tables.rs.

* one `n`-iteration of `fused_enc_table` on its 16-byte window is the standard's R, one of `fused_dec_table` is R⁻¹;
* hence row (i, j) of ENC_TABLE is L applied to the block that has π(j) at position i and zeros elsewhere, and row
  (i, j) of DEC_TABLE is L⁻¹ applied to the block that has π⁻¹(j) at position i — for EVERY one of the 2 × 4096
  rows (the statement is even proved for an arbitrary byte in place of P[j]);
* with additivity of L / L⁻¹: the table-driven round of `big_soft` (`transform`: XOR of the sixteen rows selected
  by position and byte value) is  L ∘ S  for ENC_TABLE and  L⁻¹ ∘ S⁻¹  for DEC_TABLE (S⁻¹ FIRST, then L⁻¹ — the
  decryption tables do not implement S⁻¹ ∘ L⁻¹), conjugated by the load/store byte reversal.
-/
namespace BC.Kuznyechik
open BC.Spec.Kuznyechik

theorem enc_row_step_eq_R (w : BitVec 128) : enc_row_step w = R w := by
  simp only [enc_row_step, GFT_16_eq, GFT_32_eq, GFT_133_eq, GFT_148_eq, GFT_192_eq, GFT_194_eq, GFT_251_eq,
    List.range, List.range.loop, List.foldl, R, ell, byte, getb, setb, gfmul_one]
  simp only [gfmul_eq_gfc]
  simp only [gfc, bitmask]
  bv_decide (config := { timeout := 120 })

theorem dec_row_step_eq_Rinv (w : BitVec 128) : dec_row_step w = Rinv w := by
  simp only [dec_row_step, GFT_16_eq, GFT_32_eq, GFT_133_eq, GFT_148_eq, GFT_192_eq, GFT_194_eq, GFT_251_eq,
    List.range, List.range.loop, List.foldl, Rinv, ell, byte, getb, setb, gfmul_one]
  simp only [gfmul_eq_gfc]
  simp only [gfc, bitmask]
  bv_decide (config := { timeout := 120 })

/-- row (i, j) of `fused_enc_table` = L(π(j) at position i) -/
theorem enc_row_eq (i : Nat) (j : BitVec 8) : enc_row i j = L (setb 0#128 i (lut P j)) := by
  have h : enc_row_step = R := funext enc_row_step_eq_R
  rw [enc_row, h, L]

/-- row (i, j) of `fused_dec_table` = L⁻¹(π⁻¹(j) at position i) -/
theorem dec_row_eq (i : Nat) (j : BitVec 8) : dec_row i j = Linv (setb 0#128 i (lut P_INV j)) := by
  have h : dec_row_step = Rinv := funext dec_row_step_eq_Rinv
  rw [dec_row, h, Linv]

theorem row_index (i : Fin 16) (b : BitVec 8) :
    (256 * i.val + b.toNat) / 256 = i.val ∧ BitVec.ofNat 8 ((256 * i.val + b.toNat) % 256) = b := by
  have hb := b.isLt
  constructor
  · omega
  · have : (256 * i.val + b.toNat) % 256 = b.toNat := by omega
    rw [this]; simp

/-- C03 fused-table lemma, ENC: for every byte position i and byte value b -/
theorem ENC_TABLE_row (i : Fin 16) (b : BitVec 8) :
    row ENC_TABLE.get i b = rev128 (L (setb 0#128 i.val (lut P b))) := by
  show ((fused_enc_table ()).map rev128)[256 * i.val + b.toNat]'_ = _
  simp only [Vector.getElem_map, fused_enc_table, Vector.getElem_ofFn, (row_index i b).1, (row_index i b).2,
    enc_row_eq]

/-- C03 fused-table lemma, DEC -/
theorem DEC_TABLE_row (i : Fin 16) (b : BitVec 8) :
    row DEC_TABLE.get i b = rev128 (Linv (setb 0#128 i.val (lut P_INV b))) := by
  show ((fused_dec_table ()).map rev128)[256 * i.val + b.toNat]'_ = _
  simp only [Vector.getElem_map, fused_dec_table, Vector.getElem_ofFn, (row_index i b).1, (row_index i b).2,
    dec_row_eq]

theorem finRange16 : List.finRange 16 = [⟨0, by omega⟩, ⟨1, by omega⟩, ⟨2, by omega⟩, ⟨3, by omega⟩, ⟨4, by omega⟩,
    ⟨5, by omega⟩, ⟨6, by omega⟩, ⟨7, by omega⟩, ⟨8, by omega⟩, ⟨9, by omega⟩, ⟨10, by omega⟩, ⟨11, by omega⟩,
    ⟨12, by omega⟩, ⟨13, by omega⟩, ⟨14, by omega⟩, ⟨15, by omega⟩] := by decide

/-- XOR of sixteen rows of a table whose row (i, b) is `rev128 (A (f b at position i))` with `A` additive:
`A ∘ (f on every byte)` between the byte reversals -/
theorem transform_generic (t : Vector (BitVec 128) 4096) (A : BitVec 128 → BitVec 128) (f : BitVec 8 → BitVec 8)
    (hA : ∀ a b, A (a ^^^ b) = A a ^^^ A b)
    (hrow : ∀ (i : Fin 16) (b : BitVec 8), row t i b = rev128 (A (setb 0#128 i.val (f b)))) (v : BitVec 128) :
    Soft.transform v t = rev128 (A (mapBytes f (rev128 v))) := by
  simp only [Soft.transform, finRange16, List.foldl, hrow, BitVec.zero_xor]
  simp only [← rev128_xor, ← hA]
  rw [mapBytes, mapIdx_eq_xor]
  simp only [BitVec.zero_xor, leByte_eq_getb v 0 (by omega), leByte_eq_getb v 1 (by omega),
    leByte_eq_getb v 2 (by omega), leByte_eq_getb v 3 (by omega), leByte_eq_getb v 4 (by omega),
    leByte_eq_getb v 5 (by omega), leByte_eq_getb v 6 (by omega), leByte_eq_getb v 7 (by omega),
    leByte_eq_getb v 8 (by omega), leByte_eq_getb v 9 (by omega), leByte_eq_getb v 10 (by omega),
    leByte_eq_getb v 11 (by omega), leByte_eq_getb v 12 (by omega), leByte_eq_getb v 13 (by omega),
    leByte_eq_getb v 14 (by omega), leByte_eq_getb v 15 (by omega)]

namespace Soft

/-- C03: `transform(·, &ENC_TABLE)` of big_soft is L ∘ S (on the little-endian `u128`) -/
theorem transform_ENC (v : BitVec 128) : transform v ENC_TABLE.get = rev128 (L (S (rev128 v))) := by
  rw [transform_generic ENC_TABLE.get L (lut P) L_xor ENC_TABLE_row, S_eq_mapBytes]
  exact congrArg (fun z => rev128 (L z)) (mapBytes_congr _ _ P_eq_pi _)

/-- C03: `transform(·, &DEC_TABLE)` of big_soft is L⁻¹ ∘ S⁻¹ -/
theorem transform_DEC (v : BitVec 128) : transform v DEC_TABLE.get = rev128 (Linv (Sinv (rev128 v))) := by
  rw [transform_generic DEC_TABLE.get Linv (lut P_INV) Linv_xor DEC_TABLE_row, Sinv_eq_mapBytes]
  exact congrArg (fun z => rev128 (Linv z)) (mapBytes_congr _ _ P_INV_eq_piInv _)

/-- `sub_bytes(block, sbox)` on the little-endian `u128` = the byte map on the memory image -/
theorem sub_bytes_eq (v : BitVec 128) (sbox : Vector (BitVec 8) 256) :
    sub_bytes v sbox = rev128 (mapBytes (lut sbox) (rev128 v)) := by
  rw [sub_bytes, ofLeBytes_eq, mapBytes]
  congr 1
  apply mapIdx_congr; intro k hk
  show lut sbox (leByte v k) = lut sbox (getb (rev128 v) k)
  rw [leByte_eq_getb v k hk]

end Soft
end BC.Kuznyechik
