import Std.Tactic.BVDecide
import BlockCiphers.Impl.Idea
/-
C20 for the `idea` crate: every plain `+ - * <<` and every computed index of the non-test code
(the `-- C20-SITE:` list at the top of `Impl/Idea.lean`) stays in range, so the dev profile (overflow checks on)
and the release profile compute the same thing and nothing panics.  `mul_inv` is in `Proofs/IdeaInv.lean`
(`mulInvChecked_eq`).  Overflow is stated with core's `BitVec.uaddOverflow` / `usubOverflow` / `umulOverflow`
(unsigned `u16`/`u32` arithmetic) and `saddOverflow` / `ssubOverflow` (`i32`).
-/
namespace BC.Idea

/-- expand_key: `(u16::from(key[2*i]) << 8) + u16::from(key[2*i+1])` -/
theorem c20_expand_bytes (hi lo : BitVec 8) :
    BitVec.uaddOverflow (hi.setWidth 16 <<< 8 : BitVec 16) (lo.setWidth 16) = false := by bv_decide (config := { timeout := 600 })

/-- expand_key: the subtractions `i - 15`, `i - 7`, `i - 14`, `i - 6` do not underflow and read entries that
were written before (`< i`), for `8 ≤ i < 52` -/
theorem c20_expand_idx (i : Nat) (h8 : 8 ≤ i) (h : i < 52) :
    ((i + 1) % 8 = 0 → 15 ≤ i) ∧ 7 ≤ i ∧ ((i + 2) % 8 < 2 → 14 ≤ i) ∧ 6 ≤ i ∧
    expandIdxA i < i ∧ expandIdxB i < i := by
  unfold expandIdxA expandIdxB
  refine ⟨by omega, by omega, by omega, by omega, ?_, ?_⟩ <;> split <;> omega

/-- expand_key: `(a << 9) + (b >> 7)` -/
theorem c20_expand_rot (a b : BitVec 16) : BitVec.uaddOverflow (a <<< 9) (b >>> 7) = false := by bv_decide (config := { timeout := 600 })

/-- invert_sub_keys: `k - j`, `l + m`, `l + n`, `l + 3`, `j + 3` (first loop), `l + 5`, `j + 5` (second loop) -/
theorem c20_invert_idx (i : Nat) :
    (i ≤ ROUNDS → i * 6 ≤ ROUNDS * 6 ∧ ROUNDS * 6 - i * 6 + 3 < 52 ∧ i * 6 + 3 < 52) ∧
    (i < ROUNDS → i * 6 ≤ (ROUNDS - 1) * 6 ∧ (ROUNDS - 1) * 6 - i * 6 + 5 < 52 ∧ i * 6 + 5 < 52) := by
  unfold ROUNDS; omega

/-- crypt: `sub_keys[j .. j + 5]`, `j = i * 6`, `i < 8` -/
theorem c20_crypt_idx (i : Nat) (h : i < ROUNDS) : i * 6 + 5 < LENGTH_SUB_KEYS := by
  unfold ROUNDS at h; unfold LENGTH_SUB_KEYS ROUNDS; omega

/-- mul: `MAXIM - y`, `MAXIM - x` -/
theorem c20_mul_maxim_sub (y : BitVec 16) : BitVec.usubOverflow MAXIM (y.setWidth 32) = false := by
  unfold MAXIM; bv_decide (config := { timeout := 600 })

/-- mul: `x * y` in `u32` -/
theorem c20_mul_prod (a b : BitVec 16) :
    BitVec.umulOverflow (a.setWidth 32 : BitVec 32) (b.setWidth 32) = false := by bv_decide (config := { timeout := 600 })

/-- mul: `((c & ONE) as i32) - ((c >> 16) as i32)` -/
theorem c20_mul_i32_sub (c : BitVec 32) : BitVec.ssubOverflow (c &&& ONE) (c >>> 16) = false := by
  unfold ONE; bv_decide (config := { timeout := 600 })

/-- mul: `r += MAXIM as i32` (executed when `r < 0`) -/
theorem c20_mul_i32_add (c : BitVec 32) (h : ((c &&& ONE) - (c >>> 16)).slt 0#32 = true) :
    BitVec.saddOverflow ((c &&& ONE) - (c >>> 16)) MAXIM = false := by
  unfold ONE MAXIM at *; bv_decide (config := { timeout := 600 })

/-- add: `u32::from(a) + u32::from(b)` -/
theorem c20_add (a b : BitVec 16) :
    BitVec.uaddOverflow (a.setWidth 32 : BitVec 32) (b.setWidth 32) = false := by bv_decide (config := { timeout := 600 })

/-- add_inv: `FUYI - u32::from(a)` -/
theorem c20_add_inv (a : BitVec 16) : BitVec.usubOverflow FUYI (a.setWidth 32) = false := by
  unfold FUYI; bv_decide (config := { timeout := 600 })

end BC.Idea
