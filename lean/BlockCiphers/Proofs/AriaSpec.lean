import BlockCiphers.Proofs.Basic
import BlockCiphers.Proofs.AriaDiffuse
/-
C06 for the `aria` crate: the model of the Rust code (`Impl/Aria.lean`) computes RFC 5794
(`Spec/Aria.lean`) for every key of the three sizes and every block, both directions.
-/
namespace BC.Aria
open BC.Spec.Aria (A SL1 SL2 FO FE concat byteOf)

/-! ### S-boxes: consts.rs SB1, SB2 are the RFC tables; SB3, SB4 are their inverse permutations -/

theorem SB1T_eq_spec : SB1T = Spec.Aria.SB1 := by decide +kernel
theorem SB2T_eq_spec : SB2T = Spec.Aria.SB2 := by decide +kernel

theorem sb1_fin : ∀ i : Fin 256, sb1 (BitVec.ofFin i) = Spec.Aria.sb1 (BitVec.ofFin i) := by decide +kernel
theorem sb2_fin : ∀ i : Fin 256, sb2 (BitVec.ofFin i) = Spec.Aria.sb2 (BitVec.ofFin i) := by decide +kernel
/-- consts.rs SB3 is the inverse permutation of SB1 -/
theorem sb3_fin : ∀ i : Fin 256, sb3 (BitVec.ofFin i) = Spec.Aria.sb3 (BitVec.ofFin i) := by decide +kernel
/-- consts.rs SB4 is the inverse permutation of SB2 -/
theorem sb4_fin : ∀ i : Fin 256, sb4 (BitVec.ofFin i) = Spec.Aria.sb4 (BitVec.ofFin i) := by decide +kernel

theorem sb1_eq (x : BitVec 8) : sb1 x = Spec.Aria.sb1 x := sb1_fin x.toFin
theorem sb2_eq (x : BitVec 8) : sb2 x = Spec.Aria.sb2 x := sb2_fin x.toFin
theorem sb3_eq (x : BitVec 8) : sb3 x = Spec.Aria.sb3 x := sb3_fin x.toFin
theorem sb4_eq (x : BitVec 8) : sb4 x = Spec.Aria.sb4 x := sb4_fin x.toFin

/-! ### layers and round functions -/

theorem sl2_eq_SL2 (x : BitVec 128) : sl2 x = SL2 x := by
  simp only [sl2, SL2, byte_eq_0, byte_eq_1, byte_eq_2, byte_eq_3, byte_eq_4, byte_eq_5, byte_eq_6, byte_eq_7, byte_eq_8, byte_eq_9, byte_eq_10, byte_eq_11, byte_eq_12, byte_eq_13, byte_eq_14, byte_eq_15,
    sb1_eq, sb2_eq, sb3_eq, sb4_eq, fromBeBytes_eq_concat]

/-- utils.rs `fo(x)` = A(SL1(x)); with the key xor: `fo(d ^ rk) = FO(d, rk)` -/
theorem fo_eq_spec (x : BitVec 128) : fo x = A (SL1 x) := by
  simp only [fo, SL1, byte_eq_0, byte_eq_1, byte_eq_2, byte_eq_3, byte_eq_4, byte_eq_5, byte_eq_6, byte_eq_7, byte_eq_8, byte_eq_9, byte_eq_10, byte_eq_11, byte_eq_12, byte_eq_13, byte_eq_14, byte_eq_15,
    sb1_eq, sb2_eq, sb3_eq, sb4_eq]
  rw [diffuse_eq_A]

theorem fe_eq_spec (x : BitVec 128) : fe x = A (SL2 x) := by
  simp only [fe, SL2, byte_eq_0, byte_eq_1, byte_eq_2, byte_eq_3, byte_eq_4, byte_eq_5, byte_eq_6, byte_eq_7, byte_eq_8, byte_eq_9, byte_eq_10, byte_eq_11, byte_eq_12, byte_eq_13, byte_eq_14, byte_eq_15,
    sb1_eq, sb2_eq, sb3_eq, sb4_eq]
  rw [diffuse_eq_A]

theorem fo_xor (d rk : BitVec 128) : fo (d ^^^ rk) = FO d rk := by rw [fo_eq_spec]; rfl
theorem fe_xor (d rk : BitVec 128) : fe (d ^^^ rk) = FE d rk := by rw [fe_eq_spec]; rfl

theorem C1_eq : C1 = Spec.Aria.C1 := rfl
theorem C2_eq : C2 = Spec.Aria.C2 := rfl
theorem C3_eq : C3 = Spec.Aria.C3 := rfl

/-! ### block function: the `fo`/`fe` loop of lib.rs is rounds 1..n of §2.3.1 -/

theorem loopIdx13' : loopIdx 13 = [0, 2, 4, 6, 8] := by decide
theorem loopIdx15' : loopIdx 15 = [0, 2, 4, 6, 8, 10] := by decide
theorem loopIdx17' : loopIdx 17 = [0, 2, 4, 6, 8, 10, 12] := by decide

theorem cryptWith13_spec (k : Nat → BitVec 128) (b : BitVec 128) :
    cryptWith k 13 b = Spec.Aria.crypt 12 [k 0, k 1, k 2, k 3, k 4, k 5, k 6, k 7, k 8, k 9, k 10, k 11, k 12] b := by
  simp only [cryptWith, loopIdx13', List.foldl_cons, List.foldl_nil, Nat.reduceAdd, Nat.reduceSub,
    fo_xor, fe_xor, sl2_eq_SL2, Spec.Aria.crypt, List.take, List.drop, Spec.Aria.middle]

theorem cryptWith15_spec (k : Nat → BitVec 128) (b : BitVec 128) :
    cryptWith k 15 b = Spec.Aria.crypt 14 [k 0, k 1, k 2, k 3, k 4, k 5, k 6, k 7, k 8, k 9, k 10, k 11, k 12, k 13, k 14] b := by
  simp only [cryptWith, loopIdx15', List.foldl_cons, List.foldl_nil, Nat.reduceAdd, Nat.reduceSub,
    fo_xor, fe_xor, sl2_eq_SL2, Spec.Aria.crypt, List.take, List.drop, Spec.Aria.middle]

theorem cryptWith17_spec (k : Nat → BitVec 128) (b : BitVec 128) :
    cryptWith k 17 b = Spec.Aria.crypt 16 [k 0, k 1, k 2, k 3, k 4, k 5, k 6, k 7, k 8, k 9, k 10, k 11, k 12, k 13, k 14, k 15, k 16] b := by
  simp only [cryptWith, loopIdx17', List.foldl_cons, List.foldl_nil, Nat.reduceAdd, Nat.reduceSub,
    fo_xor, fe_xor, sl2_eq_SL2, Spec.Aria.crypt, List.take, List.drop, Spec.Aria.middle]

/-! ### key schedule -/

/-- the four words of the Rust `new` are W0..W3 of §2.2.1 -/
theorem initW_eq (kl kr c1 c2 c3 : BitVec 128) :
    Spec.Aria.initW kl kr c1 c2 c3 =
      { W0 := kl, W1 := fo (kl ^^^ c1) ^^^ kr, W2 := fe ((fo (kl ^^^ c1) ^^^ kr) ^^^ c2) ^^^ kl,
        W3 := fo ((fe ((fo (kl ^^^ c1) ^^^ kr) ^^^ c2) ^^^ kl) ^^^ c3) ^^^ (fo (kl ^^^ c1) ^^^ kr) } := by
  simp only [Spec.Aria.initW, fo_xor, fe_xor]

/-- the `ek` literal of the Rust is ek1..ek13 of §2.2.2 (ek4/8/12/16 are written `W3 ^ (W0 >>> n)` in the
Rust and `(W0 >>> n) ^ W3` in the RFC) -/
theorem ek13_spec (w0 w1 w2 w3 : BitVec 128) :
    [key (ek13 w0 w1 w2 w3) 0, key (ek13 w0 w1 w2 w3) 1, key (ek13 w0 w1 w2 w3) 2, key (ek13 w0 w1 w2 w3) 3, key (ek13 w0 w1 w2 w3) 4, key (ek13 w0 w1 w2 w3) 5, key (ek13 w0 w1 w2 w3) 6, key (ek13 w0 w1 w2 w3) 7, key (ek13 w0 w1 w2 w3) 8, key (ek13 w0 w1 w2 w3) 9, key (ek13 w0 w1 w2 w3) 10, key (ek13 w0 w1 w2 w3) 11, key (ek13 w0 w1 w2 w3) 12] =
      Spec.Aria.ek 12 { W0 := w0, W1 := w1, W2 := w2, W3 := w3 } := by
  simp only [Spec.Aria.ek, Spec.Aria.ekAll, List.take, Nat.reduceAdd, BitVec.xor_comm (w0.rotateRight 19) w3,
    BitVec.xor_comm (w0.rotateRight 31) w3, BitVec.xor_comm (w0.rotateLeft 61) w3,
    BitVec.xor_comm (w0.rotateLeft 31) w3]
  rfl

/-- the `dk` literal of the Rust is dk1..dk13 of §2.3.2 -/
theorem dk13_spec (e : Nat → BitVec 128) :
    [key (dk13 e) 0, key (dk13 e) 1, key (dk13 e) 2, key (dk13 e) 3, key (dk13 e) 4, key (dk13 e) 5, key (dk13 e) 6, key (dk13 e) 7, key (dk13 e) 8, key (dk13 e) 9, key (dk13 e) 10, key (dk13 e) 11, key (dk13 e) 12] =
      Spec.Aria.mapInner A ([e 0, e 1, e 2, e 3, e 4, e 5, e 6, e 7, e 8, e 9, e 10, e 11, e 12]).reverse := by
  simp only [List.reverse_cons, List.reverse_nil, List.nil_append, List.cons_append, Spec.Aria.mapInner,
    Spec.Aria.mapInner.go, ← a_eq_A]
  rfl

/-- the `ek` literal of the Rust is ek1..ek15 of §2.2.2 (ek4/8/12/16 are written `W3 ^ (W0 >>> n)` in the
Rust and `(W0 >>> n) ^ W3` in the RFC) -/
theorem ek15_spec (w0 w1 w2 w3 : BitVec 128) :
    [key (ek15 w0 w1 w2 w3) 0, key (ek15 w0 w1 w2 w3) 1, key (ek15 w0 w1 w2 w3) 2, key (ek15 w0 w1 w2 w3) 3, key (ek15 w0 w1 w2 w3) 4, key (ek15 w0 w1 w2 w3) 5, key (ek15 w0 w1 w2 w3) 6, key (ek15 w0 w1 w2 w3) 7, key (ek15 w0 w1 w2 w3) 8, key (ek15 w0 w1 w2 w3) 9, key (ek15 w0 w1 w2 w3) 10, key (ek15 w0 w1 w2 w3) 11, key (ek15 w0 w1 w2 w3) 12, key (ek15 w0 w1 w2 w3) 13, key (ek15 w0 w1 w2 w3) 14] =
      Spec.Aria.ek 14 { W0 := w0, W1 := w1, W2 := w2, W3 := w3 } := by
  simp only [Spec.Aria.ek, Spec.Aria.ekAll, List.take, Nat.reduceAdd, BitVec.xor_comm (w0.rotateRight 19) w3,
    BitVec.xor_comm (w0.rotateRight 31) w3, BitVec.xor_comm (w0.rotateLeft 61) w3,
    BitVec.xor_comm (w0.rotateLeft 31) w3]
  rfl

/-- the `dk` literal of the Rust is dk1..dk15 of §2.3.2 -/
theorem dk15_spec (e : Nat → BitVec 128) :
    [key (dk15 e) 0, key (dk15 e) 1, key (dk15 e) 2, key (dk15 e) 3, key (dk15 e) 4, key (dk15 e) 5, key (dk15 e) 6, key (dk15 e) 7, key (dk15 e) 8, key (dk15 e) 9, key (dk15 e) 10, key (dk15 e) 11, key (dk15 e) 12, key (dk15 e) 13, key (dk15 e) 14] =
      Spec.Aria.mapInner A ([e 0, e 1, e 2, e 3, e 4, e 5, e 6, e 7, e 8, e 9, e 10, e 11, e 12, e 13, e 14]).reverse := by
  simp only [List.reverse_cons, List.reverse_nil, List.nil_append, List.cons_append, Spec.Aria.mapInner,
    Spec.Aria.mapInner.go, ← a_eq_A]
  rfl

/-- the `ek` literal of the Rust is ek1..ek17 of §2.2.2 (ek4/8/12/16 are written `W3 ^ (W0 >>> n)` in the
Rust and `(W0 >>> n) ^ W3` in the RFC) -/
theorem ek17_spec (w0 w1 w2 w3 : BitVec 128) :
    [key (ek17 w0 w1 w2 w3) 0, key (ek17 w0 w1 w2 w3) 1, key (ek17 w0 w1 w2 w3) 2, key (ek17 w0 w1 w2 w3) 3, key (ek17 w0 w1 w2 w3) 4, key (ek17 w0 w1 w2 w3) 5, key (ek17 w0 w1 w2 w3) 6, key (ek17 w0 w1 w2 w3) 7, key (ek17 w0 w1 w2 w3) 8, key (ek17 w0 w1 w2 w3) 9, key (ek17 w0 w1 w2 w3) 10, key (ek17 w0 w1 w2 w3) 11, key (ek17 w0 w1 w2 w3) 12, key (ek17 w0 w1 w2 w3) 13, key (ek17 w0 w1 w2 w3) 14, key (ek17 w0 w1 w2 w3) 15, key (ek17 w0 w1 w2 w3) 16] =
      Spec.Aria.ek 16 { W0 := w0, W1 := w1, W2 := w2, W3 := w3 } := by
  simp only [Spec.Aria.ek, Spec.Aria.ekAll, List.take, Nat.reduceAdd, BitVec.xor_comm (w0.rotateRight 19) w3,
    BitVec.xor_comm (w0.rotateRight 31) w3, BitVec.xor_comm (w0.rotateLeft 61) w3,
    BitVec.xor_comm (w0.rotateLeft 31) w3]
  rfl

/-- the `dk` literal of the Rust is dk1..dk17 of §2.3.2 -/
theorem dk17_spec (e : Nat → BitVec 128) :
    [key (dk17 e) 0, key (dk17 e) 1, key (dk17 e) 2, key (dk17 e) 3, key (dk17 e) 4, key (dk17 e) 5, key (dk17 e) 6, key (dk17 e) 7, key (dk17 e) 8, key (dk17 e) 9, key (dk17 e) 10, key (dk17 e) 11, key (dk17 e) 12, key (dk17 e) 13, key (dk17 e) 14, key (dk17 e) 15, key (dk17 e) 16] =
      Spec.Aria.mapInner A ([e 0, e 1, e 2, e 3, e 4, e 5, e 6, e 7, e 8, e 9, e 10, e 11, e 12, e 13, e 14, e 15, e 16]).reverse := by
  simp only [List.reverse_cons, List.reverse_nil, List.nil_append, List.cons_append, Spec.Aria.mapInner,
    Spec.Aria.mapInner.go, ← a_eq_A]
  rfl

/-! ### Impl = Spec -/

theorem encrypt128_eq_spec (K b : BitVec 128) : encrypt128 K b = Spec.Aria.encrypt128 K b := by
  rw [encrypt128, encryptBlock, cryptWith13_spec, Spec.Aria.encrypt128, Spec.Aria.w128, initW_eq]
  simp only [new128, ek13_spec, C1_eq, C2_eq, C3_eq]

theorem decrypt128_eq_spec (K b : BitVec 128) : decrypt128 K b = Spec.Aria.decrypt128 K b := by
  rw [decrypt128, decryptBlock, cryptWith13_spec, Spec.Aria.decrypt128, Spec.Aria.w128, initW_eq,
    Spec.Aria.dk]
  simp only [new128, dk13_spec, ek13_spec, C1_eq, C2_eq, C3_eq]

theorem kl192 (K : BitVec 192) :
    K.extractLsb' 64 128 = ((K.setWidth 256 <<< 64) >>> 128).setWidth 128 := by bv_decide (config := { timeout := 600 })
theorem kr192 (K : BitVec 192) :
    (K.extractLsb' 0 64).setWidth 128 <<< 64 = (K.setWidth 256 <<< 64).setWidth 128 := by bv_decide (config := { timeout := 600 })

theorem encrypt192_eq_spec (K : BitVec 192) (b : BitVec 128) : encrypt192 K b = Spec.Aria.encrypt192 K b := by
  rw [encrypt192, encryptBlock, cryptWith15_spec, Spec.Aria.encrypt192, Spec.Aria.w192, initW_eq]
  simp only [new192, ek15_spec, C1_eq, C2_eq, C3_eq, kl192, kr192]

theorem decrypt192_eq_spec (K : BitVec 192) (b : BitVec 128) : decrypt192 K b = Spec.Aria.decrypt192 K b := by
  rw [decrypt192, decryptBlock, cryptWith15_spec, Spec.Aria.decrypt192, Spec.Aria.w192, initW_eq,
    Spec.Aria.dk]
  simp only [new192, dk15_spec, ek15_spec, C1_eq, C2_eq, C3_eq, kl192, kr192]

theorem kl256 (K : BitVec 256) : K.extractLsb' 128 128 = (K >>> 128).setWidth 128 := by bv_decide (config := { timeout := 600 })
theorem kr256 (K : BitVec 256) : K.extractLsb' 0 128 = K.setWidth 128 := by bv_decide (config := { timeout := 600 })

theorem encrypt256_eq_spec (K : BitVec 256) (b : BitVec 128) : encrypt256 K b = Spec.Aria.encrypt256 K b := by
  rw [encrypt256, encryptBlock, cryptWith17_spec, Spec.Aria.encrypt256, Spec.Aria.w256, initW_eq]
  simp only [new256, ek17_spec, C1_eq, C2_eq, C3_eq, kl256, kr256]

theorem decrypt256_eq_spec (K : BitVec 256) (b : BitVec 128) : decrypt256 K b = Spec.Aria.decrypt256 K b := by
  rw [decrypt256, decryptBlock, cryptWith17_spec, Spec.Aria.decrypt256, Spec.Aria.w256, initW_eq,
    Spec.Aria.dk]
  simp only [new256, dk17_spec, ek17_spec, C1_eq, C2_eq, C3_eq, kl256, kr256]

end BC.Aria
