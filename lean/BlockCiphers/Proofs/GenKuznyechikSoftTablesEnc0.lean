import BlockCiphers.Gen.Cipher_Kuznyechik_soft
import BlockCiphers.Proofs.GenKuznyechikSoftTablesBase
/-! Part of the fused-table tie of Kuznyechik's big software backend: see `GenKuznyechikSoftTablesBase.lean`. -/
set_option maxRecDepth 100000
namespace BC.GenCipher.Kuznyechik
open BC BC.Kuznyechik BC.Spec.Kuznyechik BC.Gen.Fn
/-! #### enc, byte position 0 -/
def Renc0 (v : BitVec 8) : BitVec 128 := rev128 (L (setb 0#128 0 v))
theorem Renc0_xor (a b : BitVec 8) : Renc0 (a ^^^ b) = Renc0 a ^^^ Renc0 b := by
  simp only [Renc0, setb_xor0, L_xor, rev128_xor]
theorem Renc0_zero : Renc0 0#8 = 0#128 := by
  have h := Renc0_xor 0#8 0#8
  simp only [BitVec.xor_self] at h
  exact h
theorem Renc0_ite (c : Bool) (a : BitVec 8) : Renc0 (if c then a else 0#8) = if c then Renc0 a else 0#128 := by
  cases c <;> simp [Renc0_zero]
theorem Renc0_b0 : Renc0 0x01#8 = 0x9484dd10bd275db87a486c7276a26ecf#128 := by
  rw [Renc0, setb_unit0, ← l_fwd_eq_L, ← lfwdB_pack kuznyechik_compact_encrypt_block_tbl0 kuznyechik_compact_encrypt_block_tbl1 kuznyechik_compact_encrypt_block_tbl2 kuznyechik_compact_encrypt_block_tbl3 kuznyechik_compact_encrypt_block_tbl4 kuznyechik_compact_encrypt_block_tbl5 kuznyechik_compact_encrypt_block_tbl6 gfE]
  decide +kernel
theorem Renc0_b1 : Renc0 0x02#8 = 0xebcb7920b94ebab3f490d8e4ec87dc5d#128 := by
  rw [Renc0, setb_unit0, ← l_fwd_eq_L, ← lfwdB_pack kuznyechik_compact_encrypt_block_tbl0 kuznyechik_compact_encrypt_block_tbl1 kuznyechik_compact_encrypt_block_tbl2 kuznyechik_compact_encrypt_block_tbl3 kuznyechik_compact_encrypt_block_tbl4 kuznyechik_compact_encrypt_block_tbl5 kuznyechik_compact_encrypt_block_tbl6 gfE]
  decide +kernel
theorem Renc0_b2 : Renc0 0x04#8 = 0x1555f240b19cb7a52be3730b1bcd7bba#128 := by
  rw [Renc0, setb_unit0, ← l_fwd_eq_L, ← lfwdB_pack kuznyechik_compact_encrypt_block_tbl0 kuznyechik_compact_encrypt_block_tbl1 kuznyechik_compact_encrypt_block_tbl2 kuznyechik_compact_encrypt_block_tbl3 kuznyechik_compact_encrypt_block_tbl4 kuznyechik_compact_encrypt_block_tbl5 kuznyechik_compact_encrypt_block_tbl6 gfE]
  decide +kernel
theorem Renc0_b3 : Renc0 0x08#8 = 0x2aaa2780a1fbad895605e6163659f6b7#128 := by
  rw [Renc0, setb_unit0, ← l_fwd_eq_L, ← lfwdB_pack kuznyechik_compact_encrypt_block_tbl0 kuznyechik_compact_encrypt_block_tbl1 kuznyechik_compact_encrypt_block_tbl2 kuznyechik_compact_encrypt_block_tbl3 kuznyechik_compact_encrypt_block_tbl4 kuznyechik_compact_encrypt_block_tbl5 kuznyechik_compact_encrypt_block_tbl6 gfE]
  decide +kernel
theorem Renc0_b4 : Renc0 0x10#8 = 0x54974ec3813599d1ac0a0f2c6cb22fad#128 := by
  rw [Renc0, setb_unit0, ← l_fwd_eq_L, ← lfwdB_pack kuznyechik_compact_encrypt_block_tbl0 kuznyechik_compact_encrypt_block_tbl1 kuznyechik_compact_encrypt_block_tbl2 kuznyechik_compact_encrypt_block_tbl3 kuznyechik_compact_encrypt_block_tbl4 kuznyechik_compact_encrypt_block_tbl5 kuznyechik_compact_encrypt_block_tbl6 gfE]
  decide +kernel
theorem Renc0_b5 : Renc0 0x20#8 = 0xa8ed9c45c16af1619b141e58d8a75e99#128 := by
  rw [Renc0, setb_unit0, ← l_fwd_eq_L, ← lfwdB_pack kuznyechik_compact_encrypt_block_tbl0 kuznyechik_compact_encrypt_block_tbl1 kuznyechik_compact_encrypt_block_tbl2 kuznyechik_compact_encrypt_block_tbl3 kuznyechik_compact_encrypt_block_tbl4 kuznyechik_compact_encrypt_block_tbl5 kuznyechik_compact_encrypt_block_tbl6 gfE]
  decide +kernel
theorem Renc0_b6 : Renc0 0x40#8 = 0x9319fb8a41d421c2f5283cb0738dbcf1#128 := by
  rw [Renc0, setb_unit0, ← l_fwd_eq_L, ← lfwdB_pack kuznyechik_compact_encrypt_block_tbl0 kuznyechik_compact_encrypt_block_tbl1 kuznyechik_compact_encrypt_block_tbl2 kuznyechik_compact_encrypt_block_tbl3 kuznyechik_compact_encrypt_block_tbl4 kuznyechik_compact_encrypt_block_tbl5 kuznyechik_compact_encrypt_block_tbl6 gfE]
  decide +kernel
theorem Renc0_b7 : Renc0 0x80#8 = 0xe53235d7826b4247295078a3e6d9bb21#128 := by
  rw [Renc0, setb_unit0, ← l_fwd_eq_L, ← lfwdB_pack kuznyechik_compact_encrypt_block_tbl0 kuznyechik_compact_encrypt_block_tbl1 kuznyechik_compact_encrypt_block_tbl2 kuznyechik_compact_encrypt_block_tbl3 kuznyechik_compact_encrypt_block_tbl4 kuznyechik_compact_encrypt_block_tbl5 kuznyechik_compact_encrypt_block_tbl6 gfE]
  decide +kernel
theorem Renc0_comb (v : BitVec 8) : Renc0 v = comb 0x9484dd10bd275db87a486c7276a26ecf#128 0xebcb7920b94ebab3f490d8e4ec87dc5d#128 0x1555f240b19cb7a52be3730b1bcd7bba#128 0x2aaa2780a1fbad895605e6163659f6b7#128 0x54974ec3813599d1ac0a0f2c6cb22fad#128 0xa8ed9c45c16af1619b141e58d8a75e99#128 0x9319fb8a41d421c2f5283cb0738dbcf1#128 0xe53235d7826b4247295078a3e6d9bb21#128 v := by
  have h := congrArg Renc0 (bits8 v)
  rw [← h]
  simp only [Renc0_xor, Renc0_ite, Renc0_b0, Renc0_b1, Renc0_b2, Renc0_b3, Renc0_b4, Renc0_b5, Renc0_b6, Renc0_b7, comb]
theorem encC_0 : ∀ n : Fin 256, BC.Gen.tblAt kuznyechik_soft_encrypt_block_tbl0 n.val 128 = comb 0x9484dd10bd275db87a486c7276a26ecf#128 0xebcb7920b94ebab3f490d8e4ec87dc5d#128 0x1555f240b19cb7a52be3730b1bcd7bba#128 0x2aaa2780a1fbad895605e6163659f6b7#128 0x54974ec3813599d1ac0a0f2c6cb22fad#128 0xa8ed9c45c16af1619b141e58d8a75e99#128 0x9319fb8a41d421c2f5283cb0738dbcf1#128 0xe53235d7826b4247295078a3e6d9bb21#128 (BC.Gen.tblAt BC.Gen.kuznyechik_P n.val 8) := by decide +kernel
theorem encT_0 (x : BitVec 8) : BC.Gen.tblAt kuznyechik_soft_encrypt_block_tbl0 (x.setWidth 64).toNat 128 = row ENC_TABLE.get ⟨0, by decide⟩ x := by
  rw [ENC_TABLE_row]
  show _ = Renc0 _
  rw [Renc0_comb]
  refine fin_at _ (fun y => comb 0x9484dd10bd275db87a486c7276a26ecf#128 0xebcb7920b94ebab3f490d8e4ec87dc5d#128 0x1555f240b19cb7a52be3730b1bcd7bba#128 0x2aaa2780a1fbad895605e6163659f6b7#128 0x54974ec3813599d1ac0a0f2c6cb22fad#128 0xa8ed9c45c16af1619b141e58d8a75e99#128 0x9319fb8a41d421c2f5283cb0738dbcf1#128 0xe53235d7826b4247295078a3e6d9bb21#128 (lut P y)) (fun n => ?_) x
  rw [encC_0 n, p_fin n]

/-! #### enc, byte position 1 -/
def Renc1 (v : BitVec 8) : BitVec 128 := rev128 (L (setb 0#128 1 v))
theorem Renc1_xor (a b : BitVec 8) : Renc1 (a ^^^ b) = Renc1 a ^^^ Renc1 b := by
  simp only [Renc1, setb_xor1, L_xor, rev128_xor]
theorem Renc1_zero : Renc1 0#8 = 0#128 := by
  have h := Renc1_xor 0#8 0#8
  simp only [BitVec.xor_self] at h
  exact h
theorem Renc1_ite (c : Bool) (a : BitVec 8) : Renc1 (if c then a else 0#8) = if c then Renc1 a else 0#128 := by
  cases c <;> simp [Renc1_zero]
theorem Renc1_b0 : Renc1 0x01#8 = 0x202d99e9959fd449e6d576f233c82098#128 := by
  rw [Renc1, setb_unit1, ← l_fwd_eq_L, ← lfwdB_pack kuznyechik_compact_encrypt_block_tbl0 kuznyechik_compact_encrypt_block_tbl1 kuznyechik_compact_encrypt_block_tbl2 kuznyechik_compact_encrypt_block_tbl3 kuznyechik_compact_encrypt_block_tbl4 kuznyechik_compact_encrypt_block_tbl5 kuznyechik_compact_encrypt_block_tbl6 gfE]
  decide +kernel
theorem Renc1_b1 : Renc1 0x02#8 = 0x405af111e9fd6b920f69ec27665340f3#128 := by
  rw [Renc1, setb_unit1, ← l_fwd_eq_L, ← lfwdB_pack kuznyechik_compact_encrypt_block_tbl0 kuznyechik_compact_encrypt_block_tbl1 kuznyechik_compact_encrypt_block_tbl2 kuznyechik_compact_encrypt_block_tbl3 kuznyechik_compact_encrypt_block_tbl4 kuznyechik_compact_encrypt_block_tbl5 kuznyechik_compact_encrypt_block_tbl6 gfE]
  decide +kernel
theorem Renc1_b2 : Renc1 0x04#8 = 0x80b421221139d6e71ed21b4ecca68025#128 := by
  rw [Renc1, setb_unit1, ← l_fwd_eq_L, ← lfwdB_pack kuznyechik_compact_encrypt_block_tbl0 kuznyechik_compact_encrypt_block_tbl1 kuznyechik_compact_encrypt_block_tbl2 kuznyechik_compact_encrypt_block_tbl3 kuznyechik_compact_encrypt_block_tbl4 kuznyechik_compact_encrypt_block_tbl5 kuznyechik_compact_encrypt_block_tbl6 gfE]
  decide +kernel
theorem Renc1_b3 : Renc1 0x08#8 = 0xc3ab424422726f0d3c67369c5b8fc34a#128 := by
  rw [Renc1, setb_unit1, ← l_fwd_eq_L, ← lfwdB_pack kuznyechik_compact_encrypt_block_tbl0 kuznyechik_compact_encrypt_block_tbl1 kuznyechik_compact_encrypt_block_tbl2 kuznyechik_compact_encrypt_block_tbl3 kuznyechik_compact_encrypt_block_tbl4 kuznyechik_compact_encrypt_block_tbl5 kuznyechik_compact_encrypt_block_tbl6 gfE]
  decide +kernel
theorem Renc1_b4 : Renc1 0x10#8 = 0x4595848844e4de1a78ce6cfbb6dd4594#128 := by
  rw [Renc1, setb_unit1, ← l_fwd_eq_L, ← lfwdB_pack kuznyechik_compact_encrypt_block_tbl0 kuznyechik_compact_encrypt_block_tbl1 kuznyechik_compact_encrypt_block_tbl2 kuznyechik_compact_encrypt_block_tbl3 kuznyechik_compact_encrypt_block_tbl4 kuznyechik_compact_encrypt_block_tbl5 kuznyechik_compact_encrypt_block_tbl6 gfE]
  decide +kernel
theorem Renc1_b5 : Renc1 0x20#8 = 0x8ae9cbd3880b7f34f05fd835af798aeb#128 := by
  rw [Renc1, setb_unit1, ← l_fwd_eq_L, ← lfwdB_pack kuznyechik_compact_encrypt_block_tbl0 kuznyechik_compact_encrypt_block_tbl1 kuznyechik_compact_encrypt_block_tbl2 kuznyechik_compact_encrypt_block_tbl3 kuznyechik_compact_encrypt_block_tbl4 kuznyechik_compact_encrypt_block_tbl5 kuznyechik_compact_encrypt_block_tbl6 gfE]
  decide +kernel
theorem Renc1_b6 : Renc1 0x40#8 = 0xd7115565d316fe6823be736a9df2d715#128 := by
  rw [Renc1, setb_unit1, ← l_fwd_eq_L, ← lfwdB_pack kuznyechik_compact_encrypt_block_tbl0 kuznyechik_compact_encrypt_block_tbl1 kuznyechik_compact_encrypt_block_tbl2 kuznyechik_compact_encrypt_block_tbl3 kuznyechik_compact_encrypt_block_tbl4 kuznyechik_compact_encrypt_block_tbl5 kuznyechik_compact_encrypt_block_tbl6 gfE]
  decide +kernel
theorem Renc1_b7 : Renc1 0x80#8 = 0x6d22aaca652c3fd046bfe6d4f9276d2a#128 := by
  rw [Renc1, setb_unit1, ← l_fwd_eq_L, ← lfwdB_pack kuznyechik_compact_encrypt_block_tbl0 kuznyechik_compact_encrypt_block_tbl1 kuznyechik_compact_encrypt_block_tbl2 kuznyechik_compact_encrypt_block_tbl3 kuznyechik_compact_encrypt_block_tbl4 kuznyechik_compact_encrypt_block_tbl5 kuznyechik_compact_encrypt_block_tbl6 gfE]
  decide +kernel
theorem Renc1_comb (v : BitVec 8) : Renc1 v = comb 0x202d99e9959fd449e6d576f233c82098#128 0x405af111e9fd6b920f69ec27665340f3#128 0x80b421221139d6e71ed21b4ecca68025#128 0xc3ab424422726f0d3c67369c5b8fc34a#128 0x4595848844e4de1a78ce6cfbb6dd4594#128 0x8ae9cbd3880b7f34f05fd835af798aeb#128 0xd7115565d316fe6823be736a9df2d715#128 0x6d22aaca652c3fd046bfe6d4f9276d2a#128 v := by
  have h := congrArg Renc1 (bits8 v)
  rw [← h]
  simp only [Renc1_xor, Renc1_ite, Renc1_b0, Renc1_b1, Renc1_b2, Renc1_b3, Renc1_b4, Renc1_b5, Renc1_b6, Renc1_b7, comb]
theorem encC_1 : ∀ n : Fin 256, BC.Gen.tblAt kuznyechik_soft_encrypt_block_tbl1 n.val 128 = comb 0x202d99e9959fd449e6d576f233c82098#128 0x405af111e9fd6b920f69ec27665340f3#128 0x80b421221139d6e71ed21b4ecca68025#128 0xc3ab424422726f0d3c67369c5b8fc34a#128 0x4595848844e4de1a78ce6cfbb6dd4594#128 0x8ae9cbd3880b7f34f05fd835af798aeb#128 0xd7115565d316fe6823be736a9df2d715#128 0x6d22aaca652c3fd046bfe6d4f9276d2a#128 (BC.Gen.tblAt BC.Gen.kuznyechik_P n.val 8) := by decide +kernel
theorem encT_1 (x : BitVec 8) : BC.Gen.tblAt kuznyechik_soft_encrypt_block_tbl1 (x.setWidth 64).toNat 128 = row ENC_TABLE.get ⟨1, by decide⟩ x := by
  rw [ENC_TABLE_row]
  show _ = Renc1 _
  rw [Renc1_comb]
  refine fin_at _ (fun y => comb 0x202d99e9959fd449e6d576f233c82098#128 0x405af111e9fd6b920f69ec27665340f3#128 0x80b421221139d6e71ed21b4ecca68025#128 0xc3ab424422726f0d3c67369c5b8fc34a#128 0x4595848844e4de1a78ce6cfbb6dd4594#128 0x8ae9cbd3880b7f34f05fd835af798aeb#128 0xd7115565d316fe6823be736a9df2d715#128 0x6d22aaca652c3fd046bfe6d4f9276d2a#128 (lut P y)) (fun n => ?_) x
  rw [encC_1 n, p_fin n]

/-! #### enc, byte position 2 -/
def Renc2 (v : BitVec 8) : BitVec 128 := rev128 (L (setb 0#128 2 v))
theorem Renc2_xor (a b : BitVec 8) : Renc2 (a ^^^ b) = Renc2 a ^^^ Renc2 b := by
  simp only [Renc2, setb_xor2, L_xor, rev128_xor]
theorem Renc2_zero : Renc2 0#8 = 0#128 := by
  have h := Renc2_xor 0#8 0#8
  simp only [BitVec.xor_self] at h
  exact h
theorem Renc2_ite (c : Bool) (a : BitVec 8) : Renc2 (if c then a else 0#8) = if c then Renc2 a else 0#128 := by
  cases c <;> simp [Renc2_zero]
theorem Renc2_b0 : Renc2 0x01#8 = 0x857475d05ebeb8874e62ec6b1087c674#128 := by
  rw [Renc2, setb_unit2, ← l_fwd_eq_L, ← lfwdB_pack kuznyechik_compact_encrypt_block_tbl0 kuznyechik_compact_encrypt_block_tbl1 kuznyechik_compact_encrypt_block_tbl2 kuznyechik_compact_encrypt_block_tbl3 kuznyechik_compact_encrypt_block_tbl4 kuznyechik_compact_encrypt_block_tbl5 kuznyechik_compact_encrypt_block_tbl6 gfE]
  decide +kernel
theorem Renc2_b1 : Renc2 0x02#8 = 0xc9e8ea63bcbfb3cd9cc41bd620cd4fe8#128 := by
  rw [Renc2, setb_unit2, ← l_fwd_eq_L, ← lfwdB_pack kuznyechik_compact_encrypt_block_tbl0 kuznyechik_compact_encrypt_block_tbl1 kuznyechik_compact_encrypt_block_tbl2 kuznyechik_compact_encrypt_block_tbl3 kuznyechik_compact_encrypt_block_tbl4 kuznyechik_compact_encrypt_block_tbl5 kuznyechik_compact_encrypt_block_tbl6 gfE]
  decide +kernel
theorem Renc2_b2 : Renc2 0x04#8 = 0x511317c6bbbda559fb4b366f40599e13#128 := by
  rw [Renc2, setb_unit2, ← l_fwd_eq_L, ← lfwdB_pack kuznyechik_compact_encrypt_block_tbl0 kuznyechik_compact_encrypt_block_tbl1 kuznyechik_compact_encrypt_block_tbl2 kuznyechik_compact_encrypt_block_tbl3 kuznyechik_compact_encrypt_block_tbl4 kuznyechik_compact_encrypt_block_tbl5 kuznyechik_compact_encrypt_block_tbl6 gfE]
  decide +kernel
theorem Renc2_b3 : Renc2 0x08#8 = 0xa2262e4fb5b989b235966cde80b2ff26#128 := by
  rw [Renc2, setb_unit2, ← l_fwd_eq_L, ← lfwdB_pack kuznyechik_compact_encrypt_block_tbl0 kuznyechik_compact_encrypt_block_tbl1 kuznyechik_compact_encrypt_block_tbl2 kuznyechik_compact_encrypt_block_tbl3 kuznyechik_compact_encrypt_block_tbl4 kuznyechik_compact_encrypt_block_tbl5 kuznyechik_compact_encrypt_block_tbl6 gfE]
  decide +kernel
theorem Renc2_b4 : Renc2 0x10#8 = 0x874c5c9ea9b1d1a76aefd87fc3a73d4c#128 := by
  rw [Renc2, setb_unit2, ← l_fwd_eq_L, ← lfwdB_pack kuznyechik_compact_encrypt_block_tbl0 kuznyechik_compact_encrypt_block_tbl1 kuznyechik_compact_encrypt_block_tbl2 kuznyechik_compact_encrypt_block_tbl3 kuznyechik_compact_encrypt_block_tbl4 kuznyechik_compact_encrypt_block_tbl5 kuznyechik_compact_encrypt_block_tbl6 gfE]
  decide +kernel
theorem Renc2_b5 : Renc2 0x20#8 = 0xcd98b8ff91a1618dd41d73fe458d7a98#128 := by
  rw [Renc2, setb_unit2, ← l_fwd_eq_L, ← lfwdB_pack kuznyechik_compact_encrypt_block_tbl0 kuznyechik_compact_encrypt_block_tbl1 kuznyechik_compact_encrypt_block_tbl2 kuznyechik_compact_encrypt_block_tbl3 kuznyechik_compact_encrypt_block_tbl4 kuznyechik_compact_encrypt_block_tbl5 kuznyechik_compact_encrypt_block_tbl6 gfE]
  decide +kernel
theorem Renc2_b6 : Renc2 0x40#8 = 0x59f3b33de181c2d96b3ae63f8ad9f4f3#128 := by
  rw [Renc2, setb_unit2, ← l_fwd_eq_L, ← lfwdB_pack kuznyechik_compact_encrypt_block_tbl0 kuznyechik_compact_encrypt_block_tbl1 kuznyechik_compact_encrypt_block_tbl2 kuznyechik_compact_encrypt_block_tbl3 kuznyechik_compact_encrypt_block_tbl4 kuznyechik_compact_encrypt_block_tbl5 kuznyechik_compact_encrypt_block_tbl6 gfE]
  decide +kernel
theorem Renc2_b7 : Renc2 0x80#8 = 0xb225a57a01c14771d6740f7ed7712b25#128 := by
  rw [Renc2, setb_unit2, ← l_fwd_eq_L, ← lfwdB_pack kuznyechik_compact_encrypt_block_tbl0 kuznyechik_compact_encrypt_block_tbl1 kuznyechik_compact_encrypt_block_tbl2 kuznyechik_compact_encrypt_block_tbl3 kuznyechik_compact_encrypt_block_tbl4 kuznyechik_compact_encrypt_block_tbl5 kuznyechik_compact_encrypt_block_tbl6 gfE]
  decide +kernel
theorem Renc2_comb (v : BitVec 8) : Renc2 v = comb 0x857475d05ebeb8874e62ec6b1087c674#128 0xc9e8ea63bcbfb3cd9cc41bd620cd4fe8#128 0x511317c6bbbda559fb4b366f40599e13#128 0xa2262e4fb5b989b235966cde80b2ff26#128 0x874c5c9ea9b1d1a76aefd87fc3a73d4c#128 0xcd98b8ff91a1618dd41d73fe458d7a98#128 0x59f3b33de181c2d96b3ae63f8ad9f4f3#128 0xb225a57a01c14771d6740f7ed7712b25#128 v := by
  have h := congrArg Renc2 (bits8 v)
  rw [← h]
  simp only [Renc2_xor, Renc2_ite, Renc2_b0, Renc2_b1, Renc2_b2, Renc2_b3, Renc2_b4, Renc2_b5, Renc2_b6, Renc2_b7, comb]
theorem encC_2 : ∀ n : Fin 256, BC.Gen.tblAt kuznyechik_soft_encrypt_block_tbl2 n.val 128 = comb 0x857475d05ebeb8874e62ec6b1087c674#128 0xc9e8ea63bcbfb3cd9cc41bd620cd4fe8#128 0x511317c6bbbda559fb4b366f40599e13#128 0xa2262e4fb5b989b235966cde80b2ff26#128 0x874c5c9ea9b1d1a76aefd87fc3a73d4c#128 0xcd98b8ff91a1618dd41d73fe458d7a98#128 0x59f3b33de181c2d96b3ae63f8ad9f4f3#128 0xb225a57a01c14771d6740f7ed7712b25#128 (BC.Gen.tblAt BC.Gen.kuznyechik_P n.val 8) := by decide +kernel
theorem encT_2 (x : BitVec 8) : BC.Gen.tblAt kuznyechik_soft_encrypt_block_tbl2 (x.setWidth 64).toNat 128 = row ENC_TABLE.get ⟨2, by decide⟩ x := by
  rw [ENC_TABLE_row]
  show _ = Renc2 _
  rw [Renc2_comb]
  refine fin_at _ (fun y => comb 0x857475d05ebeb8874e62ec6b1087c674#128 0xc9e8ea63bcbfb3cd9cc41bd620cd4fe8#128 0x511317c6bbbda559fb4b366f40599e13#128 0xa2262e4fb5b989b235966cde80b2ff26#128 0x874c5c9ea9b1d1a76aefd87fc3a73d4c#128 0xcd98b8ff91a1618dd41d73fe458d7a98#128 0x59f3b33de181c2d96b3ae63f8ad9f4f3#128 0xb225a57a01c14771d6740f7ed7712b25#128 (lut P y)) (fun n => ?_) x
  rw [encC_2 n, p_fin n]

/-! #### enc, byte position 3 -/
def Renc3 (v : BitVec 8) : BitVec 128 := rev128 (L (setb 0#128 3 v))
theorem Renc3_xor (a b : BitVec 8) : Renc3 (a ^^^ b) = Renc3 a ^^^ Renc3 b := by
  simp only [Renc3, setb_xor3, L_xor, rev128_xor]
theorem Renc3_zero : Renc3 0#8 = 0#128 := by
  have h := Renc3_xor 0#8 0#8
  simp only [BitVec.xor_self] at h
  exact h
theorem Renc3_ite (c : Bool) (a : BitVec 8) : Renc3 (if c then a else 0#8) = if c then Renc3 a else 0#128 := by
  cases c <;> simp [Renc3_zero]
theorem Renc3_b0 : Renc3 0x01#8 = 0x1096cad930682f141a170cca0c70dabf#128 := by
  rw [Renc3, setb_unit3, ← l_fwd_eq_L, ← lfwdB_pack kuznyechik_compact_encrypt_block_tbl0 kuznyechik_compact_encrypt_block_tbl1 kuznyechik_compact_encrypt_block_tbl2 kuznyechik_compact_encrypt_block_tbl3 kuznyechik_compact_encrypt_block_tbl4 kuznyechik_compact_encrypt_block_tbl5 kuznyechik_compact_encrypt_block_tbl6 gfE]
  decide +kernel
theorem Renc3_b1 : Renc3 0x02#8 = 0x20ef577160d05e28342e185718e077bd#128 := by
  rw [Renc3, setb_unit3, ← l_fwd_eq_L, ← lfwdB_pack kuznyechik_compact_encrypt_block_tbl0 kuznyechik_compact_encrypt_block_tbl1 kuznyechik_compact_encrypt_block_tbl2 kuznyechik_compact_encrypt_block_tbl3 kuznyechik_compact_encrypt_block_tbl4 kuznyechik_compact_encrypt_block_tbl5 kuznyechik_compact_encrypt_block_tbl6 gfE]
  decide +kernel
theorem Renc3_b2 : Renc3 0x04#8 = 0x401daee2c063bc50685c30ae3003eeb9#128 := by
  rw [Renc3, setb_unit3, ← l_fwd_eq_L, ← lfwdB_pack kuznyechik_compact_encrypt_block_tbl0 kuznyechik_compact_encrypt_block_tbl1 kuznyechik_compact_encrypt_block_tbl2 kuznyechik_compact_encrypt_block_tbl3 kuznyechik_compact_encrypt_block_tbl4 kuznyechik_compact_encrypt_block_tbl5 kuznyechik_compact_encrypt_block_tbl6 gfE]
  decide +kernel
theorem Renc3_b3 : Renc3 0x08#8 = 0x803a9f0743c6bba0d0b8609f60061fb1#128 := by
  rw [Renc3, setb_unit3, ← l_fwd_eq_L, ← lfwdB_pack kuznyechik_compact_encrypt_block_tbl0 kuznyechik_compact_encrypt_block_tbl1 kuznyechik_compact_encrypt_block_tbl2 kuznyechik_compact_encrypt_block_tbl3 kuznyechik_compact_encrypt_block_tbl4 kuznyechik_compact_encrypt_block_tbl5 kuznyechik_compact_encrypt_block_tbl6 gfE]
  decide +kernel
theorem Renc3_b4 : Renc3 0x10#8 = 0xc374fd0e864fb58363b3c0fdc00c3ea1#128 := by
  rw [Renc3, setb_unit3, ← l_fwd_eq_L, ← lfwdB_pack kuznyechik_compact_encrypt_block_tbl0 kuznyechik_compact_encrypt_block_tbl1 kuznyechik_compact_encrypt_block_tbl2 kuznyechik_compact_encrypt_block_tbl3 kuznyechik_compact_encrypt_block_tbl4 kuznyechik_compact_encrypt_block_tbl5 kuznyechik_compact_encrypt_block_tbl6 gfE]
  decide +kernel
theorem Renc3_b5 : Renc3 0x20#8 = 0x45e8391ccf9ea9c5c6a5433943187c81#128 := by
  rw [Renc3, setb_unit3, ← l_fwd_eq_L, ← lfwdB_pack kuznyechik_compact_encrypt_block_tbl0 kuznyechik_compact_encrypt_block_tbl1 kuznyechik_compact_encrypt_block_tbl2 kuznyechik_compact_encrypt_block_tbl3 kuznyechik_compact_encrypt_block_tbl4 kuznyechik_compact_encrypt_block_tbl5 kuznyechik_compact_encrypt_block_tbl6 gfE]
  decide +kernel
theorem Renc3_b6 : Renc3 0x40#8 = 0x8a1372385dff91494f8986728630f8c1#128 := by
  rw [Renc3, setb_unit3, ← l_fwd_eq_L, ← lfwdB_pack kuznyechik_compact_encrypt_block_tbl0 kuznyechik_compact_encrypt_block_tbl1 kuznyechik_compact_encrypt_block_tbl2 kuznyechik_compact_encrypt_block_tbl3 kuznyechik_compact_encrypt_block_tbl4 kuznyechik_compact_encrypt_block_tbl5 kuznyechik_compact_encrypt_block_tbl6 gfE]
  decide +kernel
theorem Renc3_b7 : Renc3 0x80#8 = 0xd726e470ba3de1929ed1cfe4cf603341#128 := by
  rw [Renc3, setb_unit3, ← l_fwd_eq_L, ← lfwdB_pack kuznyechik_compact_encrypt_block_tbl0 kuznyechik_compact_encrypt_block_tbl1 kuznyechik_compact_encrypt_block_tbl2 kuznyechik_compact_encrypt_block_tbl3 kuznyechik_compact_encrypt_block_tbl4 kuznyechik_compact_encrypt_block_tbl5 kuznyechik_compact_encrypt_block_tbl6 gfE]
  decide +kernel
theorem Renc3_comb (v : BitVec 8) : Renc3 v = comb 0x1096cad930682f141a170cca0c70dabf#128 0x20ef577160d05e28342e185718e077bd#128 0x401daee2c063bc50685c30ae3003eeb9#128 0x803a9f0743c6bba0d0b8609f60061fb1#128 0xc374fd0e864fb58363b3c0fdc00c3ea1#128 0x45e8391ccf9ea9c5c6a5433943187c81#128 0x8a1372385dff91494f8986728630f8c1#128 0xd726e470ba3de1929ed1cfe4cf603341#128 v := by
  have h := congrArg Renc3 (bits8 v)
  rw [← h]
  simp only [Renc3_xor, Renc3_ite, Renc3_b0, Renc3_b1, Renc3_b2, Renc3_b3, Renc3_b4, Renc3_b5, Renc3_b6, Renc3_b7, comb]
theorem encC_3 : ∀ n : Fin 256, BC.Gen.tblAt kuznyechik_soft_encrypt_block_tbl3 n.val 128 = comb 0x1096cad930682f141a170cca0c70dabf#128 0x20ef577160d05e28342e185718e077bd#128 0x401daee2c063bc50685c30ae3003eeb9#128 0x803a9f0743c6bba0d0b8609f60061fb1#128 0xc374fd0e864fb58363b3c0fdc00c3ea1#128 0x45e8391ccf9ea9c5c6a5433943187c81#128 0x8a1372385dff91494f8986728630f8c1#128 0xd726e470ba3de1929ed1cfe4cf603341#128 (BC.Gen.tblAt BC.Gen.kuznyechik_P n.val 8) := by decide +kernel
theorem encT_3 (x : BitVec 8) : BC.Gen.tblAt kuznyechik_soft_encrypt_block_tbl3 (x.setWidth 64).toNat 128 = row ENC_TABLE.get ⟨3, by decide⟩ x := by
  rw [ENC_TABLE_row]
  show _ = Renc3 _
  rw [Renc3_comb]
  refine fin_at _ (fun y => comb 0x1096cad930682f141a170cca0c70dabf#128 0x20ef577160d05e28342e185718e077bd#128 0x401daee2c063bc50685c30ae3003eeb9#128 0x803a9f0743c6bba0d0b8609f60061fb1#128 0xc374fd0e864fb58363b3c0fdc00c3ea1#128 0x45e8391ccf9ea9c5c6a5433943187c81#128 0x8a1372385dff91494f8986728630f8c1#128 0xd726e470ba3de1929ed1cfe4cf603341#128 (lut P y)) (fun n => ?_) x
  rw [encC_3 n, p_fin n]

/-! #### enc, byte position 4 -/
def Renc4 (v : BitVec 8) : BitVec 128 := rev128 (L (setb 0#128 4 v))
theorem Renc4_xor (a b : BitVec 8) : Renc4 (a ^^^ b) = Renc4 a ^^^ Renc4 b := by
  simp only [Renc4, setb_xor4, L_xor, rev128_xor]
theorem Renc4_zero : Renc4 0#8 = 0#128 := by
  have h := Renc4_xor 0#8 0#8
  simp only [BitVec.xor_self] at h
  exact h
theorem Renc4_ite (c : Bool) (a : BitVec 8) : Renc4 (if c then a else 0#8) = if c then Renc4 a else 0#128 := by
  cases c <;> simp [Renc4_zero]
theorem Renc4_b0 : Renc4 0x01#8 = 0xc25d97f3e91a8dcbbb06c5201c689093#128 := by
  rw [Renc4, setb_unit4, ← l_fwd_eq_L, ← lfwdB_pack kuznyechik_compact_encrypt_block_tbl0 kuznyechik_compact_encrypt_block_tbl1 kuznyechik_compact_encrypt_block_tbl2 kuznyechik_compact_encrypt_block_tbl3 kuznyechik_compact_encrypt_block_tbl4 kuznyechik_compact_encrypt_block_tbl5 kuznyechik_compact_encrypt_block_tbl6 gfE]
  decide +kernel
theorem Renc4_b1 : Renc4 0x02#8 = 0x47baed251134d955b50c494038d0e3e5#128 := by
  rw [Renc4, setb_unit4, ← l_fwd_eq_L, ← lfwdB_pack kuznyechik_compact_encrypt_block_tbl0 kuznyechik_compact_encrypt_block_tbl1 kuznyechik_compact_encrypt_block_tbl2 kuznyechik_compact_encrypt_block_tbl3 kuznyechik_compact_encrypt_block_tbl4 kuznyechik_compact_encrypt_block_tbl5 kuznyechik_compact_encrypt_block_tbl6 gfE]
  decide +kernel
theorem Renc4_b2 : Renc4 0x04#8 = 0x8eb7194a226871aaa918928070630509#128 := by
  rw [Renc4, setb_unit4, ← l_fwd_eq_L, ← lfwdB_pack kuznyechik_compact_encrypt_block_tbl0 kuznyechik_compact_encrypt_block_tbl1 kuznyechik_compact_encrypt_block_tbl2 kuznyechik_compact_encrypt_block_tbl3 kuznyechik_compact_encrypt_block_tbl4 kuznyechik_compact_encrypt_block_tbl5 kuznyechik_compact_encrypt_block_tbl6 gfE]
  decide +kernel
theorem Renc4_b3 : Renc4 0x08#8 = 0xdfad329444d0e2979130e7c3e0c60a12#128 := by
  rw [Renc4, setb_unit4, ← l_fwd_eq_L, ← lfwdB_pack kuznyechik_compact_encrypt_block_tbl0 kuznyechik_compact_encrypt_block_tbl1 kuznyechik_compact_encrypt_block_tbl2 kuznyechik_compact_encrypt_block_tbl3 kuznyechik_compact_encrypt_block_tbl4 kuznyechik_compact_encrypt_block_tbl5 kuznyechik_compact_encrypt_block_tbl6 gfE]
  decide +kernel
theorem Renc4_b4 : Renc4 0x10#8 = 0x7d9964eb886307ede1600d45034f1424#128 := by
  rw [Renc4, setb_unit4, ← l_fwd_eq_L, ← lfwdB_pack kuznyechik_compact_encrypt_block_tbl0 kuznyechik_compact_encrypt_block_tbl1 kuznyechik_compact_encrypt_block_tbl2 kuznyechik_compact_encrypt_block_tbl3 kuznyechik_compact_encrypt_block_tbl4 kuznyechik_compact_encrypt_block_tbl5 kuznyechik_compact_encrypt_block_tbl6 gfE]
  decide +kernel
theorem Renc4_b5 : Renc4 0x20#8 = 0xfaf1c815d3c60e1901c01a8a069e2848#128 := by
  rw [Renc4, setb_unit4, ← l_fwd_eq_L, ← lfwdB_pack kuznyechik_compact_encrypt_block_tbl0 kuznyechik_compact_encrypt_block_tbl1 kuznyechik_compact_encrypt_block_tbl2 kuznyechik_compact_encrypt_block_tbl3 kuznyechik_compact_encrypt_block_tbl4 kuznyechik_compact_encrypt_block_tbl5 kuznyechik_compact_encrypt_block_tbl6 gfE]
  decide +kernel
theorem Renc4_b6 : Renc4 0x40#8 = 0x3721532a654f1c32024334d70cff5090#128 := by
  rw [Renc4, setb_unit4, ← l_fwd_eq_L, ← lfwdB_pack kuznyechik_compact_encrypt_block_tbl0 kuznyechik_compact_encrypt_block_tbl1 kuznyechik_compact_encrypt_block_tbl2 kuznyechik_compact_encrypt_block_tbl3 kuznyechik_compact_encrypt_block_tbl4 kuznyechik_compact_encrypt_block_tbl5 kuznyechik_compact_encrypt_block_tbl6 gfE]
  decide +kernel
theorem Renc4_b7 : Renc4 0x80#8 = 0x6e42a654ca9e38640486686d183da0e3#128 := by
  rw [Renc4, setb_unit4, ← l_fwd_eq_L, ← lfwdB_pack kuznyechik_compact_encrypt_block_tbl0 kuznyechik_compact_encrypt_block_tbl1 kuznyechik_compact_encrypt_block_tbl2 kuznyechik_compact_encrypt_block_tbl3 kuznyechik_compact_encrypt_block_tbl4 kuznyechik_compact_encrypt_block_tbl5 kuznyechik_compact_encrypt_block_tbl6 gfE]
  decide +kernel
theorem Renc4_comb (v : BitVec 8) : Renc4 v = comb 0xc25d97f3e91a8dcbbb06c5201c689093#128 0x47baed251134d955b50c494038d0e3e5#128 0x8eb7194a226871aaa918928070630509#128 0xdfad329444d0e2979130e7c3e0c60a12#128 0x7d9964eb886307ede1600d45034f1424#128 0xfaf1c815d3c60e1901c01a8a069e2848#128 0x3721532a654f1c32024334d70cff5090#128 0x6e42a654ca9e38640486686d183da0e3#128 v := by
  have h := congrArg Renc4 (bits8 v)
  rw [← h]
  simp only [Renc4_xor, Renc4_ite, Renc4_b0, Renc4_b1, Renc4_b2, Renc4_b3, Renc4_b4, Renc4_b5, Renc4_b6, Renc4_b7, comb]
theorem encC_4 : ∀ n : Fin 256, BC.Gen.tblAt kuznyechik_soft_encrypt_block_tbl4 n.val 128 = comb 0xc25d97f3e91a8dcbbb06c5201c689093#128 0x47baed251134d955b50c494038d0e3e5#128 0x8eb7194a226871aaa918928070630509#128 0xdfad329444d0e2979130e7c3e0c60a12#128 0x7d9964eb886307ede1600d45034f1424#128 0xfaf1c815d3c60e1901c01a8a069e2848#128 0x3721532a654f1c32024334d70cff5090#128 0x6e42a654ca9e38640486686d183da0e3#128 (BC.Gen.tblAt BC.Gen.kuznyechik_P n.val 8) := by decide +kernel
theorem encT_4 (x : BitVec 8) : BC.Gen.tblAt kuznyechik_soft_encrypt_block_tbl4 (x.setWidth 64).toNat 128 = row ENC_TABLE.get ⟨4, by decide⟩ x := by
  rw [ENC_TABLE_row]
  show _ = Renc4 _
  rw [Renc4_comb]
  refine fin_at _ (fun y => comb 0xc25d97f3e91a8dcbbb06c5201c689093#128 0x47baed251134d955b50c494038d0e3e5#128 0x8eb7194a226871aaa918928070630509#128 0xdfad329444d0e2979130e7c3e0c60a12#128 0x7d9964eb886307ede1600d45034f1424#128 0xfaf1c815d3c60e1901c01a8a069e2848#128 0x3721532a654f1c32024334d70cff5090#128 0x6e42a654ca9e38640486686d183da0e3#128 (lut P y)) (fun n => ?_) x
  rw [encC_4 n, p_fin n]

/-! #### enc, byte position 5 -/
def Renc5 (v : BitVec 8) : BitVec 128 := rev128 (L (setb 0#128 5 v))
theorem Renc5_xor (a b : BitVec 8) : Renc5 (a ^^^ b) = Renc5 a ^^^ Renc5 b := by
  simp only [Renc5, setb_xor5, L_xor, rev128_xor]
theorem Renc5_zero : Renc5 0#8 = 0#128 := by
  have h := Renc5_xor 0#8 0#8
  simp only [BitVec.xor_self] at h
  exact h
theorem Renc5_ite (c : Bool) (a : BitVec 8) : Renc5 (if c then a else 0#8) = if c then Renc5 a else 0#128 := by
  cases c <;> simp [Renc5_zero]
theorem Renc5_b0 : Renc5 0x01#8 = 0xc0774494607c128d2e2dbceb1143488e#128 := by
  rw [Renc5, setb_unit5, ← l_fwd_eq_L, ← lfwdB_pack kuznyechik_compact_encrypt_block_tbl0 kuznyechik_compact_encrypt_block_tbl1 kuznyechik_compact_encrypt_block_tbl2 kuznyechik_compact_encrypt_block_tbl3 kuznyechik_compact_encrypt_block_tbl4 kuznyechik_compact_encrypt_block_tbl5 kuznyechik_compact_encrypt_block_tbl6 gfE]
  decide +kernel
theorem Renc5_b1 : Renc5 0x02#8 = 0x43ee88ebc0f824d95c5abb15228690df#128 := by
  rw [Renc5, setb_unit5, ← l_fwd_eq_L, ← lfwdB_pack kuznyechik_compact_encrypt_block_tbl0 kuznyechik_compact_encrypt_block_tbl1 kuznyechik_compact_encrypt_block_tbl2 kuznyechik_compact_encrypt_block_tbl3 kuznyechik_compact_encrypt_block_tbl4 kuznyechik_compact_encrypt_block_tbl5 kuznyechik_compact_encrypt_block_tbl6 gfE]
  decide +kernel
theorem Renc5_b2 : Renc5 0x04#8 = 0x861fd31543334871b8b4b52a44cfe37d#128 := by
  rw [Renc5, setb_unit5, ← l_fwd_eq_L, ← lfwdB_pack kuznyechik_compact_encrypt_block_tbl0 kuznyechik_compact_encrypt_block_tbl1 kuznyechik_compact_encrypt_block_tbl2 kuznyechik_compact_encrypt_block_tbl3 kuznyechik_compact_encrypt_block_tbl4 kuznyechik_compact_encrypt_block_tbl5 kuznyechik_compact_encrypt_block_tbl6 gfE]
  decide +kernel
theorem Renc5_b3 : Renc5 0x08#8 = 0xcf3e652a866690e2b3aba954885d05fa#128 := by
  rw [Renc5, setb_unit5, ← l_fwd_eq_L, ← lfwdB_pack kuznyechik_compact_encrypt_block_tbl0 kuznyechik_compact_encrypt_block_tbl1 kuznyechik_compact_encrypt_block_tbl2 kuznyechik_compact_encrypt_block_tbl3 kuznyechik_compact_encrypt_block_tbl4 kuznyechik_compact_encrypt_block_tbl5 kuznyechik_compact_encrypt_block_tbl6 gfE]
  decide +kernel
theorem Renc5_b4 : Renc5 0x10#8 = 0x5d7cca54cfcce307a59591a8d3ba0a37#128 := by
  rw [Renc5, setb_unit5, ← l_fwd_eq_L, ← lfwdB_pack kuznyechik_compact_encrypt_block_tbl0 kuznyechik_compact_encrypt_block_tbl1 kuznyechik_compact_encrypt_block_tbl2 kuznyechik_compact_encrypt_block_tbl3 kuznyechik_compact_encrypt_block_tbl4 kuznyechik_compact_encrypt_block_tbl5 kuznyechik_compact_encrypt_block_tbl6 gfE]
  decide +kernel
theorem Renc5_b5 : Renc5 0x20#8 = 0xbaf857a85d5b050e89e9e19365b7146e#128 := by
  rw [Renc5, setb_unit5, ← l_fwd_eq_L, ← lfwdB_pack kuznyechik_compact_encrypt_block_tbl0 kuznyechik_compact_encrypt_block_tbl1 kuznyechik_compact_encrypt_block_tbl2 kuznyechik_compact_encrypt_block_tbl3 kuznyechik_compact_encrypt_block_tbl4 kuznyechik_compact_encrypt_block_tbl5 kuznyechik_compact_encrypt_block_tbl6 gfE]
  decide +kernel
theorem Renc5_b6 : Renc5 0x40#8 = 0xb733ae93bab60a1cd11101e5caad28dc#128 := by
  rw [Renc5, setb_unit5, ← l_fwd_eq_L, ← lfwdB_pack kuznyechik_compact_encrypt_block_tbl0 kuznyechik_compact_encrypt_block_tbl1 kuznyechik_compact_encrypt_block_tbl2 kuznyechik_compact_encrypt_block_tbl3 kuznyechik_compact_encrypt_block_tbl4 kuznyechik_compact_encrypt_block_tbl5 kuznyechik_compact_encrypt_block_tbl6 gfE]
  decide +kernel
theorem Renc5_b7 : Renc5 0x80#8 = 0xad669fe5b7af1438612202095799507b#128 := by
  rw [Renc5, setb_unit5, ← l_fwd_eq_L, ← lfwdB_pack kuznyechik_compact_encrypt_block_tbl0 kuznyechik_compact_encrypt_block_tbl1 kuznyechik_compact_encrypt_block_tbl2 kuznyechik_compact_encrypt_block_tbl3 kuznyechik_compact_encrypt_block_tbl4 kuznyechik_compact_encrypt_block_tbl5 kuznyechik_compact_encrypt_block_tbl6 gfE]
  decide +kernel
theorem Renc5_comb (v : BitVec 8) : Renc5 v = comb 0xc0774494607c128d2e2dbceb1143488e#128 0x43ee88ebc0f824d95c5abb15228690df#128 0x861fd31543334871b8b4b52a44cfe37d#128 0xcf3e652a866690e2b3aba954885d05fa#128 0x5d7cca54cfcce307a59591a8d3ba0a37#128 0xbaf857a85d5b050e89e9e19365b7146e#128 0xb733ae93bab60a1cd11101e5caad28dc#128 0xad669fe5b7af1438612202095799507b#128 v := by
  have h := congrArg Renc5 (bits8 v)
  rw [← h]
  simp only [Renc5_xor, Renc5_ite, Renc5_b0, Renc5_b1, Renc5_b2, Renc5_b3, Renc5_b4, Renc5_b5, Renc5_b6, Renc5_b7, comb]
theorem encC_5 : ∀ n : Fin 256, BC.Gen.tblAt kuznyechik_soft_encrypt_block_tbl5 n.val 128 = comb 0xc0774494607c128d2e2dbceb1143488e#128 0x43ee88ebc0f824d95c5abb15228690df#128 0x861fd31543334871b8b4b52a44cfe37d#128 0xcf3e652a866690e2b3aba954885d05fa#128 0x5d7cca54cfcce307a59591a8d3ba0a37#128 0xbaf857a85d5b050e89e9e19365b7146e#128 0xb733ae93bab60a1cd11101e5caad28dc#128 0xad669fe5b7af1438612202095799507b#128 (BC.Gen.tblAt BC.Gen.kuznyechik_P n.val 8) := by decide +kernel
theorem encT_5 (x : BitVec 8) : BC.Gen.tblAt kuznyechik_soft_encrypt_block_tbl5 (x.setWidth 64).toNat 128 = row ENC_TABLE.get ⟨5, by decide⟩ x := by
  rw [ENC_TABLE_row]
  show _ = Renc5 _
  rw [Renc5_comb]
  refine fin_at _ (fun y => comb 0xc0774494607c128d2e2dbceb1143488e#128 0x43ee88ebc0f824d95c5abb15228690df#128 0x861fd31543334871b8b4b52a44cfe37d#128 0xcf3e652a866690e2b3aba954885d05fa#128 0x5d7cca54cfcce307a59591a8d3ba0a37#128 0xbaf857a85d5b050e89e9e19365b7146e#128 0xb733ae93bab60a1cd11101e5caad28dc#128 0xad669fe5b7af1438612202095799507b#128 (lut P y)) (fun n => ?_) x
  rw [encC_5 n, p_fin n]

/-! #### enc, byte position 6 -/
def Renc6 (v : BitVec 8) : BitVec 128 := rev128 (L (setb 0#128 6 v))
theorem Renc6_xor (a b : BitVec 8) : Renc6 (a ^^^ b) = Renc6 a ^^^ Renc6 b := by
  simp only [Renc6, setb_xor6, L_xor, rev128_xor]
theorem Renc6_zero : Renc6 0#8 = 0#128 := by
  have h := Renc6_xor 0#8 0#8
  simp only [BitVec.xor_self] at h
  exact h
theorem Renc6_ite (c : Bool) (a : BitVec 8) : Renc6 (if c then a else 0#8) = if c then Renc6 a else 0#128 := by
  cases c <;> simp [Renc6_zero]
theorem Renc6_b0 : Renc6 0x01#8 = 0x16f5a3dbfadeeabf1c4af02d61c89f2#128 := by
  rw [Renc6, setb_unit6, ← l_fwd_eq_L, ← lfwdB_pack kuznyechik_compact_encrypt_block_tbl0 kuznyechik_compact_encrypt_block_tbl1 kuznyechik_compact_encrypt_block_tbl2 kuznyechik_compact_encrypt_block_tbl3 kuznyechik_compact_encrypt_block_tbl4 kuznyechik_compact_encrypt_block_tbl5 kuznyechik_compact_encrypt_block_tbl6 gfE]
  decide +kernel
theorem Renc6_b1 : Renc6 0x02#8 = 0x2deb47abd991f95214b9d046f38d127#128 := by
  rw [Renc6, setb_unit6, ← l_fwd_eq_L, ← lfwdB_pack kuznyechik_compact_encrypt_block_tbl0 kuznyechik_compact_encrypt_block_tbl1 kuznyechik_compact_encrypt_block_tbl2 kuznyechik_compact_encrypt_block_tbl3 kuznyechik_compact_encrypt_block_tbl4 kuznyechik_compact_encrypt_block_tbl5 kuznyechik_compact_encrypt_block_tbl6 gfE]
  decide +kernel
theorem Renc6_b2 : Renc6 0x04#8 = 0x47fabf4b9f13ee94296f908de70614e#128 := by
  rw [Renc6, setb_unit6, ← l_fwd_eq_L, ← lfwdB_pack kuznyechik_compact_encrypt_block_tbl0 kuznyechik_compact_encrypt_block_tbl1 kuznyechik_compact_encrypt_block_tbl2 kuznyechik_compact_encrypt_block_tbl3 kuznyechik_compact_encrypt_block_tbl4 kuznyechik_compact_encrypt_block_tbl5 kuznyechik_compact_encrypt_block_tbl6 gfE]
  decide +kernel
theorem Renc6_b3 : Renc6 0x08#8 = 0x8fe952bb1217c1184ef31107fe0c29c#128 := by
  rw [Renc6, setb_unit6, ← l_fwd_eq_L, ← lfwdB_pack kuznyechik_compact_encrypt_block_tbl0 kuznyechik_compact_encrypt_block_tbl1 kuznyechik_compact_encrypt_block_tbl2 kuznyechik_compact_encrypt_block_tbl3 kuznyechik_compact_encrypt_block_tbl4 kuznyechik_compact_encrypt_block_tbl5 kuznyechik_compact_encrypt_block_tbl6 gfE]
  decide +kernel
theorem Renc6_b4 : Renc6 0x10#8 = 0x103fe956a142f822cb1d6220fe0347fb#128 := by
  rw [Renc6, setb_unit6, ← l_fwd_eq_L, ← lfwdB_pack kuznyechik_compact_encrypt_block_tbl0 kuznyechik_compact_encrypt_block_tbl1 kuznyechik_compact_encrypt_block_tbl2 kuznyechik_compact_encrypt_block_tbl3 kuznyechik_compact_encrypt_block_tbl4 kuznyechik_compact_encrypt_block_tbl5 kuznyechik_compact_encrypt_block_tbl6 gfE]
  decide +kernel
theorem Renc6_b5 : Renc6 0x20#8 = 0x207e11ac81843344553ac4403f068e35#128 := by
  rw [Renc6, setb_unit6, ← l_fwd_eq_L, ← lfwdB_pack kuznyechik_compact_encrypt_block_tbl0 kuznyechik_compact_encrypt_block_tbl1 kuznyechik_compact_encrypt_block_tbl2 kuznyechik_compact_encrypt_block_tbl3 kuznyechik_compact_encrypt_block_tbl4 kuznyechik_compact_encrypt_block_tbl5 kuznyechik_compact_encrypt_block_tbl6 gfE]
  decide +kernel
theorem Renc6_b6 : Renc6 0x40#8 = 0x40fc229bc1cb6688aa744b807e0cdf6a#128 := by
  rw [Renc6, setb_unit6, ← l_fwd_eq_L, ← lfwdB_pack kuznyechik_compact_encrypt_block_tbl0 kuznyechik_compact_encrypt_block_tbl1 kuznyechik_compact_encrypt_block_tbl2 kuznyechik_compact_encrypt_block_tbl3 kuznyechik_compact_encrypt_block_tbl4 kuznyechik_compact_encrypt_block_tbl5 kuznyechik_compact_encrypt_block_tbl6 gfE]
  decide +kernel
theorem Renc6_b7 : Renc6 0x80#8 = 0x803b44f54155ccd397e896c3fc187dd4#128 := by
  rw [Renc6, setb_unit6, ← l_fwd_eq_L, ← lfwdB_pack kuznyechik_compact_encrypt_block_tbl0 kuznyechik_compact_encrypt_block_tbl1 kuznyechik_compact_encrypt_block_tbl2 kuznyechik_compact_encrypt_block_tbl3 kuznyechik_compact_encrypt_block_tbl4 kuznyechik_compact_encrypt_block_tbl5 kuznyechik_compact_encrypt_block_tbl6 gfE]
  decide +kernel
theorem Renc6_comb (v : BitVec 8) : Renc6 v = comb 0x16f5a3dbfadeeabf1c4af02d61c89f2#128 0x2deb47abd991f95214b9d046f38d127#128 0x47fabf4b9f13ee94296f908de70614e#128 0x8fe952bb1217c1184ef31107fe0c29c#128 0x103fe956a142f822cb1d6220fe0347fb#128 0x207e11ac81843344553ac4403f068e35#128 0x40fc229bc1cb6688aa744b807e0cdf6a#128 0x803b44f54155ccd397e896c3fc187dd4#128 v := by
  have h := congrArg Renc6 (bits8 v)
  rw [← h]
  simp only [Renc6_xor, Renc6_ite, Renc6_b0, Renc6_b1, Renc6_b2, Renc6_b3, Renc6_b4, Renc6_b5, Renc6_b6, Renc6_b7, comb]
theorem encC_6 : ∀ n : Fin 256, BC.Gen.tblAt kuznyechik_soft_encrypt_block_tbl6 n.val 128 = comb 0x16f5a3dbfadeeabf1c4af02d61c89f2#128 0x2deb47abd991f95214b9d046f38d127#128 0x47fabf4b9f13ee94296f908de70614e#128 0x8fe952bb1217c1184ef31107fe0c29c#128 0x103fe956a142f822cb1d6220fe0347fb#128 0x207e11ac81843344553ac4403f068e35#128 0x40fc229bc1cb6688aa744b807e0cdf6a#128 0x803b44f54155ccd397e896c3fc187dd4#128 (BC.Gen.tblAt BC.Gen.kuznyechik_P n.val 8) := by decide +kernel
theorem encT_6 (x : BitVec 8) : BC.Gen.tblAt kuznyechik_soft_encrypt_block_tbl6 (x.setWidth 64).toNat 128 = row ENC_TABLE.get ⟨6, by decide⟩ x := by
  rw [ENC_TABLE_row]
  show _ = Renc6 _
  rw [Renc6_comb]
  refine fin_at _ (fun y => comb 0x16f5a3dbfadeeabf1c4af02d61c89f2#128 0x2deb47abd991f95214b9d046f38d127#128 0x47fabf4b9f13ee94296f908de70614e#128 0x8fe952bb1217c1184ef31107fe0c29c#128 0x103fe956a142f822cb1d6220fe0347fb#128 0x207e11ac81843344553ac4403f068e35#128 0x40fc229bc1cb6688aa744b807e0cdf6a#128 0x803b44f54155ccd397e896c3fc187dd4#128 (lut P y)) (fun n => ?_) x
  rw [encC_6 n, p_fin n]

/-! #### enc, byte position 7 -/
def Renc7 (v : BitVec 8) : BitVec 128 := rev128 (L (setb 0#128 7 v))
theorem Renc7_xor (a b : BitVec 8) : Renc7 (a ^^^ b) = Renc7 a ^^^ Renc7 b := by
  simp only [Renc7, setb_xor7, L_xor, rev128_xor]
theorem Renc7_zero : Renc7 0#8 = 0#128 := by
  have h := Renc7_xor 0#8 0#8
  simp only [BitVec.xor_self] at h
  exact h
theorem Renc7_ite (c : Bool) (a : BitVec 8) : Renc7 (if c then a else 0#8) = if c then Renc7 a else 0#128 := by
  cases c <;> simp [Renc7_zero]
theorem Renc7_b0 : Renc7 0x01#8 = 0xfbdee0af10c9f649bee76ea46a2b9cf3#128 := by
  rw [Renc7, setb_unit7, ← l_fwd_eq_L, ← lfwdB_pack kuznyechik_compact_encrypt_block_tbl0 kuznyechik_compact_encrypt_block_tbl1 kuznyechik_compact_encrypt_block_tbl2 kuznyechik_compact_encrypt_block_tbl3 kuznyechik_compact_encrypt_block_tbl4 kuznyechik_compact_encrypt_block_tbl5 kuznyechik_compact_encrypt_block_tbl6 gfE]
  decide +kernel
theorem Renc7_b1 : Renc7 0x02#8 = 0x357f039d20512f92bf0ddc8bd456fb25#128 := by
  rw [Renc7, setb_unit7, ← l_fwd_eq_L, ← lfwdB_pack kuznyechik_compact_encrypt_block_tbl0 kuznyechik_compact_encrypt_block_tbl1 kuznyechik_compact_encrypt_block_tbl2 kuznyechik_compact_encrypt_block_tbl3 kuznyechik_compact_encrypt_block_tbl4 kuznyechik_compact_encrypt_block_tbl5 kuznyechik_compact_encrypt_block_tbl6 gfE]
  decide +kernel
theorem Renc7_b2 : Renc7 0x04#8 = 0x6afe06f940a25ee7bd1a7bd56bac354a#128 := by
  rw [Renc7, setb_unit7, ← l_fwd_eq_L, ← lfwdB_pack kuznyechik_compact_encrypt_block_tbl0 kuznyechik_compact_encrypt_block_tbl1 kuznyechik_compact_encrypt_block_tbl2 kuznyechik_compact_encrypt_block_tbl3 kuznyechik_compact_encrypt_block_tbl4 kuznyechik_compact_encrypt_block_tbl5 kuznyechik_compact_encrypt_block_tbl6 gfE]
  decide +kernel
theorem Renc7_b3 : Renc7 0x08#8 = 0xd43f0c318087bc0db934f669d69b6a94#128 := by
  rw [Renc7, setb_unit7, ← l_fwd_eq_L, ← lfwdB_pack kuznyechik_compact_encrypt_block_tbl0 kuznyechik_compact_encrypt_block_tbl1 kuznyechik_compact_encrypt_block_tbl2 kuznyechik_compact_encrypt_block_tbl3 kuznyechik_compact_encrypt_block_tbl4 kuznyechik_compact_encrypt_block_tbl5 kuznyechik_compact_encrypt_block_tbl6 gfE]
  decide +kernel
theorem Renc7_b4 : Renc7 0x10#8 = 0x6b7e1862c3cdbb1ab1682fd26ff5d4eb#128 := by
  rw [Renc7, setb_unit7, ← l_fwd_eq_L, ← lfwdB_pack kuznyechik_compact_encrypt_block_tbl0 kuznyechik_compact_encrypt_block_tbl1 kuznyechik_compact_encrypt_block_tbl2 kuznyechik_compact_encrypt_block_tbl3 kuznyechik_compact_encrypt_block_tbl4 kuznyechik_compact_encrypt_block_tbl5 kuznyechik_compact_encrypt_block_tbl6 gfE]
  decide +kernel
theorem Renc7_b5 : Renc7 0x20#8 = 0xd6fc30c44559b534a1d05e67de296b15#128 := by
  rw [Renc7, setb_unit7, ← l_fwd_eq_L, ← lfwdB_pack kuznyechik_compact_encrypt_block_tbl0 kuznyechik_compact_encrypt_block_tbl1 kuznyechik_compact_encrypt_block_tbl2 kuznyechik_compact_encrypt_block_tbl3 kuznyechik_compact_encrypt_block_tbl4 kuznyechik_compact_encrypt_block_tbl5 kuznyechik_compact_encrypt_block_tbl6 gfE]
  decide +kernel
theorem Renc7_b6 : Renc7 0x40#8 = 0x6f3b604b8ab2a9688163bcce7f52d62a#128 := by
  rw [Renc7, setb_unit7, ← l_fwd_eq_L, ← lfwdB_pack kuznyechik_compact_encrypt_block_tbl0 kuznyechik_compact_encrypt_block_tbl1 kuznyechik_compact_encrypt_block_tbl2 kuznyechik_compact_encrypt_block_tbl3 kuznyechik_compact_encrypt_block_tbl4 kuznyechik_compact_encrypt_block_tbl5 kuznyechik_compact_encrypt_block_tbl6 gfE]
  decide +kernel
theorem Renc7_b7 : Renc7 0x80#8 = 0xde76c096d7a791d0c1c6bb5ffea46f54#128 := by
  rw [Renc7, setb_unit7, ← l_fwd_eq_L, ← lfwdB_pack kuznyechik_compact_encrypt_block_tbl0 kuznyechik_compact_encrypt_block_tbl1 kuznyechik_compact_encrypt_block_tbl2 kuznyechik_compact_encrypt_block_tbl3 kuznyechik_compact_encrypt_block_tbl4 kuznyechik_compact_encrypt_block_tbl5 kuznyechik_compact_encrypt_block_tbl6 gfE]
  decide +kernel
theorem Renc7_comb (v : BitVec 8) : Renc7 v = comb 0xfbdee0af10c9f649bee76ea46a2b9cf3#128 0x357f039d20512f92bf0ddc8bd456fb25#128 0x6afe06f940a25ee7bd1a7bd56bac354a#128 0xd43f0c318087bc0db934f669d69b6a94#128 0x6b7e1862c3cdbb1ab1682fd26ff5d4eb#128 0xd6fc30c44559b534a1d05e67de296b15#128 0x6f3b604b8ab2a9688163bcce7f52d62a#128 0xde76c096d7a791d0c1c6bb5ffea46f54#128 v := by
  have h := congrArg Renc7 (bits8 v)
  rw [← h]
  simp only [Renc7_xor, Renc7_ite, Renc7_b0, Renc7_b1, Renc7_b2, Renc7_b3, Renc7_b4, Renc7_b5, Renc7_b6, Renc7_b7, comb]
theorem encC_7 : ∀ n : Fin 256, BC.Gen.tblAt kuznyechik_soft_encrypt_block_tbl7 n.val 128 = comb 0xfbdee0af10c9f649bee76ea46a2b9cf3#128 0x357f039d20512f92bf0ddc8bd456fb25#128 0x6afe06f940a25ee7bd1a7bd56bac354a#128 0xd43f0c318087bc0db934f669d69b6a94#128 0x6b7e1862c3cdbb1ab1682fd26ff5d4eb#128 0xd6fc30c44559b534a1d05e67de296b15#128 0x6f3b604b8ab2a9688163bcce7f52d62a#128 0xde76c096d7a791d0c1c6bb5ffea46f54#128 (BC.Gen.tblAt BC.Gen.kuznyechik_P n.val 8) := by decide +kernel
theorem encT_7 (x : BitVec 8) : BC.Gen.tblAt kuznyechik_soft_encrypt_block_tbl7 (x.setWidth 64).toNat 128 = row ENC_TABLE.get ⟨7, by decide⟩ x := by
  rw [ENC_TABLE_row]
  show _ = Renc7 _
  rw [Renc7_comb]
  refine fin_at _ (fun y => comb 0xfbdee0af10c9f649bee76ea46a2b9cf3#128 0x357f039d20512f92bf0ddc8bd456fb25#128 0x6afe06f940a25ee7bd1a7bd56bac354a#128 0xd43f0c318087bc0db934f669d69b6a94#128 0x6b7e1862c3cdbb1ab1682fd26ff5d4eb#128 0xd6fc30c44559b534a1d05e67de296b15#128 0x6f3b604b8ab2a9688163bcce7f52d62a#128 0xde76c096d7a791d0c1c6bb5ffea46f54#128 (lut P y)) (fun n => ?_) x
  rw [encC_7 n, p_fin n]

end BC.GenCipher.Kuznyechik
