import BlockCiphers.Proofs.DesWeak
/-
C13 sanity theorems tying the weak-key list to its meaning:
* the 64 listed keys are exactly the keys whose halves C0, D0 are both of the degenerate kind (all 2^64 keys, bv_decide (config := { timeout := 600 }));
* every listed key has at most four different round keys; the 4 weak keys have palindromic round keys, so
  encryption is an involution; the 12 semi-weak keys come in pairs with mutually reversed round keys, so
  encrypting under one key of the pair decrypts the other.
-/
namespace BC.Des
open BC.Spec.Des (stripParity weak56 weak64 weakKeys semiWeakKeys possiblyWeakKeys roundKeys degenerate
  halfDegenerate C0 D0 permute bit PC1)

set_option maxRecDepth 100000

theorem any_weak64_eq_degenerate (k : BitVec 64) : weak64.any (sameDesKey k) = degenerate k := by
  simp only [weak64, weakKeys, semiWeakKeys, possiblyWeakKeys, List.cons_append, List.nil_append,
    List.any_cons, List.any_nil, sameDesKey, degenerate, halfDegenerate, C0, D0, permute, bit, PC1, List.foldl]
  bv_decide (config := { timeout := 600 })

/-- the eight degenerate halves, explicitly -/
theorem halfDegenerate_iff (c : BitVec 28) :
    halfDegenerate c = (c == 0x0000000#28 || c == 0xFFFFFFF#28 || c == 0x5555555#28 || c == 0xAAAAAAA#28 ||
      c == 0x3333333#28 || c == 0x6666666#28 || c == 0xCCCCCCC#28 || c == 0x9999999#28) := by
  unfold halfDegenerate; bv_decide (config := { timeout := 600 })

/-- the independent list = the structural definition, for every 64-bit key -/
theorem weak56_iff_degenerate (k : BitVec 64) : stripParity k ∈ weak56 ↔ degenerate k = true := by
  rw [← any_weak64_eq_degenerate, List.any_eq_true, weak56, List.mem_map]
  constructor
  · rintro ⟨w, hw, h⟩
    exact ⟨w, hw, by rw [sameDesKey_iff_stripParity, h]; simp⟩
  · rintro ⟨w, hw, h⟩
    rw [sameDesKey_iff_stripParity] at h
    have h2 : stripParity k = stripParity w := by simpa using h
    exact ⟨w, hw, h2.symm⟩

/-- **C13**: `Des::weak_key_test` rejects exactly the structurally degenerate keys -/
theorem des_weak_iff_degenerate (k : BitVec 64) : weak k = true ↔ degenerate k = true := by
  rw [des_weak_iff', weak56_iff_degenerate]

theorem weak64_four_round_keys :
    (weak64.all fun k => decide ((roundKeys k).eraseDups.length ≤ 4)) = true := by decide +kernel

theorem weakKeys_palindromic :
    (weakKeys.all fun k => roundKeys k == (roundKeys k).reverse) = true := by decide +kernel

theorem semiWeak_pairs :
    (semiWeakKeys.all fun k => semiWeakKeys.any fun k' =>
      k' != k && roundKeys k' == (roundKeys k).reverse) = true := by decide +kernel

/-- same 56 key bits ⇒ same encryption function -/
theorem desEnc_of_stripParity (k w b : BitVec 64) (h : stripParity k = stripParity w) :
    desEnc k b = desEnc w b := by
  unfold desEnc; rw [genKeys_of_stripParity k w h]

/-- under a weak key (any parity) encryption is an involution: `E_k(E_k(b)) = b` -/
theorem weak_key_involution (k b : BitVec 64) (hk : stripParity k ∈ weakKeys.map stripParity) :
    desEnc k (desEnc k b) = b := by
  obtain ⟨w, hw, h⟩ := List.mem_map.mp hk
  have hp : roundKeys w = (roundKeys w).reverse := by
    have h0 := List.all_eq_true.mp weakKeys_palindromic w hw
    exact eq_of_beq h0
  have hinv : ∀ x, BC.Spec.Des.des w x = BC.Spec.Des.desInv w x := by
    intro x; unfold BC.Spec.Des.des BC.Spec.Des.desInv; rw [← hp]
  have e1 : ∀ x, desEnc k x = BC.Spec.Des.des w x := by
    intro x; rw [desEnc_of_stripParity k w x h.symm, desEnc_eq_spec]
  rw [e1, e1, hinv]
  exact spec_desInv_des w b

/-- every semi-weak key `k` has a partner `k'` in the list with `E_k'(E_k(b)) = b` -/
theorem semi_weak_partner (k : BitVec 64) (hk : k ∈ semiWeakKeys) :
    ∃ k' ∈ semiWeakKeys, k' ≠ k ∧ ∀ b, desEnc k' (desEnc k b) = b := by
  have h := List.all_eq_true.mp semiWeak_pairs k hk
  obtain ⟨k', hk', h'⟩ := List.any_eq_true.mp h
  simp only [Bool.and_eq_true, bne_iff_ne, ne_eq, beq_iff_eq] at h'
  refine ⟨k', hk', h'.1, fun b => ?_⟩
  have e : ∀ x, BC.Spec.Des.des k' x = BC.Spec.Des.desInv k x := by
    intro x; unfold BC.Spec.Des.des BC.Spec.Des.desInv; rw [h'.2]
  rw [desEnc_eq_spec, desEnc_eq_spec, e]
  exact spec_desInv_des k b

end BC.Des
