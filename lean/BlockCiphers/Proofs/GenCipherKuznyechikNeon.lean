import BlockCiphers.Gen.Cipher_Kuznyechik_neon
import BlockCiphers.Proofs.GenCipherKuznyechikSse2
import BlockCiphers.Proofs.KuznyechikNeon
/-!
Tie of the regenerated NEON back end of Kuznyechik (`Gen/Cipher_Kuznyechik_neon.lean`, translated from
/repo/kuznyechik/src/neon/backends.rs: the `core::arch::aarch64` intrinsics as calls of their transcriptions in
Prelude/ArmIntrinsics.lean and Prelude/KuzIntrinsics.lean, the fused tables read through the data-dependent pointers of `get!`
as `BC.Gen.memRead16`, the sixteen `vld1q_u8(&sbox[16·j])` of `sub_bytes` as loads of constant memory) to the model
`BC.Kuznyechik.Neon`: for ALL round keys `k0 … k9` and ALL blocks

    kuznyechik_neon_encrypt_block k0 … k9 b = Neon.encrypt_block ⟨k0, …, k9⟩ b
    kuznyechik_neon_decrypt_block k0 … k9 b = Neon.decrypt_block ⟨k0, …, k9⟩ b
    kuznyechik_neon_encrypt_par_blocks k0 … k9 b0 … b7  (as a list) = Neon.encrypt_par_blocks ⟨k0, …, k9⟩ [b0, …, b7]
    kuznyechik_neon_decrypt_par_blocks k0 … k9 b0 … b7  (as a list) = Neon.decrypt_par_blocks ⟨k0, …, k9⟩ [b0, …, b7]

Same steps as Proofs/GenCipherKuznyechikSse2.lean (whose `MemOK`, `memOK_of_rows`, `load_at_of_aligned` are reused; the model's
NEON `transform` is definitionally its SSE2 `transform`: `Neon.transform_eq_sse2`).  `vqtbl4q_u8` (TBL on the 512-bit
concatenation of four registers, Prelude/KuzIntrinsics.lean) is the model's four-way case distinction (`lane_eq`, `vqtbl4q_eq`);
the 2 × 16 constant registers of `sub_bytes` are the model's `ld_sbox P (16·j)` / `ld_sbox P_INV (16·j)` (kernel evaluation).
-/
set_option maxRecDepth 100000
set_option linter.unusedSimpArgs false
set_option linter.unusedVariables false
namespace BC.GenCipher.KuznyechikNeon
open BC BC.Kuznyechik BC.Gen.Fn BC.GenCipher.KuznyechikSse2
open BC.GenCipher.Kuznyechik (encS decS)

/-! ### the extern intrinsics are the model's -/
theorem vld1q_eq (m : BitVec 128) : BC.Arm.vld1q_u8 m = Neon.vld1q_u8 m := rfl
theorem vst1q_eq (m : BitVec 128) : BC.Arm.vst1q_u8 m = Neon.vst1q_u8 m := rfl
theorem veorq_eq (a b : BitVec 128) : BC.Arm.veorq_u8 a b = Neon.veorq_u8 a b := rfl
theorem vorrq_eq (a b : BitVec 128) : BC.Arm.vorrq_u8 a b = Neon.vorrq_u8 a b := rfl
theorem vdupq_eq (v : BitVec 8) : BC.Arm.vdupq_n_u8 v = Neon.vdupq_n_u8 v := rfl
theorem vzip1q_eq (a b : BitVec 128) : BC.Arm.vzip1q_u8 a b = Neon.vzip1q_u8 a b := unpacklo_eq a b
theorem vzip2q_eq (a b : BitVec 128) : BC.Arm.vzip2q_u8 a b = Neon.vzip2q_u8 a b := unpackhi_eq a b
theorem vcombine_eq (lo hi : BitVec 64) : BC.Arm.vcombine_u8 (BC.Arm.vcreate_u8 lo) (BC.Arm.vcreate_u8 hi) = Neon.vcombine_u8 lo hi := rfl
theorem vreinterpret_eq (a : BitVec 128) : BC.Arm.vreinterpretq_u16_u8 a = Neon.vreinterpretq_u16_u8 a := rfl
theorem vgetq_lane_eq (a : BitVec 128) (k : Nat) : BC.Arm.vgetq_lane_u16 a k = Neon.vgetq_lane_u16 a k := rfl
theorem vshl4_eq (a : BitVec 128) : BC.Arm.vshlq_n_u16 a 4 = Neon.vshlq_n_u16 a 4 := by
  simp only [BC.Arm.vshlq_n_u16, BC.X86.word, Neon.vshlq_n_u16, Neon.vgetq_lane_u16, range8, List.foldl, Nat.reduceSub, Nat.reduceMul]
  bv_decide
theorem ofLeBytes_cat (f : Nat → BitVec 8) : ofLeBytes f = f 15 ++ f 14 ++ f 13 ++ f 12 ++ f 11 ++ f 10 ++ f 9 ++ f 8 ++ f 7 ++ f 6 ++ f 5 ++ f 4 ++ f 3 ++ f 2 ++ f 1 ++ f 0 := by
  simp only [ofLeBytes, range16, List.foldl, Nat.reduceSub]
  bv_decide
theorem vsubq_eq (a b : BitVec 128) : BC.Arm.vsubq_u8 a b = Neon.vsubq_u8 a b := by
  simp only [BC.Arm.vsubq_u8, Neon.vsubq_u8, ofLeBytes_cat, BC.X86.byte, leByte]

theorem ext_shift {n : Nat} (x : BitVec n) (s len : Nat) : x.extractLsb' s len = (x >>> s).setWidth len := by
  apply BitVec.eq_of_toNat_eq
  simp [BitVec.toNat_ushiftRight]

theorem shift_bv {n : Nat} (x : BitVec n) (ix : BitVec 8) : x >>> (8 * ix.toNat) = x >>> (ix.setWidth 16 * 8#16) := by
  have : (ix.setWidth 16 * 8#16).toNat = 8 * ix.toNat := by
    have := ix.isLt
    simp [BitVec.toNat_mul]; omega
  rw [BitVec.ushiftRight_eq', this]

theorem sub_toNat (ix : BitVec 8) (c : Nat) (hc : c < 256) (h : c ≤ ix.toNat) : ix.toNat - c = (ix - BitVec.ofNat 8 c).toNat := by
  have := ix.isLt
  simp [BitVec.toNat_sub, Nat.mod_eq_of_lt hc]; omega

theorem lane_eq (t0 t1 t2 t3 : BitVec 128) (ix : BitVec 8) :
    BC.Arm.tbl4Lane (t3 ++ t2 ++ t1 ++ t0) ix = Neon.tblLane ⟨t0, t1, t2, t3⟩ ix := by
  simp only [BC.Arm.tbl4Lane, Neon.tblLane, leByte, ext_shift]
  by_cases h1 : ix.toNat < 16
  · have b1 : ix < 16#8 := by rw [BitVec.lt_def]; exact h1
    rw [if_pos (by omega), if_pos h1, shift_bv, shift_bv]
    bv_decide
  · by_cases h2 : ix.toNat < 32
    · have b1 : ¬ ix < 16#8 := by rw [BitVec.lt_def]; exact h1
      have b2 : ix < 32#8 := by rw [BitVec.lt_def]; exact h2
      rw [if_pos (by omega), if_neg h1, if_pos h2, sub_toNat ix 16 (by decide) (by omega), shift_bv, shift_bv]
      bv_decide
    · by_cases h3 : ix.toNat < 48
      · have b1 : ¬ ix < 32#8 := by rw [BitVec.lt_def]; exact h2
        have b2 : ix < 48#8 := by rw [BitVec.lt_def]; exact h3
        rw [if_pos (by omega), if_neg h1, if_neg h2, if_pos h3, sub_toNat ix 32 (by decide) (by omega), shift_bv, shift_bv]
        bv_decide
      · by_cases h4 : ix.toNat < 64
        · have b1 : ¬ ix < 48#8 := by rw [BitVec.lt_def]; exact h3
          have b2 : ix < 64#8 := by rw [BitVec.lt_def]; exact h4
          rw [if_pos h4, if_neg h1, if_neg h2, if_neg h3, if_pos h4, sub_toNat ix 48 (by decide) (by omega), shift_bv, shift_bv]
          bv_decide
        · rw [if_neg h4, if_neg h1, if_neg h2, if_neg h3, if_neg h4]

/-- TBL on the 512-bit table `t3:t2:t1:t0` is the model's `vqtbl4q_u8` -/
theorem vqtbl4q_eq (t0 t1 t2 t3 idx : BitVec 128) : BC.Arm.vqtbl4q_u8 t0 t1 t2 t3 idx = Neon.vqtbl4q_u8 ⟨t0, t1, t2, t3⟩ idx := by
  simp only [BC.Arm.vqtbl4q_u8, Neon.vqtbl4q_u8_eq, ofLeBytes_cat, BC.X86.byte, lane_eq, leByte]

/-! ### `transform` -/

/-- `get!(table, ind, i)` -/
def getG (mem : List (Array Nat)) (ind : BitVec 128) (i : Nat) : BitVec 128 :=
  BC.Arm.vld1q_u8 (BC.Gen.memRead16 mem ((BC.Arm.vgetq_lane_u16 ind i).setWidth 64).toNat)

def indG : BitVec 128 := BC.Arm.vcombine_u8 (BC.Arm.vcreate_u8 0x706050403020100#64) (BC.Arm.vcreate_u8 0xf0e0d0c0b0a0908#64)
theorem indG_eq : indG = Sse2.ind := rfl

/-- `transform(block, table)` as generated -/
def trG (mem : List (Array Nat)) (b : BitVec 128) : BitVec 128 :=
  BC.Arm.veorq_u8
    (BC.Arm.veorq_u8 (BC.Arm.veorq_u8 (BC.Arm.veorq_u8 (BC.Arm.veorq_u8 (BC.Arm.veorq_u8 (BC.Arm.veorq_u8 (BC.Arm.veorq_u8 (getG mem (BC.Arm.vshlq_n_u16 (BC.Arm.vreinterpretq_u16_u8 (BC.Arm.vzip1q_u8 b indG)) 4) 0) (getG mem (BC.Arm.vshlq_n_u16 (BC.Arm.vreinterpretq_u16_u8 (BC.Arm.vzip1q_u8 b indG)) 4) 1)) (getG mem (BC.Arm.vshlq_n_u16 (BC.Arm.vreinterpretq_u16_u8 (BC.Arm.vzip1q_u8 b indG)) 4) 2)) (getG mem (BC.Arm.vshlq_n_u16 (BC.Arm.vreinterpretq_u16_u8 (BC.Arm.vzip1q_u8 b indG)) 4) 3)) (getG mem (BC.Arm.vshlq_n_u16 (BC.Arm.vreinterpretq_u16_u8 (BC.Arm.vzip1q_u8 b indG)) 4) 4)) (getG mem (BC.Arm.vshlq_n_u16 (BC.Arm.vreinterpretq_u16_u8 (BC.Arm.vzip1q_u8 b indG)) 4) 5)) (getG mem (BC.Arm.vshlq_n_u16 (BC.Arm.vreinterpretq_u16_u8 (BC.Arm.vzip1q_u8 b indG)) 4) 6)) (getG mem (BC.Arm.vshlq_n_u16 (BC.Arm.vreinterpretq_u16_u8 (BC.Arm.vzip1q_u8 b indG)) 4) 7))
    (BC.Arm.veorq_u8 (BC.Arm.veorq_u8 (BC.Arm.veorq_u8 (BC.Arm.veorq_u8 (BC.Arm.veorq_u8 (BC.Arm.veorq_u8 (BC.Arm.veorq_u8 (getG mem (BC.Arm.vshlq_n_u16 (BC.Arm.vreinterpretq_u16_u8 (BC.Arm.vzip2q_u8 b indG)) 4) 0) (getG mem (BC.Arm.vshlq_n_u16 (BC.Arm.vreinterpretq_u16_u8 (BC.Arm.vzip2q_u8 b indG)) 4) 1)) (getG mem (BC.Arm.vshlq_n_u16 (BC.Arm.vreinterpretq_u16_u8 (BC.Arm.vzip2q_u8 b indG)) 4) 2)) (getG mem (BC.Arm.vshlq_n_u16 (BC.Arm.vreinterpretq_u16_u8 (BC.Arm.vzip2q_u8 b indG)) 4) 3)) (getG mem (BC.Arm.vshlq_n_u16 (BC.Arm.vreinterpretq_u16_u8 (BC.Arm.vzip2q_u8 b indG)) 4) 4)) (getG mem (BC.Arm.vshlq_n_u16 (BC.Arm.vreinterpretq_u16_u8 (BC.Arm.vzip2q_u8 b indG)) 4) 5)) (getG mem (BC.Arm.vshlq_n_u16 (BC.Arm.vreinterpretq_u16_u8 (BC.Arm.vzip2q_u8 b indG)) 4) 6)) (getG mem (BC.Arm.vshlq_n_u16 (BC.Arm.vreinterpretq_u16_u8 (BC.Arm.vzip2q_u8 b indG)) 4) 7))

theorem getG_eq (tab : Vector (BitVec 128) 4096) (mem : List (Array Nat)) (h : MemOK tab mem) (x : BitVec 128) (k : Nat)
    (ha : (Sse2._mm_extract_epi16 x k).toNat % 16 = 0) : getG mem x k = Sse2.get tab x k := by
  unfold getG Sse2.get
  exact (load_memRead16 mem _).trans (load_at_of_aligned tab mem h _ ha)
theorem getG_lind_0 (tab : Vector (BitVec 128) 4096) (mem : List (Array Nat)) (h : MemOK tab mem) (v : BitVec 128) :
    getG mem (Sse2._mm_slli_epi16 (Sse2._mm_unpacklo_epi8 v Sse2.ind) 4) 0 = Sse2.get tab (Sse2._mm_slli_epi16 (Sse2._mm_unpacklo_epi8 v Sse2.ind) 4) 0 := by
  apply getG_eq tab mem h _ 0
  rw [Sse2.lind_lane_0, laneIdx_toNat _ _ (by decide)]
  omega
theorem getG_rind_0 (tab : Vector (BitVec 128) 4096) (mem : List (Array Nat)) (h : MemOK tab mem) (v : BitVec 128) :
    getG mem (Sse2._mm_slli_epi16 (Sse2._mm_unpackhi_epi8 v Sse2.ind) 4) 0 = Sse2.get tab (Sse2._mm_slli_epi16 (Sse2._mm_unpackhi_epi8 v Sse2.ind) 4) 0 := by
  apply getG_eq tab mem h _ 0
  rw [Sse2.rind_lane_0, laneIdx_toNat _ _ (by decide)]
  omega
theorem getG_lind_1 (tab : Vector (BitVec 128) 4096) (mem : List (Array Nat)) (h : MemOK tab mem) (v : BitVec 128) :
    getG mem (Sse2._mm_slli_epi16 (Sse2._mm_unpacklo_epi8 v Sse2.ind) 4) 1 = Sse2.get tab (Sse2._mm_slli_epi16 (Sse2._mm_unpacklo_epi8 v Sse2.ind) 4) 1 := by
  apply getG_eq tab mem h _ 1
  rw [Sse2.lind_lane_1, laneIdx_toNat _ _ (by decide)]
  omega
theorem getG_rind_1 (tab : Vector (BitVec 128) 4096) (mem : List (Array Nat)) (h : MemOK tab mem) (v : BitVec 128) :
    getG mem (Sse2._mm_slli_epi16 (Sse2._mm_unpackhi_epi8 v Sse2.ind) 4) 1 = Sse2.get tab (Sse2._mm_slli_epi16 (Sse2._mm_unpackhi_epi8 v Sse2.ind) 4) 1 := by
  apply getG_eq tab mem h _ 1
  rw [Sse2.rind_lane_1, laneIdx_toNat _ _ (by decide)]
  omega
theorem getG_lind_2 (tab : Vector (BitVec 128) 4096) (mem : List (Array Nat)) (h : MemOK tab mem) (v : BitVec 128) :
    getG mem (Sse2._mm_slli_epi16 (Sse2._mm_unpacklo_epi8 v Sse2.ind) 4) 2 = Sse2.get tab (Sse2._mm_slli_epi16 (Sse2._mm_unpacklo_epi8 v Sse2.ind) 4) 2 := by
  apply getG_eq tab mem h _ 2
  rw [Sse2.lind_lane_2, laneIdx_toNat _ _ (by decide)]
  omega
theorem getG_rind_2 (tab : Vector (BitVec 128) 4096) (mem : List (Array Nat)) (h : MemOK tab mem) (v : BitVec 128) :
    getG mem (Sse2._mm_slli_epi16 (Sse2._mm_unpackhi_epi8 v Sse2.ind) 4) 2 = Sse2.get tab (Sse2._mm_slli_epi16 (Sse2._mm_unpackhi_epi8 v Sse2.ind) 4) 2 := by
  apply getG_eq tab mem h _ 2
  rw [Sse2.rind_lane_2, laneIdx_toNat _ _ (by decide)]
  omega
theorem getG_lind_3 (tab : Vector (BitVec 128) 4096) (mem : List (Array Nat)) (h : MemOK tab mem) (v : BitVec 128) :
    getG mem (Sse2._mm_slli_epi16 (Sse2._mm_unpacklo_epi8 v Sse2.ind) 4) 3 = Sse2.get tab (Sse2._mm_slli_epi16 (Sse2._mm_unpacklo_epi8 v Sse2.ind) 4) 3 := by
  apply getG_eq tab mem h _ 3
  rw [Sse2.lind_lane_3, laneIdx_toNat _ _ (by decide)]
  omega
theorem getG_rind_3 (tab : Vector (BitVec 128) 4096) (mem : List (Array Nat)) (h : MemOK tab mem) (v : BitVec 128) :
    getG mem (Sse2._mm_slli_epi16 (Sse2._mm_unpackhi_epi8 v Sse2.ind) 4) 3 = Sse2.get tab (Sse2._mm_slli_epi16 (Sse2._mm_unpackhi_epi8 v Sse2.ind) 4) 3 := by
  apply getG_eq tab mem h _ 3
  rw [Sse2.rind_lane_3, laneIdx_toNat _ _ (by decide)]
  omega
theorem getG_lind_4 (tab : Vector (BitVec 128) 4096) (mem : List (Array Nat)) (h : MemOK tab mem) (v : BitVec 128) :
    getG mem (Sse2._mm_slli_epi16 (Sse2._mm_unpacklo_epi8 v Sse2.ind) 4) 4 = Sse2.get tab (Sse2._mm_slli_epi16 (Sse2._mm_unpacklo_epi8 v Sse2.ind) 4) 4 := by
  apply getG_eq tab mem h _ 4
  rw [Sse2.lind_lane_4, laneIdx_toNat _ _ (by decide)]
  omega
theorem getG_rind_4 (tab : Vector (BitVec 128) 4096) (mem : List (Array Nat)) (h : MemOK tab mem) (v : BitVec 128) :
    getG mem (Sse2._mm_slli_epi16 (Sse2._mm_unpackhi_epi8 v Sse2.ind) 4) 4 = Sse2.get tab (Sse2._mm_slli_epi16 (Sse2._mm_unpackhi_epi8 v Sse2.ind) 4) 4 := by
  apply getG_eq tab mem h _ 4
  rw [Sse2.rind_lane_4, laneIdx_toNat _ _ (by decide)]
  omega
theorem getG_lind_5 (tab : Vector (BitVec 128) 4096) (mem : List (Array Nat)) (h : MemOK tab mem) (v : BitVec 128) :
    getG mem (Sse2._mm_slli_epi16 (Sse2._mm_unpacklo_epi8 v Sse2.ind) 4) 5 = Sse2.get tab (Sse2._mm_slli_epi16 (Sse2._mm_unpacklo_epi8 v Sse2.ind) 4) 5 := by
  apply getG_eq tab mem h _ 5
  rw [Sse2.lind_lane_5, laneIdx_toNat _ _ (by decide)]
  omega
theorem getG_rind_5 (tab : Vector (BitVec 128) 4096) (mem : List (Array Nat)) (h : MemOK tab mem) (v : BitVec 128) :
    getG mem (Sse2._mm_slli_epi16 (Sse2._mm_unpackhi_epi8 v Sse2.ind) 4) 5 = Sse2.get tab (Sse2._mm_slli_epi16 (Sse2._mm_unpackhi_epi8 v Sse2.ind) 4) 5 := by
  apply getG_eq tab mem h _ 5
  rw [Sse2.rind_lane_5, laneIdx_toNat _ _ (by decide)]
  omega
theorem getG_lind_6 (tab : Vector (BitVec 128) 4096) (mem : List (Array Nat)) (h : MemOK tab mem) (v : BitVec 128) :
    getG mem (Sse2._mm_slli_epi16 (Sse2._mm_unpacklo_epi8 v Sse2.ind) 4) 6 = Sse2.get tab (Sse2._mm_slli_epi16 (Sse2._mm_unpacklo_epi8 v Sse2.ind) 4) 6 := by
  apply getG_eq tab mem h _ 6
  rw [Sse2.lind_lane_6, laneIdx_toNat _ _ (by decide)]
  omega
theorem getG_rind_6 (tab : Vector (BitVec 128) 4096) (mem : List (Array Nat)) (h : MemOK tab mem) (v : BitVec 128) :
    getG mem (Sse2._mm_slli_epi16 (Sse2._mm_unpackhi_epi8 v Sse2.ind) 4) 6 = Sse2.get tab (Sse2._mm_slli_epi16 (Sse2._mm_unpackhi_epi8 v Sse2.ind) 4) 6 := by
  apply getG_eq tab mem h _ 6
  rw [Sse2.rind_lane_6, laneIdx_toNat _ _ (by decide)]
  omega
theorem getG_lind_7 (tab : Vector (BitVec 128) 4096) (mem : List (Array Nat)) (h : MemOK tab mem) (v : BitVec 128) :
    getG mem (Sse2._mm_slli_epi16 (Sse2._mm_unpacklo_epi8 v Sse2.ind) 4) 7 = Sse2.get tab (Sse2._mm_slli_epi16 (Sse2._mm_unpacklo_epi8 v Sse2.ind) 4) 7 := by
  apply getG_eq tab mem h _ 7
  rw [Sse2.lind_lane_7, laneIdx_toNat _ _ (by decide)]
  omega
theorem getG_rind_7 (tab : Vector (BitVec 128) 4096) (mem : List (Array Nat)) (h : MemOK tab mem) (v : BitVec 128) :
    getG mem (Sse2._mm_slli_epi16 (Sse2._mm_unpackhi_epi8 v Sse2.ind) 4) 7 = Sse2.get tab (Sse2._mm_slli_epi16 (Sse2._mm_unpackhi_epi8 v Sse2.ind) 4) 7 := by
  apply getG_eq tab mem h _ 7
  rw [Sse2.rind_lane_7, laneIdx_toNat _ _ (by decide)]
  omega

theorem zip1_sse2 (a b : BitVec 128) : BC.Arm.vzip1q_u8 a b = Sse2._mm_unpacklo_epi8 a b := unpacklo_eq a b
theorem zip2_sse2 (a b : BitVec 128) : BC.Arm.vzip2q_u8 a b = Sse2._mm_unpackhi_epi8 a b := unpackhi_eq a b
theorem vshl4_sse2 (a : BitVec 128) : BC.Arm.vshlq_n_u16 a 4 = Sse2._mm_slli_epi16 a 4 := vshl4_eq a

theorem trG_eq (tab : Vector (BitVec 128) 4096) (mem : List (Array Nat)) (h : MemOK tab mem) (b : BitVec 128) :
    trG mem b = Neon.transform b tab := by
  rw [Neon.transform_eq_sse2]
  simp only [trG, Sse2.transform, indG_eq, BC.Arm.vreinterpretq_u16_u8, zip1_sse2, zip2_sse2, vshl4_sse2, BC.Arm.veorq_u8, Sse2._mm_xor_si128, getG_lind_0 tab mem h, getG_lind_1 tab mem h, getG_lind_2 tab mem h, getG_lind_3 tab mem h, getG_lind_4 tab mem h, getG_lind_5 tab mem h, getG_lind_6 tab mem h, getG_lind_7 tab mem h, getG_rind_0 tab mem h, getG_rind_1 tab mem h, getG_rind_2 tab mem h, getG_rind_3 tab mem h, getG_rind_4 tab mem h, getG_rind_5 tab mem h, getG_rind_6 tab mem h, getG_rind_7 tab mem h]

/-! ### `sub_bytes` -/

/-- `sub_bytes(block, sbox)` as generated; `r0 … r15` = the registers `vld1q_u8(&sbox[16·j])` -/
def subG (r0 r1 r2 r3 r4 r5 r6 r7 r8 r9 r10 r11 r12 r13 r14 r15 b : BitVec 128) : BitVec 128 :=
  let value_vector := BC.Arm.vdupq_n_u8 0x40#8
  let result1 := BC.Arm.vqtbl4q_u8 r0 r1 r2 r3 b
  let block_1 := BC.Arm.vsubq_u8 b value_vector
  let result2 := BC.Arm.vqtbl4q_u8 r4 r5 r6 r7 block_1
  let block_2 := BC.Arm.vsubq_u8 block_1 value_vector
  let result3 := BC.Arm.vqtbl4q_u8 r8 r9 r10 r11 block_2
  let block_3 := BC.Arm.vsubq_u8 block_2 value_vector
  let result4 := BC.Arm.vqtbl4q_u8 r12 r13 r14 r15 block_3
  BC.Arm.vorrq_u8 (BC.Arm.vorrq_u8 result1 result2) (BC.Arm.vorrq_u8 result3 result4)

theorem subG_eq (sbox : Vector (BitVec 8) 256) (b : BitVec 128) :
    subG (Neon.ld_sbox sbox 0) (Neon.ld_sbox sbox 16) (Neon.ld_sbox sbox 32) (Neon.ld_sbox sbox 48) (Neon.ld_sbox sbox 64) (Neon.ld_sbox sbox 80) (Neon.ld_sbox sbox 96) (Neon.ld_sbox sbox 112) (Neon.ld_sbox sbox 128) (Neon.ld_sbox sbox 144) (Neon.ld_sbox sbox 160) (Neon.ld_sbox sbox 176) (Neon.ld_sbox sbox 192) (Neon.ld_sbox sbox 208) (Neon.ld_sbox sbox 224) (Neon.ld_sbox sbox 240) b = Neon.sub_bytes b sbox := by
  simp only [subG, Neon.sub_bytes, Neon.sbox_part, vqtbl4q_eq, vsubq_eq, vorrq_eq, vdupq_eq, Nat.reduceAdd, Nat.zero_add]

/-- `vld1q_u8(&sbox[off])` through a regenerated copy `s` of the S-box -/
theorem ld_sbox_tbl (s : Array Nat) (sbox : Vector (BitVec 8) 256) (hs : ∀ n : Fin 256, BC.Gen.tblAt s n.val 8 = lut sbox (BitVec.ofNat 8 n.val))
    (off : Nat) (h : off + 15 < 256) :
    Neon.ld_sbox sbox off = BC.Gen.tblAt s (off + 15) 8 ++ BC.Gen.tblAt s (off + 14) 8 ++ BC.Gen.tblAt s (off + 13) 8 ++ BC.Gen.tblAt s (off + 12) 8 ++ BC.Gen.tblAt s (off + 11) 8 ++ BC.Gen.tblAt s (off + 10) 8 ++ BC.Gen.tblAt s (off + 9) 8 ++ BC.Gen.tblAt s (off + 8) 8 ++ BC.Gen.tblAt s (off + 7) 8 ++ BC.Gen.tblAt s (off + 6) 8 ++ BC.Gen.tblAt s (off + 5) 8 ++ BC.Gen.tblAt s (off + 4) 8 ++ BC.Gen.tblAt s (off + 3) 8 ++ BC.Gen.tblAt s (off + 2) 8 ++ BC.Gen.tblAt s (off + 1) 8 ++ BC.Gen.tblAt s (off + 0) 8 := by
  rw [Neon.ld_sbox, ofLeBytes_cat]
  rw [hs ⟨off + 15, by omega⟩, hs ⟨off + 14, by omega⟩, hs ⟨off + 13, by omega⟩, hs ⟨off + 12, by omega⟩, hs ⟨off + 11, by omega⟩, hs ⟨off + 10, by omega⟩, hs ⟨off + 9, by omega⟩, hs ⟨off + 8, by omega⟩, hs ⟨off + 7, by omega⟩, hs ⟨off + 6, by omega⟩, hs ⟨off + 5, by omega⟩, hs ⟨off + 4, by omega⟩, hs ⟨off + 3, by omega⟩, hs ⟨off + 2, by omega⟩, hs ⟨off + 1, by omega⟩, hs ⟨off + 0, by omega⟩]

theorem ldP_0 : BC.Arm.vld1q_u8 0xfceedd11cf6e3116fbc4fada23c5044d#128 = Neon.ld_sbox P 0 := by
  rw [ld_sbox_tbl _ P BC.GenCipher.Kuznyechik.p_fin 0 (by decide)]; decide +kernel
theorem ldP_1 : BC.Arm.vld1q_u8 0xe977f0db932e99ba1736f1bb14cd5fc1#128 = Neon.ld_sbox P 16 := by
  rw [ld_sbox_tbl _ P BC.GenCipher.Kuznyechik.p_fin 16 (by decide)]; decide +kernel
theorem ldP_2 : BC.Arm.vld1q_u8 0xf918655ae25cef21811c3c428b018e4f#128 = Neon.ld_sbox P 32 := by
  rw [ld_sbox_tbl _ P BC.GenCipher.Kuznyechik.p_fin 32 (by decide)]; decide +kernel
theorem ldP_3 : BC.Arm.vld1q_u8 0x58402aee36a8fa0060bed987fd4d31f#128 = Neon.ld_sbox P 48 := by
  rw [ld_sbox_tbl _ P BC.GenCipher.Kuznyechik.p_fin 48 (by decide)]; decide +kernel
theorem ldP_4 : BC.Arm.vld1q_u8 0xeb342c51eac848abf22a68a2fd3acecc#128 = Neon.ld_sbox P 64 := by
  rw [ld_sbox_tbl _ P BC.GenCipher.Kuznyechik.p_fin 64 (by decide)]; decide +kernel
theorem ldP_5 : BC.Arm.vld1q_u8 0xb5700e56080c7612bf7213479cb75d87#128 = Neon.ld_sbox P 80 := by
  rw [ld_sbox_tbl _ P BC.GenCipher.Kuznyechik.p_fin 80 (by decide)]; decide +kernel
theorem ldP_6 : BC.Arm.vld1q_u8 0x15a19629107b9ac7f391786f9d9eb2b1#128 = Neon.ld_sbox P 96 := by
  rw [ld_sbox_tbl _ P BC.GenCipher.Kuznyechik.p_fin 96 (by decide)]; decide +kernel
theorem ldP_7 : BC.Arm.vld1q_u8 0x3275193dff358a7e6d54c680c3bd0d57#128 = Neon.ld_sbox P 112 := by
  rw [ld_sbox_tbl _ P BC.GenCipher.Kuznyechik.p_fin 112 (by decide)]; decide +kernel
theorem ldP_8 : BC.Arm.vld1q_u8 0xdff524a93ea843c9d779d6f67c22b903#128 = Neon.ld_sbox P 128 := by
  rw [ld_sbox_tbl _ P BC.GenCipher.Kuznyechik.p_fin 128 (by decide)]; decide +kernel
theorem ldP_9 : BC.Arm.vld1q_u8 0xe00fecde7a94b0bcdce828504e330a4a#128 = Neon.ld_sbox P 144 := by
  rw [ld_sbox_tbl _ P BC.GenCipher.Kuznyechik.p_fin 144 (by decide)]; decide +kernel
theorem ldP_10 : BC.Arm.vld1q_u8 0xa79760731e0062441ab83882649f2641#128 = Neon.ld_sbox P 160 := by
  rw [ld_sbox_tbl _ P BC.GenCipher.Kuznyechik.p_fin 160 (by decide)]; decide +kernel
theorem ldP_11 : BC.Arm.vld1q_u8 0xad454692275e552f8ca3a57d69d5953b#128 = Neon.ld_sbox P 176 := by
  rw [ld_sbox_tbl _ P BC.GenCipher.Kuznyechik.p_fin 176 (by decide)]; decide +kernel
theorem ldP_12 : BC.Arm.vld1q_u8 0x758b34086ac1df730376be488d9e789#128 = Neon.ld_sbox P 192 := by
  rw [ld_sbox_tbl _ P BC.GenCipher.Kuznyechik.p_fin 192 (by decide)]; decide +kernel
theorem ldP_13 : BC.Arm.vld1q_u8 0xe11b83494c3ff8fe8d53aa90cad88561#128 = Neon.ld_sbox P 208 := by
  rw [ld_sbox_tbl _ P BC.GenCipher.Kuznyechik.p_fin 208 (by decide)]; decide +kernel
theorem ldP_14 : BC.Arm.vld1q_u8 0x207167a42d2b095bcb9b25d0bee56c52#128 = Neon.ld_sbox P 224 := by
  rw [ld_sbox_tbl _ P BC.GenCipher.Kuznyechik.p_fin 224 (by decide)]; decide +kernel
theorem ldP_15 : BC.Arm.vld1q_u8 0x59a674d2e6f4b4c0d166afc2394b63b6#128 = Neon.ld_sbox P 240 := by
  rw [ld_sbox_tbl _ P BC.GenCipher.Kuznyechik.p_fin 240 (by decide)]; decide +kernel
theorem ldPI_0 : BC.Arm.vld1q_u8 0xa52d328f0e3038c054e69e39557e5291#128 = Neon.ld_sbox P_INV 0 := by
  rw [ld_sbox_tbl _ P_INV BC.GenCipher.Kuznyechik.pinvS_e 0 (by decide)]; decide +kernel
theorem ldPI_1 : BC.Arm.vld1q_u8 0x6403575a1c6007182172a8d129c6a43f#128 = Neon.ld_sbox P_INV 16 := by
  rw [ld_sbox_tbl _ P_INV BC.GenCipher.Kuznyechik.pinvS_e 16 (by decide)]; decide +kernel
theorem ldPI_2 : BC.Arm.vld1q_u8 0xe0278d0c82eaaeb49a6349e542e415b7#128 = Neon.ld_sbox P_INV 32 := by
  rw [ld_sbox_tbl _ P_INV BC.GenCipher.Kuznyechik.pinvS_e 32 (by decide)]; decide +kernel
theorem ldPI_3 : BC.Arm.vld1q_u8 0xc806709d417519c9aafc4dbf2a7384d5#128 = Neon.ld_sbox P_INV 48 := by
  rw [ld_sbox_tbl _ P_INV BC.GenCipher.Kuznyechik.pinvS_e 48 (by decide)]; decide +kernel
theorem ldPI_4 : BC.Arm.vld1q_u8 0xc3af2b86a7b1b25b46d39ffdd40f9c2f#128 = Neon.ld_sbox P_INV 64 := by
  rw [ld_sbox_tbl _ P_INV BC.GenCipher.Kuznyechik.pinvS_e 64 (by decide)]; decide +kernel
theorem ldPI_5 : BC.Arm.vld1q_u8 0x9b43efd979b6537fc1f023e7255eb51e#128 = Neon.ld_sbox P_INV 80 := by
  rw [ld_sbox_tbl _ P_INV BC.GenCipher.Kuznyechik.pinvS_e 80 (by decide)]; decide +kernel
theorem ldPI_6 : BC.Arm.vld1q_u8 0xa2dfa6feac22f9e24abc35caee78056b#128 = Neon.ld_sbox P_INV 96 := by
  rw [ld_sbox_tbl _ P_INV BC.GenCipher.Kuznyechik.pinvS_e 96 (by decide)]; decide +kernel
theorem ldPI_7 : BC.Arm.vld1q_u8 0x51e159a3f27156116a8994658cbb773c#128 = Neon.ld_sbox P_INV 112 := by
  rw [ld_sbox_tbl _ P_INV BC.GenCipher.Kuznyechik.pinvS_e 112 (by decide)]; decide +kernel
theorem ldPI_8 : BC.Arm.vld1q_u8 0x7b28abd231dec45fcccf762cb8d82e36#128 = Neon.ld_sbox P_INV 128 := by
  rw [ld_sbox_tbl _ P_INV BC.GenCipher.Kuznyechik.pinvS_e 128 (by decide)]; decide +kernel
theorem ldPI_9 : BC.Arm.vld1q_u8 0xdb69b31495be62a13b1666e95c6c6dad#128 = Neon.ld_sbox P_INV 144 := by
  rw [ld_sbox_tbl _ P_INV BC.GenCipher.Kuznyechik.pinvS_e 144 (by decide)]; decide +kernel
theorem ldPI_10 : BC.Arm.vld1q_u8 0x37614bb9e3baf1a08583da47c5b033fa#128 = Neon.ld_sbox P_INV 160 := by
  rw [ld_sbox_tbl _ P_INV BC.GenCipher.Kuznyechik.pinvS_e 160 (by decide)]; decide +kernel
theorem ldPI_11 : BC.Arm.vld1q_u8 0x966f6ec2f650ff5da98e171b977dec58#128 = Neon.ld_sbox P_INV 176 := by
  rw [ld_sbox_tbl _ P_INV BC.GenCipher.Kuznyechik.pinvS_e 176 (by decide)]; decide +kernel
theorem ldPI_12 : BC.Arm.vld1q_u8 0xf71ffb7c090d7a674587dce84f1d4e04#128 = Neon.ld_sbox P_INV 192 := by
  rw [ld_sbox_tbl _ P_INV BC.GenCipher.Kuznyechik.pinvS_e 192 (by decide)]; decide +kernel
theorem ldPI_13 : BC.Arm.vld1q_u8 0xebf8f33e3dbd8a88ddcd0b1398029380#128 = Neon.ld_sbox P_INV 208 := by
  rw [ld_sbox_tbl _ P_INV BC.GenCipher.Kuznyechik.pinvS_e 208 (by decide)]; decide +kernel
theorem ldPI_14 : BC.Arm.vld1q_u8 0x90d02434cbedf4ce99104440923a0126#128 = Neon.ld_sbox P_INV 224 := by
  rw [ld_sbox_tbl _ P_INV BC.GenCipher.Kuznyechik.pinvS_e 224 (by decide)]; decide +kernel
theorem ldPI_15 : BC.Arm.vld1q_u8 0x121a4868f5818bc7d6200a08004cd774#128 = Neon.ld_sbox P_INV 240 := by
  rw [ld_sbox_tbl _ P_INV BC.GenCipher.Kuznyechik.pinvS_e 240 (by decide)]; decide +kernel

theorem subG_P (b : BitVec 128) : subG (BC.Arm.vld1q_u8 0xfceedd11cf6e3116fbc4fada23c5044d#128) (BC.Arm.vld1q_u8 0xe977f0db932e99ba1736f1bb14cd5fc1#128) (BC.Arm.vld1q_u8 0xf918655ae25cef21811c3c428b018e4f#128) (BC.Arm.vld1q_u8 0x58402aee36a8fa0060bed987fd4d31f#128) (BC.Arm.vld1q_u8 0xeb342c51eac848abf22a68a2fd3acecc#128) (BC.Arm.vld1q_u8 0xb5700e56080c7612bf7213479cb75d87#128) (BC.Arm.vld1q_u8 0x15a19629107b9ac7f391786f9d9eb2b1#128) (BC.Arm.vld1q_u8 0x3275193dff358a7e6d54c680c3bd0d57#128) (BC.Arm.vld1q_u8 0xdff524a93ea843c9d779d6f67c22b903#128) (BC.Arm.vld1q_u8 0xe00fecde7a94b0bcdce828504e330a4a#128) (BC.Arm.vld1q_u8 0xa79760731e0062441ab83882649f2641#128) (BC.Arm.vld1q_u8 0xad454692275e552f8ca3a57d69d5953b#128) (BC.Arm.vld1q_u8 0x758b34086ac1df730376be488d9e789#128) (BC.Arm.vld1q_u8 0xe11b83494c3ff8fe8d53aa90cad88561#128) (BC.Arm.vld1q_u8 0x207167a42d2b095bcb9b25d0bee56c52#128) (BC.Arm.vld1q_u8 0x59a674d2e6f4b4c0d166afc2394b63b6#128) b = Neon.sub_bytes b P := by
  rw [ldP_0, ldP_1, ldP_2, ldP_3, ldP_4, ldP_5, ldP_6, ldP_7, ldP_8, ldP_9, ldP_10, ldP_11, ldP_12, ldP_13, ldP_14, ldP_15]; exact subG_eq P b
theorem subG_P_INV (b : BitVec 128) : subG (BC.Arm.vld1q_u8 0xa52d328f0e3038c054e69e39557e5291#128) (BC.Arm.vld1q_u8 0x6403575a1c6007182172a8d129c6a43f#128) (BC.Arm.vld1q_u8 0xe0278d0c82eaaeb49a6349e542e415b7#128) (BC.Arm.vld1q_u8 0xc806709d417519c9aafc4dbf2a7384d5#128) (BC.Arm.vld1q_u8 0xc3af2b86a7b1b25b46d39ffdd40f9c2f#128) (BC.Arm.vld1q_u8 0x9b43efd979b6537fc1f023e7255eb51e#128) (BC.Arm.vld1q_u8 0xa2dfa6feac22f9e24abc35caee78056b#128) (BC.Arm.vld1q_u8 0x51e159a3f27156116a8994658cbb773c#128) (BC.Arm.vld1q_u8 0x7b28abd231dec45fcccf762cb8d82e36#128) (BC.Arm.vld1q_u8 0xdb69b31495be62a13b1666e95c6c6dad#128) (BC.Arm.vld1q_u8 0x37614bb9e3baf1a08583da47c5b033fa#128) (BC.Arm.vld1q_u8 0x966f6ec2f650ff5da98e171b977dec58#128) (BC.Arm.vld1q_u8 0xf71ffb7c090d7a674587dce84f1d4e04#128) (BC.Arm.vld1q_u8 0xebf8f33e3dbd8a88ddcd0b1398029380#128) (BC.Arm.vld1q_u8 0x90d02434cbedf4ce99104440923a0126#128) (BC.Arm.vld1q_u8 0x121a4868f5818bc7d6200a08004cd774#128) b = Neon.sub_bytes b P_INV := by
  rw [ldPI_0, ldPI_1, ldPI_2, ldPI_3, ldPI_4, ldPI_5, ldPI_6, ldPI_7, ldPI_8, ldPI_9, ldPI_10, ldPI_11, ldPI_12, ldPI_13, ldPI_14, ldPI_15]; exact subG_eq P_INV b

/-! ### load / store of a block -/

def loadG (block : BitVec 128) : BitVec 128 := BC.Arm.vld1q_u8 ((block.extractLsb' 120 8) ++ (block.extractLsb' 112 8) ++ (block.extractLsb' 104 8) ++ (block.extractLsb' 96 8) ++ (block.extractLsb' 88 8) ++ (block.extractLsb' 80 8) ++ (block.extractLsb' 72 8) ++ (block.extractLsb' 64 8) ++ (block.extractLsb' 56 8) ++ (block.extractLsb' 48 8) ++ (block.extractLsb' 40 8) ++ (block.extractLsb' 32 8) ++ (block.extractLsb' 24 8) ++ (block.extractLsb' 16 8) ++ (block.extractLsb' 8 8) ++ (block.extractLsb' 0 8))
def storeG (b : BitVec 128) : BitVec 128 :=
  let mem := BC.Arm.vst1q_u8 b
  (mem.extractLsb' 120 8) ++ (mem.extractLsb' 112 8) ++ (mem.extractLsb' 104 8) ++ (mem.extractLsb' 96 8) ++ (mem.extractLsb' 88 8) ++ (mem.extractLsb' 80 8) ++ (mem.extractLsb' 72 8) ++ (mem.extractLsb' 64 8) ++ (mem.extractLsb' 56 8) ++ (mem.extractLsb' 48 8) ++ (mem.extractLsb' 40 8) ++ (mem.extractLsb' 32 8) ++ (mem.extractLsb' 24 8) ++ (mem.extractLsb' 16 8) ++ (mem.extractLsb' 8 8) ++ (mem.extractLsb' 0 8)
theorem loadG_eq (block : BitVec 128) : loadG block = Neon.vld1q_u8 block := by
  simp only [loadG, bytes_id, vld1q_eq]
theorem storeG_eq (b : BitVec 128) : storeG b = Neon.vst1q_u8 b := by
  simp only [storeG, bytes_id, vst1q_eq]

/-! ### `encrypt_block`, `decrypt_block` -/

def encG (mem : List (Array Nat)) (k0 k1 k2 k3 k4 k5 k6 k7 k8 k9 b : BitVec 128) : BitVec 128 :=
  storeG (BC.Arm.veorq_u8 (trG mem (BC.Arm.veorq_u8 (trG mem (BC.Arm.veorq_u8 (trG mem (BC.Arm.veorq_u8 (trG mem (BC.Arm.veorq_u8 (trG mem (BC.Arm.veorq_u8 (trG mem (BC.Arm.veorq_u8 (trG mem (BC.Arm.veorq_u8 (trG mem (BC.Arm.veorq_u8 (trG mem (BC.Arm.veorq_u8 (loadG b) k0)) k1)) k2)) k3)) k4)) k5)) k6)) k7)) k8)) k9)

def decG (mem : List (Array Nat)) (k0 k1 k2 k3 k4 k5 k6 k7 k8 k9 b : BitVec 128) : BitVec 128 :=
  storeG (BC.Arm.veorq_u8 (subG (BC.Arm.vld1q_u8 0xa52d328f0e3038c054e69e39557e5291#128) (BC.Arm.vld1q_u8 0x6403575a1c6007182172a8d129c6a43f#128) (BC.Arm.vld1q_u8 0xe0278d0c82eaaeb49a6349e542e415b7#128) (BC.Arm.vld1q_u8 0xc806709d417519c9aafc4dbf2a7384d5#128) (BC.Arm.vld1q_u8 0xc3af2b86a7b1b25b46d39ffdd40f9c2f#128) (BC.Arm.vld1q_u8 0x9b43efd979b6537fc1f023e7255eb51e#128) (BC.Arm.vld1q_u8 0xa2dfa6feac22f9e24abc35caee78056b#128) (BC.Arm.vld1q_u8 0x51e159a3f27156116a8994658cbb773c#128) (BC.Arm.vld1q_u8 0x7b28abd231dec45fcccf762cb8d82e36#128) (BC.Arm.vld1q_u8 0xdb69b31495be62a13b1666e95c6c6dad#128) (BC.Arm.vld1q_u8 0x37614bb9e3baf1a08583da47c5b033fa#128) (BC.Arm.vld1q_u8 0x966f6ec2f650ff5da98e171b977dec58#128) (BC.Arm.vld1q_u8 0xf71ffb7c090d7a674587dce84f1d4e04#128) (BC.Arm.vld1q_u8 0xebf8f33e3dbd8a88ddcd0b1398029380#128) (BC.Arm.vld1q_u8 0x90d02434cbedf4ce99104440923a0126#128) (BC.Arm.vld1q_u8 0x121a4868f5818bc7d6200a08004cd774#128) (BC.Arm.veorq_u8 (trG mem (BC.Arm.veorq_u8 (trG mem (BC.Arm.veorq_u8 (trG mem (BC.Arm.veorq_u8 (trG mem (BC.Arm.veorq_u8 (trG mem (BC.Arm.veorq_u8 (trG mem (BC.Arm.veorq_u8 (trG mem (BC.Arm.veorq_u8 (trG mem (trG mem (subG (BC.Arm.vld1q_u8 0xfceedd11cf6e3116fbc4fada23c5044d#128) (BC.Arm.vld1q_u8 0xe977f0db932e99ba1736f1bb14cd5fc1#128) (BC.Arm.vld1q_u8 0xf918655ae25cef21811c3c428b018e4f#128) (BC.Arm.vld1q_u8 0x58402aee36a8fa0060bed987fd4d31f#128) (BC.Arm.vld1q_u8 0xeb342c51eac848abf22a68a2fd3acecc#128) (BC.Arm.vld1q_u8 0xb5700e56080c7612bf7213479cb75d87#128) (BC.Arm.vld1q_u8 0x15a19629107b9ac7f391786f9d9eb2b1#128) (BC.Arm.vld1q_u8 0x3275193dff358a7e6d54c680c3bd0d57#128) (BC.Arm.vld1q_u8 0xdff524a93ea843c9d779d6f67c22b903#128) (BC.Arm.vld1q_u8 0xe00fecde7a94b0bcdce828504e330a4a#128) (BC.Arm.vld1q_u8 0xa79760731e0062441ab83882649f2641#128) (BC.Arm.vld1q_u8 0xad454692275e552f8ca3a57d69d5953b#128) (BC.Arm.vld1q_u8 0x758b34086ac1df730376be488d9e789#128) (BC.Arm.vld1q_u8 0xe11b83494c3ff8fe8d53aa90cad88561#128) (BC.Arm.vld1q_u8 0x207167a42d2b095bcb9b25d0bee56c52#128) (BC.Arm.vld1q_u8 0x59a674d2e6f4b4c0d166afc2394b63b6#128) (BC.Arm.veorq_u8 (loadG b) k0)))) k1)) k2)) k3)) k4)) k5)) k6)) k7)) k8)) k9)

theorem encG_eq (mem : List (Array Nat)) (h : MemOK ENC_TABLE.get mem) (k0 k1 k2 k3 k4 k5 k6 k7 k8 k9 b : BitVec 128) :
    encG mem k0 k1 k2 k3 k4 k5 k6 k7 k8 k9 b = Neon.encrypt_block ⟨k0, k1, k2, k3, k4, k5, k6, k7, k8, k9⟩ b := by
  simp only [encG, Neon.encrypt_block, List.foldl, loadG_eq, storeG_eq, veorq_eq, trG_eq _ mem h]

theorem decG_eq (mem : List (Array Nat)) (h : MemOK DEC_TABLE.get mem) (k0 k1 k2 k3 k4 k5 k6 k7 k8 k9 b : BitVec 128) :
    decG mem k0 k1 k2 k3 k4 k5 k6 k7 k8 k9 b = Neon.decrypt_block ⟨k0, k1, k2, k3, k4, k5, k6, k7, k8, k9⟩ b := by
  simp only [decG, Neon.decrypt_block, List.foldl, loadG_eq, storeG_eq, veorq_eq, trG_eq _ mem h, subG_P, subG_P_INV]

theorem encrypt_block_tbl_0 : kuznyechik_neon_encrypt_block_tbl0 = kuznyechik_soft_encrypt_block_tbl0 := rfl
theorem encrypt_block_tbl_1 : kuznyechik_neon_encrypt_block_tbl1 = kuznyechik_soft_encrypt_block_tbl1 := rfl
theorem encrypt_block_tbl_2 : kuznyechik_neon_encrypt_block_tbl2 = kuznyechik_soft_encrypt_block_tbl2 := rfl
theorem encrypt_block_tbl_3 : kuznyechik_neon_encrypt_block_tbl3 = kuznyechik_soft_encrypt_block_tbl3 := rfl
theorem encrypt_block_tbl_4 : kuznyechik_neon_encrypt_block_tbl4 = kuznyechik_soft_encrypt_block_tbl4 := rfl
theorem encrypt_block_tbl_5 : kuznyechik_neon_encrypt_block_tbl5 = kuznyechik_soft_encrypt_block_tbl5 := rfl
theorem encrypt_block_tbl_6 : kuznyechik_neon_encrypt_block_tbl6 = kuznyechik_soft_encrypt_block_tbl6 := rfl
theorem encrypt_block_tbl_7 : kuznyechik_neon_encrypt_block_tbl7 = kuznyechik_soft_encrypt_block_tbl7 := rfl
theorem encrypt_block_tbl_8 : kuznyechik_neon_encrypt_block_tbl8 = kuznyechik_soft_encrypt_block_tbl8 := rfl
theorem encrypt_block_tbl_9 : kuznyechik_neon_encrypt_block_tbl9 = kuznyechik_soft_encrypt_block_tbl9 := rfl
theorem encrypt_block_tbl_10 : kuznyechik_neon_encrypt_block_tbl10 = kuznyechik_soft_encrypt_block_tbl10 := rfl
theorem encrypt_block_tbl_11 : kuznyechik_neon_encrypt_block_tbl11 = kuznyechik_soft_encrypt_block_tbl11 := rfl
theorem encrypt_block_tbl_12 : kuznyechik_neon_encrypt_block_tbl12 = kuznyechik_soft_encrypt_block_tbl12 := rfl
theorem encrypt_block_tbl_13 : kuznyechik_neon_encrypt_block_tbl13 = kuznyechik_soft_encrypt_block_tbl13 := rfl
theorem encrypt_block_tbl_14 : kuznyechik_neon_encrypt_block_tbl14 = kuznyechik_soft_encrypt_block_tbl14 := rfl
theorem encrypt_block_tbl_15 : kuznyechik_neon_encrypt_block_tbl15 = kuznyechik_soft_encrypt_block_tbl15 := rfl
theorem encrypt_block_mem : MemOK ENC_TABLE.get kuznyechik_neon_encrypt_block_mem0 := by
  rw [kuznyechik_neon_encrypt_block_mem0, encrypt_block_tbl_0, encrypt_block_tbl_1, encrypt_block_tbl_2, encrypt_block_tbl_3, encrypt_block_tbl_4, encrypt_block_tbl_5, encrypt_block_tbl_6, encrypt_block_tbl_7, encrypt_block_tbl_8, encrypt_block_tbl_9, encrypt_block_tbl_10, encrypt_block_tbl_11, encrypt_block_tbl_12, encrypt_block_tbl_13, encrypt_block_tbl_14, encrypt_block_tbl_15]
  exact memOK_of_rows _ _ _ _ _ _ _ _ _ _ _ _ _ _ _ _ _ encS

theorem decrypt_block_tbl_0 : kuznyechik_neon_decrypt_block_tbl0 = kuznyechik_soft_decrypt_block_tbl0 := rfl
theorem decrypt_block_tbl_1 : kuznyechik_neon_decrypt_block_tbl1 = kuznyechik_soft_decrypt_block_tbl1 := rfl
theorem decrypt_block_tbl_2 : kuznyechik_neon_decrypt_block_tbl2 = kuznyechik_soft_decrypt_block_tbl2 := rfl
theorem decrypt_block_tbl_3 : kuznyechik_neon_decrypt_block_tbl3 = kuznyechik_soft_decrypt_block_tbl3 := rfl
theorem decrypt_block_tbl_4 : kuznyechik_neon_decrypt_block_tbl4 = kuznyechik_soft_decrypt_block_tbl4 := rfl
theorem decrypt_block_tbl_5 : kuznyechik_neon_decrypt_block_tbl5 = kuznyechik_soft_decrypt_block_tbl5 := rfl
theorem decrypt_block_tbl_6 : kuznyechik_neon_decrypt_block_tbl6 = kuznyechik_soft_decrypt_block_tbl6 := rfl
theorem decrypt_block_tbl_7 : kuznyechik_neon_decrypt_block_tbl7 = kuznyechik_soft_decrypt_block_tbl7 := rfl
theorem decrypt_block_tbl_8 : kuznyechik_neon_decrypt_block_tbl8 = kuznyechik_soft_decrypt_block_tbl8 := rfl
theorem decrypt_block_tbl_9 : kuznyechik_neon_decrypt_block_tbl9 = kuznyechik_soft_decrypt_block_tbl9 := rfl
theorem decrypt_block_tbl_10 : kuznyechik_neon_decrypt_block_tbl10 = kuznyechik_soft_decrypt_block_tbl10 := rfl
theorem decrypt_block_tbl_11 : kuznyechik_neon_decrypt_block_tbl11 = kuznyechik_soft_decrypt_block_tbl11 := rfl
theorem decrypt_block_tbl_12 : kuznyechik_neon_decrypt_block_tbl12 = kuznyechik_soft_decrypt_block_tbl12 := rfl
theorem decrypt_block_tbl_13 : kuznyechik_neon_decrypt_block_tbl13 = kuznyechik_soft_decrypt_block_tbl13 := rfl
theorem decrypt_block_tbl_14 : kuznyechik_neon_decrypt_block_tbl14 = kuznyechik_soft_decrypt_block_tbl14 := rfl
theorem decrypt_block_tbl_15 : kuznyechik_neon_decrypt_block_tbl15 = kuznyechik_soft_decrypt_block_tbl15 := rfl
theorem decrypt_block_mem : MemOK DEC_TABLE.get kuznyechik_neon_decrypt_block_mem0 := by
  rw [kuznyechik_neon_decrypt_block_mem0, decrypt_block_tbl_0, decrypt_block_tbl_1, decrypt_block_tbl_2, decrypt_block_tbl_3, decrypt_block_tbl_4, decrypt_block_tbl_5, decrypt_block_tbl_6, decrypt_block_tbl_7, decrypt_block_tbl_8, decrypt_block_tbl_9, decrypt_block_tbl_10, decrypt_block_tbl_11, decrypt_block_tbl_12, decrypt_block_tbl_13, decrypt_block_tbl_14, decrypt_block_tbl_15]
  exact memOK_of_rows _ _ _ _ _ _ _ _ _ _ _ _ _ _ _ _ _ decS

theorem neon_encrypt_block_eq_G (k0 k1 k2 k3 k4 k5 k6 k7 k8 k9 b : BitVec 128) :
    kuznyechik_neon_encrypt_block k0 k1 k2 k3 k4 k5 k6 k7 k8 k9 b = encG kuznyechik_neon_encrypt_block_mem0 k0 k1 k2 k3 k4 k5 k6 k7 k8 k9 b := by
  kuz_kernel_rfl

theorem neon_decrypt_block_eq_G (k0 k1 k2 k3 k4 k5 k6 k7 k8 k9 b : BitVec 128) :
    kuznyechik_neon_decrypt_block k0 k1 k2 k3 k4 k5 k6 k7 k8 k9 b = decG kuznyechik_neon_decrypt_block_mem0 k0 k1 k2 k3 k4 k5 k6 k7 k8 k9 b := by
  kuz_kernel_rfl

/-- the regenerated `EncBackend::encrypt_block` (neon) is the model's `Neon.encrypt_block`, all keys, all blocks -/
theorem kuznyechik_neon_encrypt_block_eq (k0 k1 k2 k3 k4 k5 k6 k7 k8 k9 b : BitVec 128) :
    kuznyechik_neon_encrypt_block k0 k1 k2 k3 k4 k5 k6 k7 k8 k9 b = Neon.encrypt_block ⟨k0, k1, k2, k3, k4, k5, k6, k7, k8, k9⟩ b := by
  rw [neon_encrypt_block_eq_G, encG_eq _ encrypt_block_mem]

/-- the regenerated `DecBackend::decrypt_block` (neon) is the model's `Neon.decrypt_block`, all keys, all blocks -/
theorem kuznyechik_neon_decrypt_block_eq (k0 k1 k2 k3 k4 k5 k6 k7 k8 k9 b : BitVec 128) :
    kuznyechik_neon_decrypt_block k0 k1 k2 k3 k4 k5 k6 k7 k8 k9 b = Neon.decrypt_block ⟨k0, k1, k2, k3, k4, k5, k6, k7, k8, k9⟩ b := by
  rw [neon_decrypt_block_eq_G, decG_eq _ decrypt_block_mem]

/-! ### `encrypt_par_blocks`, `decrypt_par_blocks` (ParBlocksSize = 8) -/

theorem encrypt_par_blocks_tbl_0 : kuznyechik_neon_encrypt_par_blocks_tbl0 = kuznyechik_soft_encrypt_block_tbl0 := rfl
theorem encrypt_par_blocks_tbl_1 : kuznyechik_neon_encrypt_par_blocks_tbl1 = kuznyechik_soft_encrypt_block_tbl1 := rfl
theorem encrypt_par_blocks_tbl_2 : kuznyechik_neon_encrypt_par_blocks_tbl2 = kuznyechik_soft_encrypt_block_tbl2 := rfl
theorem encrypt_par_blocks_tbl_3 : kuznyechik_neon_encrypt_par_blocks_tbl3 = kuznyechik_soft_encrypt_block_tbl3 := rfl
theorem encrypt_par_blocks_tbl_4 : kuznyechik_neon_encrypt_par_blocks_tbl4 = kuznyechik_soft_encrypt_block_tbl4 := rfl
theorem encrypt_par_blocks_tbl_5 : kuznyechik_neon_encrypt_par_blocks_tbl5 = kuznyechik_soft_encrypt_block_tbl5 := rfl
theorem encrypt_par_blocks_tbl_6 : kuznyechik_neon_encrypt_par_blocks_tbl6 = kuznyechik_soft_encrypt_block_tbl6 := rfl
theorem encrypt_par_blocks_tbl_7 : kuznyechik_neon_encrypt_par_blocks_tbl7 = kuznyechik_soft_encrypt_block_tbl7 := rfl
theorem encrypt_par_blocks_tbl_8 : kuznyechik_neon_encrypt_par_blocks_tbl8 = kuznyechik_soft_encrypt_block_tbl8 := rfl
theorem encrypt_par_blocks_tbl_9 : kuznyechik_neon_encrypt_par_blocks_tbl9 = kuznyechik_soft_encrypt_block_tbl9 := rfl
theorem encrypt_par_blocks_tbl_10 : kuznyechik_neon_encrypt_par_blocks_tbl10 = kuznyechik_soft_encrypt_block_tbl10 := rfl
theorem encrypt_par_blocks_tbl_11 : kuznyechik_neon_encrypt_par_blocks_tbl11 = kuznyechik_soft_encrypt_block_tbl11 := rfl
theorem encrypt_par_blocks_tbl_12 : kuznyechik_neon_encrypt_par_blocks_tbl12 = kuznyechik_soft_encrypt_block_tbl12 := rfl
theorem encrypt_par_blocks_tbl_13 : kuznyechik_neon_encrypt_par_blocks_tbl13 = kuznyechik_soft_encrypt_block_tbl13 := rfl
theorem encrypt_par_blocks_tbl_14 : kuznyechik_neon_encrypt_par_blocks_tbl14 = kuznyechik_soft_encrypt_block_tbl14 := rfl
theorem encrypt_par_blocks_tbl_15 : kuznyechik_neon_encrypt_par_blocks_tbl15 = kuznyechik_soft_encrypt_block_tbl15 := rfl
theorem encrypt_par_blocks_mem : MemOK ENC_TABLE.get kuznyechik_neon_encrypt_par_blocks_mem0 := by
  rw [kuznyechik_neon_encrypt_par_blocks_mem0, encrypt_par_blocks_tbl_0, encrypt_par_blocks_tbl_1, encrypt_par_blocks_tbl_2, encrypt_par_blocks_tbl_3, encrypt_par_blocks_tbl_4, encrypt_par_blocks_tbl_5, encrypt_par_blocks_tbl_6, encrypt_par_blocks_tbl_7, encrypt_par_blocks_tbl_8, encrypt_par_blocks_tbl_9, encrypt_par_blocks_tbl_10, encrypt_par_blocks_tbl_11, encrypt_par_blocks_tbl_12, encrypt_par_blocks_tbl_13, encrypt_par_blocks_tbl_14, encrypt_par_blocks_tbl_15]
  exact memOK_of_rows _ _ _ _ _ _ _ _ _ _ _ _ _ _ _ _ _ encS

theorem decrypt_par_blocks_tbl_0 : kuznyechik_neon_decrypt_par_blocks_tbl0 = kuznyechik_soft_decrypt_block_tbl0 := rfl
theorem decrypt_par_blocks_tbl_1 : kuznyechik_neon_decrypt_par_blocks_tbl1 = kuznyechik_soft_decrypt_block_tbl1 := rfl
theorem decrypt_par_blocks_tbl_2 : kuznyechik_neon_decrypt_par_blocks_tbl2 = kuznyechik_soft_decrypt_block_tbl2 := rfl
theorem decrypt_par_blocks_tbl_3 : kuznyechik_neon_decrypt_par_blocks_tbl3 = kuznyechik_soft_decrypt_block_tbl3 := rfl
theorem decrypt_par_blocks_tbl_4 : kuznyechik_neon_decrypt_par_blocks_tbl4 = kuznyechik_soft_decrypt_block_tbl4 := rfl
theorem decrypt_par_blocks_tbl_5 : kuznyechik_neon_decrypt_par_blocks_tbl5 = kuznyechik_soft_decrypt_block_tbl5 := rfl
theorem decrypt_par_blocks_tbl_6 : kuznyechik_neon_decrypt_par_blocks_tbl6 = kuznyechik_soft_decrypt_block_tbl6 := rfl
theorem decrypt_par_blocks_tbl_7 : kuznyechik_neon_decrypt_par_blocks_tbl7 = kuznyechik_soft_decrypt_block_tbl7 := rfl
theorem decrypt_par_blocks_tbl_8 : kuznyechik_neon_decrypt_par_blocks_tbl8 = kuznyechik_soft_decrypt_block_tbl8 := rfl
theorem decrypt_par_blocks_tbl_9 : kuznyechik_neon_decrypt_par_blocks_tbl9 = kuznyechik_soft_decrypt_block_tbl9 := rfl
theorem decrypt_par_blocks_tbl_10 : kuznyechik_neon_decrypt_par_blocks_tbl10 = kuznyechik_soft_decrypt_block_tbl10 := rfl
theorem decrypt_par_blocks_tbl_11 : kuznyechik_neon_decrypt_par_blocks_tbl11 = kuznyechik_soft_decrypt_block_tbl11 := rfl
theorem decrypt_par_blocks_tbl_12 : kuznyechik_neon_decrypt_par_blocks_tbl12 = kuznyechik_soft_decrypt_block_tbl12 := rfl
theorem decrypt_par_blocks_tbl_13 : kuznyechik_neon_decrypt_par_blocks_tbl13 = kuznyechik_soft_decrypt_block_tbl13 := rfl
theorem decrypt_par_blocks_tbl_14 : kuznyechik_neon_decrypt_par_blocks_tbl14 = kuznyechik_soft_decrypt_block_tbl14 := rfl
theorem decrypt_par_blocks_tbl_15 : kuznyechik_neon_decrypt_par_blocks_tbl15 = kuznyechik_soft_decrypt_block_tbl15 := rfl
theorem decrypt_par_blocks_mem : MemOK DEC_TABLE.get kuznyechik_neon_decrypt_par_blocks_mem0 := by
  rw [kuznyechik_neon_decrypt_par_blocks_mem0, decrypt_par_blocks_tbl_0, decrypt_par_blocks_tbl_1, decrypt_par_blocks_tbl_2, decrypt_par_blocks_tbl_3, decrypt_par_blocks_tbl_4, decrypt_par_blocks_tbl_5, decrypt_par_blocks_tbl_6, decrypt_par_blocks_tbl_7, decrypt_par_blocks_tbl_8, decrypt_par_blocks_tbl_9, decrypt_par_blocks_tbl_10, decrypt_par_blocks_tbl_11, decrypt_par_blocks_tbl_12, decrypt_par_blocks_tbl_13, decrypt_par_blocks_tbl_14, decrypt_par_blocks_tbl_15]
  exact memOK_of_rows _ _ _ _ _ _ _ _ _ _ _ _ _ _ _ _ _ decS

theorem neon_encrypt_par_blocks_eq_G (k0 k1 k2 k3 k4 k5 k6 k7 k8 k9 b0 b1 b2 b3 b4 b5 b6 b7 : BitVec 128) :
    kuznyechik_neon_encrypt_par_blocks k0 k1 k2 k3 k4 k5 k6 k7 k8 k9 b0 b1 b2 b3 b4 b5 b6 b7 =
      (encG kuznyechik_neon_encrypt_par_blocks_mem0 k0 k1 k2 k3 k4 k5 k6 k7 k8 k9 b0, encG kuznyechik_neon_encrypt_par_blocks_mem0 k0 k1 k2 k3 k4 k5 k6 k7 k8 k9 b1, encG kuznyechik_neon_encrypt_par_blocks_mem0 k0 k1 k2 k3 k4 k5 k6 k7 k8 k9 b2, encG kuznyechik_neon_encrypt_par_blocks_mem0 k0 k1 k2 k3 k4 k5 k6 k7 k8 k9 b3, encG kuznyechik_neon_encrypt_par_blocks_mem0 k0 k1 k2 k3 k4 k5 k6 k7 k8 k9 b4, encG kuznyechik_neon_encrypt_par_blocks_mem0 k0 k1 k2 k3 k4 k5 k6 k7 k8 k9 b5, encG kuznyechik_neon_encrypt_par_blocks_mem0 k0 k1 k2 k3 k4 k5 k6 k7 k8 k9 b6, encG kuznyechik_neon_encrypt_par_blocks_mem0 k0 k1 k2 k3 k4 k5 k6 k7 k8 k9 b7) := by
  kuz_kernel_rfl

theorem neon_decrypt_par_blocks_eq_G (k0 k1 k2 k3 k4 k5 k6 k7 k8 k9 b0 b1 b2 b3 b4 b5 b6 b7 : BitVec 128) :
    kuznyechik_neon_decrypt_par_blocks k0 k1 k2 k3 k4 k5 k6 k7 k8 k9 b0 b1 b2 b3 b4 b5 b6 b7 =
      (decG kuznyechik_neon_decrypt_par_blocks_mem0 k0 k1 k2 k3 k4 k5 k6 k7 k8 k9 b0, decG kuznyechik_neon_decrypt_par_blocks_mem0 k0 k1 k2 k3 k4 k5 k6 k7 k8 k9 b1, decG kuznyechik_neon_decrypt_par_blocks_mem0 k0 k1 k2 k3 k4 k5 k6 k7 k8 k9 b2, decG kuznyechik_neon_decrypt_par_blocks_mem0 k0 k1 k2 k3 k4 k5 k6 k7 k8 k9 b3, decG kuznyechik_neon_decrypt_par_blocks_mem0 k0 k1 k2 k3 k4 k5 k6 k7 k8 k9 b4, decG kuznyechik_neon_decrypt_par_blocks_mem0 k0 k1 k2 k3 k4 k5 k6 k7 k8 k9 b5, decG kuznyechik_neon_decrypt_par_blocks_mem0 k0 k1 k2 k3 k4 k5 k6 k7 k8 k9 b6, decG kuznyechik_neon_decrypt_par_blocks_mem0 k0 k1 k2 k3 k4 k5 k6 k7 k8 k9 b7) := by
  kuz_kernel_rfl

/-- the eight output blocks as a list -/
def list8 (t : BitVec 128 × BitVec 128 × BitVec 128 × BitVec 128 × BitVec 128 × BitVec 128 × BitVec 128 × BitVec 128) : List (BitVec 128) := [t.1, t.2.1, t.2.2.1, t.2.2.2.1, t.2.2.2.2.1, t.2.2.2.2.2.1, t.2.2.2.2.2.2.1, t.2.2.2.2.2.2.2]

/-- lane-wise form: the regenerated `encrypt_par_blocks` is `encrypt_block` on each of the eight blocks -/
theorem kuznyechik_neon_encrypt_par_blocks_lanes (k0 k1 k2 k3 k4 k5 k6 k7 k8 k9 b0 b1 b2 b3 b4 b5 b6 b7 : BitVec 128) :
    kuznyechik_neon_encrypt_par_blocks k0 k1 k2 k3 k4 k5 k6 k7 k8 k9 b0 b1 b2 b3 b4 b5 b6 b7 =
      (Neon.encrypt_block ⟨k0, k1, k2, k3, k4, k5, k6, k7, k8, k9⟩ b0, Neon.encrypt_block ⟨k0, k1, k2, k3, k4, k5, k6, k7, k8, k9⟩ b1, Neon.encrypt_block ⟨k0, k1, k2, k3, k4, k5, k6, k7, k8, k9⟩ b2, Neon.encrypt_block ⟨k0, k1, k2, k3, k4, k5, k6, k7, k8, k9⟩ b3, Neon.encrypt_block ⟨k0, k1, k2, k3, k4, k5, k6, k7, k8, k9⟩ b4, Neon.encrypt_block ⟨k0, k1, k2, k3, k4, k5, k6, k7, k8, k9⟩ b5, Neon.encrypt_block ⟨k0, k1, k2, k3, k4, k5, k6, k7, k8, k9⟩ b6, Neon.encrypt_block ⟨k0, k1, k2, k3, k4, k5, k6, k7, k8, k9⟩ b7) := by
  rw [neon_encrypt_par_blocks_eq_G]
  simp only [encG_eq _ encrypt_par_blocks_mem]

theorem kuznyechik_neon_decrypt_par_blocks_lanes (k0 k1 k2 k3 k4 k5 k6 k7 k8 k9 b0 b1 b2 b3 b4 b5 b6 b7 : BitVec 128) :
    kuznyechik_neon_decrypt_par_blocks k0 k1 k2 k3 k4 k5 k6 k7 k8 k9 b0 b1 b2 b3 b4 b5 b6 b7 =
      (Neon.decrypt_block ⟨k0, k1, k2, k3, k4, k5, k6, k7, k8, k9⟩ b0, Neon.decrypt_block ⟨k0, k1, k2, k3, k4, k5, k6, k7, k8, k9⟩ b1, Neon.decrypt_block ⟨k0, k1, k2, k3, k4, k5, k6, k7, k8, k9⟩ b2, Neon.decrypt_block ⟨k0, k1, k2, k3, k4, k5, k6, k7, k8, k9⟩ b3, Neon.decrypt_block ⟨k0, k1, k2, k3, k4, k5, k6, k7, k8, k9⟩ b4, Neon.decrypt_block ⟨k0, k1, k2, k3, k4, k5, k6, k7, k8, k9⟩ b5, Neon.decrypt_block ⟨k0, k1, k2, k3, k4, k5, k6, k7, k8, k9⟩ b6, Neon.decrypt_block ⟨k0, k1, k2, k3, k4, k5, k6, k7, k8, k9⟩ b7) := by
  rw [neon_decrypt_par_blocks_eq_G]
  simp only [decG_eq _ decrypt_par_blocks_mem]

/-- the regenerated `EncBackend::encrypt_par_blocks` (neon) is the model's `Neon.encrypt_par_blocks` on eight blocks -/
theorem kuznyechik_neon_encrypt_par_blocks_eq (k0 k1 k2 k3 k4 k5 k6 k7 k8 k9 b0 b1 b2 b3 b4 b5 b6 b7 : BitVec 128) :
    list8 (kuznyechik_neon_encrypt_par_blocks k0 k1 k2 k3 k4 k5 k6 k7 k8 k9 b0 b1 b2 b3 b4 b5 b6 b7) = Neon.encrypt_par_blocks ⟨k0, k1, k2, k3, k4, k5, k6, k7, k8, k9⟩ [b0, b1, b2, b3, b4, b5, b6, b7] := by
  rw [kuznyechik_neon_encrypt_par_blocks_lanes, Neon.encrypt_par_blocks_eq_map _ _ rfl]
  rfl

/-- the regenerated `DecBackend::decrypt_par_blocks` (neon) is the model's `Neon.decrypt_par_blocks` on eight blocks -/
theorem kuznyechik_neon_decrypt_par_blocks_eq (k0 k1 k2 k3 k4 k5 k6 k7 k8 k9 b0 b1 b2 b3 b4 b5 b6 b7 : BitVec 128) :
    list8 (kuznyechik_neon_decrypt_par_blocks k0 k1 k2 k3 k4 k5 k6 k7 k8 k9 b0 b1 b2 b3 b4 b5 b6 b7) = Neon.decrypt_par_blocks ⟨k0, k1, k2, k3, k4, k5, k6, k7, k8, k9⟩ [b0, b1, b2, b3, b4, b5, b6, b7] := by
  rw [kuznyechik_neon_decrypt_par_blocks_lanes, Neon.decrypt_par_blocks_eq_map _ _ rfl]
  rfl

end BC.GenCipher.KuznyechikNeon
