import BlockCiphers.Proofs.Rc5
import BlockCiphers.Spec.Rc5
/-
RC5: the model of the Rust (`BC.Rc5`) computes Rivest's RC5-w/r/b (`BC.Spec.Rc5`), for all parameters
(`rc5_computes_spec`: w ∈ {8,16,32,64,128}, every r, every b and key, every block; the lemmas hold for every
`w` with `8 ∣ w`, `8 ≤ w ≤ 2^32`).

The code is close to a transcription of the paper.  The differences, each bridged by a theorem here:
1. `key_into_words` is the paper's byte loop `L[i/u] = (L[i/u] <<< 8) + K[i]`, the specification is the
   closed form "u consecutive key bytes per word, low-order byte first" (`keyIntoWords_getD`,
   `toList_keyIntoWords`); the loop's plain `+` never overflows (`keyIntoWords_no_overflow`).
2. `c`: the code's array has `⌈b/u⌉` words and `mix_in` substitutes the one-word array `[0]` when it is empty
   (b = 0); the paper has `c = max(1, ⌈b/u⌉)` (`mixL_eq`).
3. rotation amounts: u8/u16/u32 pass the whole word (as `u32`) to `rotate_left`, which reduces modulo the
   width; u64/u128 reduce explicitly and cast — both are the paper's "low lg(w) bits of the amount"
   (`rotlW_eq`, `rotrW_eq`); `<<< 3` is `rotate_left(W::THREE)` (`rotlW_three`).
4. `mix_in` re-reads `a = key_table[i]`, `b = key_as_words[j]` after the store; the paper assigns
   `A = S[i] = …` — equal because the indices are in range (`mixStep_inv`).
5. `P`, `Q` are five literal constants per word type; the paper defines `Odd((e−2)2^w)`, `Odd((φ−1)2^w)`
   (`consts_spec`, with `isQ_unique`, `isP_unique`: the predicates determine the numbers).
-/
namespace BC.Rc5
open BC

theorem getD_setIfInBounds {α : Type} (L : Array α) (i j : Nat) (v d : α) :
    (L.setIfInBounds i v).getD j d = if i = j ∧ j < L.size then v else L.getD j d := by
  simp only [Array.getD_eq_getD_getElem?, Array.getElem?_setIfInBounds]
  by_cases h : i = j
  · subst h
    by_cases h2 : i < L.size
    · simp [h2]
    · simp [h2]
  · simp [h]

theorem getD_toList {α : Type} (L : Array α) (j : Nat) (d : α) : L.getD j d = L.toList.getD j d := by
  simp [List.getD_eq_getElem?_getD]

/-- what `key_into_words` does to word `j` during the iterations `n-1, …, 0` -/
def wordFold (w : Nat) (key : Bytes) (j : Nat) : Nat → BitVec w → BitVec w
  | 0, x => x
  | i + 1, x =>
    wordFold w key j i
      (if i / wordBytes w = j then x.rotateLeft 8 + (key.getD i 0).setWidth w else x)

theorem kiwLoop_size {w : Nat} (key : Bytes) (n : Nat) (L : Array (BitVec w)) :
    (kiwLoop w key n L).size = L.size := by
  induction n generalizing L with
  | zero => rfl
  | succ n ih => simp only [kiwLoop, ih, Array.size_setIfInBounds]

theorem kiwLoop_getD {w : Nat} (key : Bytes) (n : Nat) (L : Array (BitVec w)) (j : Nat)
    (hj : j < L.size) : (kiwLoop w key n L).getD j 0 = wordFold w key j n (L.getD j 0) := by
  induction n generalizing L with
  | zero => rfl
  | succ n ih =>
    simp only [kiwLoop, wordFold]
    rw [ih _ (by simpa using hj), getD_setIfInBounds]
    by_cases h : n / wordBytes w = j
    · subst h; simp [hj]
    · simp [h]


theorem slice_cons (s : Bytes) (a b : Nat) (ha : a < s.length) (hab : a < b) :
    slice s a b = s.getD a 0 :: slice s (a + 1) b := by
  unfold slice
  have h1 : s.drop a = s[a] :: s.drop (a + 1) := List.drop_eq_getElem_cons ha
  have h2 : b - a = (b - (a + 1)) + 1 := by omega
  rw [h1, h2, List.take_succ_cons]
  simp [List.getD_eq_getElem?_getD, ha]

theorem slice_empty (s : Bytes) (a b : Nat) (h : b ≤ a) : slice s a b = [] := by
  unfold slice
  have : b - a = 0 := by omega
  rw [this]; simp

theorem length_slice_le (s : Bytes) (a b : Nat) : (slice s a b).length ≤ b - a := by
  unfold slice; simp [List.length_take]; omega

/-- `x.rotate_left(8)` of a word whose top byte is zero is `x * 256` (for `u8`: `x = 0`) -/
theorem toNat_rotl8 {w : Nat} (h8 : 8 ≤ w) (x : BitVec w) (hx : x.toNat < 2 ^ (w - 8)) :
    (x.rotateLeft 8).toNat = x.toNat * 256 := by
  rw [BitVec.toNat_rotateLeft]
  by_cases hw : w = 8
  · subst hw
    have : x.toNat = 0 := by simpa using hx
    simp [this]
  · have h8' : 8 % w = 8 := Nat.mod_eq_of_lt (by omega)
    have hp : 2 ^ w = 2 ^ (w - 8) * 256 := by
      rw [show (256 : Nat) = 2 ^ 8 from rfl, ← Nat.pow_add]; congr 1; omega
    rw [h8', Nat.shiftLeft_eq, Nat.shiftRight_eq_div_pow, Nat.div_eq_of_lt hx, Nat.or_zero]
    rw [show (2 : Nat) ^ 8 = 256 from rfl, Nat.mod_eq_of_lt]
    rw [hp]; exact Nat.mul_lt_mul_of_pos_right hx (by decide)
/-- value of the bytes of word `j` whose index is `≥ n` -/
def V (w : Nat) (key : Bytes) (j n : Nat) : Nat :=
  bytesToNatLE (slice key (max n (wordBytes w * j)) (wordBytes w * (j + 1)))

/-- iteration `n` of `key_into_words` on the word `j = n / u` it touches: the word holds the bytes with a
larger index (`V (n+1) < 2^(w-8)`), the plain `+` does not overflow (**C20**), and afterwards the word holds
the bytes with index `≥ n` -/
theorem V_step_eq {w : Nat} (hw : w % 8 = 0) (h8 : 8 ≤ w) (key : Bytes) (j n : Nat)
    (hn : n < key.length) (h : n / wordBytes w = j) :
    ((BitVec.ofNat w (V w key j (n + 1))).rotateLeft 8).toNat + ((key.getD n 0).setWidth w).toNat < 2 ^ w ∧
    (BitVec.ofNat w (V w key j (n + 1))).rotateLeft 8 + (key.getD n 0).setWidth w
      = BitVec.ofNat w (V w key j n) := by
  have hu : 0 < wordBytes w := by unfold wordBytes; omega
  have hwu : 8 * wordBytes w = w := by unfold wordBytes; omega
  have lo : wordBytes w * j ≤ n := by rw [← h]; exact Nat.mul_div_le n _
  have hi : n < wordBytes w * (j + 1) := by rw [← h]; exact Nat.lt_mul_div_succ n hu
  have hV : V w key j n = V w key j (n + 1) * 256 + (key.getD n 0).toNat := by
    unfold V
    rw [Nat.max_eq_left lo, Nat.max_eq_left (by omega), slice_cons key n _ (by omega) hi]
    rfl
  -- the accumulated word has at most u-1 bytes
  have hlt : V w key j (n + 1) < 2 ^ (w - 8) := by
    unfold V
    rw [Nat.max_eq_left (by omega)]
    have h1 := bytesToNatLE_lt (slice key (n + 1) (wordBytes w * (j + 1)))
    have h2 := length_slice_le key (n + 1) (wordBytes w * (j + 1))
    have h3 : wordBytes w * (j + 1) = wordBytes w * j + wordBytes w := by rw [Nat.mul_succ]
    have h4 : 8 * (slice key (n + 1) (wordBytes w * (j + 1))).length ≤ w - 8 := by omega
    rw [pow256] at h1
    exact Nat.lt_of_lt_of_le h1 (Nat.pow_le_pow_right (by decide) h4)
  have hlt' : V w key j (n + 1) < 2 ^ w :=
    Nat.lt_of_lt_of_le hlt (Nat.pow_le_pow_right (by decide) (by omega))
  have hx : (BitVec.ofNat w (V w key j (n + 1))).toNat = V w key j (n + 1) := by
    rw [BitVec.toNat_ofNat, Nat.mod_eq_of_lt hlt']
  have hb := (key.getD n 0).isLt
  have hbw : ((key.getD n 0).setWidth w).toNat = (key.getD n 0).toNat := by
    rw [BitVec.toNat_setWidth, Nat.mod_eq_of_lt
      (Nat.lt_of_lt_of_le hb (Nat.pow_le_pow_right (by decide) h8 : 2 ^ 8 ≤ 2 ^ w))]
  have hrot := toNat_rotl8 h8 (BitVec.ofNat w (V w key j (n + 1))) (by rw [hx]; exact hlt)
  have hsum : V w key j (n + 1) * 256 + (key.getD n 0).toNat < 2 ^ w := by
    have hp : 2 ^ w = 2 ^ (w - 8) * 256 := by
      rw [show (256 : Nat) = 2 ^ 8 from rfl, ← Nat.pow_add]; congr 1; omega
    have : (V w key j (n + 1) + 1) * 256 ≤ 2 ^ (w - 8) * 256 := Nat.mul_le_mul_right _ hlt
    rw [hp]; omega
  constructor
  · rw [hrot, hx, hbw]; exact hsum
  · apply BitVec.eq_of_toNat_eq
    rw [BitVec.toNat_add, hrot, hx, hbw, BitVec.toNat_ofNat, ← hV]

/-- iteration `n` does not concern the words `j ≠ n / u` -/
theorem V_step_ne {w : Nat} (h8 : 8 ≤ w) (key : Bytes) (j n : Nat) (h : n / wordBytes w ≠ j) :
    V w key j (n + 1) = V w key j n := by
  have hu : 0 < wordBytes w := by unfold wordBytes; omega
  unfold V
  by_cases h1 : n < wordBytes w * j
  · rw [Nat.max_eq_right (by omega), Nat.max_eq_right (by omega)]
  · have h2 : wordBytes w * (j + 1) ≤ n := by
      apply Nat.le_of_not_lt; intro h2
      exact h (Nat.div_eq_of_lt_le (by rw [Nat.mul_comm]; omega) (by rw [Nat.mul_comm]; exact h2))
    rw [slice_empty _ _ _ (by omega), slice_empty _ _ _ (by omega)]

theorem wordFold_val {w : Nat} (hw : w % 8 = 0) (h8 : 8 ≤ w) (key : Bytes) (j n : Nat)
    (hn : n ≤ key.length) :
    wordFold w key j n (BitVec.ofNat w (V w key j n)) = BitVec.ofNat w (V w key j 0) := by
  induction n with
  | zero => rfl
  | succ n ih =>
    have ih := ih (by omega)
    simp only [wordFold]
    by_cases h : n / wordBytes w = j
    · simp only [h, if_true]
      rw [(V_step_eq hw h8 key j n (by omega) h).2, ih]
    · simp only [h, if_false]
      rw [V_step_ne h8 key j n h, ih]

/-- C20: the index `i / u` of `key_into_words` is in range: see `kiw_index_lt` below.
"no iteration of `key_into_words` from `n-1` down to 0, started in the array `L`, overflows in
`x.rotate_left(8) + key[i]`" -/
def KiwNoOverflow (w : Nat) (key : Bytes) : Nat → Array (BitVec w) → Prop
  | 0, _ => True
  | i + 1, L =>
    ((L.getD (i / wordBytes w) 0).rotateLeft 8).toNat + ((key.getD i 0).setWidth w).toNat < 2 ^ w ∧
    KiwNoOverflow w key i
      (L.setIfInBounds (i / wordBytes w)
        ((L.getD (i / wordBytes w) 0).rotateLeft 8 + (key.getD i 0).setWidth w))

theorem kiw_index_lt {w : Nat} (h8 : 8 ≤ w) (b i : Nat) (hi : i < b) : i / wordBytes w < keyWords w b := by
  have hu : 0 < wordBytes w := by unfold wordBytes; omega
  unfold keyWords
  rw [Nat.div_lt_iff_lt_mul hu]
  have := Nat.lt_mul_div_succ (b + wordBytes w - 1) hu
  have h2 : ((b + wordBytes w - 1) / wordBytes w + 1) * wordBytes w
      = (b + wordBytes w - 1) / wordBytes w * wordBytes w + wordBytes w := by
    rw [Nat.add_mul, Nat.one_mul]
  rw [Nat.mul_comm] at this
  omega

theorem kiwNoOverflow_of_inv {w : Nat} (hw : w % 8 = 0) (h8 : 8 ≤ w) (key : Bytes) (n : Nat)
    (hn : n ≤ key.length) (L : Array (BitVec w)) (hsz : L.size = keyWords w key.length)
    (hinv : ∀ j, j < L.size → L.getD j 0 = BitVec.ofNat w (V w key j n)) :
    KiwNoOverflow w key n L := by
  induction n generalizing L with
  | zero => trivial
  | succ n ih =>
    have hj : n / wordBytes w < L.size := by rw [hsz]; exact kiw_index_lt h8 _ _ (by omega)
    have hs := V_step_eq hw h8 key (n / wordBytes w) n (by omega) rfl
    refine ⟨by rw [hinv _ hj]; exact hs.1, ih (by omega) _ (by simpa using hsz) ?_⟩
    intro j hjl
    have hjl' : j < L.size := by simpa using hjl
    rw [getD_setIfInBounds]
    by_cases h : n / wordBytes w = j
    · rw [if_pos ⟨h, hjl'⟩, hinv _ hj, hs.2, h]
    · rw [if_neg (fun hh => h hh.1), hinv _ hjl', V_step_ne h8 key j n h]

/-- **C20** (`key_into_words`, the plain `+`): for every key, no addition overflows -/
theorem keyIntoWords_no_overflow {w : Nat} (hw : w % 8 = 0) (h8 : 8 ≤ w) (key : Bytes) :
    KiwNoOverflow w key key.length (Array.replicate (keyWords w key.length) 0) := by
  apply kiwNoOverflow_of_inv hw h8 key key.length (Nat.le_refl _) _ (by simp)
  intro j hj
  have : V w key j key.length = 0 := by
    unfold V slice
    rw [List.drop_eq_nil_of_le (Nat.le_max_left _ _)]; simp
  rw [this]
  have hj' : j < keyWords w key.length := by simpa using hj
  simp [hj']

theorem size_keyIntoWords (w b : Nat) (key : Bytes) : (keyIntoWords w b key).size = keyWords w b := by
  simp [keyIntoWords, kiwLoop_size]

/-- `key_into_words` produces the little-endian words of the key (C20: and the plain `+` never overflows:
the value added to is `V·256` with `V < 2^(w-8)`, see `wordFold_val`) -/
theorem keyIntoWords_getD {w : Nat} (hw : w % 8 = 0) (h8 : 8 ≤ w) (key : Bytes) (j : Nat)
    (hj : j < keyWords w key.length) :
    (keyIntoWords w key.length key).getD j 0 = Spec.Rc5.Lword w key j := by
  unfold keyIntoWords
  rw [kiwLoop_getD _ _ _ _ (by simpa using hj)]
  have h0 : (Array.replicate (keyWords w key.length) (0 : BitVec w)).getD j 0
      = BitVec.ofNat w (V w key j key.length) := by
    have : V w key j key.length = 0 := by
      unfold V slice
      rw [List.drop_eq_nil_of_le (Nat.le_max_left _ _)]; simp
    rw [this]; simp [hj]
  rw [h0, wordFold_val hw h8 key j key.length (Nat.le_refl _)]
  unfold V Spec.Rc5.Lword Spec.Rc5.u wordBytes
  rw [Nat.max_eq_right (Nat.zero_le _)]

theorem toList_keyIntoWords {w : Nat} (hw : w % 8 = 0) (h8 : 8 ≤ w) (key : Bytes) :
    (keyIntoWords w key.length key).toList
      = (List.range (keyWords w key.length)).map (Spec.Rc5.Lword w key) := by
  apply List.ext_getElem
  · simp [size_keyIntoWords]
  · intro j h1 h2
    have hj : j < keyWords w key.length := by simpa [size_keyIntoWords] using h1
    have := keyIntoWords_getD hw h8 key j hj
    rw [getD_toList, List.getD_eq_getElem?_getD, List.getElem?_eq_getElem h1] at this
    simpa using this

/-- the array `mix_in` works on (with the `empty_key` substitution) is Rivest's `L[0..c-1]` -/
theorem mixL_eq {w : Nat} (hw : w % 8 = 0) (h8 : 8 ≤ w) (key : Bytes) :
    (if (keyIntoWords w key.length key).isEmpty then #[(0 : BitVec w)]
      else keyIntoWords w key.length key).toList = Spec.Rc5.L0 w key.length key := by
  have hu : 0 < wordBytes w := by unfold wordBytes; omega
  by_cases h : keyWords w key.length = 0
  · have hsz : (keyIntoWords w key.length key).isEmpty = true := by
      rw [Array.isEmpty_iff_size_eq_zero, size_keyIntoWords, h]
    have hb : key.length = 0 := by
      unfold keyWords at h
      rw [Nat.div_eq_zero_iff_lt hu] at h; omega
    have hk : key = [] := List.eq_nil_of_length_eq_zero hb
    subst hk
    simp only [hsz, if_true]
    have hc : Spec.Rc5.c w 0 = 1 := by
      unfold Spec.Rc5.c Spec.Rc5.u
      have : (0 + w / 8 - 1) / (w / 8) = 0 := h
      rw [this]; rfl
    simp [Spec.Rc5.L0, hc, Spec.Rc5.Lword, slice, List.range_succ]
  · have hsz : (keyIntoWords w key.length key).isEmpty = false := by
      rw [Bool.eq_false_iff, ne_eq, Array.isEmpty_iff_size_eq_zero, size_keyIntoWords]; exact h
    simp only [hsz, Bool.false_eq_true, if_false]
    rw [toList_keyIntoWords hw h8]
    unfold Spec.Rc5.L0 Spec.Rc5.c
    have : max 1 ((key.length + Spec.Rc5.u w - 1) / Spec.Rc5.u w) = keyWords w key.length :=
      Nat.max_eq_right (Nat.pos_of_ne_zero h)
    rw [this]

/-! ### `initialize_expanded_key_table` = `S[0] = P, S[i] = S[i-1] + Q` -/

theorem take_succ_set {α : Type} (l : List α) (i : Nat) (v : α) (h : i < l.length) :
    (l.set i v).take (i + 1) = l.take i ++ [v] := by
  induction l generalizing i with
  | nil => simp at h
  | cons x xs ih =>
    cases i with
    | zero => simp
    | succ i => simp only [List.set_cons_succ, List.take_succ_cons, List.cons_append]; rw [ih i (by simpa using h)]

theorem toList_initLoop {w : Nat} (n i : Nat) (T : Array (BitVec w)) (hsz : i + n = T.size) :
    (initLoop w n i T).toList
      = T.toList.take i ++ Spec.Rc5.arith (Q w) n (T.getD (i - 1) 0 + Q w) := by
  induction n generalizing i T with
  | zero =>
    simp only [initLoop, Spec.Rc5.arith, List.append_nil]
    rw [List.take_of_length_le (by simp; omega)]
  | succ n ih =>
    simp only [initLoop, Spec.Rc5.arith]
    rw [ih (i + 1) _ (by simp; omega)]
    have hi : i < T.size := by omega
    rw [getD_setIfInBounds, Array.toList_setIfInBounds, take_succ_set _ _ _ (by simpa using hi)]
    simp [hi]

theorem length_arith {w : Nat} (Q : BitVec w) (n : Nat) (a : BitVec w) :
    (Spec.Rc5.arith Q n a).length = n := by
  induction n generalizing a with
  | zero => rfl
  | succ n ih => simp [Spec.Rc5.arith, ih]

theorem toList_initTable (w r : Nat) :
    (initTable w r).toList = Spec.Rc5.S0 r (P w) (Q w) := by
  unfold initTable Spec.Rc5.S0
  have ht : tableSize r = Spec.Rc5.t r := by unfold tableSize Spec.Rc5.t; omega
  have hpos : tableSize r = (tableSize r - 1) + 1 := by unfold tableSize; omega
  rw [toList_initLoop _ 1 _ (by simp; omega)]
  rw [← ht]
  generalize tableSize r - 1 = k at hpos
  rw [hpos]
  have h1 : ((Array.replicate (k + 1) (0 : BitVec w)).setIfInBounds 0 (P w)).getD (1 - 1) 0 = P w := by
    rw [getD_setIfInBounds]; simp
  have h2 : ((Array.replicate (k + 1) (0 : BitVec w)).setIfInBounds 0 (P w)).toList.take 1 = [P w] := by
    simp [List.replicate_succ]
  rw [h1, h2]; rfl

theorem size_initTable (w r : Nat) : (initTable w r).size = tableSize r := by
  have := congrArg List.length (toList_initTable w r)
  rw [Array.length_toList, Spec.Rc5.S0, length_arith] at this
  rw [this]; unfold tableSize Spec.Rc5.t; omega

/-! ### `mix_in` = the mixing loop -/

theorem rotlW_three {w : Nat} (h8 : 8 ≤ w) (hw : w ≤ 2 ^ 32) (x : BitVec w) :
    rotlW x (BitVec.ofNat w 3) = x.rotateLeft 3 := by
  rw [rotlW_eq hw, BitVec.toNat_ofNat, BitVec.rotateLeft_mod_eq_rotateLeft]
  have : (2 : Nat) ^ 8 ≤ 2 ^ w := Nat.pow_le_pow_right (by decide) h8
  rw [Nat.mod_eq_of_lt (by omega)]

theorem rotlW_eq_rol {w : Nat} (hw : w ≤ 2 ^ 32) (x n : BitVec w) : rotlW x n = Spec.Rc5.rol x n :=
  rotlW_eq hw x n

theorem rotrW_eq_ror {w : Nat} (hw : w ≤ 2 ^ 32) (x n : BitVec w) : rotrW x n = Spec.Rc5.ror x n :=
  rotrW_eq hw x n

/-- the model state and the specification state agree, and the indices are in range -/
structure Rel {w : Nat} (t c : Nat) (s : MixSt w) (m : Spec.Rc5.Mix w) : Prop where
  hS : s.S.toList = m.S
  hL : s.L.toList = m.L
  hi : s.i = m.i
  hj : s.j = m.j
  ha : s.a = m.A
  hb : s.b = m.B
  sizeS : s.S.size = t
  sizeL : s.L.size = c
  ilt : s.i < t
  jlt : s.j < c

/-- C20: one step of `mix_in` keeps `expanded_key_index < key_table.len()` and
`key_as_words_index < key_as_words.len()` (all four index expressions are in range), and is one step of
Rivest's loop -/
theorem mixStep_inv {w : Nat} (h8 : 8 ≤ w) (hw : w ≤ 2 ^ 32) (t c : Nat) (s : MixSt w)
    (m : Spec.Rc5.Mix w) (h : Rel t c s m) : Rel t c (mixStep s) (Spec.Rc5.mixStep t c m) := by
  obtain ⟨hS, hL, hi, hj, ha, hb, sizeS, sizeL, ilt, jlt⟩ := h
  have hSi : s.S.getD s.i 0 = m.S.getD m.i 0 := by rw [getD_toList, hS, hi]
  have hLj : s.L.getD s.j 0 = m.L.getD m.j 0 := by rw [getD_toList, hL, hj]
  have hA : (s.S.setIfInBounds s.i (rotlW (s.S.getD s.i 0 + s.a + s.b) (BitVec.ofNat w 3))).getD s.i 0
      = (m.S.getD m.i 0 + m.A + m.B).rotateLeft 3 := by
    rw [getD_setIfInBounds, if_pos ⟨rfl, by omega⟩, rotlW_three h8 hw, hSi, ha, hb]
  constructor
  · simp only [mixStep, Spec.Rc5.mixStep, Array.toList_setIfInBounds]
    rw [rotlW_three h8 hw, hSi, ha, hb, hS, hi]
  · simp only [mixStep, Spec.Rc5.mixStep, Array.toList_setIfInBounds]
    rw [hA, rotlW_eq_rol hw, hLj, hb, hL, hj]
  · simp only [mixStep, Spec.Rc5.mixStep, Array.size_setIfInBounds]; rw [sizeS, hi]
  · simp only [mixStep, Spec.Rc5.mixStep, Array.size_setIfInBounds]; rw [sizeL, hj]
  · simp only [mixStep, Spec.Rc5.mixStep]; exact hA
  · simp only [mixStep, Spec.Rc5.mixStep]
    rw [hA, getD_setIfInBounds, if_pos ⟨rfl, by omega⟩, rotlW_eq_rol hw, hLj, hb]
  · simp only [mixStep, Array.size_setIfInBounds]; exact sizeS
  · simp only [mixStep, Array.size_setIfInBounds]; exact sizeL
  · simp only [mixStep, Array.size_setIfInBounds]; rw [sizeS]; exact Nat.mod_lt _ (by omega)
  · simp only [mixStep, Array.size_setIfInBounds]; rw [sizeL]; exact Nat.mod_lt _ (by omega)

theorem iter_mixStep_inv {w : Nat} (h8 : 8 ≤ w) (hw : w ≤ 2 ^ 32) (t c n : Nat) (s : MixSt w)
    (m : Spec.Rc5.Mix w) (h : Rel t c s m) :
    Rel t c (iter mixStep n s) (iter (Spec.Rc5.mixStep t c) n m) := by
  induction n generalizing s m with
  | zero => exact h
  | succ n ih => exact ih _ _ (mixStep_inv h8 hw t c s m h)

/-- **key expansion**: `substitute_key` computes Rivest's table `S[0..t-1]` (with the constants of
primitives.rs), for every word width that is a multiple of 8, every `r`, every key of every length. -/
theorem substituteKey_eq_spec {w : Nat} (hw8 : w % 8 = 0) (h8 : 8 ≤ w) (hw : w ≤ 2 ^ 32) (r : Nat)
    (key : Bytes) :
    (substituteKey w r key.length key).toList = Spec.Rc5.expand r key.length (P w) (Q w) key := by
  unfold substituteKey mixIn Spec.Rc5.expand
  have hL := mixL_eq hw8 h8 key
  have hS := toList_initTable w r
  have hts : tableSize r = Spec.Rc5.t r := by unfold tableSize Spec.Rc5.t; omega
  have hsizeS : (initTable w r).size = Spec.Rc5.t r := by rw [size_initTable, hts]
  have hsizeL : (if (keyIntoWords w key.length key).isEmpty then #[(0 : BitVec w)]
      else keyIntoWords w key.length key).size = Spec.Rc5.c w key.length := by
    have := congrArg List.length hL
    simpa [Spec.Rc5.L0] using this
  have hrel : Rel (Spec.Rc5.t r) (Spec.Rc5.c w key.length)
      { S := initTable w r,
        L := if (keyIntoWords w key.length key).isEmpty then #[(0 : BitVec w)]
          else keyIntoWords w key.length key,
        i := 0, j := 0, a := 0, b := 0 }
      { S := Spec.Rc5.S0 r (P w) (Q w), L := Spec.Rc5.L0 w key.length key, i := 0, j := 0,
        A := 0, B := 0 } :=
    ⟨hS, hL, rfl, rfl, rfl, rfl, hsizeS, hsizeL,
      by show 0 < Spec.Rc5.t r; unfold Spec.Rc5.t; omega,
      by show 0 < Spec.Rc5.c w key.length
         exact Nat.lt_of_lt_of_le (by decide) (Nat.le_max_left _ _)⟩
  have h := iter_mixStep_inv h8 hw _ _ (3 * max (Spec.Rc5.c w key.length) (Spec.Rc5.t r)) _ _ hrel
  simp only [hsizeS, hsizeL]
  rw [Nat.max_comm (Spec.Rc5.t r)]
  exact h.hS

theorem size_iter_mixStep {w : Nat} (n : Nat) (s : MixSt w) : (iter mixStep n s).S.size = s.S.size := by
  induction n generalizing s with
  | zero => rfl
  | succ n ih => rw [iter, ih]; simp [mixStep]

/-- C20 (`encrypt_block`/`decrypt_block`): the table has `2(r+1)` words, so `key[2*i]`, `key[2*i+1]`
(`i ≤ r`) are in range -/
theorem size_substituteKey (w r b : Nat) (key : Bytes) : (substituteKey w r b key).size = tableSize r := by
  unfold substituteKey mixIn
  simp only [size_iter_mixStep, size_initTable]

theorem enc_index_lt (r i : Nat) (hi : i ≤ r) : 2 * i + 1 < tableSize r := by
  unfold tableSize; omega

/-! ### block functions -/

/-- the two words of the model state as the registers A, B of the paper -/
def toAB {w : Nat} (s : St w) : Spec.Rc5.AB w := { A := s.a, B := s.b }

theorem encRound_eq_spec {w : Nat} (hw : w ≤ 2 ^ 32) (key : Array (BitVec w)) (i : Nat) (s : St w) :
    toAB (encRound key i s) = Spec.Rc5.encRound key.toList i (toAB s) := by
  simp only [toAB, encRound, Spec.Rc5.encRound, rotlW_eq_rol hw, getD_toList]

theorem decRound_eq_spec {w : Nat} (hw : w ≤ 2 ^ 32) (key : Array (BitVec w)) (i : Nat) (s : St w) :
    toAB (decRound key i s) = Spec.Rc5.decRound key.toList i (toAB s) := by
  simp only [toAB, decRound, Spec.Rc5.decRound, rotrW_eq_ror hw, getD_toList]

theorem encLoop_eq_spec {w : Nat} (hw : w ≤ 2 ^ 32) (key : Array (BitVec w)) (n : Nat) (s : St w) :
    toAB (encLoop key n s) = Spec.Rc5.encRounds key.toList n (toAB s) := by
  induction n with
  | zero => rfl
  | succ n ih => simp only [encLoop, Spec.Rc5.encRounds, encRound_eq_spec hw, ih]

theorem decLoop_eq_spec {w : Nat} (hw : w ≤ 2 ^ 32) (key : Array (BitVec w)) (n : Nat) (s : St w) :
    toAB (decLoop key n s) = Spec.Rc5.decRounds key.toList n (toAB s) := by
  induction n generalizing s with
  | zero => rfl
  | succ n ih => simp only [decLoop, Spec.Rc5.decRounds, ih, decRound_eq_spec hw]

theorem encryptWords_eq_spec {w : Nat} (hw : w ≤ 2 ^ 32) (key : Array (BitVec w)) (r : Nat) (s : St w) :
    toAB (encryptWords key r s) = Spec.Rc5.encrypt key.toList r (toAB s) := by
  simp only [encryptWords, Spec.Rc5.encrypt, encLoop_eq_spec hw, getD_toList]; rfl

theorem decryptWords_eq_spec {w : Nat} (hw : w ≤ 2 ^ 32) (key : Array (BitVec w)) (r : Nat) (s : St w) :
    toAB (decryptWords key r s) = Spec.Rc5.decrypt key.toList r (toAB s) := by
  simp only [decryptWords, Spec.Rc5.decrypt, ← decLoop_eq_spec hw, getD_toList]; rfl

theorem blockFromWords_eq {w : Nat} (s : St w) : blockFromWords s = Spec.Rc5.ofAB (toAB s) := rfl
theorem wordsFromBlock_eq (w : Nat) (blk : Bytes) : toAB (wordsFromBlock w blk) = Spec.Rc5.toAB w blk := rfl

/-- **encryption**: `encrypt_block` is Rivest's encryption with the table, on little-endian blocks -/
theorem encryptBlock_eq_spec {w : Nat} (hw : w ≤ 2 ^ 32) (key : Array (BitVec w)) (r : Nat)
    (blk : Bytes) : encryptBlock key r blk = Spec.Rc5.encryptBytes key.toList r blk := by
  unfold encryptBlock Spec.Rc5.encryptBytes
  rw [blockFromWords_eq, encryptWords_eq_spec hw, wordsFromBlock_eq]

/-- **decryption** -/
theorem decryptBlock_eq_spec {w : Nat} (hw : w ≤ 2 ^ 32) (key : Array (BitVec w)) (r : Nat)
    (blk : Bytes) : decryptBlock key r blk = Spec.Rc5.decryptBytes key.toList r blk := by
  unfold decryptBlock Spec.Rc5.decryptBytes
  rw [blockFromWords_eq, decryptWords_eq_spec hw, wordsFromBlock_eq]

/-! ### the magic constants of primitives.rs are `Odd((e−2)·2^w)` and `Odd((φ−1)·2^w)` -/

theorem isP_8 : Spec.Rc5.IsP 8 (Pnat 8) := ⟨by decide, 10, by decide, by decide +kernel, by decide +kernel⟩
theorem isP_16 : Spec.Rc5.IsP 16 (Pnat 16) := ⟨by decide, 12, by decide, by decide +kernel, by decide +kernel⟩
theorem isP_32 : Spec.Rc5.IsP 32 (Pnat 32) := ⟨by decide, 16, by decide, by decide +kernel, by decide +kernel⟩
theorem isP_64 : Spec.Rc5.IsP 64 (Pnat 64) := ⟨by decide, 25, by decide, by decide +kernel, by decide +kernel⟩
theorem isP_128 : Spec.Rc5.IsP 128 (Pnat 128) :=
  ⟨by decide, 40, by decide, by decide +kernel, by decide +kernel⟩

theorem isQ_8 : Spec.Rc5.IsQ 8 (Qnat 8) := ⟨by decide, by decide +kernel, by decide +kernel⟩
theorem isQ_16 : Spec.Rc5.IsQ 16 (Qnat 16) := ⟨by decide, by decide +kernel, by decide +kernel⟩
theorem isQ_32 : Spec.Rc5.IsQ 32 (Qnat 32) := ⟨by decide, by decide +kernel, by decide +kernel⟩
theorem isQ_64 : Spec.Rc5.IsQ 64 (Qnat 64) := ⟨by decide, by decide +kernel, by decide +kernel⟩
theorem isQ_128 : Spec.Rc5.IsQ 128 (Qnat 128) := ⟨by decide, by decide +kernel, by decide +kernel⟩

/-- `IsQ` determines the number (so `Qnat w` is *the* `Odd((φ−1)·2^w)`) -/
theorem isQ_unique (w q q' : Nat) (h : Spec.Rc5.IsQ w q) (h' : Spec.Rc5.IsQ w q') : q = q' := by
  obtain ⟨ho, hl, hu⟩ := h
  obtain ⟨ho', hl', hu'⟩ := h'
  have h1 : 2 * (q - 1) + 2 ^ w < 2 * (q' + 1) + 2 ^ w :=
    (Nat.pow_lt_pow_iff_left (by decide : (2 : Nat) ≠ 0)).mp (Nat.lt_trans hl hu')
  have h2 : 2 * (q' - 1) + 2 ^ w < 2 * (q + 1) + 2 ^ w :=
    (Nat.pow_lt_pow_iff_left (by decide : (2 : Nat) ≠ 0)).mp (Nat.lt_trans hl' hu)
  omega

/-- the word sizes for which the crate has an `impl Word` -/
def widths : List Nat := [8, 16, 32, 64, 128]

theorem consts_spec : ∀ w ∈ widths,
    Spec.Rc5.IsP w (P w).toNat ∧ Spec.Rc5.IsQ w (Q w).toNat := by
  intro w hw
  simp only [widths, List.mem_cons, List.not_mem_nil, or_false] at hw
  rcases hw with rfl | rfl | rfl | rfl | rfl
  · exact ⟨isP_8, isQ_8⟩
  · exact ⟨isP_16, isQ_16⟩
  · exact ⟨isP_32, isQ_32⟩
  · exact ⟨isP_64, isQ_64⟩
  · exact ⟨isP_128, isQ_128⟩

/-- **C10 (RC5)**: for each of the five word types, every `r`, every key length `b` and key, every block:
the constants are Rivest's, the expanded table is Rivest's `S`, and `encrypt_block`/`decrypt_block` are
Rivest's encryption/decryption. -/
theorem rc5_computes_spec (w : Nat) (hw : w ∈ widths) (r b : Nat) (key : Bytes) (hb : key.length = b)
    (blk : Bytes) :
    Spec.Rc5.IsP w (P w).toNat ∧ Spec.Rc5.IsQ w (Q w).toNat ∧
    (substituteKey w r b key).toList = Spec.Rc5.expand r b (P w) (Q w) key ∧
    encryptBlock (substituteKey w r b key) r blk
      = Spec.Rc5.encryptBytes (Spec.Rc5.expand r b (P w) (Q w) key) r blk ∧
    decryptBlock (substituteKey w r b key) r blk
      = Spec.Rc5.decryptBytes (Spec.Rc5.expand r b (P w) (Q w) key) r blk := by
  have hc := consts_spec w hw
  have h3 : w % 8 = 0 ∧ 8 ≤ w ∧ w ≤ 2 ^ 32 := by
    simp only [widths, List.mem_cons, List.not_mem_nil, or_false] at hw
    rcases hw with rfl | rfl | rfl | rfl | rfl <;> decide
  obtain ⟨h8, hge, hle⟩ := h3
  subst hb
  have hS := substituteKey_eq_spec h8 hge hle r key
  refine ⟨hc.1, hc.2, hS, ?_, ?_⟩
  · rw [encryptBlock_eq_spec hle, hS]
  · rw [decryptBlock_eq_spec hle, hS]

end BC.Rc5

/-! ### `IsP` is a definition: it determines the number, whatever partial sums of `e` witness it -/
namespace BC.Spec.Rc5

theorem fact_pos (n : Nat) : 0 < fact n := by
  induction n with
  | zero => decide
  | succ n ih => exact Nat.mul_pos (Nat.succ_pos n) ih

theorem eNum_succ (n : Nat) (h : 1 ≤ n) : eNum (n + 1) = (n + 1) * eNum n + 1 := by
  cases n with
  | zero => omega
  | succ n => rfl

theorem fact_succ (n : Nat) : fact (n + 1) = (n + 1) * fact n := rfl

/-- lower bounds increase -/
theorem lower_mono (N k : Nat) (h : 1 ≤ N) : eNum N * fact (N + k) ≤ eNum (N + k) * fact N := by
  induction k with
  | zero => exact Nat.le_refl _
  | succ k ih =>
    have e1 : N + (k + 1) = (N + k) + 1 := by omega
    rw [e1, fact_succ, eNum_succ _ (by omega)]
    calc eNum N * ((N + k + 1) * fact (N + k))
        = (N + k + 1) * (eNum N * fact (N + k)) := by
          rw [Nat.mul_left_comm]
      _ ≤ (N + k + 1) * (eNum (N + k) * fact N) := Nat.mul_le_mul_left _ ih
      _ = ((N + k + 1) * eNum (N + k)) * fact N := by rw [Nat.mul_assoc]
      _ ≤ ((N + k + 1) * eNum (N + k) + 1) * fact N := Nat.mul_le_mul_right _ (Nat.le_succ _)

/-- upper bounds decrease -/
theorem upper_mono (N k : Nat) (h : 1 ≤ N) :
    (eNum (N + k) + 1) * fact N ≤ (eNum N + 1) * fact (N + k) := by
  induction k with
  | zero => exact Nat.le_refl _
  | succ k ih =>
    have e1 : N + (k + 1) = (N + k) + 1 := by omega
    rw [e1, fact_succ, eNum_succ _ (by omega)]
    have h2 : (N + k + 1) * eNum (N + k) + 1 + 1 ≤ (N + k + 1) * (eNum (N + k) + 1) := by
      rw [Nat.mul_add, Nat.mul_one]; omega
    calc ((N + k + 1) * eNum (N + k) + 1 + 1) * fact N
        ≤ ((N + k + 1) * (eNum (N + k) + 1)) * fact N := Nat.mul_le_mul_right _ h2
      _ = (N + k + 1) * ((eNum (N + k) + 1) * fact N) := by rw [Nat.mul_assoc]
      _ ≤ (N + k + 1) * ((eNum N + 1) * fact (N + k)) := Nat.mul_le_mul_left _ ih
      _ = (eNum N + 1) * ((N + k + 1) * fact (N + k)) := by rw [Nat.mul_left_comm]

/-- every lower bound is below every upper bound -/
theorem lower_lt_upper (N M : Nat) (hN : 1 ≤ N) (hM : 1 ≤ M) :
    eNum N * fact M < (eNum M + 1) * fact N := by
  by_cases h : N ≤ M
  · obtain ⟨k, rfl⟩ : ∃ k, M = N + k := ⟨M - N, by omega⟩
    calc eNum N * fact (N + k) ≤ eNum (N + k) * fact N := lower_mono N k hN
      _ < (eNum (N + k) + 1) * fact N := Nat.mul_lt_mul_of_pos_right (Nat.lt_succ_self _) (fact_pos N)
  · obtain ⟨k, rfl⟩ : ∃ k, N = M + k := ⟨N - M, by omega⟩
    calc eNum (M + k) * fact M < (eNum (M + k) + 1) * fact M :=
          Nat.mul_lt_mul_of_pos_right (Nat.lt_succ_self _) (fact_pos M)
      _ ≤ (eNum M + 1) * fact (M + k) := upper_mono M k hM

/-- `IsP` determines the number, whatever partial sums witness it -/
theorem isP_unique (w p p' : Nat) (h : IsP w p) (h' : IsP w p') : p = p' := by
  obtain ⟨ho, N, hN, hl, hu⟩ := h
  obtain ⟨ho', N', hN', hl', hu'⟩ := h'
  have key : ∀ (p p' N N' : Nat), 1 ≤ N → 1 ≤ N' → (p - 1) * fact N ≤ 2 ^ w * eNum N →
      2 ^ w * (eNum N' + 1) ≤ (p' + 1) * fact N' → p - 1 < p' + 1 := by
    intro p p' N N' hN hN' hl hu'
    have h1 : (p - 1) * (fact N * fact N') ≤ 2 ^ w * (eNum N * fact N') := by
      rw [← Nat.mul_assoc, ← Nat.mul_assoc]; exact Nat.mul_le_mul_right _ hl
    have h2 : 2 ^ w * (eNum N * fact N') < 2 ^ w * ((eNum N' + 1) * fact N) :=
      Nat.mul_lt_mul_of_pos_left (lower_lt_upper N N' hN hN') (Nat.two_pow_pos w)
    have h3 : 2 ^ w * ((eNum N' + 1) * fact N) ≤ (p' + 1) * (fact N * fact N') := by
      rw [← Nat.mul_assoc, Nat.mul_comm (fact N) (fact N'), ← Nat.mul_assoc]
      exact Nat.mul_le_mul_right _ hu'
    have h4 := Nat.lt_of_le_of_lt h1 (Nat.lt_of_lt_of_le h2 h3)
    exact Nat.lt_of_mul_lt_mul_right h4
  have a := key p p' N N' hN hN' hl hu'
  have b := key p' p N' N hN' hN hl' hu
  omega
end BC.Spec.Rc5
