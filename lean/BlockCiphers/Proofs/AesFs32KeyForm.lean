import BlockCiphers.Proofs.AesFs32Defs
import BlockCiphers.Proofs.AesFs32Linear
/-!
The form in which the fixsliced code expects round key `r`: packed (`bitslice`), with the `r mod 4`
(normal) / `r mod 2` (compact) postponed ShiftRows undone (`inv_shift_rows_j`) and the four NOTs of the
S-box folded in (`sub_bytes_nots`), exactly what the "Adjust to match fixslicing format" and
"Account for NOTs removed from sub_bytes" blocks of the key schedules produce.
`fsKey`/`unfsKey` are mutually inverse, so EVERY `Nat → St` is of this form for suitable lane keys.
-/
namespace BC.AesFs32

/-- representation `j`: `j mod 4` ShiftRows are still pending on the packed state -/
def repSt (j : Nat) (s : St) : St :=
  if j % 4 = 0 then s
  else if j % 4 = 1 then inv_shift_rows_1 s
  else if j % 4 = 2 then inv_shift_rows_2 s
  else inv_shift_rows_3 s

def unrepSt (j : Nat) (s : St) : St :=
  if j % 4 = 0 then s
  else if j % 4 = 1 then shift_rows_1 s
  else if j % 4 = 2 then shift_rows_2 s
  else shift_rows_3 s

theorem repSt_unrepSt (j : Nat) (s : St) : repSt j (unrepSt j s) = s := by
  unfold repSt unrepSt
  by_cases h0 : j % 4 = 0 <;> by_cases h1 : j % 4 = 1 <;> by_cases h2 : j % 4 = 2 <;>
    simp [h0, h1, h2, inv_shift_rows_1_shift_rows_1, inv_shift_rows_2_shift_rows_2, inv_shift_rows_3_shift_rows_3]

theorem unrepSt_repSt (j : Nat) (s : St) : unrepSt j (repSt j s) = s := by
  unfold repSt unrepSt
  by_cases h0 : j % 4 = 0 <;> by_cases h1 : j % 4 = 1 <;> by_cases h2 : j % 4 = 2 <;>
    simp [h0, h1, h2, shift_rows_1_inv_shift_rows_1, shift_rows_2_inv_shift_rows_2, shift_rows_3_inv_shift_rows_3]

/-- normal code, `nr` rounds: fixsliced form of the round key `r` whose two lanes are `k` -/
def fsKey (nr r : Nat) (k : Batch) : St :=
  if r = 0 then bitsliceB k
  else if r = nr then sub_bytes_nots (bitsliceB k)
  else sub_bytes_nots (repSt r (bitsliceB k))

/-- compact code -/
def fsKeyC (r : Nat) (k : Batch) : St :=
  if r = 0 then bitsliceB k else sub_bytes_nots (repSt (r % 2) (bitsliceB k))

/-- the four lane keys a given fixsliced round key stands for (normal code) -/
def unfsKey (nr r : Nat) (s : St) : Batch :=
  if r = 0 then inv_bitslice s
  else if r = nr then inv_bitslice (sub_bytes_nots s)
  else inv_bitslice (unrepSt r (sub_bytes_nots s))

def unfsKeyC (r : Nat) (s : St) : Batch :=
  if r = 0 then inv_bitslice s else inv_bitslice (unrepSt (r % 2) (sub_bytes_nots s))

theorem bitsliceB_inv_bitslice (s : St) : bitsliceB (inv_bitslice s) = s := bitslice_inv_bitslice s
theorem inv_bitslice_bitsliceB (b : Batch) : inv_bitslice (bitsliceB b) = b := by
  cases b; exact inv_bitslice_bitslice _ _

theorem fsKey_unfsKey (nr r : Nat) (s : St) : fsKey nr r (unfsKey nr r s) = s := by
  unfold fsKey unfsKey
  split
  · exact bitsliceB_inv_bitslice s
  · split
    · rw [bitsliceB_inv_bitslice, sub_bytes_nots_invol]
    · rw [bitsliceB_inv_bitslice, repSt_unrepSt, sub_bytes_nots_invol]

theorem unfsKey_fsKey (nr r : Nat) (k : Batch) : unfsKey nr r (fsKey nr r k) = k := by
  unfold fsKey unfsKey
  split
  · exact inv_bitslice_bitsliceB k
  · split
    · rw [sub_bytes_nots_invol, inv_bitslice_bitsliceB]
    · rw [sub_bytes_nots_invol, unrepSt_repSt, inv_bitslice_bitsliceB]

theorem fsKeyC_unfsKeyC (r : Nat) (s : St) : fsKeyC r (unfsKeyC r s) = s := by
  unfold fsKeyC unfsKeyC
  split
  · exact bitsliceB_inv_bitslice s
  · rw [bitsliceB_inv_bitslice, repSt_unrepSt, sub_bytes_nots_invol]

theorem unfsKeyC_fsKeyC (r : Nat) (k : Batch) : unfsKeyC r (fsKeyC r k) = k := by
  unfold fsKeyC unfsKeyC
  split
  · exact inv_bitslice_bitsliceB k
  · rw [sub_bytes_nots_invol, unrepSt_repSt, inv_bitslice_bitsliceB]

end BC.AesFs32
