import BlockCiphers.Spec.Aes
/-
FIPS-197 §5.2 KeyExpansion (`Spec.Aes.keyExpansion`, an array built by a left fold) characterised by the
recurrence of the standard:

  w[i] = key[i]                              for i < Nk
  w[i] = w[i-Nk] ⊕ temp_i(w[i-1])            for Nk ≤ i < 4(Nr+1)

with `temp_i` = SubWord(RotWord(·)) ⊕ Rcon[i/Nk] when Nk ∣ i, SubWord(·) when Nk > 6 and i mod Nk = 4,
identity otherwise.  Every backend's key schedule is compared with the specification through these two
statements only.
-/
namespace BC.Spec.Aes

/-- the `temp` transformation applied to `w[i-1]` at position `i` -/
def tempf (nk i : Nat) (t : BitVec 32) : BitVec 32 :=
  if i % nk = 0 then subWord (rotWord t) ^^^ rcon (i / nk)
  else if nk > 6 ∧ i % nk = 4 then subWord t
  else t

theorem tempf_pos {nk i : Nat} (t : BitVec 32) (h : i % nk = 0) :
    tempf nk i t = subWord (rotWord t) ^^^ rcon (i / nk) := by
  unfold tempf; rw [if_pos h]

theorem tempf_sub {nk i : Nat} (t : BitVec 32) (h1 : i % nk ≠ 0) (h2 : nk > 6 ∧ i % nk = 4) :
    tempf nk i t = subWord t := by
  unfold tempf; rw [if_neg h1, if_pos h2]

theorem tempf_id {nk i : Nat} (t : BitVec 32) (h1 : i % nk ≠ 0) (h2 : ¬(nk > 6 ∧ i % nk = 4)) :
    tempf nk i t = t := by
  unfold tempf; rw [if_neg h1, if_neg h2]

/-- one step of the fold -/
def kstep (nk : Nat) (w : Array (BitVec 32)) (j : Nat) : Array (BitVec 32) :=
  w.push (w.getD (j + nk - nk) 0 ^^^ tempf nk (j + nk) (w.getD (j + nk - 1) 0))

/-- the array after `m` steps -/
def kpre (nk : Nat) (key : List (BitVec 32)) (m : Nat) : Array (BitVec 32) :=
  (List.range m).foldl (kstep nk) key.toArray

theorem keyExpansion_eq_kpre (nk nr : Nat) (key : List (BitVec 32)) :
    keyExpansion nk nr key = kpre nk key (4 * (nr + 1) - nk) := rfl

theorem kpre_succ (nk : Nat) (key : List (BitVec 32)) (m : Nat) :
    kpre nk key (m + 1) = kstep nk (kpre nk key m) m := by
  simp only [kpre, List.range_succ, List.foldl_append, List.foldl_cons, List.foldl_nil]

theorem kpre_size (nk : Nat) (key : List (BitVec 32)) (m : Nat) : (kpre nk key m).size = key.length + m := by
  induction m with
  | zero => simp [kpre]
  | succ m ih => rw [kpre_succ, kstep, Array.size_push, ih]; omega

theorem getD_push_lt (a : Array (BitVec 32)) (x : BitVec 32) (i : Nat) (h : i < a.size) :
    (a.push x).getD i 0 = a.getD i 0 := by
  simp only [Array.getD_eq_getD_getElem?, Array.getElem?_push]
  have : i ≠ a.size := by omega
  simp [this]

theorem getD_push_eq (a : Array (BitVec 32)) (x : BitVec 32) : (a.push x).getD a.size 0 = x := by
  simp [Array.getD_eq_getD_getElem?]

theorem kpre_stable (nk : Nat) (key : List (BitVec 32)) (m d i : Nat) (h : i < key.length + m) :
    (kpre nk key (m + d)).getD i 0 = (kpre nk key m).getD i 0 := by
  induction d with
  | zero => rfl
  | succ d ih =>
    rw [← Nat.add_assoc, kpre_succ, kstep, getD_push_lt _ _ _ (by rw [kpre_size]; omega), ih]

theorem kpre_new (nk : Nat) (key : List (BitVec 32)) (m : Nat) :
    (kpre nk key (m + 1)).getD (key.length + m) 0 =
      (kpre nk key m).getD (m + nk - nk) 0 ^^^ tempf nk (m + nk) ((kpre nk key m).getD (m + nk - 1) 0) := by
  rw [kpre_succ, kstep]
  have := getD_push_eq (kpre nk key m)
    ((kpre nk key m).getD (m + nk - nk) 0 ^^^ tempf nk (m + nk) ((kpre nk key m).getD (m + nk - 1) 0))
  rw [kpre_size] at this
  exact this

/-- the first `Nk` words are the key -/
theorem keyExpansion_init (nk nr : Nat) (key : List (BitVec 32)) (i : Nat) (hi : i < key.length) :
    (keyExpansion nk nr key).getD i 0 = key.getD i 0 := by
  rw [keyExpansion_eq_kpre]
  have := kpre_stable nk key 0 (4 * (nr + 1) - nk) i (by omega)
  rw [Nat.zero_add] at this
  rw [this]
  simp [kpre, Array.getD_eq_getD_getElem?, List.getD_eq_getElem?_getD]

/-- the FIPS-197 recurrence for every later word -/
theorem keyExpansion_rec (nk nr : Nat) (key : List (BitVec 32)) (hk : key.length = nk) (hnk : 0 < nk)
    (i : Nat) (h1 : nk ≤ i) (h2 : i < 4 * (nr + 1)) :
    (keyExpansion nk nr key).getD i 0 =
      (keyExpansion nk nr key).getD (i - nk) 0 ^^^ tempf nk i ((keyExpansion nk nr key).getD (i - 1) 0) := by
  rw [keyExpansion_eq_kpre]
  -- total number of steps M = (i - nk + 1) + d
  obtain ⟨d, hd⟩ : ∃ d, 4 * (nr + 1) - nk = (i - nk + 1) + d := ⟨4 * (nr + 1) - nk - (i - nk + 1), by omega⟩
  rw [hd]
  rw [kpre_stable nk key (i - nk + 1) d i (by omega)]
  have e1 : (i - nk + 1) + d = (i - nk) + (d + 1) := by omega
  rw [e1, kpre_stable nk key (i - nk) (d + 1) (i - nk) (by omega),
    kpre_stable nk key (i - nk) (d + 1) (i - 1) (by omega)]
  have := kpre_new nk key (i - nk)
  have e2 : key.length + (i - nk) = i := by omega
  have e3 : i - nk + nk = i := by omega
  rw [e2, e3] at this
  rw [this]

end BC.Spec.Aes
