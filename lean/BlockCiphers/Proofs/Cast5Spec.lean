import BlockCiphers.Proofs.Cast5
import BlockCiphers.Spec.Cast5
/-
CAST5: the unrolled rounds of the crate = the looped description of RFC 2144 (round-function type by
round number, 12 / 16 rounds by key size in bits, decryption = reversed round keys).
-/
namespace BC.Cast5

theorem toNat_shr24 (x : BitVec 32) : (x >>> 24).toNat = (x.extractLsb' 24 8).toNat := by
  have : x >>> 24 = (x.extractLsb' 24 8).setWidth 32 := by bv_decide (config := { timeout := 600 })
  rw [this, BitVec.toNat_setWidth, Nat.mod_eq_of_lt (by omega)]
theorem toNat_shr16 (x : BitVec 32) : ((x >>> 16) &&& 0xff#32).toNat = (x.extractLsb' 16 8).toNat := by
  have : (x >>> 16) &&& 0xff#32 = (x.extractLsb' 16 8).setWidth 32 := by bv_decide (config := { timeout := 600 })
  rw [this, BitVec.toNat_setWidth, Nat.mod_eq_of_lt (by omega)]
theorem toNat_shr8 (x : BitVec 32) : ((x >>> 8) &&& 0xff#32).toNat = (x.extractLsb' 8 8).toNat := by
  have : (x >>> 8) &&& 0xff#32 = (x.extractLsb' 8 8).setWidth 32 := by bv_decide (config := { timeout := 600 })
  rw [this, BitVec.toNat_setWidth, Nat.mod_eq_of_lt (by omega)]
theorem toNat_and255 (x : BitVec 32) : (x &&& 0xff#32).toNat = (x.extractLsb' 0 8).toNat := by
  have : x &&& 0xff#32 = (x.extractLsb' 0 8).setWidth 32 := by bv_decide (config := { timeout := 600 })
  rw [this, BitVec.toNat_setWidth, Nat.mod_eq_of_lt (by omega)]

theorem f1_eq (d m : BitVec 32) (r : BitVec 8) : f1 d m r = Spec.f 1 d m r := by
  simp only [f1, Spec.f, Spec.Ibyte, if_true]
  rw [toNat_shr16, toNat_shr8, toNat_and255, toNat_shr24]
theorem f2_eq (d m : BitVec 32) (r : BitVec 8) : f2 d m r = Spec.f 2 d m r := by
  simp only [f2, Spec.f, Spec.Ibyte, if_true, show ¬ ((2 : Nat) = 1) by decide, if_false]
  rw [toNat_shr16, toNat_shr8, toNat_and255, toNat_shr24]
theorem f3_eq (d m : BitVec 32) (r : BitVec 8) : f3 d m r = Spec.f 3 d m r := by
  simp only [f3, Spec.f, Spec.Ibyte, show ¬ ((3 : Nat) = 1) by decide, show ¬ ((3 : Nat) = 2) by decide, if_false]
  rw [toNat_shr16, toNat_shr8, toNat_and255, toNat_shr24]

theorem list12 : List.range' 1 12 = [1, 2, 3, 4, 5, 6, 7, 8, 9, 10, 11, 12] := by decide
theorem list16 : List.range' 1 16 = [1, 2, 3, 4, 5, 6, 7, 8, 9, 10, 11, 12, 13, 14, 15, 16] := by decide

/-- number of rounds the crate runs -/
def nRounds (ks : Keys) : Nat := if ks.small_key then 12 else 16

theorem encrypt_eq_spec (ks : Keys) (b : BitVec 64) : encrypt ks b = Spec.encrypt ks (nRounds ks) b := by
  cases h : ks.small_key <;>
    simp [encrypt, Spec.encrypt, nRounds, h, list12, list16, encRounds, readBlock, writeBlock, Spec.round,
      Spec.ftype, round1, round2, round3, f1_eq, f2_eq, f3_eq]

theorem decrypt_eq_spec (ks : Keys) (b : BitVec 64) : decrypt ks b = Spec.decrypt ks (nRounds ks) b := by
  cases h : ks.small_key <;>
    simp [decrypt, Spec.decrypt, nRounds, h, list12, list16, decRounds, readBlock, writeBlock, Spec.round,
      Spec.ftype, round1, round2, round3, f1_eq, f2_eq, f3_eq]

/-- the round count of the instance built from `key` is the RFC's rule on the key size in bits -/
theorem nRounds_new (key : Bytes) (ks : Keys) (h : new key = some ks) :
    nRounds ks = Spec.rounds (8 * key.length) := by
  rw [nRounds, new_small_key key ks h, Spec.rounds]
  by_cases hl : key.length ≤ 10
  · have : 8 * key.length ≤ 80 := by omega
    simp [hl, this]
  · have : ¬ 8 * key.length ≤ 80 := by omega
    simp [hl, this]

/-- C09: for every accepted key, `encrypt_block` / `decrypt_block` are RFC 2144's algorithm with the
round count of §2.5 -/
theorem encrypt_new_eq_spec (key : Bytes) (ks : Keys) (h : new key = some ks) (b : BitVec 64) :
    encrypt ks b = Spec.encrypt ks (Spec.rounds (8 * key.length)) b := by
  rw [← nRounds_new key ks h, encrypt_eq_spec]

theorem decrypt_new_eq_spec (key : Bytes) (ks : Keys) (h : new key = some ks) (b : BitVec 64) :
    decrypt ks b = Spec.decrypt ks (Spec.rounds (8 * key.length)) b := by
  rw [← nRounds_new key ks h, decrypt_eq_spec]

end BC.Cast5
