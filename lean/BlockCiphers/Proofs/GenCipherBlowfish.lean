import Lean
import BlockCiphers.Gen.Cipher_Blowfish
import BlockCiphers.Impl.Blowfish
import Std.Tactic.BVDecide
/-
Tie of the regenerated functions of the `blowfish` crate (`Gen/Cipher_Blowfish.lean`: `Blowfish::round_function`, the inherent
`encrypt` / `decrypt` on `[u32; 2]`, `bc_encrypt` (bcrypt feature), and `encrypt_block` / `decrypt_block` of `Blowfish<BE>` and
`Blowfish<LE>`) to the model `Impl/Blowfish.lean`, for ALL states — the 18 words of `self.p` as explicit arguments, the four
S-boxes `self.s : [[u32; 256]; 4]` as ONE `Array (BitVec 32)` in memory order (the convention of the model's `State.s`) —
and ALL blocks.  Nothing is bit-blasted except the byte loads/stores: the rounds are ARX with data-dependent table reads.

 * `rfg` is the text of the inlined `round_function`; `rfg_eq`: it is the model's `round_function` (index normalisation only);
 * `stepG` is one pass of the loop body in the shape of the generated text; `encRound_i` / `decRound_i`: the model's loop body
   for the literal `i` is `stepG` with the literal `p` words;
 * `*_unrolled`: the generated definitions ARE the eight nested `stepG` (by `rfl`: unfolding of `let`s only).
Produced by `tools/gen_blowfish_tie.py`.
-/
namespace BC.GenCipher.Blowfish
open BC.Gen.Fn BC.Blowfish
set_option maxRecDepth 100000

open Lean Elab Tactic Meta in
/-- make the (hygienic) names of the local `let` variables introduced by `extract_lets` accessible -/
elab "name_lets" : tactic => do
  liftMetaTactic fun g => g.withContext do
    let mut lctx ← getLCtx
    for d in lctx do
      if d.isLet then lctx := lctx.setUserName d.fvarId d.userName.eraseMacroScopes
    let g' ← mkFreshExprMVarAt lctx (← getLocalInstances) (← g.getType) .syntheticOpaque (← g.getTag)
    g.assign g'
    return [g'.mvarId!]

/-- the state `Blowfish { s, p }` with explicit `p` words -/
def mkSt (s : Array (BitVec 32)) (p0 p1 p2 p3 p4 p5 p6 p7 p8 p9 p10 p11 p12 p13 p14 p15 p16 p17 : BitVec 32) : State := { p := #[p0, p1, p2, p3, p4, p5, p6, p7, p8, p9, p10, p11, p12, p13, p14, p15, p16, p17], s := s }

/-- `x as usize` of a `u32` -/
theorem idx (x : BitVec 32) : (x.setWidth 64).toNat = x.toNat := by
  rw [BitVec.toNat_setWidth]; have := x.isLt; omega

/-- the inlined `round_function` of the generated text -/
def rfg (s : Array (BitVec 32)) (x : BitVec 32) : BitVec 32 :=
  let a := s[((x >>> 24).setWidth 64).toNat]!
  let b := s[256 + (((x >>> 16) &&& 0xff#32).setWidth 64).toNat]!
  let c := s[512 + (((x >>> 8) &&& 0xff#32).setWidth 64).toNat]!
  let d := s[768 + ((x &&& 0xff#32).setWidth 64).toNat]!
  ((a + b) ^^^ c) + d

theorem rfg_eq (st : State) (x : BitVec 32) : rfg st.s x = round_function st x := by
  simp only [rfg, round_function, sIdx, idx, Nat.mul_zero, Nat.zero_add, Nat.mul_one]

/-- `blowfish_round_function` (regenerated `Blowfish::round_function`) is the model's `round_function`, for all states and words -/
theorem blowfish_round_function_eq (s : Array (BitVec 32)) (p0 p1 p2 p3 p4 p5 p6 p7 p8 p9 p10 p11 p12 p13 p14 p15 p16 p17 : BitVec 32) (x : BitVec 32) :
    blowfish_round_function s p0 p1 p2 p3 p4 p5 p6 p7 p8 p9 p10 p11 p12 p13 p14 p15 p16 p17 x = round_function (mkSt s p0 p1 p2 p3 p4 p5 p6 p7 p8 p9 p10 p11 p12 p13 p14 p15 p16 p17) x :=
  rfg_eq (mkSt s p0 p1 p2 p3 p4 p5 p6 p7 p8 p9 p10 p11 p12 p13 p14 p15 p16 p17) x

/-- one pass of the loop body of `encrypt` / `decrypt`, in the shape of the generated text -/
def stepG (s : Array (BitVec 32)) (pa pb : BitVec 32) (x : LR) : LR :=
  let l := x.l ^^^ pa
  let r := x.r ^^^ rfg s l
  let r := r ^^^ pb
  let l := l ^^^ rfg s r
  { l := l, r := r }

theorem encRound_0 (s : Array (BitVec 32)) (p0 p1 p2 p3 p4 p5 p6 p7 p8 p9 p10 p11 p12 p13 p14 p15 p16 p17 : BitVec 32) (x : LR) : encRound (mkSt s p0 p1 p2 p3 p4 p5 p6 p7 p8 p9 p10 p11 p12 p13 p14 p15 p16 p17) x 0 = stepG s p0 p1 x := by
  simp only [encRound, stepG, ← rfg_eq]; rfl
theorem encRound_1 (s : Array (BitVec 32)) (p0 p1 p2 p3 p4 p5 p6 p7 p8 p9 p10 p11 p12 p13 p14 p15 p16 p17 : BitVec 32) (x : LR) : encRound (mkSt s p0 p1 p2 p3 p4 p5 p6 p7 p8 p9 p10 p11 p12 p13 p14 p15 p16 p17) x 1 = stepG s p2 p3 x := by
  simp only [encRound, stepG, ← rfg_eq]; rfl
theorem encRound_2 (s : Array (BitVec 32)) (p0 p1 p2 p3 p4 p5 p6 p7 p8 p9 p10 p11 p12 p13 p14 p15 p16 p17 : BitVec 32) (x : LR) : encRound (mkSt s p0 p1 p2 p3 p4 p5 p6 p7 p8 p9 p10 p11 p12 p13 p14 p15 p16 p17) x 2 = stepG s p4 p5 x := by
  simp only [encRound, stepG, ← rfg_eq]; rfl
theorem encRound_3 (s : Array (BitVec 32)) (p0 p1 p2 p3 p4 p5 p6 p7 p8 p9 p10 p11 p12 p13 p14 p15 p16 p17 : BitVec 32) (x : LR) : encRound (mkSt s p0 p1 p2 p3 p4 p5 p6 p7 p8 p9 p10 p11 p12 p13 p14 p15 p16 p17) x 3 = stepG s p6 p7 x := by
  simp only [encRound, stepG, ← rfg_eq]; rfl
theorem encRound_4 (s : Array (BitVec 32)) (p0 p1 p2 p3 p4 p5 p6 p7 p8 p9 p10 p11 p12 p13 p14 p15 p16 p17 : BitVec 32) (x : LR) : encRound (mkSt s p0 p1 p2 p3 p4 p5 p6 p7 p8 p9 p10 p11 p12 p13 p14 p15 p16 p17) x 4 = stepG s p8 p9 x := by
  simp only [encRound, stepG, ← rfg_eq]; rfl
theorem encRound_5 (s : Array (BitVec 32)) (p0 p1 p2 p3 p4 p5 p6 p7 p8 p9 p10 p11 p12 p13 p14 p15 p16 p17 : BitVec 32) (x : LR) : encRound (mkSt s p0 p1 p2 p3 p4 p5 p6 p7 p8 p9 p10 p11 p12 p13 p14 p15 p16 p17) x 5 = stepG s p10 p11 x := by
  simp only [encRound, stepG, ← rfg_eq]; rfl
theorem encRound_6 (s : Array (BitVec 32)) (p0 p1 p2 p3 p4 p5 p6 p7 p8 p9 p10 p11 p12 p13 p14 p15 p16 p17 : BitVec 32) (x : LR) : encRound (mkSt s p0 p1 p2 p3 p4 p5 p6 p7 p8 p9 p10 p11 p12 p13 p14 p15 p16 p17) x 6 = stepG s p12 p13 x := by
  simp only [encRound, stepG, ← rfg_eq]; rfl
theorem encRound_7 (s : Array (BitVec 32)) (p0 p1 p2 p3 p4 p5 p6 p7 p8 p9 p10 p11 p12 p13 p14 p15 p16 p17 : BitVec 32) (x : LR) : encRound (mkSt s p0 p1 p2 p3 p4 p5 p6 p7 p8 p9 p10 p11 p12 p13 p14 p15 p16 p17) x 7 = stepG s p14 p15 x := by
  simp only [encRound, stepG, ← rfg_eq]; rfl
theorem decRound_1 (s : Array (BitVec 32)) (p0 p1 p2 p3 p4 p5 p6 p7 p8 p9 p10 p11 p12 p13 p14 p15 p16 p17 : BitVec 32) (x : LR) : decRound (mkSt s p0 p1 p2 p3 p4 p5 p6 p7 p8 p9 p10 p11 p12 p13 p14 p15 p16 p17) x 1 = stepG s p3 p2 x := by
  simp only [decRound, stepG, ← rfg_eq]; rfl
theorem decRound_2 (s : Array (BitVec 32)) (p0 p1 p2 p3 p4 p5 p6 p7 p8 p9 p10 p11 p12 p13 p14 p15 p16 p17 : BitVec 32) (x : LR) : decRound (mkSt s p0 p1 p2 p3 p4 p5 p6 p7 p8 p9 p10 p11 p12 p13 p14 p15 p16 p17) x 2 = stepG s p5 p4 x := by
  simp only [decRound, stepG, ← rfg_eq]; rfl
theorem decRound_3 (s : Array (BitVec 32)) (p0 p1 p2 p3 p4 p5 p6 p7 p8 p9 p10 p11 p12 p13 p14 p15 p16 p17 : BitVec 32) (x : LR) : decRound (mkSt s p0 p1 p2 p3 p4 p5 p6 p7 p8 p9 p10 p11 p12 p13 p14 p15 p16 p17) x 3 = stepG s p7 p6 x := by
  simp only [decRound, stepG, ← rfg_eq]; rfl
theorem decRound_4 (s : Array (BitVec 32)) (p0 p1 p2 p3 p4 p5 p6 p7 p8 p9 p10 p11 p12 p13 p14 p15 p16 p17 : BitVec 32) (x : LR) : decRound (mkSt s p0 p1 p2 p3 p4 p5 p6 p7 p8 p9 p10 p11 p12 p13 p14 p15 p16 p17) x 4 = stepG s p9 p8 x := by
  simp only [decRound, stepG, ← rfg_eq]; rfl
theorem decRound_5 (s : Array (BitVec 32)) (p0 p1 p2 p3 p4 p5 p6 p7 p8 p9 p10 p11 p12 p13 p14 p15 p16 p17 : BitVec 32) (x : LR) : decRound (mkSt s p0 p1 p2 p3 p4 p5 p6 p7 p8 p9 p10 p11 p12 p13 p14 p15 p16 p17) x 5 = stepG s p11 p10 x := by
  simp only [decRound, stepG, ← rfg_eq]; rfl
theorem decRound_6 (s : Array (BitVec 32)) (p0 p1 p2 p3 p4 p5 p6 p7 p8 p9 p10 p11 p12 p13 p14 p15 p16 p17 : BitVec 32) (x : LR) : decRound (mkSt s p0 p1 p2 p3 p4 p5 p6 p7 p8 p9 p10 p11 p12 p13 p14 p15 p16 p17) x 6 = stepG s p13 p12 x := by
  simp only [decRound, stepG, ← rfg_eq]; rfl
theorem decRound_7 (s : Array (BitVec 32)) (p0 p1 p2 p3 p4 p5 p6 p7 p8 p9 p10 p11 p12 p13 p14 p15 p16 p17 : BitVec 32) (x : LR) : decRound (mkSt s p0 p1 p2 p3 p4 p5 p6 p7 p8 p9 p10 p11 p12 p13 p14 p15 p16 p17) x 7 = stepG s p15 p14 x := by
  simp only [decRound, stepG, ← rfg_eq]; rfl
theorem decRound_8 (s : Array (BitVec 32)) (p0 p1 p2 p3 p4 p5 p6 p7 p8 p9 p10 p11 p12 p13 p14 p15 p16 p17 : BitVec 32) (x : LR) : decRound (mkSt s p0 p1 p2 p3 p4 p5 p6 p7 p8 p9 p10 p11 p12 p13 p14 p15 p16 p17) x 8 = stepG s p17 p16 x := by
  simp only [decRound, stepG, ← rfg_eq]; rfl

theorem encrypt_unrolled (s : Array (BitVec 32)) (p0 p1 p2 p3 p4 p5 p6 p7 p8 p9 p10 p11 p12 p13 p14 p15 p16 p17 : BitVec 32) (x : LR) : encrypt (mkSt s p0 p1 p2 p3 p4 p5 p6 p7 p8 p9 p10 p11 p12 p13 p14 p15 p16 p17) x =
    (let y := stepG s p14 p15 (stepG s p12 p13 (stepG s p10 p11 (stepG s p8 p9 (stepG s p6 p7 (stepG s p4 p5 (stepG s p2 p3 (stepG s p0 p1 (x))))))))
     { l := y.r ^^^ p17, r := y.l ^^^ p16 }) := by
  simp only [encrypt, List.range, List.range.loop, List.foldl, encRound_0, encRound_1, encRound_2, encRound_3, encRound_4, encRound_5, encRound_6, encRound_7]
  rfl

theorem decrypt_unrolled (s : Array (BitVec 32)) (p0 p1 p2 p3 p4 p5 p6 p7 p8 p9 p10 p11 p12 p13 p14 p15 p16 p17 : BitVec 32) (x : LR) : decrypt (mkSt s p0 p1 p2 p3 p4 p5 p6 p7 p8 p9 p10 p11 p12 p13 p14 p15 p16 p17) x =
    (let y := stepG s p3 p2 (stepG s p5 p4 (stepG s p7 p6 (stepG s p9 p8 (stepG s p11 p10 (stepG s p13 p12 (stepG s p15 p14 (stepG s p17 p16 (x))))))))
     { l := y.r ^^^ p0, r := y.l ^^^ p1 }) := by
  have h : (List.range' 1 8).reverse = [8, 7, 6, 5, 4, 3, 2, 1] := by decide
  simp only [decrypt, h, List.foldl, decRound_1, decRound_2, decRound_3, decRound_4, decRound_5, decRound_6, decRound_7, decRound_8]
  rfl

theorem gen_encrypt_unrolled (s : Array (BitVec 32)) (p0 p1 p2 p3 p4 p5 p6 p7 p8 p9 p10 p11 p12 p13 p14 p15 p16 p17 : BitVec 32) (l0 r0 : BitVec 32) : blowfish_encrypt s p0 p1 p2 p3 p4 p5 p6 p7 p8 p9 p10 p11 p12 p13 p14 p15 p16 p17 l0 r0 =
    (fun y : LR => (y.r ^^^ p17, y.l ^^^ p16)) (stepG s p14 p15 (stepG s p12 p13 (stepG s p10 p11 (stepG s p8 p9 (stepG s p6 p7 (stepG s p4 p5 (stepG s p2 p3 (stepG s p0 p1 ⟨l0, r0⟩)))))))) := by
  unfold blowfish_encrypt
  extract_lets -merge
  name_lets
  have h0 : stepG s p0 p1 ⟨l0, r0⟩ = ⟨l_1, r_1⟩ := rfl
  have h1 : stepG s p2 p3 ⟨l_1, r_1⟩ = ⟨l_3, r_3⟩ := rfl
  have h2 : stepG s p4 p5 ⟨l_3, r_3⟩ = ⟨l_5, r_5⟩ := rfl
  have h3 : stepG s p6 p7 ⟨l_5, r_5⟩ = ⟨l_7, r_7⟩ := rfl
  have h4 : stepG s p8 p9 ⟨l_7, r_7⟩ = ⟨l_9, r_9⟩ := rfl
  have h5 : stepG s p10 p11 ⟨l_9, r_9⟩ = ⟨l_11, r_11⟩ := rfl
  have h6 : stepG s p12 p13 ⟨l_11, r_11⟩ = ⟨l_13, r_13⟩ := rfl
  have h7 : stepG s p14 p15 ⟨l_13, r_13⟩ = ⟨l_15, r_15⟩ := rfl
  rw [h0, h1, h2, h3, h4, h5, h6, h7]
  all_goals rfl


theorem gen_decrypt_unrolled (s : Array (BitVec 32)) (p0 p1 p2 p3 p4 p5 p6 p7 p8 p9 p10 p11 p12 p13 p14 p15 p16 p17 : BitVec 32) (l0 r0 : BitVec 32) : blowfish_decrypt s p0 p1 p2 p3 p4 p5 p6 p7 p8 p9 p10 p11 p12 p13 p14 p15 p16 p17 l0 r0 =
    (fun y : LR => (y.r ^^^ p0, y.l ^^^ p1)) (stepG s p3 p2 (stepG s p5 p4 (stepG s p7 p6 (stepG s p9 p8 (stepG s p11 p10 (stepG s p13 p12 (stepG s p15 p14 (stepG s p17 p16 ⟨l0, r0⟩)))))))) := by
  unfold blowfish_decrypt
  extract_lets -merge
  name_lets
  have h0 : stepG s p17 p16 ⟨l0, r0⟩ = ⟨l_1, r_1⟩ := rfl
  have h1 : stepG s p15 p14 ⟨l_1, r_1⟩ = ⟨l_3, r_3⟩ := rfl
  have h2 : stepG s p13 p12 ⟨l_3, r_3⟩ = ⟨l_5, r_5⟩ := rfl
  have h3 : stepG s p11 p10 ⟨l_5, r_5⟩ = ⟨l_7, r_7⟩ := rfl
  have h4 : stepG s p9 p8 ⟨l_7, r_7⟩ = ⟨l_9, r_9⟩ := rfl
  have h5 : stepG s p7 p6 ⟨l_9, r_9⟩ = ⟨l_11, r_11⟩ := rfl
  have h6 : stepG s p5 p4 ⟨l_11, r_11⟩ = ⟨l_13, r_13⟩ := rfl
  have h7 : stepG s p3 p2 ⟨l_13, r_13⟩ = ⟨l_15, r_15⟩ := rfl
  rw [h0, h1, h2, h3, h4, h5, h6, h7]
  all_goals rfl


/-- `blowfish_encrypt` (regenerated inherent `Blowfish::encrypt` on `[u32; 2]`) is the model's `encrypt`, for all states and inputs -/
theorem blowfish_encrypt_eq (s : Array (BitVec 32)) (p0 p1 p2 p3 p4 p5 p6 p7 p8 p9 p10 p11 p12 p13 p14 p15 p16 p17 : BitVec 32) (l r : BitVec 32) :
    blowfish_encrypt s p0 p1 p2 p3 p4 p5 p6 p7 p8 p9 p10 p11 p12 p13 p14 p15 p16 p17 l r =
      ((encrypt (mkSt s p0 p1 p2 p3 p4 p5 p6 p7 p8 p9 p10 p11 p12 p13 p14 p15 p16 p17) { l := l, r := r }).l, (encrypt (mkSt s p0 p1 p2 p3 p4 p5 p6 p7 p8 p9 p10 p11 p12 p13 p14 p15 p16 p17) { l := l, r := r }).r) := by
  rw [gen_encrypt_unrolled, encrypt_unrolled]

/-- `blowfish_decrypt` (regenerated inherent `Blowfish::decrypt`) is the model's `decrypt` -/
theorem blowfish_decrypt_eq (s : Array (BitVec 32)) (p0 p1 p2 p3 p4 p5 p6 p7 p8 p9 p10 p11 p12 p13 p14 p15 p16 p17 : BitVec 32) (l r : BitVec 32) :
    blowfish_decrypt s p0 p1 p2 p3 p4 p5 p6 p7 p8 p9 p10 p11 p12 p13 p14 p15 p16 p17 l r =
      ((decrypt (mkSt s p0 p1 p2 p3 p4 p5 p6 p7 p8 p9 p10 p11 p12 p13 p14 p15 p16 p17) { l := l, r := r }).l, (decrypt (mkSt s p0 p1 p2 p3 p4 p5 p6 p7 p8 p9 p10 p11 p12 p13 p14 p15 p16 p17) { l := l, r := r }).r) := by
  rw [gen_decrypt_unrolled, decrypt_unrolled]

/-- `blowfish_bc_encrypt` (regenerated `Blowfish::<BE>::bc_encrypt`, bcrypt feature) is the model's `bc_encrypt` -/
theorem blowfish_bc_encrypt_eq (s : Array (BitVec 32)) (p0 p1 p2 p3 p4 p5 p6 p7 p8 p9 p10 p11 p12 p13 p14 p15 p16 p17 : BitVec 32) (l r : BitVec 32) :
    blowfish_bc_encrypt s p0 p1 p2 p3 p4 p5 p6 p7 p8 p9 p10 p11 p12 p13 p14 p15 p16 p17 l r =
      ((bc_encrypt (mkSt s p0 p1 p2 p3 p4 p5 p6 p7 p8 p9 p10 p11 p12 p13 p14 p15 p16 p17) { l := l, r := r }).l, (bc_encrypt (mkSt s p0 p1 p2 p3 p4 p5 p6 p7 p8 p9 p10 p11 p12 p13 p14 p15 p16 p17) { l := l, r := r }).r) :=
  blowfish_encrypt_eq s p0 p1 p2 p3 p4 p5 p6 p7 p8 p9 p10 p11 p12 p13 p14 p15 p16 p17 l r

/-! ### block interface -/

def hi4 (b : BitVec 64) : BitVec 32 :=
  (b.extractLsb' 56 8) ++ (b.extractLsb' 48 8) ++ (b.extractLsb' 40 8) ++ (b.extractLsb' 32 8)
def lo4 (b : BitVec 64) : BitVec 32 :=
  (b.extractLsb' 24 8) ++ (b.extractLsb' 16 8) ++ (b.extractLsb' 8 8) ++ (b.extractLsb' 0 8)
def hi4le (b : BitVec 64) : BitVec 32 :=
  (b.extractLsb' 32 8) ++ (b.extractLsb' 40 8) ++ (b.extractLsb' 48 8) ++ (b.extractLsb' 56 8)
def lo4le (b : BitVec 64) : BitVec 32 :=
  (b.extractLsb' 0 8) ++ (b.extractLsb' 8 8) ++ (b.extractLsb' 16 8) ++ (b.extractLsb' 24 8)

theorem read_be (b : BitVec 64) : readBlock .BE b = { l := hi4 b, r := lo4 b } := by
  simp only [readBlock, wordIO, hi4, lo4, LR.mk.injEq]
  constructor <;> bv_decide
theorem read_le (b : BitVec 64) : readBlock .LE b = { l := hi4le b, r := lo4le b } := by
  simp only [readBlock, wordIO, bswap32, hi4le, lo4le, LR.mk.injEq]
  constructor <;> bv_decide
theorem write_be (x : LR) : writeBlock .BE x =
    (x.l.extractLsb' 24 8) ++ (x.l.extractLsb' 16 8) ++ (x.l.extractLsb' 8 8) ++ (x.l.extractLsb' 0 8) ++
      (x.r.extractLsb' 24 8) ++ (x.r.extractLsb' 16 8) ++ (x.r.extractLsb' 8 8) ++ (x.r.extractLsb' 0 8) := by
  simp only [writeBlock, wordIO]
  bv_decide
theorem write_le (x : LR) : writeBlock .LE x =
    (x.l.extractLsb' 0 8) ++ (x.l.extractLsb' 8 8) ++ (x.l.extractLsb' 16 8) ++ (x.l.extractLsb' 24 8) ++
      (x.r.extractLsb' 0 8) ++ (x.r.extractLsb' 8 8) ++ (x.r.extractLsb' 16 8) ++ (x.r.extractLsb' 24 8) := by
  simp only [writeBlock, wordIO, bswap32]
  bv_decide

theorem gen_be_encrypt_block_unrolled (s : Array (BitVec 32)) (p0 p1 p2 p3 p4 p5 p6 p7 p8 p9 p10 p11 p12 p13 p14 p15 p16 p17 : BitVec 32) (block : BitVec 64) : blowfish_be_encrypt_block s p0 p1 p2 p3 p4 p5 p6 p7 p8 p9 p10 p11 p12 p13 p14 p15 p16 p17 block =
    (fun y : LR => (fun z : LR => (z.l.extractLsb' 24 8) ++ (z.l.extractLsb' 16 8) ++ (z.l.extractLsb' 8 8) ++ (z.l.extractLsb' 0 8) ++ (z.r.extractLsb' 24 8) ++ (z.r.extractLsb' 16 8) ++ (z.r.extractLsb' 8 8) ++ (z.r.extractLsb' 0 8)) { l := y.r ^^^ p17, r := y.l ^^^ p16 })
      (stepG s p14 p15 (stepG s p12 p13 (stepG s p10 p11 (stepG s p8 p9 (stepG s p6 p7 (stepG s p4 p5 (stepG s p2 p3 (stepG s p0 p1 ⟨hi4 block, lo4 block⟩)))))))) := by
  unfold blowfish_be_encrypt_block
  extract_lets -merge
  name_lets
  have h0 : stepG s p0 p1 ⟨hi4 block, lo4 block⟩ = ⟨l_2, r_2⟩ := rfl
  have h1 : stepG s p2 p3 ⟨l_2, r_2⟩ = ⟨l_4, r_4⟩ := rfl
  have h2 : stepG s p4 p5 ⟨l_4, r_4⟩ = ⟨l_6, r_6⟩ := rfl
  have h3 : stepG s p6 p7 ⟨l_6, r_6⟩ = ⟨l_8, r_8⟩ := rfl
  have h4 : stepG s p8 p9 ⟨l_8, r_8⟩ = ⟨l_10, r_10⟩ := rfl
  have h5 : stepG s p10 p11 ⟨l_10, r_10⟩ = ⟨l_12, r_12⟩ := rfl
  have h6 : stepG s p12 p13 ⟨l_12, r_12⟩ = ⟨l_14, r_14⟩ := rfl
  have h7 : stepG s p14 p15 ⟨l_14, r_14⟩ = ⟨l_16, r_16⟩ := rfl
  rw [h0, h1, h2, h3, h4, h5, h6, h7]
  all_goals rfl


/-- `blowfish_be_encrypt_block` (regenerated `Blowfish<BE>::encrypt_block`) is the model's `encryptBlock .BE`, for all states and blocks -/
theorem blowfish_be_encrypt_block_eq (s : Array (BitVec 32)) (p0 p1 p2 p3 p4 p5 p6 p7 p8 p9 p10 p11 p12 p13 p14 p15 p16 p17 : BitVec 32) (block : BitVec 64) :
    blowfish_be_encrypt_block s p0 p1 p2 p3 p4 p5 p6 p7 p8 p9 p10 p11 p12 p13 p14 p15 p16 p17 block = encryptBlock .BE (mkSt s p0 p1 p2 p3 p4 p5 p6 p7 p8 p9 p10 p11 p12 p13 p14 p15 p16 p17) block := by
  rw [gen_be_encrypt_block_unrolled, encryptBlock, read_be, encrypt_unrolled, write_be]

theorem gen_be_decrypt_block_unrolled (s : Array (BitVec 32)) (p0 p1 p2 p3 p4 p5 p6 p7 p8 p9 p10 p11 p12 p13 p14 p15 p16 p17 : BitVec 32) (block : BitVec 64) : blowfish_be_decrypt_block s p0 p1 p2 p3 p4 p5 p6 p7 p8 p9 p10 p11 p12 p13 p14 p15 p16 p17 block =
    (fun y : LR => (fun z : LR => (z.l.extractLsb' 24 8) ++ (z.l.extractLsb' 16 8) ++ (z.l.extractLsb' 8 8) ++ (z.l.extractLsb' 0 8) ++ (z.r.extractLsb' 24 8) ++ (z.r.extractLsb' 16 8) ++ (z.r.extractLsb' 8 8) ++ (z.r.extractLsb' 0 8)) { l := y.r ^^^ p0, r := y.l ^^^ p1 })
      (stepG s p3 p2 (stepG s p5 p4 (stepG s p7 p6 (stepG s p9 p8 (stepG s p11 p10 (stepG s p13 p12 (stepG s p15 p14 (stepG s p17 p16 ⟨hi4 block, lo4 block⟩)))))))) := by
  unfold blowfish_be_decrypt_block
  extract_lets -merge
  name_lets
  have h0 : stepG s p17 p16 ⟨hi4 block, lo4 block⟩ = ⟨l_2, r_2⟩ := rfl
  have h1 : stepG s p15 p14 ⟨l_2, r_2⟩ = ⟨l_4, r_4⟩ := rfl
  have h2 : stepG s p13 p12 ⟨l_4, r_4⟩ = ⟨l_6, r_6⟩ := rfl
  have h3 : stepG s p11 p10 ⟨l_6, r_6⟩ = ⟨l_8, r_8⟩ := rfl
  have h4 : stepG s p9 p8 ⟨l_8, r_8⟩ = ⟨l_10, r_10⟩ := rfl
  have h5 : stepG s p7 p6 ⟨l_10, r_10⟩ = ⟨l_12, r_12⟩ := rfl
  have h6 : stepG s p5 p4 ⟨l_12, r_12⟩ = ⟨l_14, r_14⟩ := rfl
  have h7 : stepG s p3 p2 ⟨l_14, r_14⟩ = ⟨l_16, r_16⟩ := rfl
  rw [h0, h1, h2, h3, h4, h5, h6, h7]
  all_goals rfl


/-- `blowfish_be_decrypt_block` (regenerated `Blowfish<BE>::decrypt_block`) is the model's `decryptBlock .BE`, for all states and blocks -/
theorem blowfish_be_decrypt_block_eq (s : Array (BitVec 32)) (p0 p1 p2 p3 p4 p5 p6 p7 p8 p9 p10 p11 p12 p13 p14 p15 p16 p17 : BitVec 32) (block : BitVec 64) :
    blowfish_be_decrypt_block s p0 p1 p2 p3 p4 p5 p6 p7 p8 p9 p10 p11 p12 p13 p14 p15 p16 p17 block = decryptBlock .BE (mkSt s p0 p1 p2 p3 p4 p5 p6 p7 p8 p9 p10 p11 p12 p13 p14 p15 p16 p17) block := by
  rw [gen_be_decrypt_block_unrolled, decryptBlock, read_be, decrypt_unrolled, write_be]

theorem gen_le_encrypt_block_unrolled (s : Array (BitVec 32)) (p0 p1 p2 p3 p4 p5 p6 p7 p8 p9 p10 p11 p12 p13 p14 p15 p16 p17 : BitVec 32) (block : BitVec 64) : blowfish_le_encrypt_block s p0 p1 p2 p3 p4 p5 p6 p7 p8 p9 p10 p11 p12 p13 p14 p15 p16 p17 block =
    (fun y : LR => (fun z : LR => (z.l.extractLsb' 0 8) ++ (z.l.extractLsb' 8 8) ++ (z.l.extractLsb' 16 8) ++ (z.l.extractLsb' 24 8) ++ (z.r.extractLsb' 0 8) ++ (z.r.extractLsb' 8 8) ++ (z.r.extractLsb' 16 8) ++ (z.r.extractLsb' 24 8)) { l := y.r ^^^ p17, r := y.l ^^^ p16 })
      (stepG s p14 p15 (stepG s p12 p13 (stepG s p10 p11 (stepG s p8 p9 (stepG s p6 p7 (stepG s p4 p5 (stepG s p2 p3 (stepG s p0 p1 ⟨hi4le block, lo4le block⟩)))))))) := by
  unfold blowfish_le_encrypt_block
  extract_lets -merge
  name_lets
  have h0 : stepG s p0 p1 ⟨hi4le block, lo4le block⟩ = ⟨l_2, r_2⟩ := rfl
  have h1 : stepG s p2 p3 ⟨l_2, r_2⟩ = ⟨l_4, r_4⟩ := rfl
  have h2 : stepG s p4 p5 ⟨l_4, r_4⟩ = ⟨l_6, r_6⟩ := rfl
  have h3 : stepG s p6 p7 ⟨l_6, r_6⟩ = ⟨l_8, r_8⟩ := rfl
  have h4 : stepG s p8 p9 ⟨l_8, r_8⟩ = ⟨l_10, r_10⟩ := rfl
  have h5 : stepG s p10 p11 ⟨l_10, r_10⟩ = ⟨l_12, r_12⟩ := rfl
  have h6 : stepG s p12 p13 ⟨l_12, r_12⟩ = ⟨l_14, r_14⟩ := rfl
  have h7 : stepG s p14 p15 ⟨l_14, r_14⟩ = ⟨l_16, r_16⟩ := rfl
  rw [h0, h1, h2, h3, h4, h5, h6, h7]
  all_goals rfl


/-- `blowfish_le_encrypt_block` (regenerated `Blowfish<LE>::encrypt_block`) is the model's `encryptBlock .LE`, for all states and blocks -/
theorem blowfish_le_encrypt_block_eq (s : Array (BitVec 32)) (p0 p1 p2 p3 p4 p5 p6 p7 p8 p9 p10 p11 p12 p13 p14 p15 p16 p17 : BitVec 32) (block : BitVec 64) :
    blowfish_le_encrypt_block s p0 p1 p2 p3 p4 p5 p6 p7 p8 p9 p10 p11 p12 p13 p14 p15 p16 p17 block = encryptBlock .LE (mkSt s p0 p1 p2 p3 p4 p5 p6 p7 p8 p9 p10 p11 p12 p13 p14 p15 p16 p17) block := by
  rw [gen_le_encrypt_block_unrolled, encryptBlock, read_le, encrypt_unrolled, write_le]

theorem gen_le_decrypt_block_unrolled (s : Array (BitVec 32)) (p0 p1 p2 p3 p4 p5 p6 p7 p8 p9 p10 p11 p12 p13 p14 p15 p16 p17 : BitVec 32) (block : BitVec 64) : blowfish_le_decrypt_block s p0 p1 p2 p3 p4 p5 p6 p7 p8 p9 p10 p11 p12 p13 p14 p15 p16 p17 block =
    (fun y : LR => (fun z : LR => (z.l.extractLsb' 0 8) ++ (z.l.extractLsb' 8 8) ++ (z.l.extractLsb' 16 8) ++ (z.l.extractLsb' 24 8) ++ (z.r.extractLsb' 0 8) ++ (z.r.extractLsb' 8 8) ++ (z.r.extractLsb' 16 8) ++ (z.r.extractLsb' 24 8)) { l := y.r ^^^ p0, r := y.l ^^^ p1 })
      (stepG s p3 p2 (stepG s p5 p4 (stepG s p7 p6 (stepG s p9 p8 (stepG s p11 p10 (stepG s p13 p12 (stepG s p15 p14 (stepG s p17 p16 ⟨hi4le block, lo4le block⟩)))))))) := by
  unfold blowfish_le_decrypt_block
  extract_lets -merge
  name_lets
  have h0 : stepG s p17 p16 ⟨hi4le block, lo4le block⟩ = ⟨l_2, r_2⟩ := rfl
  have h1 : stepG s p15 p14 ⟨l_2, r_2⟩ = ⟨l_4, r_4⟩ := rfl
  have h2 : stepG s p13 p12 ⟨l_4, r_4⟩ = ⟨l_6, r_6⟩ := rfl
  have h3 : stepG s p11 p10 ⟨l_6, r_6⟩ = ⟨l_8, r_8⟩ := rfl
  have h4 : stepG s p9 p8 ⟨l_8, r_8⟩ = ⟨l_10, r_10⟩ := rfl
  have h5 : stepG s p7 p6 ⟨l_10, r_10⟩ = ⟨l_12, r_12⟩ := rfl
  have h6 : stepG s p5 p4 ⟨l_12, r_12⟩ = ⟨l_14, r_14⟩ := rfl
  have h7 : stepG s p3 p2 ⟨l_14, r_14⟩ = ⟨l_16, r_16⟩ := rfl
  rw [h0, h1, h2, h3, h4, h5, h6, h7]
  all_goals rfl


/-- `blowfish_le_decrypt_block` (regenerated `Blowfish<LE>::decrypt_block`) is the model's `decryptBlock .LE`, for all states and blocks -/
theorem blowfish_le_decrypt_block_eq (s : Array (BitVec 32)) (p0 p1 p2 p3 p4 p5 p6 p7 p8 p9 p10 p11 p12 p13 p14 p15 p16 p17 : BitVec 32) (block : BitVec 64) :
    blowfish_le_decrypt_block s p0 p1 p2 p3 p4 p5 p6 p7 p8 p9 p10 p11 p12 p13 p14 p15 p16 p17 block = decryptBlock .LE (mkSt s p0 p1 p2 p3 p4 p5 p6 p7 p8 p9 p10 p11 p12 p13 p14 p15 p16 p17) block := by
  rw [gen_le_decrypt_block_unrolled, decryptBlock, read_le, decrypt_unrolled, write_le]

end BC.GenCipher.Blowfish
