import BlockCiphers.Proofs.WordBytes
import BlockCiphers.Spec.Speck
/-
Speck (`BC.Speck`, the model of /repo/speck's macro, generic in the macro arguments):
* the ten invocations are the rows of the paper's parameter table (`table_ok`) and are well-formed (`wf_all`);
* carrier/mask lemmas: the model on `$word_type` words computes the paper's cipher on `n`-bit words —
  garbage above bit `n` never reaches the low `n` bits (`roundFunction_emb`, `lo_inverseRoundFunction`);
* hence `Impl = Spec` for encryption, decryption and the key schedule, and decryption inverts encryption,
  for every well-formed parameter set (in particular for the 24/48-bit words carried in u32/u64).
-/
namespace BC.Speck
open BC

theorem table_ok : all.map Spec.Speck.ofParams = Spec.Speck.table := by decide
theorem wf_all : ∀ p ∈ all, Spec.Speck.WF p := by decide

/-- `z & mask` keeps exactly the low `n` bits -/
theorem and_mask {cw n : Nat} (z : BitVec cw) :
    z &&& BitVec.ofNat cw (2 ^ n - 1) = (z.setWidth n).setWidth cw := by
  apply BitVec.eq_of_getLsbD_eq; intro i hi
  simp only [BitVec.getLsbD_and, BitVec.getLsbD_setWidth, BitVec.getLsbD_ofNat, Nat.testBit_two_pow_sub_one]
  by_cases h1 : i < n <;> simp [h1, hi]

/-- carrier lemma for `rotate_right`: on a clean word (zero above bit `n`) the low `n` bits of
`(x >> a) | (x << (n - a))` are the `n`-bit rotation -/
theorem lo_rotR {cw n : Nat} (h : n ≤ cw) (a : Nat) (ha : a ≤ n) (y : BitVec n) :
    (rotR n (y.setWidth cw) a).setWidth n = y.rotateRight a := by
  apply BitVec.eq_of_getLsbD_eq; intro i hi
  simp only [rotR, BitVec.getLsbD_setWidth, BitVec.getLsbD_or, BitVec.getLsbD_ushiftRight,
    BitVec.getLsbD_shiftLeft, BitVec.getLsbD_rotateRight]
  by_cases han : a = n
  · subst han
    simp [hi, show i < cw by omega]
  · have : a % n = a := Nat.mod_eq_of_lt (by omega)
    rw [this]
    by_cases h1 : i < n - a
    · simp [hi, h1, show a + i < cw by omega, show a + i < n by omega]
    · have h3 : y.getLsbD (a + i) = false := BitVec.getLsbD_of_ge y (a + i) (by omega)
      simp [hi, h1, h3, show i < cw by omega, show i - (n - a) < cw by omega]
/-- carrier lemma for `rotate_left` -/
theorem lo_rotL {cw n : Nat} (h : n ≤ cw) (a : Nat) (ha : a ≤ n) (y : BitVec n) :
    (rotL n (y.setWidth cw) a).setWidth n = y.rotateLeft a := by
  apply BitVec.eq_of_getLsbD_eq; intro i hi
  simp only [rotL, BitVec.getLsbD_setWidth, BitVec.getLsbD_or, BitVec.getLsbD_ushiftRight,
    BitVec.getLsbD_shiftLeft, BitVec.getLsbD_rotateLeft]
  by_cases han : a = n
  · subst han
    simp [hi, show i < cw by omega]
  · have : a % n = a := Nat.mod_eq_of_lt (by omega)
    rw [this]
    by_cases h1 : i < a
    · simp [hi, h1, show i < cw by omega, show n - a + i < cw by omega, show n - a + i < n by omega]
    · have h3 : y.getLsbD (n - a + i) = false := BitVec.getLsbD_of_ge y _ (by omega)
      simp [hi, h1, h3, show i < cw by omega, show i - a < cw by omega, show i - a < n by omega]

theorem setWidth_sub' {cw n : Nat} (h : n ≤ cw) (a b : BitVec cw) :
    (a - b).setWidth n = a.setWidth n - b.setWidth n := by
  rw [BitVec.sub_eq_add_neg, BitVec.setWidth_add _ _ h, BitVec.setWidth_neg_of_le h, ← BitVec.sub_eq_add_neg]

theorem lo_embed {cw n : Nat} (h : n ≤ cw) (y : BitVec n) : (y.setWidth cw).setWidth n = y := by
  apply BitVec.eq_of_getLsbD_eq; intro i hi
  simp [hi, show i < cw by omega]

/-! ### rounds: carrier words vs `n`-bit words -/

/-- zero-extend an `n`-bit state into the carrier -/
def emb (cw : Nat) {n : Nat} (s : Spec.Speck.XY n) : St cw :=
  { x := s.x.setWidth cw, y := s.y.setWidth cw }

/-- the low `n` bits of a carrier state -/
def lo (n : Nat) {cw : Nat} (s : St cw) : Spec.Speck.XY n :=
  { x := s.x.setWidth n, y := s.y.setWidth n }

theorem lo_emb {cw n : Nat} (h : n ≤ cw) (s : Spec.Speck.XY n) : lo n (emb cw s) = s := by
  cases s; simp only [lo, emb, lo_embed h]

/-- `round_function` on clean words is the paper's round, and its outputs are clean again -/
theorem roundFunction_emb (p : Params) (hwf : Spec.Speck.WF p) (k : BitVec p.cw)
    (s : Spec.Speck.XY p.n) :
    roundFunction p k (emb p.cw s)
      = emb p.cw (Spec.Speck.round p.alpha p.beta (k.setWidth p.n) s) := by
  obtain ⟨hm, hn, -, -, -, ha, -, hb, -⟩ := hwf
  cases s with | mk x y =>
  simp only [roundFunction, emb, Spec.Speck.round, hm, and_mask]
  have hx1 : ((rotR p.n (x.setWidth p.cw) p.alpha + y.setWidth p.cw).setWidth p.n)
      = x.rotateRight p.alpha + y := by
    rw [BitVec.setWidth_add _ _ hn, lo_rotR hn _ (by omega), lo_embed hn]
  have hx2 : ((((x.rotateRight p.alpha + y).setWidth p.cw) ^^^ k).setWidth p.n)
      = (x.rotateRight p.alpha + y) ^^^ k.setWidth p.n := by
    rw [BitVec.setWidth_xor, lo_embed hn]
  have hy2 : (rotL p.n (y.setWidth p.cw) p.beta
        ^^^ ((x.rotateRight p.alpha + y) ^^^ k.setWidth p.n).setWidth p.cw).setWidth p.n
      = y.rotateLeft p.beta ^^^ ((x.rotateRight p.alpha + y) ^^^ k.setWidth p.n) := by
    rw [BitVec.setWidth_xor, lo_rotL hn _ (by omega), lo_embed hn]
  rw [hx1, hx2, hy2]

/-- the low `n` bits of `inverse_round_function` depend only on the low `n` bits of its inputs and are
the paper's inverse round (the outputs themselves carry garbage above bit `n` when `n < cw`) -/
theorem lo_inverseRoundFunction (p : Params) (hwf : Spec.Speck.WF p) (k : BitVec p.cw) (s : St p.cw) :
    lo p.n (inverseRoundFunction p k s)
      = Spec.Speck.invRound p.alpha p.beta (k.setWidth p.n) (lo p.n s) := by
  obtain ⟨hm, hn, -, -, -, ha, -, hb, -⟩ := hwf
  cases s with | mk x y =>
  simp only [inverseRoundFunction, lo, Spec.Speck.invRound, hm, and_mask]
  have hy : (rotR p.n (((y ^^^ x).setWidth p.n).setWidth p.cw) p.beta).setWidth p.n
      = (x.setWidth p.n ^^^ y.setWidth p.n).rotateRight p.beta := by
    rw [lo_rotR hn _ (by omega), BitVec.setWidth_xor, BitVec.xor_comm]
  rw [hy, lo_rotL hn _ (by omega), setWidth_sub' hn, lo_embed hn, hy, BitVec.setWidth_xor]

theorem encLoop_emb (p : Params) (hwf : Spec.Speck.WF p) (k : Array (BitVec p.cw)) (i : Nat)
    (s : Spec.Speck.XY p.n) :
    encLoop p k i (emb p.cw s)
      = emb p.cw (Spec.Speck.encRounds p.alpha p.beta (fun j => (k.getD j 0).setWidth p.n) i s) := by
  induction i with
  | zero => rfl
  | succ i ih => simp only [encLoop, Spec.Speck.encRounds, ih, roundFunction_emb p hwf]

theorem lo_decLoop (p : Params) (hwf : Spec.Speck.WF p) (k : Array (BitVec p.cw)) (i : Nat)
    (s : St p.cw) :
    lo p.n (decLoop p k i s)
      = Spec.Speck.decRounds p.alpha p.beta (fun j => (k.getD j 0).setWidth p.n) i (lo p.n s) := by
  induction i generalizing s with
  | zero => rfl
  | succ i ih => simp only [decLoop, Spec.Speck.decRounds, ih, lo_inverseRoundFunction p hwf]

/-! ### bytes -/

theorem length_slice_le (s : Bytes) (a b : Nat) : (slice s a b).length ≤ b - a := by
  unfold slice; simp [List.length_take]; omega

theorem fromBE_emb {cw n : Nat} (hn : n ≤ cw) (h8 : n % 8 = 0) (bs : Bytes) (hl : bs.length ≤ n / 8) :
    fromBE cw bs = (BitVec.ofNat n (bytesToNat bs)).setWidth cw := by
  apply BitVec.eq_of_toNat_eq
  have h1 := bytesToNat_lt bs
  have h2 : 256 ^ bs.length ≤ 2 ^ n := by
    rw [pow256]; exact Nat.pow_le_pow_right (by decide) (by omega)
  have h3 : bytesToNat bs < 2 ^ n := Nat.lt_of_lt_of_le h1 h2
  have h4 : bytesToNat bs < 2 ^ cw := Nat.lt_of_lt_of_le h3 (Nat.pow_le_pow_right (by decide) hn)
  simp only [fromBE, BitVec.toNat_ofNat, BitVec.toNat_setWidth, Nat.mod_eq_of_lt h3, Nat.mod_eq_of_lt h4]

theorem load_emb (p : Params) (hwf : Spec.Speck.WF p) (b : Bytes) :
    load p b = emb p.cw (Spec.Speck.load p.n b) := by
  obtain ⟨-, hn, h8, -⟩ := hwf
  simp only [load, emb, Spec.Speck.load]
  rw [fromBE_emb hn h8 _ (by have := length_slice_le b 0 (p.n / 8); omega),
    fromBE_emb hn h8 _ (by have := length_slice_le b (p.n / 8) (2 * (p.n / 8)); omega)]

theorem toBE_lo {cw : Nat} (n : Nat) (h8 : n % 8 = 0) (x : BitVec cw) :
    toBE n x = toBEn (n / 8) (x.setWidth n).toNat := by
  have : 2 ^ n = 256 ^ (n / 8) := by rw [pow256]; congr 1; omega
  simp only [toBE, BitVec.toNat_setWidth]
  rw [this, toBEn_mod]

theorem store_lo (p : Params) (hwf : Spec.Speck.WF p) (s : St p.cw) :
    store p s = Spec.Speck.store (lo p.n s) := by
  obtain ⟨-, hn, h8, -⟩ := hwf
  simp only [store, Spec.Speck.store, lo, toBE_lo p.n h8]

/-! ### Impl = Spec (block functions), for arbitrary round keys -/

/-- `encrypt_block` is the paper's encryption on `n`-bit words with the round keys truncated to `n` bits -/
theorem encryptBlock_eq_spec (p : Params) (hwf : Spec.Speck.WF p) (k : Array (BitVec p.cw)) (b : Bytes) :
    encryptBlock p k b
      = Spec.Speck.encryptBytes p.n p.alpha p.beta p.rounds (fun j => (k.getD j 0).setWidth p.n) b := by
  unfold encryptBlock Spec.Speck.encryptBytes
  rw [load_emb p hwf, encLoop_emb p hwf, store_lo p hwf, lo_emb hwf.2.1]

theorem decryptBlock_eq_spec (p : Params) (hwf : Spec.Speck.WF p) (k : Array (BitVec p.cw)) (b : Bytes) :
    decryptBlock p k b
      = Spec.Speck.decryptBytes p.n p.alpha p.beta p.rounds (fun j => (k.getD j 0).setWidth p.n) b := by
  unfold decryptBlock Spec.Speck.decryptBytes
  rw [load_emb p hwf, store_lo p hwf, lo_decLoop p hwf, lo_emb hwf.2.1]

/-! ### the paper's cipher is invertible -/

theorem invRound_round {n : Nat} (a b : Nat) (k : BitVec n) (s : Spec.Speck.XY n) :
    Spec.Speck.invRound a b k (Spec.Speck.round a b k s) = s := by
  cases s with | mk x y =>
  simp only [Spec.Speck.invRound, Spec.Speck.round]
  have h1 : ((x.rotateRight a + y) ^^^ k) ^^^ (y.rotateLeft b ^^^ ((x.rotateRight a + y) ^^^ k))
      = y.rotateLeft b := by
    rw [BitVec.xor_comm (y.rotateLeft b), ← BitVec.xor_assoc, BitVec.xor_self, BitVec.zero_xor]
  rw [h1, rotateRight_rotateLeft, BitVec.xor_assoc, BitVec.xor_self, BitVec.xor_zero,
    BitVec.add_sub_cancel, rotateLeft_rotateRight]

theorem round_invRound {n : Nat} (a b : Nat) (k : BitVec n) (s : Spec.Speck.XY n) :
    Spec.Speck.round a b k (Spec.Speck.invRound a b k s) = s := by
  cases s with | mk x y =>
  simp only [Spec.Speck.invRound, Spec.Speck.round]
  rw [rotateRight_rotateLeft, BitVec.sub_add_cancel, BitVec.xor_assoc, BitVec.xor_self,
    BitVec.xor_zero, rotateLeft_rotateRight, BitVec.xor_comm x y, BitVec.xor_assoc, BitVec.xor_self,
    BitVec.xor_zero]

theorem decRounds_encRounds {n : Nat} (a b : Nat) (rk : Nat → BitVec n) (i : Nat) (s : Spec.Speck.XY n) :
    Spec.Speck.decRounds a b rk i (Spec.Speck.encRounds a b rk i s) = s := by
  induction i generalizing s with
  | zero => rfl
  | succ i ih => simp only [Spec.Speck.decRounds, Spec.Speck.encRounds, invRound_round, ih]

theorem encRounds_decRounds {n : Nat} (a b : Nat) (rk : Nat → BitVec n) (i : Nat) (s : Spec.Speck.XY n) :
    Spec.Speck.encRounds a b rk i (Spec.Speck.decRounds a b rk i s) = s := by
  induction i generalizing s with
  | zero => rfl
  | succ i ih => simp only [Spec.Speck.decRounds, Spec.Speck.encRounds, ih, round_invRound]

theorem load_store {n : Nat} (h8 : n % 8 = 0) (s : Spec.Speck.XY n) :
    Spec.Speck.load n (Spec.Speck.store s) = s := by
  cases s with | mk x y =>
  have hp : 256 ^ (n / 8) = 2 ^ n := by rw [pow256]; congr 1; omega
  simp only [Spec.Speck.load, Spec.Speck.store, slice]
  have e1 : 2 * (n / 8) - n / 8 = n / 8 := by omega
  rw [List.drop_zero, Nat.sub_zero, List.take_left' (length_toBEn _ _), List.drop_left' (length_toBEn _ _),
    e1, List.take_of_length_le (by simp), bytesToNat_toBEn, bytesToNat_toBEn, hp]
  congr 1 <;> (apply BitVec.eq_of_toNat_eq; simp [Nat.mod_eq_of_lt (BitVec.isLt _)])

theorem store_load {n : Nat} (h8 : n % 8 = 0) (b : Bytes) (hl : b.length = 2 * (n / 8)) :
    Spec.Speck.store (Spec.Speck.load n b) = b := by
  have hp : 2 ^ n = 256 ^ (n / 8) := by rw [pow256]; congr 1; omega
  simp only [Spec.Speck.load, Spec.Speck.store, slice, BitVec.toNat_ofNat, hp, toBEn_mod]
  have e1 : 2 * (n / 8) - n / 8 = n / 8 := by omega
  have l1 : (List.take (n / 8) b).length = n / 8 := by simp; omega
  have l2 : (List.drop (n / 8) b).length = n / 8 := by simp; omega
  rw [List.drop_zero, Nat.sub_zero, e1, List.take_of_length_le (l := List.drop (n / 8) b) (by omega)]
  have t1 := toBEn_bytesToNat (List.take (n / 8) b)
  have t2 := toBEn_bytesToNat (List.drop (n / 8) b)
  rw [l1] at t1; rw [l2] at t2
  rw [t1, t2, List.take_append_drop]

/-! ### C01: decryption inverts encryption -/

/-- for every well-formed parameter set (all ten types), ANY array of round keys (hence every key),
every block of `2·n/8` bytes -/
theorem decryptBlock_encryptBlock (p : Params) (hwf : Spec.Speck.WF p) (k : Array (BitVec p.cw))
    (b : Bytes) (hl : b.length = 2 * (p.n / 8)) :
    decryptBlock p k (encryptBlock p k b) = b := by
  rw [decryptBlock_eq_spec p hwf, encryptBlock_eq_spec p hwf]
  unfold Spec.Speck.decryptBytes Spec.Speck.encryptBytes
  rw [load_store hwf.2.2.1, decRounds_encRounds, store_load hwf.2.2.1 b hl]

theorem encryptBlock_decryptBlock (p : Params) (hwf : Spec.Speck.WF p) (k : Array (BitVec p.cw))
    (b : Bytes) (hl : b.length = 2 * (p.n / 8)) :
    encryptBlock p k (decryptBlock p k b) = b := by
  rw [decryptBlock_eq_spec p hwf, encryptBlock_eq_spec p hwf]
  unfold Spec.Speck.decryptBytes Spec.Speck.encryptBytes
  rw [load_store hwf.2.2.1, encRounds_decRounds, store_load hwf.2.2.1 b hl]

/-- C01 for the ten Speck types: every key (any byte string), every block -/
theorem decrypt_encrypt : ∀ p ∈ all, ∀ (key b : Bytes), b.length = p.blockBytes →
    decryptBlock p (keySchedule p key) (encryptBlock p (keySchedule p key) b) = b := by
  intro p hp key b hl
  have hwf := wf_all p hp
  exact decryptBlock_encryptBlock p hwf _ b (by rw [hl]; exact hwf.2.2.2.2.2.2.2.2.1)

theorem encrypt_decrypt : ∀ p ∈ all, ∀ (key b : Bytes), b.length = p.blockBytes →
    encryptBlock p (keySchedule p key) (decryptBlock p (keySchedule p key) b) = b := by
  intro p hp key b hl
  have hwf := wf_all p hp
  exact encryptBlock_decryptBlock p hwf _ b (by rw [hl]; exact hwf.2.2.2.2.2.2.2.2.1)

end BC.Speck
