import BlockCiphers.Gen.Keys_Belt_block
import BlockCiphers.Impl.Belt
import Std.Tactic.BVDecide
/-!
Key-schedule tie for BelT: the regenerated `BeltBlock::new` (eight little-endian `u32` words of the 32-byte key)
yields exactly the eight key words `key[0..8]` of the model's `BC.Belt.new` (`toKey`), for all 256-bit keys.
-/
set_option maxRecDepth 100000
namespace BC.GenKeys.Belt
open BC BC.Belt BC.Gen.Fn

/-- the struct field `key: [u32; 8]` of a model cipher object, flattened -/
def BeltBlock.tuple (c : BeltBlock) :
    BitVec 32 × BitVec 32 × BitVec 32 × BitVec 32 × BitVec 32 × BitVec 32 × BitVec 32 × BitVec 32 :=
  (c.key[0], c.key[1], c.key[2], c.key[3], c.key[4], c.key[5], c.key[6], c.key[7])

theorem beltblock_new_eq (key : BitVec 256) :
    beltblock_new key = BeltBlock.tuple (new key) := by
  simp only [beltblock_new, BeltBlock.tuple, new, toKey, bswap32, Vector.getElem_ofFn, Prod.mk.injEq,
    Nat.reduceSub, Nat.reduceMul]
  bv_decide (config := { timeout := 300 })

/-- component form: `key[i]` of the model for each literal index -/
theorem beltblock_new_eq' (key : BitVec 256) :
    beltblock_new key =
      ((new key).key[0], (new key).key[1], (new key).key[2], (new key).key[3],
       (new key).key[4], (new key).key[5], (new key).key[6], (new key).key[7]) :=
  beltblock_new_eq key

theorem vec8_eta {α : Type} (v : Vector α 8) : v = #v[v[0], v[1], v[2], v[3], v[4], v[5], v[6], v[7]] := by
  ext i hi
  match i, hi with
  | 0, _ | 1, _ | 2, _ | 3, _ | 4, _ | 5, _ | 6, _ | 7, _ => rfl
  | n + 8, h => omega

/-- the model's cipher object rebuilt from the generated tuple -/
theorem new_eq (key : BitVec 256) :
    new key = { key := #v[(beltblock_new key).1, (beltblock_new key).2.1, (beltblock_new key).2.2.1,
      (beltblock_new key).2.2.2.1, (beltblock_new key).2.2.2.2.1, (beltblock_new key).2.2.2.2.2.1,
      (beltblock_new key).2.2.2.2.2.2.1, (beltblock_new key).2.2.2.2.2.2.2] } := by
  rw [beltblock_new_eq]
  simp only [BeltBlock.tuple]
  exact congrArg BeltBlock.mk (vec8_eta _)

end BC.GenKeys.Belt
