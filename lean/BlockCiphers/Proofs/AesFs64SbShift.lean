import BlockCiphers.Impl.AesFixslice64
import Std.Tactic.BVDecide
/-! The S-box circuits are bitwise, hence commute with the bit permutations `shift_rows_k`. -/
namespace BC.AesFs64
set_option linter.unusedSimpArgs false

set_option maxRecDepth 1000000 in
theorem sub_bytes_shift_rows_1 (s : St) : sub_bytes (shift_rows_1 s) = shift_rows_1 (sub_bytes s) := by
  cases s
  simp only [sub_bytes, shift_rows_1, St.map, shift_rows_1_w, delta_swap_1, St.mk.injEq]
  bv_decide (config := { timeout := 1800 })

set_option maxRecDepth 1000000 in
theorem sub_bytes_shift_rows_2 (s : St) : sub_bytes (shift_rows_2 s) = shift_rows_2 (sub_bytes s) := by
  cases s
  simp only [sub_bytes, shift_rows_2, St.map, shift_rows_2_w, delta_swap_1, St.mk.injEq]
  bv_decide (config := { timeout := 1800 })

set_option maxRecDepth 1000000 in
theorem sub_bytes_shift_rows_3 (s : St) : sub_bytes (shift_rows_3 s) = shift_rows_3 (sub_bytes s) := by
  cases s
  simp only [sub_bytes, shift_rows_3, St.map, shift_rows_3_w, delta_swap_1, St.mk.injEq]
  bv_decide (config := { timeout := 1800 })

end BC.AesFs64
