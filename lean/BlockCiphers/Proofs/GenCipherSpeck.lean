import BlockCiphers.Gen.Cipher_Speck
import BlockCiphers.Impl.Speck
import BlockCiphers.Proofs.WordBytes
import Std.Tactic.BVDecide
/-
Tie of the regenerated `encrypt_block` / `decrypt_block` of the ten Speck variants (`Gen/Cipher_Speck.lean`, translated
from /repo/speck/src/lib.rs) to the hand-written generic model `BlockCiphers.Impl.Speck` instantiated with the ten
parameter rows.  For ALL round keys `k0 … k(R-1)` (arbitrary carrier words, not only key-schedule outputs) and ALL blocks:

    unpackBE N (Gen.Fn.<v>_encrypt_block k0 … b) = Speck.encryptBlock <v> #[k0, …] (unpackBE N b)

(the model works on byte lists, the generated function on the packed block; `unpackBE N` is the packing convention:
byte 0 = most significant byte).  Structure of each proof:
* `<v>_load`  : the model's `load` of the unpacked block is the generated `x`/`y` expression (bytes → carrier word,
                zero-extended for the 24/48-bit words)                       -- list evaluation + `bv_decide`
* `<v>_store` : the model's `store` is the unpacking of the generated output expression   -- idem
* `<v>_enc_core` / `<v>_dec_core` : generated function = output expression of `encLoop`/`decLoop` run on the
                generated `x`,`y`: both sides unfold to the same term, closed by `rfl` (no SAT: ARX).
                After a semantic change of the Rust this `rfl` fails with a heartbeat time-out (about 20 s).
* `<v>_encryptBlock_bytes` / `<v>_decryptBlock_bytes`: the same for an arbitrary byte list of the block length.
The 24- and 48-bit-word variants (Speck48/96) run in `u32`/`u64` carriers with `& mask`; the generated text and the model
agree on the unmasked garbage bits too (`decrypt_block` returns un-masked rotations, `to_be_bytes` drops the high bytes).
-/
set_option maxRecDepth 100000
namespace BC.GenCipher.Speck
open BC BC.Speck BC.Gen.Fn

/-! ### generic bridging lemmas (bytes ↔ bit-vectors) -/

theorem ofNat_foldl (cw : Nat) (bs : Bytes) (a : Nat) :
    BitVec.ofNat cw (bs.foldl (fun acc b => acc * 256 + b.toNat) a) =
      bs.foldl (fun acc b => acc * 256#cw + b.setWidth cw) (BitVec.ofNat cw a) := by
  induction bs generalizing a with
  | nil => rfl
  | cons b bs ih =>
    simp only [List.foldl_cons, ih]
    congr 1
    rw [BitVec.ofNat_add, BitVec.ofNat_mul, BitVec.ofNat_toNat]

/-- `from_be_bytes` as a Horner fold in the carrier type -/
theorem fromBE_fold (cw : Nat) (bs : Bytes) :
    fromBE cw bs = bs.foldl (fun acc b => acc * 256#cw + b.setWidth cw) 0#cw := by
  rw [fromBE, bytesToNat, ofNat_foldl]

theorem toBEn_succ (k v : Nat) : toBEn (k + 1) v = toBEn k (v / 256) ++ [BitVec.ofNat 8 v] := by
  simp [toBEn, toLEn]

/-- `to_be_bytes` (low `k` bytes) is `unpackBE` -/
theorem toBEn_toNat {w : Nat} (k : Nat) (x : BitVec w) : toBEn k x.toNat = unpackBE k x := by
  induction k generalizing x with
  | zero => rfl
  | succ k ih =>
    have h : x.toNat / 256 = (x >>> 8).toNat := by
      rw [BitVec.toNat_ushiftRight, Nat.shiftRight_eq_div_pow]
    rw [toBEn_succ, h, ih, unpackBE, unpackBE, List.range_succ, List.map_append]
    congr 1
    · apply List.map_congr_left
      intro i hi
      have hi' : i < k := List.mem_range.mp hi
      rw [← BitVec.shiftRight_add]
      congr 2; omega
    · simp [BitVec.ofNat_toNat]

theorem toBE_eq {cw : Nat} (n : Nat) (x : BitVec cw) : toBE n x = unpackBE (n / 8) x := toBEn_toNat _ _

/-- every `n`-byte string is the unpacking of its packing (so the tie theorems cover every block of the right length) -/
theorem unpackBE_packBE (n : Nat) (bs : Bytes) (h : bs.length = n) : unpackBE n (packBE n bs) = bs := by
  subst h
  have hlt : bytesToNat bs < 2 ^ (8 * bs.length) := by rw [← pow256]; exact bytesToNat_lt bs
  rw [← toBEn_toNat, packBE, BitVec.toNat_ofNat, Nat.mod_eq_of_lt hlt, toBEn_bytesToNat]

theorem encryptBlock_def (p : Params) (k : Array (BitVec p.cw)) (b : Bytes) :
    encryptBlock p k b = store p (encLoop p k p.rounds (load p b)) := rfl
theorem decryptBlock_def (p : Params) (k : Array (BitVec p.cw)) (b : Bytes) :
    decryptBlock p k b = store p (decLoop p k p.rounds (load p b)) := rfl

/-! ### speck32_64: 4-byte block, 16-bit words in `u16`, 22 rounds -/

/-- the generated `x`, `y` (block bytes → carrier words) -/
def speck32_64_x (b : BitVec 32) : BitVec 16 := (b.extractLsb' 24 8) ++ (b.extractLsb' 16 8)
def speck32_64_y (b : BitVec 32) : BitVec 16 := (b.extractLsb' 8 8) ++ (b.extractLsb' 0 8)
/-- the generated output expression (carrier words → block) -/
def speck32_64_out (x y : BitVec 16) : BitVec 32 := (x.extractLsb' 8 8) ++ (x.extractLsb' 0 8) ++ (y.extractLsb' 8 8) ++ (y.extractLsb' 0 8)

theorem speck32_64_load_x (b : BitVec 32) : fromBE 16 [(b >>> 24).setWidth 8, (b >>> 16).setWidth 8] = speck32_64_x b := by
  simp only [fromBE_fold, List.foldl_cons, List.foldl_nil, speck32_64_x]
  bv_decide
theorem speck32_64_load_y (b : BitVec 32) : fromBE 16 [(b >>> 8).setWidth 8, (b >>> 0).setWidth 8] = speck32_64_y b := by
  simp only [fromBE_fold, List.foldl_cons, List.foldl_nil, speck32_64_y]
  bv_decide

theorem speck32_64_load (b : BitVec 32) :
    load speck32_64 (unpackBE 4 b) = ⟨speck32_64_x b, speck32_64_y b⟩ := by
  have h : load speck32_64 (unpackBE 4 b) =
      ⟨fromBE 16 [(b >>> 24).setWidth 8, (b >>> 16).setWidth 8], fromBE 16 [(b >>> 8).setWidth 8, (b >>> 0).setWidth 8]⟩ := rfl
  rw [h, speck32_64_load_x, speck32_64_load_y]

theorem speck32_64_store_bytes (x y : BitVec 16) :
    unpackBE 2 x ++ unpackBE 2 y = unpackBE 4 (speck32_64_out x y) := by
  have h2 : unpackBE 2 x ++ unpackBE 2 y = [(x >>> 8).setWidth 8, (x >>> 0).setWidth 8, (y >>> 8).setWidth 8, (y >>> 0).setWidth 8] := rfl
  have h3 : ∀ o : BitVec 32, unpackBE 4 o = [(o >>> 24).setWidth 8, (o >>> 16).setWidth 8, (o >>> 8).setWidth 8, (o >>> 0).setWidth 8] := fun _ => rfl
  rw [h2, h3]
  simp only [speck32_64_out, List.cons.injEq, and_true]
  bv_decide

theorem speck32_64_store (s : St speck32_64.cw) :
    store speck32_64 s = unpackBE 4 (speck32_64_out s.x s.y) := by
  have h1 : store speck32_64 s = unpackBE (speck32_64.n / 8) s.x ++ unpackBE (speck32_64.n / 8) s.y := by
    rw [store, toBE_eq, toBE_eq]
  exact h1.trans (speck32_64_store_bytes s.x s.y)

theorem speck32_64_enc_core (k0 k1 k2 k3 k4 k5 k6 k7 k8 k9 k10 k11 k12 k13 k14 k15 k16 k17 k18 k19 k20 k21 : BitVec 16) (b : BitVec 32) :
    speck32_64_encrypt_block k0 k1 k2 k3 k4 k5 k6 k7 k8 k9 k10 k11 k12 k13 k14 k15 k16 k17 k18 k19 k20 k21 b =
      speck32_64_out (encLoop speck32_64 #[k0, k1, k2, k3, k4, k5, k6, k7, k8, k9, k10, k11, k12, k13, k14, k15, k16, k17, k18, k19, k20, k21] 22 ⟨speck32_64_x b, speck32_64_y b⟩).x
        (encLoop speck32_64 #[k0, k1, k2, k3, k4, k5, k6, k7, k8, k9, k10, k11, k12, k13, k14, k15, k16, k17, k18, k19, k20, k21] 22 ⟨speck32_64_x b, speck32_64_y b⟩).y := by
  rfl

theorem speck32_64_dec_core (k0 k1 k2 k3 k4 k5 k6 k7 k8 k9 k10 k11 k12 k13 k14 k15 k16 k17 k18 k19 k20 k21 : BitVec 16) (b : BitVec 32) :
    speck32_64_decrypt_block k0 k1 k2 k3 k4 k5 k6 k7 k8 k9 k10 k11 k12 k13 k14 k15 k16 k17 k18 k19 k20 k21 b =
      speck32_64_out (decLoop speck32_64 #[k0, k1, k2, k3, k4, k5, k6, k7, k8, k9, k10, k11, k12, k13, k14, k15, k16, k17, k18, k19, k20, k21] 22 ⟨speck32_64_x b, speck32_64_y b⟩).x
        (decLoop speck32_64 #[k0, k1, k2, k3, k4, k5, k6, k7, k8, k9, k10, k11, k12, k13, k14, k15, k16, k17, k18, k19, k20, k21] 22 ⟨speck32_64_x b, speck32_64_y b⟩).y := by
  rfl

/-- `Speck32_64::encrypt_block` as regenerated from the Rust source IS the model's `encryptBlock` -/
theorem speck32_64_encrypt_block_eq (k0 k1 k2 k3 k4 k5 k6 k7 k8 k9 k10 k11 k12 k13 k14 k15 k16 k17 k18 k19 k20 k21 : BitVec 16) (b : BitVec 32) :
    unpackBE 4 (speck32_64_encrypt_block k0 k1 k2 k3 k4 k5 k6 k7 k8 k9 k10 k11 k12 k13 k14 k15 k16 k17 k18 k19 k20 k21 b) =
      encryptBlock speck32_64 #[k0, k1, k2, k3, k4, k5, k6, k7, k8, k9, k10, k11, k12, k13, k14, k15, k16, k17, k18, k19, k20, k21] (unpackBE 4 b) := by
  rw [encryptBlock_def, speck32_64_load, speck32_64_store, speck32_64_enc_core]; rfl

/-- `Speck32_64::decrypt_block` as regenerated from the Rust source IS the model's `decryptBlock` -/
theorem speck32_64_decrypt_block_eq (k0 k1 k2 k3 k4 k5 k6 k7 k8 k9 k10 k11 k12 k13 k14 k15 k16 k17 k18 k19 k20 k21 : BitVec 16) (b : BitVec 32) :
    unpackBE 4 (speck32_64_decrypt_block k0 k1 k2 k3 k4 k5 k6 k7 k8 k9 k10 k11 k12 k13 k14 k15 k16 k17 k18 k19 k20 k21 b) =
      decryptBlock speck32_64 #[k0, k1, k2, k3, k4, k5, k6, k7, k8, k9, k10, k11, k12, k13, k14, k15, k16, k17, k18, k19, k20, k21] (unpackBE 4 b) := by
  rw [decryptBlock_def, speck32_64_load, speck32_64_store, speck32_64_dec_core]; rfl

/-- the same for an arbitrary `4`-byte block given as a byte list -/
theorem speck32_64_encryptBlock_bytes (k0 k1 k2 k3 k4 k5 k6 k7 k8 k9 k10 k11 k12 k13 k14 k15 k16 k17 k18 k19 k20 k21 : BitVec 16) (bs : Bytes) (h : bs.length = 4) :
    encryptBlock speck32_64 #[k0, k1, k2, k3, k4, k5, k6, k7, k8, k9, k10, k11, k12, k13, k14, k15, k16, k17, k18, k19, k20, k21] bs =
      unpackBE 4 (speck32_64_encrypt_block k0 k1 k2 k3 k4 k5 k6 k7 k8 k9 k10 k11 k12 k13 k14 k15 k16 k17 k18 k19 k20 k21 (packBE 4 bs)) := by
  rw [speck32_64_encrypt_block_eq, unpackBE_packBE _ _ h]
theorem speck32_64_decryptBlock_bytes (k0 k1 k2 k3 k4 k5 k6 k7 k8 k9 k10 k11 k12 k13 k14 k15 k16 k17 k18 k19 k20 k21 : BitVec 16) (bs : Bytes) (h : bs.length = 4) :
    decryptBlock speck32_64 #[k0, k1, k2, k3, k4, k5, k6, k7, k8, k9, k10, k11, k12, k13, k14, k15, k16, k17, k18, k19, k20, k21] bs =
      unpackBE 4 (speck32_64_decrypt_block k0 k1 k2 k3 k4 k5 k6 k7 k8 k9 k10 k11 k12 k13 k14 k15 k16 k17 k18 k19 k20 k21 (packBE 4 bs)) := by
  rw [speck32_64_decrypt_block_eq, unpackBE_packBE _ _ h]

/-! ### speck48_72: 6-byte block, 24-bit words in `u32`, 22 rounds -/

/-- the generated `x`, `y` (block bytes → carrier words) -/
def speck48_72_x (b : BitVec 48) : BitVec 32 := 0x0#8 ++ (b.extractLsb' 40 8) ++ (b.extractLsb' 32 8) ++ (b.extractLsb' 24 8)
def speck48_72_y (b : BitVec 48) : BitVec 32 := 0x0#8 ++ (b.extractLsb' 16 8) ++ (b.extractLsb' 8 8) ++ (b.extractLsb' 0 8)
/-- the generated output expression (carrier words → block) -/
def speck48_72_out (x y : BitVec 32) : BitVec 48 := (x.extractLsb' 16 8) ++ (x.extractLsb' 8 8) ++ (x.extractLsb' 0 8) ++ (y.extractLsb' 16 8) ++ (y.extractLsb' 8 8) ++ (y.extractLsb' 0 8)

theorem speck48_72_load_x (b : BitVec 48) : fromBE 32 [(b >>> 40).setWidth 8, (b >>> 32).setWidth 8, (b >>> 24).setWidth 8] = speck48_72_x b := by
  simp only [fromBE_fold, List.foldl_cons, List.foldl_nil, speck48_72_x]
  bv_decide
theorem speck48_72_load_y (b : BitVec 48) : fromBE 32 [(b >>> 16).setWidth 8, (b >>> 8).setWidth 8, (b >>> 0).setWidth 8] = speck48_72_y b := by
  simp only [fromBE_fold, List.foldl_cons, List.foldl_nil, speck48_72_y]
  bv_decide

theorem speck48_72_load (b : BitVec 48) :
    load speck48_72 (unpackBE 6 b) = ⟨speck48_72_x b, speck48_72_y b⟩ := by
  have h : load speck48_72 (unpackBE 6 b) =
      ⟨fromBE 32 [(b >>> 40).setWidth 8, (b >>> 32).setWidth 8, (b >>> 24).setWidth 8], fromBE 32 [(b >>> 16).setWidth 8, (b >>> 8).setWidth 8, (b >>> 0).setWidth 8]⟩ := rfl
  rw [h, speck48_72_load_x, speck48_72_load_y]

theorem speck48_72_store_bytes (x y : BitVec 32) :
    unpackBE 3 x ++ unpackBE 3 y = unpackBE 6 (speck48_72_out x y) := by
  have h2 : unpackBE 3 x ++ unpackBE 3 y = [(x >>> 16).setWidth 8, (x >>> 8).setWidth 8, (x >>> 0).setWidth 8, (y >>> 16).setWidth 8, (y >>> 8).setWidth 8, (y >>> 0).setWidth 8] := rfl
  have h3 : ∀ o : BitVec 48, unpackBE 6 o = [(o >>> 40).setWidth 8, (o >>> 32).setWidth 8, (o >>> 24).setWidth 8, (o >>> 16).setWidth 8, (o >>> 8).setWidth 8, (o >>> 0).setWidth 8] := fun _ => rfl
  rw [h2, h3]
  simp only [speck48_72_out, List.cons.injEq, and_true]
  bv_decide

theorem speck48_72_store (s : St speck48_72.cw) :
    store speck48_72 s = unpackBE 6 (speck48_72_out s.x s.y) := by
  have h1 : store speck48_72 s = unpackBE (speck48_72.n / 8) s.x ++ unpackBE (speck48_72.n / 8) s.y := by
    rw [store, toBE_eq, toBE_eq]
  exact h1.trans (speck48_72_store_bytes s.x s.y)

theorem speck48_72_enc_core (k0 k1 k2 k3 k4 k5 k6 k7 k8 k9 k10 k11 k12 k13 k14 k15 k16 k17 k18 k19 k20 k21 : BitVec 32) (b : BitVec 48) :
    speck48_72_encrypt_block k0 k1 k2 k3 k4 k5 k6 k7 k8 k9 k10 k11 k12 k13 k14 k15 k16 k17 k18 k19 k20 k21 b =
      speck48_72_out (encLoop speck48_72 #[k0, k1, k2, k3, k4, k5, k6, k7, k8, k9, k10, k11, k12, k13, k14, k15, k16, k17, k18, k19, k20, k21] 22 ⟨speck48_72_x b, speck48_72_y b⟩).x
        (encLoop speck48_72 #[k0, k1, k2, k3, k4, k5, k6, k7, k8, k9, k10, k11, k12, k13, k14, k15, k16, k17, k18, k19, k20, k21] 22 ⟨speck48_72_x b, speck48_72_y b⟩).y := by
  rfl

theorem speck48_72_dec_core (k0 k1 k2 k3 k4 k5 k6 k7 k8 k9 k10 k11 k12 k13 k14 k15 k16 k17 k18 k19 k20 k21 : BitVec 32) (b : BitVec 48) :
    speck48_72_decrypt_block k0 k1 k2 k3 k4 k5 k6 k7 k8 k9 k10 k11 k12 k13 k14 k15 k16 k17 k18 k19 k20 k21 b =
      speck48_72_out (decLoop speck48_72 #[k0, k1, k2, k3, k4, k5, k6, k7, k8, k9, k10, k11, k12, k13, k14, k15, k16, k17, k18, k19, k20, k21] 22 ⟨speck48_72_x b, speck48_72_y b⟩).x
        (decLoop speck48_72 #[k0, k1, k2, k3, k4, k5, k6, k7, k8, k9, k10, k11, k12, k13, k14, k15, k16, k17, k18, k19, k20, k21] 22 ⟨speck48_72_x b, speck48_72_y b⟩).y := by
  rfl

/-- `Speck48_72::encrypt_block` as regenerated from the Rust source IS the model's `encryptBlock` -/
theorem speck48_72_encrypt_block_eq (k0 k1 k2 k3 k4 k5 k6 k7 k8 k9 k10 k11 k12 k13 k14 k15 k16 k17 k18 k19 k20 k21 : BitVec 32) (b : BitVec 48) :
    unpackBE 6 (speck48_72_encrypt_block k0 k1 k2 k3 k4 k5 k6 k7 k8 k9 k10 k11 k12 k13 k14 k15 k16 k17 k18 k19 k20 k21 b) =
      encryptBlock speck48_72 #[k0, k1, k2, k3, k4, k5, k6, k7, k8, k9, k10, k11, k12, k13, k14, k15, k16, k17, k18, k19, k20, k21] (unpackBE 6 b) := by
  rw [encryptBlock_def, speck48_72_load, speck48_72_store, speck48_72_enc_core]; rfl

/-- `Speck48_72::decrypt_block` as regenerated from the Rust source IS the model's `decryptBlock` -/
theorem speck48_72_decrypt_block_eq (k0 k1 k2 k3 k4 k5 k6 k7 k8 k9 k10 k11 k12 k13 k14 k15 k16 k17 k18 k19 k20 k21 : BitVec 32) (b : BitVec 48) :
    unpackBE 6 (speck48_72_decrypt_block k0 k1 k2 k3 k4 k5 k6 k7 k8 k9 k10 k11 k12 k13 k14 k15 k16 k17 k18 k19 k20 k21 b) =
      decryptBlock speck48_72 #[k0, k1, k2, k3, k4, k5, k6, k7, k8, k9, k10, k11, k12, k13, k14, k15, k16, k17, k18, k19, k20, k21] (unpackBE 6 b) := by
  rw [decryptBlock_def, speck48_72_load, speck48_72_store, speck48_72_dec_core]; rfl

/-- the same for an arbitrary `6`-byte block given as a byte list -/
theorem speck48_72_encryptBlock_bytes (k0 k1 k2 k3 k4 k5 k6 k7 k8 k9 k10 k11 k12 k13 k14 k15 k16 k17 k18 k19 k20 k21 : BitVec 32) (bs : Bytes) (h : bs.length = 6) :
    encryptBlock speck48_72 #[k0, k1, k2, k3, k4, k5, k6, k7, k8, k9, k10, k11, k12, k13, k14, k15, k16, k17, k18, k19, k20, k21] bs =
      unpackBE 6 (speck48_72_encrypt_block k0 k1 k2 k3 k4 k5 k6 k7 k8 k9 k10 k11 k12 k13 k14 k15 k16 k17 k18 k19 k20 k21 (packBE 6 bs)) := by
  rw [speck48_72_encrypt_block_eq, unpackBE_packBE _ _ h]
theorem speck48_72_decryptBlock_bytes (k0 k1 k2 k3 k4 k5 k6 k7 k8 k9 k10 k11 k12 k13 k14 k15 k16 k17 k18 k19 k20 k21 : BitVec 32) (bs : Bytes) (h : bs.length = 6) :
    decryptBlock speck48_72 #[k0, k1, k2, k3, k4, k5, k6, k7, k8, k9, k10, k11, k12, k13, k14, k15, k16, k17, k18, k19, k20, k21] bs =
      unpackBE 6 (speck48_72_decrypt_block k0 k1 k2 k3 k4 k5 k6 k7 k8 k9 k10 k11 k12 k13 k14 k15 k16 k17 k18 k19 k20 k21 (packBE 6 bs)) := by
  rw [speck48_72_decrypt_block_eq, unpackBE_packBE _ _ h]

/-! ### speck48_96: 6-byte block, 24-bit words in `u32`, 23 rounds -/

/-- the generated `x`, `y` (block bytes → carrier words) -/
def speck48_96_x (b : BitVec 48) : BitVec 32 := 0x0#8 ++ (b.extractLsb' 40 8) ++ (b.extractLsb' 32 8) ++ (b.extractLsb' 24 8)
def speck48_96_y (b : BitVec 48) : BitVec 32 := 0x0#8 ++ (b.extractLsb' 16 8) ++ (b.extractLsb' 8 8) ++ (b.extractLsb' 0 8)
/-- the generated output expression (carrier words → block) -/
def speck48_96_out (x y : BitVec 32) : BitVec 48 := (x.extractLsb' 16 8) ++ (x.extractLsb' 8 8) ++ (x.extractLsb' 0 8) ++ (y.extractLsb' 16 8) ++ (y.extractLsb' 8 8) ++ (y.extractLsb' 0 8)

theorem speck48_96_load_x (b : BitVec 48) : fromBE 32 [(b >>> 40).setWidth 8, (b >>> 32).setWidth 8, (b >>> 24).setWidth 8] = speck48_96_x b := by
  simp only [fromBE_fold, List.foldl_cons, List.foldl_nil, speck48_96_x]
  bv_decide
theorem speck48_96_load_y (b : BitVec 48) : fromBE 32 [(b >>> 16).setWidth 8, (b >>> 8).setWidth 8, (b >>> 0).setWidth 8] = speck48_96_y b := by
  simp only [fromBE_fold, List.foldl_cons, List.foldl_nil, speck48_96_y]
  bv_decide

theorem speck48_96_load (b : BitVec 48) :
    load speck48_96 (unpackBE 6 b) = ⟨speck48_96_x b, speck48_96_y b⟩ := by
  have h : load speck48_96 (unpackBE 6 b) =
      ⟨fromBE 32 [(b >>> 40).setWidth 8, (b >>> 32).setWidth 8, (b >>> 24).setWidth 8], fromBE 32 [(b >>> 16).setWidth 8, (b >>> 8).setWidth 8, (b >>> 0).setWidth 8]⟩ := rfl
  rw [h, speck48_96_load_x, speck48_96_load_y]

theorem speck48_96_store_bytes (x y : BitVec 32) :
    unpackBE 3 x ++ unpackBE 3 y = unpackBE 6 (speck48_96_out x y) := by
  have h2 : unpackBE 3 x ++ unpackBE 3 y = [(x >>> 16).setWidth 8, (x >>> 8).setWidth 8, (x >>> 0).setWidth 8, (y >>> 16).setWidth 8, (y >>> 8).setWidth 8, (y >>> 0).setWidth 8] := rfl
  have h3 : ∀ o : BitVec 48, unpackBE 6 o = [(o >>> 40).setWidth 8, (o >>> 32).setWidth 8, (o >>> 24).setWidth 8, (o >>> 16).setWidth 8, (o >>> 8).setWidth 8, (o >>> 0).setWidth 8] := fun _ => rfl
  rw [h2, h3]
  simp only [speck48_96_out, List.cons.injEq, and_true]
  bv_decide

theorem speck48_96_store (s : St speck48_96.cw) :
    store speck48_96 s = unpackBE 6 (speck48_96_out s.x s.y) := by
  have h1 : store speck48_96 s = unpackBE (speck48_96.n / 8) s.x ++ unpackBE (speck48_96.n / 8) s.y := by
    rw [store, toBE_eq, toBE_eq]
  exact h1.trans (speck48_96_store_bytes s.x s.y)

theorem speck48_96_enc_core (k0 k1 k2 k3 k4 k5 k6 k7 k8 k9 k10 k11 k12 k13 k14 k15 k16 k17 k18 k19 k20 k21 k22 : BitVec 32) (b : BitVec 48) :
    speck48_96_encrypt_block k0 k1 k2 k3 k4 k5 k6 k7 k8 k9 k10 k11 k12 k13 k14 k15 k16 k17 k18 k19 k20 k21 k22 b =
      speck48_96_out (encLoop speck48_96 #[k0, k1, k2, k3, k4, k5, k6, k7, k8, k9, k10, k11, k12, k13, k14, k15, k16, k17, k18, k19, k20, k21, k22] 23 ⟨speck48_96_x b, speck48_96_y b⟩).x
        (encLoop speck48_96 #[k0, k1, k2, k3, k4, k5, k6, k7, k8, k9, k10, k11, k12, k13, k14, k15, k16, k17, k18, k19, k20, k21, k22] 23 ⟨speck48_96_x b, speck48_96_y b⟩).y := by
  rfl

theorem speck48_96_dec_core (k0 k1 k2 k3 k4 k5 k6 k7 k8 k9 k10 k11 k12 k13 k14 k15 k16 k17 k18 k19 k20 k21 k22 : BitVec 32) (b : BitVec 48) :
    speck48_96_decrypt_block k0 k1 k2 k3 k4 k5 k6 k7 k8 k9 k10 k11 k12 k13 k14 k15 k16 k17 k18 k19 k20 k21 k22 b =
      speck48_96_out (decLoop speck48_96 #[k0, k1, k2, k3, k4, k5, k6, k7, k8, k9, k10, k11, k12, k13, k14, k15, k16, k17, k18, k19, k20, k21, k22] 23 ⟨speck48_96_x b, speck48_96_y b⟩).x
        (decLoop speck48_96 #[k0, k1, k2, k3, k4, k5, k6, k7, k8, k9, k10, k11, k12, k13, k14, k15, k16, k17, k18, k19, k20, k21, k22] 23 ⟨speck48_96_x b, speck48_96_y b⟩).y := by
  rfl

/-- `Speck48_96::encrypt_block` as regenerated from the Rust source IS the model's `encryptBlock` -/
theorem speck48_96_encrypt_block_eq (k0 k1 k2 k3 k4 k5 k6 k7 k8 k9 k10 k11 k12 k13 k14 k15 k16 k17 k18 k19 k20 k21 k22 : BitVec 32) (b : BitVec 48) :
    unpackBE 6 (speck48_96_encrypt_block k0 k1 k2 k3 k4 k5 k6 k7 k8 k9 k10 k11 k12 k13 k14 k15 k16 k17 k18 k19 k20 k21 k22 b) =
      encryptBlock speck48_96 #[k0, k1, k2, k3, k4, k5, k6, k7, k8, k9, k10, k11, k12, k13, k14, k15, k16, k17, k18, k19, k20, k21, k22] (unpackBE 6 b) := by
  rw [encryptBlock_def, speck48_96_load, speck48_96_store, speck48_96_enc_core]; rfl

/-- `Speck48_96::decrypt_block` as regenerated from the Rust source IS the model's `decryptBlock` -/
theorem speck48_96_decrypt_block_eq (k0 k1 k2 k3 k4 k5 k6 k7 k8 k9 k10 k11 k12 k13 k14 k15 k16 k17 k18 k19 k20 k21 k22 : BitVec 32) (b : BitVec 48) :
    unpackBE 6 (speck48_96_decrypt_block k0 k1 k2 k3 k4 k5 k6 k7 k8 k9 k10 k11 k12 k13 k14 k15 k16 k17 k18 k19 k20 k21 k22 b) =
      decryptBlock speck48_96 #[k0, k1, k2, k3, k4, k5, k6, k7, k8, k9, k10, k11, k12, k13, k14, k15, k16, k17, k18, k19, k20, k21, k22] (unpackBE 6 b) := by
  rw [decryptBlock_def, speck48_96_load, speck48_96_store, speck48_96_dec_core]; rfl

/-- the same for an arbitrary `6`-byte block given as a byte list -/
theorem speck48_96_encryptBlock_bytes (k0 k1 k2 k3 k4 k5 k6 k7 k8 k9 k10 k11 k12 k13 k14 k15 k16 k17 k18 k19 k20 k21 k22 : BitVec 32) (bs : Bytes) (h : bs.length = 6) :
    encryptBlock speck48_96 #[k0, k1, k2, k3, k4, k5, k6, k7, k8, k9, k10, k11, k12, k13, k14, k15, k16, k17, k18, k19, k20, k21, k22] bs =
      unpackBE 6 (speck48_96_encrypt_block k0 k1 k2 k3 k4 k5 k6 k7 k8 k9 k10 k11 k12 k13 k14 k15 k16 k17 k18 k19 k20 k21 k22 (packBE 6 bs)) := by
  rw [speck48_96_encrypt_block_eq, unpackBE_packBE _ _ h]
theorem speck48_96_decryptBlock_bytes (k0 k1 k2 k3 k4 k5 k6 k7 k8 k9 k10 k11 k12 k13 k14 k15 k16 k17 k18 k19 k20 k21 k22 : BitVec 32) (bs : Bytes) (h : bs.length = 6) :
    decryptBlock speck48_96 #[k0, k1, k2, k3, k4, k5, k6, k7, k8, k9, k10, k11, k12, k13, k14, k15, k16, k17, k18, k19, k20, k21, k22] bs =
      unpackBE 6 (speck48_96_decrypt_block k0 k1 k2 k3 k4 k5 k6 k7 k8 k9 k10 k11 k12 k13 k14 k15 k16 k17 k18 k19 k20 k21 k22 (packBE 6 bs)) := by
  rw [speck48_96_decrypt_block_eq, unpackBE_packBE _ _ h]

/-! ### speck64_96: 8-byte block, 32-bit words in `u32`, 26 rounds -/

/-- the generated `x`, `y` (block bytes → carrier words) -/
def speck64_96_x (b : BitVec 64) : BitVec 32 := (b.extractLsb' 56 8) ++ (b.extractLsb' 48 8) ++ (b.extractLsb' 40 8) ++ (b.extractLsb' 32 8)
def speck64_96_y (b : BitVec 64) : BitVec 32 := (b.extractLsb' 24 8) ++ (b.extractLsb' 16 8) ++ (b.extractLsb' 8 8) ++ (b.extractLsb' 0 8)
/-- the generated output expression (carrier words → block) -/
def speck64_96_out (x y : BitVec 32) : BitVec 64 := (x.extractLsb' 24 8) ++ (x.extractLsb' 16 8) ++ (x.extractLsb' 8 8) ++ (x.extractLsb' 0 8) ++ (y.extractLsb' 24 8) ++ (y.extractLsb' 16 8) ++ (y.extractLsb' 8 8) ++ (y.extractLsb' 0 8)

theorem speck64_96_load_x (b : BitVec 64) : fromBE 32 [(b >>> 56).setWidth 8, (b >>> 48).setWidth 8, (b >>> 40).setWidth 8, (b >>> 32).setWidth 8] = speck64_96_x b := by
  simp only [fromBE_fold, List.foldl_cons, List.foldl_nil, speck64_96_x]
  bv_decide
theorem speck64_96_load_y (b : BitVec 64) : fromBE 32 [(b >>> 24).setWidth 8, (b >>> 16).setWidth 8, (b >>> 8).setWidth 8, (b >>> 0).setWidth 8] = speck64_96_y b := by
  simp only [fromBE_fold, List.foldl_cons, List.foldl_nil, speck64_96_y]
  bv_decide

theorem speck64_96_load (b : BitVec 64) :
    load speck64_96 (unpackBE 8 b) = ⟨speck64_96_x b, speck64_96_y b⟩ := by
  have h : load speck64_96 (unpackBE 8 b) =
      ⟨fromBE 32 [(b >>> 56).setWidth 8, (b >>> 48).setWidth 8, (b >>> 40).setWidth 8, (b >>> 32).setWidth 8], fromBE 32 [(b >>> 24).setWidth 8, (b >>> 16).setWidth 8, (b >>> 8).setWidth 8, (b >>> 0).setWidth 8]⟩ := rfl
  rw [h, speck64_96_load_x, speck64_96_load_y]

theorem speck64_96_store_bytes (x y : BitVec 32) :
    unpackBE 4 x ++ unpackBE 4 y = unpackBE 8 (speck64_96_out x y) := by
  have h2 : unpackBE 4 x ++ unpackBE 4 y = [(x >>> 24).setWidth 8, (x >>> 16).setWidth 8, (x >>> 8).setWidth 8, (x >>> 0).setWidth 8, (y >>> 24).setWidth 8, (y >>> 16).setWidth 8, (y >>> 8).setWidth 8, (y >>> 0).setWidth 8] := rfl
  have h3 : ∀ o : BitVec 64, unpackBE 8 o = [(o >>> 56).setWidth 8, (o >>> 48).setWidth 8, (o >>> 40).setWidth 8, (o >>> 32).setWidth 8, (o >>> 24).setWidth 8, (o >>> 16).setWidth 8, (o >>> 8).setWidth 8, (o >>> 0).setWidth 8] := fun _ => rfl
  rw [h2, h3]
  simp only [speck64_96_out, List.cons.injEq, and_true]
  bv_decide

theorem speck64_96_store (s : St speck64_96.cw) :
    store speck64_96 s = unpackBE 8 (speck64_96_out s.x s.y) := by
  have h1 : store speck64_96 s = unpackBE (speck64_96.n / 8) s.x ++ unpackBE (speck64_96.n / 8) s.y := by
    rw [store, toBE_eq, toBE_eq]
  exact h1.trans (speck64_96_store_bytes s.x s.y)

theorem speck64_96_enc_core (k0 k1 k2 k3 k4 k5 k6 k7 k8 k9 k10 k11 k12 k13 k14 k15 k16 k17 k18 k19 k20 k21 k22 k23 k24 k25 : BitVec 32) (b : BitVec 64) :
    speck64_96_encrypt_block k0 k1 k2 k3 k4 k5 k6 k7 k8 k9 k10 k11 k12 k13 k14 k15 k16 k17 k18 k19 k20 k21 k22 k23 k24 k25 b =
      speck64_96_out (encLoop speck64_96 #[k0, k1, k2, k3, k4, k5, k6, k7, k8, k9, k10, k11, k12, k13, k14, k15, k16, k17, k18, k19, k20, k21, k22, k23, k24, k25] 26 ⟨speck64_96_x b, speck64_96_y b⟩).x
        (encLoop speck64_96 #[k0, k1, k2, k3, k4, k5, k6, k7, k8, k9, k10, k11, k12, k13, k14, k15, k16, k17, k18, k19, k20, k21, k22, k23, k24, k25] 26 ⟨speck64_96_x b, speck64_96_y b⟩).y := by
  rfl

theorem speck64_96_dec_core (k0 k1 k2 k3 k4 k5 k6 k7 k8 k9 k10 k11 k12 k13 k14 k15 k16 k17 k18 k19 k20 k21 k22 k23 k24 k25 : BitVec 32) (b : BitVec 64) :
    speck64_96_decrypt_block k0 k1 k2 k3 k4 k5 k6 k7 k8 k9 k10 k11 k12 k13 k14 k15 k16 k17 k18 k19 k20 k21 k22 k23 k24 k25 b =
      speck64_96_out (decLoop speck64_96 #[k0, k1, k2, k3, k4, k5, k6, k7, k8, k9, k10, k11, k12, k13, k14, k15, k16, k17, k18, k19, k20, k21, k22, k23, k24, k25] 26 ⟨speck64_96_x b, speck64_96_y b⟩).x
        (decLoop speck64_96 #[k0, k1, k2, k3, k4, k5, k6, k7, k8, k9, k10, k11, k12, k13, k14, k15, k16, k17, k18, k19, k20, k21, k22, k23, k24, k25] 26 ⟨speck64_96_x b, speck64_96_y b⟩).y := by
  rfl

/-- `Speck64_96::encrypt_block` as regenerated from the Rust source IS the model's `encryptBlock` -/
theorem speck64_96_encrypt_block_eq (k0 k1 k2 k3 k4 k5 k6 k7 k8 k9 k10 k11 k12 k13 k14 k15 k16 k17 k18 k19 k20 k21 k22 k23 k24 k25 : BitVec 32) (b : BitVec 64) :
    unpackBE 8 (speck64_96_encrypt_block k0 k1 k2 k3 k4 k5 k6 k7 k8 k9 k10 k11 k12 k13 k14 k15 k16 k17 k18 k19 k20 k21 k22 k23 k24 k25 b) =
      encryptBlock speck64_96 #[k0, k1, k2, k3, k4, k5, k6, k7, k8, k9, k10, k11, k12, k13, k14, k15, k16, k17, k18, k19, k20, k21, k22, k23, k24, k25] (unpackBE 8 b) := by
  rw [encryptBlock_def, speck64_96_load, speck64_96_store, speck64_96_enc_core]; rfl

/-- `Speck64_96::decrypt_block` as regenerated from the Rust source IS the model's `decryptBlock` -/
theorem speck64_96_decrypt_block_eq (k0 k1 k2 k3 k4 k5 k6 k7 k8 k9 k10 k11 k12 k13 k14 k15 k16 k17 k18 k19 k20 k21 k22 k23 k24 k25 : BitVec 32) (b : BitVec 64) :
    unpackBE 8 (speck64_96_decrypt_block k0 k1 k2 k3 k4 k5 k6 k7 k8 k9 k10 k11 k12 k13 k14 k15 k16 k17 k18 k19 k20 k21 k22 k23 k24 k25 b) =
      decryptBlock speck64_96 #[k0, k1, k2, k3, k4, k5, k6, k7, k8, k9, k10, k11, k12, k13, k14, k15, k16, k17, k18, k19, k20, k21, k22, k23, k24, k25] (unpackBE 8 b) := by
  rw [decryptBlock_def, speck64_96_load, speck64_96_store, speck64_96_dec_core]; rfl

/-- the same for an arbitrary `8`-byte block given as a byte list -/
theorem speck64_96_encryptBlock_bytes (k0 k1 k2 k3 k4 k5 k6 k7 k8 k9 k10 k11 k12 k13 k14 k15 k16 k17 k18 k19 k20 k21 k22 k23 k24 k25 : BitVec 32) (bs : Bytes) (h : bs.length = 8) :
    encryptBlock speck64_96 #[k0, k1, k2, k3, k4, k5, k6, k7, k8, k9, k10, k11, k12, k13, k14, k15, k16, k17, k18, k19, k20, k21, k22, k23, k24, k25] bs =
      unpackBE 8 (speck64_96_encrypt_block k0 k1 k2 k3 k4 k5 k6 k7 k8 k9 k10 k11 k12 k13 k14 k15 k16 k17 k18 k19 k20 k21 k22 k23 k24 k25 (packBE 8 bs)) := by
  rw [speck64_96_encrypt_block_eq, unpackBE_packBE _ _ h]
theorem speck64_96_decryptBlock_bytes (k0 k1 k2 k3 k4 k5 k6 k7 k8 k9 k10 k11 k12 k13 k14 k15 k16 k17 k18 k19 k20 k21 k22 k23 k24 k25 : BitVec 32) (bs : Bytes) (h : bs.length = 8) :
    decryptBlock speck64_96 #[k0, k1, k2, k3, k4, k5, k6, k7, k8, k9, k10, k11, k12, k13, k14, k15, k16, k17, k18, k19, k20, k21, k22, k23, k24, k25] bs =
      unpackBE 8 (speck64_96_decrypt_block k0 k1 k2 k3 k4 k5 k6 k7 k8 k9 k10 k11 k12 k13 k14 k15 k16 k17 k18 k19 k20 k21 k22 k23 k24 k25 (packBE 8 bs)) := by
  rw [speck64_96_decrypt_block_eq, unpackBE_packBE _ _ h]

/-! ### speck64_128: 8-byte block, 32-bit words in `u32`, 27 rounds -/

/-- the generated `x`, `y` (block bytes → carrier words) -/
def speck64_128_x (b : BitVec 64) : BitVec 32 := (b.extractLsb' 56 8) ++ (b.extractLsb' 48 8) ++ (b.extractLsb' 40 8) ++ (b.extractLsb' 32 8)
def speck64_128_y (b : BitVec 64) : BitVec 32 := (b.extractLsb' 24 8) ++ (b.extractLsb' 16 8) ++ (b.extractLsb' 8 8) ++ (b.extractLsb' 0 8)
/-- the generated output expression (carrier words → block) -/
def speck64_128_out (x y : BitVec 32) : BitVec 64 := (x.extractLsb' 24 8) ++ (x.extractLsb' 16 8) ++ (x.extractLsb' 8 8) ++ (x.extractLsb' 0 8) ++ (y.extractLsb' 24 8) ++ (y.extractLsb' 16 8) ++ (y.extractLsb' 8 8) ++ (y.extractLsb' 0 8)

theorem speck64_128_load_x (b : BitVec 64) : fromBE 32 [(b >>> 56).setWidth 8, (b >>> 48).setWidth 8, (b >>> 40).setWidth 8, (b >>> 32).setWidth 8] = speck64_128_x b := by
  simp only [fromBE_fold, List.foldl_cons, List.foldl_nil, speck64_128_x]
  bv_decide
theorem speck64_128_load_y (b : BitVec 64) : fromBE 32 [(b >>> 24).setWidth 8, (b >>> 16).setWidth 8, (b >>> 8).setWidth 8, (b >>> 0).setWidth 8] = speck64_128_y b := by
  simp only [fromBE_fold, List.foldl_cons, List.foldl_nil, speck64_128_y]
  bv_decide

theorem speck64_128_load (b : BitVec 64) :
    load speck64_128 (unpackBE 8 b) = ⟨speck64_128_x b, speck64_128_y b⟩ := by
  have h : load speck64_128 (unpackBE 8 b) =
      ⟨fromBE 32 [(b >>> 56).setWidth 8, (b >>> 48).setWidth 8, (b >>> 40).setWidth 8, (b >>> 32).setWidth 8], fromBE 32 [(b >>> 24).setWidth 8, (b >>> 16).setWidth 8, (b >>> 8).setWidth 8, (b >>> 0).setWidth 8]⟩ := rfl
  rw [h, speck64_128_load_x, speck64_128_load_y]

theorem speck64_128_store_bytes (x y : BitVec 32) :
    unpackBE 4 x ++ unpackBE 4 y = unpackBE 8 (speck64_128_out x y) := by
  have h2 : unpackBE 4 x ++ unpackBE 4 y = [(x >>> 24).setWidth 8, (x >>> 16).setWidth 8, (x >>> 8).setWidth 8, (x >>> 0).setWidth 8, (y >>> 24).setWidth 8, (y >>> 16).setWidth 8, (y >>> 8).setWidth 8, (y >>> 0).setWidth 8] := rfl
  have h3 : ∀ o : BitVec 64, unpackBE 8 o = [(o >>> 56).setWidth 8, (o >>> 48).setWidth 8, (o >>> 40).setWidth 8, (o >>> 32).setWidth 8, (o >>> 24).setWidth 8, (o >>> 16).setWidth 8, (o >>> 8).setWidth 8, (o >>> 0).setWidth 8] := fun _ => rfl
  rw [h2, h3]
  simp only [speck64_128_out, List.cons.injEq, and_true]
  bv_decide

theorem speck64_128_store (s : St speck64_128.cw) :
    store speck64_128 s = unpackBE 8 (speck64_128_out s.x s.y) := by
  have h1 : store speck64_128 s = unpackBE (speck64_128.n / 8) s.x ++ unpackBE (speck64_128.n / 8) s.y := by
    rw [store, toBE_eq, toBE_eq]
  exact h1.trans (speck64_128_store_bytes s.x s.y)

theorem speck64_128_enc_core (k0 k1 k2 k3 k4 k5 k6 k7 k8 k9 k10 k11 k12 k13 k14 k15 k16 k17 k18 k19 k20 k21 k22 k23 k24 k25 k26 : BitVec 32) (b : BitVec 64) :
    speck64_128_encrypt_block k0 k1 k2 k3 k4 k5 k6 k7 k8 k9 k10 k11 k12 k13 k14 k15 k16 k17 k18 k19 k20 k21 k22 k23 k24 k25 k26 b =
      speck64_128_out (encLoop speck64_128 #[k0, k1, k2, k3, k4, k5, k6, k7, k8, k9, k10, k11, k12, k13, k14, k15, k16, k17, k18, k19, k20, k21, k22, k23, k24, k25, k26] 27 ⟨speck64_128_x b, speck64_128_y b⟩).x
        (encLoop speck64_128 #[k0, k1, k2, k3, k4, k5, k6, k7, k8, k9, k10, k11, k12, k13, k14, k15, k16, k17, k18, k19, k20, k21, k22, k23, k24, k25, k26] 27 ⟨speck64_128_x b, speck64_128_y b⟩).y := by
  rfl

theorem speck64_128_dec_core (k0 k1 k2 k3 k4 k5 k6 k7 k8 k9 k10 k11 k12 k13 k14 k15 k16 k17 k18 k19 k20 k21 k22 k23 k24 k25 k26 : BitVec 32) (b : BitVec 64) :
    speck64_128_decrypt_block k0 k1 k2 k3 k4 k5 k6 k7 k8 k9 k10 k11 k12 k13 k14 k15 k16 k17 k18 k19 k20 k21 k22 k23 k24 k25 k26 b =
      speck64_128_out (decLoop speck64_128 #[k0, k1, k2, k3, k4, k5, k6, k7, k8, k9, k10, k11, k12, k13, k14, k15, k16, k17, k18, k19, k20, k21, k22, k23, k24, k25, k26] 27 ⟨speck64_128_x b, speck64_128_y b⟩).x
        (decLoop speck64_128 #[k0, k1, k2, k3, k4, k5, k6, k7, k8, k9, k10, k11, k12, k13, k14, k15, k16, k17, k18, k19, k20, k21, k22, k23, k24, k25, k26] 27 ⟨speck64_128_x b, speck64_128_y b⟩).y := by
  rfl

/-- `Speck64_128::encrypt_block` as regenerated from the Rust source IS the model's `encryptBlock` -/
theorem speck64_128_encrypt_block_eq (k0 k1 k2 k3 k4 k5 k6 k7 k8 k9 k10 k11 k12 k13 k14 k15 k16 k17 k18 k19 k20 k21 k22 k23 k24 k25 k26 : BitVec 32) (b : BitVec 64) :
    unpackBE 8 (speck64_128_encrypt_block k0 k1 k2 k3 k4 k5 k6 k7 k8 k9 k10 k11 k12 k13 k14 k15 k16 k17 k18 k19 k20 k21 k22 k23 k24 k25 k26 b) =
      encryptBlock speck64_128 #[k0, k1, k2, k3, k4, k5, k6, k7, k8, k9, k10, k11, k12, k13, k14, k15, k16, k17, k18, k19, k20, k21, k22, k23, k24, k25, k26] (unpackBE 8 b) := by
  rw [encryptBlock_def, speck64_128_load, speck64_128_store, speck64_128_enc_core]; rfl

/-- `Speck64_128::decrypt_block` as regenerated from the Rust source IS the model's `decryptBlock` -/
theorem speck64_128_decrypt_block_eq (k0 k1 k2 k3 k4 k5 k6 k7 k8 k9 k10 k11 k12 k13 k14 k15 k16 k17 k18 k19 k20 k21 k22 k23 k24 k25 k26 : BitVec 32) (b : BitVec 64) :
    unpackBE 8 (speck64_128_decrypt_block k0 k1 k2 k3 k4 k5 k6 k7 k8 k9 k10 k11 k12 k13 k14 k15 k16 k17 k18 k19 k20 k21 k22 k23 k24 k25 k26 b) =
      decryptBlock speck64_128 #[k0, k1, k2, k3, k4, k5, k6, k7, k8, k9, k10, k11, k12, k13, k14, k15, k16, k17, k18, k19, k20, k21, k22, k23, k24, k25, k26] (unpackBE 8 b) := by
  rw [decryptBlock_def, speck64_128_load, speck64_128_store, speck64_128_dec_core]; rfl

/-- the same for an arbitrary `8`-byte block given as a byte list -/
theorem speck64_128_encryptBlock_bytes (k0 k1 k2 k3 k4 k5 k6 k7 k8 k9 k10 k11 k12 k13 k14 k15 k16 k17 k18 k19 k20 k21 k22 k23 k24 k25 k26 : BitVec 32) (bs : Bytes) (h : bs.length = 8) :
    encryptBlock speck64_128 #[k0, k1, k2, k3, k4, k5, k6, k7, k8, k9, k10, k11, k12, k13, k14, k15, k16, k17, k18, k19, k20, k21, k22, k23, k24, k25, k26] bs =
      unpackBE 8 (speck64_128_encrypt_block k0 k1 k2 k3 k4 k5 k6 k7 k8 k9 k10 k11 k12 k13 k14 k15 k16 k17 k18 k19 k20 k21 k22 k23 k24 k25 k26 (packBE 8 bs)) := by
  rw [speck64_128_encrypt_block_eq, unpackBE_packBE _ _ h]
theorem speck64_128_decryptBlock_bytes (k0 k1 k2 k3 k4 k5 k6 k7 k8 k9 k10 k11 k12 k13 k14 k15 k16 k17 k18 k19 k20 k21 k22 k23 k24 k25 k26 : BitVec 32) (bs : Bytes) (h : bs.length = 8) :
    decryptBlock speck64_128 #[k0, k1, k2, k3, k4, k5, k6, k7, k8, k9, k10, k11, k12, k13, k14, k15, k16, k17, k18, k19, k20, k21, k22, k23, k24, k25, k26] bs =
      unpackBE 8 (speck64_128_decrypt_block k0 k1 k2 k3 k4 k5 k6 k7 k8 k9 k10 k11 k12 k13 k14 k15 k16 k17 k18 k19 k20 k21 k22 k23 k24 k25 k26 (packBE 8 bs)) := by
  rw [speck64_128_decrypt_block_eq, unpackBE_packBE _ _ h]

/-! ### speck96_96: 12-byte block, 48-bit words in `u64`, 28 rounds -/

/-- the generated `x`, `y` (block bytes → carrier words) -/
def speck96_96_x (b : BitVec 96) : BitVec 64 := 0x0#8 ++ 0x0#8 ++ (b.extractLsb' 88 8) ++ (b.extractLsb' 80 8) ++ (b.extractLsb' 72 8) ++ (b.extractLsb' 64 8) ++ (b.extractLsb' 56 8) ++ (b.extractLsb' 48 8)
def speck96_96_y (b : BitVec 96) : BitVec 64 := 0x0#8 ++ 0x0#8 ++ (b.extractLsb' 40 8) ++ (b.extractLsb' 32 8) ++ (b.extractLsb' 24 8) ++ (b.extractLsb' 16 8) ++ (b.extractLsb' 8 8) ++ (b.extractLsb' 0 8)
/-- the generated output expression (carrier words → block) -/
def speck96_96_out (x y : BitVec 64) : BitVec 96 := (x.extractLsb' 40 8) ++ (x.extractLsb' 32 8) ++ (x.extractLsb' 24 8) ++ (x.extractLsb' 16 8) ++ (x.extractLsb' 8 8) ++ (x.extractLsb' 0 8) ++ (y.extractLsb' 40 8) ++ (y.extractLsb' 32 8) ++ (y.extractLsb' 24 8) ++ (y.extractLsb' 16 8) ++ (y.extractLsb' 8 8) ++ (y.extractLsb' 0 8)

theorem speck96_96_load_x (b : BitVec 96) : fromBE 64 [(b >>> 88).setWidth 8, (b >>> 80).setWidth 8, (b >>> 72).setWidth 8, (b >>> 64).setWidth 8, (b >>> 56).setWidth 8, (b >>> 48).setWidth 8] = speck96_96_x b := by
  simp only [fromBE_fold, List.foldl_cons, List.foldl_nil, speck96_96_x]
  bv_decide
theorem speck96_96_load_y (b : BitVec 96) : fromBE 64 [(b >>> 40).setWidth 8, (b >>> 32).setWidth 8, (b >>> 24).setWidth 8, (b >>> 16).setWidth 8, (b >>> 8).setWidth 8, (b >>> 0).setWidth 8] = speck96_96_y b := by
  simp only [fromBE_fold, List.foldl_cons, List.foldl_nil, speck96_96_y]
  bv_decide

theorem speck96_96_load (b : BitVec 96) :
    load speck96_96 (unpackBE 12 b) = ⟨speck96_96_x b, speck96_96_y b⟩ := by
  have h : load speck96_96 (unpackBE 12 b) =
      ⟨fromBE 64 [(b >>> 88).setWidth 8, (b >>> 80).setWidth 8, (b >>> 72).setWidth 8, (b >>> 64).setWidth 8, (b >>> 56).setWidth 8, (b >>> 48).setWidth 8], fromBE 64 [(b >>> 40).setWidth 8, (b >>> 32).setWidth 8, (b >>> 24).setWidth 8, (b >>> 16).setWidth 8, (b >>> 8).setWidth 8, (b >>> 0).setWidth 8]⟩ := rfl
  rw [h, speck96_96_load_x, speck96_96_load_y]

theorem speck96_96_store_bytes (x y : BitVec 64) :
    unpackBE 6 x ++ unpackBE 6 y = unpackBE 12 (speck96_96_out x y) := by
  have h2 : unpackBE 6 x ++ unpackBE 6 y = [(x >>> 40).setWidth 8, (x >>> 32).setWidth 8, (x >>> 24).setWidth 8, (x >>> 16).setWidth 8, (x >>> 8).setWidth 8, (x >>> 0).setWidth 8, (y >>> 40).setWidth 8, (y >>> 32).setWidth 8, (y >>> 24).setWidth 8, (y >>> 16).setWidth 8, (y >>> 8).setWidth 8, (y >>> 0).setWidth 8] := rfl
  have h3 : ∀ o : BitVec 96, unpackBE 12 o = [(o >>> 88).setWidth 8, (o >>> 80).setWidth 8, (o >>> 72).setWidth 8, (o >>> 64).setWidth 8, (o >>> 56).setWidth 8, (o >>> 48).setWidth 8, (o >>> 40).setWidth 8, (o >>> 32).setWidth 8, (o >>> 24).setWidth 8, (o >>> 16).setWidth 8, (o >>> 8).setWidth 8, (o >>> 0).setWidth 8] := fun _ => rfl
  rw [h2, h3]
  simp only [speck96_96_out, List.cons.injEq, and_true]
  bv_decide

theorem speck96_96_store (s : St speck96_96.cw) :
    store speck96_96 s = unpackBE 12 (speck96_96_out s.x s.y) := by
  have h1 : store speck96_96 s = unpackBE (speck96_96.n / 8) s.x ++ unpackBE (speck96_96.n / 8) s.y := by
    rw [store, toBE_eq, toBE_eq]
  exact h1.trans (speck96_96_store_bytes s.x s.y)

theorem speck96_96_enc_core (k0 k1 k2 k3 k4 k5 k6 k7 k8 k9 k10 k11 k12 k13 k14 k15 k16 k17 k18 k19 k20 k21 k22 k23 k24 k25 k26 k27 : BitVec 64) (b : BitVec 96) :
    speck96_96_encrypt_block k0 k1 k2 k3 k4 k5 k6 k7 k8 k9 k10 k11 k12 k13 k14 k15 k16 k17 k18 k19 k20 k21 k22 k23 k24 k25 k26 k27 b =
      speck96_96_out (encLoop speck96_96 #[k0, k1, k2, k3, k4, k5, k6, k7, k8, k9, k10, k11, k12, k13, k14, k15, k16, k17, k18, k19, k20, k21, k22, k23, k24, k25, k26, k27] 28 ⟨speck96_96_x b, speck96_96_y b⟩).x
        (encLoop speck96_96 #[k0, k1, k2, k3, k4, k5, k6, k7, k8, k9, k10, k11, k12, k13, k14, k15, k16, k17, k18, k19, k20, k21, k22, k23, k24, k25, k26, k27] 28 ⟨speck96_96_x b, speck96_96_y b⟩).y := by
  rfl

theorem speck96_96_dec_core (k0 k1 k2 k3 k4 k5 k6 k7 k8 k9 k10 k11 k12 k13 k14 k15 k16 k17 k18 k19 k20 k21 k22 k23 k24 k25 k26 k27 : BitVec 64) (b : BitVec 96) :
    speck96_96_decrypt_block k0 k1 k2 k3 k4 k5 k6 k7 k8 k9 k10 k11 k12 k13 k14 k15 k16 k17 k18 k19 k20 k21 k22 k23 k24 k25 k26 k27 b =
      speck96_96_out (decLoop speck96_96 #[k0, k1, k2, k3, k4, k5, k6, k7, k8, k9, k10, k11, k12, k13, k14, k15, k16, k17, k18, k19, k20, k21, k22, k23, k24, k25, k26, k27] 28 ⟨speck96_96_x b, speck96_96_y b⟩).x
        (decLoop speck96_96 #[k0, k1, k2, k3, k4, k5, k6, k7, k8, k9, k10, k11, k12, k13, k14, k15, k16, k17, k18, k19, k20, k21, k22, k23, k24, k25, k26, k27] 28 ⟨speck96_96_x b, speck96_96_y b⟩).y := by
  rfl

/-- `Speck96_96::encrypt_block` as regenerated from the Rust source IS the model's `encryptBlock` -/
theorem speck96_96_encrypt_block_eq (k0 k1 k2 k3 k4 k5 k6 k7 k8 k9 k10 k11 k12 k13 k14 k15 k16 k17 k18 k19 k20 k21 k22 k23 k24 k25 k26 k27 : BitVec 64) (b : BitVec 96) :
    unpackBE 12 (speck96_96_encrypt_block k0 k1 k2 k3 k4 k5 k6 k7 k8 k9 k10 k11 k12 k13 k14 k15 k16 k17 k18 k19 k20 k21 k22 k23 k24 k25 k26 k27 b) =
      encryptBlock speck96_96 #[k0, k1, k2, k3, k4, k5, k6, k7, k8, k9, k10, k11, k12, k13, k14, k15, k16, k17, k18, k19, k20, k21, k22, k23, k24, k25, k26, k27] (unpackBE 12 b) := by
  rw [encryptBlock_def, speck96_96_load, speck96_96_store, speck96_96_enc_core]; rfl

/-- `Speck96_96::decrypt_block` as regenerated from the Rust source IS the model's `decryptBlock` -/
theorem speck96_96_decrypt_block_eq (k0 k1 k2 k3 k4 k5 k6 k7 k8 k9 k10 k11 k12 k13 k14 k15 k16 k17 k18 k19 k20 k21 k22 k23 k24 k25 k26 k27 : BitVec 64) (b : BitVec 96) :
    unpackBE 12 (speck96_96_decrypt_block k0 k1 k2 k3 k4 k5 k6 k7 k8 k9 k10 k11 k12 k13 k14 k15 k16 k17 k18 k19 k20 k21 k22 k23 k24 k25 k26 k27 b) =
      decryptBlock speck96_96 #[k0, k1, k2, k3, k4, k5, k6, k7, k8, k9, k10, k11, k12, k13, k14, k15, k16, k17, k18, k19, k20, k21, k22, k23, k24, k25, k26, k27] (unpackBE 12 b) := by
  rw [decryptBlock_def, speck96_96_load, speck96_96_store, speck96_96_dec_core]; rfl

/-- the same for an arbitrary `12`-byte block given as a byte list -/
theorem speck96_96_encryptBlock_bytes (k0 k1 k2 k3 k4 k5 k6 k7 k8 k9 k10 k11 k12 k13 k14 k15 k16 k17 k18 k19 k20 k21 k22 k23 k24 k25 k26 k27 : BitVec 64) (bs : Bytes) (h : bs.length = 12) :
    encryptBlock speck96_96 #[k0, k1, k2, k3, k4, k5, k6, k7, k8, k9, k10, k11, k12, k13, k14, k15, k16, k17, k18, k19, k20, k21, k22, k23, k24, k25, k26, k27] bs =
      unpackBE 12 (speck96_96_encrypt_block k0 k1 k2 k3 k4 k5 k6 k7 k8 k9 k10 k11 k12 k13 k14 k15 k16 k17 k18 k19 k20 k21 k22 k23 k24 k25 k26 k27 (packBE 12 bs)) := by
  rw [speck96_96_encrypt_block_eq, unpackBE_packBE _ _ h]
theorem speck96_96_decryptBlock_bytes (k0 k1 k2 k3 k4 k5 k6 k7 k8 k9 k10 k11 k12 k13 k14 k15 k16 k17 k18 k19 k20 k21 k22 k23 k24 k25 k26 k27 : BitVec 64) (bs : Bytes) (h : bs.length = 12) :
    decryptBlock speck96_96 #[k0, k1, k2, k3, k4, k5, k6, k7, k8, k9, k10, k11, k12, k13, k14, k15, k16, k17, k18, k19, k20, k21, k22, k23, k24, k25, k26, k27] bs =
      unpackBE 12 (speck96_96_decrypt_block k0 k1 k2 k3 k4 k5 k6 k7 k8 k9 k10 k11 k12 k13 k14 k15 k16 k17 k18 k19 k20 k21 k22 k23 k24 k25 k26 k27 (packBE 12 bs)) := by
  rw [speck96_96_decrypt_block_eq, unpackBE_packBE _ _ h]

/-! ### speck96_144: 12-byte block, 48-bit words in `u64`, 29 rounds -/

/-- the generated `x`, `y` (block bytes → carrier words) -/
def speck96_144_x (b : BitVec 96) : BitVec 64 := 0x0#8 ++ 0x0#8 ++ (b.extractLsb' 88 8) ++ (b.extractLsb' 80 8) ++ (b.extractLsb' 72 8) ++ (b.extractLsb' 64 8) ++ (b.extractLsb' 56 8) ++ (b.extractLsb' 48 8)
def speck96_144_y (b : BitVec 96) : BitVec 64 := 0x0#8 ++ 0x0#8 ++ (b.extractLsb' 40 8) ++ (b.extractLsb' 32 8) ++ (b.extractLsb' 24 8) ++ (b.extractLsb' 16 8) ++ (b.extractLsb' 8 8) ++ (b.extractLsb' 0 8)
/-- the generated output expression (carrier words → block) -/
def speck96_144_out (x y : BitVec 64) : BitVec 96 := (x.extractLsb' 40 8) ++ (x.extractLsb' 32 8) ++ (x.extractLsb' 24 8) ++ (x.extractLsb' 16 8) ++ (x.extractLsb' 8 8) ++ (x.extractLsb' 0 8) ++ (y.extractLsb' 40 8) ++ (y.extractLsb' 32 8) ++ (y.extractLsb' 24 8) ++ (y.extractLsb' 16 8) ++ (y.extractLsb' 8 8) ++ (y.extractLsb' 0 8)

theorem speck96_144_load_x (b : BitVec 96) : fromBE 64 [(b >>> 88).setWidth 8, (b >>> 80).setWidth 8, (b >>> 72).setWidth 8, (b >>> 64).setWidth 8, (b >>> 56).setWidth 8, (b >>> 48).setWidth 8] = speck96_144_x b := by
  simp only [fromBE_fold, List.foldl_cons, List.foldl_nil, speck96_144_x]
  bv_decide
theorem speck96_144_load_y (b : BitVec 96) : fromBE 64 [(b >>> 40).setWidth 8, (b >>> 32).setWidth 8, (b >>> 24).setWidth 8, (b >>> 16).setWidth 8, (b >>> 8).setWidth 8, (b >>> 0).setWidth 8] = speck96_144_y b := by
  simp only [fromBE_fold, List.foldl_cons, List.foldl_nil, speck96_144_y]
  bv_decide

theorem speck96_144_load (b : BitVec 96) :
    load speck96_144 (unpackBE 12 b) = ⟨speck96_144_x b, speck96_144_y b⟩ := by
  have h : load speck96_144 (unpackBE 12 b) =
      ⟨fromBE 64 [(b >>> 88).setWidth 8, (b >>> 80).setWidth 8, (b >>> 72).setWidth 8, (b >>> 64).setWidth 8, (b >>> 56).setWidth 8, (b >>> 48).setWidth 8], fromBE 64 [(b >>> 40).setWidth 8, (b >>> 32).setWidth 8, (b >>> 24).setWidth 8, (b >>> 16).setWidth 8, (b >>> 8).setWidth 8, (b >>> 0).setWidth 8]⟩ := rfl
  rw [h, speck96_144_load_x, speck96_144_load_y]

theorem speck96_144_store_bytes (x y : BitVec 64) :
    unpackBE 6 x ++ unpackBE 6 y = unpackBE 12 (speck96_144_out x y) := by
  have h2 : unpackBE 6 x ++ unpackBE 6 y = [(x >>> 40).setWidth 8, (x >>> 32).setWidth 8, (x >>> 24).setWidth 8, (x >>> 16).setWidth 8, (x >>> 8).setWidth 8, (x >>> 0).setWidth 8, (y >>> 40).setWidth 8, (y >>> 32).setWidth 8, (y >>> 24).setWidth 8, (y >>> 16).setWidth 8, (y >>> 8).setWidth 8, (y >>> 0).setWidth 8] := rfl
  have h3 : ∀ o : BitVec 96, unpackBE 12 o = [(o >>> 88).setWidth 8, (o >>> 80).setWidth 8, (o >>> 72).setWidth 8, (o >>> 64).setWidth 8, (o >>> 56).setWidth 8, (o >>> 48).setWidth 8, (o >>> 40).setWidth 8, (o >>> 32).setWidth 8, (o >>> 24).setWidth 8, (o >>> 16).setWidth 8, (o >>> 8).setWidth 8, (o >>> 0).setWidth 8] := fun _ => rfl
  rw [h2, h3]
  simp only [speck96_144_out, List.cons.injEq, and_true]
  bv_decide

theorem speck96_144_store (s : St speck96_144.cw) :
    store speck96_144 s = unpackBE 12 (speck96_144_out s.x s.y) := by
  have h1 : store speck96_144 s = unpackBE (speck96_144.n / 8) s.x ++ unpackBE (speck96_144.n / 8) s.y := by
    rw [store, toBE_eq, toBE_eq]
  exact h1.trans (speck96_144_store_bytes s.x s.y)

theorem speck96_144_enc_core (k0 k1 k2 k3 k4 k5 k6 k7 k8 k9 k10 k11 k12 k13 k14 k15 k16 k17 k18 k19 k20 k21 k22 k23 k24 k25 k26 k27 k28 : BitVec 64) (b : BitVec 96) :
    speck96_144_encrypt_block k0 k1 k2 k3 k4 k5 k6 k7 k8 k9 k10 k11 k12 k13 k14 k15 k16 k17 k18 k19 k20 k21 k22 k23 k24 k25 k26 k27 k28 b =
      speck96_144_out (encLoop speck96_144 #[k0, k1, k2, k3, k4, k5, k6, k7, k8, k9, k10, k11, k12, k13, k14, k15, k16, k17, k18, k19, k20, k21, k22, k23, k24, k25, k26, k27, k28] 29 ⟨speck96_144_x b, speck96_144_y b⟩).x
        (encLoop speck96_144 #[k0, k1, k2, k3, k4, k5, k6, k7, k8, k9, k10, k11, k12, k13, k14, k15, k16, k17, k18, k19, k20, k21, k22, k23, k24, k25, k26, k27, k28] 29 ⟨speck96_144_x b, speck96_144_y b⟩).y := by
  rfl

theorem speck96_144_dec_core (k0 k1 k2 k3 k4 k5 k6 k7 k8 k9 k10 k11 k12 k13 k14 k15 k16 k17 k18 k19 k20 k21 k22 k23 k24 k25 k26 k27 k28 : BitVec 64) (b : BitVec 96) :
    speck96_144_decrypt_block k0 k1 k2 k3 k4 k5 k6 k7 k8 k9 k10 k11 k12 k13 k14 k15 k16 k17 k18 k19 k20 k21 k22 k23 k24 k25 k26 k27 k28 b =
      speck96_144_out (decLoop speck96_144 #[k0, k1, k2, k3, k4, k5, k6, k7, k8, k9, k10, k11, k12, k13, k14, k15, k16, k17, k18, k19, k20, k21, k22, k23, k24, k25, k26, k27, k28] 29 ⟨speck96_144_x b, speck96_144_y b⟩).x
        (decLoop speck96_144 #[k0, k1, k2, k3, k4, k5, k6, k7, k8, k9, k10, k11, k12, k13, k14, k15, k16, k17, k18, k19, k20, k21, k22, k23, k24, k25, k26, k27, k28] 29 ⟨speck96_144_x b, speck96_144_y b⟩).y := by
  rfl

/-- `Speck96_144::encrypt_block` as regenerated from the Rust source IS the model's `encryptBlock` -/
theorem speck96_144_encrypt_block_eq (k0 k1 k2 k3 k4 k5 k6 k7 k8 k9 k10 k11 k12 k13 k14 k15 k16 k17 k18 k19 k20 k21 k22 k23 k24 k25 k26 k27 k28 : BitVec 64) (b : BitVec 96) :
    unpackBE 12 (speck96_144_encrypt_block k0 k1 k2 k3 k4 k5 k6 k7 k8 k9 k10 k11 k12 k13 k14 k15 k16 k17 k18 k19 k20 k21 k22 k23 k24 k25 k26 k27 k28 b) =
      encryptBlock speck96_144 #[k0, k1, k2, k3, k4, k5, k6, k7, k8, k9, k10, k11, k12, k13, k14, k15, k16, k17, k18, k19, k20, k21, k22, k23, k24, k25, k26, k27, k28] (unpackBE 12 b) := by
  rw [encryptBlock_def, speck96_144_load, speck96_144_store, speck96_144_enc_core]; rfl

/-- `Speck96_144::decrypt_block` as regenerated from the Rust source IS the model's `decryptBlock` -/
theorem speck96_144_decrypt_block_eq (k0 k1 k2 k3 k4 k5 k6 k7 k8 k9 k10 k11 k12 k13 k14 k15 k16 k17 k18 k19 k20 k21 k22 k23 k24 k25 k26 k27 k28 : BitVec 64) (b : BitVec 96) :
    unpackBE 12 (speck96_144_decrypt_block k0 k1 k2 k3 k4 k5 k6 k7 k8 k9 k10 k11 k12 k13 k14 k15 k16 k17 k18 k19 k20 k21 k22 k23 k24 k25 k26 k27 k28 b) =
      decryptBlock speck96_144 #[k0, k1, k2, k3, k4, k5, k6, k7, k8, k9, k10, k11, k12, k13, k14, k15, k16, k17, k18, k19, k20, k21, k22, k23, k24, k25, k26, k27, k28] (unpackBE 12 b) := by
  rw [decryptBlock_def, speck96_144_load, speck96_144_store, speck96_144_dec_core]; rfl

/-- the same for an arbitrary `12`-byte block given as a byte list -/
theorem speck96_144_encryptBlock_bytes (k0 k1 k2 k3 k4 k5 k6 k7 k8 k9 k10 k11 k12 k13 k14 k15 k16 k17 k18 k19 k20 k21 k22 k23 k24 k25 k26 k27 k28 : BitVec 64) (bs : Bytes) (h : bs.length = 12) :
    encryptBlock speck96_144 #[k0, k1, k2, k3, k4, k5, k6, k7, k8, k9, k10, k11, k12, k13, k14, k15, k16, k17, k18, k19, k20, k21, k22, k23, k24, k25, k26, k27, k28] bs =
      unpackBE 12 (speck96_144_encrypt_block k0 k1 k2 k3 k4 k5 k6 k7 k8 k9 k10 k11 k12 k13 k14 k15 k16 k17 k18 k19 k20 k21 k22 k23 k24 k25 k26 k27 k28 (packBE 12 bs)) := by
  rw [speck96_144_encrypt_block_eq, unpackBE_packBE _ _ h]
theorem speck96_144_decryptBlock_bytes (k0 k1 k2 k3 k4 k5 k6 k7 k8 k9 k10 k11 k12 k13 k14 k15 k16 k17 k18 k19 k20 k21 k22 k23 k24 k25 k26 k27 k28 : BitVec 64) (bs : Bytes) (h : bs.length = 12) :
    decryptBlock speck96_144 #[k0, k1, k2, k3, k4, k5, k6, k7, k8, k9, k10, k11, k12, k13, k14, k15, k16, k17, k18, k19, k20, k21, k22, k23, k24, k25, k26, k27, k28] bs =
      unpackBE 12 (speck96_144_decrypt_block k0 k1 k2 k3 k4 k5 k6 k7 k8 k9 k10 k11 k12 k13 k14 k15 k16 k17 k18 k19 k20 k21 k22 k23 k24 k25 k26 k27 k28 (packBE 12 bs)) := by
  rw [speck96_144_decrypt_block_eq, unpackBE_packBE _ _ h]

/-! ### speck128_128: 16-byte block, 64-bit words in `u64`, 32 rounds -/

/-- the generated `x`, `y` (block bytes → carrier words) -/
def speck128_128_x (b : BitVec 128) : BitVec 64 := (b.extractLsb' 120 8) ++ (b.extractLsb' 112 8) ++ (b.extractLsb' 104 8) ++ (b.extractLsb' 96 8) ++ (b.extractLsb' 88 8) ++ (b.extractLsb' 80 8) ++ (b.extractLsb' 72 8) ++ (b.extractLsb' 64 8)
def speck128_128_y (b : BitVec 128) : BitVec 64 := (b.extractLsb' 56 8) ++ (b.extractLsb' 48 8) ++ (b.extractLsb' 40 8) ++ (b.extractLsb' 32 8) ++ (b.extractLsb' 24 8) ++ (b.extractLsb' 16 8) ++ (b.extractLsb' 8 8) ++ (b.extractLsb' 0 8)
/-- the generated output expression (carrier words → block) -/
def speck128_128_out (x y : BitVec 64) : BitVec 128 := (x.extractLsb' 56 8) ++ (x.extractLsb' 48 8) ++ (x.extractLsb' 40 8) ++ (x.extractLsb' 32 8) ++ (x.extractLsb' 24 8) ++ (x.extractLsb' 16 8) ++ (x.extractLsb' 8 8) ++ (x.extractLsb' 0 8) ++ (y.extractLsb' 56 8) ++ (y.extractLsb' 48 8) ++ (y.extractLsb' 40 8) ++ (y.extractLsb' 32 8) ++ (y.extractLsb' 24 8) ++ (y.extractLsb' 16 8) ++ (y.extractLsb' 8 8) ++ (y.extractLsb' 0 8)

theorem speck128_128_load_x (b : BitVec 128) : fromBE 64 [(b >>> 120).setWidth 8, (b >>> 112).setWidth 8, (b >>> 104).setWidth 8, (b >>> 96).setWidth 8, (b >>> 88).setWidth 8, (b >>> 80).setWidth 8, (b >>> 72).setWidth 8, (b >>> 64).setWidth 8] = speck128_128_x b := by
  simp only [fromBE_fold, List.foldl_cons, List.foldl_nil, speck128_128_x]
  bv_decide
theorem speck128_128_load_y (b : BitVec 128) : fromBE 64 [(b >>> 56).setWidth 8, (b >>> 48).setWidth 8, (b >>> 40).setWidth 8, (b >>> 32).setWidth 8, (b >>> 24).setWidth 8, (b >>> 16).setWidth 8, (b >>> 8).setWidth 8, (b >>> 0).setWidth 8] = speck128_128_y b := by
  simp only [fromBE_fold, List.foldl_cons, List.foldl_nil, speck128_128_y]
  bv_decide

theorem speck128_128_load (b : BitVec 128) :
    load speck128_128 (unpackBE 16 b) = ⟨speck128_128_x b, speck128_128_y b⟩ := by
  have h : load speck128_128 (unpackBE 16 b) =
      ⟨fromBE 64 [(b >>> 120).setWidth 8, (b >>> 112).setWidth 8, (b >>> 104).setWidth 8, (b >>> 96).setWidth 8, (b >>> 88).setWidth 8, (b >>> 80).setWidth 8, (b >>> 72).setWidth 8, (b >>> 64).setWidth 8], fromBE 64 [(b >>> 56).setWidth 8, (b >>> 48).setWidth 8, (b >>> 40).setWidth 8, (b >>> 32).setWidth 8, (b >>> 24).setWidth 8, (b >>> 16).setWidth 8, (b >>> 8).setWidth 8, (b >>> 0).setWidth 8]⟩ := rfl
  rw [h, speck128_128_load_x, speck128_128_load_y]

theorem speck128_128_store_bytes (x y : BitVec 64) :
    unpackBE 8 x ++ unpackBE 8 y = unpackBE 16 (speck128_128_out x y) := by
  have h2 : unpackBE 8 x ++ unpackBE 8 y = [(x >>> 56).setWidth 8, (x >>> 48).setWidth 8, (x >>> 40).setWidth 8, (x >>> 32).setWidth 8, (x >>> 24).setWidth 8, (x >>> 16).setWidth 8, (x >>> 8).setWidth 8, (x >>> 0).setWidth 8, (y >>> 56).setWidth 8, (y >>> 48).setWidth 8, (y >>> 40).setWidth 8, (y >>> 32).setWidth 8, (y >>> 24).setWidth 8, (y >>> 16).setWidth 8, (y >>> 8).setWidth 8, (y >>> 0).setWidth 8] := rfl
  have h3 : ∀ o : BitVec 128, unpackBE 16 o = [(o >>> 120).setWidth 8, (o >>> 112).setWidth 8, (o >>> 104).setWidth 8, (o >>> 96).setWidth 8, (o >>> 88).setWidth 8, (o >>> 80).setWidth 8, (o >>> 72).setWidth 8, (o >>> 64).setWidth 8, (o >>> 56).setWidth 8, (o >>> 48).setWidth 8, (o >>> 40).setWidth 8, (o >>> 32).setWidth 8, (o >>> 24).setWidth 8, (o >>> 16).setWidth 8, (o >>> 8).setWidth 8, (o >>> 0).setWidth 8] := fun _ => rfl
  rw [h2, h3]
  simp only [speck128_128_out, List.cons.injEq, and_true]
  bv_decide

theorem speck128_128_store (s : St speck128_128.cw) :
    store speck128_128 s = unpackBE 16 (speck128_128_out s.x s.y) := by
  have h1 : store speck128_128 s = unpackBE (speck128_128.n / 8) s.x ++ unpackBE (speck128_128.n / 8) s.y := by
    rw [store, toBE_eq, toBE_eq]
  exact h1.trans (speck128_128_store_bytes s.x s.y)

theorem speck128_128_enc_core (k0 k1 k2 k3 k4 k5 k6 k7 k8 k9 k10 k11 k12 k13 k14 k15 k16 k17 k18 k19 k20 k21 k22 k23 k24 k25 k26 k27 k28 k29 k30 k31 : BitVec 64) (b : BitVec 128) :
    speck128_128_encrypt_block k0 k1 k2 k3 k4 k5 k6 k7 k8 k9 k10 k11 k12 k13 k14 k15 k16 k17 k18 k19 k20 k21 k22 k23 k24 k25 k26 k27 k28 k29 k30 k31 b =
      speck128_128_out (encLoop speck128_128 #[k0, k1, k2, k3, k4, k5, k6, k7, k8, k9, k10, k11, k12, k13, k14, k15, k16, k17, k18, k19, k20, k21, k22, k23, k24, k25, k26, k27, k28, k29, k30, k31] 32 ⟨speck128_128_x b, speck128_128_y b⟩).x
        (encLoop speck128_128 #[k0, k1, k2, k3, k4, k5, k6, k7, k8, k9, k10, k11, k12, k13, k14, k15, k16, k17, k18, k19, k20, k21, k22, k23, k24, k25, k26, k27, k28, k29, k30, k31] 32 ⟨speck128_128_x b, speck128_128_y b⟩).y := by
  rfl

theorem speck128_128_dec_core (k0 k1 k2 k3 k4 k5 k6 k7 k8 k9 k10 k11 k12 k13 k14 k15 k16 k17 k18 k19 k20 k21 k22 k23 k24 k25 k26 k27 k28 k29 k30 k31 : BitVec 64) (b : BitVec 128) :
    speck128_128_decrypt_block k0 k1 k2 k3 k4 k5 k6 k7 k8 k9 k10 k11 k12 k13 k14 k15 k16 k17 k18 k19 k20 k21 k22 k23 k24 k25 k26 k27 k28 k29 k30 k31 b =
      speck128_128_out (decLoop speck128_128 #[k0, k1, k2, k3, k4, k5, k6, k7, k8, k9, k10, k11, k12, k13, k14, k15, k16, k17, k18, k19, k20, k21, k22, k23, k24, k25, k26, k27, k28, k29, k30, k31] 32 ⟨speck128_128_x b, speck128_128_y b⟩).x
        (decLoop speck128_128 #[k0, k1, k2, k3, k4, k5, k6, k7, k8, k9, k10, k11, k12, k13, k14, k15, k16, k17, k18, k19, k20, k21, k22, k23, k24, k25, k26, k27, k28, k29, k30, k31] 32 ⟨speck128_128_x b, speck128_128_y b⟩).y := by
  rfl

/-- `Speck128_128::encrypt_block` as regenerated from the Rust source IS the model's `encryptBlock` -/
theorem speck128_128_encrypt_block_eq (k0 k1 k2 k3 k4 k5 k6 k7 k8 k9 k10 k11 k12 k13 k14 k15 k16 k17 k18 k19 k20 k21 k22 k23 k24 k25 k26 k27 k28 k29 k30 k31 : BitVec 64) (b : BitVec 128) :
    unpackBE 16 (speck128_128_encrypt_block k0 k1 k2 k3 k4 k5 k6 k7 k8 k9 k10 k11 k12 k13 k14 k15 k16 k17 k18 k19 k20 k21 k22 k23 k24 k25 k26 k27 k28 k29 k30 k31 b) =
      encryptBlock speck128_128 #[k0, k1, k2, k3, k4, k5, k6, k7, k8, k9, k10, k11, k12, k13, k14, k15, k16, k17, k18, k19, k20, k21, k22, k23, k24, k25, k26, k27, k28, k29, k30, k31] (unpackBE 16 b) := by
  rw [encryptBlock_def, speck128_128_load, speck128_128_store, speck128_128_enc_core]; rfl

/-- `Speck128_128::decrypt_block` as regenerated from the Rust source IS the model's `decryptBlock` -/
theorem speck128_128_decrypt_block_eq (k0 k1 k2 k3 k4 k5 k6 k7 k8 k9 k10 k11 k12 k13 k14 k15 k16 k17 k18 k19 k20 k21 k22 k23 k24 k25 k26 k27 k28 k29 k30 k31 : BitVec 64) (b : BitVec 128) :
    unpackBE 16 (speck128_128_decrypt_block k0 k1 k2 k3 k4 k5 k6 k7 k8 k9 k10 k11 k12 k13 k14 k15 k16 k17 k18 k19 k20 k21 k22 k23 k24 k25 k26 k27 k28 k29 k30 k31 b) =
      decryptBlock speck128_128 #[k0, k1, k2, k3, k4, k5, k6, k7, k8, k9, k10, k11, k12, k13, k14, k15, k16, k17, k18, k19, k20, k21, k22, k23, k24, k25, k26, k27, k28, k29, k30, k31] (unpackBE 16 b) := by
  rw [decryptBlock_def, speck128_128_load, speck128_128_store, speck128_128_dec_core]; rfl

/-- the same for an arbitrary `16`-byte block given as a byte list -/
theorem speck128_128_encryptBlock_bytes (k0 k1 k2 k3 k4 k5 k6 k7 k8 k9 k10 k11 k12 k13 k14 k15 k16 k17 k18 k19 k20 k21 k22 k23 k24 k25 k26 k27 k28 k29 k30 k31 : BitVec 64) (bs : Bytes) (h : bs.length = 16) :
    encryptBlock speck128_128 #[k0, k1, k2, k3, k4, k5, k6, k7, k8, k9, k10, k11, k12, k13, k14, k15, k16, k17, k18, k19, k20, k21, k22, k23, k24, k25, k26, k27, k28, k29, k30, k31] bs =
      unpackBE 16 (speck128_128_encrypt_block k0 k1 k2 k3 k4 k5 k6 k7 k8 k9 k10 k11 k12 k13 k14 k15 k16 k17 k18 k19 k20 k21 k22 k23 k24 k25 k26 k27 k28 k29 k30 k31 (packBE 16 bs)) := by
  rw [speck128_128_encrypt_block_eq, unpackBE_packBE _ _ h]
theorem speck128_128_decryptBlock_bytes (k0 k1 k2 k3 k4 k5 k6 k7 k8 k9 k10 k11 k12 k13 k14 k15 k16 k17 k18 k19 k20 k21 k22 k23 k24 k25 k26 k27 k28 k29 k30 k31 : BitVec 64) (bs : Bytes) (h : bs.length = 16) :
    decryptBlock speck128_128 #[k0, k1, k2, k3, k4, k5, k6, k7, k8, k9, k10, k11, k12, k13, k14, k15, k16, k17, k18, k19, k20, k21, k22, k23, k24, k25, k26, k27, k28, k29, k30, k31] bs =
      unpackBE 16 (speck128_128_decrypt_block k0 k1 k2 k3 k4 k5 k6 k7 k8 k9 k10 k11 k12 k13 k14 k15 k16 k17 k18 k19 k20 k21 k22 k23 k24 k25 k26 k27 k28 k29 k30 k31 (packBE 16 bs)) := by
  rw [speck128_128_decrypt_block_eq, unpackBE_packBE _ _ h]

/-! ### speck128_192: 16-byte block, 64-bit words in `u64`, 33 rounds -/

/-- the generated `x`, `y` (block bytes → carrier words) -/
def speck128_192_x (b : BitVec 128) : BitVec 64 := (b.extractLsb' 120 8) ++ (b.extractLsb' 112 8) ++ (b.extractLsb' 104 8) ++ (b.extractLsb' 96 8) ++ (b.extractLsb' 88 8) ++ (b.extractLsb' 80 8) ++ (b.extractLsb' 72 8) ++ (b.extractLsb' 64 8)
def speck128_192_y (b : BitVec 128) : BitVec 64 := (b.extractLsb' 56 8) ++ (b.extractLsb' 48 8) ++ (b.extractLsb' 40 8) ++ (b.extractLsb' 32 8) ++ (b.extractLsb' 24 8) ++ (b.extractLsb' 16 8) ++ (b.extractLsb' 8 8) ++ (b.extractLsb' 0 8)
/-- the generated output expression (carrier words → block) -/
def speck128_192_out (x y : BitVec 64) : BitVec 128 := (x.extractLsb' 56 8) ++ (x.extractLsb' 48 8) ++ (x.extractLsb' 40 8) ++ (x.extractLsb' 32 8) ++ (x.extractLsb' 24 8) ++ (x.extractLsb' 16 8) ++ (x.extractLsb' 8 8) ++ (x.extractLsb' 0 8) ++ (y.extractLsb' 56 8) ++ (y.extractLsb' 48 8) ++ (y.extractLsb' 40 8) ++ (y.extractLsb' 32 8) ++ (y.extractLsb' 24 8) ++ (y.extractLsb' 16 8) ++ (y.extractLsb' 8 8) ++ (y.extractLsb' 0 8)

theorem speck128_192_load_x (b : BitVec 128) : fromBE 64 [(b >>> 120).setWidth 8, (b >>> 112).setWidth 8, (b >>> 104).setWidth 8, (b >>> 96).setWidth 8, (b >>> 88).setWidth 8, (b >>> 80).setWidth 8, (b >>> 72).setWidth 8, (b >>> 64).setWidth 8] = speck128_192_x b := by
  simp only [fromBE_fold, List.foldl_cons, List.foldl_nil, speck128_192_x]
  bv_decide
theorem speck128_192_load_y (b : BitVec 128) : fromBE 64 [(b >>> 56).setWidth 8, (b >>> 48).setWidth 8, (b >>> 40).setWidth 8, (b >>> 32).setWidth 8, (b >>> 24).setWidth 8, (b >>> 16).setWidth 8, (b >>> 8).setWidth 8, (b >>> 0).setWidth 8] = speck128_192_y b := by
  simp only [fromBE_fold, List.foldl_cons, List.foldl_nil, speck128_192_y]
  bv_decide

theorem speck128_192_load (b : BitVec 128) :
    load speck128_192 (unpackBE 16 b) = ⟨speck128_192_x b, speck128_192_y b⟩ := by
  have h : load speck128_192 (unpackBE 16 b) =
      ⟨fromBE 64 [(b >>> 120).setWidth 8, (b >>> 112).setWidth 8, (b >>> 104).setWidth 8, (b >>> 96).setWidth 8, (b >>> 88).setWidth 8, (b >>> 80).setWidth 8, (b >>> 72).setWidth 8, (b >>> 64).setWidth 8], fromBE 64 [(b >>> 56).setWidth 8, (b >>> 48).setWidth 8, (b >>> 40).setWidth 8, (b >>> 32).setWidth 8, (b >>> 24).setWidth 8, (b >>> 16).setWidth 8, (b >>> 8).setWidth 8, (b >>> 0).setWidth 8]⟩ := rfl
  rw [h, speck128_192_load_x, speck128_192_load_y]

theorem speck128_192_store_bytes (x y : BitVec 64) :
    unpackBE 8 x ++ unpackBE 8 y = unpackBE 16 (speck128_192_out x y) := by
  have h2 : unpackBE 8 x ++ unpackBE 8 y = [(x >>> 56).setWidth 8, (x >>> 48).setWidth 8, (x >>> 40).setWidth 8, (x >>> 32).setWidth 8, (x >>> 24).setWidth 8, (x >>> 16).setWidth 8, (x >>> 8).setWidth 8, (x >>> 0).setWidth 8, (y >>> 56).setWidth 8, (y >>> 48).setWidth 8, (y >>> 40).setWidth 8, (y >>> 32).setWidth 8, (y >>> 24).setWidth 8, (y >>> 16).setWidth 8, (y >>> 8).setWidth 8, (y >>> 0).setWidth 8] := rfl
  have h3 : ∀ o : BitVec 128, unpackBE 16 o = [(o >>> 120).setWidth 8, (o >>> 112).setWidth 8, (o >>> 104).setWidth 8, (o >>> 96).setWidth 8, (o >>> 88).setWidth 8, (o >>> 80).setWidth 8, (o >>> 72).setWidth 8, (o >>> 64).setWidth 8, (o >>> 56).setWidth 8, (o >>> 48).setWidth 8, (o >>> 40).setWidth 8, (o >>> 32).setWidth 8, (o >>> 24).setWidth 8, (o >>> 16).setWidth 8, (o >>> 8).setWidth 8, (o >>> 0).setWidth 8] := fun _ => rfl
  rw [h2, h3]
  simp only [speck128_192_out, List.cons.injEq, and_true]
  bv_decide

theorem speck128_192_store (s : St speck128_192.cw) :
    store speck128_192 s = unpackBE 16 (speck128_192_out s.x s.y) := by
  have h1 : store speck128_192 s = unpackBE (speck128_192.n / 8) s.x ++ unpackBE (speck128_192.n / 8) s.y := by
    rw [store, toBE_eq, toBE_eq]
  exact h1.trans (speck128_192_store_bytes s.x s.y)

theorem speck128_192_enc_core (k0 k1 k2 k3 k4 k5 k6 k7 k8 k9 k10 k11 k12 k13 k14 k15 k16 k17 k18 k19 k20 k21 k22 k23 k24 k25 k26 k27 k28 k29 k30 k31 k32 : BitVec 64) (b : BitVec 128) :
    speck128_192_encrypt_block k0 k1 k2 k3 k4 k5 k6 k7 k8 k9 k10 k11 k12 k13 k14 k15 k16 k17 k18 k19 k20 k21 k22 k23 k24 k25 k26 k27 k28 k29 k30 k31 k32 b =
      speck128_192_out (encLoop speck128_192 #[k0, k1, k2, k3, k4, k5, k6, k7, k8, k9, k10, k11, k12, k13, k14, k15, k16, k17, k18, k19, k20, k21, k22, k23, k24, k25, k26, k27, k28, k29, k30, k31, k32] 33 ⟨speck128_192_x b, speck128_192_y b⟩).x
        (encLoop speck128_192 #[k0, k1, k2, k3, k4, k5, k6, k7, k8, k9, k10, k11, k12, k13, k14, k15, k16, k17, k18, k19, k20, k21, k22, k23, k24, k25, k26, k27, k28, k29, k30, k31, k32] 33 ⟨speck128_192_x b, speck128_192_y b⟩).y := by
  rfl

theorem speck128_192_dec_core (k0 k1 k2 k3 k4 k5 k6 k7 k8 k9 k10 k11 k12 k13 k14 k15 k16 k17 k18 k19 k20 k21 k22 k23 k24 k25 k26 k27 k28 k29 k30 k31 k32 : BitVec 64) (b : BitVec 128) :
    speck128_192_decrypt_block k0 k1 k2 k3 k4 k5 k6 k7 k8 k9 k10 k11 k12 k13 k14 k15 k16 k17 k18 k19 k20 k21 k22 k23 k24 k25 k26 k27 k28 k29 k30 k31 k32 b =
      speck128_192_out (decLoop speck128_192 #[k0, k1, k2, k3, k4, k5, k6, k7, k8, k9, k10, k11, k12, k13, k14, k15, k16, k17, k18, k19, k20, k21, k22, k23, k24, k25, k26, k27, k28, k29, k30, k31, k32] 33 ⟨speck128_192_x b, speck128_192_y b⟩).x
        (decLoop speck128_192 #[k0, k1, k2, k3, k4, k5, k6, k7, k8, k9, k10, k11, k12, k13, k14, k15, k16, k17, k18, k19, k20, k21, k22, k23, k24, k25, k26, k27, k28, k29, k30, k31, k32] 33 ⟨speck128_192_x b, speck128_192_y b⟩).y := by
  rfl

/-- `Speck128_192::encrypt_block` as regenerated from the Rust source IS the model's `encryptBlock` -/
theorem speck128_192_encrypt_block_eq (k0 k1 k2 k3 k4 k5 k6 k7 k8 k9 k10 k11 k12 k13 k14 k15 k16 k17 k18 k19 k20 k21 k22 k23 k24 k25 k26 k27 k28 k29 k30 k31 k32 : BitVec 64) (b : BitVec 128) :
    unpackBE 16 (speck128_192_encrypt_block k0 k1 k2 k3 k4 k5 k6 k7 k8 k9 k10 k11 k12 k13 k14 k15 k16 k17 k18 k19 k20 k21 k22 k23 k24 k25 k26 k27 k28 k29 k30 k31 k32 b) =
      encryptBlock speck128_192 #[k0, k1, k2, k3, k4, k5, k6, k7, k8, k9, k10, k11, k12, k13, k14, k15, k16, k17, k18, k19, k20, k21, k22, k23, k24, k25, k26, k27, k28, k29, k30, k31, k32] (unpackBE 16 b) := by
  rw [encryptBlock_def, speck128_192_load, speck128_192_store, speck128_192_enc_core]; rfl

/-- `Speck128_192::decrypt_block` as regenerated from the Rust source IS the model's `decryptBlock` -/
theorem speck128_192_decrypt_block_eq (k0 k1 k2 k3 k4 k5 k6 k7 k8 k9 k10 k11 k12 k13 k14 k15 k16 k17 k18 k19 k20 k21 k22 k23 k24 k25 k26 k27 k28 k29 k30 k31 k32 : BitVec 64) (b : BitVec 128) :
    unpackBE 16 (speck128_192_decrypt_block k0 k1 k2 k3 k4 k5 k6 k7 k8 k9 k10 k11 k12 k13 k14 k15 k16 k17 k18 k19 k20 k21 k22 k23 k24 k25 k26 k27 k28 k29 k30 k31 k32 b) =
      decryptBlock speck128_192 #[k0, k1, k2, k3, k4, k5, k6, k7, k8, k9, k10, k11, k12, k13, k14, k15, k16, k17, k18, k19, k20, k21, k22, k23, k24, k25, k26, k27, k28, k29, k30, k31, k32] (unpackBE 16 b) := by
  rw [decryptBlock_def, speck128_192_load, speck128_192_store, speck128_192_dec_core]; rfl

/-- the same for an arbitrary `16`-byte block given as a byte list -/
theorem speck128_192_encryptBlock_bytes (k0 k1 k2 k3 k4 k5 k6 k7 k8 k9 k10 k11 k12 k13 k14 k15 k16 k17 k18 k19 k20 k21 k22 k23 k24 k25 k26 k27 k28 k29 k30 k31 k32 : BitVec 64) (bs : Bytes) (h : bs.length = 16) :
    encryptBlock speck128_192 #[k0, k1, k2, k3, k4, k5, k6, k7, k8, k9, k10, k11, k12, k13, k14, k15, k16, k17, k18, k19, k20, k21, k22, k23, k24, k25, k26, k27, k28, k29, k30, k31, k32] bs =
      unpackBE 16 (speck128_192_encrypt_block k0 k1 k2 k3 k4 k5 k6 k7 k8 k9 k10 k11 k12 k13 k14 k15 k16 k17 k18 k19 k20 k21 k22 k23 k24 k25 k26 k27 k28 k29 k30 k31 k32 (packBE 16 bs)) := by
  rw [speck128_192_encrypt_block_eq, unpackBE_packBE _ _ h]
theorem speck128_192_decryptBlock_bytes (k0 k1 k2 k3 k4 k5 k6 k7 k8 k9 k10 k11 k12 k13 k14 k15 k16 k17 k18 k19 k20 k21 k22 k23 k24 k25 k26 k27 k28 k29 k30 k31 k32 : BitVec 64) (bs : Bytes) (h : bs.length = 16) :
    decryptBlock speck128_192 #[k0, k1, k2, k3, k4, k5, k6, k7, k8, k9, k10, k11, k12, k13, k14, k15, k16, k17, k18, k19, k20, k21, k22, k23, k24, k25, k26, k27, k28, k29, k30, k31, k32] bs =
      unpackBE 16 (speck128_192_decrypt_block k0 k1 k2 k3 k4 k5 k6 k7 k8 k9 k10 k11 k12 k13 k14 k15 k16 k17 k18 k19 k20 k21 k22 k23 k24 k25 k26 k27 k28 k29 k30 k31 k32 (packBE 16 bs)) := by
  rw [speck128_192_decrypt_block_eq, unpackBE_packBE _ _ h]

/-! ### speck128_256: 16-byte block, 64-bit words in `u64`, 34 rounds -/

/-- the generated `x`, `y` (block bytes → carrier words) -/
def speck128_256_x (b : BitVec 128) : BitVec 64 := (b.extractLsb' 120 8) ++ (b.extractLsb' 112 8) ++ (b.extractLsb' 104 8) ++ (b.extractLsb' 96 8) ++ (b.extractLsb' 88 8) ++ (b.extractLsb' 80 8) ++ (b.extractLsb' 72 8) ++ (b.extractLsb' 64 8)
def speck128_256_y (b : BitVec 128) : BitVec 64 := (b.extractLsb' 56 8) ++ (b.extractLsb' 48 8) ++ (b.extractLsb' 40 8) ++ (b.extractLsb' 32 8) ++ (b.extractLsb' 24 8) ++ (b.extractLsb' 16 8) ++ (b.extractLsb' 8 8) ++ (b.extractLsb' 0 8)
/-- the generated output expression (carrier words → block) -/
def speck128_256_out (x y : BitVec 64) : BitVec 128 := (x.extractLsb' 56 8) ++ (x.extractLsb' 48 8) ++ (x.extractLsb' 40 8) ++ (x.extractLsb' 32 8) ++ (x.extractLsb' 24 8) ++ (x.extractLsb' 16 8) ++ (x.extractLsb' 8 8) ++ (x.extractLsb' 0 8) ++ (y.extractLsb' 56 8) ++ (y.extractLsb' 48 8) ++ (y.extractLsb' 40 8) ++ (y.extractLsb' 32 8) ++ (y.extractLsb' 24 8) ++ (y.extractLsb' 16 8) ++ (y.extractLsb' 8 8) ++ (y.extractLsb' 0 8)

theorem speck128_256_load_x (b : BitVec 128) : fromBE 64 [(b >>> 120).setWidth 8, (b >>> 112).setWidth 8, (b >>> 104).setWidth 8, (b >>> 96).setWidth 8, (b >>> 88).setWidth 8, (b >>> 80).setWidth 8, (b >>> 72).setWidth 8, (b >>> 64).setWidth 8] = speck128_256_x b := by
  simp only [fromBE_fold, List.foldl_cons, List.foldl_nil, speck128_256_x]
  bv_decide
theorem speck128_256_load_y (b : BitVec 128) : fromBE 64 [(b >>> 56).setWidth 8, (b >>> 48).setWidth 8, (b >>> 40).setWidth 8, (b >>> 32).setWidth 8, (b >>> 24).setWidth 8, (b >>> 16).setWidth 8, (b >>> 8).setWidth 8, (b >>> 0).setWidth 8] = speck128_256_y b := by
  simp only [fromBE_fold, List.foldl_cons, List.foldl_nil, speck128_256_y]
  bv_decide

theorem speck128_256_load (b : BitVec 128) :
    load speck128_256 (unpackBE 16 b) = ⟨speck128_256_x b, speck128_256_y b⟩ := by
  have h : load speck128_256 (unpackBE 16 b) =
      ⟨fromBE 64 [(b >>> 120).setWidth 8, (b >>> 112).setWidth 8, (b >>> 104).setWidth 8, (b >>> 96).setWidth 8, (b >>> 88).setWidth 8, (b >>> 80).setWidth 8, (b >>> 72).setWidth 8, (b >>> 64).setWidth 8], fromBE 64 [(b >>> 56).setWidth 8, (b >>> 48).setWidth 8, (b >>> 40).setWidth 8, (b >>> 32).setWidth 8, (b >>> 24).setWidth 8, (b >>> 16).setWidth 8, (b >>> 8).setWidth 8, (b >>> 0).setWidth 8]⟩ := rfl
  rw [h, speck128_256_load_x, speck128_256_load_y]

theorem speck128_256_store_bytes (x y : BitVec 64) :
    unpackBE 8 x ++ unpackBE 8 y = unpackBE 16 (speck128_256_out x y) := by
  have h2 : unpackBE 8 x ++ unpackBE 8 y = [(x >>> 56).setWidth 8, (x >>> 48).setWidth 8, (x >>> 40).setWidth 8, (x >>> 32).setWidth 8, (x >>> 24).setWidth 8, (x >>> 16).setWidth 8, (x >>> 8).setWidth 8, (x >>> 0).setWidth 8, (y >>> 56).setWidth 8, (y >>> 48).setWidth 8, (y >>> 40).setWidth 8, (y >>> 32).setWidth 8, (y >>> 24).setWidth 8, (y >>> 16).setWidth 8, (y >>> 8).setWidth 8, (y >>> 0).setWidth 8] := rfl
  have h3 : ∀ o : BitVec 128, unpackBE 16 o = [(o >>> 120).setWidth 8, (o >>> 112).setWidth 8, (o >>> 104).setWidth 8, (o >>> 96).setWidth 8, (o >>> 88).setWidth 8, (o >>> 80).setWidth 8, (o >>> 72).setWidth 8, (o >>> 64).setWidth 8, (o >>> 56).setWidth 8, (o >>> 48).setWidth 8, (o >>> 40).setWidth 8, (o >>> 32).setWidth 8, (o >>> 24).setWidth 8, (o >>> 16).setWidth 8, (o >>> 8).setWidth 8, (o >>> 0).setWidth 8] := fun _ => rfl
  rw [h2, h3]
  simp only [speck128_256_out, List.cons.injEq, and_true]
  bv_decide

theorem speck128_256_store (s : St speck128_256.cw) :
    store speck128_256 s = unpackBE 16 (speck128_256_out s.x s.y) := by
  have h1 : store speck128_256 s = unpackBE (speck128_256.n / 8) s.x ++ unpackBE (speck128_256.n / 8) s.y := by
    rw [store, toBE_eq, toBE_eq]
  exact h1.trans (speck128_256_store_bytes s.x s.y)

theorem speck128_256_enc_core (k0 k1 k2 k3 k4 k5 k6 k7 k8 k9 k10 k11 k12 k13 k14 k15 k16 k17 k18 k19 k20 k21 k22 k23 k24 k25 k26 k27 k28 k29 k30 k31 k32 k33 : BitVec 64) (b : BitVec 128) :
    speck128_256_encrypt_block k0 k1 k2 k3 k4 k5 k6 k7 k8 k9 k10 k11 k12 k13 k14 k15 k16 k17 k18 k19 k20 k21 k22 k23 k24 k25 k26 k27 k28 k29 k30 k31 k32 k33 b =
      speck128_256_out (encLoop speck128_256 #[k0, k1, k2, k3, k4, k5, k6, k7, k8, k9, k10, k11, k12, k13, k14, k15, k16, k17, k18, k19, k20, k21, k22, k23, k24, k25, k26, k27, k28, k29, k30, k31, k32, k33] 34 ⟨speck128_256_x b, speck128_256_y b⟩).x
        (encLoop speck128_256 #[k0, k1, k2, k3, k4, k5, k6, k7, k8, k9, k10, k11, k12, k13, k14, k15, k16, k17, k18, k19, k20, k21, k22, k23, k24, k25, k26, k27, k28, k29, k30, k31, k32, k33] 34 ⟨speck128_256_x b, speck128_256_y b⟩).y := by
  rfl

theorem speck128_256_dec_core (k0 k1 k2 k3 k4 k5 k6 k7 k8 k9 k10 k11 k12 k13 k14 k15 k16 k17 k18 k19 k20 k21 k22 k23 k24 k25 k26 k27 k28 k29 k30 k31 k32 k33 : BitVec 64) (b : BitVec 128) :
    speck128_256_decrypt_block k0 k1 k2 k3 k4 k5 k6 k7 k8 k9 k10 k11 k12 k13 k14 k15 k16 k17 k18 k19 k20 k21 k22 k23 k24 k25 k26 k27 k28 k29 k30 k31 k32 k33 b =
      speck128_256_out (decLoop speck128_256 #[k0, k1, k2, k3, k4, k5, k6, k7, k8, k9, k10, k11, k12, k13, k14, k15, k16, k17, k18, k19, k20, k21, k22, k23, k24, k25, k26, k27, k28, k29, k30, k31, k32, k33] 34 ⟨speck128_256_x b, speck128_256_y b⟩).x
        (decLoop speck128_256 #[k0, k1, k2, k3, k4, k5, k6, k7, k8, k9, k10, k11, k12, k13, k14, k15, k16, k17, k18, k19, k20, k21, k22, k23, k24, k25, k26, k27, k28, k29, k30, k31, k32, k33] 34 ⟨speck128_256_x b, speck128_256_y b⟩).y := by
  rfl

/-- `Speck128_256::encrypt_block` as regenerated from the Rust source IS the model's `encryptBlock` -/
theorem speck128_256_encrypt_block_eq (k0 k1 k2 k3 k4 k5 k6 k7 k8 k9 k10 k11 k12 k13 k14 k15 k16 k17 k18 k19 k20 k21 k22 k23 k24 k25 k26 k27 k28 k29 k30 k31 k32 k33 : BitVec 64) (b : BitVec 128) :
    unpackBE 16 (speck128_256_encrypt_block k0 k1 k2 k3 k4 k5 k6 k7 k8 k9 k10 k11 k12 k13 k14 k15 k16 k17 k18 k19 k20 k21 k22 k23 k24 k25 k26 k27 k28 k29 k30 k31 k32 k33 b) =
      encryptBlock speck128_256 #[k0, k1, k2, k3, k4, k5, k6, k7, k8, k9, k10, k11, k12, k13, k14, k15, k16, k17, k18, k19, k20, k21, k22, k23, k24, k25, k26, k27, k28, k29, k30, k31, k32, k33] (unpackBE 16 b) := by
  rw [encryptBlock_def, speck128_256_load, speck128_256_store, speck128_256_enc_core]; rfl

/-- `Speck128_256::decrypt_block` as regenerated from the Rust source IS the model's `decryptBlock` -/
theorem speck128_256_decrypt_block_eq (k0 k1 k2 k3 k4 k5 k6 k7 k8 k9 k10 k11 k12 k13 k14 k15 k16 k17 k18 k19 k20 k21 k22 k23 k24 k25 k26 k27 k28 k29 k30 k31 k32 k33 : BitVec 64) (b : BitVec 128) :
    unpackBE 16 (speck128_256_decrypt_block k0 k1 k2 k3 k4 k5 k6 k7 k8 k9 k10 k11 k12 k13 k14 k15 k16 k17 k18 k19 k20 k21 k22 k23 k24 k25 k26 k27 k28 k29 k30 k31 k32 k33 b) =
      decryptBlock speck128_256 #[k0, k1, k2, k3, k4, k5, k6, k7, k8, k9, k10, k11, k12, k13, k14, k15, k16, k17, k18, k19, k20, k21, k22, k23, k24, k25, k26, k27, k28, k29, k30, k31, k32, k33] (unpackBE 16 b) := by
  rw [decryptBlock_def, speck128_256_load, speck128_256_store, speck128_256_dec_core]; rfl

/-- the same for an arbitrary `16`-byte block given as a byte list -/
theorem speck128_256_encryptBlock_bytes (k0 k1 k2 k3 k4 k5 k6 k7 k8 k9 k10 k11 k12 k13 k14 k15 k16 k17 k18 k19 k20 k21 k22 k23 k24 k25 k26 k27 k28 k29 k30 k31 k32 k33 : BitVec 64) (bs : Bytes) (h : bs.length = 16) :
    encryptBlock speck128_256 #[k0, k1, k2, k3, k4, k5, k6, k7, k8, k9, k10, k11, k12, k13, k14, k15, k16, k17, k18, k19, k20, k21, k22, k23, k24, k25, k26, k27, k28, k29, k30, k31, k32, k33] bs =
      unpackBE 16 (speck128_256_encrypt_block k0 k1 k2 k3 k4 k5 k6 k7 k8 k9 k10 k11 k12 k13 k14 k15 k16 k17 k18 k19 k20 k21 k22 k23 k24 k25 k26 k27 k28 k29 k30 k31 k32 k33 (packBE 16 bs)) := by
  rw [speck128_256_encrypt_block_eq, unpackBE_packBE _ _ h]
theorem speck128_256_decryptBlock_bytes (k0 k1 k2 k3 k4 k5 k6 k7 k8 k9 k10 k11 k12 k13 k14 k15 k16 k17 k18 k19 k20 k21 k22 k23 k24 k25 k26 k27 k28 k29 k30 k31 k32 k33 : BitVec 64) (bs : Bytes) (h : bs.length = 16) :
    decryptBlock speck128_256 #[k0, k1, k2, k3, k4, k5, k6, k7, k8, k9, k10, k11, k12, k13, k14, k15, k16, k17, k18, k19, k20, k21, k22, k23, k24, k25, k26, k27, k28, k29, k30, k31, k32, k33] bs =
      unpackBE 16 (speck128_256_decrypt_block k0 k1 k2 k3 k4 k5 k6 k7 k8 k9 k10 k11 k12 k13 k14 k15 k16 k17 k18 k19 k20 k21 k22 k23 k24 k25 k26 k27 k28 k29 k30 k31 k32 k33 (packBE 16 bs)) := by
  rw [speck128_256_decrypt_block_eq, unpackBE_packBE _ _ h]

end BC.GenCipher.Speck
