import BlockCiphers.Gen.Cipher_Belt_wide
import BlockCiphers.Impl.Belt
/-
Concrete-input checks (NOT a tie for all inputs) of the regenerated BelT wide-block functions `belt_wblock_enc_<n>` /
`belt_wblock_dec_<n>` (`Gen/Cipher_Belt_wide.lean`, data lengths 32, 33, 47, 48, 64; this file: 32, 33) against the model
`BC.Belt.wblockEnc` / `wblockDec` of `Impl/Belt.lean`: for one key and one data string per length, the regenerated function
and the model give the same bytes and the model returns `ok` (kernel evaluation of both sides, `decide +kernel`).
The tie for all inputs is open (see the report of the translator extension).
-/
namespace BC.GenCipher.BeltWideKatA
open BC BC.Belt BC.Gen.Fn
set_option maxRecDepth 1000000

def key : Key := #v[0x11111111#32, 0x23456789#32, 0xdeadbeef#32, 0x0#32, 0xffffffff#32, 0x87654321#32, 0xbadcafe#32, 0x31415926#32]

theorem enc_32_0 : (WRes.ok, unpackBE 32 (belt_wblock_enc_32 0x102030405060708090a0b0c0d0e0f101112131415161718191a1b1c1d1e1f#256 0x11111111#32 0x23456789#32 0xdeadbeef#32 0x0#32 0xffffffff#32 0x87654321#32 0xbadcafe#32 0x31415926#32)) =
    wblockEnc (unpackBE 32 0x102030405060708090a0b0c0d0e0f101112131415161718191a1b1c1d1e1f#256) key := by decide +kernel
theorem dec_32_0 : (WRes.ok, unpackBE 32 (belt_wblock_dec_32 0x102030405060708090a0b0c0d0e0f101112131415161718191a1b1c1d1e1f#256 0x11111111#32 0x23456789#32 0xdeadbeef#32 0x0#32 0xffffffff#32 0x87654321#32 0xbadcafe#32 0x31415926#32)) =
    wblockDec (unpackBE 32 0x102030405060708090a0b0c0d0e0f101112131415161718191a1b1c1d1e1f#256) key := by decide +kernel
theorem enc_33_0 : (WRes.ok, unpackBE 33 (belt_wblock_enc_33 0x102030405060708090a0b0c0d0e0f101112131415161718191a1b1c1d1e1f20#264 0x11111111#32 0x23456789#32 0xdeadbeef#32 0x0#32 0xffffffff#32 0x87654321#32 0xbadcafe#32 0x31415926#32)) =
    wblockEnc (unpackBE 33 0x102030405060708090a0b0c0d0e0f101112131415161718191a1b1c1d1e1f20#264) key := by decide +kernel
theorem dec_33_0 : (WRes.ok, unpackBE 33 (belt_wblock_dec_33 0x102030405060708090a0b0c0d0e0f101112131415161718191a1b1c1d1e1f20#264 0x11111111#32 0x23456789#32 0xdeadbeef#32 0x0#32 0xffffffff#32 0x87654321#32 0xbadcafe#32 0x31415926#32)) =
    wblockDec (unpackBE 33 0x102030405060708090a0b0c0d0e0f101112131415161718191a1b1c1d1e1f20#264) key := by decide +kernel

end BC.GenCipher.BeltWideKatA
