import BlockCiphers.Impl.AesFixslice32
import BlockCiphers.Proofs.AesFs32Linear
import Std.Tactic.BVDecide
/-! Word-level / state-level commutation facts that do not mention the packing:
NOT compensation, ShiftRows variants vs. AddRoundKey and the S-box circuits. -/
namespace BC.AesFs32
set_option linter.unusedSimpArgs false

/-! #### NOTs -/
theorem shift_rows_1_w_not (x : BitVec 32) :
    shift_rows_1_w (x ^^^ 0xffffffff#32) = shift_rows_1_w x ^^^ 0xffffffff#32 := by
  simp only [shift_rows_1_w, delta_swap_1]; bv_decide (config := { timeout := 600 })
theorem shift_rows_2_w_not (x : BitVec 32) :
    shift_rows_2_w (x ^^^ 0xffffffff#32) = shift_rows_2_w x ^^^ 0xffffffff#32 := by
  simp only [shift_rows_2_w, delta_swap_1]; bv_decide (config := { timeout := 600 })
theorem shift_rows_3_w_not (x : BitVec 32) :
    shift_rows_3_w (x ^^^ 0xffffffff#32) = shift_rows_3_w x ^^^ 0xffffffff#32 := by
  simp only [shift_rows_3_w, delta_swap_1]; bv_decide (config := { timeout := 600 })

theorem shift_rows_1_nots (s : St) : shift_rows_1 (sub_bytes_nots s) = sub_bytes_nots (shift_rows_1 s) := by
  cases s; simp [shift_rows_1, sub_bytes_nots, St.map, shift_rows_1_w_not]
theorem shift_rows_2_nots (s : St) : shift_rows_2 (sub_bytes_nots s) = sub_bytes_nots (shift_rows_2 s) := by
  cases s; simp [shift_rows_2, sub_bytes_nots, St.map, shift_rows_2_w_not]
theorem shift_rows_3_nots (s : St) : shift_rows_3 (sub_bytes_nots s) = sub_bytes_nots (shift_rows_3 s) := by
  cases s; simp [shift_rows_3, sub_bytes_nots, St.map, shift_rows_3_w_not]

theorem ark_nots_nots (a b : St) : add_round_key (sub_bytes_nots a) (sub_bytes_nots b) = add_round_key a b := by
  cases a; cases b
  simp only [add_round_key, St.zip, sub_bytes_nots, St.mk.injEq]; bv_decide (config := { timeout := 600 })
theorem ark_nots_right (a b : St) : add_round_key a (sub_bytes_nots b) = sub_bytes_nots (add_round_key a b) := by
  cases a; cases b
  simp only [add_round_key, St.zip, sub_bytes_nots, St.mk.injEq]; bv_decide (config := { timeout := 600 })
theorem ark_nots_left (a b : St) : add_round_key (sub_bytes_nots a) b = sub_bytes_nots (add_round_key a b) := by
  cases a; cases b
  simp only [add_round_key, St.zip, sub_bytes_nots, St.mk.injEq]; bv_decide (config := { timeout := 600 })

/-! #### ShiftRows variants are linear -/
theorem shift_rows_1_w_xor (x y : BitVec 32) : shift_rows_1_w (x ^^^ y) = shift_rows_1_w x ^^^ shift_rows_1_w y := by
  simp only [shift_rows_1_w, delta_swap_1]; bv_decide (config := { timeout := 600 })
theorem shift_rows_2_w_xor (x y : BitVec 32) : shift_rows_2_w (x ^^^ y) = shift_rows_2_w x ^^^ shift_rows_2_w y := by
  simp only [shift_rows_2_w, delta_swap_1]; bv_decide (config := { timeout := 600 })
theorem shift_rows_3_w_xor (x y : BitVec 32) : shift_rows_3_w (x ^^^ y) = shift_rows_3_w x ^^^ shift_rows_3_w y := by
  simp only [shift_rows_3_w, delta_swap_1]; bv_decide (config := { timeout := 600 })

theorem ark_shift_rows_1 (a b : St) :
    add_round_key (shift_rows_1 a) (shift_rows_1 b) = shift_rows_1 (add_round_key a b) := by
  cases a; cases b; simp [add_round_key, St.zip, shift_rows_1, St.map, shift_rows_1_w_xor]
theorem ark_shift_rows_2 (a b : St) :
    add_round_key (shift_rows_2 a) (shift_rows_2 b) = shift_rows_2 (add_round_key a b) := by
  cases a; cases b; simp [add_round_key, St.zip, shift_rows_2, St.map, shift_rows_2_w_xor]
theorem ark_shift_rows_3 (a b : St) :
    add_round_key (shift_rows_3 a) (shift_rows_3 b) = shift_rows_3 (add_round_key a b) := by
  cases a; cases b; simp [add_round_key, St.zip, shift_rows_3, St.map, shift_rows_3_w_xor]

/-! #### compositions of the ShiftRows variants -/
theorem shift_rows_2_3_w (x : BitVec 32) : shift_rows_2_w (shift_rows_3_w x) = shift_rows_1_w x := by
  simp only [shift_rows_1_w, shift_rows_2_w, shift_rows_3_w, delta_swap_1]; bv_decide (config := { timeout := 600 })
theorem shift_rows_2_1_w (x : BitVec 32) : shift_rows_2_w (shift_rows_1_w x) = shift_rows_3_w x := by
  simp only [shift_rows_1_w, shift_rows_2_w, shift_rows_3_w, delta_swap_1]; bv_decide (config := { timeout := 600 })
theorem shift_rows_2_3 (s : St) : shift_rows_2 (shift_rows_3 s) = shift_rows_1 s := by
  cases s; simp [shift_rows_1, shift_rows_2, shift_rows_3, St.map, shift_rows_2_3_w]
theorem shift_rows_2_1 (s : St) : shift_rows_2 (shift_rows_1 s) = shift_rows_3 s := by
  cases s; simp [shift_rows_1, shift_rows_2, shift_rows_3, St.map, shift_rows_2_1_w]

end BC.AesFs32
