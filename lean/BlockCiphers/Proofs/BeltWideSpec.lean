import BlockCiphers.Proofs.BeltWide
import BlockCiphers.Proofs.BeltSpec
/-
BelT wide block conformance (C18): `belt_wblock_enc` / `belt_wblock_dec` = belt-wblock of STB 34.101.31
§6.2.3 / §6.2.4 for EVERY input of at least 32 bytes, any length.  The length enters through
`n = ⌈len/16⌉` and through the chunk boundary `len − 1` (`xorBlocks_eq_sigma`: the `chunks_exact` fold over
`data[..len−1]` is `r1 ⊕ … ⊕ r_{n−1}`); the `usize` round counter `i.to_le_bytes()` is `⟨i⟩₁₂₈` as long as
`i ≤ 2n` fits in a `usize` (`ctr128_eq_usize8`, `ctr128_eq_usize4`), which the slice-length bound guarantees.
Tables A.6 / A.7 of the standard as kernel-checked examples.
-/
namespace BC.Belt
open Spec.Belt (blockAt xorB)

theorem unpackBE16_lit (x : BitVec 128) : unpackBE 16 x =
    [(x >>> 120).setWidth 8, (x >>> 112).setWidth 8, (x >>> 104).setWidth 8, (x >>> 96).setWidth 8,
     (x >>> 88).setWidth 8, (x >>> 80).setWidth 8, (x >>> 72).setWidth 8, (x >>> 64).setWidth 8,
     (x >>> 56).setWidth 8, (x >>> 48).setWidth 8, (x >>> 40).setWidth 8, (x >>> 32).setWidth 8,
     (x >>> 24).setWidth 8, (x >>> 16).setWidth 8, (x >>> 8).setWidth 8, (x >>> 0).setWidth 8] := rfl

theorem unpackBE8_lit (x : BitVec 64) : unpackBE 8 x =
    [(x >>> 56).setWidth 8, (x >>> 48).setWidth 8, (x >>> 40).setWidth 8, (x >>> 32).setWidth 8,
     (x >>> 24).setWidth 8, (x >>> 16).setWidth 8, (x >>> 8).setWidth 8, (x >>> 0).setWidth 8] := rfl

theorem unpackBE4_lit (x : BitVec 32) : unpackBE 4 x =
    [(x >>> 24).setWidth 8, (x >>> 16).setWidth 8, (x >>> 8).setWidth 8, (x >>> 0).setWidth 8] := rfl

theorem unpackBE16_zext64 (x : BitVec 64) :
    unpackBE 16 (x.setWidth 128) = List.replicate 8 0#8 ++ unpackBE 8 x := by
  rw [unpackBE16_lit, unpackBE8_lit]
  simp only [List.replicate, List.cons_append, List.nil_append, List.cons.injEq, and_true]
  refine ⟨?_, ?_, ?_, ?_, ?_, ?_, ?_, ?_, ?_, ?_, ?_, ?_, ?_, ?_, ?_, ?_⟩ <;> bv_decide (config := { timeout := 600 })

theorem unpackBE16_zext32 (x : BitVec 32) :
    unpackBE 16 (x.setWidth 128) = List.replicate 12 0#8 ++ unpackBE 4 x := by
  rw [unpackBE16_lit, unpackBE4_lit]
  simp only [List.replicate, List.cons_append, List.nil_append, List.cons.injEq, and_true]
  refine ⟨?_, ?_, ?_, ?_, ?_, ?_, ?_, ?_, ?_, ?_, ?_, ?_, ?_, ?_, ?_, ?_⟩ <;> bv_decide (config := { timeout := 600 })

/-- `⟨i⟩₁₂₈` is the `usize` counter padded with zero octets, as long as `i` fits in a `usize` -/
theorem ctr128_eq_usize8 (i : Nat) (hi : i < 2 ^ 64) :
    Spec.Belt.ctr128 i = usizeLE 8 i ++ List.replicate 8 0#8 := by
  have e : BitVec.ofNat 128 i = (BitVec.ofNat 64 i).setWidth 128 := by
    apply BitVec.eq_of_toNat_eq
    simp only [BitVec.toNat_ofNat, BitVec.toNat_setWidth]
    rw [Nat.mod_eq_of_lt (by omega : i < 2 ^ 128), Nat.mod_eq_of_lt hi, Nat.mod_eq_of_lt (by omega)]
  simp only [Spec.Belt.ctr128, usizeLE, e, unpackBE16_zext64, List.reverse_append, List.reverse_replicate]

theorem ctr128_eq_usize4 (i : Nat) (hi : i < 2 ^ 32) :
    Spec.Belt.ctr128 i = usizeLE 4 i ++ List.replicate 12 0#8 := by
  have e : BitVec.ofNat 128 i = (BitVec.ofNat 32 i).setWidth 128 := by
    apply BitVec.eq_of_toNat_eq
    simp only [BitVec.toNat_ofNat, BitVec.toNat_setWidth]
    rw [Nat.mod_eq_of_lt (by omega : i < 2 ^ 128), Nat.mod_eq_of_lt hi, Nat.mod_eq_of_lt (by omega)]
  simp only [Spec.Belt.ctr128, usizeLE, e, unpackBE16_zext32, List.reverse_append, List.reverse_replicate]


/-! ### `⊕` of the standard vs `xor_set` -/

theorem xorB_eq_xorSet (u v : Bytes) (h : u.length ≤ v.length) : xorB u v = xorSet u v := by
  induction u generalizing v with
  | nil => cases v <;> rfl
  | cons x u ih => cases v with
    | nil => simp at h
    | cons y v =>
      simp only [xorB, List.zipWith_cons_cons, xorSet, List.cons.injEq, true_and]
      exact ih v (by simpa using h)

theorem xorSet_pad_zero (u c : Bytes) (k : Nat) : xorSet u (c ++ List.replicate k 0#8) = xorSet u c := by
  induction u generalizing c k with
  | nil => cases c <;> cases k <;> rfl
  | cons x u ih => cases c with
    | nil =>
      cases k with
      | zero => rfl
      | succ k =>
        simp only [List.nil_append, List.replicate_succ, xorSet, BitVec.xor_zero, List.cons.injEq, true_and]
        have := ih [] k
        simpa [xorSet_nil_right] using this
    | cons y c => simp only [List.cons_append, xorSet, ih]

/-! ### chunks as blocks by index -/

theorem blockAt_zero (W : Bytes) : blockAt W 0 = W.take 16 := by simp [blockAt]

theorem blockAt_succ (W : Bytes) (j : Nat) : blockAt W (j + 1) = blockAt (W.drop 16) j := by
  simp only [blockAt, List.drop_drop]; congr 2; omega

theorem chunksExact_eq_map (W : Bytes) :
    chunksExact 16 W = (List.range (W.length / 16)).map (blockAt W) := by
  generalize hm : W.length / 16 = m
  induction m generalizing W with
  | zero =>
    rw [chunksExact, dif_pos (by omega)]; rfl
  | succ m ih =>
    rw [chunksExact, dif_neg (by omega), ih (W.drop 16) (by simp only [List.length_drop]; omega),
      List.range_succ_eq_map, List.map_cons, blockAt_zero, List.map_map]
    congr 1
    apply List.map_congr_left
    intro j _
    exact (blockAt_succ W j).symm

theorem blockAt_length (W : Bytes) (j : Nat) (h : 16 * j + 16 ≤ W.length) : (blockAt W j).length = 16 := by
  simp only [blockAt, List.length_take, List.length_drop]; omega

theorem blockAt_take (W : Bytes) (j k : Nat) (h : 16 * j + 16 ≤ k) : blockAt (W.take k) j = blockAt W j := by
  simp only [blockAt, List.drop_take, List.take_take]
  congr 1; omega

theorem blockAt_append_left (r1 Z : Bytes) (j : Nat) (h1 : r1.length = 16) :
    blockAt (r1 ++ Z) (1 + j) = blockAt Z j := by
  rw [Nat.add_comm, blockAt_succ]
  congr 1
  rw [List.drop_append, h1]; simp [List.drop_of_length_le, h1]

/-- fold congruence under an invariant -/
theorem foldl_congr_inv {α ι : Type} (P : α → Prop) (f g : α → ι → α) (l : List ι)
    (h : ∀ a j, j ∈ l → P a → f a j = g a j ∧ P (f a j)) (a : α) (ha : P a) :
    l.foldl f a = l.foldl g a := by
  induction l generalizing a with
  | nil => rfl
  | cons j l ih =>
    obtain ⟨e, hp⟩ := h a j List.mem_cons_self ha
    rw [List.foldl_cons, List.foldl_cons, ← e]
    exact ih (fun a j hj => h a j (List.mem_cons_of_mem _ hj)) _ hp

/-- the sum `acc ⊕ r2 ⊕ … ⊕ r_{n−1}` of the standard (blocks of `r = r1 ++ Z`) is the `chunks_exact` fold of
the code over `Z` without its last byte -/
theorem xorBlocks_eq_sigma (r1 Z acc : Bytes) (h1 : r1.length = 16) (hZ : 16 ≤ Z.length)
    (hacc : acc.length = 16) :
    Spec.Belt.xorBlocks (r1 ++ Z) 1 ((16 + Z.length + 15) / 16 - 1) acc = sigma acc Z := by
  have hm : (16 + Z.length + 15) / 16 - 1 - 1 = (Z.take (Z.length - 1)).length / 16 := by
    simp only [List.length_take]; omega
  simp only [Spec.Belt.xorBlocks, sigma, hm, chunksExact_eq_map, List.foldl_map,
    List.range'_eq_map_range]
  apply foldl_congr_inv (fun a : Bytes => a.length = 16)
  · intro a j hj ha
    have hj' : j < (Z.take (Z.length - 1)).length / 16 := List.mem_range.mp hj
    simp only [List.length_take] at hj'
    have hb : 16 * j + 16 ≤ Z.length - 1 := by omega
    rw [blockAt_append_left r1 Z j h1, blockAt_take Z j _ hb]
    have hl : (blockAt Z j).length = 16 := blockAt_length Z j (by omega)
    rw [xorB_eq_xorSet _ _ (by omega)]
    exact ⟨rfl, by rw [xorSet_length, ha]⟩
  · exact hacc


/-! ### rounds -/

theorem blockEncBytes_eq (K : BitVec 256) (s : Bytes) :
    Spec.Belt.blockEncBytes K s = rawBytes (toKey K) s := by
  simp only [Spec.Belt.blockEncBytes, rawBytes, ← encrypt_eq_spec, encrypt, new]

/-- the counter xor: `xor_set(tail1, &i.to_le_bytes())` touches 8 (or 4) bytes, the standard xors `⟨i⟩₁₂₈` -/
def CtrOk (ub : Nat) (i : Nat) : Prop :=
  ∃ k, Spec.Belt.ctr128 i = usizeLE ub i ++ List.replicate k 0#8

theorem ctrOk8 (i : Nat) (h : i < 2 ^ 64) : CtrOk 8 i := ⟨8, ctr128_eq_usize8 i h⟩
theorem ctrOk4 (i : Nat) (h : i < 2 ^ 32) : CtrOk 4 i := ⟨12, ctr128_eq_usize4 i h⟩

theorem ctr128_length (i : Nat) : (Spec.Belt.ctr128 i).length = 16 := by
  simp [Spec.Belt.ctr128, unpackBE]

theorem xor_tail_eq (ub : Nat) (K : BitVec 256) (i : Nat) (hc : CtrOk ub i) (t s : Bytes) (ht : t.length = 16) :
    xorB (xorB t (Spec.Belt.blockEncBytes K s)) (Spec.Belt.ctr128 i) =
      xorSet (xorSet t (rawBytes (toKey K) s)) (usizeLE ub i) := by
  obtain ⟨k, hk⟩ := hc
  rw [blockEncBytes_eq, xorB_eq_xorSet t _ (by rw [rawBytes_length, ht]; exact Nat.le_refl _),
    xorB_eq_xorSet _ _ (by rw [xorSet_length, ht, ctr128_length]; exact Nat.le_refl _), hk, xorSet_pad_zero]

/-- one round of §6.2.3 = one iteration of the loop of `belt_wblock_enc` -/
theorem wEncRound_eq (ub : Nat) (K : BitVec 256) (i : Nat) (hc : CtrOk ub i) (len : Nat) (data : Bytes)
    (hl : data.length = len) (h32 : 32 ≤ len) :
    Spec.Belt.wEncRound K ((len + 15) / 16) i data = wblockEncRound ub (toKey K) len i data := by
  obtain ⟨r1, M, rt, rfl, h1, hM, ht⟩ := split_first data (len - 32) (by omega)
  have e : len = 32 + M.length := by omega
  rw [e, wblockEncRound_nf ub (toKey K) i r1 M rt h1 ht]
  have hn : (32 + M.length + 15) / 16 = (16 + (M ++ rt).length + 15) / 16 := by
    simp only [List.length_append, ht]; omega
  have hb0 : blockAt (r1 ++ M ++ rt) 0 = r1 := by
    rw [blockAt_zero, List.append_assoc, List.take_left' h1]
  have hlast : Spec.Belt.lastBlock (r1 ++ M ++ rt) = rt := by
    simp only [Spec.Belt.lastBlock, List.length_append, h1, ht]
    have : 16 + M.length + 16 - 16 = (r1 ++ M).length := by simp only [List.length_append, h1]; omega
    rw [this, List.drop_left]
  have hs : Spec.Belt.xorBlocks (r1 ++ M ++ rt) 1 ((32 + M.length + 15) / 16 - 1) (blockAt (r1 ++ M ++ rt) 0)
      = sigma r1 (M ++ rt) := by
    rw [hb0, hn, List.append_assoc, xorBlocks_eq_sigma r1 (M ++ rt) r1 h1 (by simp [ht]) h1]
  simp only [Spec.Belt.wEncRound, hs, hlast]
  rw [xor_tail_eq ub K i hc rt _ ht]
  generalize hX : xorSet (xorSet rt (rawBytes (toKey K) (sigma r1 (M ++ rt)))) (usizeLE ub i) = X
  have hXl : X.length = 16 := by rw [← hX, xorSet_length, xorSet_length, ht]
  have hsl : (sigma r1 (M ++ rt)).length = 16 := by rw [sigma_length, h1]
  -- r* ← …, ShLo, r* ← s
  have e1 : Spec.Belt.setLastBlock (r1 ++ M ++ rt) X = r1 ++ M ++ X := by
    simp only [Spec.Belt.setLastBlock, List.length_append, h1, ht]
    have : 16 + M.length + 16 - 16 = (r1 ++ M).length := by simp only [List.length_append, h1]; omega
    rw [this, List.take_left' rfl]
  have e2 : Spec.Belt.shLo128 (r1 ++ M ++ X) = M ++ X ++ List.replicate 16 0#8 := by
    simp only [Spec.Belt.shLo128, List.append_assoc]
    rw [List.drop_left' h1]
    simp only [List.append_assoc]
  have e3 : Spec.Belt.setLastBlock (M ++ X ++ List.replicate 16 0#8) (sigma r1 (M ++ rt)) =
      M ++ X ++ sigma r1 (M ++ rt) := by
    simp only [Spec.Belt.setLastBlock, List.length_append, List.length_replicate, hXl]
    have : M.length + 16 + 16 - 16 = (M ++ X).length := by simp only [List.length_append, hXl]; omega
    rw [this, List.take_left' rfl]
  rw [e1, e2, e3]

/-- one round of §6.2.4 = one iteration of the loop of `belt_wblock_dec` -/
theorem wDecRound_eq (ub : Nat) (K : BitVec 256) (i : Nat) (hc : CtrOk ub i) (len : Nat) (data : Bytes)
    (hl : data.length = len) (h32 : 32 ≤ len) :
    Spec.Belt.wDecRound K ((len + 15) / 16) i data = wblockDecRound ub (toKey K) len i data := by
  obtain ⟨M, T, S, rfl, hM, hT, hS⟩ := split_last data (len - 32) (by omega)
  have e : len = 32 + M.length := by omega
  rw [e, wblockDecRound_nf ub (toKey K) i M T S hT hS]
  have hlast : Spec.Belt.lastBlock (M ++ T ++ S) = S := by
    simp only [Spec.Belt.lastBlock, List.length_append, hT, hS]
    have : M.length + 16 + 16 - 16 = (M ++ T).length := by simp only [List.length_append, hT]; omega
    rw [this, List.drop_left]
  have e1 : Spec.Belt.shHi128 (M ++ T ++ S) = List.replicate 16 0#8 ++ M ++ T := by
    simp only [Spec.Belt.shHi128, List.length_append, hT, hS]
    have : M.length + 16 + 16 - 16 = (M ++ T).length := by simp only [List.length_append, hT]; omega
    rw [this, List.take_left' rfl, List.append_assoc]
  have hlast2 : Spec.Belt.lastBlock (List.replicate 16 0#8 ++ M ++ T) = T := by
    simp only [Spec.Belt.lastBlock, List.length_append, List.length_replicate, hT]
    have : 16 + M.length + 16 - 16 = (List.replicate 16 0#8 ++ M).length := by
      simp only [List.length_append, List.length_replicate]; omega
    rw [this, List.drop_left]
  simp only [Spec.Belt.wDecRound, hlast, e1, hlast2]
  rw [xor_tail_eq ub K i hc T S hT]
  generalize hX : xorSet (xorSet T (rawBytes (toKey K) S)) (usizeLE ub i) = X
  have hXl : X.length = 16 := by rw [← hX, xorSet_length, xorSet_length, hT]
  have e2 : Spec.Belt.setLastBlock (List.replicate 16 0#8 ++ M ++ T) X = List.replicate 16 0#8 ++ M ++ X := by
    simp only [Spec.Belt.setLastBlock, List.length_append, List.length_replicate, hT]
    have : 16 + M.length + 16 - 16 = (List.replicate 16 0#8 ++ M).length := by
      simp only [List.length_append, List.length_replicate]; omega
    rw [this, List.take_left' rfl]
  rw [e2]
  have hn : (32 + M.length + 15) / 16 = (16 + (M ++ X).length + 15) / 16 := by
    simp only [List.length_append, hXl]; omega
  have hs : Spec.Belt.xorBlocks (List.replicate 16 0#8 ++ M ++ X) 1 ((32 + M.length + 15) / 16 - 1) S
      = sigma S (M ++ X) := by
    rw [hn, List.append_assoc, xorBlocks_eq_sigma _ (M ++ X) S (by simp) (by simp [hXl]) hS]
  rw [hs]
  simp only [Spec.Belt.setFirstBlock, List.append_assoc]
  rw [List.drop_left' (by simp)]


/-! ### the loops: `belt_wblock_enc` / `belt_wblock_dec` = belt-wblock of the standard -/

theorem wblockEncU_eq_spec (ub : Nat) (K : BitVec 256) (d : Bytes) (h32 : 32 ≤ d.length)
    (hc : ∀ i, 1 ≤ i → i ≤ 2 * ((d.length + 15) / 16) → CtrOk ub i) :
    wblockEncU ub d (toKey K) = (.ok, Spec.Belt.wblockEnc K d) := by
  unfold wblockEncU Spec.Belt.wblockEnc Spec.Belt.numBlocks forRange
  rw [if_neg (by omega)]
  simp only [Prod.mk.injEq, true_and]
  apply foldl_congr_inv (fun a : Bytes => a.length = d.length)
  · intro a j hj ha
    rw [List.mem_range'_1] at hj
    exact ⟨(wEncRound_eq ub K j (hc j hj.1 (by omega)) d.length a ha h32).symm,
      wblockEncRound_length ub (toKey K) d.length j a ha h32⟩
  · rfl

theorem wblockDecU_eq_spec (ub : Nat) (K : BitVec 256) (d : Bytes) (h32 : 32 ≤ d.length)
    (hc : ∀ i, 1 ≤ i → i ≤ 2 * ((d.length + 15) / 16) → CtrOk ub i) :
    wblockDecU ub d (toKey K) = (.ok, Spec.Belt.wblockDec K d) := by
  unfold wblockDecU Spec.Belt.wblockDec Spec.Belt.numBlocks forRangeRev
  rw [if_neg (by omega)]
  simp only [Prod.mk.injEq, true_and]
  apply foldl_congr_inv (fun a : Bytes => a.length = d.length)
  · intro a j hj ha
    rw [List.mem_reverse, List.mem_range'_1] at hj
    exact ⟨(wDecRound_eq ub K j (hc j hj.1 (by omega)) d.length a ha h32).symm,
      wblockDecRound_length ub (toKey K) d.length j a ha h32⟩
  · rfl

/-- C18: on the 64-bit target `belt_wblock_enc` is belt-wblock encryption of STB 34.101.31 §6.2.3 for every
input of at least 32 bytes (any length) -/
theorem wblockEnc_eq_spec (K : BitVec 256) (d : Bytes) (h32 : 32 ≤ d.length) (hu : d.length < 2 ^ 64) :
    wblockEnc d (toKey K) = (.ok, Spec.Belt.wblockEnc K d) :=
  wblockEncU_eq_spec 8 K d h32 (fun i _ hi => ctrOk8 i (by omega))

/-- C18: `belt_wblock_dec` is belt-wblock decryption of §6.2.4 -/
theorem wblockDec_eq_spec (K : BitVec 256) (d : Bytes) (h32 : 32 ≤ d.length) (hu : d.length < 2 ^ 64) :
    wblockDec d (toKey K) = (.ok, Spec.Belt.wblockDec K d) :=
  wblockDecU_eq_spec 8 K d h32 (fun i _ hi => ctrOk8 i (by omega))

/-- the same on a 32-bit target (`usize` = 4 bytes): the round counter `i ≤ 2n` fits -/
theorem wblockEnc32_eq_spec (K : BitVec 256) (d : Bytes) (h32 : 32 ≤ d.length) (hu : d.length < 2 ^ 32) :
    wblockEncU 4 d (toKey K) = (.ok, Spec.Belt.wblockEnc K d) :=
  wblockEncU_eq_spec 4 K d h32 (fun i _ hi => ctrOk4 i (by omega))

theorem wblockDec32_eq_spec (K : BitVec 256) (d : Bytes) (h32 : 32 ≤ d.length) (hu : d.length < 2 ^ 32) :
    wblockDecU 4 d (toKey K) = (.ok, Spec.Belt.wblockDec K d) :=
  wblockDecU_eq_spec 4 K d h32 (fun i _ hi => ctrOk4 i (by omega))

/-- hence both targets compute the same function -/
theorem wblockEnc_width_independent (K : BitVec 256) (d : Bytes) (h32 : 32 ≤ d.length) (hu : d.length < 2 ^ 32) :
    wblockEncU 4 d (toKey K) = wblockEncU 8 d (toKey K) := by
  rw [wblockEnc32_eq_spec K d h32 hu]
  exact (wblockEnc_eq_spec K d h32 (by omega)).symm

/-- the standard's wide-block decryption inverts its encryption (through the model) -/
theorem spec_wblockDec_wblockEnc (K : BitVec 256) (d : Bytes) (h32 : 32 ≤ d.length) (hu : d.length < 2 ^ 64) :
    Spec.Belt.wblockDec K (Spec.Belt.wblockEnc K d) = d := by
  have h1 := wblockEnc_eq_spec K d h32 hu
  have hlen : (Spec.Belt.wblockEnc K d).length = d.length := by
    have := (wblockEncU_ok 8 d (toKey K) h32).2
    rw [show wblockEncU 8 d (toKey K) = wblockEnc d (toKey K) from rfl, h1] at this
    exact this
  have h2 := wblockDec_eq_spec K (Spec.Belt.wblockEnc K d) (by omega) (by omega)
  have h3 := wblockDec_wblockEnc d (toKey K) h32
  rw [h1] at h3
  rw [h2] at h3
  exact (Prod.mk.inj h3).2


/-! ### STB 34.101.31 Table A.6 (belt-wblock encryption, 48 and 47 octets) and Table A.7 (decryption, 48 and
36 octets) -/

def kA6 : BitVec 256 := 0xe9dee72c8f0c0fa62ddb49f46f73964706075316ed247a3739cba38303a98bf6#256
def kA7 : BitVec 256 := 0x92bd9b1ce5d141015445fbc95e4d0ef2682080aa227d642f2687f93490405511#256
def xA6_1 : Bytes := [0xb1#8, 0x94#8, 0xba#8, 0xc8#8, 0x0a#8, 0x08#8, 0xf5#8, 0x3b#8, 0x36#8, 0x6d#8, 0x00#8, 0x8e#8, 0x58#8, 0x4a#8, 0x5d#8, 0xe4#8, 0x85#8, 0x04#8, 0xfa#8, 0x9d#8, 0x1b#8, 0xb6#8, 0xc7#8, 0xac#8, 0x25#8, 0x2e#8, 0x72#8, 0xc2#8, 0x02#8, 0xfd#8, 0xce#8, 0x0d#8, 0x5b#8, 0xe3#8, 0xd6#8, 0x12#8, 0x17#8, 0xb9#8, 0x61#8, 0x81#8, 0xfe#8, 0x67#8, 0x86#8, 0xad#8, 0x71#8, 0x6b#8, 0x89#8, 0x0b#8]
def yA6_1 : Bytes := [0x49#8, 0xa3#8, 0x8e#8, 0xe1#8, 0x08#8, 0xd6#8, 0xc7#8, 0x42#8, 0xe5#8, 0x2b#8, 0x77#8, 0x4f#8, 0x00#8, 0xa6#8, 0xef#8, 0x98#8, 0xb1#8, 0x06#8, 0xcb#8, 0xd1#8, 0x3e#8, 0xa4#8, 0xfb#8, 0x06#8, 0x80#8, 0x32#8, 0x30#8, 0x51#8, 0xbc#8, 0x04#8, 0xdf#8, 0x76#8, 0xe4#8, 0x87#8, 0xb0#8, 0x55#8, 0xc6#8, 0x9b#8, 0xcf#8, 0x54#8, 0x11#8, 0x76#8, 0x16#8, 0x9f#8, 0x1d#8, 0xc9#8, 0xf6#8, 0xc8#8]
def xA6_2 : Bytes := [0xb1#8, 0x94#8, 0xba#8, 0xc8#8, 0x0a#8, 0x08#8, 0xf5#8, 0x3b#8, 0x36#8, 0x6d#8, 0x00#8, 0x8e#8, 0x58#8, 0x4a#8, 0x5d#8, 0xe4#8, 0x85#8, 0x04#8, 0xfa#8, 0x9d#8, 0x1b#8, 0xb6#8, 0xc7#8, 0xac#8, 0x25#8, 0x2e#8, 0x72#8, 0xc2#8, 0x02#8, 0xfd#8, 0xce#8, 0x0d#8, 0x5b#8, 0xe3#8, 0xd6#8, 0x12#8, 0x17#8, 0xb9#8, 0x61#8, 0x81#8, 0xfe#8, 0x67#8, 0x86#8, 0xad#8, 0x71#8, 0x6b#8, 0x89#8]
def yA6_2 : Bytes := [0xf0#8, 0x8e#8, 0xf2#8, 0x2d#8, 0xca#8, 0xa0#8, 0x6c#8, 0x81#8, 0xfb#8, 0x12#8, 0x72#8, 0x19#8, 0x74#8, 0x22#8, 0x1c#8, 0xa7#8, 0xab#8, 0x82#8, 0xc6#8, 0x28#8, 0x56#8, 0xfc#8, 0xf2#8, 0xf9#8, 0xfc#8, 0xa0#8, 0x06#8, 0xe0#8, 0x19#8, 0xa2#8, 0x8f#8, 0x16#8, 0xe5#8, 0x82#8, 0x1a#8, 0x51#8, 0xf5#8, 0x73#8, 0x59#8, 0x46#8, 0x25#8, 0xdb#8, 0xab#8, 0x8f#8, 0x6a#8, 0x5c#8, 0x94#8]
def yA7_1 : Bytes := [0xe1#8, 0x2b#8, 0xdc#8, 0x1a#8, 0xe2#8, 0x82#8, 0x57#8, 0xec#8, 0x70#8, 0x3f#8, 0xcc#8, 0xf0#8, 0x95#8, 0xee#8, 0x8d#8, 0xf1#8, 0xc1#8, 0xab#8, 0x76#8, 0x38#8, 0x9f#8, 0xe6#8, 0x78#8, 0xca#8, 0xf7#8, 0xc6#8, 0xf8#8, 0x60#8, 0xd5#8, 0xbb#8, 0x9c#8, 0x4f#8, 0xf3#8, 0x3c#8, 0x65#8, 0x7b#8, 0x63#8, 0x7c#8, 0x30#8, 0x6a#8, 0xdd#8, 0x4e#8, 0xa7#8, 0x79#8, 0x9e#8, 0xb2#8, 0x3d#8, 0x31#8]
def xA7_1 : Bytes := [0x92#8, 0x63#8, 0x2e#8, 0xe0#8, 0xc2#8, 0x1a#8, 0xd9#8, 0xe0#8, 0x9a#8, 0x39#8, 0x34#8, 0x3e#8, 0x5c#8, 0x07#8, 0xda#8, 0xa4#8, 0x88#8, 0x9b#8, 0x03#8, 0xf2#8, 0xe6#8, 0x84#8, 0x7e#8, 0xb1#8, 0x52#8, 0xec#8, 0x99#8, 0xf7#8, 0xa4#8, 0xd9#8, 0xf1#8, 0x54#8, 0xb5#8, 0xef#8, 0x68#8, 0xd8#8, 0xe4#8, 0xa3#8, 0x9e#8, 0x56#8, 0x71#8, 0x53#8, 0xde#8, 0x13#8, 0xd7#8, 0x22#8, 0x54#8, 0xee#8]
def yA7_2 : Bytes := [0xe1#8, 0x2b#8, 0xdc#8, 0x1a#8, 0xe2#8, 0x82#8, 0x57#8, 0xec#8, 0x70#8, 0x3f#8, 0xcc#8, 0xf0#8, 0x95#8, 0xee#8, 0x8d#8, 0xf1#8, 0xc1#8, 0xab#8, 0x76#8, 0x38#8, 0x9f#8, 0xe6#8, 0x78#8, 0xca#8, 0xf7#8, 0xc6#8, 0xf8#8, 0x60#8, 0xd5#8, 0xbb#8, 0x9c#8, 0x4f#8, 0xf3#8, 0x3c#8, 0x65#8, 0x7b#8]
def xA7_2 : Bytes := [0xdf#8, 0x3f#8, 0x88#8, 0x22#8, 0x30#8, 0xba#8, 0xaf#8, 0xfc#8, 0x92#8, 0xf0#8, 0x56#8, 0x60#8, 0x32#8, 0x11#8, 0x72#8, 0x31#8, 0x0e#8, 0x3c#8, 0xb2#8, 0x18#8, 0x26#8, 0x81#8, 0xef#8, 0x43#8, 0x10#8, 0x2e#8, 0x67#8, 0x17#8, 0x5e#8, 0x17#8, 0x7b#8, 0xd7#8, 0x5e#8, 0x93#8, 0xe4#8, 0xe8#8]

theorem kat_A6_1 : Spec.Belt.wblockEnc kA6 xA6_1 = yA6_1 := by decide +kernel
theorem kat_A6_2 : Spec.Belt.wblockEnc kA6 xA6_2 = yA6_2 := by decide +kernel
theorem kat_A7_1 : Spec.Belt.wblockDec kA7 yA7_1 = xA7_1 := by decide +kernel
theorem kat_A7_2 : Spec.Belt.wblockDec kA7 yA7_2 = xA7_2 := by decide +kernel

/-- the same vectors through the model of the crate (via the conformance theorem) -/
example : wblockEnc xA6_1 (toKey kA6) = (.ok, yA6_1) := by
  rw [wblockEnc_eq_spec kA6 xA6_1 (by decide) (by decide), kat_A6_1]
example : wblockEnc xA6_2 (toKey kA6) = (.ok, yA6_2) := by
  rw [wblockEnc_eq_spec kA6 xA6_2 (by decide) (by decide), kat_A6_2]
example : wblockDec yA7_1 (toKey kA7) = (.ok, xA7_1) := by
  rw [wblockDec_eq_spec kA7 yA7_1 (by decide) (by decide), kat_A7_1]
example : wblockDec yA7_2 (toKey kA7) = (.ok, xA7_2) := by
  rw [wblockDec_eq_spec kA7 yA7_2 (by decide) (by decide), kat_A7_2]

end BC.Belt
