import BlockCiphers.Proofs.Basic
import BlockCiphers.Impl.Aria
import BlockCiphers.Spec.Aria
/-
ARIA diffusion layer: utils.rs `diffuse` (xor of `DIFFUSE_CONSTS[i] * x[i]`) is the 16×16 binary matrix A
of RFC 5794 §2.4.3; A is linear and an involution.  The multiply/gather equalities are `bv_decide (config := { timeout := 600 })`
(1–3 s each); the involution is proved byte-wise (bytes of `A x` as xors of bytes of `x`, then
AC-normalisation and cancellation) because the 128-bit parity miter takes > 100 s in the SAT solver.
-/
namespace BC.Aria
open BC.Spec.Aria (A concat byteOf)

/-- C20: none of the sixteen products of `diffuse` overflows a `u128`: a constant whose bytes are 0/1
times a byte value ≤ 255 is at most `0x01…01 * 255 = 0xff…ff`. -/
theorem diffuse_mul_no_overflow (b : BitVec 8) :
    ∀ c ∈ DIFFUSE_CONSTS, c.toNat * b.toNat < 2 ^ 128 := by
  have hb := b.isLt
  intro c h
  simp only [DIFFUSE_CONSTS, List.mem_cons, List.not_mem_nil, or_false] at h
  rcases h with h | h | h | h | h | h | h | h | h | h | h | h | h | h | h | h <;> subst h <;>
    simp only [BitVec.toNat_ofNat, Nat.reducePow, Nat.reduceMod] <;> omega

theorem fromBeBytes_eq_concat (ys : List (BitVec 8)) : fromBeBytes ys = concat ys := rfl

theorem byte_eq (x : BitVec 128) (i : Nat) (h : i < 16) : byte x i = byteOf x i := by
  have : i = 0 ∨ i = 1 ∨ i = 2 ∨ i = 3 ∨ i = 4 ∨ i = 5 ∨ i = 6 ∨ i = 7 ∨ i = 8 ∨ i = 9 ∨ i = 10 ∨
      i = 11 ∨ i = 12 ∨ i = 13 ∨ i = 14 ∨ i = 15 := by omega
  rcases this with h | h | h | h | h | h | h | h | h | h | h | h | h | h | h | h <;> subst h <;>
    simp only [byte, byteOf, Nat.reduceMul, Nat.reduceSub] <;> bv_decide (config := { timeout := 600 })

theorem byte_eq_0 (x : BitVec 128) : byte x 0 = byteOf x 0 := byte_eq x 0 (by decide)
theorem byte_eq_1 (x : BitVec 128) : byte x 1 = byteOf x 1 := byte_eq x 1 (by decide)
theorem byte_eq_2 (x : BitVec 128) : byte x 2 = byteOf x 2 := byte_eq x 2 (by decide)
theorem byte_eq_3 (x : BitVec 128) : byte x 3 = byteOf x 3 := byte_eq x 3 (by decide)
theorem byte_eq_4 (x : BitVec 128) : byte x 4 = byteOf x 4 := byte_eq x 4 (by decide)
theorem byte_eq_5 (x : BitVec 128) : byte x 5 = byteOf x 5 := byte_eq x 5 (by decide)
theorem byte_eq_6 (x : BitVec 128) : byte x 6 = byteOf x 6 := byte_eq x 6 (by decide)
theorem byte_eq_7 (x : BitVec 128) : byte x 7 = byteOf x 7 := byte_eq x 7 (by decide)
theorem byte_eq_8 (x : BitVec 128) : byte x 8 = byteOf x 8 := byte_eq x 8 (by decide)
theorem byte_eq_9 (x : BitVec 128) : byte x 9 = byteOf x 9 := byte_eq x 9 (by decide)
theorem byte_eq_10 (x : BitVec 128) : byte x 10 = byteOf x 10 := byte_eq x 10 (by decide)
theorem byte_eq_11 (x : BitVec 128) : byte x 11 = byteOf x 11 := byte_eq x 11 (by decide)
theorem byte_eq_12 (x : BitVec 128) : byte x 12 = byteOf x 12 := byte_eq x 12 (by decide)
theorem byte_eq_13 (x : BitVec 128) : byte x 13 = byteOf x 13 := byte_eq x 13 (by decide)
theorem byte_eq_14 (x : BitVec 128) : byte x 14 = byteOf x 14 := byte_eq x 14 (by decide)
theorem byte_eq_15 (x : BitVec 128) : byte x 15 = byteOf x 15 := byte_eq x 15 (by decide)

/-! ### bytes of a concatenation -/

theorem byteOf_concat_0 (y0 y1 y2 y3 y4 y5 y6 y7 y8 y9 y10 y11 y12 y13 y14 y15 : BitVec 8) : byteOf (concat [y0, y1, y2, y3, y4, y5, y6, y7, y8, y9, y10, y11, y12, y13, y14, y15]) 0 = y0 := by
  simp only [byteOf, concat, List.foldl_cons, List.foldl_nil, Nat.reduceMul, Nat.reduceSub]; bv_decide (config := { timeout := 600 })
theorem byteOf_concat_1 (y0 y1 y2 y3 y4 y5 y6 y7 y8 y9 y10 y11 y12 y13 y14 y15 : BitVec 8) : byteOf (concat [y0, y1, y2, y3, y4, y5, y6, y7, y8, y9, y10, y11, y12, y13, y14, y15]) 1 = y1 := by
  simp only [byteOf, concat, List.foldl_cons, List.foldl_nil, Nat.reduceMul, Nat.reduceSub]; bv_decide (config := { timeout := 600 })
theorem byteOf_concat_2 (y0 y1 y2 y3 y4 y5 y6 y7 y8 y9 y10 y11 y12 y13 y14 y15 : BitVec 8) : byteOf (concat [y0, y1, y2, y3, y4, y5, y6, y7, y8, y9, y10, y11, y12, y13, y14, y15]) 2 = y2 := by
  simp only [byteOf, concat, List.foldl_cons, List.foldl_nil, Nat.reduceMul, Nat.reduceSub]; bv_decide (config := { timeout := 600 })
theorem byteOf_concat_3 (y0 y1 y2 y3 y4 y5 y6 y7 y8 y9 y10 y11 y12 y13 y14 y15 : BitVec 8) : byteOf (concat [y0, y1, y2, y3, y4, y5, y6, y7, y8, y9, y10, y11, y12, y13, y14, y15]) 3 = y3 := by
  simp only [byteOf, concat, List.foldl_cons, List.foldl_nil, Nat.reduceMul, Nat.reduceSub]; bv_decide (config := { timeout := 600 })
theorem byteOf_concat_4 (y0 y1 y2 y3 y4 y5 y6 y7 y8 y9 y10 y11 y12 y13 y14 y15 : BitVec 8) : byteOf (concat [y0, y1, y2, y3, y4, y5, y6, y7, y8, y9, y10, y11, y12, y13, y14, y15]) 4 = y4 := by
  simp only [byteOf, concat, List.foldl_cons, List.foldl_nil, Nat.reduceMul, Nat.reduceSub]; bv_decide (config := { timeout := 600 })
theorem byteOf_concat_5 (y0 y1 y2 y3 y4 y5 y6 y7 y8 y9 y10 y11 y12 y13 y14 y15 : BitVec 8) : byteOf (concat [y0, y1, y2, y3, y4, y5, y6, y7, y8, y9, y10, y11, y12, y13, y14, y15]) 5 = y5 := by
  simp only [byteOf, concat, List.foldl_cons, List.foldl_nil, Nat.reduceMul, Nat.reduceSub]; bv_decide (config := { timeout := 600 })
theorem byteOf_concat_6 (y0 y1 y2 y3 y4 y5 y6 y7 y8 y9 y10 y11 y12 y13 y14 y15 : BitVec 8) : byteOf (concat [y0, y1, y2, y3, y4, y5, y6, y7, y8, y9, y10, y11, y12, y13, y14, y15]) 6 = y6 := by
  simp only [byteOf, concat, List.foldl_cons, List.foldl_nil, Nat.reduceMul, Nat.reduceSub]; bv_decide (config := { timeout := 600 })
theorem byteOf_concat_7 (y0 y1 y2 y3 y4 y5 y6 y7 y8 y9 y10 y11 y12 y13 y14 y15 : BitVec 8) : byteOf (concat [y0, y1, y2, y3, y4, y5, y6, y7, y8, y9, y10, y11, y12, y13, y14, y15]) 7 = y7 := by
  simp only [byteOf, concat, List.foldl_cons, List.foldl_nil, Nat.reduceMul, Nat.reduceSub]; bv_decide (config := { timeout := 600 })
theorem byteOf_concat_8 (y0 y1 y2 y3 y4 y5 y6 y7 y8 y9 y10 y11 y12 y13 y14 y15 : BitVec 8) : byteOf (concat [y0, y1, y2, y3, y4, y5, y6, y7, y8, y9, y10, y11, y12, y13, y14, y15]) 8 = y8 := by
  simp only [byteOf, concat, List.foldl_cons, List.foldl_nil, Nat.reduceMul, Nat.reduceSub]; bv_decide (config := { timeout := 600 })
theorem byteOf_concat_9 (y0 y1 y2 y3 y4 y5 y6 y7 y8 y9 y10 y11 y12 y13 y14 y15 : BitVec 8) : byteOf (concat [y0, y1, y2, y3, y4, y5, y6, y7, y8, y9, y10, y11, y12, y13, y14, y15]) 9 = y9 := by
  simp only [byteOf, concat, List.foldl_cons, List.foldl_nil, Nat.reduceMul, Nat.reduceSub]; bv_decide (config := { timeout := 600 })
theorem byteOf_concat_10 (y0 y1 y2 y3 y4 y5 y6 y7 y8 y9 y10 y11 y12 y13 y14 y15 : BitVec 8) : byteOf (concat [y0, y1, y2, y3, y4, y5, y6, y7, y8, y9, y10, y11, y12, y13, y14, y15]) 10 = y10 := by
  simp only [byteOf, concat, List.foldl_cons, List.foldl_nil, Nat.reduceMul, Nat.reduceSub]; bv_decide (config := { timeout := 600 })
theorem byteOf_concat_11 (y0 y1 y2 y3 y4 y5 y6 y7 y8 y9 y10 y11 y12 y13 y14 y15 : BitVec 8) : byteOf (concat [y0, y1, y2, y3, y4, y5, y6, y7, y8, y9, y10, y11, y12, y13, y14, y15]) 11 = y11 := by
  simp only [byteOf, concat, List.foldl_cons, List.foldl_nil, Nat.reduceMul, Nat.reduceSub]; bv_decide (config := { timeout := 600 })
theorem byteOf_concat_12 (y0 y1 y2 y3 y4 y5 y6 y7 y8 y9 y10 y11 y12 y13 y14 y15 : BitVec 8) : byteOf (concat [y0, y1, y2, y3, y4, y5, y6, y7, y8, y9, y10, y11, y12, y13, y14, y15]) 12 = y12 := by
  simp only [byteOf, concat, List.foldl_cons, List.foldl_nil, Nat.reduceMul, Nat.reduceSub]; bv_decide (config := { timeout := 600 })
theorem byteOf_concat_13 (y0 y1 y2 y3 y4 y5 y6 y7 y8 y9 y10 y11 y12 y13 y14 y15 : BitVec 8) : byteOf (concat [y0, y1, y2, y3, y4, y5, y6, y7, y8, y9, y10, y11, y12, y13, y14, y15]) 13 = y13 := by
  simp only [byteOf, concat, List.foldl_cons, List.foldl_nil, Nat.reduceMul, Nat.reduceSub]; bv_decide (config := { timeout := 600 })
theorem byteOf_concat_14 (y0 y1 y2 y3 y4 y5 y6 y7 y8 y9 y10 y11 y12 y13 y14 y15 : BitVec 8) : byteOf (concat [y0, y1, y2, y3, y4, y5, y6, y7, y8, y9, y10, y11, y12, y13, y14, y15]) 14 = y14 := by
  simp only [byteOf, concat, List.foldl_cons, List.foldl_nil, Nat.reduceMul, Nat.reduceSub]; bv_decide (config := { timeout := 600 })
theorem byteOf_concat_15 (y0 y1 y2 y3 y4 y5 y6 y7 y8 y9 y10 y11 y12 y13 y14 y15 : BitVec 8) : byteOf (concat [y0, y1, y2, y3, y4, y5, y6, y7, y8, y9, y10, y11, y12, y13, y14, y15]) 15 = y15 := by
  simp only [byteOf, concat, List.foldl_cons, List.foldl_nil, Nat.reduceMul, Nat.reduceSub]; bv_decide (config := { timeout := 600 })

theorem concat_byteOf (x : BitVec 128) :
    concat [byteOf x 0, byteOf x 1, byteOf x 2, byteOf x 3, byteOf x 4, byteOf x 5, byteOf x 6, byteOf x 7, byteOf x 8, byteOf x 9, byteOf x 10, byteOf x 11, byteOf x 12, byteOf x 13, byteOf x 14, byteOf x 15] = x := by
  simp only [byteOf, concat, List.foldl_cons, List.foldl_nil, Nat.reduceMul, Nat.reduceSub]; bv_decide (config := { timeout := 600 })

/-! ### `diffuse` = A -/

theorem diffuse_eq_A (y0 y1 y2 y3 y4 y5 y6 y7 y8 y9 y10 y11 y12 y13 y14 y15 : BitVec 8) :
    diffuse [y0, y1, y2, y3, y4, y5, y6, y7, y8, y9, y10, y11, y12, y13, y14, y15] = A (concat [y0, y1, y2, y3, y4, y5, y6, y7, y8, y9, y10, y11, y12, y13, y14, y15]) := by
  simp only [diffuse, DIFFUSE_CONSTS, List.zip_cons_cons, List.zip_nil_right, List.map_cons, List.map_nil,
    List.foldl_cons, List.foldl_nil, A, concat, byteOf, Nat.reduceSub, Nat.reduceMul]
  bv_decide (config := { timeout := 600 })

/-- utils.rs `a` = RFC 5794 A -/
theorem a_eq_A (x : BitVec 128) : a x = A x := by
  simp only [a, byte_eq_0, byte_eq_1, byte_eq_2, byte_eq_3, byte_eq_4, byte_eq_5, byte_eq_6, byte_eq_7,
    byte_eq_8, byte_eq_9, byte_eq_10, byte_eq_11, byte_eq_12, byte_eq_13, byte_eq_14, byte_eq_15]
  rw [diffuse_eq_A, concat_byteOf]

/-! ### bytes of `A x` (the sixteen equations of RFC 5794 §2.4.3) -/

theorem byteOf_A_0 (x : BitVec 128) : byteOf (A x) 0 = byteOf x 3 ^^^ byteOf x 4 ^^^ byteOf x 6 ^^^ byteOf x 8 ^^^ byteOf x 9 ^^^ byteOf x 13 ^^^ byteOf x 14 := by
  simp only [A, byteOf_concat_0]
theorem byteOf_A_1 (x : BitVec 128) : byteOf (A x) 1 = byteOf x 2 ^^^ byteOf x 5 ^^^ byteOf x 7 ^^^ byteOf x 8 ^^^ byteOf x 9 ^^^ byteOf x 12 ^^^ byteOf x 15 := by
  simp only [A, byteOf_concat_1]
theorem byteOf_A_2 (x : BitVec 128) : byteOf (A x) 2 = byteOf x 1 ^^^ byteOf x 4 ^^^ byteOf x 6 ^^^ byteOf x 10 ^^^ byteOf x 11 ^^^ byteOf x 12 ^^^ byteOf x 15 := by
  simp only [A, byteOf_concat_2]
theorem byteOf_A_3 (x : BitVec 128) : byteOf (A x) 3 = byteOf x 0 ^^^ byteOf x 5 ^^^ byteOf x 7 ^^^ byteOf x 10 ^^^ byteOf x 11 ^^^ byteOf x 13 ^^^ byteOf x 14 := by
  simp only [A, byteOf_concat_3]
theorem byteOf_A_4 (x : BitVec 128) : byteOf (A x) 4 = byteOf x 0 ^^^ byteOf x 2 ^^^ byteOf x 5 ^^^ byteOf x 8 ^^^ byteOf x 11 ^^^ byteOf x 14 ^^^ byteOf x 15 := by
  simp only [A, byteOf_concat_4]
theorem byteOf_A_5 (x : BitVec 128) : byteOf (A x) 5 = byteOf x 1 ^^^ byteOf x 3 ^^^ byteOf x 4 ^^^ byteOf x 9 ^^^ byteOf x 10 ^^^ byteOf x 14 ^^^ byteOf x 15 := by
  simp only [A, byteOf_concat_5]
theorem byteOf_A_6 (x : BitVec 128) : byteOf (A x) 6 = byteOf x 0 ^^^ byteOf x 2 ^^^ byteOf x 7 ^^^ byteOf x 9 ^^^ byteOf x 10 ^^^ byteOf x 12 ^^^ byteOf x 13 := by
  simp only [A, byteOf_concat_6]
theorem byteOf_A_7 (x : BitVec 128) : byteOf (A x) 7 = byteOf x 1 ^^^ byteOf x 3 ^^^ byteOf x 6 ^^^ byteOf x 8 ^^^ byteOf x 11 ^^^ byteOf x 12 ^^^ byteOf x 13 := by
  simp only [A, byteOf_concat_7]
theorem byteOf_A_8 (x : BitVec 128) : byteOf (A x) 8 = byteOf x 0 ^^^ byteOf x 1 ^^^ byteOf x 4 ^^^ byteOf x 7 ^^^ byteOf x 10 ^^^ byteOf x 13 ^^^ byteOf x 15 := by
  simp only [A, byteOf_concat_8]
theorem byteOf_A_9 (x : BitVec 128) : byteOf (A x) 9 = byteOf x 0 ^^^ byteOf x 1 ^^^ byteOf x 5 ^^^ byteOf x 6 ^^^ byteOf x 11 ^^^ byteOf x 12 ^^^ byteOf x 14 := by
  simp only [A, byteOf_concat_9]
theorem byteOf_A_10 (x : BitVec 128) : byteOf (A x) 10 = byteOf x 2 ^^^ byteOf x 3 ^^^ byteOf x 5 ^^^ byteOf x 6 ^^^ byteOf x 8 ^^^ byteOf x 13 ^^^ byteOf x 15 := by
  simp only [A, byteOf_concat_10]
theorem byteOf_A_11 (x : BitVec 128) : byteOf (A x) 11 = byteOf x 2 ^^^ byteOf x 3 ^^^ byteOf x 4 ^^^ byteOf x 7 ^^^ byteOf x 9 ^^^ byteOf x 12 ^^^ byteOf x 14 := by
  simp only [A, byteOf_concat_11]
theorem byteOf_A_12 (x : BitVec 128) : byteOf (A x) 12 = byteOf x 1 ^^^ byteOf x 2 ^^^ byteOf x 6 ^^^ byteOf x 7 ^^^ byteOf x 9 ^^^ byteOf x 11 ^^^ byteOf x 12 := by
  simp only [A, byteOf_concat_12]
theorem byteOf_A_13 (x : BitVec 128) : byteOf (A x) 13 = byteOf x 0 ^^^ byteOf x 3 ^^^ byteOf x 6 ^^^ byteOf x 7 ^^^ byteOf x 8 ^^^ byteOf x 10 ^^^ byteOf x 13 := by
  simp only [A, byteOf_concat_13]
theorem byteOf_A_14 (x : BitVec 128) : byteOf (A x) 14 = byteOf x 0 ^^^ byteOf x 3 ^^^ byteOf x 4 ^^^ byteOf x 5 ^^^ byteOf x 9 ^^^ byteOf x 11 ^^^ byteOf x 14 := by
  simp only [A, byteOf_concat_14]
theorem byteOf_A_15 (x : BitVec 128) : byteOf (A x) 15 = byteOf x 1 ^^^ byteOf x 2 ^^^ byteOf x 4 ^^^ byteOf x 5 ^^^ byteOf x 8 ^^^ byteOf x 10 ^^^ byteOf x 15 := by
  simp only [A, byteOf_concat_15]

theorem A_def (x : BitVec 128) : A x = concat [
    byteOf x 3 ^^^ byteOf x 4 ^^^ byteOf x 6 ^^^ byteOf x 8 ^^^ byteOf x 9 ^^^ byteOf x 13 ^^^ byteOf x 14,
    byteOf x 2 ^^^ byteOf x 5 ^^^ byteOf x 7 ^^^ byteOf x 8 ^^^ byteOf x 9 ^^^ byteOf x 12 ^^^ byteOf x 15,
    byteOf x 1 ^^^ byteOf x 4 ^^^ byteOf x 6 ^^^ byteOf x 10 ^^^ byteOf x 11 ^^^ byteOf x 12 ^^^ byteOf x 15,
    byteOf x 0 ^^^ byteOf x 5 ^^^ byteOf x 7 ^^^ byteOf x 10 ^^^ byteOf x 11 ^^^ byteOf x 13 ^^^ byteOf x 14,
    byteOf x 0 ^^^ byteOf x 2 ^^^ byteOf x 5 ^^^ byteOf x 8 ^^^ byteOf x 11 ^^^ byteOf x 14 ^^^ byteOf x 15,
    byteOf x 1 ^^^ byteOf x 3 ^^^ byteOf x 4 ^^^ byteOf x 9 ^^^ byteOf x 10 ^^^ byteOf x 14 ^^^ byteOf x 15,
    byteOf x 0 ^^^ byteOf x 2 ^^^ byteOf x 7 ^^^ byteOf x 9 ^^^ byteOf x 10 ^^^ byteOf x 12 ^^^ byteOf x 13,
    byteOf x 1 ^^^ byteOf x 3 ^^^ byteOf x 6 ^^^ byteOf x 8 ^^^ byteOf x 11 ^^^ byteOf x 12 ^^^ byteOf x 13,
    byteOf x 0 ^^^ byteOf x 1 ^^^ byteOf x 4 ^^^ byteOf x 7 ^^^ byteOf x 10 ^^^ byteOf x 13 ^^^ byteOf x 15,
    byteOf x 0 ^^^ byteOf x 1 ^^^ byteOf x 5 ^^^ byteOf x 6 ^^^ byteOf x 11 ^^^ byteOf x 12 ^^^ byteOf x 14,
    byteOf x 2 ^^^ byteOf x 3 ^^^ byteOf x 5 ^^^ byteOf x 6 ^^^ byteOf x 8 ^^^ byteOf x 13 ^^^ byteOf x 15,
    byteOf x 2 ^^^ byteOf x 3 ^^^ byteOf x 4 ^^^ byteOf x 7 ^^^ byteOf x 9 ^^^ byteOf x 12 ^^^ byteOf x 14,
    byteOf x 1 ^^^ byteOf x 2 ^^^ byteOf x 6 ^^^ byteOf x 7 ^^^ byteOf x 9 ^^^ byteOf x 11 ^^^ byteOf x 12,
    byteOf x 0 ^^^ byteOf x 3 ^^^ byteOf x 6 ^^^ byteOf x 7 ^^^ byteOf x 8 ^^^ byteOf x 10 ^^^ byteOf x 13,
    byteOf x 0 ^^^ byteOf x 3 ^^^ byteOf x 4 ^^^ byteOf x 5 ^^^ byteOf x 9 ^^^ byteOf x 11 ^^^ byteOf x 14,
    byteOf x 1 ^^^ byteOf x 2 ^^^ byteOf x 4 ^^^ byteOf x 5 ^^^ byteOf x 8 ^^^ byteOf x 10 ^^^ byteOf x 15] := rfl

theorem xor_cancel_left (a b : BitVec 8) : a ^^^ (a ^^^ b) = b := by
  rw [← BitVec.xor_assoc, BitVec.xor_self, BitVec.zero_xor]

/-- bytes of `x ^^^ y` -/
theorem byteOf_xor (x y : BitVec 128) (i : Nat) : byteOf (x ^^^ y) i = byteOf x i ^^^ byteOf y i := by
  simp only [byteOf]
  rw [BitVec.ushiftRight_xor_distrib]
  ext j hj; simp

/-- A is an involution (the matrix squares to the identity) -/
theorem A_A (x : BitVec 128) : A (A x) = x := by
  rw [A_def (A x)]
  simp only [byteOf_A_0, byteOf_A_1, byteOf_A_2, byteOf_A_3, byteOf_A_4, byteOf_A_5, byteOf_A_6, byteOf_A_7,
    byteOf_A_8, byteOf_A_9, byteOf_A_10, byteOf_A_11, byteOf_A_12, byteOf_A_13, byteOf_A_14, byteOf_A_15]
  ac_nf
  simp only [xor_cancel_left, BitVec.xor_self, BitVec.xor_zero]
  exact concat_byteOf x

/-- A is linear -/
theorem A_xor (x y : BitVec 128) : A (x ^^^ y) = A x ^^^ A y := by
  simp only [A, concat, byteOf, List.foldl_cons, List.foldl_nil, Nat.reduceSub, Nat.reduceMul]
  bv_decide (config := { timeout := 600 })

theorem a_a (x : BitVec 128) : a (a x) = x := by rw [a_eq_A, a_eq_A, A_A]
theorem a_xor (x y : BitVec 128) : a (x ^^^ y) = a x ^^^ a y := by rw [a_eq_A, a_eq_A, a_eq_A, A_xor]

end BC.Aria
