import BlockCiphers.Gen.Fn_Weak
import BlockCiphers.Impl.AesNi
import BlockCiphers.Impl.Des
import Std.Tactic.BVDecide
/-
Tie theorems "regenerated code = hand-written model" for the weak-key screening functions (property C13):
`aes::weak_key_test::<N>` (N = 16, 24, 32), `des::same_des_key`, `des::weak_key_test`, `Des::weak_key_test`,
`Tdes{Ede3,Ede2,Eee3,Eee2}::weak_key_test`.  The regenerated functions return `Bool` for `Result<(), WeakKeyError>`
(`true` = `Err(WeakKeyError)`), as the models `BC.Des.weak*` do; the AES models return `WeakRes`.
All theorems are for ALL keys.
-/
set_option maxRecDepth 100000
namespace BC.GenFn.Weak
open BC BC.Gen.Fn

/-- `WeakRes` of the `Bool` the regenerated code returns (`true` = `Err(WeakKeyError)`) -/
def res (b : Bool) : WeakRes := if b then .weak else .ok

theorem aes_weak_key_test_16_eq (key : BitVec 128) :
    res (aes_weak_key_test_16 key) = BC.AesNi.weak_key_test128 key := by
  have h : ((key.extractLsb' 64 8) ++ (key.extractLsb' 72 8) ++ (key.extractLsb' 80 8) ++ (key.extractLsb' 88 8) ++
      (key.extractLsb' 96 8) ++ (key.extractLsb' 104 8) ++ (key.extractLsb' 112 8) ++ (key.extractLsb' 120 8))
      = bswap64 (key.extractLsb' 64 64) := by
    simp only [bswap64]; bv_decide
  simp only [res, aes_weak_key_test_16, BC.AesNi.weak_key_test128, h, beq_iff_eq]

theorem aes_weak_key_test_24_eq (key : BitVec 192) :
    res (aes_weak_key_test_24 key) = BC.AesNi.weak_key_test192 key := by
  have h1 : ((key.extractLsb' 128 8) ++ (key.extractLsb' 136 8) ++ (key.extractLsb' 144 8) ++ (key.extractLsb' 152 8) ++
      (key.extractLsb' 160 8) ++ (key.extractLsb' 168 8) ++ (key.extractLsb' 176 8) ++ (key.extractLsb' 184 8))
      = bswap64 (key.extractLsb' 128 64) := by
    simp only [bswap64]; bv_decide
  have h2 : ((key.extractLsb' 96 8) ++ (key.extractLsb' 104 8) ++ (key.extractLsb' 112 8) ++ (key.extractLsb' 120 8))
      = bswap32 (key.extractLsb' 96 32) := by
    simp only [bswap32]; bv_decide
  simp only [res, aes_weak_key_test_24, BC.AesNi.weak_key_test192, h1, h2, beq_iff_eq]

theorem aes_weak_key_test_32_eq (key : BitVec 256) :
    res (aes_weak_key_test_32 key) = BC.AesNi.weak_key_test256 key := by
  have h1 : ((key.extractLsb' 192 8) ++ (key.extractLsb' 200 8) ++ (key.extractLsb' 208 8) ++ (key.extractLsb' 216 8) ++
      (key.extractLsb' 224 8) ++ (key.extractLsb' 232 8) ++ (key.extractLsb' 240 8) ++ (key.extractLsb' 248 8))
      = bswap64 (key.extractLsb' 192 64) := by
    simp only [bswap64]; bv_decide
  have h2 : ((key.extractLsb' 128 8) ++ (key.extractLsb' 136 8) ++ (key.extractLsb' 144 8) ++ (key.extractLsb' 152 8) ++
      (key.extractLsb' 160 8) ++ (key.extractLsb' 168 8) ++ (key.extractLsb' 176 8) ++ (key.extractLsb' 184 8))
      = bswap64 (key.extractLsb' 128 64) := by
    simp only [bswap64]; bv_decide
  simp only [res, aes_weak_key_test_32, BC.AesNi.weak_key_test256, h1, h2, beq_iff_eq]

/-! ### DES -/
open BC.Des

theorem same_des_key_eq (k1 k2 : BitVec 64) : des_same_des_key k1 k2 = sameDesKey k1 k2 := rfl

/-- `des::weak_key_test(key: u64) -> u8` on a little-endian target (the constant table `WEAK_KEYS` is folded by the
translator with `from_ne_bytes` = `from_le_bytes`) -/
theorem weak_key_test_eq (key : BitVec 64) : des_weak_key_test key = weakKeyTestU64 true key := by
  simp only [des_weak_key_test, weakKeyTestU64, WEAK_KEYS, WEAK_KEYS_BYTES, List.map, List.foldl, fromNe, sameDesKey,
    u8OfBool, bswap64, if_true]
  bv_decide (config := { timeout := 600 })

/-- `Des::weak_key_test` (`key` = the 8 key bytes, byte 0 most significant) -/
theorem des_weak_key_test_eq (key : BitVec 64) : des_des_weak_key_test key = weak key := by
  simp only [des_des_weak_key_test, weak, weakNe, weakKeyTestU64, WEAK_KEYS, WEAK_KEYS_BYTES, List.map, List.foldl, fromNe,
    sameDesKey, u8OfBool, bswap64, if_true]
  bv_decide (config := { timeout := 600 })

theorem tdesede3_weak_key_test_eq (key : BitVec 192) : des_tdesede3_weak_key_test key = weak3 key := by
  simp only [des_tdesede3_weak_key_test, weak3, weak3Ne, k1of3, k2of3, k3of3, weakKeyTestU64, WEAK_KEYS, WEAK_KEYS_BYTES,
    List.map, List.foldl, fromNe, sameDesKey, u8OfBool, bswap64, if_true]
  bv_decide (config := { timeout := 600 })

theorem tdeseee3_weak_key_test_eq (key : BitVec 192) : des_tdeseee3_weak_key_test key = weak3 key := by
  simp only [des_tdeseee3_weak_key_test, weak3, weak3Ne, k1of3, k2of3, k3of3, weakKeyTestU64, WEAK_KEYS, WEAK_KEYS_BYTES,
    List.map, List.foldl, fromNe, sameDesKey, u8OfBool, bswap64, if_true]
  bv_decide (config := { timeout := 600 })

theorem tdesede2_weak_key_test_eq (key : BitVec 128) : des_tdesede2_weak_key_test key = weak2 key := by
  simp only [des_tdesede2_weak_key_test, weak2, weak2Ne, k1of2, k2of2, weakKeyTestU64, WEAK_KEYS, WEAK_KEYS_BYTES,
    List.map, List.foldl, fromNe, sameDesKey, u8OfBool, bswap64, if_true]
  bv_decide (config := { timeout := 600 })

theorem tdeseee2_weak_key_test_eq (key : BitVec 128) : des_tdeseee2_weak_key_test key = weak2 key := by
  simp only [des_tdeseee2_weak_key_test, weak2, weak2Ne, k1of2, k2of2, weakKeyTestU64, WEAK_KEYS, WEAK_KEYS_BYTES,
    List.map, List.foldl, fromNe, sameDesKey, u8OfBool, bswap64, if_true]
  bv_decide (config := { timeout := 600 })

end BC.GenFn.Weak
