import BlockCiphers.Proofs.AesFs32SubBytesInv
import BlockCiphers.Proofs.AesFs32Finite
/-! C01 (fixslice32): `sub_bytes ∘ inv_sub_bytes = id`, from `inv_sub_bytes ∘ sub_bytes = id` and finiteness. -/
namespace BC.AesFs32

theorem sub_bytes_inv_sub_bytes (s : St) : sub_bytes (inv_sub_bytes s) = s :=
  St.right_inv_of_left_inv inv_sub_bytes_sub_bytes s

end BC.AesFs32
