import BlockCiphers.Proofs.KuznyechikSse2
/-
Kuznyechik, neon backend (model of /repo/kuznyechik/src/neon/backends.rs; intrinsic semantics ASSUMED as transcribed
in Impl/Kuznyechik.lean — the code cannot be run on this host): `transform` is the SSE2 `transform` intrinsic by
intrinsic, and `sub_bytes` (four 64-byte TBL look-ups on `block`, `block − 64`, `block − 128`, `block − 192`, OR-ed
together) is the byte-wise S-box look-up, for EVERY S-box table.
-/
namespace BC.Kuznyechik
namespace Neon

/-- C03: `vzip1q_u8`/`vzip2q_u8`/`vshlq_n_u16`/`vgetq_lane_u16`/`veorq_u8` against `_mm_unpacklo_epi8`/… : same
function of the register values -/
theorem transform_eq_sse2 (v : BitVec 128) (t : Vector (BitVec 128) 4096) : transform v t = Sse2.transform v t := rfl

/-- one lane of `vqtbl4q_u8` -/
def tblLane (t : U8x16x4) (idx : BitVec 8) : BitVec 8 :=
  let i := idx.toNat
  if i < 16 then leByte t.r0 i else if i < 32 then leByte t.r1 (i - 16)
  else if i < 48 then leByte t.r2 (i - 32) else if i < 64 then leByte t.r3 (i - 48) else 0#8

theorem vqtbl4q_u8_eq (t : U8x16x4) (idx : BitVec 128) :
    vqtbl4q_u8 t idx = ofLeBytes (fun n => tblLane t (leByte idx n)) := rfl

theorem leByte_ld_sbox (sbox : Vector (BitVec 8) 256) (off j : Nat) (hj : j < 16) :
    leByte (ld_sbox sbox off) j = lut sbox (BitVec.ofNat 8 (off + j)) := by
  rw [ld_sbox, leByte_ofLeBytes _ j hj]

/-- a 64-byte TBL over `sbox[off .. off+64]` -/
theorem tblLane_part (sbox : Vector (BitVec 8) 256) (off : Nat) (i : BitVec 8) :
    tblLane (sbox_part sbox off) i =
      if i.toNat < 64 then lut sbox (BitVec.ofNat 8 (off + i.toNat)) else 0#8 := by
  simp only [tblLane, sbox_part]
  by_cases h1 : i.toNat < 16
  · rw [if_pos h1, if_pos (by omega), leByte_ld_sbox _ _ _ h1]
  · by_cases h2 : i.toNat < 32
    · rw [if_neg h1, if_pos h2, if_pos (by omega), leByte_ld_sbox _ _ _ (by omega)]
      congr 2; omega
    · by_cases h3 : i.toNat < 48
      · rw [if_neg h1, if_neg h2, if_pos h3, if_pos (by omega), leByte_ld_sbox _ _ _ (by omega)]
        congr 2; omega
      · by_cases h4 : i.toNat < 64
        · rw [if_neg h1, if_neg h2, if_neg h3, if_pos h4, if_pos h4, leByte_ld_sbox _ _ _ (by omega)]
          congr 2; omega
        · rw [if_neg h1, if_neg h2, if_neg h3, if_neg h4, if_neg h4]

/-- exactly one of the four look-ups hits, and it hits index `b` — all 256 byte values -/
theorem quarter_fin : ∀ i : Fin 256,
    let b : BitVec 8 := BitVec.ofFin i
    (b.toNat < 64 ∧ ¬ (b - 64#8).toNat < 64 ∧ ¬ (b - 64#8 - 64#8).toNat < 64 ∧ ¬ (b - 64#8 - 64#8 - 64#8).toNat < 64 ∧
      BitVec.ofNat 8 (0 + b.toNat) = b) ∨
    (¬ b.toNat < 64 ∧ (b - 64#8).toNat < 64 ∧ ¬ (b - 64#8 - 64#8).toNat < 64 ∧ ¬ (b - 64#8 - 64#8 - 64#8).toNat < 64 ∧
      BitVec.ofNat 8 (64 + (b - 64#8).toNat) = b) ∨
    (¬ b.toNat < 64 ∧ ¬ (b - 64#8).toNat < 64 ∧ (b - 64#8 - 64#8).toNat < 64 ∧ ¬ (b - 64#8 - 64#8 - 64#8).toNat < 64 ∧
      BitVec.ofNat 8 (128 + (b - 64#8 - 64#8).toNat) = b) ∨
    (¬ b.toNat < 64 ∧ ¬ (b - 64#8).toNat < 64 ∧ ¬ (b - 64#8 - 64#8).toNat < 64 ∧ (b - 64#8 - 64#8 - 64#8).toNat < 64 ∧
      BitVec.ofNat 8 (192 + (b - 64#8 - 64#8 - 64#8).toNat) = b) := by decide +kernel

theorem lane_or (sbox : Vector (BitVec 8) 256) (b : BitVec 8) :
    (tblLane (sbox_part sbox 0) b ||| tblLane (sbox_part sbox 64) (b - 64#8)) |||
      (tblLane (sbox_part sbox 128) (b - 64#8 - 64#8) ||| tblLane (sbox_part sbox 192) (b - 64#8 - 64#8 - 64#8)) =
    lut sbox b := by
  simp only [tblLane_part]
  rcases quarter_fin b.toFin with h | h | h | h <;>
  · obtain ⟨h1, h2, h3, h4, h5⟩ := h
    have h1' := h1; have h2' := h2; have h3' := h3; have h4' := h4; have h5' := h5
    simp only [BitVec.ofFin_toFin] at h1' h2' h3' h4' h5'
    simp only [h1', h2', h3', h4', h5', if_true, if_false, BitVec.or_zero, BitVec.zero_or]

theorem leByte_or (a b : BitVec 128) (n : Nat) : leByte (a ||| b) n = leByte a n ||| leByte b n := by
  simp only [leByte]; exact BitVec.extractLsb'_or

theorem leByte_vsubq (a : BitVec 128) (c : BitVec 8) (n : Nat) (hn : n < 16) :
    leByte (vsubq_u8 a (vdupq_n_u8 c)) n = leByte a n - c := by
  rw [vsubq_u8, leByte_ofLeBytes _ n hn, vdupq_n_u8, leByte_ofLeBytes _ n hn]

theorem ofLeBytes_leByte (x : BitVec 128) : ofLeBytes (fun n => leByte x n) = x := by
  simp only [ofLeBytes, leByte, List.range, List.range.loop, List.foldl]
  bv_decide (config := { timeout := 120 })

/-- C03: the NEON `sub_bytes` = the portable one, for every S-box table -/
theorem sub_bytes_eq_soft (v : BitVec 128) (sbox : Vector (BitVec 8) 256) : sub_bytes v sbox = Soft.sub_bytes v sbox := by
  have h := ofLeBytes_leByte (sub_bytes v sbox)
  rw [← h, Soft.sub_bytes]
  apply ofLeBytes_congr; intro n hn
  simp only [sub_bytes, vorrq_u8, leByte_or, vqtbl4q_u8_eq, leByte_ofLeBytes _ n hn, leByte_vsubq _ _ n hn]
  exact lane_or sbox (leByte v n)

end Neon
end BC.Kuznyechik
