import BlockCiphers.Spec.Kuznyechik
/-
GOST R 34.12-2015 Annex A.1.4, kernel-evaluated: (K7, K8) = F[C24] … F[C17] (K5, K6).
(One module per pair so that the four evaluations run in parallel.)
-/
namespace BC.Kuznyechik.Kat
open BC.Spec.Kuznyechik

theorem nextPair_kat_3 : nextPair 3 (0x57646468c44a5e28d3e59246f429f1ac#128, 0xbd079435165c6432b532e82834da581b#128) =
    (0x51e640757e8745de705727265a0098b1#128, 0x5a7925017b9fdd3ed72a91a22286f984#128) := by decide +kernel

end BC.Kuznyechik.Kat
