import Std.Tactic.BVDecide
import BlockCiphers.Proofs.Basic
import BlockCiphers.Proofs.AesKeyExpansion
import BlockCiphers.Proofs.AesNiKeysCommon
import BlockCiphers.Proofs.AesArmv8Round
/-
ARMv8 key expansion (`expand_key::<L, N>` of /repo/aes/src/armv8/expand.rs) = FIPS-197 KeyExpansion, for the three
instantiations (L, N) = (16, 11), (24, 13), (32, 15) and every key.

The Rust loop *is* the FIPS-197 §5.2 loop on little-endian words: one generic induction (`expand_loop`) relates
`columns[i]` (LE) to `w[i]` (BE) by `bswap32`, using

  `sub_word x = bswap32 (SubWord (bswap32 x))`   (AESE with a zero key on the word replicated in the four columns:
                                                   ShiftRows permutes equal columns, SubBytes is bytewise)
  `bswap32 (x.rotate_right(8)) = RotWord (bswap32 x)`,   `bswap32 ROUND_CONSTS[k-1] = Rcon[k]`,

the FIPS recurrence `Spec.Aes.keyExpansion_rec` and `SubWord ∘ RotWord = RotWord ∘ SubWord`.
The S-box stays opaque throughout.
-/
namespace BC.AesArmv8
open BC BC.X86 BC.Arm BC.Spec.Aes BC.AesNi

/-! ### `sub_word` -/

/-- byte `j` (0 = least significant, i.e. first in memory) of a little-endian word -/
def lb (x : BitVec 32) (j : Nat) : BitVec 8 := (x >>> (8 * j)).setWidth 8

theorem dword0_rev128 (t : BitVec 128) :
    dword (rev128 t) 0 = getB t 3 ++ getB t 2 ++ getB t 1 ++ getB t 0 := by
  simp only [dword, rev128, bswap64, getB]; bv_decide (config := { timeout := 600 })

/-- the diagonal of the state whose four columns all hold the word `x` -/
theorem getB_dup (x : BitVec 32) :
    getB (rev128 (ofDwords x x x x)) 0 = lb x 0 ∧ getB (rev128 (ofDwords x x x x)) 5 = lb x 1 ∧
    getB (rev128 (ofDwords x x x x)) 10 = lb x 2 ∧ getB (rev128 (ofDwords x x x x)) 15 = lb x 3 := by
  simp only [getB, rev128, bswap64, ofDwords, lb]
  refine ⟨?_, ?_, ?_, ?_⟩ <;> bv_decide (config := { timeout := 600 })

/-- `sub_word` (AESE, zero key, lane 0) is SubWord on the little-endian word -/
theorem sub_word_eq (x : BitVec 32) : sub_word x = bswap32 (subWord (bswap32 x)) := by
  obtain ⟨g0, g1, g2, g3⟩ := getB_dup x
  simp only [sub_word, vreinterpretq_u8_u32, vreinterpretq_u32_u8, vgetq_lane_u32, vaeseq_u8, vdupq_n_u32,
    vdupq_n_u8_zero, BitVec.xor_zero, ofState, toState, dword0_rev128]
  rw [getB_subBytes _ 3 (by omega), getB_subBytes _ 2 (by omega), getB_subBytes _ 1 (by omega),
    getB_subBytes _ 0 (by omega), getB_shiftRows _ 3 (by omega), getB_shiftRows _ 2 (by omega),
    getB_shiftRows _ 1 (by omega), getB_shiftRows _ 0 (by omega)]
  simp only [Nat.reduceMod, Nat.reduceDiv, Nat.reduceAdd, Nat.reduceMul]
  rw [g0, g1, g2, g3]
  simp only [subWord]
  have h3 : (bswap32 x).extractLsb' 24 8 = lb x 0 := by simp only [bswap32, lb]; bv_decide (config := { timeout := 600 })
  have h2 : (bswap32 x).extractLsb' 16 8 = lb x 1 := by simp only [bswap32, lb]; bv_decide (config := { timeout := 600 })
  have h1 : (bswap32 x).extractLsb' 8 8 = lb x 2 := by simp only [bswap32, lb]; bv_decide (config := { timeout := 600 })
  have h0 : (bswap32 x).extractLsb' 0 8 = lb x 3 := by simp only [bswap32, lb]; bv_decide (config := { timeout := 600 })
  rw [h3, h2, h1, h0]
  generalize sboxT (lb x 0) = a
  generalize sboxT (lb x 1) = b
  generalize sboxT (lb x 2) = c
  generalize sboxT (lb x 3) = d
  simp only [bswap32]; bv_decide (config := { timeout := 600 })

/-! ### `rotate_right(8)`, `ROUND_CONSTS` -/

theorem bswap32_rotr8 (x : BitVec 32) : bswap32 (x.rotateRight 8) = rotWord (bswap32 x) := by
  simp only [bswap32, rotWord]; bv_decide (config := { timeout := 600 })

theorem bswap32_xor (x y : BitVec 32) : bswap32 (x ^^^ y) = bswap32 x ^^^ bswap32 y := by
  simp only [bswap32]; bv_decide (config := { timeout := 600 })

/-- `ROUND_CONSTS[k - 1]`, a little-endian `u32`, is the FIPS-197 word `Rcon[k]` -/
theorem round_consts_rcon (k : Nat) (h1 : 1 ≤ k) (h2 : k ≤ 10) :
    bswap32 (ROUND_CONSTS.getD (k - 1) 0#32) = rcon k := by
  have hc : k = 1 ∨ k = 2 ∨ k = 3 ∨ k = 4 ∨ k = 5 ∨ k = 6 ∨ k = 7 ∨ k = 8 ∨ k = 9 ∨ k = 10 := by omega
  rcases hc with h|h|h|h|h|h|h|h|h|h <;> subst h <;> decide

/-- C20: the index `i / nk - 1` into `ROUND_CONSTS` is in range at every iteration that uses it -/
theorem rcon_index_ok (nk nr i : Nat) (hnk : nk = 4 ∨ nk = 6 ∨ nk = 8) (hnr : nr = nk + 6)
    (h1 : nk ≤ i) (h2 : i < 4 * (nr + 1)) : 1 ≤ i / nk ∧ i / nk ≤ 10 := by
  rcases hnk with h|h|h <;> subst h <;> subst hnr <;> omega

/-- the word transformation of the Rust loop body is `temp` of FIPS-197 §5.2 on the byte-swapped word -/
theorem word_step (nk i : Nat) (word : BitVec 32) (hi : i % nk = 0 → 1 ≤ i / nk ∧ i / nk ≤ 10) :
    bswap32 (if i % nk = 0 then (sub_word word).rotateRight 8 ^^^ ROUND_CONSTS.getD (i / nk - 1) 0#32
      else if nk > 6 ∧ i % nk = 4 then sub_word word else word) = tempf nk i (bswap32 word) := by
  unfold tempf
  by_cases h0 : i % nk = 0
  · rw [if_pos h0, if_pos h0, bswap32_xor, bswap32_rotr8, sub_word_eq, bswap32_bswap32,
      round_consts_rcon _ (hi h0).1 (hi h0).2, subWord_rotWord]
  · rw [if_neg h0, if_neg h0]
    by_cases h4 : nk > 6 ∧ i % nk = 4
    · rw [if_pos h4, if_pos h4, sub_word_eq, bswap32_bswap32]
    · rw [if_neg h4, if_neg h4]

/-! ### the loops -/

theorem store_columns_length (ws : List (BitVec 32)) (i : Nat) (cols : List (BitVec 32)) :
    (store_columns ws i cols).length = cols.length := by
  induction ws generalizing i cols with
  | nil => rfl
  | cons w ws ih => rw [store_columns, ih, List.length_set]

theorem store_columns_getD (ws : List (BitVec 32)) :
    ∀ (i : Nat) (cols : List (BitVec 32)) (j : Nat), i + ws.length ≤ cols.length →
      (store_columns ws i cols).getD j 0#32 =
        if i ≤ j ∧ j < i + ws.length then ws.getD (j - i) 0#32 else cols.getD j 0#32 := by
  induction ws with
  | nil => intro i cols j _; rw [if_neg (by simp only [List.length_nil]; omega)]; rfl
  | cons w ws ih =>
    intro i cols j h
    simp only [List.length_cons] at h
    rw [store_columns, ih (i + 1) (cols.set i w) j (by rw [List.length_set]; omega)]
    by_cases hj : j = i
    · subst hj
      rw [if_neg (by omega), if_pos (by simp only [List.length_cons]; omega), getD_set_eq _ _ _ _ (by omega),
        Nat.sub_self, List.getD_cons_zero]
    · rw [getD_set_ne _ _ _ _ _ (fun e => hj e.symm)]
      by_cases h2 : i + 1 ≤ j ∧ j < i + 1 + ws.length
      · rw [if_pos h2, if_pos (by simp only [List.length_cons]; omega)]
        have e : j - i = (j - (i + 1)) + 1 := by omega
        rw [e, List.getD_cons_succ]
      · rw [if_neg h2, if_neg (by simp only [List.length_cons]; omega)]

theorem expand_word_length (nk : Nat) (cols : List (BitVec 32)) (i : Nat) :
    (expand_word nk cols i).length = cols.length := by
  simp only [expand_word, List.length_set]

/-- **the generic word loop is FIPS-197 KeyExpansion**: if the first `nk` columns hold the key words
(little-endian), then after `m` iterations columns `0 .. nk+m-1` hold `w[0 .. nk+m-1]` -/
theorem expand_loop (nk nr : Nat) (kw : List (BitVec 32)) (hk : kw.length = nk) (hnk : nk = 4 ∨ nk = 6 ∨ nk = 8)
    (hnr : nr = nk + 6) (cols : List (BitVec 32)) (hlen : cols.length = 4 * (nr + 1))
    (hinit : ∀ i, i < nk → bswap32 (cols.getD i 0#32) = kw.getD i 0#32) (m : Nat) (hm : nk + m ≤ 4 * (nr + 1)) :
    ((List.range' nk m).foldl (expand_word nk) cols).length = 4 * (nr + 1) ∧
    ∀ i, i < nk + m →
      bswap32 (((List.range' nk m).foldl (expand_word nk) cols).getD i 0#32) = (keyExpansion nk nr kw).getD i 0 := by
  induction m with
  | zero =>
    refine ⟨hlen, ?_⟩
    intro i hi
    simp only [List.range'_zero, List.foldl_nil]
    rw [hinit i (by omega), keyExpansion_init nk nr kw i (by omega)]
    rfl
  | succ m ih =>
    obtain ⟨ihl, ihv⟩ := ih (by omega)
    rw [List.range'_concat, List.foldl_append, List.foldl_cons, List.foldl_nil, Nat.one_mul]
    generalize (List.range' nk m).foldl (expand_word nk) cols = out at ihl ihv
    refine ⟨by rw [expand_word_length, ihl], ?_⟩
    intro i hi
    have hpos : 0 < nk := by omega
    by_cases hnew : i = nk + m
    · subst hnew
      unfold expand_word
      rw [getD_set_eq _ _ _ _ (by omega), bswap32_xor,
        word_step nk (nk + m) _ (fun _ => rcon_index_ok nk nr (nk + m) hnk hnr (by omega) (by omega)),
        ihv (nk + m - nk) (by omega), ihv (nk + m - 1) (by omega),
        keyExpansion_rec nk nr kw hk hpos (nk + m) (by omega) (by omega)]
    · unfold expand_word
      rw [getD_set_ne _ _ _ _ _ (fun e => hnew e.symm), ihv i (by omega)]

/-! ### from columns to round keys -/

theorem dword_ofDwords (d3 d2 d1 d0 : BitVec 32) :
    dword (ofDwords d3 d2 d1 d0) 0 = d0 ∧ dword (ofDwords d3 d2 d1 d0) 1 = d1 ∧
    dword (ofDwords d3 d2 d1 d0) 2 = d2 ∧ dword (ofDwords d3 d2 d1 d0) 3 = d3 := by
  simp only [dword, ofDwords]
  refine ⟨?_, ?_, ?_, ?_⟩ <;> bv_decide (config := { timeout := 600 })

theorem getD_map_range (n r : Nat) (f : Nat → BitVec 128) (h : r < n) :
    ((List.range n).map f).getD r 0#128 = f r := by
  simp [List.getD_eq_getElem?_getD, h]

/-- the columns determine the round keys: `KeysMatch` (of `Proofs/AesNiRound`) for `expand_key` -/
theorem expand_key_match (key : Bytes) (nk nr : Nat) (kw : List (BitVec 32)) (hL : key.length / 4 = nk)
    (hk : kw.length = nk) (hnk : nk = 4 ∨ nk = 6 ∨ nk = 8) (hnr : nr = nk + 6)
    (hkc : (key_columns key).length = nk)
    (hinit : ∀ i, i < nk → bswap32 ((key_columns key).getD i 0#32) = kw.getD i 0#32) :
    KeysMatch (expand_key key (nr + 1)) nr (keyExpansion nk nr kw) := by
  have h4 : (nr + 1) * 4 = 4 * (nr + 1) := by omega
  have hcols := expand_loop nk nr kw hk hnk hnr
    (store_columns (key_columns key) 0 (List.replicate ((nr + 1) * 4) 0#32))
    (by rw [store_columns_length, List.length_replicate, h4])
    (by
      intro i hi
      rw [store_columns_getD _ _ _ _ (by rw [List.length_replicate, hkc]; omega), if_pos (by omega), Nat.sub_zero]
      exact hinit i hi)
    ((nr + 1) * 4 - nk) (by omega)
  obtain ⟨_, hv⟩ := hcols
  refine ⟨by simp only [expand_key, List.length_map, List.length_range], ?_⟩
  intro r hr
  simp only [expand_key, expand_columns, hL]
  rw [getD_map_range _ _ _ (by omega)]
  generalize (List.range' nk ((nr + 1) * 4 - nk)).foldl (expand_word nk)
    (store_columns (key_columns key) 0 (List.replicate ((nr + 1) * 4) 0#32)) = out at hv
  obtain ⟨d0, d1, d2, d3⟩ := dword_ofDwords (out.getD (4 * r + 3) 0#32) (out.getD (4 * r + 2) 0#32)
    (out.getD (4 * r + 1) 0#32) (out.getD (4 * r) 0#32)
  have hrk : IsRK (column_reg out r) (keyExpansion nk nr kw) r := by
    refine ⟨?_, ?_, ?_, ?_⟩
    · rw [fw, column_reg, d0]; exact hv _ (by omega)
    · rw [fw, column_reg, d1]; exact hv _ (by omega)
    · rw [fw, column_reg, d2]; exact hv _ (by omega)
    · rw [fw, column_reg, d3]; exact hv _ (by omega)
  exact hrk.roundKey

/-! ### the three key sizes: key bytes → little-endian columns -/

theorem le_word (a b c d : BitVec 8) : bswap32 (d ++ c ++ b ++ a) = a ++ b ++ c ++ d := by
  simp only [bswap32]; bv_decide (config := { timeout := 600 })

theorem length_unpackBE' (n : Nat) {w : Nat} (x : BitVec w) : (unpackBE n x).length = n := by
  simp [unpackBE]

theorem key_columns16 (k : BitVec 128) : (key_columns (unpackBE 16 k)).map bswap32 =
    [k.extractLsb' 96 32, k.extractLsb' 64 32, k.extractLsb' 32 32, k.extractLsb' 0 32] := by
  simp only [unpackBE, range16, List.map_cons, List.map_nil, key_columns, le_word, Nat.reduceSub, Nat.reduceMul,
    List.cons.injEq, and_true]
  refine ⟨?_, ?_, ?_, ?_⟩ <;> bv_decide (config := { timeout := 600 })

theorem key_columns24 (k : BitVec 192) : (key_columns (unpackBE 24 k)).map bswap32 =
    [k.extractLsb' 160 32, k.extractLsb' 128 32, k.extractLsb' 96 32, k.extractLsb' 64 32, k.extractLsb' 32 32,
     k.extractLsb' 0 32] := by
  simp only [unpackBE, range24, List.map_cons, List.map_nil, key_columns, le_word, Nat.reduceSub, Nat.reduceMul,
    List.cons.injEq, and_true]
  refine ⟨?_, ?_, ?_, ?_, ?_, ?_⟩ <;> bv_decide (config := { timeout := 600 })

theorem key_columns32 (k : BitVec 256) : (key_columns (unpackBE 32 k)).map bswap32 =
    [k.extractLsb' 224 32, k.extractLsb' 192 32, k.extractLsb' 160 32, k.extractLsb' 128 32,
     k.extractLsb' 96 32, k.extractLsb' 64 32, k.extractLsb' 32 32, k.extractLsb' 0 32] := by
  simp only [unpackBE, range32, List.map_cons, List.map_nil, key_columns, le_word, Nat.reduceSub, Nat.reduceMul,
    List.cons.injEq, and_true]
  refine ⟨?_, ?_, ?_, ?_, ?_, ?_, ?_, ?_⟩ <;> bv_decide (config := { timeout := 600 })

/-- from the mapped list to the pointwise form `expand_key_match` wants -/
theorem init_of_map (cs kw : List (BitVec 32)) (h : cs.map bswap32 = kw) :
    cs.length = kw.length ∧ ∀ i, i < kw.length → bswap32 (cs.getD i 0#32) = kw.getD i 0#32 := by
  subst h
  refine ⟨by rw [List.length_map], ?_⟩
  intro i hi
  rw [List.length_map] at hi
  simp [List.getD_eq_getElem?_getD, hi]

/-- **key schedule, AES-128**: the ARMv8 round keys are the FIPS-197 round keys -/
theorem aes128_keys_match (key : BitVec 128) :
    KeysMatch (expand_key (unpackBE 16 key) 11) 10 (keyExpansion 4 10 (keyWords (unpackBE 16 key))) := by
  rw [keyWords16]
  obtain ⟨hl, hv⟩ := init_of_map _ _ (key_columns16 key)
  exact expand_key_match (unpackBE 16 key) 4 10 _ (by rw [length_unpackBE']) rfl (by omega) rfl hl hv

/-- **key schedule, AES-192** -/
theorem aes192_keys_match (key : BitVec 192) :
    KeysMatch (expand_key (unpackBE 24 key) 13) 12 (keyExpansion 6 12 (keyWords (unpackBE 24 key))) := by
  rw [keyWords24]
  obtain ⟨hl, hv⟩ := init_of_map _ _ (key_columns24 key)
  exact expand_key_match (unpackBE 24 key) 6 12 _ (by rw [length_unpackBE']) rfl (by omega) rfl hl hv

/-- **key schedule, AES-256** -/
theorem aes256_keys_match (key : BitVec 256) :
    KeysMatch (expand_key (unpackBE 32 key) 15) 14 (keyExpansion 8 14 (keyWords (unpackBE 32 key))) := by
  rw [keyWords32]
  obtain ⟨hl, hv⟩ := init_of_map _ _ (key_columns32 key)
  exact expand_key_match (unpackBE 32 key) 8 14 _ (by rw [length_unpackBE']) rfl (by omega) rfl hl hv

end BC.AesArmv8
