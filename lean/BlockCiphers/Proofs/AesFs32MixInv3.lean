import BlockCiphers.Impl.AesFixslice32
import BlockCiphers.Proofs.AesFs32Finite
import Std.Tactic.BVDecide
/-! C01 (fixslice32): `inv_mix_columns_3` and `mix_columns_3` are mutually inverse (all 8×32 bits).
`inv ∘ mix = id` is a SAT-checked miter; `mix ∘ inv = id` follows because `St` is finite. -/
namespace BC.AesFs32

set_option maxRecDepth 1000000 in
theorem inv_mix_columns_3_mix_columns_3 (s : St) : inv_mix_columns_3 (mix_columns_3 s) = s := by
  cases s
  simp only [inv_mix_columns_3, mix_columns_3, inv_mix_columns_gen, mix_columns_gen, rotate_rows_and_columns_1_3, rotate_rows_and_columns_2_2,
    ror, ror_distance, St.mk.injEq]
  bv_decide (config := { timeout := 1800 })

theorem mix_columns_3_inv_mix_columns_3 (s : St) : mix_columns_3 (inv_mix_columns_3 s) = s :=
  St.right_inv_of_left_inv inv_mix_columns_3_mix_columns_3 s

end BC.AesFs32
