import BlockCiphers.Gen.Cipher_Rc2
import BlockCiphers.Gen.Keys_Rc2
import BlockCiphers.Proofs.GenCipherRc2
import BlockCiphers.Proofs.GenKeysRc2
import BlockCiphers.Proofs.GenCipherSpeck
import BlockCiphers.Proofs.Rc2
import BlockCiphers.Proofs.Rc2Spec
/-!
Code-level theorems for RC2: statements mention ONLY the regenerated code (`BC.Gen.Fn.rc2_new_from_slice_<n>`,
`rc2_new_with_eff_key_len_<n>_<t1>`, `rc2_encrypt_block`, `rc2_decrypt_block`) and the specification `BC.Spec.Rc2`
(RFC 2268).  One family per regenerated constructor instance: `Rc2::new_from_slice` for keys of 1, 5, 8, 16 bytes
(effective length 8·n bits) — `enc_slice_<n>` … — and `Rc2::new_with_eff_key_len` for (key bytes, effective bits) =
(8, 63), (16, 64), (16, 128), (5, 40) — `enc_eff_<n>_<t1>` ….  Composition of
  (1) `BC.Rc2.decrypt_encrypt_eff`, `encrypt_decrypt_eff` (Proofs/Rc2.lean; Thm C01), `rc2eff_encrypt_conforms`,
      `rc2eff_decrypt_conforms` (Proofs/Rc2Spec.lean; Thm C09),
  (2) `BC.GenCipher.Rc2.encrypt_block_eq` / `decrypt_block_eq`,
  (3) `BC.GenKeys.Rc2.<constructor>_eq`.
Keys and blocks are `BitVec`s, byte 0 of the Rust slice = most significant byte (`unpackBE n` gives the Spec's byte list).
-/
set_option maxRecDepth 100000
namespace BC.Code.Rc2
open BC BC.Gen.Fn BC.Rc2

theorem vlit64 {α : Type} (v : Vector α 64) : #v[v[0], v[1], v[2], v[3], v[4], v[5], v[6], v[7], v[8], v[9], v[10], v[11], v[12], v[13], v[14], v[15], v[16], v[17], v[18], v[19], v[20], v[21], v[22], v[23], v[24], v[25], v[26], v[27], v[28], v[29], v[30], v[31], v[32], v[33], v[34], v[35], v[36], v[37], v[38], v[39], v[40], v[41], v[42], v[43], v[44], v[45], v[46], v[47], v[48], v[49], v[50], v[51], v[52], v[53], v[54], v[55], v[56], v[57], v[58], v[59], v[60], v[61], v[62], v[63]] = v := by
  apply Vector.ext; intro i hi
  match i, hi with
  | 0, _ => rfl | 1, _ => rfl | 2, _ => rfl | 3, _ => rfl | 4, _ => rfl | 5, _ => rfl | 6, _ => rfl | 7, _ => rfl | 8, _ => rfl | 9, _ => rfl | 10, _ => rfl | 11, _ => rfl | 12, _ => rfl | 13, _ => rfl | 14, _ => rfl | 15, _ => rfl | 16, _ => rfl | 17, _ => rfl | 18, _ => rfl | 19, _ => rfl | 20, _ => rfl | 21, _ => rfl | 22, _ => rfl | 23, _ => rfl | 24, _ => rfl | 25, _ => rfl | 26, _ => rfl | 27, _ => rfl | 28, _ => rfl | 29, _ => rfl | 30, _ => rfl | 31, _ => rfl | 32, _ => rfl | 33, _ => rfl | 34, _ => rfl | 35, _ => rfl | 36, _ => rfl | 37, _ => rfl | 38, _ => rfl | 39, _ => rfl | 40, _ => rfl | 41, _ => rfl | 42, _ => rfl | 43, _ => rfl | 44, _ => rfl | 45, _ => rfl | 46, _ => rfl | 47, _ => rfl | 48, _ => rfl | 49, _ => rfl | 50, _ => rfl | 51, _ => rfl | 52, _ => rfl | 53, _ => rfl | 54, _ => rfl | 55, _ => rfl | 56, _ => rfl | 57, _ => rfl | 58, _ => rfl | 59, _ => rfl | 60, _ => rfl | 61, _ => rfl | 62, _ => rfl | 63, _ => rfl
  | n + 64, h => exact absurd h (by omega)

theorem pack_unpack8 (b : BitVec 64) : packBE 8 (unpackBE 8 b) = b := by
  have hl : unpackBE 8 b = [(b >>> 56).setWidth 8, (b >>> 48).setWidth 8, (b >>> 40).setWidth 8, (b >>> 32).setWidth 8, (b >>> 24).setWidth 8, (b >>> 16).setWidth 8, (b >>> 8).setWidth 8, (b >>> 0).setWidth 8] := rfl
  rw [hl]
  show BC.Speck.fromBE 64 _ = _
  simp only [BC.GenCipher.Speck.fromBE_fold, List.foldl_cons, List.foldl_nil]
  bv_decide

theorem len8 (b : BitVec 64) : (unpackBE 8 b).length = 8 := by simp [unpackBE]

/-! ### `rc2_new_from_slice_1` -/

/-- `encrypt_block` after the constructor, on the regenerated code -/
def enc_slice_1 (key : BitVec 8) (b : BitVec 64) : BitVec 64 :=
  match rc2_new_from_slice_1 key with
  | (k0, k1, k2, k3, k4, k5, k6, k7, k8, k9, k10, k11, k12, k13, k14, k15, k16, k17, k18, k19, k20, k21, k22, k23, k24, k25, k26, k27, k28, k29, k30, k31, k32, k33, k34, k35, k36, k37, k38, k39, k40, k41, k42, k43, k44, k45, k46, k47, k48, k49, k50, k51, k52, k53, k54, k55, k56, k57, k58, k59, k60, k61, k62, k63) => rc2_encrypt_block k0 k1 k2 k3 k4 k5 k6 k7 k8 k9 k10 k11 k12 k13 k14 k15 k16 k17 k18 k19 k20 k21 k22 k23 k24 k25 k26 k27 k28 k29 k30 k31 k32 k33 k34 k35 k36 k37 k38 k39 k40 k41 k42 k43 k44 k45 k46 k47 k48 k49 k50 k51 k52 k53 k54 k55 k56 k57 k58 k59 k60 k61 k62 k63 b

/-- `decrypt_block` after the constructor, on the regenerated code -/
def dec_slice_1 (key : BitVec 8) (b : BitVec 64) : BitVec 64 :=
  match rc2_new_from_slice_1 key with
  | (k0, k1, k2, k3, k4, k5, k6, k7, k8, k9, k10, k11, k12, k13, k14, k15, k16, k17, k18, k19, k20, k21, k22, k23, k24, k25, k26, k27, k28, k29, k30, k31, k32, k33, k34, k35, k36, k37, k38, k39, k40, k41, k42, k43, k44, k45, k46, k47, k48, k49, k50, k51, k52, k53, k54, k55, k56, k57, k58, k59, k60, k61, k62, k63) => rc2_decrypt_block k0 k1 k2 k3 k4 k5 k6 k7 k8 k9 k10 k11 k12 k13 k14 k15 k16 k17 k18 k19 k20 k21 k22 k23 k24 k25 k26 k27 k28 k29 k30 k31 k32 k33 k34 k35 k36 k37 k38 k39 k40 k41 k42 k43 k44 k45 k46 k47 k48 k49 k50 k51 k52 k53 k54 k55 k56 k57 k58 k59 k60 k61 k62 k63 b

theorem enc_slice_1_eq_impl (key : BitVec 8) (b : BitVec 64) :
    enc_slice_1 key b = BC.Rc2.encrypt (newWithEffKeyLen (unpackBE 1 key) 8) b := by
  unfold enc_slice_1
  rw [BC.GenKeys.Rc2.rc2_new_from_slice_1_eq key]
  simp only [BC.GenKeys.Rc2.rcTuple]
  rw [BC.GenCipher.Rc2.encrypt_block_eq, vlit64]
  rfl

theorem dec_slice_1_eq_impl (key : BitVec 8) (b : BitVec 64) :
    dec_slice_1 key b = BC.Rc2.decrypt (newWithEffKeyLen (unpackBE 1 key) 8) b := by
  unfold dec_slice_1
  rw [BC.GenKeys.Rc2.rc2_new_from_slice_1_eq key]
  simp only [BC.GenKeys.Rc2.rcTuple]
  rw [BC.GenCipher.Rc2.decrypt_block_eq, vlit64]
  rfl

theorem dec_enc_slice_1 (key : BitVec 8) (b : BitVec 64) : dec_slice_1 key (enc_slice_1 key b) = b := by
  rw [enc_slice_1_eq_impl, dec_slice_1_eq_impl, decrypt_encrypt_eff]

theorem enc_dec_slice_1 (key : BitVec 8) (b : BitVec 64) : enc_slice_1 key (dec_slice_1 key b) = b := by
  rw [enc_slice_1_eq_impl, dec_slice_1_eq_impl, encrypt_decrypt_eff]

/-- the regenerated code computes RFC 2268 (key expansion with T1 = 8 and the encryption rounds) -/
theorem enc_slice_1_eq_spec (key : BitVec 8) (b : BitVec 64) :
    unpackBE 8 (enc_slice_1 key b) = BC.Spec.Rc2.encrypt (unpackBE 1 key) 8 (unpackBE 8 b) := by
  have h := rc2eff_encrypt_conforms (unpackBE 1 key) 8 (unpackBE 8 b) (len8 b)
  unfold liftBlock at h
  rw [pack_unpack8] at h
  rw [enc_slice_1_eq_impl]
  exact h

/-- the regenerated code computes RFC 2268 (key expansion with T1 = 8 and the decryption rounds) -/
theorem dec_slice_1_eq_spec (key : BitVec 8) (b : BitVec 64) :
    unpackBE 8 (dec_slice_1 key b) = BC.Spec.Rc2.decrypt (unpackBE 1 key) 8 (unpackBE 8 b) := by
  have h := rc2eff_decrypt_conforms (unpackBE 1 key) 8 (unpackBE 8 b) (len8 b)
  unfold liftBlock at h
  rw [pack_unpack8] at h
  rw [dec_slice_1_eq_impl]
  exact h

/-- the model's `new_from_slice` on the 1 key bytes is `new_with_eff_key_len(key, 8)` -/
theorem newFromSlice_1 (key : BitVec 8) : newFromSlice (unpackBE 1 key) = some (newWithEffKeyLen (unpackBE 1 key) 8) := by
  have hl : (unpackBE 1 key).length = 1 := by simp [unpackBE]
  rw [newFromSlice_eq _ (by rw [hl]; decide), hl]

/-! ### `rc2_new_from_slice_5` -/

/-- `encrypt_block` after the constructor, on the regenerated code -/
def enc_slice_5 (key : BitVec 40) (b : BitVec 64) : BitVec 64 :=
  match rc2_new_from_slice_5 key with
  | (k0, k1, k2, k3, k4, k5, k6, k7, k8, k9, k10, k11, k12, k13, k14, k15, k16, k17, k18, k19, k20, k21, k22, k23, k24, k25, k26, k27, k28, k29, k30, k31, k32, k33, k34, k35, k36, k37, k38, k39, k40, k41, k42, k43, k44, k45, k46, k47, k48, k49, k50, k51, k52, k53, k54, k55, k56, k57, k58, k59, k60, k61, k62, k63) => rc2_encrypt_block k0 k1 k2 k3 k4 k5 k6 k7 k8 k9 k10 k11 k12 k13 k14 k15 k16 k17 k18 k19 k20 k21 k22 k23 k24 k25 k26 k27 k28 k29 k30 k31 k32 k33 k34 k35 k36 k37 k38 k39 k40 k41 k42 k43 k44 k45 k46 k47 k48 k49 k50 k51 k52 k53 k54 k55 k56 k57 k58 k59 k60 k61 k62 k63 b

/-- `decrypt_block` after the constructor, on the regenerated code -/
def dec_slice_5 (key : BitVec 40) (b : BitVec 64) : BitVec 64 :=
  match rc2_new_from_slice_5 key with
  | (k0, k1, k2, k3, k4, k5, k6, k7, k8, k9, k10, k11, k12, k13, k14, k15, k16, k17, k18, k19, k20, k21, k22, k23, k24, k25, k26, k27, k28, k29, k30, k31, k32, k33, k34, k35, k36, k37, k38, k39, k40, k41, k42, k43, k44, k45, k46, k47, k48, k49, k50, k51, k52, k53, k54, k55, k56, k57, k58, k59, k60, k61, k62, k63) => rc2_decrypt_block k0 k1 k2 k3 k4 k5 k6 k7 k8 k9 k10 k11 k12 k13 k14 k15 k16 k17 k18 k19 k20 k21 k22 k23 k24 k25 k26 k27 k28 k29 k30 k31 k32 k33 k34 k35 k36 k37 k38 k39 k40 k41 k42 k43 k44 k45 k46 k47 k48 k49 k50 k51 k52 k53 k54 k55 k56 k57 k58 k59 k60 k61 k62 k63 b

theorem enc_slice_5_eq_impl (key : BitVec 40) (b : BitVec 64) :
    enc_slice_5 key b = BC.Rc2.encrypt (newWithEffKeyLen (unpackBE 5 key) 40) b := by
  unfold enc_slice_5
  rw [BC.GenKeys.Rc2.rc2_new_from_slice_5_eq key]
  simp only [BC.GenKeys.Rc2.rcTuple]
  rw [BC.GenCipher.Rc2.encrypt_block_eq, vlit64]
  rfl

theorem dec_slice_5_eq_impl (key : BitVec 40) (b : BitVec 64) :
    dec_slice_5 key b = BC.Rc2.decrypt (newWithEffKeyLen (unpackBE 5 key) 40) b := by
  unfold dec_slice_5
  rw [BC.GenKeys.Rc2.rc2_new_from_slice_5_eq key]
  simp only [BC.GenKeys.Rc2.rcTuple]
  rw [BC.GenCipher.Rc2.decrypt_block_eq, vlit64]
  rfl

theorem dec_enc_slice_5 (key : BitVec 40) (b : BitVec 64) : dec_slice_5 key (enc_slice_5 key b) = b := by
  rw [enc_slice_5_eq_impl, dec_slice_5_eq_impl, decrypt_encrypt_eff]

theorem enc_dec_slice_5 (key : BitVec 40) (b : BitVec 64) : enc_slice_5 key (dec_slice_5 key b) = b := by
  rw [enc_slice_5_eq_impl, dec_slice_5_eq_impl, encrypt_decrypt_eff]

/-- the regenerated code computes RFC 2268 (key expansion with T1 = 40 and the encryption rounds) -/
theorem enc_slice_5_eq_spec (key : BitVec 40) (b : BitVec 64) :
    unpackBE 8 (enc_slice_5 key b) = BC.Spec.Rc2.encrypt (unpackBE 5 key) 40 (unpackBE 8 b) := by
  have h := rc2eff_encrypt_conforms (unpackBE 5 key) 40 (unpackBE 8 b) (len8 b)
  unfold liftBlock at h
  rw [pack_unpack8] at h
  rw [enc_slice_5_eq_impl]
  exact h

/-- the regenerated code computes RFC 2268 (key expansion with T1 = 40 and the decryption rounds) -/
theorem dec_slice_5_eq_spec (key : BitVec 40) (b : BitVec 64) :
    unpackBE 8 (dec_slice_5 key b) = BC.Spec.Rc2.decrypt (unpackBE 5 key) 40 (unpackBE 8 b) := by
  have h := rc2eff_decrypt_conforms (unpackBE 5 key) 40 (unpackBE 8 b) (len8 b)
  unfold liftBlock at h
  rw [pack_unpack8] at h
  rw [dec_slice_5_eq_impl]
  exact h

/-- the model's `new_from_slice` on the 5 key bytes is `new_with_eff_key_len(key, 40)` -/
theorem newFromSlice_5 (key : BitVec 40) : newFromSlice (unpackBE 5 key) = some (newWithEffKeyLen (unpackBE 5 key) 40) := by
  have hl : (unpackBE 5 key).length = 5 := by simp [unpackBE]
  rw [newFromSlice_eq _ (by rw [hl]; decide), hl]

/-! ### `rc2_new_from_slice_8` -/

/-- `encrypt_block` after the constructor, on the regenerated code -/
def enc_slice_8 (key : BitVec 64) (b : BitVec 64) : BitVec 64 :=
  match rc2_new_from_slice_8 key with
  | (k0, k1, k2, k3, k4, k5, k6, k7, k8, k9, k10, k11, k12, k13, k14, k15, k16, k17, k18, k19, k20, k21, k22, k23, k24, k25, k26, k27, k28, k29, k30, k31, k32, k33, k34, k35, k36, k37, k38, k39, k40, k41, k42, k43, k44, k45, k46, k47, k48, k49, k50, k51, k52, k53, k54, k55, k56, k57, k58, k59, k60, k61, k62, k63) => rc2_encrypt_block k0 k1 k2 k3 k4 k5 k6 k7 k8 k9 k10 k11 k12 k13 k14 k15 k16 k17 k18 k19 k20 k21 k22 k23 k24 k25 k26 k27 k28 k29 k30 k31 k32 k33 k34 k35 k36 k37 k38 k39 k40 k41 k42 k43 k44 k45 k46 k47 k48 k49 k50 k51 k52 k53 k54 k55 k56 k57 k58 k59 k60 k61 k62 k63 b

/-- `decrypt_block` after the constructor, on the regenerated code -/
def dec_slice_8 (key : BitVec 64) (b : BitVec 64) : BitVec 64 :=
  match rc2_new_from_slice_8 key with
  | (k0, k1, k2, k3, k4, k5, k6, k7, k8, k9, k10, k11, k12, k13, k14, k15, k16, k17, k18, k19, k20, k21, k22, k23, k24, k25, k26, k27, k28, k29, k30, k31, k32, k33, k34, k35, k36, k37, k38, k39, k40, k41, k42, k43, k44, k45, k46, k47, k48, k49, k50, k51, k52, k53, k54, k55, k56, k57, k58, k59, k60, k61, k62, k63) => rc2_decrypt_block k0 k1 k2 k3 k4 k5 k6 k7 k8 k9 k10 k11 k12 k13 k14 k15 k16 k17 k18 k19 k20 k21 k22 k23 k24 k25 k26 k27 k28 k29 k30 k31 k32 k33 k34 k35 k36 k37 k38 k39 k40 k41 k42 k43 k44 k45 k46 k47 k48 k49 k50 k51 k52 k53 k54 k55 k56 k57 k58 k59 k60 k61 k62 k63 b

theorem enc_slice_8_eq_impl (key : BitVec 64) (b : BitVec 64) :
    enc_slice_8 key b = BC.Rc2.encrypt (newWithEffKeyLen (unpackBE 8 key) 64) b := by
  unfold enc_slice_8
  rw [BC.GenKeys.Rc2.rc2_new_from_slice_8_eq key]
  simp only [BC.GenKeys.Rc2.rcTuple]
  rw [BC.GenCipher.Rc2.encrypt_block_eq, vlit64]
  rfl

theorem dec_slice_8_eq_impl (key : BitVec 64) (b : BitVec 64) :
    dec_slice_8 key b = BC.Rc2.decrypt (newWithEffKeyLen (unpackBE 8 key) 64) b := by
  unfold dec_slice_8
  rw [BC.GenKeys.Rc2.rc2_new_from_slice_8_eq key]
  simp only [BC.GenKeys.Rc2.rcTuple]
  rw [BC.GenCipher.Rc2.decrypt_block_eq, vlit64]
  rfl

theorem dec_enc_slice_8 (key : BitVec 64) (b : BitVec 64) : dec_slice_8 key (enc_slice_8 key b) = b := by
  rw [enc_slice_8_eq_impl, dec_slice_8_eq_impl, decrypt_encrypt_eff]

theorem enc_dec_slice_8 (key : BitVec 64) (b : BitVec 64) : enc_slice_8 key (dec_slice_8 key b) = b := by
  rw [enc_slice_8_eq_impl, dec_slice_8_eq_impl, encrypt_decrypt_eff]

/-- the regenerated code computes RFC 2268 (key expansion with T1 = 64 and the encryption rounds) -/
theorem enc_slice_8_eq_spec (key : BitVec 64) (b : BitVec 64) :
    unpackBE 8 (enc_slice_8 key b) = BC.Spec.Rc2.encrypt (unpackBE 8 key) 64 (unpackBE 8 b) := by
  have h := rc2eff_encrypt_conforms (unpackBE 8 key) 64 (unpackBE 8 b) (len8 b)
  unfold liftBlock at h
  rw [pack_unpack8] at h
  rw [enc_slice_8_eq_impl]
  exact h

/-- the regenerated code computes RFC 2268 (key expansion with T1 = 64 and the decryption rounds) -/
theorem dec_slice_8_eq_spec (key : BitVec 64) (b : BitVec 64) :
    unpackBE 8 (dec_slice_8 key b) = BC.Spec.Rc2.decrypt (unpackBE 8 key) 64 (unpackBE 8 b) := by
  have h := rc2eff_decrypt_conforms (unpackBE 8 key) 64 (unpackBE 8 b) (len8 b)
  unfold liftBlock at h
  rw [pack_unpack8] at h
  rw [dec_slice_8_eq_impl]
  exact h

/-- the model's `new_from_slice` on the 8 key bytes is `new_with_eff_key_len(key, 64)` -/
theorem newFromSlice_8 (key : BitVec 64) : newFromSlice (unpackBE 8 key) = some (newWithEffKeyLen (unpackBE 8 key) 64) := by
  have hl : (unpackBE 8 key).length = 8 := by simp [unpackBE]
  rw [newFromSlice_eq _ (by rw [hl]; decide), hl]

/-! ### `rc2_new_from_slice_16` -/

/-- `encrypt_block` after the constructor, on the regenerated code -/
def enc_slice_16 (key : BitVec 128) (b : BitVec 64) : BitVec 64 :=
  match rc2_new_from_slice_16 key with
  | (k0, k1, k2, k3, k4, k5, k6, k7, k8, k9, k10, k11, k12, k13, k14, k15, k16, k17, k18, k19, k20, k21, k22, k23, k24, k25, k26, k27, k28, k29, k30, k31, k32, k33, k34, k35, k36, k37, k38, k39, k40, k41, k42, k43, k44, k45, k46, k47, k48, k49, k50, k51, k52, k53, k54, k55, k56, k57, k58, k59, k60, k61, k62, k63) => rc2_encrypt_block k0 k1 k2 k3 k4 k5 k6 k7 k8 k9 k10 k11 k12 k13 k14 k15 k16 k17 k18 k19 k20 k21 k22 k23 k24 k25 k26 k27 k28 k29 k30 k31 k32 k33 k34 k35 k36 k37 k38 k39 k40 k41 k42 k43 k44 k45 k46 k47 k48 k49 k50 k51 k52 k53 k54 k55 k56 k57 k58 k59 k60 k61 k62 k63 b

/-- `decrypt_block` after the constructor, on the regenerated code -/
def dec_slice_16 (key : BitVec 128) (b : BitVec 64) : BitVec 64 :=
  match rc2_new_from_slice_16 key with
  | (k0, k1, k2, k3, k4, k5, k6, k7, k8, k9, k10, k11, k12, k13, k14, k15, k16, k17, k18, k19, k20, k21, k22, k23, k24, k25, k26, k27, k28, k29, k30, k31, k32, k33, k34, k35, k36, k37, k38, k39, k40, k41, k42, k43, k44, k45, k46, k47, k48, k49, k50, k51, k52, k53, k54, k55, k56, k57, k58, k59, k60, k61, k62, k63) => rc2_decrypt_block k0 k1 k2 k3 k4 k5 k6 k7 k8 k9 k10 k11 k12 k13 k14 k15 k16 k17 k18 k19 k20 k21 k22 k23 k24 k25 k26 k27 k28 k29 k30 k31 k32 k33 k34 k35 k36 k37 k38 k39 k40 k41 k42 k43 k44 k45 k46 k47 k48 k49 k50 k51 k52 k53 k54 k55 k56 k57 k58 k59 k60 k61 k62 k63 b

theorem enc_slice_16_eq_impl (key : BitVec 128) (b : BitVec 64) :
    enc_slice_16 key b = BC.Rc2.encrypt (newWithEffKeyLen (unpackBE 16 key) 128) b := by
  unfold enc_slice_16
  rw [BC.GenKeys.Rc2.rc2_new_from_slice_16_eq key]
  simp only [BC.GenKeys.Rc2.rcTuple]
  rw [BC.GenCipher.Rc2.encrypt_block_eq, vlit64]
  rfl

theorem dec_slice_16_eq_impl (key : BitVec 128) (b : BitVec 64) :
    dec_slice_16 key b = BC.Rc2.decrypt (newWithEffKeyLen (unpackBE 16 key) 128) b := by
  unfold dec_slice_16
  rw [BC.GenKeys.Rc2.rc2_new_from_slice_16_eq key]
  simp only [BC.GenKeys.Rc2.rcTuple]
  rw [BC.GenCipher.Rc2.decrypt_block_eq, vlit64]
  rfl

theorem dec_enc_slice_16 (key : BitVec 128) (b : BitVec 64) : dec_slice_16 key (enc_slice_16 key b) = b := by
  rw [enc_slice_16_eq_impl, dec_slice_16_eq_impl, decrypt_encrypt_eff]

theorem enc_dec_slice_16 (key : BitVec 128) (b : BitVec 64) : enc_slice_16 key (dec_slice_16 key b) = b := by
  rw [enc_slice_16_eq_impl, dec_slice_16_eq_impl, encrypt_decrypt_eff]

/-- the regenerated code computes RFC 2268 (key expansion with T1 = 128 and the encryption rounds) -/
theorem enc_slice_16_eq_spec (key : BitVec 128) (b : BitVec 64) :
    unpackBE 8 (enc_slice_16 key b) = BC.Spec.Rc2.encrypt (unpackBE 16 key) 128 (unpackBE 8 b) := by
  have h := rc2eff_encrypt_conforms (unpackBE 16 key) 128 (unpackBE 8 b) (len8 b)
  unfold liftBlock at h
  rw [pack_unpack8] at h
  rw [enc_slice_16_eq_impl]
  exact h

/-- the regenerated code computes RFC 2268 (key expansion with T1 = 128 and the decryption rounds) -/
theorem dec_slice_16_eq_spec (key : BitVec 128) (b : BitVec 64) :
    unpackBE 8 (dec_slice_16 key b) = BC.Spec.Rc2.decrypt (unpackBE 16 key) 128 (unpackBE 8 b) := by
  have h := rc2eff_decrypt_conforms (unpackBE 16 key) 128 (unpackBE 8 b) (len8 b)
  unfold liftBlock at h
  rw [pack_unpack8] at h
  rw [dec_slice_16_eq_impl]
  exact h

/-- the model's `new_from_slice` on the 16 key bytes is `new_with_eff_key_len(key, 128)` -/
theorem newFromSlice_16 (key : BitVec 128) : newFromSlice (unpackBE 16 key) = some (newWithEffKeyLen (unpackBE 16 key) 128) := by
  have hl : (unpackBE 16 key).length = 16 := by simp [unpackBE]
  rw [newFromSlice_eq _ (by rw [hl]; decide), hl]

/-! ### `rc2_new_with_eff_key_len_8_63` -/

/-- `encrypt_block` after the constructor, on the regenerated code -/
def enc_eff_8_63 (key : BitVec 64) (b : BitVec 64) : BitVec 64 :=
  match rc2_new_with_eff_key_len_8_63 key with
  | (k0, k1, k2, k3, k4, k5, k6, k7, k8, k9, k10, k11, k12, k13, k14, k15, k16, k17, k18, k19, k20, k21, k22, k23, k24, k25, k26, k27, k28, k29, k30, k31, k32, k33, k34, k35, k36, k37, k38, k39, k40, k41, k42, k43, k44, k45, k46, k47, k48, k49, k50, k51, k52, k53, k54, k55, k56, k57, k58, k59, k60, k61, k62, k63) => rc2_encrypt_block k0 k1 k2 k3 k4 k5 k6 k7 k8 k9 k10 k11 k12 k13 k14 k15 k16 k17 k18 k19 k20 k21 k22 k23 k24 k25 k26 k27 k28 k29 k30 k31 k32 k33 k34 k35 k36 k37 k38 k39 k40 k41 k42 k43 k44 k45 k46 k47 k48 k49 k50 k51 k52 k53 k54 k55 k56 k57 k58 k59 k60 k61 k62 k63 b

/-- `decrypt_block` after the constructor, on the regenerated code -/
def dec_eff_8_63 (key : BitVec 64) (b : BitVec 64) : BitVec 64 :=
  match rc2_new_with_eff_key_len_8_63 key with
  | (k0, k1, k2, k3, k4, k5, k6, k7, k8, k9, k10, k11, k12, k13, k14, k15, k16, k17, k18, k19, k20, k21, k22, k23, k24, k25, k26, k27, k28, k29, k30, k31, k32, k33, k34, k35, k36, k37, k38, k39, k40, k41, k42, k43, k44, k45, k46, k47, k48, k49, k50, k51, k52, k53, k54, k55, k56, k57, k58, k59, k60, k61, k62, k63) => rc2_decrypt_block k0 k1 k2 k3 k4 k5 k6 k7 k8 k9 k10 k11 k12 k13 k14 k15 k16 k17 k18 k19 k20 k21 k22 k23 k24 k25 k26 k27 k28 k29 k30 k31 k32 k33 k34 k35 k36 k37 k38 k39 k40 k41 k42 k43 k44 k45 k46 k47 k48 k49 k50 k51 k52 k53 k54 k55 k56 k57 k58 k59 k60 k61 k62 k63 b

theorem enc_eff_8_63_eq_impl (key : BitVec 64) (b : BitVec 64) :
    enc_eff_8_63 key b = BC.Rc2.encrypt (newWithEffKeyLen (unpackBE 8 key) 63) b := by
  unfold enc_eff_8_63
  rw [BC.GenKeys.Rc2.rc2_new_with_eff_key_len_8_63_eq key]
  simp only [BC.GenKeys.Rc2.rcTuple]
  rw [BC.GenCipher.Rc2.encrypt_block_eq, vlit64]
  rfl

theorem dec_eff_8_63_eq_impl (key : BitVec 64) (b : BitVec 64) :
    dec_eff_8_63 key b = BC.Rc2.decrypt (newWithEffKeyLen (unpackBE 8 key) 63) b := by
  unfold dec_eff_8_63
  rw [BC.GenKeys.Rc2.rc2_new_with_eff_key_len_8_63_eq key]
  simp only [BC.GenKeys.Rc2.rcTuple]
  rw [BC.GenCipher.Rc2.decrypt_block_eq, vlit64]
  rfl

theorem dec_enc_eff_8_63 (key : BitVec 64) (b : BitVec 64) : dec_eff_8_63 key (enc_eff_8_63 key b) = b := by
  rw [enc_eff_8_63_eq_impl, dec_eff_8_63_eq_impl, decrypt_encrypt_eff]

theorem enc_dec_eff_8_63 (key : BitVec 64) (b : BitVec 64) : enc_eff_8_63 key (dec_eff_8_63 key b) = b := by
  rw [enc_eff_8_63_eq_impl, dec_eff_8_63_eq_impl, encrypt_decrypt_eff]

/-- the regenerated code computes RFC 2268 (key expansion with T1 = 63 and the encryption rounds) -/
theorem enc_eff_8_63_eq_spec (key : BitVec 64) (b : BitVec 64) :
    unpackBE 8 (enc_eff_8_63 key b) = BC.Spec.Rc2.encrypt (unpackBE 8 key) 63 (unpackBE 8 b) := by
  have h := rc2eff_encrypt_conforms (unpackBE 8 key) 63 (unpackBE 8 b) (len8 b)
  unfold liftBlock at h
  rw [pack_unpack8] at h
  rw [enc_eff_8_63_eq_impl]
  exact h

/-- the regenerated code computes RFC 2268 (key expansion with T1 = 63 and the decryption rounds) -/
theorem dec_eff_8_63_eq_spec (key : BitVec 64) (b : BitVec 64) :
    unpackBE 8 (dec_eff_8_63 key b) = BC.Spec.Rc2.decrypt (unpackBE 8 key) 63 (unpackBE 8 b) := by
  have h := rc2eff_decrypt_conforms (unpackBE 8 key) 63 (unpackBE 8 b) (len8 b)
  unfold liftBlock at h
  rw [pack_unpack8] at h
  rw [dec_eff_8_63_eq_impl]
  exact h

/-! ### `rc2_new_with_eff_key_len_16_64` -/

/-- `encrypt_block` after the constructor, on the regenerated code -/
def enc_eff_16_64 (key : BitVec 128) (b : BitVec 64) : BitVec 64 :=
  match rc2_new_with_eff_key_len_16_64 key with
  | (k0, k1, k2, k3, k4, k5, k6, k7, k8, k9, k10, k11, k12, k13, k14, k15, k16, k17, k18, k19, k20, k21, k22, k23, k24, k25, k26, k27, k28, k29, k30, k31, k32, k33, k34, k35, k36, k37, k38, k39, k40, k41, k42, k43, k44, k45, k46, k47, k48, k49, k50, k51, k52, k53, k54, k55, k56, k57, k58, k59, k60, k61, k62, k63) => rc2_encrypt_block k0 k1 k2 k3 k4 k5 k6 k7 k8 k9 k10 k11 k12 k13 k14 k15 k16 k17 k18 k19 k20 k21 k22 k23 k24 k25 k26 k27 k28 k29 k30 k31 k32 k33 k34 k35 k36 k37 k38 k39 k40 k41 k42 k43 k44 k45 k46 k47 k48 k49 k50 k51 k52 k53 k54 k55 k56 k57 k58 k59 k60 k61 k62 k63 b

/-- `decrypt_block` after the constructor, on the regenerated code -/
def dec_eff_16_64 (key : BitVec 128) (b : BitVec 64) : BitVec 64 :=
  match rc2_new_with_eff_key_len_16_64 key with
  | (k0, k1, k2, k3, k4, k5, k6, k7, k8, k9, k10, k11, k12, k13, k14, k15, k16, k17, k18, k19, k20, k21, k22, k23, k24, k25, k26, k27, k28, k29, k30, k31, k32, k33, k34, k35, k36, k37, k38, k39, k40, k41, k42, k43, k44, k45, k46, k47, k48, k49, k50, k51, k52, k53, k54, k55, k56, k57, k58, k59, k60, k61, k62, k63) => rc2_decrypt_block k0 k1 k2 k3 k4 k5 k6 k7 k8 k9 k10 k11 k12 k13 k14 k15 k16 k17 k18 k19 k20 k21 k22 k23 k24 k25 k26 k27 k28 k29 k30 k31 k32 k33 k34 k35 k36 k37 k38 k39 k40 k41 k42 k43 k44 k45 k46 k47 k48 k49 k50 k51 k52 k53 k54 k55 k56 k57 k58 k59 k60 k61 k62 k63 b

theorem enc_eff_16_64_eq_impl (key : BitVec 128) (b : BitVec 64) :
    enc_eff_16_64 key b = BC.Rc2.encrypt (newWithEffKeyLen (unpackBE 16 key) 64) b := by
  unfold enc_eff_16_64
  rw [BC.GenKeys.Rc2.rc2_new_with_eff_key_len_16_64_eq key]
  simp only [BC.GenKeys.Rc2.rcTuple]
  rw [BC.GenCipher.Rc2.encrypt_block_eq, vlit64]
  rfl

theorem dec_eff_16_64_eq_impl (key : BitVec 128) (b : BitVec 64) :
    dec_eff_16_64 key b = BC.Rc2.decrypt (newWithEffKeyLen (unpackBE 16 key) 64) b := by
  unfold dec_eff_16_64
  rw [BC.GenKeys.Rc2.rc2_new_with_eff_key_len_16_64_eq key]
  simp only [BC.GenKeys.Rc2.rcTuple]
  rw [BC.GenCipher.Rc2.decrypt_block_eq, vlit64]
  rfl

theorem dec_enc_eff_16_64 (key : BitVec 128) (b : BitVec 64) : dec_eff_16_64 key (enc_eff_16_64 key b) = b := by
  rw [enc_eff_16_64_eq_impl, dec_eff_16_64_eq_impl, decrypt_encrypt_eff]

theorem enc_dec_eff_16_64 (key : BitVec 128) (b : BitVec 64) : enc_eff_16_64 key (dec_eff_16_64 key b) = b := by
  rw [enc_eff_16_64_eq_impl, dec_eff_16_64_eq_impl, encrypt_decrypt_eff]

/-- the regenerated code computes RFC 2268 (key expansion with T1 = 64 and the encryption rounds) -/
theorem enc_eff_16_64_eq_spec (key : BitVec 128) (b : BitVec 64) :
    unpackBE 8 (enc_eff_16_64 key b) = BC.Spec.Rc2.encrypt (unpackBE 16 key) 64 (unpackBE 8 b) := by
  have h := rc2eff_encrypt_conforms (unpackBE 16 key) 64 (unpackBE 8 b) (len8 b)
  unfold liftBlock at h
  rw [pack_unpack8] at h
  rw [enc_eff_16_64_eq_impl]
  exact h

/-- the regenerated code computes RFC 2268 (key expansion with T1 = 64 and the decryption rounds) -/
theorem dec_eff_16_64_eq_spec (key : BitVec 128) (b : BitVec 64) :
    unpackBE 8 (dec_eff_16_64 key b) = BC.Spec.Rc2.decrypt (unpackBE 16 key) 64 (unpackBE 8 b) := by
  have h := rc2eff_decrypt_conforms (unpackBE 16 key) 64 (unpackBE 8 b) (len8 b)
  unfold liftBlock at h
  rw [pack_unpack8] at h
  rw [dec_eff_16_64_eq_impl]
  exact h

/-! ### `rc2_new_with_eff_key_len_16_128` -/

/-- `encrypt_block` after the constructor, on the regenerated code -/
def enc_eff_16_128 (key : BitVec 128) (b : BitVec 64) : BitVec 64 :=
  match rc2_new_with_eff_key_len_16_128 key with
  | (k0, k1, k2, k3, k4, k5, k6, k7, k8, k9, k10, k11, k12, k13, k14, k15, k16, k17, k18, k19, k20, k21, k22, k23, k24, k25, k26, k27, k28, k29, k30, k31, k32, k33, k34, k35, k36, k37, k38, k39, k40, k41, k42, k43, k44, k45, k46, k47, k48, k49, k50, k51, k52, k53, k54, k55, k56, k57, k58, k59, k60, k61, k62, k63) => rc2_encrypt_block k0 k1 k2 k3 k4 k5 k6 k7 k8 k9 k10 k11 k12 k13 k14 k15 k16 k17 k18 k19 k20 k21 k22 k23 k24 k25 k26 k27 k28 k29 k30 k31 k32 k33 k34 k35 k36 k37 k38 k39 k40 k41 k42 k43 k44 k45 k46 k47 k48 k49 k50 k51 k52 k53 k54 k55 k56 k57 k58 k59 k60 k61 k62 k63 b

/-- `decrypt_block` after the constructor, on the regenerated code -/
def dec_eff_16_128 (key : BitVec 128) (b : BitVec 64) : BitVec 64 :=
  match rc2_new_with_eff_key_len_16_128 key with
  | (k0, k1, k2, k3, k4, k5, k6, k7, k8, k9, k10, k11, k12, k13, k14, k15, k16, k17, k18, k19, k20, k21, k22, k23, k24, k25, k26, k27, k28, k29, k30, k31, k32, k33, k34, k35, k36, k37, k38, k39, k40, k41, k42, k43, k44, k45, k46, k47, k48, k49, k50, k51, k52, k53, k54, k55, k56, k57, k58, k59, k60, k61, k62, k63) => rc2_decrypt_block k0 k1 k2 k3 k4 k5 k6 k7 k8 k9 k10 k11 k12 k13 k14 k15 k16 k17 k18 k19 k20 k21 k22 k23 k24 k25 k26 k27 k28 k29 k30 k31 k32 k33 k34 k35 k36 k37 k38 k39 k40 k41 k42 k43 k44 k45 k46 k47 k48 k49 k50 k51 k52 k53 k54 k55 k56 k57 k58 k59 k60 k61 k62 k63 b

theorem enc_eff_16_128_eq_impl (key : BitVec 128) (b : BitVec 64) :
    enc_eff_16_128 key b = BC.Rc2.encrypt (newWithEffKeyLen (unpackBE 16 key) 128) b := by
  unfold enc_eff_16_128
  rw [BC.GenKeys.Rc2.rc2_new_with_eff_key_len_16_128_eq key]
  simp only [BC.GenKeys.Rc2.rcTuple]
  rw [BC.GenCipher.Rc2.encrypt_block_eq, vlit64]
  rfl

theorem dec_eff_16_128_eq_impl (key : BitVec 128) (b : BitVec 64) :
    dec_eff_16_128 key b = BC.Rc2.decrypt (newWithEffKeyLen (unpackBE 16 key) 128) b := by
  unfold dec_eff_16_128
  rw [BC.GenKeys.Rc2.rc2_new_with_eff_key_len_16_128_eq key]
  simp only [BC.GenKeys.Rc2.rcTuple]
  rw [BC.GenCipher.Rc2.decrypt_block_eq, vlit64]
  rfl

theorem dec_enc_eff_16_128 (key : BitVec 128) (b : BitVec 64) : dec_eff_16_128 key (enc_eff_16_128 key b) = b := by
  rw [enc_eff_16_128_eq_impl, dec_eff_16_128_eq_impl, decrypt_encrypt_eff]

theorem enc_dec_eff_16_128 (key : BitVec 128) (b : BitVec 64) : enc_eff_16_128 key (dec_eff_16_128 key b) = b := by
  rw [enc_eff_16_128_eq_impl, dec_eff_16_128_eq_impl, encrypt_decrypt_eff]

/-- the regenerated code computes RFC 2268 (key expansion with T1 = 128 and the encryption rounds) -/
theorem enc_eff_16_128_eq_spec (key : BitVec 128) (b : BitVec 64) :
    unpackBE 8 (enc_eff_16_128 key b) = BC.Spec.Rc2.encrypt (unpackBE 16 key) 128 (unpackBE 8 b) := by
  have h := rc2eff_encrypt_conforms (unpackBE 16 key) 128 (unpackBE 8 b) (len8 b)
  unfold liftBlock at h
  rw [pack_unpack8] at h
  rw [enc_eff_16_128_eq_impl]
  exact h

/-- the regenerated code computes RFC 2268 (key expansion with T1 = 128 and the decryption rounds) -/
theorem dec_eff_16_128_eq_spec (key : BitVec 128) (b : BitVec 64) :
    unpackBE 8 (dec_eff_16_128 key b) = BC.Spec.Rc2.decrypt (unpackBE 16 key) 128 (unpackBE 8 b) := by
  have h := rc2eff_decrypt_conforms (unpackBE 16 key) 128 (unpackBE 8 b) (len8 b)
  unfold liftBlock at h
  rw [pack_unpack8] at h
  rw [dec_eff_16_128_eq_impl]
  exact h

/-! ### `rc2_new_with_eff_key_len_5_40` -/

/-- `encrypt_block` after the constructor, on the regenerated code -/
def enc_eff_5_40 (key : BitVec 40) (b : BitVec 64) : BitVec 64 :=
  match rc2_new_with_eff_key_len_5_40 key with
  | (k0, k1, k2, k3, k4, k5, k6, k7, k8, k9, k10, k11, k12, k13, k14, k15, k16, k17, k18, k19, k20, k21, k22, k23, k24, k25, k26, k27, k28, k29, k30, k31, k32, k33, k34, k35, k36, k37, k38, k39, k40, k41, k42, k43, k44, k45, k46, k47, k48, k49, k50, k51, k52, k53, k54, k55, k56, k57, k58, k59, k60, k61, k62, k63) => rc2_encrypt_block k0 k1 k2 k3 k4 k5 k6 k7 k8 k9 k10 k11 k12 k13 k14 k15 k16 k17 k18 k19 k20 k21 k22 k23 k24 k25 k26 k27 k28 k29 k30 k31 k32 k33 k34 k35 k36 k37 k38 k39 k40 k41 k42 k43 k44 k45 k46 k47 k48 k49 k50 k51 k52 k53 k54 k55 k56 k57 k58 k59 k60 k61 k62 k63 b

/-- `decrypt_block` after the constructor, on the regenerated code -/
def dec_eff_5_40 (key : BitVec 40) (b : BitVec 64) : BitVec 64 :=
  match rc2_new_with_eff_key_len_5_40 key with
  | (k0, k1, k2, k3, k4, k5, k6, k7, k8, k9, k10, k11, k12, k13, k14, k15, k16, k17, k18, k19, k20, k21, k22, k23, k24, k25, k26, k27, k28, k29, k30, k31, k32, k33, k34, k35, k36, k37, k38, k39, k40, k41, k42, k43, k44, k45, k46, k47, k48, k49, k50, k51, k52, k53, k54, k55, k56, k57, k58, k59, k60, k61, k62, k63) => rc2_decrypt_block k0 k1 k2 k3 k4 k5 k6 k7 k8 k9 k10 k11 k12 k13 k14 k15 k16 k17 k18 k19 k20 k21 k22 k23 k24 k25 k26 k27 k28 k29 k30 k31 k32 k33 k34 k35 k36 k37 k38 k39 k40 k41 k42 k43 k44 k45 k46 k47 k48 k49 k50 k51 k52 k53 k54 k55 k56 k57 k58 k59 k60 k61 k62 k63 b

theorem enc_eff_5_40_eq_impl (key : BitVec 40) (b : BitVec 64) :
    enc_eff_5_40 key b = BC.Rc2.encrypt (newWithEffKeyLen (unpackBE 5 key) 40) b := by
  unfold enc_eff_5_40
  rw [BC.GenKeys.Rc2.rc2_new_with_eff_key_len_5_40_eq key]
  simp only [BC.GenKeys.Rc2.rcTuple]
  rw [BC.GenCipher.Rc2.encrypt_block_eq, vlit64]
  rfl

theorem dec_eff_5_40_eq_impl (key : BitVec 40) (b : BitVec 64) :
    dec_eff_5_40 key b = BC.Rc2.decrypt (newWithEffKeyLen (unpackBE 5 key) 40) b := by
  unfold dec_eff_5_40
  rw [BC.GenKeys.Rc2.rc2_new_with_eff_key_len_5_40_eq key]
  simp only [BC.GenKeys.Rc2.rcTuple]
  rw [BC.GenCipher.Rc2.decrypt_block_eq, vlit64]
  rfl

theorem dec_enc_eff_5_40 (key : BitVec 40) (b : BitVec 64) : dec_eff_5_40 key (enc_eff_5_40 key b) = b := by
  rw [enc_eff_5_40_eq_impl, dec_eff_5_40_eq_impl, decrypt_encrypt_eff]

theorem enc_dec_eff_5_40 (key : BitVec 40) (b : BitVec 64) : enc_eff_5_40 key (dec_eff_5_40 key b) = b := by
  rw [enc_eff_5_40_eq_impl, dec_eff_5_40_eq_impl, encrypt_decrypt_eff]

/-- the regenerated code computes RFC 2268 (key expansion with T1 = 40 and the encryption rounds) -/
theorem enc_eff_5_40_eq_spec (key : BitVec 40) (b : BitVec 64) :
    unpackBE 8 (enc_eff_5_40 key b) = BC.Spec.Rc2.encrypt (unpackBE 5 key) 40 (unpackBE 8 b) := by
  have h := rc2eff_encrypt_conforms (unpackBE 5 key) 40 (unpackBE 8 b) (len8 b)
  unfold liftBlock at h
  rw [pack_unpack8] at h
  rw [enc_eff_5_40_eq_impl]
  exact h

/-- the regenerated code computes RFC 2268 (key expansion with T1 = 40 and the decryption rounds) -/
theorem dec_eff_5_40_eq_spec (key : BitVec 40) (b : BitVec 64) :
    unpackBE 8 (dec_eff_5_40 key b) = BC.Spec.Rc2.decrypt (unpackBE 5 key) 40 (unpackBE 8 b) := by
  have h := rc2eff_decrypt_conforms (unpackBE 5 key) 40 (unpackBE 8 b) (len8 b)
  unfold liftBlock at h
  rw [pack_unpack8] at h
  rw [dec_eff_5_40_eq_impl]
  exact h

end BC.Code.Rc2
