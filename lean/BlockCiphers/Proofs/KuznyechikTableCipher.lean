import BlockCiphers.Proofs.KuznyechikCompact
import BlockCiphers.Proofs.KuznyechikFused
/-
Kuznyechik: the cipher built from a table-driven round (the common shape of big_soft / sse2 / neon) equals the
compact backend.  `lsLE`, `dLE`, `sLE`, `sinvLE` are what the four primitives of a table backend compute
(`transform(·, &ENC_TABLE)`, `transform(·, &DEC_TABLE)`, `sub_bytes(·, &P)`, `sub_bytes(·, &P_INV)`), as functions on
little-endian 128-bit values; `Proofs/KuznyechikBackends.lean` shows that each backend's primitives ARE these.

* key schedule: `expand_with lsLE` = the compact `expand`, byte-reversed key by key;
* encryption: nine `transform(b ^ k[i])` and a final XOR = compact `encrypt_block`;
* pre-transformed decryption keys: `inv_with` gives `dec[0] = K10`, `dec[i] = L⁻¹(K_{10−i})` (i = 1..8), `dec[9] = K1`;
  the decryption of the table backends with these keys = compact `decrypt_block` (uses additivity of L⁻¹).
-/
namespace BC.Kuznyechik
open BC.Spec.Kuznyechik

def lsLE (v : BitVec 128) : BitVec 128 := rev128 (L (S (rev128 v)))
def dLE (v : BitVec 128) : BitVec 128 := rev128 (Linv (Sinv (rev128 v)))
def sLE (v : BitVec 128) : BitVec 128 := rev128 (S (rev128 v))
def sinvLE (v : BitVec 128) : BitVec 128 := rev128 (Sinv (rev128 v))

def RoundKeys.map (g : BitVec 128 → BitVec 128) (k : RoundKeys) : RoundKeys :=
  ⟨g k.k0, g k.k1, g k.k2, g k.k3, g k.k4, g k.k5, g k.k6, g k.k7, g k.k8, g k.k9⟩

/-- the shape of `encrypt_block` of the table backends -/
def tabEncrypt (k : RoundKeys) (block : BitVec 128) : BitVec 128 :=
  rev128 ([k.k0, k.k1, k.k2, k.k3, k.k4, k.k5, k.k6, k.k7, k.k8].foldl (fun b ki => lsLE (b ^^^ ki)) (rev128 block)
    ^^^ k.k9)

/-- the shape of `decrypt_block` of the table backends -/
def tabDecrypt (k : RoundKeys) (block : BitVec 128) : BitVec 128 :=
  rev128 (sinvLE ([k.k1, k.k2, k.k3, k.k4, k.k5, k.k6, k.k7, k.k8].foldl (fun b ki => dLE b ^^^ ki)
    (dLE (sLE (rev128 block ^^^ k.k0)))) ^^^ k.k9)

def tabExpand (key : BitVec 256) : RoundKeys :=
  expand_with lsLE (rev128 (key.extractLsb' 128 128)) (rev128 (key.extractLsb' 0 128))

def tabInv (e : RoundKeys) : RoundKeys := inv_with (fun k => dLE (sLE k)) e

theorem lsLE_rev' (b k : BitVec 128) : lsLE (rev128 (b ^^^ k)) = rev128 (Compact.lsx b k) := by
  rw [lsLE, rev128_rev128, Compact.lsx_eq_LSX, LSX, X, BitVec.xor_comm]

theorem lsLE_rev (b k : BitVec 128) : lsLE (rev128 b ^^^ rev128 k) = rev128 (Compact.lsx b k) := by
  rw [← rev128_xor, lsLE_rev']

theorem pair_step (a b : BitVec 128) (i : Nat) (h0 : i < 32) (h1 : i + 1 < 32) :
    ((rev128 a ^^^ lsLE ((rev128 b ^^^ lsLE (rev128 a ^^^ next_const i h0)) ^^^ next_const (i + 1) h1)),
     (rev128 b ^^^ lsLE (rev128 a ^^^ next_const i h0))) =
    (rev128 (Compact.x a (Compact.lsx (Compact.x b (Compact.lsx a (Compact.get_c i h0))) (Compact.get_c (i + 1) h1))),
     rev128 (Compact.x b (Compact.lsx a (Compact.get_c i h0)))) := by
  simp only [next_const, Compact.get_c, Compact.x, ← rev128_xor, lsLE_rev']

theorem expand_inner_eq' (p : BitVec 128 × BitVec 128) (n : Fin 4) :
    expand_inner lsLE (rev128 p.1, rev128 p.2) n = (rev128 (Compact.f p n).1, rev128 (Compact.f p n).2) := by
  unfold expand_inner Compact.f
  exact List.foldl_hom (fun (q : BitVec 128 × BitVec 128) => (rev128 q.1, rev128 q.2)) (H := by
    intro q j
    exact pair_step q.1 q.2 _ _ _)

theorem expand_inner_eq (a b : BitVec 128) (n : Fin 4) :
    expand_inner lsLE (rev128 a, rev128 b) n = (rev128 (Compact.f (a, b) n).1, rev128 (Compact.f (a, b) n).2) :=
  expand_inner_eq' (a, b) n

/-- key schedule of the table backends = compact key schedule, every key byte-reversed (little-endian load) -/
theorem tabExpand_eq (key : BitVec 256) : tabExpand key = (Compact.expand key).map rev128 := by
  simp only [tabExpand, expand_with, Compact.expand, RoundKeys.map, expand_inner_eq]

theorem tabEncrypt_eq (k : RoundKeys) (block : BitVec 128) :
    tabEncrypt (k.map rev128) block = Compact.encrypt_block k block := by
  simp only [tabEncrypt, RoundKeys.map, List.foldl, Compact.encrypt_block, Compact.x]
  simp only [lsLE_rev]
  rw [← rev128_xor, rev128_rev128]

/-! ### decryption with the pre-transformed keys -/

theorem dLE_sLE (k : BitVec 128) : dLE (sLE (rev128 k)) = rev128 (Linv k) := by
  simp only [dLE, sLE, rev128_rev128, Sinv_S]

/-- the pre-transformed decryption keys: `dec[0] = K10`, `dec[9 − i] = L⁻¹(K_{i+1})` for i = 1..8, `dec[9] = K1` -/
theorem tabInv_eq (k : RoundKeys) :
    tabInv (k.map rev128) = ⟨rev128 k.k9, rev128 (Linv k.k8), rev128 (Linv k.k7), rev128 (Linv k.k6), rev128 (Linv k.k5),
      rev128 (Linv k.k4), rev128 (Linv k.k3), rev128 (Linv k.k2), rev128 (Linv k.k1), rev128 k.k0⟩ := by
  simp only [tabInv, inv_with, RoundKeys.map, dLE_sLE]

theorem dec_init (b k : BitVec 128) : dLE (sLE (rev128 b ^^^ rev128 k)) = rev128 (Linv (b ^^^ k)) := by
  rw [← rev128_xor, dLE_sLE]

theorem dec_step (b k k' : BitVec 128) :
    dLE (rev128 (Linv (b ^^^ k))) ^^^ rev128 (Linv k') = rev128 (Linv (Compact.lsx_inv b k ^^^ k')) := by
  rw [Compact.lsx_inv_eq, SinvLinvX, X, dLE, rev128_rev128, ← rev128_xor, ← Linv_xor, BitVec.xor_comm k b]

theorem dec_final (b k k0 : BitVec 128) :
    rev128 (sinvLE (rev128 (Linv (b ^^^ k))) ^^^ rev128 k0) = Compact.x (Compact.lsx_inv b k) k0 := by
  rw [Compact.lsx_inv_eq, SinvLinvX, X, sinvLE, rev128_rev128, ← rev128_xor, rev128_rev128, Compact.x,
    BitVec.xor_comm k b]

theorem tabDecrypt_eq (k : RoundKeys) (block : BitVec 128) :
    tabDecrypt (tabInv (k.map rev128)) block = Compact.decrypt_block k block := by
  rw [tabInv_eq]
  simp only [tabDecrypt, List.foldl, Compact.decrypt_block]
  simp only [dec_init]
  simp only [dec_step]
  rw [dec_final]

end BC.Kuznyechik
