import BlockCiphers.Impl.AesFixslice32
import Std.Tactic.BVDecide
/-!
A left inverse on the (finite) state type is a right inverse.  Used to get `f ∘ g = id` from the
SAT-checked `g ∘ f = id` for the S-box circuits and the MixColumns variants (the converse miters are
much harder for the SAT solver).  Mathlib-free: pigeonhole on `Nat` by induction.
-/
namespace BC.AesFs32
set_option exponentiation.threshold 1024

theorem nat_surj_of_inj : ∀ (n : Nat) (f : Nat → Nat), (∀ i, i < n → f i < n) →
    (∀ i j, i < n → j < n → f i = f j → i = j) → ∀ k, k < n → ∃ i, i < n ∧ f i = k := by
  intro n
  induction n with
  | zero => intro f _ _ k hk; omega
  | succ n ih =>
    intro f hlt hinj k hk
    have hne : ∀ i, i < n → f i ≠ f n := fun i hi h => by
      have := hinj i n (by omega) (by omega) h; omega
    have hfn := hlt n (by omega)
    have hg_lt : ∀ i, i < n → (if f i < f n then f i else f i - 1) < n := by
      intro i hi; have h1 := hlt i (by omega); have h3 := hne i hi
      split <;> omega
    have hg_inj : ∀ i j, i < n → j < n →
        (if f i < f n then f i else f i - 1) = (if f j < f n then f j else f j - 1) → i = j := by
      intro i j hi hj h
      have := hne i hi; have := hne j hj
      apply hinj i j (by omega) (by omega)
      split at h <;> split at h <;> omega
    by_cases hkm : k = f n
    · exact ⟨n, by omega, hkm.symm⟩
    · by_cases hlt' : k < f n
      · obtain ⟨i, hi, hgi⟩ := ih (fun i => if f i < f n then f i else f i - 1) hg_lt hg_inj k (by omega)
        refine ⟨i, by omega, ?_⟩
        have := hne i hi
        split at hgi <;> omega
      · obtain ⟨i, hi, hgi⟩ := ih (fun i => if f i < f n then f i else f i - 1) hg_lt hg_inj (k - 1) (by omega)
        refine ⟨i, by omega, ?_⟩
        have := hne i hi
        split at hgi <;> omega

theorem right_inv_of_left_inv_of_equiv {α : Type} (N : Nat) (enc : α → Nat) (dec : Nat → α)
    (henc : ∀ a, enc a < N) (hde : ∀ a, dec (enc a) = a) (hed : ∀ i, i < N → enc (dec i) = i)
    (f g : α → α) (h : ∀ a, g (f a) = a) : ∀ a, f (g a) = a := by
  intro a
  obtain ⟨i, _, hFi⟩ := nat_surj_of_inj N (fun i => enc (f (dec i))) (fun i _ => henc _)
    (by
      intro i j hi hj hij
      have h1 : f (dec i) = f (dec j) := by
        have := congrArg dec hij; simpa [hde] using this
      have h2 : dec i = dec j := by
        have := congrArg g h1; simpa [h] using this
      have h3 := congrArg enc h2
      rw [hed i hi, hed j hj] at h3; exact h3)
    (enc a) (henc a)
  have h1 : f (dec i) = a := by
    have := congrArg dec hFi; simpa [hde] using this
  rw [← h1, h]

/-- the 256 state bits as one bit-vector -/
def St.pack (s : St) : BitVec 256 :=
  (s.s0.setWidth 256 <<< 224) ||| (s.s1.setWidth 256 <<< 192) ||| (s.s2.setWidth 256 <<< 160) |||
  (s.s3.setWidth 256 <<< 128) ||| (s.s4.setWidth 256 <<< 96) ||| (s.s5.setWidth 256 <<< 64) |||
  (s.s6.setWidth 256 <<< 32) ||| s.s7.setWidth 256

def St.unpack (x : BitVec 256) : St :=
  ⟨x.extractLsb' 224 32, x.extractLsb' 192 32, x.extractLsb' 160 32, x.extractLsb' 128 32,
   x.extractLsb' 96 32, x.extractLsb' 64 32, x.extractLsb' 32 32, x.extractLsb' 0 32⟩

theorem St.unpack_pack (s : St) : St.unpack (St.pack s) = s := by
  cases s; simp only [St.pack, St.unpack, St.mk.injEq]; bv_decide (config := { timeout := 600 })

theorem St.pack_unpack (x : BitVec 256) : St.pack (St.unpack x) = x := by
  simp only [St.pack, St.unpack]; bv_decide (config := { timeout := 600 })

/-- on `St`, a left inverse is a right inverse -/
theorem St.right_inv_of_left_inv {f g : St → St} (h : ∀ s, g (f s) = s) : ∀ s, f (g s) = s :=
  right_inv_of_left_inv_of_equiv (2 ^ 256) (fun s => (St.pack s).toNat) (fun i => St.unpack (BitVec.ofNat 256 i))
    (fun s => (St.pack s).isLt)
    (fun s => by simp [St.unpack_pack])
    (fun i hi => by simp [St.pack_unpack]; omega)
    f g h

end BC.AesFs32
