import BlockCiphers.Proofs.KuznyechikBackends
import BlockCiphers.Proofs.KuznyechikLStepInv
/-
Kuznyechik — summary theorems (everything is ∀ key : BitVec 256, ∀ block : BitVec 128; no hypothesis).

C01  decryption inverts encryption, both orders, per backend model (compact_soft, big_soft, sse2, neon-model), where
     the decrypting instance uses THAT backend's stored decryption keys (`inv_enc_keys` for the table backends);
C03  the four backend models compute the same encryption and the same decryption;
C07  each of them computes GOST R 34.12-2015 (Spec/Kuznyechik.lean);
C12  `KuznyechikEnc` keys converted into `Kuznyechik` / `KuznyechikDec` keys (`From<KuznyechikEnc>`, `From<&KuznyechikEnc>`,
     which clone and convert) give the functions of fresh construction, per backend;
C04  the multi-block entry points (chunks of ParBlocksSize through `*_par_blocks`, tail block by block) are the map of
     the single-block function, for every number of blocks.
-/
namespace BC.Kuznyechik
open BC.Spec.Kuznyechik

/-! ### C07 -/
namespace Soft
theorem encrypt_eq_spec (key : BitVec 256) (b : BitVec 128) :
    encrypt_block (expand_enc_keys key) b = Spec.Kuznyechik.encrypt key b := by
  rw [encrypt_eq_compact, Compact.encrypt_eq_spec]
theorem decrypt_eq_spec (key : BitVec 256) (b : BitVec 128) :
    decrypt_block (inv_enc_keys (expand_enc_keys key)) b = Spec.Kuznyechik.decrypt key b := by
  rw [decrypt_eq_compact, Compact.decrypt_eq_spec]
end Soft
namespace Sse2
theorem encrypt_eq_spec (key : BitVec 256) (b : BitVec 128) :
    encrypt_block (expand_enc_keys key) b = Spec.Kuznyechik.encrypt key b := by
  rw [encrypt_eq_compact, Compact.encrypt_eq_spec]
theorem decrypt_eq_spec (key : BitVec 256) (b : BitVec 128) :
    decrypt_block (inv_enc_keys (expand_enc_keys key)) b = Spec.Kuznyechik.decrypt key b := by
  rw [decrypt_eq_compact, Compact.decrypt_eq_spec]
end Sse2
namespace Neon
theorem encrypt_eq_spec (key : BitVec 256) (b : BitVec 128) :
    encrypt_block (expand_enc_keys key) b = Spec.Kuznyechik.encrypt key b := by
  rw [encrypt_eq_compact, Compact.encrypt_eq_spec]
theorem decrypt_eq_spec (key : BitVec 256) (b : BitVec 128) :
    decrypt_block (inv_enc_keys (expand_enc_keys key)) b = Spec.Kuznyechik.decrypt key b := by
  rw [decrypt_eq_compact, Compact.decrypt_eq_spec]
end Neon

/-! ### C03: pairwise equality of the backend models -/

/-- C03 (encryption): big_soft = sse2 = neon-model = compact_soft -/
theorem backends_encrypt_agree (key : BitVec 256) (b : BitVec 128) :
    Soft.encrypt_block (Soft.expand_enc_keys key) b = Compact.encrypt_block (Compact.expand key) b ∧
    Sse2.encrypt_block (Sse2.expand_enc_keys key) b = Compact.encrypt_block (Compact.expand key) b ∧
    Neon.encrypt_block (Neon.expand_enc_keys key) b = Compact.encrypt_block (Compact.expand key) b :=
  ⟨Soft.encrypt_eq_compact key b, Sse2.encrypt_eq_compact key b, Neon.encrypt_eq_compact key b⟩

/-- C03 (decryption, each table backend with its own pre-transformed keys) -/
theorem backends_decrypt_agree (key : BitVec 256) (b : BitVec 128) :
    Soft.decrypt_block (Soft.inv_enc_keys (Soft.expand_enc_keys key)) b = Compact.decrypt_block (Compact.expand key) b ∧
    Sse2.decrypt_block (Sse2.inv_enc_keys (Sse2.expand_enc_keys key)) b = Compact.decrypt_block (Compact.expand key) b ∧
    Neon.decrypt_block (Neon.inv_enc_keys (Neon.expand_enc_keys key)) b = Compact.decrypt_block (Compact.expand key) b :=
  ⟨Soft.decrypt_eq_compact key b, Sse2.decrypt_eq_compact key b, Neon.decrypt_eq_compact key b⟩

/-- the three table backends store the same round keys (as 128-bit little-endian values) -/
theorem table_backends_keys_agree (key : BitVec 256) :
    Soft.expand_enc_keys key = Sse2.expand_enc_keys key ∧ Sse2.expand_enc_keys key = Neon.expand_enc_keys key ∧
    Soft.inv_enc_keys (Soft.expand_enc_keys key) = Sse2.inv_enc_keys (Sse2.expand_enc_keys key) ∧
    Sse2.inv_enc_keys (Sse2.expand_enc_keys key) = Neon.inv_enc_keys (Neon.expand_enc_keys key) := by
  simp only [Soft.expand_enc_keys_eq, Sse2.expand_enc_keys_eq, Neon.expand_enc_keys_eq, Soft.inv_enc_keys_eq,
    Sse2.inv_enc_keys_eq, Neon.inv_enc_keys_eq, and_self]

/-- the stored encryption keys of the table backends are the iteration keys K1..K10, byte-reversed; the stored
decryption keys are K10, L⁻¹(K9), …, L⁻¹(K2), K1, byte-reversed -/
theorem table_backends_keys (key : BitVec 256) :
    Soft.expand_enc_keys key = (Compact.expand key).map rev128 ∧
    Soft.inv_enc_keys (Soft.expand_enc_keys key) =
      (let k := Compact.expand key
       ⟨rev128 k.k9, rev128 (Linv k.k8), rev128 (Linv k.k7), rev128 (Linv k.k6), rev128 (Linv k.k5),
        rev128 (Linv k.k4), rev128 (Linv k.k3), rev128 (Linv k.k2), rev128 (Linv k.k1), rev128 k.k0⟩) := by
  rw [Soft.inv_enc_keys_eq, Soft.expand_enc_keys_eq, tabExpand_eq, tabInv_eq]
  exact ⟨rfl, rfl⟩

/-! ### C01 per backend -/
namespace Soft
theorem decrypt_encrypt (key : BitVec 256) (b : BitVec 128) :
    decrypt_block (inv_enc_keys (expand_enc_keys key)) (encrypt_block (expand_enc_keys key) b) = b := by
  rw [decrypt_eq_compact, encrypt_eq_compact, Compact.decrypt_encrypt]
theorem encrypt_decrypt (key : BitVec 256) (b : BitVec 128) :
    encrypt_block (expand_enc_keys key) (decrypt_block (inv_enc_keys (expand_enc_keys key)) b) = b := by
  rw [decrypt_eq_compact, encrypt_eq_compact, Compact.encrypt_decrypt]
end Soft
namespace Sse2
theorem decrypt_encrypt (key : BitVec 256) (b : BitVec 128) :
    decrypt_block (inv_enc_keys (expand_enc_keys key)) (encrypt_block (expand_enc_keys key) b) = b := by
  rw [decrypt_eq_compact, encrypt_eq_compact, Compact.decrypt_encrypt]
theorem encrypt_decrypt (key : BitVec 256) (b : BitVec 128) :
    encrypt_block (expand_enc_keys key) (decrypt_block (inv_enc_keys (expand_enc_keys key)) b) = b := by
  rw [decrypt_eq_compact, encrypt_eq_compact, Compact.encrypt_decrypt]
end Sse2
namespace Neon
theorem decrypt_encrypt (key : BitVec 256) (b : BitVec 128) :
    decrypt_block (inv_enc_keys (expand_enc_keys key)) (encrypt_block (expand_enc_keys key) b) = b := by
  rw [decrypt_eq_compact, encrypt_eq_compact, Compact.decrypt_encrypt]
theorem encrypt_decrypt (key : BitVec 256) (b : BitVec 128) :
    encrypt_block (expand_enc_keys key) (decrypt_block (inv_enc_keys (expand_enc_keys key)) b) = b := by
  rw [decrypt_eq_compact, encrypt_eq_compact, Compact.encrypt_decrypt]
end Neon

/-! ### C12: Enc / Dec / combined key types (lib.rs: `Kuznyechik::new(key) = EncKeys::new(key).into()`,
`KuznyechikDec::new(key) = EncKeys::new(key).into()`, `From<KuznyechikEnc>` / `From<&KuznyechikEnc>` =
`enc.keys.clone().into()`; `Clone` is derived, i.e. the identity on the model values) -/

namespace Compact
/-- conversions keep the round keys: the converted instances run the same functions on the same keys -/
theorem conv_keys (e : EncKeys) : (EncDecKeys.fromEnc e).keys = e.keys ∧ (DecKeys.fromEnc e).keys = e.keys := ⟨rfl, rfl⟩
/-- `Kuznyechik::from(KuznyechikEnc::new(key))` and `KuznyechikDec::from(…)`: decrypting with the converted keys inverts
encrypting with the encrypt-only keys (and with the combined keys) -/
theorem conv_roundtrip (key : BitVec 256) (b : BitVec 128) :
    decrypt_block (DecKeys.fromEnc (EncKeys.new key)).keys (encrypt_block (EncKeys.new key).keys b) = b ∧
    decrypt_block (EncDecKeys.fromEnc (EncKeys.new key)).keys (encrypt_block (EncKeys.new key).keys b) = b ∧
    encrypt_block (EncKeys.new key).keys (decrypt_block (DecKeys.fromEnc (EncKeys.new key)).keys b) = b :=
  ⟨decrypt_encrypt key b, decrypt_encrypt key b, encrypt_decrypt key b⟩
end Compact

namespace Soft
/-- the combined type keeps the encryption keys and stores the same decryption keys as the decrypt-only type -/
theorem conv_keys (e : EncKeys) :
    (EncDecKeys.fromEnc e).enc = e.keys ∧ (EncDecKeys.fromEnc e).dec = (DecKeys.fromEnc e).keys ∧
    (DecKeys.fromEnc e).keys = inv_enc_keys e.keys := ⟨rfl, rfl, rfl⟩
/-- every route to an encrypting / decrypting instance computes the compact (= standard) function -/
theorem conv_enc (key : BitVec 256) (b : BitVec 128) :
    encrypt_block (EncDecKeys.fromEnc (EncKeys.new key)).enc b = Compact.encrypt_block (Compact.expand key) b ∧
    encrypt_block (EncKeys.new key).keys b = Compact.encrypt_block (Compact.expand key) b :=
  ⟨encrypt_eq_compact key b, encrypt_eq_compact key b⟩
theorem conv_dec (key : BitVec 256) (b : BitVec 128) :
    decrypt_block (EncDecKeys.fromEnc (EncKeys.new key)).dec b = Compact.decrypt_block (Compact.expand key) b ∧
    decrypt_block (DecKeys.fromEnc (EncKeys.new key)).keys b = Compact.decrypt_block (Compact.expand key) b :=
  ⟨decrypt_eq_compact key b, decrypt_eq_compact key b⟩
end Soft

namespace Sse2
theorem conv_keys (e : EncKeys) :
    (EncDecKeys.fromEnc e).enc = e.keys ∧ (EncDecKeys.fromEnc e).dec = (DecKeys.fromEnc e).keys ∧
    (DecKeys.fromEnc e).keys = inv_enc_keys e.keys := ⟨rfl, rfl, rfl⟩
theorem conv_enc (key : BitVec 256) (b : BitVec 128) :
    encrypt_block (EncDecKeys.fromEnc (EncKeys.new key)).enc b = Compact.encrypt_block (Compact.expand key) b ∧
    encrypt_block (EncKeys.new key).keys b = Compact.encrypt_block (Compact.expand key) b :=
  ⟨encrypt_eq_compact key b, encrypt_eq_compact key b⟩
theorem conv_dec (key : BitVec 256) (b : BitVec 128) :
    decrypt_block (EncDecKeys.fromEnc (EncKeys.new key)).dec b = Compact.decrypt_block (Compact.expand key) b ∧
    decrypt_block (DecKeys.fromEnc (EncKeys.new key)).keys b = Compact.decrypt_block (Compact.expand key) b :=
  ⟨decrypt_eq_compact key b, decrypt_eq_compact key b⟩
end Sse2

namespace Neon
theorem conv_keys (e : EncKeys) :
    (EncDecKeys.fromEnc e).enc = e.keys ∧ (EncDecKeys.fromEnc e).dec = (DecKeys.fromEnc e).keys ∧
    (DecKeys.fromEnc e).keys = inv_enc_keys e.keys := ⟨rfl, rfl, rfl⟩
theorem conv_enc (key : BitVec 256) (b : BitVec 128) :
    encrypt_block (EncDecKeys.fromEnc (EncKeys.new key)).enc b = Compact.encrypt_block (Compact.expand key) b ∧
    encrypt_block (EncKeys.new key).keys b = Compact.encrypt_block (Compact.expand key) b :=
  ⟨encrypt_eq_compact key b, encrypt_eq_compact key b⟩
theorem conv_dec (key : BitVec 256) (b : BitVec 128) :
    decrypt_block (EncDecKeys.fromEnc (EncKeys.new key)).dec b = Compact.decrypt_block (Compact.expand key) b ∧
    decrypt_block (DecKeys.fromEnc (EncKeys.new key)).keys b = Compact.decrypt_block (Compact.expand key) b :=
  ⟨decrypt_eq_compact key b, decrypt_eq_compact key b⟩
end Neon

/-! ### C04: the multi-block entry points -/

/-- big_soft: `encrypt_blocks` (ParBlocksSize 3) / `decrypt_blocks` (ParBlocksSize 1) -/
theorem Soft.blocks_eq_map (k : RoundKeys) (bs : List (BitVec 128)) :
    procBlocks Soft.parEnc (Soft.encrypt_par_blocks k) (Soft.encrypt_block k) bs = bs.map (Soft.encrypt_block k) ∧
    procBlocks Soft.parDec (fun bs => bs.map (Soft.decrypt_block k)) (Soft.decrypt_block k) bs =
      bs.map (Soft.decrypt_block k) :=
  ⟨procBlocks_eq_map _ _ _ (Soft.encrypt_par_blocks_eq_map k) bs, procBlocks_eq_map _ _ _ (fun _ _ => rfl) bs⟩

/-- sse2: `encrypt_blocks` / `decrypt_blocks` (ParBlocksSize 4) -/
theorem Sse2.blocks_eq_map (k : RoundKeys) (bs : List (BitVec 128)) :
    procBlocks Sse2.parEnc (Sse2.encrypt_par_blocks k) (Sse2.encrypt_block k) bs = bs.map (Sse2.encrypt_block k) ∧
    procBlocks Sse2.parDec (Sse2.decrypt_par_blocks k) (Sse2.decrypt_block k) bs = bs.map (Sse2.decrypt_block k) :=
  ⟨procBlocks_eq_map _ _ _ (Sse2.encrypt_par_blocks_eq_map k) bs,
   procBlocks_eq_map _ _ _ (Sse2.decrypt_par_blocks_eq_map k) bs⟩

/-- neon model: `encrypt_blocks` / `decrypt_blocks` (ParBlocksSize 8) -/
theorem Neon.blocks_eq_map (k : RoundKeys) (bs : List (BitVec 128)) :
    procBlocks Neon.parEnc (Neon.encrypt_par_blocks k) (Neon.encrypt_block k) bs = bs.map (Neon.encrypt_block k) ∧
    procBlocks Neon.parDec (Neon.decrypt_par_blocks k) (Neon.decrypt_block k) bs = bs.map (Neon.decrypt_block k) :=
  ⟨procBlocks_eq_map _ _ _ (Neon.encrypt_par_blocks_eq_map k) bs,
   procBlocks_eq_map _ _ _ (Neon.decrypt_par_blocks_eq_map k) bs⟩

/-- compact_soft: ParBlocksSize 1 -/
theorem Compact.blocks_eq_map (k : RoundKeys) (bs : List (BitVec 128)) :
    procBlocks 1 (fun bs => bs.map (Compact.encrypt_block k)) (Compact.encrypt_block k) bs =
      bs.map (Compact.encrypt_block k) ∧
    procBlocks 1 (fun bs => bs.map (Compact.decrypt_block k)) (Compact.decrypt_block k) bs =
      bs.map (Compact.decrypt_block k) :=
  ⟨procBlocks_eq_map _ _ _ (fun _ _ => rfl) bs, procBlocks_eq_map _ _ _ (fun _ _ => rfl) bs⟩

end BC.Kuznyechik
