import BlockCiphers.Proofs.Basic
import BlockCiphers.Impl.Gift
/-
GIFT-128 (model `Impl/Gift.lean` of /repo/gift): decryption inverts encryption and vice versa (C01), for ARBITRARY
round-key arrays and round-constant arrays (hence for every key), proved from the pieces:
`inv_sbox ∘ sbox = id` on 4×32 bits, every fixed rotation pair is an inverse pair, `unpacking ∘ packing = id` on
128 bits, each of the five round shapes is undone by the inverse round of the same number, lifted over the eight
quintuple rounds.  Plus the C20 facts on `ror`.
-/
namespace BC.Gift

/-! ### C20: `ror` is a rotation for the literal amounts it is called with (8, 16, 20, 24) -/

theorem ror_eq_rotateRight_8 (x : BitVec 32) : ror x 8 = x.rotateRight 8 := by unfold ror; bv_decide
theorem ror_eq_rotateRight_16 (x : BitVec 32) : ror x 16 = x.rotateRight 16 := by unfold ror; bv_decide
theorem ror_eq_rotateRight_20 (x : BitVec 32) : ror x 20 = x.rotateRight 20 := by unfold ror; bv_decide
theorem ror_eq_rotateRight_24 (x : BitVec 32) : ror x 24 = x.rotateRight 24 := by unfold ror; bv_decide

/-- every amount `y` with `0 < y < 32` keeps both shifts of `ror` in range (`y < 32` and `32 - y < 32`) and the
subtraction from underflowing; the call sites use `y ∈ {8, 16, 20, 24}` -/
theorem ror_shift_amounts_in_range : ∀ y ∈ [8, 16, 20, 24], 0 < y ∧ y < 32 ∧ 32 - y < 32 ∧ y ≤ 32 := by decide

/-- for in-range amounts the shift formula is the rotation -/
theorem ror_eq_rotateRight (x : BitVec 32) (y : Nat) (_h0 : 0 < y) (h1 : y < 32) : ror x y = x.rotateRight y := by
  unfold ror
  rw [BitVec.rotateRight_def, Nat.mod_eq_of_lt h1]

/-- the wrapping model of the out-of-contract call `ror(x, 0)`: the Rust panics there in the dev profile
(`x << 32`); in release `x << (32 & 31) = x`, so it would return `x | x = x`.  No call site does this. -/
theorem ror_zero_model (x : BitVec 32) : ror x 0 = x := by unfold ror; bv_decide

/-! ### the S-box circuits -/

/-- `inv_sbox(s3,s1,s2,s0)` after `sbox(s0,s1,s2,s3)` (the argument order of the Rust) restores all four words -/
theorem invSbox_sbox (a b c d : BitVec 32) :
    invSbox (sbox a b c d).s3 (sbox a b c d).s1 (sbox a b c d).s2 (sbox a b c d).s0 = ⟨d, b, c, a⟩ := by
  simp only [sbox, invSbox, St.mk.injEq]; bv_decide

theorem sbox_invSbox (a b c d : BitVec 32) :
    sbox (invSbox a b c d).s3 (invSbox a b c d).s1 (invSbox a b c d).s2 (invSbox a b c d).s0 = ⟨d, b, c, a⟩ := by
  simp only [sbox, invSbox, St.mk.injEq]; bv_decide

/-! ### the fixed rotations come in inverse pairs -/

theorem nibbleRor3_nibbleRor1 (x : BitVec 32) : nibbleRor3 (nibbleRor1 x) = x := by
  unfold nibbleRor3 nibbleRor1; bv_decide
theorem nibbleRor1_nibbleRor3 (x : BitVec 32) : nibbleRor1 (nibbleRor3 x) = x := by
  unfold nibbleRor3 nibbleRor1; bv_decide
theorem nibbleRor2_nibbleRor2 (x : BitVec 32) : nibbleRor2 (nibbleRor2 x) = x := by
  unfold nibbleRor2; bv_decide
theorem halfRor12_halfRor4 (x : BitVec 32) : halfRor12 (halfRor4 x) = x := by
  unfold halfRor12 halfRor4; bv_decide
theorem halfRor4_halfRor12 (x : BitVec 32) : halfRor4 (halfRor12 x) = x := by
  unfold halfRor12 halfRor4; bv_decide
theorem halfRor8_halfRor8 (x : BitVec 32) : halfRor8 (halfRor8 x) = x := by
  unfold halfRor8; bv_decide
theorem byteRor2_byteRor6 (x : BitVec 32) : byteRor2 (byteRor6 x) = x := by
  unfold byteRor2 byteRor6; bv_decide
theorem byteRor6_byteRor2 (x : BitVec 32) : byteRor6 (byteRor2 x) = x := by
  unfold byteRor2 byteRor6; bv_decide
theorem byteRor4_byteRor4 (x : BitVec 32) : byteRor4 (byteRor4 x) = x := by
  unfold byteRor4; bv_decide
theorem ror8_ror24 (x : BitVec 32) : ror (ror x 24) 8 = x := by unfold ror; bv_decide
theorem ror24_ror8 (x : BitVec 32) : ror (ror x 8) 24 = x := by unfold ror; bv_decide
theorem ror16_ror16 (x : BitVec 32) : ror (ror x 16) 16 = x := by unfold ror; bv_decide
theorem swapmovesingle_involutive_55555555 (x : BitVec 32) :
    swapmovesingle (swapmovesingle x 0x55555555#32 1) 0x55555555#32 1 = x := by unfold swapmovesingle; bv_decide
theorem swapmovesingle_involutive_00005555 (x : BitVec 32) :
    swapmovesingle (swapmovesingle x 0x00005555#32 1) 0x00005555#32 1 = x := by unfold swapmovesingle; bv_decide
theorem swapmovesingle_involutive_55550000 (x : BitVec 32) :
    swapmovesingle (swapmovesingle x 0x55550000#32 1) 0x55550000#32 1 = x := by unfold swapmovesingle; bv_decide

/-! ### packing / unpacking -/

theorem unpacking_packing (x : BitVec 128) : unpacking (packing x) = x := by
  simp only [unpacking, packing, unpackMix, packMix, unpackWord, packWord, swapmoveA, swapmoveB, swapmovesingle,
    loadWord, inB, outB]
  bv_decide (config := { timeout := 600 })

theorem packing_unpacking (s : St) : packing (unpacking s) = s := by
  cases s with | mk s0 s1 s2 s3 =>
  simp only [unpacking, packing, unpackMix, packMix, unpackWord, packWord, swapmoveA, swapmoveB, swapmovesingle,
    loadWord, inB, outB, St.mk.injEq]
  bv_decide (config := { timeout := 600 })

/-! ### each round shape is undone by the inverse round of the same number (any key words, any constant) -/

theorem invRound0_round0 (s : St) (ka kb rc : BitVec 32) : invRound0 (round0 s ka kb rc) ka kb rc = s := by
  cases s with | mk s0 s1 s2 s3 =>
  simp only [invRound0, round0, sbox, invSbox, nibbleRor1, nibbleRor2, nibbleRor3, St.mk.injEq]; bv_decide
theorem round0_invRound0 (s : St) (ka kb rc : BitVec 32) : round0 (invRound0 s ka kb rc) ka kb rc = s := by
  cases s with | mk s0 s1 s2 s3 =>
  simp only [invRound0, round0, sbox, invSbox, nibbleRor1, nibbleRor2, nibbleRor3, St.mk.injEq]; bv_decide

theorem invRound1_round1 (s : St) (ka kb rc : BitVec 32) : invRound1 (round1 s ka kb rc) ka kb rc = s := by
  cases s with | mk s0 s1 s2 s3 =>
  simp only [invRound1, round1, sbox, invSbox, halfRor4, halfRor8, halfRor12, St.mk.injEq]; bv_decide
theorem round1_invRound1 (s : St) (ka kb rc : BitVec 32) : round1 (invRound1 s ka kb rc) ka kb rc = s := by
  cases s with | mk s0 s1 s2 s3 =>
  simp only [invRound1, round1, sbox, invSbox, halfRor4, halfRor8, halfRor12, St.mk.injEq]; bv_decide

theorem invRound2_round2 (s : St) (ka kb rc : BitVec 32) : invRound2 (round2 s ka kb rc) ka kb rc = s := by
  cases s with | mk s0 s1 s2 s3 =>
  simp only [invRound2, round2, sbox, invSbox, ror, swapmovesingle, St.mk.injEq]; bv_decide
theorem round2_invRound2 (s : St) (ka kb rc : BitVec 32) : round2 (invRound2 s ka kb rc) ka kb rc = s := by
  cases s with | mk s0 s1 s2 s3 =>
  simp only [invRound2, round2, sbox, invSbox, ror, swapmovesingle, St.mk.injEq]; bv_decide

theorem invRound3_round3 (s : St) (ka kb rc : BitVec 32) : invRound3 (round3 s ka kb rc) ka kb rc = s := by
  cases s with | mk s0 s1 s2 s3 =>
  simp only [invRound3, round3, sbox, invSbox, byteRor2, byteRor4, byteRor6, St.mk.injEq]; bv_decide
theorem round3_invRound3 (s : St) (ka kb rc : BitVec 32) : round3 (invRound3 s ka kb rc) ka kb rc = s := by
  cases s with | mk s0 s1 s2 s3 =>
  simp only [invRound3, round3, sbox, invSbox, byteRor2, byteRor4, byteRor6, St.mk.injEq]; bv_decide

theorem invRound4_round4 (s : St) (ka kb rc : BitVec 32) : invRound4 (round4 s ka kb rc) ka kb rc = s := by
  cases s with | mk s0 s1 s2 s3 =>
  simp only [invRound4, round4, sbox, invSbox, ror, St.mk.injEq]; bv_decide
theorem round4_invRound4 (s : St) (ka kb rc : BitVec 32) : round4 (invRound4 s ka kb rc) ka kb rc = s := by
  cases s with | mk s0 s1 s2 s3 =>
  simp only [invRound4, round4, sbox, invSbox, ror, St.mk.injEq]; bv_decide

theorem swap03_swap03 (s : St) : swap03 (swap03 s) = s := by cases s; rfl

/-! ### quintuple rounds -/

theorem invQuintupleCore_quintupleCore (s : St) (q : QK) : invQuintupleCore (quintupleCore s q) q = s := by
  simp only [invQuintupleCore, quintupleCore, swap03_swap03, invRound4_round4, invRound3_round3, invRound2_round2,
    invRound1_round1, invRound0_round0]

theorem quintupleCore_invQuintupleCore (s : St) (q : QK) : quintupleCore (invQuintupleCore s q) q = s := by
  simp only [invQuintupleCore, quintupleCore, swap03_swap03, round4_invRound4, round3_invRound3, round2_invRound2,
    round1_invRound1, round0_invRound0]

theorem invQuintupleRound_quintupleRound (s : St) (rk : Array (BitVec 32)) (ko : Nat) (rc : Array (BitVec 32))
    (co : Nat) : invQuintupleRound (quintupleRound s rk ko rc co) rk ko rc co = s := by
  simp only [invQuintupleRound, quintupleRound, invQuintupleCore_quintupleCore]

theorem quintupleRound_invQuintupleRound (s : St) (rk : Array (BitVec 32)) (ko : Nat) (rc : Array (BitVec 32))
    (co : Nat) : quintupleRound (invQuintupleRound s rk ko rc co) rk ko rc co = s := by
  simp only [invQuintupleRound, quintupleRound, quintupleCore_invQuintupleCore]

/-! ### C01 -/

/-- `decrypt_block (encrypt_block b) = b` for EVERY round-key array (in particular every `precompute_rkeys key`) -/
theorem decrypt_encrypt_rk (rk : Array (BitVec 32)) (b : BitVec 128) : decrypt rk (encrypt rk b) = b := by
  simp only [decrypt, encrypt, List.foldl, packing_unpacking, invQuintupleRound_quintupleRound, unpacking_packing]

theorem encrypt_decrypt_rk (rk : Array (BitVec 32)) (b : BitVec 128) : encrypt rk (decrypt rk b) = b := by
  simp only [decrypt, encrypt, List.foldl, packing_unpacking, quintupleRound_invQuintupleRound, unpacking_packing]

/-- C01 for `Gift128`: every 16-byte key, every block -/
theorem decrypt_encrypt (key b : BitVec 128) :
    decrypt (precomputeRkeys key) (encrypt (precomputeRkeys key) b) = b := decrypt_encrypt_rk _ b

theorem encrypt_decrypt (key b : BitVec 128) :
    encrypt (precomputeRkeys key) (decrypt (precomputeRkeys key) b) = b := encrypt_decrypt_rk _ b

end BC.Gift
