import BlockCiphers.Spec.Kuznyechik
/-
GOST R 34.12-2015 Annex A.1.4, kernel-evaluated: (K5, K6) = F[C16] … F[C9] (K3, K4).
(One module per pair so that the four evaluations run in parallel.)
-/
namespace BC.Kuznyechik.Kat
open BC.Spec.Kuznyechik

theorem nextPair_kat_2 : nextPair 2 (0xdb31485315694343228d6aef8cc78c44#128, 0x3d4553d8e9cfec6815ebadc40a9ffd04#128) =
    (0x57646468c44a5e28d3e59246f429f1ac#128, 0xbd079435165c6432b532e82834da581b#128) := by decide +kernel

end BC.Kuznyechik.Kat
