import BlockCiphers.Spec.Aes
/-
The 256-entry caches `sboxTable` / `invSboxTable` of `Spec/Aes.lean` agree with the computed S-box
(GF(2^8) inverse followed by the affine map) on all 256 inputs.  Kernel evaluation only.
-/
namespace BC.Spec.Aes

/-- a property of all bytes from its 256 instances -/
theorem forall_bv8 {P : BitVec 8 → Prop} (h : ∀ i : Fin 256, P (BitVec.ofFin i)) (x : BitVec 8) : P x :=
  h x.toFin

set_option maxRecDepth 100000 in
theorem sboxT_eq (x : BitVec 8) : sboxT x = sbox x :=
  forall_bv8 (P := fun x => sboxT x = sbox x) (by decide +kernel) x

set_option maxRecDepth 100000 in
theorem invSboxT_eq (x : BitVec 8) : invSboxT x = invSbox x :=
  forall_bv8 (P := fun x => invSboxT x = invSbox x) (by decide +kernel) x

end BC.Spec.Aes
