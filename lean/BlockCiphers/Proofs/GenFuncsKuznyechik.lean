import BlockCiphers.Gen.Cipher_Kuznyechik_fn
import BlockCiphers.Proofs.GenCipherKuznyechik
/-!
Ties of the helper functions of Kuznyechik's compact software backend, regenerated as functions of their own
(`Gen/Cipher_Kuznyechik_fn.lean`): `l_step(msg, i)` of /repo/kuznyechik/src/utils.rs for the sixteen values of `i`, `lsx` and
`lsx_inv` of compact_soft/backends.rs.  Blocks are `BitVec 128` memory images (byte 0 = most significant byte).  For ALL inputs

    Gen.Fn.kuznyechik_l_step_<i> msg          = Kuznyechik.l_step msg i
    Gen.Fn.kuznyechik_compact_lsx block key     = Compact.lsx block key
    Gen.Fn.kuznyechik_compact_lsx_inv block key = Compact.lsx_inv block key

Proof: kernel-checked definitional equality with the byte-level functions of Proofs/GenKuznyechikBytes.lean, then their
`…_pack` lemmas; every generated function carries its own copy of the computed GF tables / `P_INV`, identified with those of
`encrypt_block` / `decrypt_block` (Proofs/GenCipherKuznyechik.lean) by comparing the array literals.
-/
set_option maxRecDepth 100000
namespace BC.GenCipher.Kuznyechik
open BC BC.Kuznyechik BC.Gen.Fn

theorem ls0_t0 : kuznyechik_l_step_0_tbl0 = kuznyechik_compact_encrypt_block_tbl0 := rfl
theorem ls0_t1 : kuznyechik_l_step_0_tbl1 = kuznyechik_compact_encrypt_block_tbl1 := rfl
theorem ls0_t2 : kuznyechik_l_step_0_tbl2 = kuznyechik_compact_encrypt_block_tbl2 := rfl
theorem ls0_t3 : kuznyechik_l_step_0_tbl3 = kuznyechik_compact_encrypt_block_tbl3 := rfl
theorem ls0_t4 : kuznyechik_l_step_0_tbl4 = kuznyechik_compact_encrypt_block_tbl4 := rfl
theorem ls0_t5 : kuznyechik_l_step_0_tbl5 = kuznyechik_compact_encrypt_block_tbl5 := rfl
theorem ls0_t6 : kuznyechik_l_step_0_tbl6 = kuznyechik_compact_encrypt_block_tbl6 := rfl
theorem ls0_gf : GfOK kuznyechik_l_step_0_tbl0 kuznyechik_l_step_0_tbl1 kuznyechik_l_step_0_tbl2 kuznyechik_l_step_0_tbl3 kuznyechik_l_step_0_tbl4 kuznyechik_l_step_0_tbl5 kuznyechik_l_step_0_tbl6 := by
  rw [ls0_t0, ls0_t1, ls0_t2, ls0_t3, ls0_t4, ls0_t5, ls0_t6]; exact gfE

/-- the regenerated `l_step(msg, 0)` is the model's -/
theorem kuznyechik_l_step_0_eq (msg : BitVec 128) : kuznyechik_l_step_0 msg = l_step msg 0 := by
  have h : kuznyechik_l_step_0 msg = (lstepB0 kuznyechik_l_step_0_tbl0 kuznyechik_l_step_0_tbl1 kuznyechik_l_step_0_tbl2 kuznyechik_l_step_0_tbl3 kuznyechik_l_step_0_tbl4 kuznyechik_l_step_0_tbl5 kuznyechik_l_step_0_tbl6 (unpackB msg)).pack := by kuz_kernel_rfl
  rw [h, lstepB0_pack _ _ _ _ _ _ _ ls0_gf, pack_unpack]

theorem ls1_t0 : kuznyechik_l_step_1_tbl0 = kuznyechik_compact_encrypt_block_tbl0 := rfl
theorem ls1_t1 : kuznyechik_l_step_1_tbl1 = kuznyechik_compact_encrypt_block_tbl1 := rfl
theorem ls1_t2 : kuznyechik_l_step_1_tbl2 = kuznyechik_compact_encrypt_block_tbl2 := rfl
theorem ls1_t3 : kuznyechik_l_step_1_tbl3 = kuznyechik_compact_encrypt_block_tbl3 := rfl
theorem ls1_t4 : kuznyechik_l_step_1_tbl4 = kuznyechik_compact_encrypt_block_tbl4 := rfl
theorem ls1_t5 : kuznyechik_l_step_1_tbl5 = kuznyechik_compact_encrypt_block_tbl5 := rfl
theorem ls1_t6 : kuznyechik_l_step_1_tbl6 = kuznyechik_compact_encrypt_block_tbl6 := rfl
theorem ls1_gf : GfOK kuznyechik_l_step_1_tbl0 kuznyechik_l_step_1_tbl1 kuznyechik_l_step_1_tbl2 kuznyechik_l_step_1_tbl3 kuznyechik_l_step_1_tbl4 kuznyechik_l_step_1_tbl5 kuznyechik_l_step_1_tbl6 := by
  rw [ls1_t0, ls1_t1, ls1_t2, ls1_t3, ls1_t4, ls1_t5, ls1_t6]; exact gfE

/-- the regenerated `l_step(msg, 1)` is the model's -/
theorem kuznyechik_l_step_1_eq (msg : BitVec 128) : kuznyechik_l_step_1 msg = l_step msg 1 := by
  have h : kuznyechik_l_step_1 msg = (lstepB1 kuznyechik_l_step_1_tbl0 kuznyechik_l_step_1_tbl1 kuznyechik_l_step_1_tbl2 kuznyechik_l_step_1_tbl3 kuznyechik_l_step_1_tbl4 kuznyechik_l_step_1_tbl5 kuznyechik_l_step_1_tbl6 (unpackB msg)).pack := by kuz_kernel_rfl
  rw [h, lstepB1_pack _ _ _ _ _ _ _ ls1_gf, pack_unpack]

theorem ls2_t0 : kuznyechik_l_step_2_tbl0 = kuznyechik_compact_encrypt_block_tbl0 := rfl
theorem ls2_t1 : kuznyechik_l_step_2_tbl1 = kuznyechik_compact_encrypt_block_tbl1 := rfl
theorem ls2_t2 : kuznyechik_l_step_2_tbl2 = kuznyechik_compact_encrypt_block_tbl2 := rfl
theorem ls2_t3 : kuznyechik_l_step_2_tbl3 = kuznyechik_compact_encrypt_block_tbl3 := rfl
theorem ls2_t4 : kuznyechik_l_step_2_tbl4 = kuznyechik_compact_encrypt_block_tbl4 := rfl
theorem ls2_t5 : kuznyechik_l_step_2_tbl5 = kuznyechik_compact_encrypt_block_tbl5 := rfl
theorem ls2_t6 : kuznyechik_l_step_2_tbl6 = kuznyechik_compact_encrypt_block_tbl6 := rfl
theorem ls2_gf : GfOK kuznyechik_l_step_2_tbl0 kuznyechik_l_step_2_tbl1 kuznyechik_l_step_2_tbl2 kuznyechik_l_step_2_tbl3 kuznyechik_l_step_2_tbl4 kuznyechik_l_step_2_tbl5 kuznyechik_l_step_2_tbl6 := by
  rw [ls2_t0, ls2_t1, ls2_t2, ls2_t3, ls2_t4, ls2_t5, ls2_t6]; exact gfE

/-- the regenerated `l_step(msg, 2)` is the model's -/
theorem kuznyechik_l_step_2_eq (msg : BitVec 128) : kuznyechik_l_step_2 msg = l_step msg 2 := by
  have h : kuznyechik_l_step_2 msg = (lstepB2 kuznyechik_l_step_2_tbl0 kuznyechik_l_step_2_tbl1 kuznyechik_l_step_2_tbl2 kuznyechik_l_step_2_tbl3 kuznyechik_l_step_2_tbl4 kuznyechik_l_step_2_tbl5 kuznyechik_l_step_2_tbl6 (unpackB msg)).pack := by kuz_kernel_rfl
  rw [h, lstepB2_pack _ _ _ _ _ _ _ ls2_gf, pack_unpack]

theorem ls3_t0 : kuznyechik_l_step_3_tbl0 = kuznyechik_compact_encrypt_block_tbl0 := rfl
theorem ls3_t1 : kuznyechik_l_step_3_tbl1 = kuznyechik_compact_encrypt_block_tbl1 := rfl
theorem ls3_t2 : kuznyechik_l_step_3_tbl2 = kuznyechik_compact_encrypt_block_tbl2 := rfl
theorem ls3_t3 : kuznyechik_l_step_3_tbl3 = kuznyechik_compact_encrypt_block_tbl3 := rfl
theorem ls3_t4 : kuznyechik_l_step_3_tbl4 = kuznyechik_compact_encrypt_block_tbl4 := rfl
theorem ls3_t5 : kuznyechik_l_step_3_tbl5 = kuznyechik_compact_encrypt_block_tbl5 := rfl
theorem ls3_t6 : kuznyechik_l_step_3_tbl6 = kuznyechik_compact_encrypt_block_tbl6 := rfl
theorem ls3_gf : GfOK kuznyechik_l_step_3_tbl0 kuznyechik_l_step_3_tbl1 kuznyechik_l_step_3_tbl2 kuznyechik_l_step_3_tbl3 kuznyechik_l_step_3_tbl4 kuznyechik_l_step_3_tbl5 kuznyechik_l_step_3_tbl6 := by
  rw [ls3_t0, ls3_t1, ls3_t2, ls3_t3, ls3_t4, ls3_t5, ls3_t6]; exact gfE

/-- the regenerated `l_step(msg, 3)` is the model's -/
theorem kuznyechik_l_step_3_eq (msg : BitVec 128) : kuznyechik_l_step_3 msg = l_step msg 3 := by
  have h : kuznyechik_l_step_3 msg = (lstepB3 kuznyechik_l_step_3_tbl0 kuznyechik_l_step_3_tbl1 kuznyechik_l_step_3_tbl2 kuznyechik_l_step_3_tbl3 kuznyechik_l_step_3_tbl4 kuznyechik_l_step_3_tbl5 kuznyechik_l_step_3_tbl6 (unpackB msg)).pack := by kuz_kernel_rfl
  rw [h, lstepB3_pack _ _ _ _ _ _ _ ls3_gf, pack_unpack]

theorem ls4_t0 : kuznyechik_l_step_4_tbl0 = kuznyechik_compact_encrypt_block_tbl0 := rfl
theorem ls4_t1 : kuznyechik_l_step_4_tbl1 = kuznyechik_compact_encrypt_block_tbl1 := rfl
theorem ls4_t2 : kuznyechik_l_step_4_tbl2 = kuznyechik_compact_encrypt_block_tbl2 := rfl
theorem ls4_t3 : kuznyechik_l_step_4_tbl3 = kuznyechik_compact_encrypt_block_tbl3 := rfl
theorem ls4_t4 : kuznyechik_l_step_4_tbl4 = kuznyechik_compact_encrypt_block_tbl4 := rfl
theorem ls4_t5 : kuznyechik_l_step_4_tbl5 = kuznyechik_compact_encrypt_block_tbl5 := rfl
theorem ls4_t6 : kuznyechik_l_step_4_tbl6 = kuznyechik_compact_encrypt_block_tbl6 := rfl
theorem ls4_gf : GfOK kuznyechik_l_step_4_tbl0 kuznyechik_l_step_4_tbl1 kuznyechik_l_step_4_tbl2 kuznyechik_l_step_4_tbl3 kuznyechik_l_step_4_tbl4 kuznyechik_l_step_4_tbl5 kuznyechik_l_step_4_tbl6 := by
  rw [ls4_t0, ls4_t1, ls4_t2, ls4_t3, ls4_t4, ls4_t5, ls4_t6]; exact gfE

/-- the regenerated `l_step(msg, 4)` is the model's -/
theorem kuznyechik_l_step_4_eq (msg : BitVec 128) : kuznyechik_l_step_4 msg = l_step msg 4 := by
  have h : kuznyechik_l_step_4 msg = (lstepB4 kuznyechik_l_step_4_tbl0 kuznyechik_l_step_4_tbl1 kuznyechik_l_step_4_tbl2 kuznyechik_l_step_4_tbl3 kuznyechik_l_step_4_tbl4 kuznyechik_l_step_4_tbl5 kuznyechik_l_step_4_tbl6 (unpackB msg)).pack := by kuz_kernel_rfl
  rw [h, lstepB4_pack _ _ _ _ _ _ _ ls4_gf, pack_unpack]

theorem ls5_t0 : kuznyechik_l_step_5_tbl0 = kuznyechik_compact_encrypt_block_tbl0 := rfl
theorem ls5_t1 : kuznyechik_l_step_5_tbl1 = kuznyechik_compact_encrypt_block_tbl1 := rfl
theorem ls5_t2 : kuznyechik_l_step_5_tbl2 = kuznyechik_compact_encrypt_block_tbl2 := rfl
theorem ls5_t3 : kuznyechik_l_step_5_tbl3 = kuznyechik_compact_encrypt_block_tbl3 := rfl
theorem ls5_t4 : kuznyechik_l_step_5_tbl4 = kuznyechik_compact_encrypt_block_tbl4 := rfl
theorem ls5_t5 : kuznyechik_l_step_5_tbl5 = kuznyechik_compact_encrypt_block_tbl5 := rfl
theorem ls5_t6 : kuznyechik_l_step_5_tbl6 = kuznyechik_compact_encrypt_block_tbl6 := rfl
theorem ls5_gf : GfOK kuznyechik_l_step_5_tbl0 kuznyechik_l_step_5_tbl1 kuznyechik_l_step_5_tbl2 kuznyechik_l_step_5_tbl3 kuznyechik_l_step_5_tbl4 kuznyechik_l_step_5_tbl5 kuznyechik_l_step_5_tbl6 := by
  rw [ls5_t0, ls5_t1, ls5_t2, ls5_t3, ls5_t4, ls5_t5, ls5_t6]; exact gfE

/-- the regenerated `l_step(msg, 5)` is the model's -/
theorem kuznyechik_l_step_5_eq (msg : BitVec 128) : kuznyechik_l_step_5 msg = l_step msg 5 := by
  have h : kuznyechik_l_step_5 msg = (lstepB5 kuznyechik_l_step_5_tbl0 kuznyechik_l_step_5_tbl1 kuznyechik_l_step_5_tbl2 kuznyechik_l_step_5_tbl3 kuznyechik_l_step_5_tbl4 kuznyechik_l_step_5_tbl5 kuznyechik_l_step_5_tbl6 (unpackB msg)).pack := by kuz_kernel_rfl
  rw [h, lstepB5_pack _ _ _ _ _ _ _ ls5_gf, pack_unpack]

theorem ls6_t0 : kuznyechik_l_step_6_tbl0 = kuznyechik_compact_encrypt_block_tbl0 := rfl
theorem ls6_t1 : kuznyechik_l_step_6_tbl1 = kuznyechik_compact_encrypt_block_tbl1 := rfl
theorem ls6_t2 : kuznyechik_l_step_6_tbl2 = kuznyechik_compact_encrypt_block_tbl2 := rfl
theorem ls6_t3 : kuznyechik_l_step_6_tbl3 = kuznyechik_compact_encrypt_block_tbl3 := rfl
theorem ls6_t4 : kuznyechik_l_step_6_tbl4 = kuznyechik_compact_encrypt_block_tbl4 := rfl
theorem ls6_t5 : kuznyechik_l_step_6_tbl5 = kuznyechik_compact_encrypt_block_tbl5 := rfl
theorem ls6_t6 : kuznyechik_l_step_6_tbl6 = kuznyechik_compact_encrypt_block_tbl6 := rfl
theorem ls6_gf : GfOK kuznyechik_l_step_6_tbl0 kuznyechik_l_step_6_tbl1 kuznyechik_l_step_6_tbl2 kuznyechik_l_step_6_tbl3 kuznyechik_l_step_6_tbl4 kuznyechik_l_step_6_tbl5 kuznyechik_l_step_6_tbl6 := by
  rw [ls6_t0, ls6_t1, ls6_t2, ls6_t3, ls6_t4, ls6_t5, ls6_t6]; exact gfE

/-- the regenerated `l_step(msg, 6)` is the model's -/
theorem kuznyechik_l_step_6_eq (msg : BitVec 128) : kuznyechik_l_step_6 msg = l_step msg 6 := by
  have h : kuznyechik_l_step_6 msg = (lstepB6 kuznyechik_l_step_6_tbl0 kuznyechik_l_step_6_tbl1 kuznyechik_l_step_6_tbl2 kuznyechik_l_step_6_tbl3 kuznyechik_l_step_6_tbl4 kuznyechik_l_step_6_tbl5 kuznyechik_l_step_6_tbl6 (unpackB msg)).pack := by kuz_kernel_rfl
  rw [h, lstepB6_pack _ _ _ _ _ _ _ ls6_gf, pack_unpack]

theorem ls7_t0 : kuznyechik_l_step_7_tbl0 = kuznyechik_compact_encrypt_block_tbl0 := rfl
theorem ls7_t1 : kuznyechik_l_step_7_tbl1 = kuznyechik_compact_encrypt_block_tbl1 := rfl
theorem ls7_t2 : kuznyechik_l_step_7_tbl2 = kuznyechik_compact_encrypt_block_tbl2 := rfl
theorem ls7_t3 : kuznyechik_l_step_7_tbl3 = kuznyechik_compact_encrypt_block_tbl3 := rfl
theorem ls7_t4 : kuznyechik_l_step_7_tbl4 = kuznyechik_compact_encrypt_block_tbl4 := rfl
theorem ls7_t5 : kuznyechik_l_step_7_tbl5 = kuznyechik_compact_encrypt_block_tbl5 := rfl
theorem ls7_t6 : kuznyechik_l_step_7_tbl6 = kuznyechik_compact_encrypt_block_tbl6 := rfl
theorem ls7_gf : GfOK kuznyechik_l_step_7_tbl0 kuznyechik_l_step_7_tbl1 kuznyechik_l_step_7_tbl2 kuznyechik_l_step_7_tbl3 kuznyechik_l_step_7_tbl4 kuznyechik_l_step_7_tbl5 kuznyechik_l_step_7_tbl6 := by
  rw [ls7_t0, ls7_t1, ls7_t2, ls7_t3, ls7_t4, ls7_t5, ls7_t6]; exact gfE

/-- the regenerated `l_step(msg, 7)` is the model's -/
theorem kuznyechik_l_step_7_eq (msg : BitVec 128) : kuznyechik_l_step_7 msg = l_step msg 7 := by
  have h : kuznyechik_l_step_7 msg = (lstepB7 kuznyechik_l_step_7_tbl0 kuznyechik_l_step_7_tbl1 kuznyechik_l_step_7_tbl2 kuznyechik_l_step_7_tbl3 kuznyechik_l_step_7_tbl4 kuznyechik_l_step_7_tbl5 kuznyechik_l_step_7_tbl6 (unpackB msg)).pack := by kuz_kernel_rfl
  rw [h, lstepB7_pack _ _ _ _ _ _ _ ls7_gf, pack_unpack]

theorem ls8_t0 : kuznyechik_l_step_8_tbl0 = kuznyechik_compact_encrypt_block_tbl0 := rfl
theorem ls8_t1 : kuznyechik_l_step_8_tbl1 = kuznyechik_compact_encrypt_block_tbl1 := rfl
theorem ls8_t2 : kuznyechik_l_step_8_tbl2 = kuznyechik_compact_encrypt_block_tbl2 := rfl
theorem ls8_t3 : kuznyechik_l_step_8_tbl3 = kuznyechik_compact_encrypt_block_tbl3 := rfl
theorem ls8_t4 : kuznyechik_l_step_8_tbl4 = kuznyechik_compact_encrypt_block_tbl4 := rfl
theorem ls8_t5 : kuznyechik_l_step_8_tbl5 = kuznyechik_compact_encrypt_block_tbl5 := rfl
theorem ls8_t6 : kuznyechik_l_step_8_tbl6 = kuznyechik_compact_encrypt_block_tbl6 := rfl
theorem ls8_gf : GfOK kuznyechik_l_step_8_tbl0 kuznyechik_l_step_8_tbl1 kuznyechik_l_step_8_tbl2 kuznyechik_l_step_8_tbl3 kuznyechik_l_step_8_tbl4 kuznyechik_l_step_8_tbl5 kuznyechik_l_step_8_tbl6 := by
  rw [ls8_t0, ls8_t1, ls8_t2, ls8_t3, ls8_t4, ls8_t5, ls8_t6]; exact gfE

/-- the regenerated `l_step(msg, 8)` is the model's -/
theorem kuznyechik_l_step_8_eq (msg : BitVec 128) : kuznyechik_l_step_8 msg = l_step msg 8 := by
  have h : kuznyechik_l_step_8 msg = (lstepB8 kuznyechik_l_step_8_tbl0 kuznyechik_l_step_8_tbl1 kuznyechik_l_step_8_tbl2 kuznyechik_l_step_8_tbl3 kuznyechik_l_step_8_tbl4 kuznyechik_l_step_8_tbl5 kuznyechik_l_step_8_tbl6 (unpackB msg)).pack := by kuz_kernel_rfl
  rw [h, lstepB8_pack _ _ _ _ _ _ _ ls8_gf, pack_unpack]

theorem ls9_t0 : kuznyechik_l_step_9_tbl0 = kuznyechik_compact_encrypt_block_tbl0 := rfl
theorem ls9_t1 : kuznyechik_l_step_9_tbl1 = kuznyechik_compact_encrypt_block_tbl1 := rfl
theorem ls9_t2 : kuznyechik_l_step_9_tbl2 = kuznyechik_compact_encrypt_block_tbl2 := rfl
theorem ls9_t3 : kuznyechik_l_step_9_tbl3 = kuznyechik_compact_encrypt_block_tbl3 := rfl
theorem ls9_t4 : kuznyechik_l_step_9_tbl4 = kuznyechik_compact_encrypt_block_tbl4 := rfl
theorem ls9_t5 : kuznyechik_l_step_9_tbl5 = kuznyechik_compact_encrypt_block_tbl5 := rfl
theorem ls9_t6 : kuznyechik_l_step_9_tbl6 = kuznyechik_compact_encrypt_block_tbl6 := rfl
theorem ls9_gf : GfOK kuznyechik_l_step_9_tbl0 kuznyechik_l_step_9_tbl1 kuznyechik_l_step_9_tbl2 kuznyechik_l_step_9_tbl3 kuznyechik_l_step_9_tbl4 kuznyechik_l_step_9_tbl5 kuznyechik_l_step_9_tbl6 := by
  rw [ls9_t0, ls9_t1, ls9_t2, ls9_t3, ls9_t4, ls9_t5, ls9_t6]; exact gfE

/-- the regenerated `l_step(msg, 9)` is the model's -/
theorem kuznyechik_l_step_9_eq (msg : BitVec 128) : kuznyechik_l_step_9 msg = l_step msg 9 := by
  have h : kuznyechik_l_step_9 msg = (lstepB9 kuznyechik_l_step_9_tbl0 kuznyechik_l_step_9_tbl1 kuznyechik_l_step_9_tbl2 kuznyechik_l_step_9_tbl3 kuznyechik_l_step_9_tbl4 kuznyechik_l_step_9_tbl5 kuznyechik_l_step_9_tbl6 (unpackB msg)).pack := by kuz_kernel_rfl
  rw [h, lstepB9_pack _ _ _ _ _ _ _ ls9_gf, pack_unpack]

theorem ls10_t0 : kuznyechik_l_step_10_tbl0 = kuznyechik_compact_encrypt_block_tbl0 := rfl
theorem ls10_t1 : kuznyechik_l_step_10_tbl1 = kuznyechik_compact_encrypt_block_tbl1 := rfl
theorem ls10_t2 : kuznyechik_l_step_10_tbl2 = kuznyechik_compact_encrypt_block_tbl2 := rfl
theorem ls10_t3 : kuznyechik_l_step_10_tbl3 = kuznyechik_compact_encrypt_block_tbl3 := rfl
theorem ls10_t4 : kuznyechik_l_step_10_tbl4 = kuznyechik_compact_encrypt_block_tbl4 := rfl
theorem ls10_t5 : kuznyechik_l_step_10_tbl5 = kuznyechik_compact_encrypt_block_tbl5 := rfl
theorem ls10_t6 : kuznyechik_l_step_10_tbl6 = kuznyechik_compact_encrypt_block_tbl6 := rfl
theorem ls10_gf : GfOK kuznyechik_l_step_10_tbl0 kuznyechik_l_step_10_tbl1 kuznyechik_l_step_10_tbl2 kuznyechik_l_step_10_tbl3 kuznyechik_l_step_10_tbl4 kuznyechik_l_step_10_tbl5 kuznyechik_l_step_10_tbl6 := by
  rw [ls10_t0, ls10_t1, ls10_t2, ls10_t3, ls10_t4, ls10_t5, ls10_t6]; exact gfE

/-- the regenerated `l_step(msg, 10)` is the model's -/
theorem kuznyechik_l_step_10_eq (msg : BitVec 128) : kuznyechik_l_step_10 msg = l_step msg 10 := by
  have h : kuznyechik_l_step_10 msg = (lstepB10 kuznyechik_l_step_10_tbl0 kuznyechik_l_step_10_tbl1 kuznyechik_l_step_10_tbl2 kuznyechik_l_step_10_tbl3 kuznyechik_l_step_10_tbl4 kuznyechik_l_step_10_tbl5 kuznyechik_l_step_10_tbl6 (unpackB msg)).pack := by kuz_kernel_rfl
  rw [h, lstepB10_pack _ _ _ _ _ _ _ ls10_gf, pack_unpack]

theorem ls11_t0 : kuznyechik_l_step_11_tbl0 = kuznyechik_compact_encrypt_block_tbl0 := rfl
theorem ls11_t1 : kuznyechik_l_step_11_tbl1 = kuznyechik_compact_encrypt_block_tbl1 := rfl
theorem ls11_t2 : kuznyechik_l_step_11_tbl2 = kuznyechik_compact_encrypt_block_tbl2 := rfl
theorem ls11_t3 : kuznyechik_l_step_11_tbl3 = kuznyechik_compact_encrypt_block_tbl3 := rfl
theorem ls11_t4 : kuznyechik_l_step_11_tbl4 = kuznyechik_compact_encrypt_block_tbl4 := rfl
theorem ls11_t5 : kuznyechik_l_step_11_tbl5 = kuznyechik_compact_encrypt_block_tbl5 := rfl
theorem ls11_t6 : kuznyechik_l_step_11_tbl6 = kuznyechik_compact_encrypt_block_tbl6 := rfl
theorem ls11_gf : GfOK kuznyechik_l_step_11_tbl0 kuznyechik_l_step_11_tbl1 kuznyechik_l_step_11_tbl2 kuznyechik_l_step_11_tbl3 kuznyechik_l_step_11_tbl4 kuznyechik_l_step_11_tbl5 kuznyechik_l_step_11_tbl6 := by
  rw [ls11_t0, ls11_t1, ls11_t2, ls11_t3, ls11_t4, ls11_t5, ls11_t6]; exact gfE

/-- the regenerated `l_step(msg, 11)` is the model's -/
theorem kuznyechik_l_step_11_eq (msg : BitVec 128) : kuznyechik_l_step_11 msg = l_step msg 11 := by
  have h : kuznyechik_l_step_11 msg = (lstepB11 kuznyechik_l_step_11_tbl0 kuznyechik_l_step_11_tbl1 kuznyechik_l_step_11_tbl2 kuznyechik_l_step_11_tbl3 kuznyechik_l_step_11_tbl4 kuznyechik_l_step_11_tbl5 kuznyechik_l_step_11_tbl6 (unpackB msg)).pack := by kuz_kernel_rfl
  rw [h, lstepB11_pack _ _ _ _ _ _ _ ls11_gf, pack_unpack]

theorem ls12_t0 : kuznyechik_l_step_12_tbl0 = kuznyechik_compact_encrypt_block_tbl0 := rfl
theorem ls12_t1 : kuznyechik_l_step_12_tbl1 = kuznyechik_compact_encrypt_block_tbl1 := rfl
theorem ls12_t2 : kuznyechik_l_step_12_tbl2 = kuznyechik_compact_encrypt_block_tbl2 := rfl
theorem ls12_t3 : kuznyechik_l_step_12_tbl3 = kuznyechik_compact_encrypt_block_tbl3 := rfl
theorem ls12_t4 : kuznyechik_l_step_12_tbl4 = kuznyechik_compact_encrypt_block_tbl4 := rfl
theorem ls12_t5 : kuznyechik_l_step_12_tbl5 = kuznyechik_compact_encrypt_block_tbl5 := rfl
theorem ls12_t6 : kuznyechik_l_step_12_tbl6 = kuznyechik_compact_encrypt_block_tbl6 := rfl
theorem ls12_gf : GfOK kuznyechik_l_step_12_tbl0 kuznyechik_l_step_12_tbl1 kuznyechik_l_step_12_tbl2 kuznyechik_l_step_12_tbl3 kuznyechik_l_step_12_tbl4 kuznyechik_l_step_12_tbl5 kuznyechik_l_step_12_tbl6 := by
  rw [ls12_t0, ls12_t1, ls12_t2, ls12_t3, ls12_t4, ls12_t5, ls12_t6]; exact gfE

/-- the regenerated `l_step(msg, 12)` is the model's -/
theorem kuznyechik_l_step_12_eq (msg : BitVec 128) : kuznyechik_l_step_12 msg = l_step msg 12 := by
  have h : kuznyechik_l_step_12 msg = (lstepB12 kuznyechik_l_step_12_tbl0 kuznyechik_l_step_12_tbl1 kuznyechik_l_step_12_tbl2 kuznyechik_l_step_12_tbl3 kuznyechik_l_step_12_tbl4 kuznyechik_l_step_12_tbl5 kuznyechik_l_step_12_tbl6 (unpackB msg)).pack := by kuz_kernel_rfl
  rw [h, lstepB12_pack _ _ _ _ _ _ _ ls12_gf, pack_unpack]

theorem ls13_t0 : kuznyechik_l_step_13_tbl0 = kuznyechik_compact_encrypt_block_tbl0 := rfl
theorem ls13_t1 : kuznyechik_l_step_13_tbl1 = kuznyechik_compact_encrypt_block_tbl1 := rfl
theorem ls13_t2 : kuznyechik_l_step_13_tbl2 = kuznyechik_compact_encrypt_block_tbl2 := rfl
theorem ls13_t3 : kuznyechik_l_step_13_tbl3 = kuznyechik_compact_encrypt_block_tbl3 := rfl
theorem ls13_t4 : kuznyechik_l_step_13_tbl4 = kuznyechik_compact_encrypt_block_tbl4 := rfl
theorem ls13_t5 : kuznyechik_l_step_13_tbl5 = kuznyechik_compact_encrypt_block_tbl5 := rfl
theorem ls13_t6 : kuznyechik_l_step_13_tbl6 = kuznyechik_compact_encrypt_block_tbl6 := rfl
theorem ls13_gf : GfOK kuznyechik_l_step_13_tbl0 kuznyechik_l_step_13_tbl1 kuznyechik_l_step_13_tbl2 kuznyechik_l_step_13_tbl3 kuznyechik_l_step_13_tbl4 kuznyechik_l_step_13_tbl5 kuznyechik_l_step_13_tbl6 := by
  rw [ls13_t0, ls13_t1, ls13_t2, ls13_t3, ls13_t4, ls13_t5, ls13_t6]; exact gfE

/-- the regenerated `l_step(msg, 13)` is the model's -/
theorem kuznyechik_l_step_13_eq (msg : BitVec 128) : kuznyechik_l_step_13 msg = l_step msg 13 := by
  have h : kuznyechik_l_step_13 msg = (lstepB13 kuznyechik_l_step_13_tbl0 kuznyechik_l_step_13_tbl1 kuznyechik_l_step_13_tbl2 kuznyechik_l_step_13_tbl3 kuznyechik_l_step_13_tbl4 kuznyechik_l_step_13_tbl5 kuznyechik_l_step_13_tbl6 (unpackB msg)).pack := by kuz_kernel_rfl
  rw [h, lstepB13_pack _ _ _ _ _ _ _ ls13_gf, pack_unpack]

theorem ls14_t0 : kuznyechik_l_step_14_tbl0 = kuznyechik_compact_encrypt_block_tbl0 := rfl
theorem ls14_t1 : kuznyechik_l_step_14_tbl1 = kuznyechik_compact_encrypt_block_tbl1 := rfl
theorem ls14_t2 : kuznyechik_l_step_14_tbl2 = kuznyechik_compact_encrypt_block_tbl2 := rfl
theorem ls14_t3 : kuznyechik_l_step_14_tbl3 = kuznyechik_compact_encrypt_block_tbl3 := rfl
theorem ls14_t4 : kuznyechik_l_step_14_tbl4 = kuznyechik_compact_encrypt_block_tbl4 := rfl
theorem ls14_t5 : kuznyechik_l_step_14_tbl5 = kuznyechik_compact_encrypt_block_tbl5 := rfl
theorem ls14_t6 : kuznyechik_l_step_14_tbl6 = kuznyechik_compact_encrypt_block_tbl6 := rfl
theorem ls14_gf : GfOK kuznyechik_l_step_14_tbl0 kuznyechik_l_step_14_tbl1 kuznyechik_l_step_14_tbl2 kuznyechik_l_step_14_tbl3 kuznyechik_l_step_14_tbl4 kuznyechik_l_step_14_tbl5 kuznyechik_l_step_14_tbl6 := by
  rw [ls14_t0, ls14_t1, ls14_t2, ls14_t3, ls14_t4, ls14_t5, ls14_t6]; exact gfE

/-- the regenerated `l_step(msg, 14)` is the model's -/
theorem kuznyechik_l_step_14_eq (msg : BitVec 128) : kuznyechik_l_step_14 msg = l_step msg 14 := by
  have h : kuznyechik_l_step_14 msg = (lstepB14 kuznyechik_l_step_14_tbl0 kuznyechik_l_step_14_tbl1 kuznyechik_l_step_14_tbl2 kuznyechik_l_step_14_tbl3 kuznyechik_l_step_14_tbl4 kuznyechik_l_step_14_tbl5 kuznyechik_l_step_14_tbl6 (unpackB msg)).pack := by kuz_kernel_rfl
  rw [h, lstepB14_pack _ _ _ _ _ _ _ ls14_gf, pack_unpack]

theorem ls15_t0 : kuznyechik_l_step_15_tbl0 = kuznyechik_compact_encrypt_block_tbl0 := rfl
theorem ls15_t1 : kuznyechik_l_step_15_tbl1 = kuznyechik_compact_encrypt_block_tbl1 := rfl
theorem ls15_t2 : kuznyechik_l_step_15_tbl2 = kuznyechik_compact_encrypt_block_tbl2 := rfl
theorem ls15_t3 : kuznyechik_l_step_15_tbl3 = kuznyechik_compact_encrypt_block_tbl3 := rfl
theorem ls15_t4 : kuznyechik_l_step_15_tbl4 = kuznyechik_compact_encrypt_block_tbl4 := rfl
theorem ls15_t5 : kuznyechik_l_step_15_tbl5 = kuznyechik_compact_encrypt_block_tbl5 := rfl
theorem ls15_t6 : kuznyechik_l_step_15_tbl6 = kuznyechik_compact_encrypt_block_tbl6 := rfl
theorem ls15_gf : GfOK kuznyechik_l_step_15_tbl0 kuznyechik_l_step_15_tbl1 kuznyechik_l_step_15_tbl2 kuznyechik_l_step_15_tbl3 kuznyechik_l_step_15_tbl4 kuznyechik_l_step_15_tbl5 kuznyechik_l_step_15_tbl6 := by
  rw [ls15_t0, ls15_t1, ls15_t2, ls15_t3, ls15_t4, ls15_t5, ls15_t6]; exact gfE

/-- the regenerated `l_step(msg, 15)` is the model's -/
theorem kuznyechik_l_step_15_eq (msg : BitVec 128) : kuznyechik_l_step_15 msg = l_step msg 15 := by
  have h : kuznyechik_l_step_15 msg = (lstepB15 kuznyechik_l_step_15_tbl0 kuznyechik_l_step_15_tbl1 kuznyechik_l_step_15_tbl2 kuznyechik_l_step_15_tbl3 kuznyechik_l_step_15_tbl4 kuznyechik_l_step_15_tbl5 kuznyechik_l_step_15_tbl6 (unpackB msg)).pack := by kuz_kernel_rfl
  rw [h, lstepB15_pack _ _ _ _ _ _ _ ls15_gf, pack_unpack]

theorem lsx_t0 : kuznyechik_compact_lsx_tbl0 = kuznyechik_compact_encrypt_block_tbl0 := rfl
theorem lsx_t1 : kuznyechik_compact_lsx_tbl1 = kuznyechik_compact_encrypt_block_tbl1 := rfl
theorem lsx_t2 : kuznyechik_compact_lsx_tbl2 = kuznyechik_compact_encrypt_block_tbl2 := rfl
theorem lsx_t3 : kuznyechik_compact_lsx_tbl3 = kuznyechik_compact_encrypt_block_tbl3 := rfl
theorem lsx_t4 : kuznyechik_compact_lsx_tbl4 = kuznyechik_compact_encrypt_block_tbl4 := rfl
theorem lsx_t5 : kuznyechik_compact_lsx_tbl5 = kuznyechik_compact_encrypt_block_tbl5 := rfl
theorem lsx_t6 : kuznyechik_compact_lsx_tbl6 = kuznyechik_compact_encrypt_block_tbl6 := rfl
theorem lsx_gf : GfOK kuznyechik_compact_lsx_tbl0 kuznyechik_compact_lsx_tbl1 kuznyechik_compact_lsx_tbl2 kuznyechik_compact_lsx_tbl3 kuznyechik_compact_lsx_tbl4 kuznyechik_compact_lsx_tbl5 kuznyechik_compact_lsx_tbl6 := by
  rw [lsx_t0, lsx_t1, lsx_t2, lsx_t3, lsx_t4, lsx_t5, lsx_t6]; exact gfE

/-- the regenerated `lsx` is the model's `Compact.lsx` -/
theorem kuznyechik_compact_lsx_eq (block key : BitVec 128) : kuznyechik_compact_lsx block key = Compact.lsx block key := by
  have h : kuznyechik_compact_lsx block key = (lsxB kuznyechik_compact_lsx_tbl0 kuznyechik_compact_lsx_tbl1 kuznyechik_compact_lsx_tbl2 kuznyechik_compact_lsx_tbl3 kuznyechik_compact_lsx_tbl4 kuznyechik_compact_lsx_tbl5 kuznyechik_compact_lsx_tbl6 (unpackB block) key).pack := by kuz_kernel_rfl
  rw [h, lsxB_pack _ _ _ _ _ _ _ lsx_gf, pack_unpack]

theorem lsxi_t0 : kuznyechik_compact_lsx_inv_tbl0 = kuznyechik_compact_encrypt_block_tbl0 := rfl
theorem lsxi_t1 : kuznyechik_compact_lsx_inv_tbl1 = kuznyechik_compact_encrypt_block_tbl1 := rfl
theorem lsxi_t2 : kuznyechik_compact_lsx_inv_tbl2 = kuznyechik_compact_encrypt_block_tbl2 := rfl
theorem lsxi_t3 : kuznyechik_compact_lsx_inv_tbl3 = kuznyechik_compact_encrypt_block_tbl3 := rfl
theorem lsxi_t4 : kuznyechik_compact_lsx_inv_tbl4 = kuznyechik_compact_encrypt_block_tbl4 := rfl
theorem lsxi_t5 : kuznyechik_compact_lsx_inv_tbl5 = kuznyechik_compact_encrypt_block_tbl5 := rfl
theorem lsxi_t6 : kuznyechik_compact_lsx_inv_tbl6 = kuznyechik_compact_encrypt_block_tbl6 := rfl
theorem lsxi_gf : GfOK kuznyechik_compact_lsx_inv_tbl0 kuznyechik_compact_lsx_inv_tbl1 kuznyechik_compact_lsx_inv_tbl2 kuznyechik_compact_lsx_inv_tbl3 kuznyechik_compact_lsx_inv_tbl4 kuznyechik_compact_lsx_inv_tbl5 kuznyechik_compact_lsx_inv_tbl6 := by
  rw [lsxi_t0, lsxi_t1, lsxi_t2, lsxi_t3, lsxi_t4, lsxi_t5, lsxi_t6]; exact gfE

theorem lsxi_t7 : kuznyechik_compact_lsx_inv_tbl7 = kuznyechik_compact_decrypt_block_tbl7 := rfl
theorem lsxi_pinv : PinvOK kuznyechik_compact_lsx_inv_tbl7 := by
  rw [lsxi_t7]; exact pinvD

/-- the regenerated `lsx_inv` is the model's `Compact.lsx_inv` -/
theorem kuznyechik_compact_lsx_inv_eq (block key : BitVec 128) : kuznyechik_compact_lsx_inv block key = Compact.lsx_inv block key := by
  have h : kuznyechik_compact_lsx_inv block key = (lsxInvB kuznyechik_compact_lsx_inv_tbl0 kuznyechik_compact_lsx_inv_tbl1 kuznyechik_compact_lsx_inv_tbl2 kuznyechik_compact_lsx_inv_tbl3 kuznyechik_compact_lsx_inv_tbl4 kuznyechik_compact_lsx_inv_tbl5 kuznyechik_compact_lsx_inv_tbl6 kuznyechik_compact_lsx_inv_tbl7 (unpackB block) key).pack := by kuz_kernel_rfl
  rw [h, lsxInvB_pack _ _ _ _ _ _ _ lsxi_gf _ lsxi_pinv, pack_unpack]

end BC.GenCipher.Kuznyechik
