import BlockCiphers.Gen.Cipher_Kuznyechik_sse2
import BlockCiphers.Gen.Keys_Kuznyechik_sse2
import BlockCiphers.Proofs.GenCipherKuznyechikSse2
import BlockCiphers.Proofs.GenKeysKuznyechikSse2
import BlockCiphers.Proofs.Kuznyechik
/-!
Code-level theorems for Kuznyechik, SSE2 back end: statements mention ONLY the regenerated code
(`BC.Gen.Fn.kuznyechik_sse2_enckeys_new`, `kuznyechik_sse2_inv_enc_keys`, `kuznyechik_sse2_encdeckeys_from`, `kuznyechik_sse2_deckeys_from`, `kuznyechik_sse2_encrypt_block`,
`kuznyechik_sse2_decrypt_block`, `kuznyechik_sse2_encrypt_par_blocks`, `kuznyechik_sse2_decrypt_par_blocks`, translated from
/repo/kuznyechik/src/sse2/{mod.rs,backends.rs}: the `_mm_*` intrinsics are calls of their transcriptions in
Prelude/X86Intrinsics.lean and Prelude/KuzIntrinsics.lean, the fused tables of fused_tables.rs are computed from the crate's
`const fn`s) and the specification `BC.Spec.Kuznyechik` (GOST R 34.12-2015).  Composition of
  (1) `BC.Kuznyechik.Sse2.decrypt_encrypt`, `encrypt_decrypt`, `encrypt_eq_spec`, `decrypt_eq_spec` (Proofs/Kuznyechik.lean;
      Thm C01 / C03 / C07),
  (2) `BC.GenCipher.KuznyechikSse2.kuznyechik_sse2_encrypt_block_eq`, `…_decrypt_block_eq`, `…_encrypt_par_blocks_lanes`,
      `…_decrypt_par_blocks_lanes` (the parallel functions are lane-wise the single-block ones; Thm C04),
  (3) `BC.GenKeys.KuznyechikSse2.kuznyechik_sse2_enckeys_new_eq`, `kuznyechik_sse2_inv_enc_keys_eq`.
`Kuznyechik::new(key)` is `EncDecKeys::from(EncKeys::new(key))` = `{ enc: expand_enc_keys(key), dec: inv_enc_keys(&enc) }`:
`enc` / `encPar` run `encrypt_block` / `encrypt_par_blocks` on the first, `dec` / `decPar` the decrypting functions on the second.
The key is a `BitVec 256`, a block a `BitVec 128`, byte 0 of the Rust array = most significant byte; `ParBlocksSize` = 4.
-/
set_option maxRecDepth 100000
set_option linter.unusedVariables false
namespace BC.Code.KuznyechikSse2
open BC BC.Gen.Fn

/-- `EncBackend(&EncKeys::new(key).0).encrypt_block(b)` on the regenerated code -/
def enc (key : BitVec 256) (b : BitVec 128) : BitVec 128 :=
  match kuznyechik_sse2_enckeys_new key with
  | (k0, k1, k2, k3, k4, k5, k6, k7, k8, k9) => kuznyechik_sse2_encrypt_block k0 k1 k2 k3 k4 k5 k6 k7 k8 k9 b

/-- `DecBackend(&inv_enc_keys(&EncKeys::new(key).0)).decrypt_block(b)` on the regenerated code -/
def dec (key : BitVec 256) (b : BitVec 128) : BitVec 128 :=
  match kuznyechik_sse2_enckeys_new key with
  | (e0, e1, e2, e3, e4, e5, e6, e7, e8, e9) =>
    match kuznyechik_sse2_inv_enc_keys e0 e1 e2 e3 e4 e5 e6 e7 e8 e9 with
    | (d0, d1, d2, d3, d4, d5, d6, d7, d8, d9) => kuznyechik_sse2_decrypt_block d0 d1 d2 d3 d4 d5 d6 d7 d8 d9 b

/-- `EncBackend(&EncKeys::new(key).0).encrypt_par_blocks([b0, …])` on the regenerated code -/
def encPar (key : BitVec 256) (b0 b1 b2 b3 : BitVec 128) : BitVec 128 × BitVec 128 × BitVec 128 × BitVec 128 :=
  match kuznyechik_sse2_enckeys_new key with
  | (k0, k1, k2, k3, k4, k5, k6, k7, k8, k9) => kuznyechik_sse2_encrypt_par_blocks k0 k1 k2 k3 k4 k5 k6 k7 k8 k9 b0 b1 b2 b3

/-- `DecBackend(&inv_enc_keys(&EncKeys::new(key).0)).decrypt_par_blocks([b0, …])` on the regenerated code -/
def decPar (key : BitVec 256) (b0 b1 b2 b3 : BitVec 128) : BitVec 128 × BitVec 128 × BitVec 128 × BitVec 128 :=
  match kuznyechik_sse2_enckeys_new key with
  | (e0, e1, e2, e3, e4, e5, e6, e7, e8, e9) =>
    match kuznyechik_sse2_inv_enc_keys e0 e1 e2 e3 e4 e5 e6 e7 e8 e9 with
    | (d0, d1, d2, d3, d4, d5, d6, d7, d8, d9) => kuznyechik_sse2_decrypt_par_blocks d0 d1 d2 d3 d4 d5 d6 d7 d8 d9 b0 b1 b2 b3

/-! ### bridges to the model -/

theorem enc_eq_impl (key : BitVec 256) (b : BitVec 128) :
    enc key b = BC.Kuznyechik.Sse2.encrypt_block (BC.Kuznyechik.Sse2.expand_enc_keys key) b := by
  unfold enc
  rw [BC.GenKeys.KuznyechikSse2.kuznyechik_sse2_enckeys_new_eq key]
  simp only [BC.GenKeys.Kuznyechik.rkTuple]
  exact BC.GenCipher.KuznyechikSse2.kuznyechik_sse2_encrypt_block_eq _ _ _ _ _ _ _ _ _ _ b

theorem dec_eq_impl (key : BitVec 256) (b : BitVec 128) :
    dec key b = BC.Kuznyechik.Sse2.decrypt_block
      (BC.Kuznyechik.Sse2.inv_enc_keys (BC.Kuznyechik.Sse2.expand_enc_keys key)) b := by
  unfold dec
  rw [BC.GenKeys.KuznyechikSse2.kuznyechik_sse2_enckeys_new_eq key]
  simp only [BC.GenKeys.Kuznyechik.rkTuple]
  rw [BC.GenKeys.KuznyechikSse2.kuznyechik_sse2_inv_enc_keys_eq]
  simp only [BC.GenKeys.Kuznyechik.rkTuple]
  exact BC.GenCipher.KuznyechikSse2.kuznyechik_sse2_decrypt_block_eq _ _ _ _ _ _ _ _ _ _ b

/-! ### round trips on the regenerated code -/

theorem dec_enc (key : BitVec 256) (b : BitVec 128) : dec key (enc key b) = b := by
  rw [enc_eq_impl, dec_eq_impl, BC.Kuznyechik.Sse2.decrypt_encrypt]

theorem enc_dec (key : BitVec 256) (b : BitVec 128) : enc key (dec key b) = b := by
  rw [enc_eq_impl, dec_eq_impl, BC.Kuznyechik.Sse2.encrypt_decrypt]

/-! ### conformance of the regenerated code to GOST R 34.12-2015 -/

theorem enc_eq_spec (key : BitVec 256) (b : BitVec 128) : enc key b = BC.Spec.Kuznyechik.encrypt key b := by
  rw [enc_eq_impl, BC.Kuznyechik.Sse2.encrypt_eq_spec]

theorem dec_eq_spec (key : BitVec 256) (b : BitVec 128) : dec key b = BC.Spec.Kuznyechik.decrypt key b := by
  rw [dec_eq_impl, BC.Kuznyechik.Sse2.decrypt_eq_spec]

/-! ### the parallel forms, lane-wise -/

/-- `encrypt_par_blocks` is `encrypt_block` on each of the 4 blocks (regenerated code on both sides) -/
theorem encPar_lanes (key : BitVec 256) (b0 b1 b2 b3 : BitVec 128) :
    encPar key b0 b1 b2 b3 = (enc key b0, enc key b1, enc key b2, enc key b3) := by
  unfold encPar enc
  rw [BC.GenKeys.KuznyechikSse2.kuznyechik_sse2_enckeys_new_eq key]
  simp only [BC.GenKeys.Kuznyechik.rkTuple]
  rw [BC.GenCipher.KuznyechikSse2.kuznyechik_sse2_encrypt_par_blocks_lanes]
  simp only [BC.GenCipher.KuznyechikSse2.kuznyechik_sse2_encrypt_block_eq]

/-- `decrypt_par_blocks` is `decrypt_block` on each of the 4 blocks -/
theorem decPar_lanes (key : BitVec 256) (b0 b1 b2 b3 : BitVec 128) :
    decPar key b0 b1 b2 b3 = (dec key b0, dec key b1, dec key b2, dec key b3) := by
  unfold decPar dec
  rw [BC.GenKeys.KuznyechikSse2.kuznyechik_sse2_enckeys_new_eq key]
  simp only [BC.GenKeys.Kuznyechik.rkTuple]
  rw [BC.GenKeys.KuznyechikSse2.kuznyechik_sse2_inv_enc_keys_eq]
  simp only [BC.GenKeys.Kuznyechik.rkTuple]
  rw [BC.GenCipher.KuznyechikSse2.kuznyechik_sse2_decrypt_par_blocks_lanes]
  simp only [BC.GenCipher.KuznyechikSse2.kuznyechik_sse2_decrypt_block_eq]

theorem encPar_eq_spec (key : BitVec 256) (b0 b1 b2 b3 : BitVec 128) :
    encPar key b0 b1 b2 b3 = (BC.Spec.Kuznyechik.encrypt key b0, BC.Spec.Kuznyechik.encrypt key b1, BC.Spec.Kuznyechik.encrypt key b2, BC.Spec.Kuznyechik.encrypt key b3) := by
  simp only [encPar_lanes, enc_eq_spec]

theorem decPar_eq_spec (key : BitVec 256) (b0 b1 b2 b3 : BitVec 128) :
    decPar key b0 b1 b2 b3 = (BC.Spec.Kuznyechik.decrypt key b0, BC.Spec.Kuznyechik.decrypt key b1, BC.Spec.Kuznyechik.decrypt key b2, BC.Spec.Kuznyechik.decrypt key b3) := by
  simp only [decPar_lanes, dec_eq_spec]

/-- round trip of the parallel functions -/
theorem decPar_encPar (key : BitVec 256) (b0 b1 b2 b3 : BitVec 128) :
    (match encPar key b0 b1 b2 b3 with | (c0, c1, c2, c3) => decPar key c0 c1 c2 c3) = (b0, b1, b2, b3) := by
  simp only [encPar_lanes, decPar_lanes, dec_enc]

theorem encPar_decPar (key : BitVec 256) (b0 b1 b2 b3 : BitVec 128) :
    (match decPar key b0 b1 b2 b3 with | (c0, c1, c2, c3) => encPar key c0 c1 c2 c3) = (b0, b1, b2, b3) := by
  simp only [encPar_lanes, decPar_lanes, enc_dec]

/-! ### the three cipher types: `Kuznyechik` (keys through `EncDecKeys::from`), `KuznyechikEnc`, `KuznyechikDec` (`DecKeys::from`) -/

/-- `Kuznyechik::new(key)` is `EncDecKeys::from(EncKeys::new(key))`; `encrypt_block` runs on its `enc` keys -/
def encK (key : BitVec 256) (b : BitVec 128) : BitVec 128 :=
  match kuznyechik_sse2_enckeys_new key with
  | (e0, e1, e2, e3, e4, e5, e6, e7, e8, e9) =>
    match kuznyechik_sse2_encdeckeys_from e0 e1 e2 e3 e4 e5 e6 e7 e8 e9 with
    | (k0, k1, k2, k3, k4, k5, k6, k7, k8, k9, d0, d1, d2, d3, d4, d5, d6, d7, d8, d9) => kuznyechik_sse2_encrypt_block k0 k1 k2 k3 k4 k5 k6 k7 k8 k9 b

/-- … and `decrypt_block` on its `dec` keys -/
def decK (key : BitVec 256) (b : BitVec 128) : BitVec 128 :=
  match kuznyechik_sse2_enckeys_new key with
  | (e0, e1, e2, e3, e4, e5, e6, e7, e8, e9) =>
    match kuznyechik_sse2_encdeckeys_from e0 e1 e2 e3 e4 e5 e6 e7 e8 e9 with
    | (k0, k1, k2, k3, k4, k5, k6, k7, k8, k9, d0, d1, d2, d3, d4, d5, d6, d7, d8, d9) => kuznyechik_sse2_decrypt_block d0 d1 d2 d3 d4 d5 d6 d7 d8 d9 b

/-- `KuznyechikDec::new(key)` is `DecKeys::from(EncKeys::new(key))` -/
def decD (key : BitVec 256) (b : BitVec 128) : BitVec 128 :=
  match kuznyechik_sse2_enckeys_new key with
  | (e0, e1, e2, e3, e4, e5, e6, e7, e8, e9) =>
    match kuznyechik_sse2_deckeys_from e0 e1 e2 e3 e4 e5 e6 e7 e8 e9 with
    | (d0, d1, d2, d3, d4, d5, d6, d7, d8, d9) => kuznyechik_sse2_decrypt_block d0 d1 d2 d3 d4 d5 d6 d7 d8 d9 b

theorem encK_eq (key : BitVec 256) (b : BitVec 128) : encK key b = enc key b := by
  unfold encK enc
  rw [BC.GenKeys.KuznyechikSse2.kuznyechik_sse2_enckeys_new_eq key]
  simp only [BC.GenKeys.Kuznyechik.rkTuple]
  rw [BC.GenKeys.KuznyechikSse2.kuznyechik_sse2_encdeckeys_from_eq]
  simp only [BC.GenKeys.KuznyechikSse2.rkTuple2, BC.Kuznyechik.Sse2.EncDecKeys.fromEnc]

theorem decK_eq (key : BitVec 256) (b : BitVec 128) : decK key b = dec key b := by
  unfold decK dec
  rw [BC.GenKeys.KuznyechikSse2.kuznyechik_sse2_enckeys_new_eq key]
  simp only [BC.GenKeys.Kuznyechik.rkTuple]
  rw [BC.GenKeys.KuznyechikSse2.kuznyechik_sse2_encdeckeys_from_eq, BC.GenKeys.KuznyechikSse2.kuznyechik_sse2_inv_enc_keys_eq]
  simp only [BC.GenKeys.KuznyechikSse2.rkTuple2, BC.GenKeys.Kuznyechik.rkTuple, BC.Kuznyechik.Sse2.EncDecKeys.fromEnc]

theorem decD_eq (key : BitVec 256) (b : BitVec 128) : decD key b = dec key b := by
  unfold decD dec
  rw [BC.GenKeys.KuznyechikSse2.kuznyechik_sse2_enckeys_new_eq key]
  simp only [BC.GenKeys.Kuznyechik.rkTuple]
  rw [BC.GenKeys.KuznyechikSse2.kuznyechik_sse2_deckeys_from_eq, BC.GenKeys.KuznyechikSse2.kuznyechik_sse2_inv_enc_keys_eq]
  simp only [BC.GenKeys.Kuznyechik.rkTuple, BC.Kuznyechik.Sse2.DecKeys.fromEnc]

/-- round trips and conformance for the `Kuznyechik` / `KuznyechikDec` key paths -/
theorem decK_encK (key : BitVec 256) (b : BitVec 128) : decK key (encK key b) = b := by rw [encK_eq, decK_eq, dec_enc]
theorem encK_decK (key : BitVec 256) (b : BitVec 128) : encK key (decK key b) = b := by rw [encK_eq, decK_eq, enc_dec]
theorem decD_enc (key : BitVec 256) (b : BitVec 128) : decD key (enc key b) = b := by rw [decD_eq, dec_enc]
theorem encK_eq_spec (key : BitVec 256) (b : BitVec 128) : encK key b = BC.Spec.Kuznyechik.encrypt key b := by rw [encK_eq, enc_eq_spec]
theorem decK_eq_spec (key : BitVec 256) (b : BitVec 128) : decK key b = BC.Spec.Kuznyechik.decrypt key b := by rw [decK_eq, dec_eq_spec]
theorem decD_eq_spec (key : BitVec 256) (b : BitVec 128) : decD key b = BC.Spec.Kuznyechik.decrypt key b := by rw [decD_eq, dec_eq_spec]

end BC.Code.KuznyechikSse2
