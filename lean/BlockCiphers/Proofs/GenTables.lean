import BlockCiphers.Gen.Tables
import BlockCiphers.Impl.Aria
import BlockCiphers.Impl.Belt
import BlockCiphers.Impl.BlowfishConsts
import BlockCiphers.Impl.Camellia
import BlockCiphers.Impl.Cast5Consts
import BlockCiphers.Impl.Cast6
import BlockCiphers.Impl.Des
import BlockCiphers.Impl.Gift
import BlockCiphers.Impl.Idea
import BlockCiphers.Impl.Kuznyechik
import BlockCiphers.Impl.Magma
import BlockCiphers.Impl.Rc2
import BlockCiphers.Impl.Serpent
import BlockCiphers.Impl.Sm4
import BlockCiphers.Impl.Threefish
import BlockCiphers.Impl.Twofish
import BlockCiphers.Impl.Xtea
/-
The tie between the constant tables of /repo and the constants of the hand-written models.

`Gen/Tables.lean` is regenerated from the Rust sources on every run (translator G1: every `const`/`static` integer
array literal and scalar).  Each theorem below states that a table *as it is in the repository now* is, entry for
entry, the table the Lean model (`Impl/*`) computes with — so a single edited entry of an S-box, a round constant, a
permutation or a rotation table is a failed proof obligation with the differing index as the counter-example,
whether or not a sampled key/block happens to reach that entry.  All proofs are kernel evaluation (`decide +kernel`).
-/
namespace BC.GenTables
open BC.Gen

def nats8 (a : Array (BitVec 8)) : List Nat := a.toList.map BitVec.toNat
def nats32 (a : Array (BitVec 32)) : List Nat := a.toList.map BitVec.toNat

/-- first index at which two tables differ (used by the failing-input search; `none` = equal) -/
def firstDiff (a b : List Nat) : Option Nat :=
  let rec go : List Nat → List Nat → Nat → Option Nat
    | [], [], _ => none
    | x :: xs, y :: ys, i => if x = y then go xs ys (i + 1) else some i
    | _, _, i => some i
  go a b 0

-- ARIA ------------------------------------------------------------------------------------------
theorem aria_SB1_eq : aria_SB1.toList = nats8 BC.Aria.SB1T := by decide +kernel
theorem aria_SB2_eq : aria_SB2.toList = nats8 BC.Aria.SB2T := by decide +kernel
theorem aria_SB3_eq : aria_SB3.toList = nats8 BC.Aria.SB3T := by decide +kernel
theorem aria_SB4_eq : aria_SB4.toList = nats8 BC.Aria.SB4T := by decide +kernel
theorem aria_DIFFUSE_CONSTS_eq : aria_DIFFUSE_CONSTS.toList = BC.Aria.DIFFUSE_CONSTS.map BitVec.toNat := by decide +kernel
theorem aria_C_eq : [aria_C1, aria_C2, aria_C3] = [BC.Aria.C1, BC.Aria.C2, BC.Aria.C3].map BitVec.toNat := by decide +kernel

-- BelT ------------------------------------------------------------------------------------------
theorem belt_H5_eq : belt_block_H5.toList = nats32 BC.Belt.H5 := by decide +kernel
theorem belt_H13_eq : belt_block_H13.toList = nats32 BC.Belt.H13 := by decide +kernel
theorem belt_H21_eq : belt_block_H21.toList = nats32 BC.Belt.H21 := by decide +kernel
theorem belt_H29_eq : belt_block_H29.toList = nats32 BC.Belt.H29 := by decide +kernel

-- Blowfish --------------------------------------------------------------------------------------
theorem blowfish_P_eq : blowfish_P.toList = nats32 BC.Blowfish.Consts.P := by decide +kernel
theorem blowfish_S_eq : blowfish_S.toList = nats32 BC.Blowfish.Consts.S := by decide +kernel

-- Camellia --------------------------------------------------------------------------------------
theorem camellia_SBOXES_eq : camellia_SBOXES.toList =
    nats8 BC.Camellia.SBOX1 ++ nats8 BC.Camellia.SBOX2 ++ nats8 BC.Camellia.SBOX3 ++ nats8 BC.Camellia.SBOX4 := by decide +kernel
theorem camellia_SIGMAS_eq : camellia_SIGMAS.toList =
    [BC.Camellia.SIGMA0, BC.Camellia.SIGMA1, BC.Camellia.SIGMA2, BC.Camellia.SIGMA3, BC.Camellia.SIGMA4, BC.Camellia.SIGMA5].map BitVec.toNat := by
  decide +kernel

-- CAST-128 --------------------------------------------------------------------------------------
theorem cast5_S1_eq : cast5_S1.toList = nats32 BC.Cast5.Consts.S1 := by decide +kernel
theorem cast5_S2_eq : cast5_S2.toList = nats32 BC.Cast5.Consts.S2 := by decide +kernel
theorem cast5_S3_eq : cast5_S3.toList = nats32 BC.Cast5.Consts.S3 := by decide +kernel
theorem cast5_S4_eq : cast5_S4.toList = nats32 BC.Cast5.Consts.S4 := by decide +kernel
theorem cast5_S5_eq : cast5_S5.toList = nats32 BC.Cast5.Consts.S5 := by decide +kernel
theorem cast5_S6_eq : cast5_S6.toList = nats32 BC.Cast5.Consts.S6 := by decide +kernel
theorem cast5_S7_eq : cast5_S7.toList = nats32 BC.Cast5.Consts.S7 := by decide +kernel
theorem cast5_S8_eq : cast5_S8.toList = nats32 BC.Cast5.Consts.S8 := by decide +kernel

-- CAST-256 --------------------------------------------------------------------------------------
theorem cast6_S1_eq : cast6_S1.toList = nats32 BC.Cast6.S1 := by decide +kernel
theorem cast6_S2_eq : cast6_S2.toList = nats32 BC.Cast6.S2 := by decide +kernel
theorem cast6_S3_eq : cast6_S3.toList = nats32 BC.Cast6.S3 := by decide +kernel
theorem cast6_S4_eq : cast6_S4.toList = nats32 BC.Cast6.S4 := by decide +kernel
theorem cast6_TM_eq : cast6_TM.toList = nats32 BC.Cast6.TM := by decide +kernel
theorem cast6_TR_eq : cast6_TR.toList = nats8 BC.Cast6.TR := by decide +kernel

-- DES -------------------------------------------------------------------------------------------
theorem des_SHIFTS_eq : des_SHIFTS.toList = BC.Des.SHIFTS := by decide +kernel
theorem des_SBOXES_eq : des_SBOXES.toList = (BC.Des.SBOXES.toList.map nats8).flatten := by decide +kernel
/-- `WEAK_KEYS` is written in the source as 64 groups of 8 bytes (`as_ne_u64!`); the model holds the 64 keys as
big-endian 64-bit values -/
def bytesBE (k : BitVec 64) : List Nat := (List.range 8).map (fun i => (k >>> (56 - 8 * i)).toNat % 256)
theorem des_WEAK_KEYS_eq : des_WEAK_KEYS.toList = (BC.Des.WEAK_KEYS_BYTES.map bytesBE).flatten := by decide +kernel

-- GIFT ------------------------------------------------------------------------------------------
theorem gift_GIFT_RC_eq : gift_GIFT_RC.toList = nats32 BC.Gift.GIFT_RC := by decide +kernel

-- RC2 / SM4 -------------------------------------------------------------------------------------
theorem rc2_PI_TABLE_eq : rc2_PI_TABLE.toList = nats8 BC.Rc2.PI_TABLE := by decide +kernel
theorem sm4_SBOX_eq : sm4_SBOX.toList = nats8 BC.Sm4.SBOX := by decide +kernel
theorem sm4_FK_eq : sm4_FK.toList = nats32 BC.Sm4.FK := by decide +kernel
theorem sm4_CK_eq : sm4_CK.toList = nats32 BC.Sm4.CK := by decide +kernel

-- Threefish -------------------------------------------------------------------------------------
theorem threefish_R256_eq : threefish_R256.toList = (BC.Threefish.R256.toList.map nats8).flatten := by decide +kernel
theorem threefish_R512_eq : threefish_R512.toList = (BC.Threefish.R512.toList.map nats8).flatten := by decide +kernel
theorem threefish_R1024_eq : threefish_R1024.toList = (BC.Threefish.R1024.toList.map nats8).flatten := by decide +kernel
theorem threefish_P256_eq : threefish_P256.toList = nats8 BC.Threefish.P256 := by decide +kernel
theorem threefish_P512_eq : threefish_P512.toList = nats8 BC.Threefish.P512 := by decide +kernel
theorem threefish_P1024_eq : threefish_P1024.toList = nats8 BC.Threefish.P1024 := by decide +kernel
theorem threefish_C240_eq : threefish_C240 = BC.Threefish.C240.toNat := by decide +kernel

-- Twofish ---------------------------------------------------------------------------------------
theorem twofish_QORD_eq : twofish_QORD.toList = (BC.Twofish.QORD.toList.map Array.toList).flatten := by decide +kernel
theorem twofish_QBOX_eq : twofish_QBOX.toList =
    ((BC.Twofish.QBOX.toList.map (fun q => (q.toList.map nats8).flatten))).flatten := by decide +kernel
theorem twofish_RS_eq : twofish_RS.toList = (BC.Twofish.RS.toList.map nats8).flatten := by decide +kernel
theorem twofish_MDS_POLY_eq : twofish_MDS_POLY = BC.Twofish.MDS_POLY.toNat := by decide +kernel

-- Kuznyechik (π; P_INV, GFT_*, KEYGEN and the fused tables are computed by the model of their const fns) ------
theorem kuznyechik_P_eq : kuznyechik_P.toList = nats8 BC.Kuznyechik.P.toArray := by decide +kernel

-- Magma / GOST 28147-89 S-box sets ----------------------------------------------------------------
def sboxNats (s : BC.Magma.SmallSbox) : List Nat := (s.toList.map (fun r => r.toList.map BitVec.toNat)).flatten
theorem magma_Tc26_eq : magma_Tc26_SBOX.toList = sboxNats BC.Magma.Tc26 := by decide +kernel
theorem magma_TestSbox_eq : magma_TestSbox_SBOX.toList = sboxNats BC.Magma.TestSbox := by decide +kernel
theorem magma_CryptoProA_eq : magma_CryptoProA_SBOX.toList = sboxNats BC.Magma.CryptoProA := by decide +kernel
theorem magma_CryptoProB_eq : magma_CryptoProB_SBOX.toList = sboxNats BC.Magma.CryptoProB := by decide +kernel
theorem magma_CryptoProC_eq : magma_CryptoProC_SBOX.toList = sboxNats BC.Magma.CryptoProC := by decide +kernel
theorem magma_CryptoProD_eq : magma_CryptoProD_SBOX.toList = sboxNats BC.Magma.CryptoProD := by decide +kernel

-- scalars ---------------------------------------------------------------------------------------
theorem serpent_PHI_eq : serpent_PHI = BC.Serpent.PHI.toNat := by decide +kernel
theorem idea_MAXIM_eq : idea_MAXIM = BC.Idea.MAXIM.toNat := by decide +kernel

end BC.GenTables
