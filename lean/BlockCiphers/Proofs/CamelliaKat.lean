import BlockCiphers.Impl.Camellia
import BlockCiphers.Spec.Camellia
/-
Known-answer vectors of RFC 3713 §A ("Example Data of Camellia"), evaluated by the Lean kernel on the
model of the Rust code and on the RFC specification, both directions.
-/
namespace BC.Camellia.Kat

def K128 : BitVec 128 := 0x0123456789abcdeffedcba9876543210#128
def K192 : BitVec 192 := 0x0123456789abcdeffedcba98765432100011223344556677#192
def K256 : BitVec 256 := 0x0123456789abcdeffedcba987654321000112233445566778899aabbccddeeff#256
def P : BitVec 128 := 0x0123456789abcdeffedcba9876543210#128
def C128 : BitVec 128 := 0x67673138549669730857065648eabe43#128
def C192 : BitVec 128 := 0xb4993401b3e996f84ee5cee7d79b09b9#128
def C256 : BitVec 128 := 0x9acc237dff16d76c20ef7c919e3a7509#128

example : Camellia.encrypt128 K128 P = C128 := by decide +kernel
example : Camellia.decrypt128 K128 C128 = P := by decide +kernel
example : Camellia.encrypt192 K192 P = C192 := by decide +kernel
example : Camellia.decrypt192 K192 C192 = P := by decide +kernel
example : Camellia.encrypt256 K256 P = C256 := by decide +kernel
example : Camellia.decrypt256 K256 C256 = P := by decide +kernel

example : Spec.Camellia.encrypt128 K128 P = C128 := by decide +kernel
example : Spec.Camellia.decrypt128 K128 C128 = P := by decide +kernel
example : Spec.Camellia.encrypt192 K192 P = C192 := by decide +kernel
example : Spec.Camellia.decrypt192 K192 C192 = P := by decide +kernel
example : Spec.Camellia.encrypt256 K256 P = C256 := by decide +kernel
example : Spec.Camellia.decrypt256 K256 C256 = P := by decide +kernel

/-! NESSIE vectors bundled with the crate (/repo/camellia/tests/data/*.blb): first, middle, last of each file.
The compiled driver reproduces all 3468 of them in both directions (see the correspondence report). -/

-- camellia128.blb vector 0
example : Camellia.encrypt128 0x80000000000000000000000000000000#128 0x00000000000000000000000000000000#128 = 0x6c227f749319a3aa7da235a9bba05a2c#128 := by decide +kernel
example : Spec.Camellia.decrypt128 0x80000000000000000000000000000000#128 0x6c227f749319a3aa7da235a9bba05a2c#128 = 0x00000000000000000000000000000000#128 := by decide +kernel
-- camellia128.blb vector 514
example : Camellia.encrypt128 0x80000000000000000000000000000000#128 0x8f6fe76cb4136885eba099f337b7e987#128 = 0x00000000000000000000000000000000#128 := by decide +kernel
example : Spec.Camellia.decrypt128 0x80000000000000000000000000000000#128 0x00000000000000000000000000000000#128 = 0x8f6fe76cb4136885eba099f337b7e987#128 := by decide +kernel
-- camellia128.blb vector 1027
example : Camellia.encrypt128 0x2bd6459f82c5b300952c49104881ff48#128 0x78357866fd8b2caed4d1bba3cfd5340a#128 = 0xea024714ad5c4d84ea024714ad5c4d84#128 := by decide +kernel
example : Spec.Camellia.decrypt128 0x2bd6459f82c5b300952c49104881ff48#128 0xea024714ad5c4d84ea024714ad5c4d84#128 = 0x78357866fd8b2caed4d1bba3cfd5340a#128 := by decide +kernel
-- camellia192.blb vector 0
example : Camellia.encrypt192 0x800000000000000000000000000000000000000000000000#192 0x00000000000000000000000000000000#128 = 0x1b6220d365c2176c1d41a5826520fca1#128 := by decide +kernel
example : Spec.Camellia.decrypt192 0x800000000000000000000000000000000000000000000000#192 0x1b6220d365c2176c1d41a5826520fca1#128 = 0x00000000000000000000000000000000#128 := by decide +kernel
-- camellia192.blb vector 578
example : Camellia.encrypt192 0x800000000000000000000000000000000000000000000000#192 0xf23db00c5293362a9b53a3bb27e9a291#128 = 0x00000000000000000000000000000000#128 := by decide +kernel
example : Spec.Camellia.decrypt192 0x800000000000000000000000000000000000000000000000#192 0x00000000000000000000000000000000#128 = 0xf23db00c5293362a9b53a3bb27e9a291#128 := by decide +kernel
-- camellia192.blb vector 1155
example : Camellia.encrypt192 0x2bd6459f82c5b300952c49104881ff482bd6459f82c5b300#192 0x292c5bbfd772ad279509120f3f0acd48#128 = 0xea024714ad5c4d84ea024714ad5c4d84#128 := by decide +kernel
example : Spec.Camellia.decrypt192 0x2bd6459f82c5b300952c49104881ff482bd6459f82c5b300#192 0xea024714ad5c4d84ea024714ad5c4d84#128 = 0x292c5bbfd772ad279509120f3f0acd48#128 := by decide +kernel
-- camellia256.blb vector 0
example : Camellia.encrypt256 0x8000000000000000000000000000000000000000000000000000000000000000#256 0x00000000000000000000000000000000#128 = 0x2136fabda091dfb5171b94b8efbb5d08#128 := by decide +kernel
example : Spec.Camellia.decrypt256 0x8000000000000000000000000000000000000000000000000000000000000000#256 0x2136fabda091dfb5171b94b8efbb5d08#128 = 0x00000000000000000000000000000000#128 := by decide +kernel
-- camellia256.blb vector 642
example : Camellia.encrypt256 0x8000000000000000000000000000000000000000000000000000000000000000#256 0x2accf86540bbb8a8daaee722fa52cbaf#128 = 0x00000000000000000000000000000000#128 := by decide +kernel
example : Spec.Camellia.decrypt256 0x8000000000000000000000000000000000000000000000000000000000000000#256 0x00000000000000000000000000000000#128 = 0x2accf86540bbb8a8daaee722fa52cbaf#128 := by decide +kernel
-- camellia256.blb vector 1283
example : Camellia.encrypt256 0x2bd6459f82c5b300952c49104881ff482bd6459f82c5b300952c49104881ff48#256 0xe684421716fc0b01aeb5c6765120f95f#128 = 0xea024714ad5c4d84ea024714ad5c4d84#128 := by decide +kernel
example : Spec.Camellia.decrypt256 0x2bd6459f82c5b300952c49104881ff482bd6459f82c5b300952c49104881ff48#256 0xea024714ad5c4d84ea024714ad5c4d84#128 = 0xe684421716fc0b01aeb5c6765120f95f#128 := by decide +kernel

end BC.Camellia.Kat
