import BlockCiphers.Proofs.AesFs64Defs
import BlockCiphers.Proofs.AesFs64SboxBit
import BlockCiphers.Proofs.AesFs64SboxLane
import BlockCiphers.Proofs.AesFs64InvSboxLane
import BlockCiphers.Proofs.AesFs64SbShift
import BlockCiphers.Proofs.AesFs64StLemmas
import BlockCiphers.Proofs.AesFs64SubBytesInv2
import BlockCiphers.Proofs.AesFs64CommLin
import Std.Tactic.BVDecide
/-!
C02 stage (i) completed: `sub_bytes_nots ∘ sub_bytes` is FIPS-197 SubBytes and
`inv_sub_bytes ∘ sub_bytes_nots` is InvSubBytes in every lane, in each of the four representations
`inv_shift_rows_j ∘ bitslice` the fixsliced rounds work in.
-/
namespace BC.AesFs64
open BC.Spec.Aes
set_option linter.unusedSimpArgs false

theorem mapBytes_congr {f g : BitVec 8 → BitVec 8} (h : ∀ x, f x = g x) (b : BitVec 128) :
    mapBytes f b = mapBytes g b := by
  have : f = g := funext h
  rw [this]

set_option maxRecDepth 100000 in
theorem subBytes_eq_mapBytes (s : BitVec 128) : subBytes s = mapBytes sboxT s := by
  simp only [subBytes, mapBytes, ofFn, range16, List.foldl, getB]
  bv_decide (config := { timeout := 600 })

set_option maxRecDepth 100000 in
theorem invSubBytes_eq_mapBytes (s : BitVec 128) : invSubBytes s = mapBytes invSboxT s := by
  simp only [invSubBytes, mapBytes, ofFn, range16, List.foldl, getB]
  bv_decide (config := { timeout := 600 })

set_option maxRecDepth 100000 in
theorem mapBytes_sub_bytes_bit_xor (b : BitVec 128) : mapBytes sub_bytes_bit b ^^^ c63 = mapBytes sboxCirc b := by
  simp only [mapBytes, sboxCirc, c63, getB]
  bv_decide (config := { timeout := 600 })

theorem isbN_eq_invSboxT (x : BitVec 8) : isbN x = invSboxT x := by
  rw [isbN, inv_sub_bytes_bit_spec, invSboxT_eq_invSbox, BitVec.xor_assoc, BitVec.xor_self, BitVec.xor_zero]

theorem mapBytes_sub_bytes_bit (b : BitVec 128) : mapBytes sub_bytes_bit b ^^^ c63 = subBytes b := by
  rw [mapBytes_sub_bytes_bit_xor, subBytes_eq_mapBytes]
  exact mapBytes_congr sboxCirc_eq_sboxT b

theorem mapBytes_isbN (b : BitVec 128) : mapBytes isbN b = invSubBytes b := by
  rw [invSubBytes_eq_mapBytes]; exact mapBytes_congr isbN_eq_invSboxT b

/-- **S-box layer = FIPS-197 SubBytes in every lane** (representation 0) -/
theorem sub_bytes_nots_sub_bytes_bitslice (b0 b1 b2 b3 : BitVec 128) :
    sub_bytes_nots (sub_bytes (bitslice b0 b1 b2 b3)) =
      bitslice (subBytes b0) (subBytes b1) (subBytes b2) (subBytes b3) := by
  rw [sub_bytes_bitslice, sub_bytes_nots_bitslice]
  simp only [mapBytes_sub_bytes_bit]

/-- the form used when rewriting the cipher: `sub_bytes` leaves the NOTs pending -/
theorem sub_bytes_rep0 (b0 b1 b2 b3 : BitVec 128) :
    sub_bytes (bitslice b0 b1 b2 b3) =
      sub_bytes_nots (bitslice (subBytes b0) (subBytes b1) (subBytes b2) (subBytes b3)) := by
  rw [← sub_bytes_nots_sub_bytes_bitslice, sub_bytes_nots_invol]

theorem sub_bytes_rep1 (b0 b1 b2 b3 : BitVec 128) :
    sub_bytes (inv_shift_rows_1 (bitslice b0 b1 b2 b3)) =
      sub_bytes_nots (inv_shift_rows_1 (bitslice (subBytes b0) (subBytes b1) (subBytes b2) (subBytes b3))) := by
  simp only [inv_shift_rows_1]
  rw [sub_bytes_shift_rows_3, sub_bytes_rep0, shift_rows_3_nots]

theorem sub_bytes_rep2 (b0 b1 b2 b3 : BitVec 128) :
    sub_bytes (inv_shift_rows_2 (bitslice b0 b1 b2 b3)) =
      sub_bytes_nots (inv_shift_rows_2 (bitslice (subBytes b0) (subBytes b1) (subBytes b2) (subBytes b3))) := by
  simp only [inv_shift_rows_2]
  rw [sub_bytes_shift_rows_2, sub_bytes_rep0, shift_rows_2_nots]

theorem sub_bytes_rep3 (b0 b1 b2 b3 : BitVec 128) :
    sub_bytes (inv_shift_rows_3 (bitslice b0 b1 b2 b3)) =
      sub_bytes_nots (inv_shift_rows_3 (bitslice (subBytes b0) (subBytes b1) (subBytes b2) (subBytes b3))) := by
  simp only [inv_shift_rows_3]
  rw [sub_bytes_shift_rows_1, sub_bytes_rep0, shift_rows_1_nots]

/-! inverse S-box -/

theorem inv_sub_bytes_shift_rows_1 (s : St) : inv_sub_bytes (shift_rows_1 s) = shift_rows_1 (inv_sub_bytes s) := by
  have h := sub_bytes_shift_rows_1 (inv_sub_bytes s)
  rw [sub_bytes_inv_sub_bytes] at h
  rw [← h, inv_sub_bytes_sub_bytes]
theorem inv_sub_bytes_shift_rows_2 (s : St) : inv_sub_bytes (shift_rows_2 s) = shift_rows_2 (inv_sub_bytes s) := by
  have h := sub_bytes_shift_rows_2 (inv_sub_bytes s)
  rw [sub_bytes_inv_sub_bytes] at h
  rw [← h, inv_sub_bytes_sub_bytes]
theorem inv_sub_bytes_shift_rows_3 (s : St) : inv_sub_bytes (shift_rows_3 s) = shift_rows_3 (inv_sub_bytes s) := by
  have h := sub_bytes_shift_rows_3 (inv_sub_bytes s)
  rw [sub_bytes_inv_sub_bytes] at h
  rw [← h, inv_sub_bytes_sub_bytes]

/-- **inverse S-box layer = FIPS-197 InvSubBytes in every lane** (representation 0) -/
theorem inv_sub_bytes_rep0 (b0 b1 b2 b3 : BitVec 128) :
    inv_sub_bytes (sub_bytes_nots (bitslice b0 b1 b2 b3)) =
      bitslice (invSubBytes b0) (invSubBytes b1) (invSubBytes b2) (invSubBytes b3) := by
  rw [inv_sub_bytes_nots_bitslice]; simp only [mapBytes_isbN]

theorem inv_sub_bytes_rep1 (b0 b1 b2 b3 : BitVec 128) :
    inv_sub_bytes (sub_bytes_nots (inv_shift_rows_1 (bitslice b0 b1 b2 b3))) =
      inv_shift_rows_1 (bitslice (invSubBytes b0) (invSubBytes b1) (invSubBytes b2) (invSubBytes b3)) := by
  simp only [inv_shift_rows_1]
  rw [← shift_rows_3_nots, inv_sub_bytes_shift_rows_3, inv_sub_bytes_rep0]

theorem inv_sub_bytes_rep2 (b0 b1 b2 b3 : BitVec 128) :
    inv_sub_bytes (sub_bytes_nots (inv_shift_rows_2 (bitslice b0 b1 b2 b3))) =
      inv_shift_rows_2 (bitslice (invSubBytes b0) (invSubBytes b1) (invSubBytes b2) (invSubBytes b3)) := by
  simp only [inv_shift_rows_2]
  rw [← shift_rows_2_nots, inv_sub_bytes_shift_rows_2, inv_sub_bytes_rep0]

theorem inv_sub_bytes_rep3 (b0 b1 b2 b3 : BitVec 128) :
    inv_sub_bytes (sub_bytes_nots (inv_shift_rows_3 (bitslice b0 b1 b2 b3))) =
      inv_shift_rows_3 (bitslice (invSubBytes b0) (invSubBytes b1) (invSubBytes b2) (invSubBytes b3)) := by
  simp only [inv_shift_rows_3]
  rw [← shift_rows_1_nots, inv_sub_bytes_shift_rows_1, inv_sub_bytes_rep0]

end BC.AesFs64
