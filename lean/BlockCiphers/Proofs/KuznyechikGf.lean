import BlockCiphers.Proofs.Basic
import BlockCiphers.Impl.Kuznyechik
import BlockCiphers.Spec.Kuznyechik
/-
Kuznyechik, field arithmetic: the model of the `const fn`s of /repo/kuznyechik/src/gft.rs computes the
multiplication of GF(2)[x]/(x^8+x^7+x^6+x+1) of GOST R 34.12-2015 (`Spec.Kuznyechik.gfmul`), every `GFT_c` table
entry is the product by `c`, and multiplication is additive.  `gfc` is a closed form (one AND-mask per bit of
the argument) used to hand multiplications by a constant to `bv_decide` as small circuits.
-/
namespace BC.Kuznyechik
open BC.Spec.Kuznyechik

/-- `mul_table_gf256(a)[x] = mul_gf256(a, x)` -/
theorem lut_mul_table (a x : BitVec 8) : lut (mul_table_gf256 a) x = mul_gf256 a x := by
  simp [lut, mul_table_gf256]

/-- the shift-and-add loop of `mul_gf256` is multiplication in the field of the standard, for all 65536 pairs -/
theorem mul_gf256_eq_gfmul (a b : BitVec 8) : mul_gf256 a b = gfmul a b := by
  simp only [mul_gf256, mul_gf256_loop, gfmul, reduce, clmul, List.range, List.range.loop, List.foldl]
  bv_decide (config := { timeout := 120 })

theorem GFT_16_eq (x : BitVec 8) : lut GFT_16 x = gfmul 16#8 x := by rw [GFT_16, lut_mul_table, mul_gf256_eq_gfmul]
theorem GFT_32_eq (x : BitVec 8) : lut GFT_32 x = gfmul 32#8 x := by rw [GFT_32, lut_mul_table, mul_gf256_eq_gfmul]
theorem GFT_133_eq (x : BitVec 8) : lut GFT_133 x = gfmul 133#8 x := by rw [GFT_133, lut_mul_table, mul_gf256_eq_gfmul]
theorem GFT_148_eq (x : BitVec 8) : lut GFT_148 x = gfmul 148#8 x := by rw [GFT_148, lut_mul_table, mul_gf256_eq_gfmul]
theorem GFT_192_eq (x : BitVec 8) : lut GFT_192 x = gfmul 192#8 x := by rw [GFT_192, lut_mul_table, mul_gf256_eq_gfmul]
theorem GFT_194_eq (x : BitVec 8) : lut GFT_194 x = gfmul 194#8 x := by rw [GFT_194, lut_mul_table, mul_gf256_eq_gfmul]
theorem GFT_251_eq (x : BitVec 8) : lut GFT_251 x = gfmul 251#8 x := by rw [GFT_251, lut_mul_table, mul_gf256_eq_gfmul]

/-- all ones if bit `k` of `x` is set, else zero -/
def bitmask (x : BitVec 8) (k : Nat) : BitVec 8 := (x <<< (7 - k)).sshiftRight 7

/-- `c · x` as Σ_k x_k · (c · x^k) -/
def gfc (c x : BitVec 8) : BitVec 8 :=
  (bitmask x 0 &&& gfmul c 1#8) ^^^ (bitmask x 1 &&& gfmul c 2#8) ^^^ (bitmask x 2 &&& gfmul c 4#8) ^^^
  (bitmask x 3 &&& gfmul c 8#8) ^^^ (bitmask x 4 &&& gfmul c 16#8) ^^^ (bitmask x 5 &&& gfmul c 32#8) ^^^
  (bitmask x 6 &&& gfmul c 64#8) ^^^ (bitmask x 7 &&& gfmul c 128#8)

theorem gfmul_eq_gfc (c x : BitVec 8) : gfmul c x = gfc c x := by
  simp only [gfc, bitmask, gfmul, reduce, clmul, List.range, List.range.loop, List.foldl]
  bv_decide (config := { timeout := 120 })

theorem gfmul_xor (c x y : BitVec 8) : gfmul c (x ^^^ y) = gfmul c x ^^^ gfmul c y := by
  simp only [gfmul, reduce, clmul, List.range, List.range.loop, List.foldl]
  bv_decide (config := { timeout := 120 })

theorem gfmul_one (x : BitVec 8) : gfmul 1#8 x = x := by
  simp only [gfmul, reduce, clmul, List.range, List.range.loop, List.foldl]
  bv_decide (config := { timeout := 120 })

theorem gfmul_comm (a b : BitVec 8) : gfmul a b = gfmul b a := by
  simp only [gfmul, reduce, clmul, List.range, List.range.loop, List.foldl]
  bv_decide (config := { timeout := 120 })

end BC.Kuznyechik
