import BlockCiphers.Proofs.Basic
import BlockCiphers.Impl.Xtea
namespace BC.Xtea

theorem decCycle_encCycle (k : Key) (s : St) : decCycle k (encCycle k s) = s := by
  cases s; simp [decCycle, encCycle, BitVec.add_sub_cancel]

theorem encCycle_decCycle (k : Key) (s : St) : encCycle k (decCycle k s) = s := by
  cases s; simp [decCycle, encCycle, BitVec.sub_add_cancel]

theorem decWords_encWords (k : Key) (s : St) : decWords k (encWords k s) = s := by
  simp [decWords, encWords, iter_inv _ _ (decCycle_encCycle k)]

theorem encWords_decWords (k : Key) (s : St) : encWords k (decWords k s) = s := by
  simp [decWords, encWords, iter_inv _ _ (encCycle_decCycle k)]

/-- sum after `n` encryption cycles -/
theorem encCycle_iter_sum (k : Key) (n : Nat) (s : St) :
    (iter (encCycle k) n s).sum = s.sum + DELTA * BitVec.ofNat 32 n := by
  induction n generalizing s with
  | zero => simp [iter]
  | succ n ih =>
    rw [iter, ih]; simp only [encCycle]
    have : BitVec.ofNat 32 (n + 1) = BitVec.ofNat 32 n + 1#32 := by
      simp [BitVec.ofNat_add]
    rw [this, BitVec.mul_add, BitVec.mul_one, BitVec.add_assoc, BitVec.add_comm DELTA]

theorem load_store (s : St) : load (store s) s.sum = s := by
  cases s with | mk v0 v1 sum =>
  simp only [load, store]
  have h0 : (bswap32 v0 ++ bswap32 v1).extractLsb' 32 32 = bswap32 v0 := by bv_decide (config := { timeout := 600 })
  have h1 : (bswap32 v0 ++ bswap32 v1).extractLsb' 0 32 = bswap32 v1 := by bv_decide (config := { timeout := 600 })
  rw [h0, h1, bswap32_bswap32, bswap32_bswap32]

theorem store_load (b : BitVec 64) (sum : BitVec 32) : store (load b sum) = b := by
  simp only [load, store, bswap32_bswap32]; bv_decide (config := { timeout := 600 })

theorem encWords_sum (k : Key) (s : St) : (encWords k s).sum = s.sum + DELTA * 32#32 := by
  simp only [encWords, encCycle_iter_sum]; bv_decide (config := { timeout := 600 })

theorem decrypt_encrypt (k : Key) (b : BitVec 64) : decrypt k (encrypt k b) = b := by
  unfold decrypt encrypt
  have hs : (encWords k (load b 0#32)).sum = DELTA * BitVec.ofNat 32 ROUNDS := by
    rw [encWords_sum]; simp [load, ROUNDS]
  rw [← hs, load_store, decWords_encWords, store_load]

end BC.Xtea
