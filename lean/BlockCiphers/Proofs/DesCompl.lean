import BlockCiphers.Proofs.DesSpec
/-
C05 key relation: the complementation property  DES(¬k, ¬b) = ¬DES(k, b),
proved for the standard (`Spec.Des`) and transferred to the Rust model through `desEnc_eq_spec`.
-/
namespace BC.Spec.Des

set_option maxRecDepth 100000

theorem permute_IP_not (x : BitVec 64) : permute IP 64 (~~~x) = ~~~permute IP 64 x := by
  simp only [permute, bit, IP, List.foldl]; bv_decide (config := { timeout := 600 })
theorem permute_FP_not (x : BitVec 64) : permute FP 64 (~~~x) = ~~~permute FP 64 x := by
  simp only [permute, bit, FP, List.foldl]; bv_decide (config := { timeout := 600 })
theorem permute_E_not (x : BitVec 32) : permute E 48 (~~~x) = ~~~permute E 48 x := by
  simp only [permute, bit, E, List.foldl]; bv_decide (config := { timeout := 600 })
theorem permute_PC1_not (x : BitVec 64) : permute PC1 56 (~~~x) = ~~~permute PC1 56 x := by
  simp only [permute, bit, PC1, List.foldl]; bv_decide (config := { timeout := 600 })
theorem permute_PC2_not (x : BitVec 56) : permute PC2 48 (~~~x) = ~~~permute PC2 48 x := by
  simp only [permute, bit, PC2, List.foldl]; bv_decide (config := { timeout := 600 })

/-- E(¬R) ⊕ ¬K = E(R) ⊕ K: the S-box input, hence f, is invariant under the double complement -/
theorem f_not (r : BitVec 32) (k : BitVec 48) : f (~~~r) (~~~k) = f r k := by
  unfold f
  rw [permute_E_not]
  generalize permute E 48 r = er
  have : ~~~er ^^^ ~~~k = er ^^^ k := by bv_decide (config := { timeout := 600 })
  rw [this]

def LR.not (s : LR) : LR := { l := ~~~s.l, r := ~~~s.r }

theorem iteration_not (s : LR) (k : BitVec 48) : iteration s.not (~~~k) = (iteration s k).not := by
  cases s with | mk l r =>
  simp only [iteration, LR.not, f_not, LR.mk.injEq, true_and]
  generalize f r k = t
  bv_decide (config := { timeout := 600 })

theorem iterations_not (ks : List (BitVec 48)) (s : LR) :
    (ks.map (~~~·)).foldl iteration s.not = (ks.foldl iteration s).not := by
  induction ks generalizing s with
  | nil => rfl
  | cons k ks ih => simp only [List.map_cons, List.foldl_cons, iteration_not, ih]

theorem cipher_not (ks : List (BitVec 48)) (b : BitVec 64) :
    cipher (ks.map (~~~·)) (~~~b) = ~~~cipher ks b := by
  unfold cipher
  simp only [permute_IP_not]
  generalize permute IP 64 b = x
  have h : ({ l := (~~~x).extractLsb' 32 32, r := (~~~x).extractLsb' 0 32 } : LR)
      = LR.not { l := x.extractLsb' 32 32, r := x.extractLsb' 0 32 } := by
    simp only [LR.not, LR.mk.injEq]; constructor <;> bv_decide (config := { timeout := 600 })
  rw [h, iterations_not]
  generalize List.foldl iteration _ ks = s
  cases s with | mk l r =>
  simp only [LR.not]
  have : ~~~r ++ ~~~l = ~~~(r ++ l) := by bv_decide (config := { timeout := 600 })
  rw [this, permute_FP_not]

theorem rotl1_not (c : BitVec 28) : (~~~c).rotateLeft 1 = ~~~c.rotateLeft 1 := by bv_decide (config := { timeout := 600 })
theorem rotl2_not (c : BitVec 28) : (~~~c).rotateLeft 2 = ~~~c.rotateLeft 2 := by bv_decide (config := { timeout := 600 })

theorem schedule_not (ss : List Nat) (hs : ∀ s ∈ ss, s = 1 ∨ s = 2) (c d : BitVec 28) :
    schedule (~~~c) (~~~d) ss = (schedule c d ss).map (~~~·) := by
  induction ss generalizing c d with
  | nil => rfl
  | cons s ss ih =>
    have ih' := ih (fun t ht => hs t (List.mem_cons_of_mem _ ht))
    have hcat : ∀ a b : BitVec 28, ~~~a ++ ~~~b = ~~~(a ++ b) := by intro a b; bv_decide (config := { timeout := 600 })
    have hpc2 : ∀ x : BitVec (28 + 28), permute PC2 48 (~~~x) = ~~~permute PC2 48 x := permute_PC2_not
    rcases hs s List.mem_cons_self with h | h
    · subst h; simp only [schedule, List.map_cons, rotl1_not, ih', hcat, hpc2]
    · subst h; simp only [schedule, List.map_cons, rotl2_not, ih', hcat, hpc2]

theorem roundKeys_not (k : BitVec 64) : roundKeys (~~~k) = (roundKeys k).map (~~~·) := by
  unfold roundKeys
  simp only [permute_PC1_not]
  generalize permute PC1 56 k = cd
  have h1 : (~~~cd).extractLsb' 28 28 = ~~~cd.extractLsb' 28 28 := by bv_decide (config := { timeout := 600 })
  have h2 : (~~~cd).extractLsb' 0 28 = ~~~cd.extractLsb' 0 28 := by bv_decide (config := { timeout := 600 })
  rw [h1, h2]
  exact schedule_not _ (by decide) _ _

/-- complementation property of the standard -/
theorem des_complement (k b : BitVec 64) : des (~~~k) (~~~b) = ~~~des k b := by
  unfold des; rw [roundKeys_not, cipher_not]

theorem desInv_complement (k b : BitVec 64) : desInv (~~~k) (~~~b) = ~~~desInv k b := by
  unfold desInv; rw [roundKeys_not, ← List.map_reverse, cipher_not]

end BC.Spec.Des

namespace BC.Des

/-- complementation property of the Rust model: `Des(¬k).encrypt(¬b) = ¬Des(k).encrypt(b)` -/
theorem desEnc_complement (k b : BitVec 64) : desEnc (~~~k) (~~~b) = ~~~desEnc k b := by
  simp only [desEnc_eq_spec, BC.Spec.Des.des_complement]

theorem desDec_complement (k b : BitVec 64) : desDec (~~~k) (~~~b) = ~~~desDec k b := by
  simp only [desDec_eq_spec, BC.Spec.Des.desInv_complement]

end BC.Des
