import BlockCiphers.Gen.Cipher_Xtea
import BlockCiphers.Gen.Keys_Xtea
import BlockCiphers.Proofs.GenCipherXtea
import BlockCiphers.Proofs.GenKeysXtea
import BlockCiphers.Proofs.Xtea
/-!
Code-level theorems for XTEA: statements mention ONLY the regenerated code (`BC.Gen.Fn.xtea_new`,
`xtea_encrypt_block`, `xtea_decrypt_block`).  Composition of
  (1) `BC.Xtea.decrypt_encrypt` (Proofs/Xtea.lean),
  (2) `BC.GenCipher.Xtea.encrypt_block_eq'/decrypt_block_eq'`,
  (3) `BC.GenKeys.Xtea.xtea_new_eq`, `xtea_new_from_slice_16_eq`.
XTEA has no separate specification text in the framework (see Thm/C09), so there is no `enc_eq_spec`.
-/
set_option maxRecDepth 100000
namespace BC.Code.Xtea
open BC BC.Gen.Fn

/-- `Xtea::new(key).encrypt_block(b)` on the regenerated code -/
def enc (key : BitVec 128) (b : BitVec 64) : BitVec 64 :=
  match xtea_new key with
  | (k0, k1, k2, k3) => xtea_encrypt_block k0 k1 k2 k3 b

/-- `Xtea::new(key).decrypt_block(b)` on the regenerated code -/
def dec (key : BitVec 128) (b : BitVec 64) : BitVec 64 :=
  match xtea_new key with
  | (k0, k1, k2, k3) => xtea_decrypt_block k0 k1 k2 k3 b

/-- the same through `Xtea::new_from_slice` with a 16-byte slice -/
def enc_slice (key : BitVec 128) (b : BitVec 64) : BitVec 64 :=
  match xtea_new_from_slice_16 key with
  | (k0, k1, k2, k3) => xtea_encrypt_block k0 k1 k2 k3 b

def dec_slice (key : BitVec 128) (b : BitVec 64) : BitVec 64 :=
  match xtea_new_from_slice_16 key with
  | (k0, k1, k2, k3) => xtea_decrypt_block k0 k1 k2 k3 b

/-! ### bridges to the model -/

theorem enc_eq_impl (key : BitVec 128) (b : BitVec 64) :
    enc key b = BC.Xtea.encrypt (BC.Xtea.keyOfBits key) b := by
  simp only [enc, BC.GenKeys.Xtea.xtea_new_eq, BC.GenKeys.Xtea.Key.tuple, BC.GenCipher.Xtea.encrypt_block_eq']

theorem dec_eq_impl (key : BitVec 128) (b : BitVec 64) :
    dec key b = BC.Xtea.decrypt (BC.Xtea.keyOfBits key) b := by
  simp only [dec, BC.GenKeys.Xtea.xtea_new_eq, BC.GenKeys.Xtea.Key.tuple, BC.GenCipher.Xtea.decrypt_block_eq']

theorem enc_slice_eq_enc (key : BitVec 128) (b : BitVec 64) : enc_slice key b = enc key b := by
  simp only [enc_slice, enc, BC.GenKeys.Xtea.xtea_new_from_slice_16_eq, BC.GenKeys.Xtea.xtea_new_eq]

theorem dec_slice_eq_dec (key : BitVec 128) (b : BitVec 64) : dec_slice key b = dec key b := by
  simp only [dec_slice, dec, BC.GenKeys.Xtea.xtea_new_from_slice_16_eq, BC.GenKeys.Xtea.xtea_new_eq]

/-! ### glue on the model: the mirror image of `BC.Xtea.decrypt_encrypt`
(Proofs/Xtea.lean has only the `decrypt ∘ encrypt` direction; the other one needs the value of `sum` after the
decryption cycles, proved exactly like `encCycle_iter_sum`). -/

private theorem decCycle_iter_sum (k : BC.Xtea.Key) (n : Nat) (s : BC.Xtea.St) :
    (iter (BC.Xtea.decCycle k) n s).sum = s.sum - BC.Xtea.DELTA * BitVec.ofNat 32 n := by
  induction n generalizing s with
  | zero => simp [iter]
  | succ n ih =>
    rw [iter, ih]; simp only [BC.Xtea.decCycle]
    have : BitVec.ofNat 32 (n + 1) = BitVec.ofNat 32 n + 1#32 := by
      simp [BitVec.ofNat_add]
    rw [this, BitVec.mul_add, BitVec.mul_one]
    generalize BC.Xtea.DELTA * BitVec.ofNat 32 n = x
    generalize BC.Xtea.DELTA = d
    generalize s.sum = y
    bv_decide (config := { timeout := 300 })

private theorem decWords_sum (k : BC.Xtea.Key) (s : BC.Xtea.St) :
    (BC.Xtea.decWords k s).sum = s.sum - BC.Xtea.DELTA * 32#32 := by
  simp only [BC.Xtea.decWords, decCycle_iter_sum]
  generalize s.sum = y
  simp only [BC.Xtea.DELTA]
  bv_decide (config := { timeout := 300 })

private theorem impl_encrypt_decrypt (k : BC.Xtea.Key) (b : BitVec 64) :
    BC.Xtea.encrypt k (BC.Xtea.decrypt k b) = b := by
  unfold BC.Xtea.decrypt BC.Xtea.encrypt
  have hs : (BC.Xtea.decWords k (BC.Xtea.load b (BC.Xtea.DELTA * BitVec.ofNat 32 BC.Xtea.ROUNDS))).sum = 0#32 := by
    rw [decWords_sum]; simp [BC.Xtea.load, BC.Xtea.ROUNDS]
  rw [← hs, BC.Xtea.load_store, BC.Xtea.encWords_decWords, BC.Xtea.store_load]

/-! ### round trips on the regenerated code -/

theorem dec_enc (key : BitVec 128) (b : BitVec 64) : dec key (enc key b) = b := by
  rw [enc_eq_impl, dec_eq_impl, BC.Xtea.decrypt_encrypt]

theorem enc_dec (key : BitVec 128) (b : BitVec 64) : enc key (dec key b) = b := by
  rw [enc_eq_impl, dec_eq_impl, impl_encrypt_decrypt]

theorem dec_slice_enc_slice (key : BitVec 128) (b : BitVec 64) : dec_slice key (enc_slice key b) = b := by
  rw [enc_slice_eq_enc, dec_slice_eq_dec, dec_enc]

theorem enc_slice_dec_slice (key : BitVec 128) (b : BitVec 64) : enc_slice key (dec_slice key b) = b := by
  rw [enc_slice_eq_enc, dec_slice_eq_dec, enc_dec]

end BC.Code.Xtea
