import BlockCiphers.Gen.Cipher_Camellia
import BlockCiphers.Gen.Keys_Camellia
import BlockCiphers.Proofs.GenCipherCamellia
import BlockCiphers.Proofs.GenKeysCamellia
import BlockCiphers.Proofs.Camellia
import BlockCiphers.Proofs.CamelliaSpec
/-!
Code-level theorems for Camellia-128/192/256: statements mention ONLY the regenerated code
(`BC.Gen.Fn.camellia{128,192,256}_new`, `camellia_rk{26,34}_{encrypt,decrypt}_block`) and the specification
`BC.Spec.Camellia` (RFC 3713).  Composition of
  (1) `BC.Camellia.decrypt_encrypt{128,192,256}`, `encrypt_decrypt…` (Proofs/Camellia.lean; Thm C01),
      `encrypt{128,192,256}_eq_spec`, `decrypt…_eq_spec` (Proofs/CamelliaSpec.lean; Thm C06),
  (2) `BC.GenCipher.Camellia.rk{26,34}_{encrypt,decrypt}_eq`,
  (3) `BC.GenKeys.Camellia.new{128,192,256}_eq`.
-/
set_option maxRecDepth 100000
namespace BC.Code.Camellia
open BC BC.Gen.Fn

/-! ## Camellia-128 -/

/-- `Camellia128::new(key).encrypt_block(b)` on the regenerated code -/
def enc128 (key : BitVec 128) (b : BitVec 128) : BitVec 128 :=
  match camellia128_new key with
  | (k0, k1, k2, k3, k4, k5, k6, k7, k8, k9, k10, k11, k12, k13, k14, k15, k16, k17, k18, k19, k20, k21, k22, k23, k24, k25) =>
    camellia_rk26_encrypt_block k0 k1 k2 k3 k4 k5 k6 k7 k8 k9 k10 k11 k12 k13 k14 k15 k16 k17 k18 k19 k20 k21 k22 k23 k24 k25 b

/-- `Camellia128::new(key).decrypt_block(b)` on the regenerated code -/
def dec128 (key : BitVec 128) (b : BitVec 128) : BitVec 128 :=
  match camellia128_new key with
  | (k0, k1, k2, k3, k4, k5, k6, k7, k8, k9, k10, k11, k12, k13, k14, k15, k16, k17, k18, k19, k20, k21, k22, k23, k24, k25) =>
    camellia_rk26_decrypt_block k0 k1 k2 k3 k4 k5 k6 k7 k8 k9 k10 k11 k12 k13 k14 k15 k16 k17 k18 k19 k20 k21 k22 k23 k24 k25 b

theorem enc128_eq_impl (key : BitVec 128) (b : BitVec 128) : enc128 key b = BC.Camellia.encrypt128 key b := by
  rw [BC.Camellia.encrypt128, BC.GenKeys.Camellia.new128_eq key]
  unfold enc128
  generalize camellia128_new key = t
  obtain ⟨k0, k1, k2, k3, k4, k5, k6, k7, k8, k9, k10, k11, k12, k13, k14, k15, k16, k17, k18, k19, k20, k21, k22, k23, k24, k25⟩ := t
  exact BC.GenCipher.Camellia.rk26_encrypt_eq k0 k1 k2 k3 k4 k5 k6 k7 k8 k9 k10 k11 k12 k13 k14 k15 k16 k17 k18 k19 k20 k21 k22 k23 k24 k25 b

theorem dec128_eq_impl (key : BitVec 128) (b : BitVec 128) : dec128 key b = BC.Camellia.decrypt128 key b := by
  rw [BC.Camellia.decrypt128, BC.GenKeys.Camellia.new128_eq key]
  unfold dec128
  generalize camellia128_new key = t
  obtain ⟨k0, k1, k2, k3, k4, k5, k6, k7, k8, k9, k10, k11, k12, k13, k14, k15, k16, k17, k18, k19, k20, k21, k22, k23, k24, k25⟩ := t
  exact BC.GenCipher.Camellia.rk26_decrypt_eq k0 k1 k2 k3 k4 k5 k6 k7 k8 k9 k10 k11 k12 k13 k14 k15 k16 k17 k18 k19 k20 k21 k22 k23 k24 k25 b

theorem dec128_enc128 (key : BitVec 128) (b : BitVec 128) : dec128 key (enc128 key b) = b := by
  rw [enc128_eq_impl, dec128_eq_impl, BC.Camellia.decrypt_encrypt128]

theorem enc128_dec128 (key : BitVec 128) (b : BitVec 128) : enc128 key (dec128 key b) = b := by
  rw [enc128_eq_impl, dec128_eq_impl, BC.Camellia.encrypt_decrypt128]

/-- the regenerated Camellia-128 encryption is RFC 3713 encryption, for every key and block -/
theorem enc128_eq_spec (key : BitVec 128) (b : BitVec 128) : enc128 key b = BC.Spec.Camellia.encrypt128 key b := by
  rw [enc128_eq_impl, BC.Camellia.encrypt128_eq_spec]

theorem dec128_eq_spec (key : BitVec 128) (b : BitVec 128) : dec128 key b = BC.Spec.Camellia.decrypt128 key b := by
  rw [dec128_eq_impl, BC.Camellia.decrypt128_eq_spec]

/-! ## Camellia-192 -/

/-- `Camellia192::new(key).encrypt_block(b)` on the regenerated code -/
def enc192 (key : BitVec 192) (b : BitVec 128) : BitVec 128 :=
  match camellia192_new key with
  | (k0, k1, k2, k3, k4, k5, k6, k7, k8, k9, k10, k11, k12, k13, k14, k15, k16, k17, k18, k19, k20, k21, k22, k23, k24, k25, k26, k27, k28, k29, k30, k31, k32, k33) =>
    camellia_rk34_encrypt_block k0 k1 k2 k3 k4 k5 k6 k7 k8 k9 k10 k11 k12 k13 k14 k15 k16 k17 k18 k19 k20 k21 k22 k23 k24 k25 k26 k27 k28 k29 k30 k31 k32 k33 b

/-- `Camellia192::new(key).decrypt_block(b)` on the regenerated code -/
def dec192 (key : BitVec 192) (b : BitVec 128) : BitVec 128 :=
  match camellia192_new key with
  | (k0, k1, k2, k3, k4, k5, k6, k7, k8, k9, k10, k11, k12, k13, k14, k15, k16, k17, k18, k19, k20, k21, k22, k23, k24, k25, k26, k27, k28, k29, k30, k31, k32, k33) =>
    camellia_rk34_decrypt_block k0 k1 k2 k3 k4 k5 k6 k7 k8 k9 k10 k11 k12 k13 k14 k15 k16 k17 k18 k19 k20 k21 k22 k23 k24 k25 k26 k27 k28 k29 k30 k31 k32 k33 b

theorem enc192_eq_impl (key : BitVec 192) (b : BitVec 128) : enc192 key b = BC.Camellia.encrypt192 key b := by
  rw [BC.Camellia.encrypt192, BC.GenKeys.Camellia.new192_eq key]
  unfold enc192
  generalize camellia192_new key = t
  obtain ⟨k0, k1, k2, k3, k4, k5, k6, k7, k8, k9, k10, k11, k12, k13, k14, k15, k16, k17, k18, k19, k20, k21, k22, k23, k24, k25, k26, k27, k28, k29, k30, k31, k32, k33⟩ := t
  exact BC.GenCipher.Camellia.rk34_encrypt_eq k0 k1 k2 k3 k4 k5 k6 k7 k8 k9 k10 k11 k12 k13 k14 k15 k16 k17 k18 k19 k20 k21 k22 k23 k24 k25 k26 k27 k28 k29 k30 k31 k32 k33 b

theorem dec192_eq_impl (key : BitVec 192) (b : BitVec 128) : dec192 key b = BC.Camellia.decrypt192 key b := by
  rw [BC.Camellia.decrypt192, BC.GenKeys.Camellia.new192_eq key]
  unfold dec192
  generalize camellia192_new key = t
  obtain ⟨k0, k1, k2, k3, k4, k5, k6, k7, k8, k9, k10, k11, k12, k13, k14, k15, k16, k17, k18, k19, k20, k21, k22, k23, k24, k25, k26, k27, k28, k29, k30, k31, k32, k33⟩ := t
  exact BC.GenCipher.Camellia.rk34_decrypt_eq k0 k1 k2 k3 k4 k5 k6 k7 k8 k9 k10 k11 k12 k13 k14 k15 k16 k17 k18 k19 k20 k21 k22 k23 k24 k25 k26 k27 k28 k29 k30 k31 k32 k33 b

theorem dec192_enc192 (key : BitVec 192) (b : BitVec 128) : dec192 key (enc192 key b) = b := by
  rw [enc192_eq_impl, dec192_eq_impl, BC.Camellia.decrypt_encrypt192]

theorem enc192_dec192 (key : BitVec 192) (b : BitVec 128) : enc192 key (dec192 key b) = b := by
  rw [enc192_eq_impl, dec192_eq_impl, BC.Camellia.encrypt_decrypt192]

/-- the regenerated Camellia-192 encryption is RFC 3713 encryption, for every key and block -/
theorem enc192_eq_spec (key : BitVec 192) (b : BitVec 128) : enc192 key b = BC.Spec.Camellia.encrypt192 key b := by
  rw [enc192_eq_impl, BC.Camellia.encrypt192_eq_spec]

theorem dec192_eq_spec (key : BitVec 192) (b : BitVec 128) : dec192 key b = BC.Spec.Camellia.decrypt192 key b := by
  rw [dec192_eq_impl, BC.Camellia.decrypt192_eq_spec]

/-! ## Camellia-256 -/

/-- `Camellia256::new(key).encrypt_block(b)` on the regenerated code -/
def enc256 (key : BitVec 256) (b : BitVec 128) : BitVec 128 :=
  match camellia256_new key with
  | (k0, k1, k2, k3, k4, k5, k6, k7, k8, k9, k10, k11, k12, k13, k14, k15, k16, k17, k18, k19, k20, k21, k22, k23, k24, k25, k26, k27, k28, k29, k30, k31, k32, k33) =>
    camellia_rk34_encrypt_block k0 k1 k2 k3 k4 k5 k6 k7 k8 k9 k10 k11 k12 k13 k14 k15 k16 k17 k18 k19 k20 k21 k22 k23 k24 k25 k26 k27 k28 k29 k30 k31 k32 k33 b

/-- `Camellia256::new(key).decrypt_block(b)` on the regenerated code -/
def dec256 (key : BitVec 256) (b : BitVec 128) : BitVec 128 :=
  match camellia256_new key with
  | (k0, k1, k2, k3, k4, k5, k6, k7, k8, k9, k10, k11, k12, k13, k14, k15, k16, k17, k18, k19, k20, k21, k22, k23, k24, k25, k26, k27, k28, k29, k30, k31, k32, k33) =>
    camellia_rk34_decrypt_block k0 k1 k2 k3 k4 k5 k6 k7 k8 k9 k10 k11 k12 k13 k14 k15 k16 k17 k18 k19 k20 k21 k22 k23 k24 k25 k26 k27 k28 k29 k30 k31 k32 k33 b

theorem enc256_eq_impl (key : BitVec 256) (b : BitVec 128) : enc256 key b = BC.Camellia.encrypt256 key b := by
  rw [BC.Camellia.encrypt256, BC.GenKeys.Camellia.new256_eq key]
  unfold enc256
  generalize camellia256_new key = t
  obtain ⟨k0, k1, k2, k3, k4, k5, k6, k7, k8, k9, k10, k11, k12, k13, k14, k15, k16, k17, k18, k19, k20, k21, k22, k23, k24, k25, k26, k27, k28, k29, k30, k31, k32, k33⟩ := t
  exact BC.GenCipher.Camellia.rk34_encrypt_eq k0 k1 k2 k3 k4 k5 k6 k7 k8 k9 k10 k11 k12 k13 k14 k15 k16 k17 k18 k19 k20 k21 k22 k23 k24 k25 k26 k27 k28 k29 k30 k31 k32 k33 b

theorem dec256_eq_impl (key : BitVec 256) (b : BitVec 128) : dec256 key b = BC.Camellia.decrypt256 key b := by
  rw [BC.Camellia.decrypt256, BC.GenKeys.Camellia.new256_eq key]
  unfold dec256
  generalize camellia256_new key = t
  obtain ⟨k0, k1, k2, k3, k4, k5, k6, k7, k8, k9, k10, k11, k12, k13, k14, k15, k16, k17, k18, k19, k20, k21, k22, k23, k24, k25, k26, k27, k28, k29, k30, k31, k32, k33⟩ := t
  exact BC.GenCipher.Camellia.rk34_decrypt_eq k0 k1 k2 k3 k4 k5 k6 k7 k8 k9 k10 k11 k12 k13 k14 k15 k16 k17 k18 k19 k20 k21 k22 k23 k24 k25 k26 k27 k28 k29 k30 k31 k32 k33 b

theorem dec256_enc256 (key : BitVec 256) (b : BitVec 128) : dec256 key (enc256 key b) = b := by
  rw [enc256_eq_impl, dec256_eq_impl, BC.Camellia.decrypt_encrypt256]

theorem enc256_dec256 (key : BitVec 256) (b : BitVec 128) : enc256 key (dec256 key b) = b := by
  rw [enc256_eq_impl, dec256_eq_impl, BC.Camellia.encrypt_decrypt256]

/-- the regenerated Camellia-256 encryption is RFC 3713 encryption, for every key and block -/
theorem enc256_eq_spec (key : BitVec 256) (b : BitVec 128) : enc256 key b = BC.Spec.Camellia.encrypt256 key b := by
  rw [enc256_eq_impl, BC.Camellia.encrypt256_eq_spec]

theorem dec256_eq_spec (key : BitVec 256) (b : BitVec 128) : dec256 key b = BC.Spec.Camellia.decrypt256 key b := by
  rw [dec256_eq_impl, BC.Camellia.decrypt256_eq_spec]

end BC.Code.Camellia
