import Std.Tactic.BVDecide
import BlockCiphers.Proofs.Basic
import BlockCiphers.Proofs.AesSpec
import BlockCiphers.Proofs.AesNiRound
import BlockCiphers.Impl.AesArmv8
/-
ARMv8 model, part 1: the instructions in FIPS-197 terms, and — for ANY round-key array that agrees with a
FIPS-197 key schedule `w` — `encrypt = Spec.cipher`, `decrypt ∘ inv_expanded_keys = Spec.invCipher`.

AESE/AESD add the round key *before* SubBytes/ShiftRows, so the ARM loop state `x_r` and the FIPS state `s_r`
(after `r` rounds) are related by `s_r = x_r ⊕ k_r`; for decryption the same with the transformed keys, using
that AESIMC = InvMixColumns is linear (the equivalent-inverse-cipher argument of FIPS-197 §5.3.5).
The byte-order conversion `rev128`, `KeysMatch` and the list lemmas are those of `Proofs/AesNiRound.lean`
(the two register models share their representation).
-/
namespace BC.AesArmv8
open BC BC.X86 BC.Arm BC.Spec.Aes BC.AesNi

/-! ### the instructions seen from memory, i.e. on `Spec.Aes` states -/

theorem vaese_spec (x k : BitVec 128) :
    rev128 (vaeseq_u8 x k) = shiftRows (subBytes (rev128 x ^^^ rev128 k)) := by
  simp only [vaeseq_u8, ofState, toState, rev128_xor, rev128_rev128, subBytes_shiftRows]

theorem vaesd_spec (x k : BitVec 128) :
    rev128 (vaesdq_u8 x k) = invSubBytes (invShiftRows (rev128 x ^^^ rev128 k)) := by
  simp only [vaesdq_u8, ofState, toState, rev128_xor, rev128_rev128]

theorem vaesmc_spec (x : BitVec 128) : rev128 (vaesmcq_u8 x) = mixColumns (rev128 x) := by
  simp only [vaesmcq_u8, ofState, toState, rev128_rev128]

theorem vaesimc_spec (x : BitVec 128) : rev128 (vaesimcq_u8 x) = invMixColumns (rev128 x) := by
  simp only [vaesimcq_u8, ofState, toState, rev128_rev128]

theorem vdupq_n_u8_zero : vdupq_n_u8 0#8 = 0#128 := by decide

/-- AESIMC is the same function in both register models -/
theorem vaesimcq_eq_aesimc (x : BitVec 128) : vaesimcq_u8 x = _mm_aesimc_si128 x := rfl

/-- `inv_expanded_keys` (expand.rs of armv8) and `inv_keys` (expand.rs of ni) are the same code up to the name
of the intrinsic -/
theorem inv_expanded_keys_eq (keys : List (BitVec 128)) : inv_expanded_keys keys = AesNi.inv_keys keys := rfl

/-! ### indexed fold relation -/

theorem foldl_rel_idx {β γ : Type} (R : Nat → β → γ → Prop) (f : β → Nat → β) (g : γ → Nat → γ) (m : Nat)
    (h : ∀ r, r < m → ∀ x s, R r x s → R (r + 1) (f x r) (g s r)) (x : β) (s : γ) (h0 : R 0 x s) :
    R m ((List.range m).foldl f x) ((List.range m).foldl g s) := by
  induction m with
  | zero => exact h0
  | succ m ih =>
    rw [List.range_succ, List.foldl_append, List.foldl_append, List.foldl_cons, List.foldl_nil,
      List.foldl_cons, List.foldl_nil]
    exact h m (by omega) _ _ (ih (fun r hr => h r (by omega)))

theorem xor_xor_cancel (a b : BitVec 128) : a ^^^ b ^^^ b = a := by
  rw [BitVec.xor_assoc, BitVec.xor_self, BitVec.xor_zero]

/-! ### `encrypt` is the FIPS-197 Cipher for any key array that matches a FIPS key schedule -/

theorem encrypt_eq_cipher (keys : List (BitVec 128)) (nr : Nat) (w : Array (BitVec 32))
    (hm : KeysMatch keys nr w) (hnr : 1 ≤ nr) (b : BitVec 128) :
    encrypt keys b = cipher nr w b := by
  obtain ⟨hlen, hk⟩ := hm
  rw [cipher_eq]
  simp only [encrypt, vld1q_u8, vst1q_u8, veorq_u8, hlen]
  have e1 : nr + 1 - 2 = nr - 1 := by omega
  have e2 : nr + 1 - 1 = nr := by omega
  rw [e1, e2, foldl_take _ 0#128 (nr - 1) keys _ (by omega), rev128_xor, vaese_spec, hk nr (by omega),
    hk (nr - 1) (by omega)]
  simp only [addRoundKey]
  congr 3
  -- FIPS state after r rounds = ARM loop state after r iterations ⊕ round key r
  have := foldl_rel_idx (fun r x s => rev128 x ^^^ roundKey w r = s)
    (fun x r => vaesmcq_u8 (vaeseq_u8 x (keys.getD r 0#128)))
    (fun s r => encRound (roundKey w (r + 1)) s) (nr - 1)
    (by
      intro r hr x s hxs
      rw [vaesmc_spec, vaese_spec, hk r (by omega), hxs, encRound, addRoundKey])
    (rev128 b) (b ^^^ roundKey w 0) (by rw [rev128_rev128])
  exact this

/-! ### `decrypt` with `inv_expanded_keys` is the FIPS-197 InvCipher (the direct one of §5.3) -/

theorem decrypt_inv_keys_eq_invCipher (keys : List (BitVec 128)) (nr : Nat) (w : Array (BitVec 32))
    (hm : KeysMatch keys nr w) (hnr : 1 ≤ nr) (b : BitVec 128) :
    decrypt (inv_expanded_keys keys) b = invCipher nr w b := by
  obtain ⟨hlen, hk⟩ := hm
  rw [invCipher_eq, inv_expanded_keys_eq]
  simp only [decrypt, vld1q_u8, vst1q_u8, veorq_u8, inv_keys_length, hlen]
  have e1 : nr + 1 - 2 = nr - 1 := by omega
  have e2 : nr + 1 - 1 = nr := by omega
  have hl := inv_keys_last keys (by omega)
  have hf := inv_keys_first keys (by omega)
  rw [hlen, e2] at hl hf
  -- the keys the ARM loop sees, in FIPS terms
  have ik : ∀ r, r ≤ nr - 1 → rev128 ((inv_keys keys).getD r 0#128) =
      if r = 0 then roundKey w nr else invMixColumns (roundKey w (nr - r)) := by
    intro r hr
    by_cases h0 : r = 0
    · subst h0; rw [if_pos rfl, hf, hk nr (by omega)]
    · rw [if_neg h0, inv_keys_mid keys r (by omega) (by omega), aesimc_spec]
      have e3 : keys.length - 1 - r = nr - r := by omega
      rw [e3, hk (nr - r) (by omega)]
  rw [e1, e2, foldl_take _ 0#128 (nr - 1) (inv_keys keys) _ (by rw [inv_keys_length]; omega), rev128_xor,
    vaesd_spec, hl, hk 0 (by omega)]
  simp only [addRoundKey]
  congr 3
  have := foldl_rel_idx (fun r x s => rev128 x ^^^ rev128 ((inv_keys keys).getD r 0#128) = s)
    (fun x r => vaesimcq_u8 (vaesdq_u8 x ((inv_keys keys).getD r 0#128)))
    (fun s r => decRound (roundKey w (nr - 1 - r)) s) (nr - 1)
    (by
      intro r hr x s hxs
      rw [vaesimc_spec, vaesd_spec, hxs, ik (r + 1) (by omega), if_neg (by omega), decRound, addRoundKey,
        invMixColumns_xor]
      have e4 : nr - (r + 1) = nr - 1 - r := by omega
      rw [e4])
    (rev128 b) (b ^^^ roundKey w nr) (by rw [rev128_rev128, ik 0 (by omega), if_pos rfl])
  rw [← this]

end BC.AesArmv8
