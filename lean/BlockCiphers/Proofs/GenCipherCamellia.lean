import BlockCiphers.Gen.Cipher_Camellia
import BlockCiphers.Impl.Camellia
import BlockCiphers.Proofs.GenTables
import Std.Tactic.BVDecide
/-!
Tie theorems: the regenerated `Camellia<_, 26>::encrypt_block` / `decrypt_block` (Camellia-128) and
`Camellia<_, 34>::…` (Camellia-192/256) (`BC.Gen.Fn.camellia_rk26_*`, `camellia_rk34_*`, translated from the current
Rust text: loops unrolled, `f` / `fl` / `flinv` inlined, `SBOXES` read from the regenerated `Gen/Tables.lean`) ARE the
model functions `BC.Camellia.encryptWith` / `decryptWith` (and `encryptBlock` / `decryptBlock` on the subkey array),
for all subkeys `k[0..RK]` and all blocks.
-/
set_option maxRecDepth 100000
namespace BC.GenCipher.Camellia
open BC BC.Camellia BC.Gen.Fn

/-! ### the four S-boxes: flattened `SBOXES[j][x]` of the regenerated table = the model's `sbJ x` -/

/-- a 256-entry slice of a regenerated (flattened) table that equals a model table, read at `off + n` -/
theorem tbl_of_slice (T : Array Nat) (S : Array (BitVec 8)) (off : Nat)
    (h : (T.toList.drop off).take S.size = S.toList.map BitVec.toNat) (n : Nat) (hn : n < S.size) :
    BC.Gen.tblAt T (off + n) 8 = S[n] := by
  have h1 : ((T.toList.drop off).take S.size)[n]? = (S.toList.map BitVec.toNat)[n]? := by rw [h]
  rw [List.getElem?_take_of_lt hn, List.getElem?_drop, List.getElem?_map, Array.getElem?_toList,
    Array.getElem?_toList, Array.getElem?_eq_getElem hn] at h1
  simp only [Option.map_some] at h1
  simp only [BC.Gen.tblAt, Array.getD_eq_getD_getElem?, h1, Option.getD_some, BitVec.ofNat_toNat, BitVec.setWidth_eq]

theorem slice1 : (BC.Gen.camellia_SBOXES.toList.drop 0).take SBOX1.size = SBOX1.toList.map BitVec.toNat := by decide +kernel
theorem slice2 : (BC.Gen.camellia_SBOXES.toList.drop 256).take SBOX2.size = SBOX2.toList.map BitVec.toNat := by decide +kernel
theorem slice3 : (BC.Gen.camellia_SBOXES.toList.drop 512).take SBOX3.size = SBOX3.toList.map BitVec.toNat := by decide +kernel
theorem slice4 : (BC.Gen.camellia_SBOXES.toList.drop 768).take SBOX4.size = SBOX4.toList.map BitVec.toNat := by decide +kernel

theorem idx_eq (v : BitVec 8) : (v.setWidth 64).toNat = v.toNat := by
  simp only [BitVec.toNat_setWidth]; omega

theorem sb1_at (v : BitVec 8) : BC.Gen.tblAt BC.Gen.camellia_SBOXES ((v.setWidth 64).toNat) 8 = sb1 v := by
  rw [idx_eq, ← Nat.zero_add v.toNat]; exact tbl_of_slice _ _ 0 slice1 _ _
theorem sb2_at (v : BitVec 8) : BC.Gen.tblAt BC.Gen.camellia_SBOXES (256 + (v.setWidth 64).toNat) 8 = sb2 v := by
  rw [idx_eq]; exact tbl_of_slice _ _ 256 slice2 _ _
theorem sb3_at (v : BitVec 8) : BC.Gen.tblAt BC.Gen.camellia_SBOXES (512 + (v.setWidth 64).toNat) 8 = sb3 v := by
  rw [idx_eq]; exact tbl_of_slice _ _ 512 slice3 _ _
theorem sb4_at (v : BitVec 8) : BC.Gen.tblAt BC.Gen.camellia_SBOXES (768 + (v.setWidth 64).toNat) 8 = sb4 v := by
  rw [idx_eq]; exact tbl_of_slice _ _ 768 slice4 _ _

/-! ### byte-wise load / store of the block = the model's 64-bit extracts / concatenation -/

theorem ld_hi (b : BitVec 128) : b.extractLsb' 120 8 ++ b.extractLsb' 112 8 ++ b.extractLsb' 104 8 ++ b.extractLsb' 96 8 ++
    b.extractLsb' 88 8 ++ b.extractLsb' 80 8 ++ b.extractLsb' 72 8 ++ b.extractLsb' 64 8 = b.extractLsb' 64 64 := by bv_decide
theorem ld_lo (b : BitVec 128) : b.extractLsb' 56 8 ++ b.extractLsb' 48 8 ++ b.extractLsb' 40 8 ++ b.extractLsb' 32 8 ++
    b.extractLsb' 24 8 ++ b.extractLsb' 16 8 ++ b.extractLsb' 8 8 ++ b.extractLsb' 0 8 = b.extractLsb' 0 64 := by bv_decide
theorem st (x y : BitVec 64) :
    x.extractLsb' 56 8 ++ x.extractLsb' 48 8 ++ x.extractLsb' 40 8 ++ x.extractLsb' 32 8 ++
    x.extractLsb' 24 8 ++ x.extractLsb' 16 8 ++ x.extractLsb' 8 8 ++ x.extractLsb' 0 8 ++
    y.extractLsb' 56 8 ++ y.extractLsb' 48 8 ++ y.extractLsb' 40 8 ++ y.extractLsb' 32 8 ++
    y.extractLsb' 24 8 ++ y.extractLsb' 16 8 ++ y.extractLsb' 8 8 ++ y.extractLsb' 0 8 = x ++ y := by bv_decide

theorem encIdx26 : encIdx 26 = [2, 4, 6, 8, 10, 12, 14, 16, 18, 20, 22] := by decide
theorem decIdx26 : decIdx 26 = [23, 21, 19, 17, 15, 13, 11, 9, 7, 5, 3] := by decide
theorem encIdx34 : encIdx 34 = [2, 4, 6, 8, 10, 12, 14, 16, 18, 20, 22, 24, 26, 28, 30] := by decide
theorem decIdx34 : decIdx 34 = [31, 29, 27, 25, 23, 21, 19, 17, 15, 13, 11, 9, 7, 5, 3] := by decide

theorem key_mk (l : List (BitVec 64)) : key l.toArray = fun i => l.getD i 0#64 := by
  funext i
  simp [key, Array.getD_eq_getD_getElem?, List.getD_eq_getElem?_getD]

theorem rk26_encrypt_block_eq (k0 k1 k2 k3 k4 k5 k6 k7 k8 k9 k10 k11 k12 k13 k14 k15 k16 k17 k18 k19 k20 k21 k22 k23 k24 k25 : BitVec 64) (b : BitVec 128) :
    camellia_rk26_encrypt_block k0 k1 k2 k3 k4 k5 k6 k7 k8 k9 k10 k11 k12 k13 k14 k15 k16 k17 k18 k19 k20 k21 k22 k23 k24 k25 b = encryptWith (fun i => [k0, k1, k2, k3, k4, k5, k6, k7, k8, k9, k10, k11, k12, k13, k14, k15, k16, k17, k18, k19, k20, k21, k22, k23, k24, k25].getD i 0#64) 26 b := by
  simp only [camellia_rk26_encrypt_block, sb1_at, sb2_at, sb3_at, sb4_at, ld_hi, ld_lo, st,
    encryptWith, encIdx26, List.foldl_cons, List.foldl_nil, encStep, f, fl, flinv,
    Nat.reduceMod, Nat.reduceAdd, Nat.reduceSub, Nat.reduceEqDiff, ↓reduceIte,
    List.getD_cons_zero, List.getD_cons_succ]

/-- the same against `BC.Camellia.encryptBlock` on the subkey array `[k0, …, k25]` -/
theorem rk26_encrypt_eq (k0 k1 k2 k3 k4 k5 k6 k7 k8 k9 k10 k11 k12 k13 k14 k15 k16 k17 k18 k19 k20 k21 k22 k23 k24 k25 : BitVec 64) (b : BitVec 128) :
    camellia_rk26_encrypt_block k0 k1 k2 k3 k4 k5 k6 k7 k8 k9 k10 k11 k12 k13 k14 k15 k16 k17 k18 k19 k20 k21 k22 k23 k24 k25 b = encryptBlock #[k0, k1, k2, k3, k4, k5, k6, k7, k8, k9, k10, k11, k12, k13, k14, k15, k16, k17, k18, k19, k20, k21, k22, k23, k24, k25] 26 b := by
  rw [rk26_encrypt_block_eq, encryptBlock, key_mk]

theorem rk26_decrypt_block_eq (k0 k1 k2 k3 k4 k5 k6 k7 k8 k9 k10 k11 k12 k13 k14 k15 k16 k17 k18 k19 k20 k21 k22 k23 k24 k25 : BitVec 64) (b : BitVec 128) :
    camellia_rk26_decrypt_block k0 k1 k2 k3 k4 k5 k6 k7 k8 k9 k10 k11 k12 k13 k14 k15 k16 k17 k18 k19 k20 k21 k22 k23 k24 k25 b = decryptWith (fun i => [k0, k1, k2, k3, k4, k5, k6, k7, k8, k9, k10, k11, k12, k13, k14, k15, k16, k17, k18, k19, k20, k21, k22, k23, k24, k25].getD i 0#64) 26 b := by
  simp only [camellia_rk26_decrypt_block, sb1_at, sb2_at, sb3_at, sb4_at, ld_hi, ld_lo, st,
    decryptWith, decIdx26, List.foldl_cons, List.foldl_nil, decStep, f, fl, flinv,
    Nat.reduceMod, Nat.reduceAdd, Nat.reduceSub, Nat.reduceEqDiff, ↓reduceIte,
    List.getD_cons_zero, List.getD_cons_succ]

/-- the same against `BC.Camellia.decryptBlock` on the subkey array `[k0, …, k25]` -/
theorem rk26_decrypt_eq (k0 k1 k2 k3 k4 k5 k6 k7 k8 k9 k10 k11 k12 k13 k14 k15 k16 k17 k18 k19 k20 k21 k22 k23 k24 k25 : BitVec 64) (b : BitVec 128) :
    camellia_rk26_decrypt_block k0 k1 k2 k3 k4 k5 k6 k7 k8 k9 k10 k11 k12 k13 k14 k15 k16 k17 k18 k19 k20 k21 k22 k23 k24 k25 b = decryptBlock #[k0, k1, k2, k3, k4, k5, k6, k7, k8, k9, k10, k11, k12, k13, k14, k15, k16, k17, k18, k19, k20, k21, k22, k23, k24, k25] 26 b := by
  rw [rk26_decrypt_block_eq, decryptBlock, key_mk]

theorem rk34_encrypt_block_eq (k0 k1 k2 k3 k4 k5 k6 k7 k8 k9 k10 k11 k12 k13 k14 k15 k16 k17 k18 k19 k20 k21 k22 k23 k24 k25 k26 k27 k28 k29 k30 k31 k32 k33 : BitVec 64) (b : BitVec 128) :
    camellia_rk34_encrypt_block k0 k1 k2 k3 k4 k5 k6 k7 k8 k9 k10 k11 k12 k13 k14 k15 k16 k17 k18 k19 k20 k21 k22 k23 k24 k25 k26 k27 k28 k29 k30 k31 k32 k33 b = encryptWith (fun i => [k0, k1, k2, k3, k4, k5, k6, k7, k8, k9, k10, k11, k12, k13, k14, k15, k16, k17, k18, k19, k20, k21, k22, k23, k24, k25, k26, k27, k28, k29, k30, k31, k32, k33].getD i 0#64) 34 b := by
  simp only [camellia_rk34_encrypt_block, sb1_at, sb2_at, sb3_at, sb4_at, ld_hi, ld_lo, st,
    encryptWith, encIdx34, List.foldl_cons, List.foldl_nil, encStep, f, fl, flinv,
    Nat.reduceMod, Nat.reduceAdd, Nat.reduceSub, Nat.reduceEqDiff, ↓reduceIte,
    List.getD_cons_zero, List.getD_cons_succ]

/-- the same against `BC.Camellia.encryptBlock` on the subkey array `[k0, …, k33]` -/
theorem rk34_encrypt_eq (k0 k1 k2 k3 k4 k5 k6 k7 k8 k9 k10 k11 k12 k13 k14 k15 k16 k17 k18 k19 k20 k21 k22 k23 k24 k25 k26 k27 k28 k29 k30 k31 k32 k33 : BitVec 64) (b : BitVec 128) :
    camellia_rk34_encrypt_block k0 k1 k2 k3 k4 k5 k6 k7 k8 k9 k10 k11 k12 k13 k14 k15 k16 k17 k18 k19 k20 k21 k22 k23 k24 k25 k26 k27 k28 k29 k30 k31 k32 k33 b = encryptBlock #[k0, k1, k2, k3, k4, k5, k6, k7, k8, k9, k10, k11, k12, k13, k14, k15, k16, k17, k18, k19, k20, k21, k22, k23, k24, k25, k26, k27, k28, k29, k30, k31, k32, k33] 34 b := by
  rw [rk34_encrypt_block_eq, encryptBlock, key_mk]

theorem rk34_decrypt_block_eq (k0 k1 k2 k3 k4 k5 k6 k7 k8 k9 k10 k11 k12 k13 k14 k15 k16 k17 k18 k19 k20 k21 k22 k23 k24 k25 k26 k27 k28 k29 k30 k31 k32 k33 : BitVec 64) (b : BitVec 128) :
    camellia_rk34_decrypt_block k0 k1 k2 k3 k4 k5 k6 k7 k8 k9 k10 k11 k12 k13 k14 k15 k16 k17 k18 k19 k20 k21 k22 k23 k24 k25 k26 k27 k28 k29 k30 k31 k32 k33 b = decryptWith (fun i => [k0, k1, k2, k3, k4, k5, k6, k7, k8, k9, k10, k11, k12, k13, k14, k15, k16, k17, k18, k19, k20, k21, k22, k23, k24, k25, k26, k27, k28, k29, k30, k31, k32, k33].getD i 0#64) 34 b := by
  simp only [camellia_rk34_decrypt_block, sb1_at, sb2_at, sb3_at, sb4_at, ld_hi, ld_lo, st,
    decryptWith, decIdx34, List.foldl_cons, List.foldl_nil, decStep, f, fl, flinv,
    Nat.reduceMod, Nat.reduceAdd, Nat.reduceSub, Nat.reduceEqDiff, ↓reduceIte,
    List.getD_cons_zero, List.getD_cons_succ]

/-- the same against `BC.Camellia.decryptBlock` on the subkey array `[k0, …, k33]` -/
theorem rk34_decrypt_eq (k0 k1 k2 k3 k4 k5 k6 k7 k8 k9 k10 k11 k12 k13 k14 k15 k16 k17 k18 k19 k20 k21 k22 k23 k24 k25 k26 k27 k28 k29 k30 k31 k32 k33 : BitVec 64) (b : BitVec 128) :
    camellia_rk34_decrypt_block k0 k1 k2 k3 k4 k5 k6 k7 k8 k9 k10 k11 k12 k13 k14 k15 k16 k17 k18 k19 k20 k21 k22 k23 k24 k25 k26 k27 k28 k29 k30 k31 k32 k33 b = decryptBlock #[k0, k1, k2, k3, k4, k5, k6, k7, k8, k9, k10, k11, k12, k13, k14, k15, k16, k17, k18, k19, k20, k21, k22, k23, k24, k25, k26, k27, k28, k29, k30, k31, k32, k33] 34 b := by
  rw [rk34_decrypt_block_eq, decryptBlock, key_mk]

end BC.GenCipher.Camellia
