import BlockCiphers.Proofs.AesFs32Ks192
import BlockCiphers.Proofs.AesFs32Lanes
/-!
C02 stage (v) end: evaluation of the array program `aes192_key_schedule[_compact]` and the end-to-end
theorems for AES-192 on the fixslice32 backend.
-/
namespace BC.AesFs32
open BC.Spec.Aes
set_option linter.unusedSimpArgs false

theorem stepBy_0_96_32 : stepBy 0 96 32 = [0, 32, 64] := by decide
theorem stepBy_8_104_16 : stepBy 8 104 16 = [8, 24, 40, 56, 72, 88] := by decide
theorem range'_1_12 : List.range' 1 12 = [1,2,3,4,5,6,7,8,9,10,11,12] := by decide

set_option maxRecDepth 100000 in
/-- the array program writes the chain `ks192J` -/
theorem raw192_eval (key : BitVec 192) :
    (aes192_key_schedule_raw key).size = 13 ∧
    rd (aes192_key_schedule_raw key) 0 = bitslice (key192_lo key) (key192_lo key) ∧
    rd (aes192_key_schedule_raw key) 1 = (ks192J key 0).r1 ∧
    rd (aes192_key_schedule_raw key) 2 = (ks192J key 0).r2 ∧
    rd (aes192_key_schedule_raw key) 3 = (ks192J key 0).r3 ∧
    rd (aes192_key_schedule_raw key) 4 = (ks192J key 1).r1 ∧
    rd (aes192_key_schedule_raw key) 5 = (ks192J key 1).r2 ∧
    rd (aes192_key_schedule_raw key) 6 = (ks192J key 1).r3 ∧
    rd (aes192_key_schedule_raw key) 7 = (ks192J key 2).r1 ∧
    rd (aes192_key_schedule_raw key) 8 = (ks192J key 2).r2 ∧
    rd (aes192_key_schedule_raw key) 9 = (ks192J key 2).r3 ∧
    rd (aes192_key_schedule_raw key) 10 = (ks192J key 3).r1 ∧
    rd (aes192_key_schedule_raw key) 11 = (ks192J key 3).r2 ∧
    rd (aes192_key_schedule_raw key) 12 = (ks192J key 3).r3 := by
  simp only [aes192_key_schedule_raw, aes192_ks_loop, ks192J, ks192Body,
    Nat.reduceAdd, Nat.reduceSub, Nat.reduceDiv, Nat.reduceMul, Nat.reduceLT, Nat.reduceLeDiff, Nat.reduceBEq, ge_iff_le,
    Bool.false_eq_true, if_true, if_false,
    rd_upd_same, rd_upd_ne, rd_wr_same, rd_wr_ne, size_wr, size_upd, Array.size_replicate, ne_eq, Nat.reduceEqDiff,
    not_false_eq_true, not_true_eq_false, true_and, and_self, and_true]

set_option maxRecDepth 100000 in
theorem aes192_key_schedule_eval (key : BitVec 192) :
    rd (aes192_key_schedule key) 0 = bitslice (rk192 key 0) (rk192 key 0) ∧
    rd (aes192_key_schedule key) 1 = sub_bytes_nots (inv_shift_rows_1 (bitslice (rk192 key 1) (rk192 key 1))) ∧
    rd (aes192_key_schedule key) 2 = sub_bytes_nots (inv_shift_rows_2 (bitslice (rk192 key 2) (rk192 key 2))) ∧
    rd (aes192_key_schedule key) 3 = sub_bytes_nots (inv_shift_rows_3 (bitslice (rk192 key 3) (rk192 key 3))) ∧
    rd (aes192_key_schedule key) 4 = sub_bytes_nots (bitslice (rk192 key 4) (rk192 key 4)) ∧
    rd (aes192_key_schedule key) 5 = sub_bytes_nots (inv_shift_rows_1 (bitslice (rk192 key 5) (rk192 key 5))) ∧
    rd (aes192_key_schedule key) 6 = sub_bytes_nots (inv_shift_rows_2 (bitslice (rk192 key 6) (rk192 key 6))) ∧
    rd (aes192_key_schedule key) 7 = sub_bytes_nots (inv_shift_rows_3 (bitslice (rk192 key 7) (rk192 key 7))) ∧
    rd (aes192_key_schedule key) 8 = sub_bytes_nots (bitslice (rk192 key 8) (rk192 key 8)) ∧
    rd (aes192_key_schedule key) 9 = sub_bytes_nots (inv_shift_rows_1 (bitslice (rk192 key 9) (rk192 key 9))) ∧
    rd (aes192_key_schedule key) 10 = sub_bytes_nots (inv_shift_rows_2 (bitslice (rk192 key 10) (rk192 key 10))) ∧
    rd (aes192_key_schedule key) 11 = sub_bytes_nots (inv_shift_rows_3 (bitslice (rk192 key 11) (rk192 key 11))) ∧
    rd (aes192_key_schedule key) 12 = sub_bytes_nots (bitslice (rk192 key 12) (rk192 key 12)) := by
  obtain ⟨hs, e0, e1, e2, e3, e4, e5, e6, e7, e8, e9, e10, e11, e12⟩ := raw192_eval key
  obtain ⟨p1, p2, p3, p4, p5, p6, p7, p8, p9, p10, p11, p12⟩ := ks192J_all key
  have p0 := rk192_zero key
  simp only [aes192_key_schedule, ks_nots, aes192_ks_adjust, stepBy_0_96_32, range'_1_12, List.foldl,
    Nat.reduceAdd, Nat.reduceSub, Nat.reduceDiv, Nat.reduceMul, Nat.reduceLT,
    rd_upd_same, rd_upd_ne, size_upd, hs, ne_eq, Nat.reduceEqDiff,
    not_false_eq_true, not_true_eq_false, e0, e1, e2, e3, e4, e5, e6, e7, e8, e9, e10, e11, e12]
  simp only [p1, p2, p3, p4, p5, p6, p7, p8, p9, p10, p11, p12, p0, and_self]

/-- **key schedule = FIPS-197 KeyExpansion in fixsliced form** (AES-192, normal) -/
theorem aes192_key_schedule_spec (key : BitVec 192) (r : Nat) (hr : r ≤ 12) :
    rkFn (aes192_key_schedule key) r = fsKey 12 r (uniformKeys (rk192 key) r) := by
  obtain ⟨e0, e1, e2, e3, e4, e5, e6, e7, e8, e9, e10, e11, e12⟩ := aes192_key_schedule_eval key
  exact match r, hr with
  | 0, _ => by simp [rkFn, fsKey, fsKeyC, repSt, bitsliceB, uniformKeys, e0]
  | 1, _ => by simp [rkFn, fsKey, fsKeyC, repSt, bitsliceB, uniformKeys, e1]
  | 2, _ => by simp [rkFn, fsKey, fsKeyC, repSt, bitsliceB, uniformKeys, e2]
  | 3, _ => by simp [rkFn, fsKey, fsKeyC, repSt, bitsliceB, uniformKeys, e3]
  | 4, _ => by simp [rkFn, fsKey, fsKeyC, repSt, bitsliceB, uniformKeys, e4]
  | 5, _ => by simp [rkFn, fsKey, fsKeyC, repSt, bitsliceB, uniformKeys, e5]
  | 6, _ => by simp [rkFn, fsKey, fsKeyC, repSt, bitsliceB, uniformKeys, e6]
  | 7, _ => by simp [rkFn, fsKey, fsKeyC, repSt, bitsliceB, uniformKeys, e7]
  | 8, _ => by simp [rkFn, fsKey, fsKeyC, repSt, bitsliceB, uniformKeys, e8]
  | 9, _ => by simp [rkFn, fsKey, fsKeyC, repSt, bitsliceB, uniformKeys, e9]
  | 10, _ => by simp [rkFn, fsKey, fsKeyC, repSt, bitsliceB, uniformKeys, e10]
  | 11, _ => by simp [rkFn, fsKey, fsKeyC, repSt, bitsliceB, uniformKeys, e11]
  | 12, _ => by simp [rkFn, fsKey, fsKeyC, repSt, bitsliceB, uniformKeys, e12]

/-- **C02 end-to-end, AES-192 fixslice32 normal** -/
theorem aes192_conforms (key : BitVec 192) (b : Batch) :
    aes192_encrypt (rkFn (aes192_key_schedule key)) b = b.map (cipherK 12 (rk192 key)) ∧
    aes192_decrypt (rkFn (aes192_key_schedule key)) b = b.map (invCipherK 12 (rk192 key)) ∧
    (∀ x, single (aes192_encrypt (rkFn (aes192_key_schedule key))) x = cipher 12 (keyExpansion 6 12 (words192 key)) x) ∧
    (∀ x, single (aes192_decrypt (rkFn (aes192_key_schedule key))) x = invCipher 12 (keyExpansion 6 12 (words192 key)) x) := by
  have h := aes192_key_schedule_spec key
  have he := aes192_encrypt_uniform _ (rk192 key) h
  have hd := aes192_decrypt_uniform _ (rk192 key) h
  exact ⟨(he b).1, (hd b).1, (he b).2, (hd b).2⟩

set_option maxRecDepth 100000 in
theorem aes192_key_schedule_compact_eval (key : BitVec 192) :
    rd (aes192_key_schedule_compact key) 0 = bitslice (rk192 key 0) (rk192 key 0) ∧
    rd (aes192_key_schedule_compact key) 1 = sub_bytes_nots (inv_shift_rows_1 (bitslice (rk192 key 1) (rk192 key 1))) ∧
    rd (aes192_key_schedule_compact key) 2 = sub_bytes_nots (bitslice (rk192 key 2) (rk192 key 2)) ∧
    rd (aes192_key_schedule_compact key) 3 = sub_bytes_nots (inv_shift_rows_1 (bitslice (rk192 key 3) (rk192 key 3))) ∧
    rd (aes192_key_schedule_compact key) 4 = sub_bytes_nots (bitslice (rk192 key 4) (rk192 key 4)) ∧
    rd (aes192_key_schedule_compact key) 5 = sub_bytes_nots (inv_shift_rows_1 (bitslice (rk192 key 5) (rk192 key 5))) ∧
    rd (aes192_key_schedule_compact key) 6 = sub_bytes_nots (bitslice (rk192 key 6) (rk192 key 6)) ∧
    rd (aes192_key_schedule_compact key) 7 = sub_bytes_nots (inv_shift_rows_1 (bitslice (rk192 key 7) (rk192 key 7))) ∧
    rd (aes192_key_schedule_compact key) 8 = sub_bytes_nots (bitslice (rk192 key 8) (rk192 key 8)) ∧
    rd (aes192_key_schedule_compact key) 9 = sub_bytes_nots (inv_shift_rows_1 (bitslice (rk192 key 9) (rk192 key 9))) ∧
    rd (aes192_key_schedule_compact key) 10 = sub_bytes_nots (bitslice (rk192 key 10) (rk192 key 10)) ∧
    rd (aes192_key_schedule_compact key) 11 = sub_bytes_nots (inv_shift_rows_1 (bitslice (rk192 key 11) (rk192 key 11))) ∧
    rd (aes192_key_schedule_compact key) 12 = sub_bytes_nots (bitslice (rk192 key 12) (rk192 key 12)) := by
  obtain ⟨hs, e0, e1, e2, e3, e4, e5, e6, e7, e8, e9, e10, e11, e12⟩ := raw192_eval key
  obtain ⟨p1, p2, p3, p4, p5, p6, p7, p8, p9, p10, p11, p12⟩ := ks192J_all key
  have p0 := rk192_zero key
  simp only [aes192_key_schedule_compact, ks_nots, ks_adjust_compact, stepBy_8_104_16, range'_1_12, List.foldl,
    Nat.reduceAdd, Nat.reduceSub, Nat.reduceDiv, Nat.reduceMul, Nat.reduceLT,
    rd_upd_same, rd_upd_ne, size_upd, hs, ne_eq, Nat.reduceEqDiff,
    not_false_eq_true, not_true_eq_false, e0, e1, e2, e3, e4, e5, e6, e7, e8, e9, e10, e11, e12]
  simp only [p1, p2, p3, p4, p5, p6, p7, p8, p9, p10, p11, p12, p0, and_self]

/-- **key schedule = FIPS-197 KeyExpansion in fixsliced form** (AES-192, compact) -/
theorem aes192_key_schedule_compact_spec (key : BitVec 192) (r : Nat) (hr : r ≤ 12) :
    rkFn (aes192_key_schedule_compact key) r = fsKeyC r (uniformKeys (rk192 key) r) := by
  obtain ⟨e0, e1, e2, e3, e4, e5, e6, e7, e8, e9, e10, e11, e12⟩ := aes192_key_schedule_compact_eval key
  exact match r, hr with
  | 0, _ => by simp [rkFn, fsKey, fsKeyC, repSt, bitsliceB, uniformKeys, e0]
  | 1, _ => by simp [rkFn, fsKey, fsKeyC, repSt, bitsliceB, uniformKeys, e1]
  | 2, _ => by simp [rkFn, fsKey, fsKeyC, repSt, bitsliceB, uniformKeys, e2]
  | 3, _ => by simp [rkFn, fsKey, fsKeyC, repSt, bitsliceB, uniformKeys, e3]
  | 4, _ => by simp [rkFn, fsKey, fsKeyC, repSt, bitsliceB, uniformKeys, e4]
  | 5, _ => by simp [rkFn, fsKey, fsKeyC, repSt, bitsliceB, uniformKeys, e5]
  | 6, _ => by simp [rkFn, fsKey, fsKeyC, repSt, bitsliceB, uniformKeys, e6]
  | 7, _ => by simp [rkFn, fsKey, fsKeyC, repSt, bitsliceB, uniformKeys, e7]
  | 8, _ => by simp [rkFn, fsKey, fsKeyC, repSt, bitsliceB, uniformKeys, e8]
  | 9, _ => by simp [rkFn, fsKey, fsKeyC, repSt, bitsliceB, uniformKeys, e9]
  | 10, _ => by simp [rkFn, fsKey, fsKeyC, repSt, bitsliceB, uniformKeys, e10]
  | 11, _ => by simp [rkFn, fsKey, fsKeyC, repSt, bitsliceB, uniformKeys, e11]
  | 12, _ => by simp [rkFn, fsKey, fsKeyC, repSt, bitsliceB, uniformKeys, e12]

/-- **C02 end-to-end, AES-192 fixslice32 compact** -/
theorem aes192_compact_conforms (key : BitVec 192) (b : Batch) :
    aes192_encrypt_compact (rkFn (aes192_key_schedule_compact key)) b = b.map (cipherK 12 (rk192 key)) ∧
    aes192_decrypt_compact (rkFn (aes192_key_schedule_compact key)) b = b.map (invCipherK 12 (rk192 key)) ∧
    (∀ x, single (aes192_encrypt_compact (rkFn (aes192_key_schedule_compact key))) x = cipher 12 (keyExpansion 6 12 (words192 key)) x) ∧
    (∀ x, single (aes192_decrypt_compact (rkFn (aes192_key_schedule_compact key))) x = invCipher 12 (keyExpansion 6 12 (words192 key)) x) := by
  have h := aes192_key_schedule_compact_spec key
  have he := aes192_encrypt_compact_uniform _ (rk192 key) h
  have hd := aes192_decrypt_compact_uniform _ (rk192 key) h
  exact ⟨(he b).1, (hd b).1, (he b).2, (hd b).2⟩

end BC.AesFs32
