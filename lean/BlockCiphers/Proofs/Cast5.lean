import BlockCiphers.Proofs.Basic
import BlockCiphers.Impl.Cast5
/-
CAST5: the Feistel network is a permutation for ARBITRARY subkeys (`masking`, `rotate` arrays of any
content and size — the model's look-ups are total) and both round counts (`small_key` true / false),
hence for every key of every accepted length.
-/
namespace BC.Cast5

def swap (x : LR) : LR := { l := x.r, r := x.l }

theorem xor_cancel_r (a b : BitVec 32) : a ^^^ b ^^^ b = a := by
  rw [BitVec.xor_assoc, BitVec.xor_self, BitVec.xor_zero]

theorem round1_swap_round1 (m : BitVec 32) (r : BitVec 8) (x : LR) :
    round1 m r (swap (round1 m r x)) = swap x := by
  simp only [round1, swap, xor_cancel_r]
theorem round2_swap_round2 (m : BitVec 32) (r : BitVec 8) (x : LR) :
    round2 m r (swap (round2 m r x)) = swap x := by
  simp only [round2, swap, xor_cancel_r]
theorem round3_swap_round3 (m : BitVec 32) (r : BitVec 8) (x : LR) :
    round3 m r (swap (round3 m r x)) = swap x := by
  simp only [round3, swap, xor_cancel_r]

theorem swap_swap (x : LR) : swap (swap x) = x := rfl

/-- the decryption rounds undo the encryption rounds (up to the final exchange), 12 and 16 rounds -/
theorem decRounds_swap_encRounds (ks : Keys) (x : LR) :
    decRounds ks (swap (encRounds ks x)) = swap x := by
  cases h : ks.small_key <;>
    simp only [decRounds, encRounds, h, if_true, if_false, Bool.false_eq_true,
      round1_swap_round1, round2_swap_round2, round3_swap_round3]

theorem encRounds_swap_decRounds (ks : Keys) (x : LR) :
    encRounds ks (swap (decRounds ks x)) = swap x := by
  cases h : ks.small_key <;>
    simp only [decRounds, encRounds, h, if_true, if_false, Bool.false_eq_true,
      round1_swap_round1, round2_swap_round2, round3_swap_round3]

theorem extract_hi_append (a b : BitVec 32) : (a ++ b).extractLsb' 32 32 = a := by bv_decide (config := { timeout := 600 })
theorem extract_lo_append (a b : BitVec 32) : (a ++ b).extractLsb' 0 32 = b := by bv_decide (config := { timeout := 600 })
theorem append_extract (b : BitVec 64) : b.extractLsb' 32 32 ++ b.extractLsb' 0 32 = b := by bv_decide (config := { timeout := 600 })

theorem readBlock_writeBlock (x : LR) : readBlock (writeBlock x) = swap x := by
  simp [readBlock, writeBlock, swap, extract_hi_append, extract_lo_append]

theorem writeBlock_swap_readBlock (b : BitVec 64) : writeBlock (swap (readBlock b)) = b := by
  simp [readBlock, writeBlock, swap, append_extract]

/-- C01 for CAST5: arbitrary subkeys, both round counts -/
theorem decrypt_encrypt (ks : Keys) (b : BitVec 64) : decrypt ks (encrypt ks b) = b := by
  simp only [decrypt, encrypt, readBlock_writeBlock, decRounds_swap_encRounds, writeBlock_swap_readBlock]

theorem encrypt_decrypt (ks : Keys) (b : BitVec 64) : encrypt ks (decrypt ks b) = b := by
  simp only [decrypt, encrypt, readBlock_writeBlock, encRounds_swap_decRounds, writeBlock_swap_readBlock]

/-- … in particular for the schedule of every accepted key (5..16 bytes) -/
theorem decrypt_encrypt_key (key : Bytes) (ks : Keys) (_h : new key = some ks) (b : BitVec 64) :
    decrypt ks (encrypt ks b) = b := decrypt_encrypt ks b

theorem encrypt_decrypt_key (key : Bytes) (ks : Keys) (_h : new key = some ks) (b : BitVec 64) :
    encrypt ks (decrypt ks b) = b := encrypt_decrypt ks b

/-! ### key-length contract (C11), round count, padding -/

theorem accepts_iff (n : Nat) : accepts n = true ↔ 5 ≤ n ∧ n ≤ 16 := by
  simp [accepts]

theorem new_isSome_iff (key : Bytes) : (new key).isSome ↔ 5 ≤ key.length ∧ key.length ≤ 16 := by
  rw [← accepts_iff]; unfold new; split <;> simp_all

/-- RFC 2144 §2.5: 12 rounds for key sizes up to and including 80 bits, 16 rounds above -/
theorem small_key_iff (n : Nat) : small_key n = true ↔ 8 * n ≤ 80 := by
  simp [small_key]; omega

theorem new_small_key (key : Bytes) (ks : Keys) (h : new key = some ks) :
    ks.small_key = decide (key.length ≤ 10) := by
  unfold new at h; split at h
  · injection h with h; subst h; simp only [keySchedule, small_key]
  · cases h

/-- RFC 2144 §2.5: a short key is the 128-bit key obtained by padding with zero bytes — the schedule of
a key of 11..15 bytes is the schedule of the padded 16-byte key (same round count) -/
theorem new_padded (key : Bytes) (h1 : 11 ≤ key.length) (h2 : key.length ≤ 16) :
    new key = new (pad key) := by
  have hl : (pad key).length = 16 := by simp [pad]; omega
  have hp : pad (pad key) = pad key := by
    rw [pad, hl]; simp
  have a1 : accepts key.length = true := (accepts_iff _).mpr ⟨by omega, h2⟩
  have a2 : accepts (pad key).length = true := by rw [hl]; decide
  have s1 : small_key key.length = false := by simp [small_key]; omega
  have s2 : small_key (pad key).length = false := by rw [hl]; decide
  simp only [new, a1, a2, s1, s2, hp, if_true]

/-- … and for 5..10 bytes the subkeys are those of the padded key, only the round count differs -/
theorem new_padded_small (key : Bytes) (h1 : 5 ≤ key.length) (h2 : key.length ≤ 10) :
    new key = some { (keySchedule false (packBE 16 (pad key))) with small_key := true } := by
  have a1 : accepts key.length = true := (accepts_iff _).mpr ⟨h1, by omega⟩
  have s1 : small_key key.length = true := by simp [small_key]; omega
  simp only [new, a1, s1, if_true, keySchedule]

end BC.Cast5
