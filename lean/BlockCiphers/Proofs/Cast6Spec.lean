import BlockCiphers.Proofs.Cast6Tables
/-
CAST-256 conformance, part 2 (C08): the implementation (`Impl/Cast6.lean`, mirror of the Rust) computes
CAST-256 of RFC 2612 (`Spec/Cast6.lean`) for every key of 16/20/24/28/32 bytes:

* `f1_spec`, `f2_spec`, `f3_spec`           : the macros `f1!/f2!/f3!` = the RFC's round functions;
* `forwardQuad_spec`, `reverseQuad_spec`, `forwardOctave_spec` : `Q`, `QBAR`, `W_i`;
* `ks_inv`, `keyScheduleKappa_spec`         : `key_schedule` = the RFC's key schedule (`Kr` = 5 LSBs of A, C, E, G
                                              kept in a `u8`, `Km` = H, F, D, B);
* `kappa_padKey`, `padKey_spec`             : zero padding of 128/160/192/224-bit keys;
* `encrypt_eq_spec`, `decrypt_eq_spec`      : `Impl = Spec` on 128-bit blocks.
-/
namespace BC.Cast6
open BC.Spec.Cast6

/-! ### round functions -/

theorem toNat_setWidth_8_32 (x : BitVec 8) : (x.setWidth 32).toNat = x.toNat := by
  rw [BitVec.toNat_setWidth]; exact Nat.mod_eq_of_lt (by have := x.isLt; omega)

theorem toNat_setWidth_5_8 (x : BitVec 5) : (x.setWidth 8).toNat = x.toNat := by
  rw [BitVec.toNat_setWidth]; exact Nat.mod_eq_of_lt (by have := x.isLt; omega)

theorem idx0 (i : BitVec 32) : (i >>> 24).toNat = byteI i 0 := by
  have h : i >>> 24 = (i.extractLsb' 24 8).setWidth 32 := by bv_decide (config := { timeout := 600 })
  rw [h, toNat_setWidth_8_32]; rfl
theorem idx1 (i : BitVec 32) : ((i >>> 16) &&& 0xff#32).toNat = byteI i 1 := by
  have h : (i >>> 16) &&& 0xff#32 = (i.extractLsb' 16 8).setWidth 32 := by bv_decide (config := { timeout := 600 })
  rw [h, toNat_setWidth_8_32]; rfl
theorem idx2 (i : BitVec 32) : ((i >>> 8) &&& 0xff#32).toNat = byteI i 2 := by
  have h : (i >>> 8) &&& 0xff#32 = (i.extractLsb' 8 8).setWidth 32 := by bv_decide (config := { timeout := 600 })
  rw [h, toNat_setWidth_8_32]; rfl
theorem idx3 (i : BitVec 32) : (i &&& 0xff#32).toNat = byteI i 3 := by
  have h : i &&& 0xff#32 = (i.extractLsb' 0 8).setWidth 32 := by bv_decide (config := { timeout := 600 })
  rw [h, toNat_setWidth_8_32]; rfl

theorem f1_spec (d m : BitVec 32) (r : BitVec 8) (kr : BitVec 5) (h : r.toNat = kr.toNat) :
    Cast6.f1 d m r = Spec.Cast6.f1 d kr m := by
  simp only [Cast6.f1, Spec.Cast6.f1, sb, look, h, S1_eq, S2_eq, S3_eq, S4_eq]
  simp only [idx1, idx2]
  simp only [idx0, idx3]
theorem f2_spec (d m : BitVec 32) (r : BitVec 8) (kr : BitVec 5) (h : r.toNat = kr.toNat) :
    Cast6.f2 d m r = Spec.Cast6.f2 d kr m := by
  simp only [Cast6.f2, Spec.Cast6.f2, sb, look, h, S1_eq, S2_eq, S3_eq, S4_eq]
  simp only [idx1, idx2]
  simp only [idx0, idx3]
theorem f3_spec (d m : BitVec 32) (r : BitVec 8) (kr : BitVec 5) (h : r.toNat = kr.toNat) :
    Cast6.f3 d m r = Spec.Cast6.f3 d kr m := by
  simp only [Cast6.f3, Spec.Cast6.f3, sb, look, h, S1_eq, S2_eq, S3_eq, S4_eq]
  simp only [idx1, idx2]
  simp only [idx0, idx3]

/-! ### quad-rounds and octave -/

def toBeta (q : Quad) : Beta := ⟨q.a, q.b, q.c, q.d⟩
def toKappa (k : Cast6.Kappa) : Spec.Cast6.Kappa := ⟨k.a, k.b, k.c, k.d, k.e, k.f, k.g, k.h⟩

/-- the crate's representation of a quad-round key: `masking[i]` and `rotate[i]` (5-bit values in `u8`) -/
def implKm (q : QuadKey) : Km := ⟨q.km0, q.km1, q.km2, q.km3⟩
def implKr (q : QuadKey) : Kr := ⟨q.kr0.setWidth 8, q.kr1.setWidth 8, q.kr2.setWidth 8, q.kr3.setWidth 8⟩

theorem forwardQuad_spec (β : Quad) (q : QuadKey) :
    toBeta (forwardQuad β (implKm q) (implKr q)) = Q q (toBeta β) := by
  simp only [toBeta, forwardQuad, Q, implKm, implKr,
    f1_spec _ _ _ _ (toNat_setWidth_5_8 _), f2_spec _ _ _ _ (toNat_setWidth_5_8 _),
    f3_spec _ _ _ _ (toNat_setWidth_5_8 _)]

theorem reverseQuad_spec (β : Quad) (q : QuadKey) :
    toBeta (reverseQuad β (implKm q) (implKr q)) = QBAR q (toBeta β) := by
  simp only [toBeta, reverseQuad, QBAR, implKm, implKr,
    f1_spec _ _ _ _ (toNat_setWidth_5_8 _), f2_spec _ _ _ _ (toNat_setWidth_5_8 _),
    f3_spec _ _ _ _ (toNat_setWidth_5_8 _)]

theorem forwardOctave_spec (k : Cast6.Kappa) (m : List (BitVec 32)) (r : List (BitVec 8)) (i : Nat)
    (hm : ∀ j, j < 8 → m.getD j 0#32 = Tm i j)
    (hr : ∀ j, j < 8 → (r.getD j 0#8).toNat = (Tr i j).toNat) :
    toKappa (forwardOctave k m r) = W i (toKappa k) := by
  simp only [toKappa, forwardOctave, W,
    hm 0 (by decide), hm 1 (by decide), hm 2 (by decide), hm 3 (by decide), hm 4 (by decide),
    hm 5 (by decide), hm 6 (by decide), hm 7 (by decide),
    f1_spec _ _ _ _ (hr 0 (by decide)), f2_spec _ _ _ _ (hr 1 (by decide)),
    f3_spec _ _ _ _ (hr 2 (by decide)), f1_spec _ _ _ _ (hr 3 (by decide)),
    f2_spec _ _ _ _ (hr 4 (by decide)), f3_spec _ _ _ _ (hr 5 (by decide)),
    f1_spec _ _ _ _ (hr 6 (by decide)), f2_spec _ _ _ _ (hr 7 (by decide))]


/-! ### key schedule -/

theorem getD_append_add {α : Type} (pre l : List α) (k : Nat) (d : α) :
    (pre ++ l).getD (pre.length + k) d = l.getD k d := by
  simp [List.getD_eq_getElem?_getD, List.getElem?_append_right]

theorem set_append_len {α : Type} (pre l : List α) (i : Nat) (a : α) (h : pre.length = i) :
    (pre ++ l).set i a = pre ++ l.set 0 a := by
  subst h; rw [List.set_append_right _ _ (Nat.le_refl _)]; simp

theorem rot_spec (a : BitVec 32) : (a &&& 0x1f#32).setWidth 8 = (a.extractLsb' 0 5).setWidth 8 := by
  bv_decide (config := { timeout := 600 })

/-- one iteration of the `key_schedule` loop on KAPPA -/
theorem kappaStep_spec (κ : Cast6.Kappa) (i : Nat) (hi : i < 12) :
    toKappa (forwardOctave (forwardOctave κ (slice8 Cast6.TM (16 * i)) (slice8 Cast6.TR (16 * (i % 2))))
      (slice8 Cast6.TM (16 * i + 8)) (slice8 Cast6.TR (16 * (i % 2) + 8))) =
    W (2 * i + 1) (W (2 * i) (toKappa κ)) := by
  rw [forwardOctave_spec _ _ _ (2 * i + 1), forwardOctave_spec _ _ _ (2 * i)]
  · intro j hj; exact (slices_eq ⟨i, hi⟩ ⟨j, hj⟩).1
  · intro j hj; exact (slices_eq ⟨i, hi⟩ ⟨j, hj⟩).2.2.1
  · intro j hj; exact (slices_eq ⟨i, hi⟩ ⟨j, hj⟩).2.1
  · intro j hj; exact (slices_eq ⟨i, hi⟩ ⟨j, hj⟩).2.2.2

theorem ks_inv (n : Nat) : ∀ (i : Nat) (pm : List Km) (pr : List Kr) (κ : Cast6.Kappa),
    pm.length = i → pr.length = i → i + n ≤ 12 →
    ((List.range' i n).foldl ksStep ⟨κ, pm ++ List.replicate n Km.zero, pr ++ List.replicate n Kr.zero⟩).masking
      = pm ++ (scheduleFrom n i (toKappa κ)).map implKm ∧
    ((List.range' i n).foldl ksStep ⟨κ, pm ++ List.replicate n Km.zero, pr ++ List.replicate n Kr.zero⟩).rotate
      = pr ++ (scheduleFrom n i (toKappa κ)).map implKr := by
  induction n with
  | zero => intro i pm pr κ _ _ _; simp [scheduleFrom]
  | succ n ih =>
    intro i pm pr κ hpm hpr hle
    rw [List.range'_succ, List.foldl_cons]
    have hi : i < 12 := by omega
    have hk := kappaStep_spec κ i hi
    generalize hκ' : forwardOctave (forwardOctave κ (slice8 Cast6.TM (16 * i)) (slice8 Cast6.TR (16 * (i % 2))))
      (slice8 Cast6.TM (16 * i + 8)) (slice8 Cast6.TR (16 * (i % 2) + 8)) = κ' at hk
    have hstep : ksStep ⟨κ, pm ++ List.replicate (n + 1) Km.zero, pr ++ List.replicate (n + 1) Kr.zero⟩ i =
        ⟨κ', (pm ++ [implKm (quadKeyOf (toKappa κ'))]) ++ List.replicate n Km.zero,
             (pr ++ [implKr (quadKeyOf (toKappa κ'))]) ++ List.replicate n Kr.zero⟩ := by
      unfold ksStep
      simp only [hκ', set_append_len _ _ _ _ hpm, set_append_len _ _ _ _ hpr, List.replicate_succ,
        List.set_cons_zero, rot_spec]
      simp [implKm, implKr, quadKeyOf, toKappa]
    rw [hstep]
    have := ih (i + 1) (pm ++ [implKm (quadKeyOf (toKappa κ'))]) (pr ++ [implKr (quadKeyOf (toKappa κ'))]) κ'
      (by simp [hpm]) (by simp [hpr]) (by omega)
    rw [this.1, this.2]
    simp [scheduleFrom, hk]


theorem keyScheduleKappa_spec (κ : Cast6.Kappa) :
    (keyScheduleKappa κ).masking = (scheduleFrom 12 0 (toKappa κ)).map implKm ∧
    (keyScheduleKappa κ).rotate = (scheduleFrom 12 0 (toKappa κ)).map implKr := by
  unfold keyScheduleKappa
  rw [List.range_eq_range']
  exact ks_inv 12 0 [] [] κ rfl rfl (by decide)

/-! ### key padding for the five lengths -/

theorem padKey_getD_lt (key : Bytes) (j : Nat) (h : j < key.length) :
    (padKey key).getD j 0#8 = key.getD j 0#8 := by
  simp [padKey, List.getD_eq_getElem?_getD, List.getElem?_append_left h]

theorem padKey_getD_ge (key : Bytes) (j : Nat) (h : key.length ≤ j) :
    (padKey key).getD j 0#8 = 0#8 := by
  simp only [padKey, List.getD_eq_getElem?_getD, List.getElem?_append_right h, List.getElem?_replicate]
  split <;> rfl

theorem beWord_padKey (key : Bytes) (h4 : key.length % 4 = 0) (i : Nat) :
    beWord (padKey key) i = keyWord key i := by
  unfold beWord keyWord
  by_cases h : 4 * i < key.length
  · rw [if_pos h, padKey_getD_lt _ _ (by omega), padKey_getD_lt _ _ (by omega), padKey_getD_lt _ _ (by omega),
      padKey_getD_lt _ _ (by omega)]
    unfold be32
    generalize key.getD (4 * i) 0#8 = b0
    generalize key.getD (4 * i + 1) 0#8 = b1
    generalize key.getD (4 * i + 2) 0#8 = b2
    generalize key.getD (4 * i + 3) 0#8 = b3
    bv_decide (config := { timeout := 600 })
  · rw [if_neg h, padKey_getD_ge _ _ (by omega), padKey_getD_ge _ _ (by omega), padKey_getD_ge _ _ (by omega),
      padKey_getD_ge _ _ (by omega)]
    decide

/-- zero padding: `KAPPA` of the padded 32-byte key = `ABCDEFGH` of the RFC with the missing words zero
(any key whose length is a multiple of 4, in particular 16/20/24/28/32) -/
theorem kappa_padKey (key : Bytes) (h4 : key.length % 4 = 0) :
    toKappa (kappaOfBytes (padKey key)) = kappaOfKey key := by
  simp only [toKappa, kappaOfBytes, kappaOfKey, beWord_padKey key h4]

/-- the five accepted lengths -/
theorem accepts_iff (n : Nat) : accepts n = true ↔ n = 16 ∨ n = 20 ∨ n = 24 ∨ n = 28 ∨ n = 32 := by
  simp [accepts]

/-- the padded key is the key followed by zero bytes, 32 bytes in all -/
theorem padKey_spec (key : Bytes) (h : accepts key.length = true) :
    padKey key = key ++ List.replicate (32 - key.length) 0#8 ∧ (padKey key).length = 32 := by
  refine ⟨rfl, ?_⟩
  have := (accepts_iff _).mp h
  simp [padKey]; omega

/-! ### the cipher -/

/-- the subkeys stored in the struct are those of the schedule `ks` -/
def SameKeys (c : Cast6.Cast6) (ks : List QuadKey) : Prop :=
  ∀ i, i < 12 → c.km i = implKm (qk ks i) ∧ c.kr i = implKr (qk ks i)

theorem keySchedule_sameKeys (key : Bytes) (h4 : key.length % 4 = 0) :
    SameKeys (keySchedule key) (schedule key) := by
  intro i hi
  have h := keyScheduleKappa_spec (kappaOfBytes (padKey key))
  rw [kappa_padKey key h4] at h
  unfold Cast6.km Cast6.kr keySchedule qk schedule
  rw [h.1, h.2]
  have hl : (scheduleFrom 12 0 (kappaOfKey key)).length = 12 := by
    simp [scheduleFrom]
  simp [List.getD_eq_getElem?_getD, hl, hi]

theorem range6 : List.range 6 = [0, 1, 2, 3, 4, 5] := by decide

theorem encryptQuad_spec (c : Cast6.Cast6) (ks : List QuadKey) (hk : SameKeys c ks) (β : Quad) :
    toBeta (encryptQuad c β) = cipher ks (fun i => i) (toBeta β) := by
  simp only [encryptQuad, cipher, range6, List.foldl_cons, List.foldl_nil,
    (hk 0 (by decide)).1, (hk 0 (by decide)).2, (hk 1 (by decide)).1, (hk 1 (by decide)).2,
    (hk 2 (by decide)).1, (hk 2 (by decide)).2, (hk 3 (by decide)).1, (hk 3 (by decide)).2,
    (hk 4 (by decide)).1, (hk 4 (by decide)).2, (hk 5 (by decide)).1, (hk 5 (by decide)).2,
    (hk 6 (by decide)).1, (hk 6 (by decide)).2, (hk 7 (by decide)).1, (hk 7 (by decide)).2,
    (hk 8 (by decide)).1, (hk 8 (by decide)).2, (hk 9 (by decide)).1, (hk 9 (by decide)).2,
    (hk 10 (by decide)).1, (hk 10 (by decide)).2, (hk 11 (by decide)).1, (hk 11 (by decide)).2,
    forwardQuad_spec, reverseQuad_spec]

theorem decryptQuad_spec (c : Cast6.Cast6) (ks : List QuadKey) (hk : SameKeys c ks) (β : Quad) :
    toBeta (decryptQuad c β) = cipher ks (fun i => 11 - i) (toBeta β) := by
  simp only [decryptQuad, cipher, range6, List.foldl_cons, List.foldl_nil,
    (hk 0 (by decide)).1, (hk 0 (by decide)).2, (hk 1 (by decide)).1, (hk 1 (by decide)).2,
    (hk 2 (by decide)).1, (hk 2 (by decide)).2, (hk 3 (by decide)).1, (hk 3 (by decide)).2,
    (hk 4 (by decide)).1, (hk 4 (by decide)).2, (hk 5 (by decide)).1, (hk 5 (by decide)).2,
    (hk 6 (by decide)).1, (hk 6 (by decide)).2, (hk 7 (by decide)).1, (hk 7 (by decide)).2,
    (hk 8 (by decide)).1, (hk 8 (by decide)).2, (hk 9 (by decide)).1, (hk 9 (by decide)).2,
    (hk 10 (by decide)).1, (hk 10 (by decide)).2, (hk 11 (by decide)).1, (hk 11 (by decide)).2,
    forwardQuad_spec, reverseQuad_spec]

theorem quadOfBits_spec (b : BitVec 128) : toBeta (quadOfBits b) = betaOfBlock b := rfl
theorem bitsOfQuad_spec (q : Quad) : bitsOfQuad q = blockOfBeta (toBeta q) := rfl

/-! ### Impl = Spec -/

/-- CAST-256 as implemented = RFC 2612, for every key of 16/20/24/28/32 bytes -/
theorem encrypt_eq_spec (key : Bytes) (h : accepts key.length = true) (blk : BitVec 128) :
    Cast6.encrypt (keySchedule key) blk = Spec.Cast6.encrypt key blk := by
  have h4 : key.length % 4 = 0 := by have := (accepts_iff _).mp h; omega
  unfold Cast6.encrypt Spec.Cast6.encrypt
  rw [bitsOfQuad_spec, encryptQuad_spec _ _ (keySchedule_sameKeys key h4), quadOfBits_spec]

theorem decrypt_eq_spec (key : Bytes) (h : accepts key.length = true) (blk : BitVec 128) :
    Cast6.decrypt (keySchedule key) blk = Spec.Cast6.decrypt key blk := by
  have h4 : key.length % 4 = 0 := by have := (accepts_iff _).mp h; omega
  unfold Cast6.decrypt Spec.Cast6.decrypt
  rw [bitsOfQuad_spec, decryptQuad_spec _ _ (keySchedule_sameKeys key h4), quadOfBits_spec]

/-- consequently the RFC's decryption inverts the RFC's encryption -/
theorem spec_decrypt_encrypt (key : Bytes) (h : accepts key.length = true) (blk : BitVec 128) :
    Spec.Cast6.decrypt key (Spec.Cast6.encrypt key blk) = blk := by
  rw [← encrypt_eq_spec key h, ← decrypt_eq_spec key h, Cast6.decrypt_encrypt]

end BC.Cast6
