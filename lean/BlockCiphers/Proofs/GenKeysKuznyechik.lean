import BlockCiphers.Gen.Keys_Kuznyechik
import BlockCiphers.Proofs.GenKuznyechikBytes
/-!
Tie of the regenerated constructor `EncKeys::new` of the compact software backend of Kuznyechik
(`Gen/Keys_Kuznyechik.lean`, translated from /repo/kuznyechik/src/compact_soft/{mod.rs,backends.rs}: `expand`, `f`, `lsx`,
`l_step`, with `KEYGEN`, the `GFT_*` tables computed by running the crate's `const` initialisers) to the model
`BC.Kuznyechik.Compact.expand`: for ALL 256-bit keys

    Gen.Fn.kuznyechik_compact_enckeys_new key = rkTuple (Compact.expand key)        (`rkTuple k = (k.k0, …, k.k9)`)

Proof: as in Proofs/GenCipherKuznyechik.lean — (1) the generated text (≈ 16 000 `let`s) is definitionally the byte-level
`expandB` (kernel check), (2) `expandB` is the model's `expand` on packed blocks (`fstepB_pack`, the 32 iteration
constants `c_pack`: `KEYGEN[n]` of the model evaluated by `decide +kernel`).
-/
set_option maxRecDepth 100000
namespace BC.GenKeys.Kuznyechik
open BC BC.Kuznyechik BC.Gen.Fn BC.GenCipher.Kuznyechik

theorem gfK_0 : ∀ n : Fin 256, BC.Gen.tblAt kuznyechik_compact_enckeys_new_tbl0 n.val 8 = mul_gf256 148#8 (BitVec.ofNat 8 n.val) := by decide +kernel
theorem gfK_1 : ∀ n : Fin 256, BC.Gen.tblAt kuznyechik_compact_enckeys_new_tbl1 n.val 8 = mul_gf256 32#8 (BitVec.ofNat 8 n.val) := by decide +kernel
theorem gfK_2 : ∀ n : Fin 256, BC.Gen.tblAt kuznyechik_compact_enckeys_new_tbl2 n.val 8 = mul_gf256 133#8 (BitVec.ofNat 8 n.val) := by decide +kernel
theorem gfK_3 : ∀ n : Fin 256, BC.Gen.tblAt kuznyechik_compact_enckeys_new_tbl3 n.val 8 = mul_gf256 16#8 (BitVec.ofNat 8 n.val) := by decide +kernel
theorem gfK_4 : ∀ n : Fin 256, BC.Gen.tblAt kuznyechik_compact_enckeys_new_tbl4 n.val 8 = mul_gf256 194#8 (BitVec.ofNat 8 n.val) := by decide +kernel
theorem gfK_5 : ∀ n : Fin 256, BC.Gen.tblAt kuznyechik_compact_enckeys_new_tbl5 n.val 8 = mul_gf256 192#8 (BitVec.ofNat 8 n.val) := by decide +kernel
theorem gfK_6 : ∀ n : Fin 256, BC.Gen.tblAt kuznyechik_compact_enckeys_new_tbl6 n.val 8 = mul_gf256 251#8 (BitVec.ofNat 8 n.val) := by decide +kernel
theorem gfK : GfOK kuznyechik_compact_enckeys_new_tbl0 kuznyechik_compact_enckeys_new_tbl1 kuznyechik_compact_enckeys_new_tbl2 kuznyechik_compact_enckeys_new_tbl3 kuznyechik_compact_enckeys_new_tbl4 kuznyechik_compact_enckeys_new_tbl5 kuznyechik_compact_enckeys_new_tbl6 :=
  ⟨gf_of_fin _ _ gfK_0, gf_of_fin _ _ gfK_1, gf_of_fin _ _ gfK_2, gf_of_fin _ _ gfK_3, gf_of_fin _ _ gfK_4, gf_of_fin _ _ gfK_5, gf_of_fin _ _ gfK_6⟩

/-- `lsx(block, &c)` with a constant byte array `c` (`get_c(n)`) -/
def lsxcB (t0 t1 t2 t3 t4 t5 t6 : Array Nat) (m c : B16) : B16 := lfwdB t0 t1 t2 t3 t4 t5 t6 (sB (xorB m c))

theorem lsxcB_pack (t0 t1 t2 t3 t4 t5 t6 : Array Nat) (h : GfOK t0 t1 t2 t3 t4 t5 t6) (m c : B16) : (lsxcB t0 t1 t2 t3 t4 t5 t6 m c).pack = Compact.lsx m.pack c.pack := by
  simp only [lsxcB, Compact.lsx, lfwdB_pack t0 t1 t2 t3 t4 t5 t6 h, sB_pack, xorB_pack]

/-- one iteration of the loop of `f`: `k2 ^= lsx(k1, c0); k1 ^= lsx(k2, c1)` -/
def fstepB (t0 t1 t2 t3 t4 t5 t6 : Array Nat) (p : B16 × B16) (c0 c1 : B16) : B16 × B16 :=
  (xorB p.1 (lsxcB t0 t1 t2 t3 t4 t5 t6 (xorB p.2 (lsxcB t0 t1 t2 t3 t4 t5 t6 p.1 c0)) c1), xorB p.2 (lsxcB t0 t1 t2 t3 t4 t5 t6 p.1 c0))
def fstepI (k : BitVec 128 × BitVec 128) (c0 c1 : BitVec 128) : BitVec 128 × BitVec 128 :=
  (Compact.x k.1 (Compact.lsx (Compact.x k.2 (Compact.lsx k.1 c0)) c1), Compact.x k.2 (Compact.lsx k.1 c0))
def packP (p : B16 × B16) : BitVec 128 × BitVec 128 := (p.1.pack, p.2.pack)
theorem fstepB_pack (t0 t1 t2 t3 t4 t5 t6 : Array Nat) (h : GfOK t0 t1 t2 t3 t4 t5 t6) (p : B16 × B16) (c0 c1 : B16) :
    packP (fstepB t0 t1 t2 t3 t4 t5 t6 p c0 c1) = fstepI (packP p) c0.pack c1.pack := by
  simp only [packP, fstepB, fstepI, xorB_pack, lsxcB_pack t0 t1 t2 t3 t4 t5 t6 h]
def f4B (t0 t1 t2 t3 t4 t5 t6 : Array Nat) (p : B16 × B16) (c0 c1 c2 c3 c4 c5 c6 c7 : B16) : B16 × B16 :=
  fstepB t0 t1 t2 t3 t4 t5 t6 (fstepB t0 t1 t2 t3 t4 t5 t6 (fstepB t0 t1 t2 t3 t4 t5 t6 (fstepB t0 t1 t2 t3 t4 t5 t6 p c0 c1) c2 c3) c4 c5) c6 c7
def f4I (k : BitVec 128 × BitVec 128) (c0 c1 c2 c3 c4 c5 c6 c7 : BitVec 128) : BitVec 128 × BitVec 128 :=
  fstepI (fstepI (fstepI (fstepI k c0 c1) c2 c3) c4 c5) c6 c7
theorem f4B_pack (t0 t1 t2 t3 t4 t5 t6 : Array Nat) (h : GfOK t0 t1 t2 t3 t4 t5 t6) (p : B16 × B16) (c0 c1 c2 c3 c4 c5 c6 c7 : B16) :
    packP (f4B t0 t1 t2 t3 t4 t5 t6 p c0 c1 c2 c3 c4 c5 c6 c7) = f4I (packP p) c0.pack c1.pack c2.pack c3.pack c4.pack c5.pack c6.pack c7.pack := by
  simp only [f4B, f4I, fstepB_pack t0 t1 t2 t3 t4 t5 t6 h]
theorem f4B_fst (t0 t1 t2 t3 t4 t5 t6 : Array Nat) (h : GfOK t0 t1 t2 t3 t4 t5 t6) (p : B16 × B16) (c0 c1 c2 c3 c4 c5 c6 c7 : B16) :
    (f4B t0 t1 t2 t3 t4 t5 t6 p c0 c1 c2 c3 c4 c5 c6 c7).1.pack = (f4I (packP p) c0.pack c1.pack c2.pack c3.pack c4.pack c5.pack c6.pack c7.pack).1 :=
  congrArg Prod.fst (f4B_pack t0 t1 t2 t3 t4 t5 t6 h p c0 c1 c2 c3 c4 c5 c6 c7)
theorem f4B_snd (t0 t1 t2 t3 t4 t5 t6 : Array Nat) (h : GfOK t0 t1 t2 t3 t4 t5 t6) (p : B16 × B16) (c0 c1 c2 c3 c4 c5 c6 c7 : B16) :
    (f4B t0 t1 t2 t3 t4 t5 t6 p c0 c1 c2 c3 c4 c5 c6 c7).2.pack = (f4I (packP p) c0.pack c1.pack c2.pack c3.pack c4.pack c5.pack c6.pack c7.pack).2 :=
  congrArg Prod.snd (f4B_pack t0 t1 t2 t3 t4 t5 t6 h p c0 c1 c2 c3 c4 c5 c6 c7)

/-! ### the iteration constants `KEYGEN[n]` (= C_{n+1} of the standard), as bytes -/

def c0 : B16 := ⟨0x6e#8, 0xa2#8, 0x76#8, 0x72#8, 0x6c#8, 0x48#8, 0x7a#8, 0xb8#8, 0x5d#8, 0x27#8, 0xbd#8, 0x10#8, 0xdd#8, 0x84#8, 0x94#8, 0x01#8⟩
def c1 : B16 := ⟨0xdc#8, 0x87#8, 0xec#8, 0xe4#8, 0xd8#8, 0x90#8, 0xf4#8, 0xb3#8, 0xba#8, 0x4e#8, 0xb9#8, 0x20#8, 0x79#8, 0xcb#8, 0xeb#8, 0x02#8⟩
def c2 : B16 := ⟨0xb2#8, 0x25#8, 0x9a#8, 0x96#8, 0xb4#8, 0xd8#8, 0x8e#8, 0x0b#8, 0xe7#8, 0x69#8, 0x04#8, 0x30#8, 0xa4#8, 0x4f#8, 0x7f#8, 0x03#8⟩
def c3 : B16 := ⟨0x7b#8, 0xcd#8, 0x1b#8, 0x0b#8, 0x73#8, 0xe3#8, 0x2b#8, 0xa5#8, 0xb7#8, 0x9c#8, 0xb1#8, 0x40#8, 0xf2#8, 0x55#8, 0x15#8, 0x04#8⟩
def c4 : B16 := ⟨0x15#8, 0x6f#8, 0x6d#8, 0x79#8, 0x1f#8, 0xab#8, 0x51#8, 0x1d#8, 0xea#8, 0xbb#8, 0x0c#8, 0x50#8, 0x2f#8, 0xd1#8, 0x81#8, 0x05#8⟩
def c5 : B16 := ⟨0xa7#8, 0x4a#8, 0xf7#8, 0xef#8, 0xab#8, 0x73#8, 0xdf#8, 0x16#8, 0x0d#8, 0xd2#8, 0x08#8, 0x60#8, 0x8b#8, 0x9e#8, 0xfe#8, 0x06#8⟩
def c6 : B16 := ⟨0xc9#8, 0xe8#8, 0x81#8, 0x9d#8, 0xc7#8, 0x3b#8, 0xa5#8, 0xae#8, 0x50#8, 0xf5#8, 0xb5#8, 0x70#8, 0x56#8, 0x1a#8, 0x6a#8, 0x07#8⟩
def c7 : B16 := ⟨0xf6#8, 0x59#8, 0x36#8, 0x16#8, 0xe6#8, 0x05#8, 0x56#8, 0x89#8, 0xad#8, 0xfb#8, 0xa1#8, 0x80#8, 0x27#8, 0xaa#8, 0x2a#8, 0x08#8⟩
def c8 : B16 := ⟨0x98#8, 0xfb#8, 0x40#8, 0x64#8, 0x8a#8, 0x4d#8, 0x2c#8, 0x31#8, 0xf0#8, 0xdc#8, 0x1c#8, 0x90#8, 0xfa#8, 0x2e#8, 0xbe#8, 0x09#8⟩
def c9 : B16 := ⟨0x2a#8, 0xde#8, 0xda#8, 0xf2#8, 0x3e#8, 0x95#8, 0xa2#8, 0x3a#8, 0x17#8, 0xb5#8, 0x18#8, 0xa0#8, 0x5e#8, 0x61#8, 0xc1#8, 0x0a#8⟩
def c10 : B16 := ⟨0x44#8, 0x7c#8, 0xac#8, 0x80#8, 0x52#8, 0xdd#8, 0xd8#8, 0x82#8, 0x4a#8, 0x92#8, 0xa5#8, 0xb0#8, 0x83#8, 0xe5#8, 0x55#8, 0x0b#8⟩
def c11 : B16 := ⟨0x8d#8, 0x94#8, 0x2d#8, 0x1d#8, 0x95#8, 0xe6#8, 0x7d#8, 0x2c#8, 0x1a#8, 0x67#8, 0x10#8, 0xc0#8, 0xd5#8, 0xff#8, 0x3f#8, 0x0c#8⟩
def c12 : B16 := ⟨0xe3#8, 0x36#8, 0x5b#8, 0x6f#8, 0xf9#8, 0xae#8, 0x07#8, 0x94#8, 0x47#8, 0x40#8, 0xad#8, 0xd0#8, 0x08#8, 0x7b#8, 0xab#8, 0x0d#8⟩
def c13 : B16 := ⟨0x51#8, 0x13#8, 0xc1#8, 0xf9#8, 0x4d#8, 0x76#8, 0x89#8, 0x9f#8, 0xa0#8, 0x29#8, 0xa9#8, 0xe0#8, 0xac#8, 0x34#8, 0xd4#8, 0x0e#8⟩
def c14 : B16 := ⟨0x3f#8, 0xb1#8, 0xb7#8, 0x8b#8, 0x21#8, 0x3e#8, 0xf3#8, 0x27#8, 0xfd#8, 0x0e#8, 0x14#8, 0xf0#8, 0x71#8, 0xb0#8, 0x40#8, 0x0f#8⟩
def c15 : B16 := ⟨0x2f#8, 0xb2#8, 0x6c#8, 0x2c#8, 0x0f#8, 0x0a#8, 0xac#8, 0xd1#8, 0x99#8, 0x35#8, 0x81#8, 0xc3#8, 0x4e#8, 0x97#8, 0x54#8, 0x10#8⟩
def c16 : B16 := ⟨0x41#8, 0x10#8, 0x1a#8, 0x5e#8, 0x63#8, 0x42#8, 0xd6#8, 0x69#8, 0xc4#8, 0x12#8, 0x3c#8, 0xd3#8, 0x93#8, 0x13#8, 0xc0#8, 0x11#8⟩
def c17 : B16 := ⟨0xf3#8, 0x35#8, 0x80#8, 0xc8#8, 0xd7#8, 0x9a#8, 0x58#8, 0x62#8, 0x23#8, 0x7b#8, 0x38#8, 0xe3#8, 0x37#8, 0x5c#8, 0xbf#8, 0x12#8⟩
def c18 : B16 := ⟨0x9d#8, 0x97#8, 0xf6#8, 0xba#8, 0xbb#8, 0xd2#8, 0x22#8, 0xda#8, 0x7e#8, 0x5c#8, 0x85#8, 0xf3#8, 0xea#8, 0xd8#8, 0x2b#8, 0x13#8⟩
def c19 : B16 := ⟨0x54#8, 0x7f#8, 0x77#8, 0x27#8, 0x7c#8, 0xe9#8, 0x87#8, 0x74#8, 0x2e#8, 0xa9#8, 0x30#8, 0x83#8, 0xbc#8, 0xc2#8, 0x41#8, 0x14#8⟩
def c20 : B16 := ⟨0x3a#8, 0xdd#8, 0x01#8, 0x55#8, 0x10#8, 0xa1#8, 0xfd#8, 0xcc#8, 0x73#8, 0x8e#8, 0x8d#8, 0x93#8, 0x61#8, 0x46#8, 0xd5#8, 0x15#8⟩
def c21 : B16 := ⟨0x88#8, 0xf8#8, 0x9b#8, 0xc3#8, 0xa4#8, 0x79#8, 0x73#8, 0xc7#8, 0x94#8, 0xe7#8, 0x89#8, 0xa3#8, 0xc5#8, 0x09#8, 0xaa#8, 0x16#8⟩
def c22 : B16 := ⟨0xe6#8, 0x5a#8, 0xed#8, 0xb1#8, 0xc8#8, 0x31#8, 0x09#8, 0x7f#8, 0xc9#8, 0xc0#8, 0x34#8, 0xb3#8, 0x18#8, 0x8d#8, 0x3e#8, 0x17#8⟩
def c23 : B16 := ⟨0xd9#8, 0xeb#8, 0x5a#8, 0x3a#8, 0xe9#8, 0x0f#8, 0xfa#8, 0x58#8, 0x34#8, 0xce#8, 0x20#8, 0x43#8, 0x69#8, 0x3d#8, 0x7e#8, 0x18#8⟩
def c24 : B16 := ⟨0xb7#8, 0x49#8, 0x2c#8, 0x48#8, 0x85#8, 0x47#8, 0x80#8, 0xe0#8, 0x69#8, 0xe9#8, 0x9d#8, 0x53#8, 0xb4#8, 0xb9#8, 0xea#8, 0x19#8⟩
def c25 : B16 := ⟨0x05#8, 0x6c#8, 0xb6#8, 0xde#8, 0x31#8, 0x9f#8, 0x0e#8, 0xeb#8, 0x8e#8, 0x80#8, 0x99#8, 0x63#8, 0x10#8, 0xf6#8, 0x95#8, 0x1a#8⟩
def c26 : B16 := ⟨0x6b#8, 0xce#8, 0xc0#8, 0xac#8, 0x5d#8, 0xd7#8, 0x74#8, 0x53#8, 0xd3#8, 0xa7#8, 0x24#8, 0x73#8, 0xcd#8, 0x72#8, 0x01#8, 0x1b#8⟩
def c27 : B16 := ⟨0xa2#8, 0x26#8, 0x41#8, 0x31#8, 0x9a#8, 0xec#8, 0xd1#8, 0xfd#8, 0x83#8, 0x52#8, 0x91#8, 0x03#8, 0x9b#8, 0x68#8, 0x6b#8, 0x1c#8⟩
def c28 : B16 := ⟨0xcc#8, 0x84#8, 0x37#8, 0x43#8, 0xf6#8, 0xa4#8, 0xab#8, 0x45#8, 0xde#8, 0x75#8, 0x2c#8, 0x13#8, 0x46#8, 0xec#8, 0xff#8, 0x1d#8⟩
def c29 : B16 := ⟨0x7e#8, 0xa1#8, 0xad#8, 0xd5#8, 0x42#8, 0x7c#8, 0x25#8, 0x4e#8, 0x39#8, 0x1c#8, 0x28#8, 0x23#8, 0xe2#8, 0xa3#8, 0x80#8, 0x1e#8⟩
def c30 : B16 := ⟨0x10#8, 0x03#8, 0xdb#8, 0xa7#8, 0x2e#8, 0x34#8, 0x5f#8, 0xf6#8, 0x64#8, 0x3b#8, 0x95#8, 0x33#8, 0x3f#8, 0x27#8, 0x14#8, 0x1f#8⟩
def c31 : B16 := ⟨0x5e#8, 0xa7#8, 0xd8#8, 0x58#8, 0x1e#8, 0x14#8, 0x9b#8, 0x61#8, 0xf1#8, 0x6a#8, 0xc1#8, 0x45#8, 0x9c#8, 0xed#8, 0xa8#8, 0x20#8⟩

/-- `KEYGEN[n]`: `block[15] = (n + 1) as u8`, then the sixteen `l_step`s — evaluated on bytes with the regenerated tables -/
theorem keygen_get (n : Nat) (h : n < 32) : Compact.get_c n h = l_fwd (setb 0#128 15 (BitVec.ofNat 8 (n + 1))) := by
  simp only [Compact.get_c, KEYGEN, Vector.getElem_ofFn]

theorem unit15 (v : BitVec 8) : setb 0#128 15 v = (B16.mk 0 0 0 0 0 0 0 0 0 0 0 0 0 0 0 v).pack := by
  simp only [setb, B16.pack, Nat.reduceSub, Nat.reduceMul]
  bv_decide

theorem c0_eval : lfwdB kuznyechik_compact_enckeys_new_tbl0 kuznyechik_compact_enckeys_new_tbl1 kuznyechik_compact_enckeys_new_tbl2 kuznyechik_compact_enckeys_new_tbl3 kuznyechik_compact_enckeys_new_tbl4 kuznyechik_compact_enckeys_new_tbl5 kuznyechik_compact_enckeys_new_tbl6 (B16.mk 0 0 0 0 0 0 0 0 0 0 0 0 0 0 0 1#8) = c0 := by decide +kernel
theorem c1_eval : lfwdB kuznyechik_compact_enckeys_new_tbl0 kuznyechik_compact_enckeys_new_tbl1 kuznyechik_compact_enckeys_new_tbl2 kuznyechik_compact_enckeys_new_tbl3 kuznyechik_compact_enckeys_new_tbl4 kuznyechik_compact_enckeys_new_tbl5 kuznyechik_compact_enckeys_new_tbl6 (B16.mk 0 0 0 0 0 0 0 0 0 0 0 0 0 0 0 2#8) = c1 := by decide +kernel
theorem c2_eval : lfwdB kuznyechik_compact_enckeys_new_tbl0 kuznyechik_compact_enckeys_new_tbl1 kuznyechik_compact_enckeys_new_tbl2 kuznyechik_compact_enckeys_new_tbl3 kuznyechik_compact_enckeys_new_tbl4 kuznyechik_compact_enckeys_new_tbl5 kuznyechik_compact_enckeys_new_tbl6 (B16.mk 0 0 0 0 0 0 0 0 0 0 0 0 0 0 0 3#8) = c2 := by decide +kernel
theorem c3_eval : lfwdB kuznyechik_compact_enckeys_new_tbl0 kuznyechik_compact_enckeys_new_tbl1 kuznyechik_compact_enckeys_new_tbl2 kuznyechik_compact_enckeys_new_tbl3 kuznyechik_compact_enckeys_new_tbl4 kuznyechik_compact_enckeys_new_tbl5 kuznyechik_compact_enckeys_new_tbl6 (B16.mk 0 0 0 0 0 0 0 0 0 0 0 0 0 0 0 4#8) = c3 := by decide +kernel
theorem c4_eval : lfwdB kuznyechik_compact_enckeys_new_tbl0 kuznyechik_compact_enckeys_new_tbl1 kuznyechik_compact_enckeys_new_tbl2 kuznyechik_compact_enckeys_new_tbl3 kuznyechik_compact_enckeys_new_tbl4 kuznyechik_compact_enckeys_new_tbl5 kuznyechik_compact_enckeys_new_tbl6 (B16.mk 0 0 0 0 0 0 0 0 0 0 0 0 0 0 0 5#8) = c4 := by decide +kernel
theorem c5_eval : lfwdB kuznyechik_compact_enckeys_new_tbl0 kuznyechik_compact_enckeys_new_tbl1 kuznyechik_compact_enckeys_new_tbl2 kuznyechik_compact_enckeys_new_tbl3 kuznyechik_compact_enckeys_new_tbl4 kuznyechik_compact_enckeys_new_tbl5 kuznyechik_compact_enckeys_new_tbl6 (B16.mk 0 0 0 0 0 0 0 0 0 0 0 0 0 0 0 6#8) = c5 := by decide +kernel
theorem c6_eval : lfwdB kuznyechik_compact_enckeys_new_tbl0 kuznyechik_compact_enckeys_new_tbl1 kuznyechik_compact_enckeys_new_tbl2 kuznyechik_compact_enckeys_new_tbl3 kuznyechik_compact_enckeys_new_tbl4 kuznyechik_compact_enckeys_new_tbl5 kuznyechik_compact_enckeys_new_tbl6 (B16.mk 0 0 0 0 0 0 0 0 0 0 0 0 0 0 0 7#8) = c6 := by decide +kernel
theorem c7_eval : lfwdB kuznyechik_compact_enckeys_new_tbl0 kuznyechik_compact_enckeys_new_tbl1 kuznyechik_compact_enckeys_new_tbl2 kuznyechik_compact_enckeys_new_tbl3 kuznyechik_compact_enckeys_new_tbl4 kuznyechik_compact_enckeys_new_tbl5 kuznyechik_compact_enckeys_new_tbl6 (B16.mk 0 0 0 0 0 0 0 0 0 0 0 0 0 0 0 8#8) = c7 := by decide +kernel
theorem c8_eval : lfwdB kuznyechik_compact_enckeys_new_tbl0 kuznyechik_compact_enckeys_new_tbl1 kuznyechik_compact_enckeys_new_tbl2 kuznyechik_compact_enckeys_new_tbl3 kuznyechik_compact_enckeys_new_tbl4 kuznyechik_compact_enckeys_new_tbl5 kuznyechik_compact_enckeys_new_tbl6 (B16.mk 0 0 0 0 0 0 0 0 0 0 0 0 0 0 0 9#8) = c8 := by decide +kernel
theorem c9_eval : lfwdB kuznyechik_compact_enckeys_new_tbl0 kuznyechik_compact_enckeys_new_tbl1 kuznyechik_compact_enckeys_new_tbl2 kuznyechik_compact_enckeys_new_tbl3 kuznyechik_compact_enckeys_new_tbl4 kuznyechik_compact_enckeys_new_tbl5 kuznyechik_compact_enckeys_new_tbl6 (B16.mk 0 0 0 0 0 0 0 0 0 0 0 0 0 0 0 10#8) = c9 := by decide +kernel
theorem c10_eval : lfwdB kuznyechik_compact_enckeys_new_tbl0 kuznyechik_compact_enckeys_new_tbl1 kuznyechik_compact_enckeys_new_tbl2 kuznyechik_compact_enckeys_new_tbl3 kuznyechik_compact_enckeys_new_tbl4 kuznyechik_compact_enckeys_new_tbl5 kuznyechik_compact_enckeys_new_tbl6 (B16.mk 0 0 0 0 0 0 0 0 0 0 0 0 0 0 0 11#8) = c10 := by decide +kernel
theorem c11_eval : lfwdB kuznyechik_compact_enckeys_new_tbl0 kuznyechik_compact_enckeys_new_tbl1 kuznyechik_compact_enckeys_new_tbl2 kuznyechik_compact_enckeys_new_tbl3 kuznyechik_compact_enckeys_new_tbl4 kuznyechik_compact_enckeys_new_tbl5 kuznyechik_compact_enckeys_new_tbl6 (B16.mk 0 0 0 0 0 0 0 0 0 0 0 0 0 0 0 12#8) = c11 := by decide +kernel
theorem c12_eval : lfwdB kuznyechik_compact_enckeys_new_tbl0 kuznyechik_compact_enckeys_new_tbl1 kuznyechik_compact_enckeys_new_tbl2 kuznyechik_compact_enckeys_new_tbl3 kuznyechik_compact_enckeys_new_tbl4 kuznyechik_compact_enckeys_new_tbl5 kuznyechik_compact_enckeys_new_tbl6 (B16.mk 0 0 0 0 0 0 0 0 0 0 0 0 0 0 0 13#8) = c12 := by decide +kernel
theorem c13_eval : lfwdB kuznyechik_compact_enckeys_new_tbl0 kuznyechik_compact_enckeys_new_tbl1 kuznyechik_compact_enckeys_new_tbl2 kuznyechik_compact_enckeys_new_tbl3 kuznyechik_compact_enckeys_new_tbl4 kuznyechik_compact_enckeys_new_tbl5 kuznyechik_compact_enckeys_new_tbl6 (B16.mk 0 0 0 0 0 0 0 0 0 0 0 0 0 0 0 14#8) = c13 := by decide +kernel
theorem c14_eval : lfwdB kuznyechik_compact_enckeys_new_tbl0 kuznyechik_compact_enckeys_new_tbl1 kuznyechik_compact_enckeys_new_tbl2 kuznyechik_compact_enckeys_new_tbl3 kuznyechik_compact_enckeys_new_tbl4 kuznyechik_compact_enckeys_new_tbl5 kuznyechik_compact_enckeys_new_tbl6 (B16.mk 0 0 0 0 0 0 0 0 0 0 0 0 0 0 0 15#8) = c14 := by decide +kernel
theorem c15_eval : lfwdB kuznyechik_compact_enckeys_new_tbl0 kuznyechik_compact_enckeys_new_tbl1 kuznyechik_compact_enckeys_new_tbl2 kuznyechik_compact_enckeys_new_tbl3 kuznyechik_compact_enckeys_new_tbl4 kuznyechik_compact_enckeys_new_tbl5 kuznyechik_compact_enckeys_new_tbl6 (B16.mk 0 0 0 0 0 0 0 0 0 0 0 0 0 0 0 16#8) = c15 := by decide +kernel
theorem c16_eval : lfwdB kuznyechik_compact_enckeys_new_tbl0 kuznyechik_compact_enckeys_new_tbl1 kuznyechik_compact_enckeys_new_tbl2 kuznyechik_compact_enckeys_new_tbl3 kuznyechik_compact_enckeys_new_tbl4 kuznyechik_compact_enckeys_new_tbl5 kuznyechik_compact_enckeys_new_tbl6 (B16.mk 0 0 0 0 0 0 0 0 0 0 0 0 0 0 0 17#8) = c16 := by decide +kernel
theorem c17_eval : lfwdB kuznyechik_compact_enckeys_new_tbl0 kuznyechik_compact_enckeys_new_tbl1 kuznyechik_compact_enckeys_new_tbl2 kuznyechik_compact_enckeys_new_tbl3 kuznyechik_compact_enckeys_new_tbl4 kuznyechik_compact_enckeys_new_tbl5 kuznyechik_compact_enckeys_new_tbl6 (B16.mk 0 0 0 0 0 0 0 0 0 0 0 0 0 0 0 18#8) = c17 := by decide +kernel
theorem c18_eval : lfwdB kuznyechik_compact_enckeys_new_tbl0 kuznyechik_compact_enckeys_new_tbl1 kuznyechik_compact_enckeys_new_tbl2 kuznyechik_compact_enckeys_new_tbl3 kuznyechik_compact_enckeys_new_tbl4 kuznyechik_compact_enckeys_new_tbl5 kuznyechik_compact_enckeys_new_tbl6 (B16.mk 0 0 0 0 0 0 0 0 0 0 0 0 0 0 0 19#8) = c18 := by decide +kernel
theorem c19_eval : lfwdB kuznyechik_compact_enckeys_new_tbl0 kuznyechik_compact_enckeys_new_tbl1 kuznyechik_compact_enckeys_new_tbl2 kuznyechik_compact_enckeys_new_tbl3 kuznyechik_compact_enckeys_new_tbl4 kuznyechik_compact_enckeys_new_tbl5 kuznyechik_compact_enckeys_new_tbl6 (B16.mk 0 0 0 0 0 0 0 0 0 0 0 0 0 0 0 20#8) = c19 := by decide +kernel
theorem c20_eval : lfwdB kuznyechik_compact_enckeys_new_tbl0 kuznyechik_compact_enckeys_new_tbl1 kuznyechik_compact_enckeys_new_tbl2 kuznyechik_compact_enckeys_new_tbl3 kuznyechik_compact_enckeys_new_tbl4 kuznyechik_compact_enckeys_new_tbl5 kuznyechik_compact_enckeys_new_tbl6 (B16.mk 0 0 0 0 0 0 0 0 0 0 0 0 0 0 0 21#8) = c20 := by decide +kernel
theorem c21_eval : lfwdB kuznyechik_compact_enckeys_new_tbl0 kuznyechik_compact_enckeys_new_tbl1 kuznyechik_compact_enckeys_new_tbl2 kuznyechik_compact_enckeys_new_tbl3 kuznyechik_compact_enckeys_new_tbl4 kuznyechik_compact_enckeys_new_tbl5 kuznyechik_compact_enckeys_new_tbl6 (B16.mk 0 0 0 0 0 0 0 0 0 0 0 0 0 0 0 22#8) = c21 := by decide +kernel
theorem c22_eval : lfwdB kuznyechik_compact_enckeys_new_tbl0 kuznyechik_compact_enckeys_new_tbl1 kuznyechik_compact_enckeys_new_tbl2 kuznyechik_compact_enckeys_new_tbl3 kuznyechik_compact_enckeys_new_tbl4 kuznyechik_compact_enckeys_new_tbl5 kuznyechik_compact_enckeys_new_tbl6 (B16.mk 0 0 0 0 0 0 0 0 0 0 0 0 0 0 0 23#8) = c22 := by decide +kernel
theorem c23_eval : lfwdB kuznyechik_compact_enckeys_new_tbl0 kuznyechik_compact_enckeys_new_tbl1 kuznyechik_compact_enckeys_new_tbl2 kuznyechik_compact_enckeys_new_tbl3 kuznyechik_compact_enckeys_new_tbl4 kuznyechik_compact_enckeys_new_tbl5 kuznyechik_compact_enckeys_new_tbl6 (B16.mk 0 0 0 0 0 0 0 0 0 0 0 0 0 0 0 24#8) = c23 := by decide +kernel
theorem c24_eval : lfwdB kuznyechik_compact_enckeys_new_tbl0 kuznyechik_compact_enckeys_new_tbl1 kuznyechik_compact_enckeys_new_tbl2 kuznyechik_compact_enckeys_new_tbl3 kuznyechik_compact_enckeys_new_tbl4 kuznyechik_compact_enckeys_new_tbl5 kuznyechik_compact_enckeys_new_tbl6 (B16.mk 0 0 0 0 0 0 0 0 0 0 0 0 0 0 0 25#8) = c24 := by decide +kernel
theorem c25_eval : lfwdB kuznyechik_compact_enckeys_new_tbl0 kuznyechik_compact_enckeys_new_tbl1 kuznyechik_compact_enckeys_new_tbl2 kuznyechik_compact_enckeys_new_tbl3 kuznyechik_compact_enckeys_new_tbl4 kuznyechik_compact_enckeys_new_tbl5 kuznyechik_compact_enckeys_new_tbl6 (B16.mk 0 0 0 0 0 0 0 0 0 0 0 0 0 0 0 26#8) = c25 := by decide +kernel
theorem c26_eval : lfwdB kuznyechik_compact_enckeys_new_tbl0 kuznyechik_compact_enckeys_new_tbl1 kuznyechik_compact_enckeys_new_tbl2 kuznyechik_compact_enckeys_new_tbl3 kuznyechik_compact_enckeys_new_tbl4 kuznyechik_compact_enckeys_new_tbl5 kuznyechik_compact_enckeys_new_tbl6 (B16.mk 0 0 0 0 0 0 0 0 0 0 0 0 0 0 0 27#8) = c26 := by decide +kernel
theorem c27_eval : lfwdB kuznyechik_compact_enckeys_new_tbl0 kuznyechik_compact_enckeys_new_tbl1 kuznyechik_compact_enckeys_new_tbl2 kuznyechik_compact_enckeys_new_tbl3 kuznyechik_compact_enckeys_new_tbl4 kuznyechik_compact_enckeys_new_tbl5 kuznyechik_compact_enckeys_new_tbl6 (B16.mk 0 0 0 0 0 0 0 0 0 0 0 0 0 0 0 28#8) = c27 := by decide +kernel
theorem c28_eval : lfwdB kuznyechik_compact_enckeys_new_tbl0 kuznyechik_compact_enckeys_new_tbl1 kuznyechik_compact_enckeys_new_tbl2 kuznyechik_compact_enckeys_new_tbl3 kuznyechik_compact_enckeys_new_tbl4 kuznyechik_compact_enckeys_new_tbl5 kuznyechik_compact_enckeys_new_tbl6 (B16.mk 0 0 0 0 0 0 0 0 0 0 0 0 0 0 0 29#8) = c28 := by decide +kernel
theorem c29_eval : lfwdB kuznyechik_compact_enckeys_new_tbl0 kuznyechik_compact_enckeys_new_tbl1 kuznyechik_compact_enckeys_new_tbl2 kuznyechik_compact_enckeys_new_tbl3 kuznyechik_compact_enckeys_new_tbl4 kuznyechik_compact_enckeys_new_tbl5 kuznyechik_compact_enckeys_new_tbl6 (B16.mk 0 0 0 0 0 0 0 0 0 0 0 0 0 0 0 30#8) = c29 := by decide +kernel
theorem c30_eval : lfwdB kuznyechik_compact_enckeys_new_tbl0 kuznyechik_compact_enckeys_new_tbl1 kuznyechik_compact_enckeys_new_tbl2 kuznyechik_compact_enckeys_new_tbl3 kuznyechik_compact_enckeys_new_tbl4 kuznyechik_compact_enckeys_new_tbl5 kuznyechik_compact_enckeys_new_tbl6 (B16.mk 0 0 0 0 0 0 0 0 0 0 0 0 0 0 0 31#8) = c30 := by decide +kernel
theorem c31_eval : lfwdB kuznyechik_compact_enckeys_new_tbl0 kuznyechik_compact_enckeys_new_tbl1 kuznyechik_compact_enckeys_new_tbl2 kuznyechik_compact_enckeys_new_tbl3 kuznyechik_compact_enckeys_new_tbl4 kuznyechik_compact_enckeys_new_tbl5 kuznyechik_compact_enckeys_new_tbl6 (B16.mk 0 0 0 0 0 0 0 0 0 0 0 0 0 0 0 32#8) = c31 := by decide +kernel

theorem c0_pack : c0.pack = Compact.get_c 0 (by decide) := by
  rw [keygen_get, unit15, ← lfwdB_pack kuznyechik_compact_enckeys_new_tbl0 kuznyechik_compact_enckeys_new_tbl1 kuznyechik_compact_enckeys_new_tbl2 kuznyechik_compact_enckeys_new_tbl3 kuznyechik_compact_enckeys_new_tbl4 kuznyechik_compact_enckeys_new_tbl5 kuznyechik_compact_enckeys_new_tbl6 gfK, ← c0_eval]
theorem c1_pack : c1.pack = Compact.get_c 1 (by decide) := by
  rw [keygen_get, unit15, ← lfwdB_pack kuznyechik_compact_enckeys_new_tbl0 kuznyechik_compact_enckeys_new_tbl1 kuznyechik_compact_enckeys_new_tbl2 kuznyechik_compact_enckeys_new_tbl3 kuznyechik_compact_enckeys_new_tbl4 kuznyechik_compact_enckeys_new_tbl5 kuznyechik_compact_enckeys_new_tbl6 gfK, ← c1_eval]
theorem c2_pack : c2.pack = Compact.get_c 2 (by decide) := by
  rw [keygen_get, unit15, ← lfwdB_pack kuznyechik_compact_enckeys_new_tbl0 kuznyechik_compact_enckeys_new_tbl1 kuznyechik_compact_enckeys_new_tbl2 kuznyechik_compact_enckeys_new_tbl3 kuznyechik_compact_enckeys_new_tbl4 kuznyechik_compact_enckeys_new_tbl5 kuznyechik_compact_enckeys_new_tbl6 gfK, ← c2_eval]
theorem c3_pack : c3.pack = Compact.get_c 3 (by decide) := by
  rw [keygen_get, unit15, ← lfwdB_pack kuznyechik_compact_enckeys_new_tbl0 kuznyechik_compact_enckeys_new_tbl1 kuznyechik_compact_enckeys_new_tbl2 kuznyechik_compact_enckeys_new_tbl3 kuznyechik_compact_enckeys_new_tbl4 kuznyechik_compact_enckeys_new_tbl5 kuznyechik_compact_enckeys_new_tbl6 gfK, ← c3_eval]
theorem c4_pack : c4.pack = Compact.get_c 4 (by decide) := by
  rw [keygen_get, unit15, ← lfwdB_pack kuznyechik_compact_enckeys_new_tbl0 kuznyechik_compact_enckeys_new_tbl1 kuznyechik_compact_enckeys_new_tbl2 kuznyechik_compact_enckeys_new_tbl3 kuznyechik_compact_enckeys_new_tbl4 kuznyechik_compact_enckeys_new_tbl5 kuznyechik_compact_enckeys_new_tbl6 gfK, ← c4_eval]
theorem c5_pack : c5.pack = Compact.get_c 5 (by decide) := by
  rw [keygen_get, unit15, ← lfwdB_pack kuznyechik_compact_enckeys_new_tbl0 kuznyechik_compact_enckeys_new_tbl1 kuznyechik_compact_enckeys_new_tbl2 kuznyechik_compact_enckeys_new_tbl3 kuznyechik_compact_enckeys_new_tbl4 kuznyechik_compact_enckeys_new_tbl5 kuznyechik_compact_enckeys_new_tbl6 gfK, ← c5_eval]
theorem c6_pack : c6.pack = Compact.get_c 6 (by decide) := by
  rw [keygen_get, unit15, ← lfwdB_pack kuznyechik_compact_enckeys_new_tbl0 kuznyechik_compact_enckeys_new_tbl1 kuznyechik_compact_enckeys_new_tbl2 kuznyechik_compact_enckeys_new_tbl3 kuznyechik_compact_enckeys_new_tbl4 kuznyechik_compact_enckeys_new_tbl5 kuznyechik_compact_enckeys_new_tbl6 gfK, ← c6_eval]
theorem c7_pack : c7.pack = Compact.get_c 7 (by decide) := by
  rw [keygen_get, unit15, ← lfwdB_pack kuznyechik_compact_enckeys_new_tbl0 kuznyechik_compact_enckeys_new_tbl1 kuznyechik_compact_enckeys_new_tbl2 kuznyechik_compact_enckeys_new_tbl3 kuznyechik_compact_enckeys_new_tbl4 kuznyechik_compact_enckeys_new_tbl5 kuznyechik_compact_enckeys_new_tbl6 gfK, ← c7_eval]
theorem c8_pack : c8.pack = Compact.get_c 8 (by decide) := by
  rw [keygen_get, unit15, ← lfwdB_pack kuznyechik_compact_enckeys_new_tbl0 kuznyechik_compact_enckeys_new_tbl1 kuznyechik_compact_enckeys_new_tbl2 kuznyechik_compact_enckeys_new_tbl3 kuznyechik_compact_enckeys_new_tbl4 kuznyechik_compact_enckeys_new_tbl5 kuznyechik_compact_enckeys_new_tbl6 gfK, ← c8_eval]
theorem c9_pack : c9.pack = Compact.get_c 9 (by decide) := by
  rw [keygen_get, unit15, ← lfwdB_pack kuznyechik_compact_enckeys_new_tbl0 kuznyechik_compact_enckeys_new_tbl1 kuznyechik_compact_enckeys_new_tbl2 kuznyechik_compact_enckeys_new_tbl3 kuznyechik_compact_enckeys_new_tbl4 kuznyechik_compact_enckeys_new_tbl5 kuznyechik_compact_enckeys_new_tbl6 gfK, ← c9_eval]
theorem c10_pack : c10.pack = Compact.get_c 10 (by decide) := by
  rw [keygen_get, unit15, ← lfwdB_pack kuznyechik_compact_enckeys_new_tbl0 kuznyechik_compact_enckeys_new_tbl1 kuznyechik_compact_enckeys_new_tbl2 kuznyechik_compact_enckeys_new_tbl3 kuznyechik_compact_enckeys_new_tbl4 kuznyechik_compact_enckeys_new_tbl5 kuznyechik_compact_enckeys_new_tbl6 gfK, ← c10_eval]
theorem c11_pack : c11.pack = Compact.get_c 11 (by decide) := by
  rw [keygen_get, unit15, ← lfwdB_pack kuznyechik_compact_enckeys_new_tbl0 kuznyechik_compact_enckeys_new_tbl1 kuznyechik_compact_enckeys_new_tbl2 kuznyechik_compact_enckeys_new_tbl3 kuznyechik_compact_enckeys_new_tbl4 kuznyechik_compact_enckeys_new_tbl5 kuznyechik_compact_enckeys_new_tbl6 gfK, ← c11_eval]
theorem c12_pack : c12.pack = Compact.get_c 12 (by decide) := by
  rw [keygen_get, unit15, ← lfwdB_pack kuznyechik_compact_enckeys_new_tbl0 kuznyechik_compact_enckeys_new_tbl1 kuznyechik_compact_enckeys_new_tbl2 kuznyechik_compact_enckeys_new_tbl3 kuznyechik_compact_enckeys_new_tbl4 kuznyechik_compact_enckeys_new_tbl5 kuznyechik_compact_enckeys_new_tbl6 gfK, ← c12_eval]
theorem c13_pack : c13.pack = Compact.get_c 13 (by decide) := by
  rw [keygen_get, unit15, ← lfwdB_pack kuznyechik_compact_enckeys_new_tbl0 kuznyechik_compact_enckeys_new_tbl1 kuznyechik_compact_enckeys_new_tbl2 kuznyechik_compact_enckeys_new_tbl3 kuznyechik_compact_enckeys_new_tbl4 kuznyechik_compact_enckeys_new_tbl5 kuznyechik_compact_enckeys_new_tbl6 gfK, ← c13_eval]
theorem c14_pack : c14.pack = Compact.get_c 14 (by decide) := by
  rw [keygen_get, unit15, ← lfwdB_pack kuznyechik_compact_enckeys_new_tbl0 kuznyechik_compact_enckeys_new_tbl1 kuznyechik_compact_enckeys_new_tbl2 kuznyechik_compact_enckeys_new_tbl3 kuznyechik_compact_enckeys_new_tbl4 kuznyechik_compact_enckeys_new_tbl5 kuznyechik_compact_enckeys_new_tbl6 gfK, ← c14_eval]
theorem c15_pack : c15.pack = Compact.get_c 15 (by decide) := by
  rw [keygen_get, unit15, ← lfwdB_pack kuznyechik_compact_enckeys_new_tbl0 kuznyechik_compact_enckeys_new_tbl1 kuznyechik_compact_enckeys_new_tbl2 kuznyechik_compact_enckeys_new_tbl3 kuznyechik_compact_enckeys_new_tbl4 kuznyechik_compact_enckeys_new_tbl5 kuznyechik_compact_enckeys_new_tbl6 gfK, ← c15_eval]
theorem c16_pack : c16.pack = Compact.get_c 16 (by decide) := by
  rw [keygen_get, unit15, ← lfwdB_pack kuznyechik_compact_enckeys_new_tbl0 kuznyechik_compact_enckeys_new_tbl1 kuznyechik_compact_enckeys_new_tbl2 kuznyechik_compact_enckeys_new_tbl3 kuznyechik_compact_enckeys_new_tbl4 kuznyechik_compact_enckeys_new_tbl5 kuznyechik_compact_enckeys_new_tbl6 gfK, ← c16_eval]
theorem c17_pack : c17.pack = Compact.get_c 17 (by decide) := by
  rw [keygen_get, unit15, ← lfwdB_pack kuznyechik_compact_enckeys_new_tbl0 kuznyechik_compact_enckeys_new_tbl1 kuznyechik_compact_enckeys_new_tbl2 kuznyechik_compact_enckeys_new_tbl3 kuznyechik_compact_enckeys_new_tbl4 kuznyechik_compact_enckeys_new_tbl5 kuznyechik_compact_enckeys_new_tbl6 gfK, ← c17_eval]
theorem c18_pack : c18.pack = Compact.get_c 18 (by decide) := by
  rw [keygen_get, unit15, ← lfwdB_pack kuznyechik_compact_enckeys_new_tbl0 kuznyechik_compact_enckeys_new_tbl1 kuznyechik_compact_enckeys_new_tbl2 kuznyechik_compact_enckeys_new_tbl3 kuznyechik_compact_enckeys_new_tbl4 kuznyechik_compact_enckeys_new_tbl5 kuznyechik_compact_enckeys_new_tbl6 gfK, ← c18_eval]
theorem c19_pack : c19.pack = Compact.get_c 19 (by decide) := by
  rw [keygen_get, unit15, ← lfwdB_pack kuznyechik_compact_enckeys_new_tbl0 kuznyechik_compact_enckeys_new_tbl1 kuznyechik_compact_enckeys_new_tbl2 kuznyechik_compact_enckeys_new_tbl3 kuznyechik_compact_enckeys_new_tbl4 kuznyechik_compact_enckeys_new_tbl5 kuznyechik_compact_enckeys_new_tbl6 gfK, ← c19_eval]
theorem c20_pack : c20.pack = Compact.get_c 20 (by decide) := by
  rw [keygen_get, unit15, ← lfwdB_pack kuznyechik_compact_enckeys_new_tbl0 kuznyechik_compact_enckeys_new_tbl1 kuznyechik_compact_enckeys_new_tbl2 kuznyechik_compact_enckeys_new_tbl3 kuznyechik_compact_enckeys_new_tbl4 kuznyechik_compact_enckeys_new_tbl5 kuznyechik_compact_enckeys_new_tbl6 gfK, ← c20_eval]
theorem c21_pack : c21.pack = Compact.get_c 21 (by decide) := by
  rw [keygen_get, unit15, ← lfwdB_pack kuznyechik_compact_enckeys_new_tbl0 kuznyechik_compact_enckeys_new_tbl1 kuznyechik_compact_enckeys_new_tbl2 kuznyechik_compact_enckeys_new_tbl3 kuznyechik_compact_enckeys_new_tbl4 kuznyechik_compact_enckeys_new_tbl5 kuznyechik_compact_enckeys_new_tbl6 gfK, ← c21_eval]
theorem c22_pack : c22.pack = Compact.get_c 22 (by decide) := by
  rw [keygen_get, unit15, ← lfwdB_pack kuznyechik_compact_enckeys_new_tbl0 kuznyechik_compact_enckeys_new_tbl1 kuznyechik_compact_enckeys_new_tbl2 kuznyechik_compact_enckeys_new_tbl3 kuznyechik_compact_enckeys_new_tbl4 kuznyechik_compact_enckeys_new_tbl5 kuznyechik_compact_enckeys_new_tbl6 gfK, ← c22_eval]
theorem c23_pack : c23.pack = Compact.get_c 23 (by decide) := by
  rw [keygen_get, unit15, ← lfwdB_pack kuznyechik_compact_enckeys_new_tbl0 kuznyechik_compact_enckeys_new_tbl1 kuznyechik_compact_enckeys_new_tbl2 kuznyechik_compact_enckeys_new_tbl3 kuznyechik_compact_enckeys_new_tbl4 kuznyechik_compact_enckeys_new_tbl5 kuznyechik_compact_enckeys_new_tbl6 gfK, ← c23_eval]
theorem c24_pack : c24.pack = Compact.get_c 24 (by decide) := by
  rw [keygen_get, unit15, ← lfwdB_pack kuznyechik_compact_enckeys_new_tbl0 kuznyechik_compact_enckeys_new_tbl1 kuznyechik_compact_enckeys_new_tbl2 kuznyechik_compact_enckeys_new_tbl3 kuznyechik_compact_enckeys_new_tbl4 kuznyechik_compact_enckeys_new_tbl5 kuznyechik_compact_enckeys_new_tbl6 gfK, ← c24_eval]
theorem c25_pack : c25.pack = Compact.get_c 25 (by decide) := by
  rw [keygen_get, unit15, ← lfwdB_pack kuznyechik_compact_enckeys_new_tbl0 kuznyechik_compact_enckeys_new_tbl1 kuznyechik_compact_enckeys_new_tbl2 kuznyechik_compact_enckeys_new_tbl3 kuznyechik_compact_enckeys_new_tbl4 kuznyechik_compact_enckeys_new_tbl5 kuznyechik_compact_enckeys_new_tbl6 gfK, ← c25_eval]
theorem c26_pack : c26.pack = Compact.get_c 26 (by decide) := by
  rw [keygen_get, unit15, ← lfwdB_pack kuznyechik_compact_enckeys_new_tbl0 kuznyechik_compact_enckeys_new_tbl1 kuznyechik_compact_enckeys_new_tbl2 kuznyechik_compact_enckeys_new_tbl3 kuznyechik_compact_enckeys_new_tbl4 kuznyechik_compact_enckeys_new_tbl5 kuznyechik_compact_enckeys_new_tbl6 gfK, ← c26_eval]
theorem c27_pack : c27.pack = Compact.get_c 27 (by decide) := by
  rw [keygen_get, unit15, ← lfwdB_pack kuznyechik_compact_enckeys_new_tbl0 kuznyechik_compact_enckeys_new_tbl1 kuznyechik_compact_enckeys_new_tbl2 kuznyechik_compact_enckeys_new_tbl3 kuznyechik_compact_enckeys_new_tbl4 kuznyechik_compact_enckeys_new_tbl5 kuznyechik_compact_enckeys_new_tbl6 gfK, ← c27_eval]
theorem c28_pack : c28.pack = Compact.get_c 28 (by decide) := by
  rw [keygen_get, unit15, ← lfwdB_pack kuznyechik_compact_enckeys_new_tbl0 kuznyechik_compact_enckeys_new_tbl1 kuznyechik_compact_enckeys_new_tbl2 kuznyechik_compact_enckeys_new_tbl3 kuznyechik_compact_enckeys_new_tbl4 kuznyechik_compact_enckeys_new_tbl5 kuznyechik_compact_enckeys_new_tbl6 gfK, ← c28_eval]
theorem c29_pack : c29.pack = Compact.get_c 29 (by decide) := by
  rw [keygen_get, unit15, ← lfwdB_pack kuznyechik_compact_enckeys_new_tbl0 kuznyechik_compact_enckeys_new_tbl1 kuznyechik_compact_enckeys_new_tbl2 kuznyechik_compact_enckeys_new_tbl3 kuznyechik_compact_enckeys_new_tbl4 kuznyechik_compact_enckeys_new_tbl5 kuznyechik_compact_enckeys_new_tbl6 gfK, ← c29_eval]
theorem c30_pack : c30.pack = Compact.get_c 30 (by decide) := by
  rw [keygen_get, unit15, ← lfwdB_pack kuznyechik_compact_enckeys_new_tbl0 kuznyechik_compact_enckeys_new_tbl1 kuznyechik_compact_enckeys_new_tbl2 kuznyechik_compact_enckeys_new_tbl3 kuznyechik_compact_enckeys_new_tbl4 kuznyechik_compact_enckeys_new_tbl5 kuznyechik_compact_enckeys_new_tbl6 gfK, ← c30_eval]
theorem c31_pack : c31.pack = Compact.get_c 31 (by decide) := by
  rw [keygen_get, unit15, ← lfwdB_pack kuznyechik_compact_enckeys_new_tbl0 kuznyechik_compact_enckeys_new_tbl1 kuznyechik_compact_enckeys_new_tbl2 kuznyechik_compact_enckeys_new_tbl3 kuznyechik_compact_enckeys_new_tbl4 kuznyechik_compact_enckeys_new_tbl5 kuznyechik_compact_enckeys_new_tbl6 gfK, ← c31_eval]

theorem f_0 (p : BitVec 128 × BitVec 128) : Compact.f p 0 = f4I p (Compact.get_c 0 (by decide)) (Compact.get_c 1 (by decide)) (Compact.get_c 2 (by decide)) (Compact.get_c 3 (by decide)) (Compact.get_c 4 (by decide)) (Compact.get_c 5 (by decide)) (Compact.get_c 6 (by decide)) (Compact.get_c 7 (by decide)) := rfl
theorem f_1 (p : BitVec 128 × BitVec 128) : Compact.f p 1 = f4I p (Compact.get_c 8 (by decide)) (Compact.get_c 9 (by decide)) (Compact.get_c 10 (by decide)) (Compact.get_c 11 (by decide)) (Compact.get_c 12 (by decide)) (Compact.get_c 13 (by decide)) (Compact.get_c 14 (by decide)) (Compact.get_c 15 (by decide)) := rfl
theorem f_2 (p : BitVec 128 × BitVec 128) : Compact.f p 2 = f4I p (Compact.get_c 16 (by decide)) (Compact.get_c 17 (by decide)) (Compact.get_c 18 (by decide)) (Compact.get_c 19 (by decide)) (Compact.get_c 20 (by decide)) (Compact.get_c 21 (by decide)) (Compact.get_c 22 (by decide)) (Compact.get_c 23 (by decide)) := rfl
theorem f_3 (p : BitVec 128 × BitVec 128) : Compact.f p 3 = f4I p (Compact.get_c 24 (by decide)) (Compact.get_c 25 (by decide)) (Compact.get_c 26 (by decide)) (Compact.get_c 27 (by decide)) (Compact.get_c 28 (by decide)) (Compact.get_c 29 (by decide)) (Compact.get_c 30 (by decide)) (Compact.get_c 31 (by decide)) := rfl

def unpackHi (key : BitVec 256) : B16 := ⟨key.extractLsb' 248 8, key.extractLsb' 240 8, key.extractLsb' 232 8, key.extractLsb' 224 8, key.extractLsb' 216 8, key.extractLsb' 208 8, key.extractLsb' 200 8, key.extractLsb' 192 8, key.extractLsb' 184 8, key.extractLsb' 176 8, key.extractLsb' 168 8, key.extractLsb' 160 8, key.extractLsb' 152 8, key.extractLsb' 144 8, key.extractLsb' 136 8, key.extractLsb' 128 8⟩
def unpackLo (key : BitVec 256) : B16 := ⟨key.extractLsb' 120 8, key.extractLsb' 112 8, key.extractLsb' 104 8, key.extractLsb' 96 8, key.extractLsb' 88 8, key.extractLsb' 80 8, key.extractLsb' 72 8, key.extractLsb' 64 8, key.extractLsb' 56 8, key.extractLsb' 48 8, key.extractLsb' 40 8, key.extractLsb' 32 8, key.extractLsb' 24 8, key.extractLsb' 16 8, key.extractLsb' 8 8, key.extractLsb' 0 8⟩
theorem unpackHi_pack (key : BitVec 256) : (unpackHi key).pack = key.extractLsb' 128 128 := by
  simp only [unpackHi, B16.pack]
  bv_decide
theorem unpackLo_pack (key : BitVec 256) : (unpackLo key).pack = key.extractLsb' 0 128 := by
  simp only [unpackLo, B16.pack]
  bv_decide

def rkTuple (k : RoundKeys) := (k.k0, k.k1, k.k2, k.k3, k.k4, k.k5, k.k6, k.k7, k.k8, k.k9)

/-- `expand` on bytes -/
def expandB (t0 t1 t2 t3 t4 t5 t6 : Array Nat) (key : BitVec 256) :=
  let p0 : B16 × B16 := (unpackHi key, unpackLo key)
  let p1 := f4B t0 t1 t2 t3 t4 t5 t6 p0 c0 c1 c2 c3 c4 c5 c6 c7
  let p2 := f4B t0 t1 t2 t3 t4 t5 t6 p1 c8 c9 c10 c11 c12 c13 c14 c15
  let p3 := f4B t0 t1 t2 t3 t4 t5 t6 p2 c16 c17 c18 c19 c20 c21 c22 c23
  let p4 := f4B t0 t1 t2 t3 t4 t5 t6 p3 c24 c25 c26 c27 c28 c29 c30 c31
  (p0.1.pack, p0.2.pack, p1.1.pack, p1.2.pack, p2.1.pack, p2.2.pack, p3.1.pack, p3.2.pack, p4.1.pack, p4.2.pack)

theorem enckeys_new_eq_B (key : BitVec 256) : kuznyechik_compact_enckeys_new key = expandB kuznyechik_compact_enckeys_new_tbl0 kuznyechik_compact_enckeys_new_tbl1 kuznyechik_compact_enckeys_new_tbl2 kuznyechik_compact_enckeys_new_tbl3 kuznyechik_compact_enckeys_new_tbl4 kuznyechik_compact_enckeys_new_tbl5 kuznyechik_compact_enckeys_new_tbl6 key := by
  kuz_kernel_rfl

theorem expandB_eq (t0 t1 t2 t3 t4 t5 t6 : Array Nat) (h : GfOK t0 t1 t2 t3 t4 t5 t6) (key : BitVec 256) : expandB t0 t1 t2 t3 t4 t5 t6 key = rkTuple (Compact.expand key) := by
  have hp : packP (unpackHi key, unpackLo key) = (key.extractLsb' 128 128, key.extractLsb' 0 128) := by
    simp only [packP, unpackHi_pack, unpackLo_pack]
  simp only [expandB, rkTuple, Compact.expand, f_0, f_1, f_2, f_3, f4B_fst t0 t1 t2 t3 t4 t5 t6 h, f4B_snd t0 t1 t2 t3 t4 t5 t6 h, f4B_pack t0 t1 t2 t3 t4 t5 t6 h, hp,
    unpackHi_pack, unpackLo_pack, c0_pack, c1_pack, c2_pack, c3_pack, c4_pack, c5_pack, c6_pack, c7_pack, c8_pack, c9_pack, c10_pack, c11_pack, c12_pack, c13_pack, c14_pack, c15_pack, c16_pack, c17_pack, c18_pack, c19_pack, c20_pack, c21_pack, c22_pack, c23_pack, c24_pack, c25_pack, c26_pack, c27_pack, c28_pack, c29_pack, c30_pack, c31_pack]

/-- the regenerated `EncKeys::new` (compact_soft) computes the model's `Compact.expand`, for every key -/
theorem kuznyechik_compact_enckeys_new_eq (key : BitVec 256) :
    kuznyechik_compact_enckeys_new key = rkTuple (Compact.expand key) := by
  rw [enckeys_new_eq_B, expandB_eq _ _ _ _ _ _ _ gfK]

end BC.GenKeys.Kuznyechik
