import BlockCiphers.Gen.Cipher_Kuznyechik_soft
import BlockCiphers.Proofs.GenKuznyechikSoftTablesBase
/-! Part of the fused-table tie of Kuznyechik's big software backend: see `GenKuznyechikSoftTablesBase.lean`. -/
set_option maxRecDepth 100000
namespace BC.GenCipher.Kuznyechik
open BC BC.Kuznyechik BC.Spec.Kuznyechik BC.Gen.Fn
/-! #### dec, byte position 8 -/
def Rdec8 (v : BitVec 8) : BitVec 128 := rev128 (Linv (setb 0#128 8 v))
theorem Rdec8_xor (a b : BitVec 8) : Rdec8 (a ^^^ b) = Rdec8 a ^^^ Rdec8 b := by
  simp only [Rdec8, setb_xor8, Linv_xor, rev128_xor]
theorem Rdec8_zero : Rdec8 0#8 = 0#128 := by
  have h := Rdec8_xor 0#8 0#8
  simp only [BitVec.xor_self] at h
  exact h
theorem Rdec8_ite (c : Bool) (a : BitVec 8) : Rdec8 (if c then a else 0#8) = if c then Rdec8 a else 0#128 := by
  cases c <;> simp [Rdec8_zero]
theorem Rdec8_b0 : Rdec8 0x01#8 = 0xf39c2b6aa46ee7be49f6c910afe0defb#128 := by
  rw [Rdec8, setb_unit8, ← l_bwd_eq_Linv, ← lbwdB_pack kuznyechik_compact_decrypt_block_tbl0 kuznyechik_compact_decrypt_block_tbl1 kuznyechik_compact_decrypt_block_tbl2 kuznyechik_compact_decrypt_block_tbl3 kuznyechik_compact_decrypt_block_tbl4 kuznyechik_compact_decrypt_block_tbl5 kuznyechik_compact_decrypt_block_tbl6 gfD]
  decide +kernel
theorem Rdec8_b1 : Rdec8 0x02#8 = 0x25fb56d48bdc0dbf922f51209d037f35#128 := by
  rw [Rdec8, setb_unit8, ← l_bwd_eq_Linv, ← lbwdB_pack kuznyechik_compact_decrypt_block_tbl0 kuznyechik_compact_decrypt_block_tbl1 kuznyechik_compact_decrypt_block_tbl2 kuznyechik_compact_decrypt_block_tbl3 kuznyechik_compact_decrypt_block_tbl4 kuznyechik_compact_decrypt_block_tbl5 kuznyechik_compact_decrypt_block_tbl6 gfD]
  decide +kernel
theorem Rdec8_b2 : Rdec8 0x04#8 = 0x4a35ac6bd57b1abde75ea240f906fe6a#128 := by
  rw [Rdec8, setb_unit8, ← l_bwd_eq_Linv, ← lbwdB_pack kuznyechik_compact_decrypt_block_tbl0 kuznyechik_compact_decrypt_block_tbl1 kuznyechik_compact_decrypt_block_tbl2 kuznyechik_compact_decrypt_block_tbl3 kuznyechik_compact_decrypt_block_tbl4 kuznyechik_compact_decrypt_block_tbl5 kuznyechik_compact_decrypt_block_tbl6 gfD]
  decide +kernel
theorem Rdec8_b3 : Rdec8 0x08#8 = 0x946a9bd669f634b90dbc8780310c3fd4#128 := by
  rw [Rdec8, setb_unit8, ← l_bwd_eq_Linv, ← lbwdB_pack kuznyechik_compact_decrypt_block_tbl0 kuznyechik_compact_decrypt_block_tbl1 kuznyechik_compact_decrypt_block_tbl2 kuznyechik_compact_decrypt_block_tbl3 kuznyechik_compact_decrypt_block_tbl4 kuznyechik_compact_decrypt_block_tbl5 kuznyechik_compact_decrypt_block_tbl6 gfD]
  decide +kernel
theorem Rdec8_b4 : Rdec8 0x10#8 = 0xebd4f56fd22f68b11abbcdc362187e6b#128 := by
  rw [Rdec8, setb_unit8, ← l_bwd_eq_Linv, ← lbwdB_pack kuznyechik_compact_decrypt_block_tbl0 kuznyechik_compact_decrypt_block_tbl1 kuznyechik_compact_decrypt_block_tbl2 kuznyechik_compact_decrypt_block_tbl3 kuznyechik_compact_decrypt_block_tbl4 kuznyechik_compact_decrypt_block_tbl5 kuznyechik_compact_decrypt_block_tbl6 gfD]
  decide +kernel
theorem Rdec8_b5 : Rdec8 0x20#8 = 0x156b29de675ed0a134b55945c430fcd6#128 := by
  rw [Rdec8, setb_unit8, ← l_bwd_eq_Linv, ← lbwdB_pack kuznyechik_compact_decrypt_block_tbl0 kuznyechik_compact_decrypt_block_tbl1 kuznyechik_compact_decrypt_block_tbl2 kuznyechik_compact_decrypt_block_tbl3 kuznyechik_compact_decrypt_block_tbl4 kuznyechik_compact_decrypt_block_tbl5 kuznyechik_compact_decrypt_block_tbl6 gfD]
  decide +kernel
theorem Rdec8_b6 : Rdec8 0x40#8 = 0x2ad6527fcebc638168a9b28a4b603b6f#128 := by
  rw [Rdec8, setb_unit8, ← l_bwd_eq_Linv, ← lbwdB_pack kuznyechik_compact_decrypt_block_tbl0 kuznyechik_compact_decrypt_block_tbl1 kuznyechik_compact_decrypt_block_tbl2 kuznyechik_compact_decrypt_block_tbl3 kuznyechik_compact_decrypt_block_tbl4 kuznyechik_compact_decrypt_block_tbl5 kuznyechik_compact_decrypt_block_tbl6 gfD]
  decide +kernel
theorem Rdec8_b7 : Rdec8 0x80#8 = 0x546fa4fe5fbbc6c1d091a7d796c076de#128 := by
  rw [Rdec8, setb_unit8, ← l_bwd_eq_Linv, ← lbwdB_pack kuznyechik_compact_decrypt_block_tbl0 kuznyechik_compact_decrypt_block_tbl1 kuznyechik_compact_decrypt_block_tbl2 kuznyechik_compact_decrypt_block_tbl3 kuznyechik_compact_decrypt_block_tbl4 kuznyechik_compact_decrypt_block_tbl5 kuznyechik_compact_decrypt_block_tbl6 gfD]
  decide +kernel
theorem Rdec8_comb (v : BitVec 8) : Rdec8 v = comb 0xf39c2b6aa46ee7be49f6c910afe0defb#128 0x25fb56d48bdc0dbf922f51209d037f35#128 0x4a35ac6bd57b1abde75ea240f906fe6a#128 0x946a9bd669f634b90dbc8780310c3fd4#128 0xebd4f56fd22f68b11abbcdc362187e6b#128 0x156b29de675ed0a134b55945c430fcd6#128 0x2ad6527fcebc638168a9b28a4b603b6f#128 0x546fa4fe5fbbc6c1d091a7d796c076de#128 v := by
  have h := congrArg Rdec8 (bits8 v)
  rw [← h]
  simp only [Rdec8_xor, Rdec8_ite, Rdec8_b0, Rdec8_b1, Rdec8_b2, Rdec8_b3, Rdec8_b4, Rdec8_b5, Rdec8_b6, Rdec8_b7, comb]
theorem decC_8 : ∀ n : Fin 256, BC.Gen.tblAt kuznyechik_soft_decrypt_block_tbl8 n.val 128 = comb 0xf39c2b6aa46ee7be49f6c910afe0defb#128 0x25fb56d48bdc0dbf922f51209d037f35#128 0x4a35ac6bd57b1abde75ea240f906fe6a#128 0x946a9bd669f634b90dbc8780310c3fd4#128 0xebd4f56fd22f68b11abbcdc362187e6b#128 0x156b29de675ed0a134b55945c430fcd6#128 0x2ad6527fcebc638168a9b28a4b603b6f#128 0x546fa4fe5fbbc6c1d091a7d796c076de#128 (BC.Gen.tblAt kuznyechik_compact_decrypt_block_tbl7 n.val 8) := by decide +kernel
theorem decT_8 (x : BitVec 8) : BC.Gen.tblAt kuznyechik_soft_decrypt_block_tbl8 (x.setWidth 64).toNat 128 = row DEC_TABLE.get ⟨8, by decide⟩ x := by
  rw [DEC_TABLE_row]
  show _ = Rdec8 _
  rw [Rdec8_comb]
  refine fin_at _ (fun y => comb 0xf39c2b6aa46ee7be49f6c910afe0defb#128 0x25fb56d48bdc0dbf922f51209d037f35#128 0x4a35ac6bd57b1abde75ea240f906fe6a#128 0x946a9bd669f634b90dbc8780310c3fd4#128 0xebd4f56fd22f68b11abbcdc362187e6b#128 0x156b29de675ed0a134b55945c430fcd6#128 0x2ad6527fcebc638168a9b28a4b603b6f#128 0x546fa4fe5fbbc6c1d091a7d796c076de#128 (lut P_INV y)) (fun n => ?_) x
  rw [decC_8 n, pinv_fin n]

/-! #### dec, byte position 9 -/
def Rdec9 (v : BitVec 8) : BitVec 128 := rev128 (Linv (setb 0#128 9 v))
theorem Rdec9_xor (a b : BitVec 8) : Rdec9 (a ^^^ b) = Rdec9 a ^^^ Rdec9 b := by
  simp only [Rdec9, setb_xor9, Linv_xor, rev128_xor]
theorem Rdec9_zero : Rdec9 0#8 = 0#128 := by
  have h := Rdec9_xor 0#8 0#8
  simp only [BitVec.xor_self] at h
  exact h
theorem Rdec9_ite (c : Bool) (a : BitVec 8) : Rdec9 (if c then a else 0#8) = if c then Rdec9 a else 0#128 := by
  cases c <;> simp [Rdec9_zero]
theorem Rdec9_b0 : Rdec9 0x01#8 = 0xf2891cd602afc4f1abeeadbf3d5a6f01#128 := by
  rw [Rdec9, setb_unit9, ← l_bwd_eq_Linv, ← lbwdB_pack kuznyechik_compact_decrypt_block_tbl0 kuznyechik_compact_decrypt_block_tbl1 kuznyechik_compact_decrypt_block_tbl2 kuznyechik_compact_decrypt_block_tbl3 kuznyechik_compact_decrypt_block_tbl4 kuznyechik_compact_decrypt_block_tbl5 kuznyechik_compact_decrypt_block_tbl6 gfD]
  decide +kernel
theorem Rdec9_b1 : Rdec9 0x02#8 = 0x27d1386f049d4b21951f99bd7ab4de02#128 := by
  rw [Rdec9, setb_unit9, ← l_bwd_eq_Linv, ← lbwdB_pack kuznyechik_compact_decrypt_block_tbl0 kuznyechik_compact_decrypt_block_tbl1 kuznyechik_compact_decrypt_block_tbl2 kuznyechik_compact_decrypt_block_tbl3 kuznyechik_compact_decrypt_block_tbl4 kuznyechik_compact_decrypt_block_tbl5 kuznyechik_compact_decrypt_block_tbl6 gfD]
  decide +kernel
theorem Rdec9_b2 : Rdec9 0x04#8 = 0x4e6170de08f99642e93ef1b9f4ab7f04#128 := by
  rw [Rdec9, setb_unit9, ← l_bwd_eq_Linv, ← lbwdB_pack kuznyechik_compact_decrypt_block_tbl0 kuznyechik_compact_decrypt_block_tbl1 kuznyechik_compact_decrypt_block_tbl2 kuznyechik_compact_decrypt_block_tbl3 kuznyechik_compact_decrypt_block_tbl4 kuznyechik_compact_decrypt_block_tbl5 kuznyechik_compact_decrypt_block_tbl6 gfD]
  decide +kernel
theorem Rdec9_b3 : Rdec9 0x08#8 = 0x9cc2e07f1031ef84117c21b12b95fe08#128 := by
  rw [Rdec9, setb_unit9, ← l_bwd_eq_Linv, ← lbwdB_pack kuznyechik_compact_decrypt_block_tbl0 kuznyechik_compact_decrypt_block_tbl1 kuznyechik_compact_decrypt_block_tbl2 kuznyechik_compact_decrypt_block_tbl3 kuznyechik_compact_decrypt_block_tbl4 kuznyechik_compact_decrypt_block_tbl5 kuznyechik_compact_decrypt_block_tbl6 gfD]
  decide +kernel
theorem Rdec9_b4 : Rdec9 0x10#8 = 0xfb4703fe20621dcb22f842a156e93f10#128 := by
  rw [Rdec9, setb_unit9, ← l_bwd_eq_Linv, ← lbwdB_pack kuznyechik_compact_decrypt_block_tbl0 kuznyechik_compact_decrypt_block_tbl1 kuznyechik_compact_decrypt_block_tbl2 kuznyechik_compact_decrypt_block_tbl3 kuznyechik_compact_decrypt_block_tbl4 kuznyechik_compact_decrypt_block_tbl5 kuznyechik_compact_decrypt_block_tbl6 gfD]
  decide +kernel
theorem Rdec9_b5 : Rdec9 0x20#8 = 0x358e063f40c43a5544338481ac117e20#128 := by
  rw [Rdec9, setb_unit9, ← l_bwd_eq_Linv, ← lbwdB_pack kuznyechik_compact_decrypt_block_tbl0 kuznyechik_compact_decrypt_block_tbl1 kuznyechik_compact_decrypt_block_tbl2 kuznyechik_compact_decrypt_block_tbl3 kuznyechik_compact_decrypt_block_tbl4 kuznyechik_compact_decrypt_block_tbl5 kuznyechik_compact_decrypt_block_tbl6 gfD]
  decide +kernel
theorem Rdec9_b6 : Rdec9 0x40#8 = 0x6adf0c7e804b74aa8866cbc19b22fc40#128 := by
  rw [Rdec9, setb_unit9, ← l_bwd_eq_Linv, ← lbwdB_pack kuznyechik_compact_decrypt_block_tbl0 kuznyechik_compact_decrypt_block_tbl1 kuznyechik_compact_decrypt_block_tbl2 kuznyechik_compact_decrypt_block_tbl3 kuznyechik_compact_decrypt_block_tbl4 kuznyechik_compact_decrypt_block_tbl5 kuznyechik_compact_decrypt_block_tbl6 gfD]
  decide +kernel
theorem Rdec9_b7 : Rdec9 0x80#8 = 0xd47d18fcc396e897d3cc5541f5443b80#128 := by
  rw [Rdec9, setb_unit9, ← l_bwd_eq_Linv, ← lbwdB_pack kuznyechik_compact_decrypt_block_tbl0 kuznyechik_compact_decrypt_block_tbl1 kuznyechik_compact_decrypt_block_tbl2 kuznyechik_compact_decrypt_block_tbl3 kuznyechik_compact_decrypt_block_tbl4 kuznyechik_compact_decrypt_block_tbl5 kuznyechik_compact_decrypt_block_tbl6 gfD]
  decide +kernel
theorem Rdec9_comb (v : BitVec 8) : Rdec9 v = comb 0xf2891cd602afc4f1abeeadbf3d5a6f01#128 0x27d1386f049d4b21951f99bd7ab4de02#128 0x4e6170de08f99642e93ef1b9f4ab7f04#128 0x9cc2e07f1031ef84117c21b12b95fe08#128 0xfb4703fe20621dcb22f842a156e93f10#128 0x358e063f40c43a5544338481ac117e20#128 0x6adf0c7e804b74aa8866cbc19b22fc40#128 0xd47d18fcc396e897d3cc5541f5443b80#128 v := by
  have h := congrArg Rdec9 (bits8 v)
  rw [← h]
  simp only [Rdec9_xor, Rdec9_ite, Rdec9_b0, Rdec9_b1, Rdec9_b2, Rdec9_b3, Rdec9_b4, Rdec9_b5, Rdec9_b6, Rdec9_b7, comb]
theorem decC_9 : ∀ n : Fin 256, BC.Gen.tblAt kuznyechik_soft_decrypt_block_tbl9 n.val 128 = comb 0xf2891cd602afc4f1abeeadbf3d5a6f01#128 0x27d1386f049d4b21951f99bd7ab4de02#128 0x4e6170de08f99642e93ef1b9f4ab7f04#128 0x9cc2e07f1031ef84117c21b12b95fe08#128 0xfb4703fe20621dcb22f842a156e93f10#128 0x358e063f40c43a5544338481ac117e20#128 0x6adf0c7e804b74aa8866cbc19b22fc40#128 0xd47d18fcc396e897d3cc5541f5443b80#128 (BC.Gen.tblAt kuznyechik_compact_decrypt_block_tbl7 n.val 8) := by decide +kernel
theorem decT_9 (x : BitVec 8) : BC.Gen.tblAt kuznyechik_soft_decrypt_block_tbl9 (x.setWidth 64).toNat 128 = row DEC_TABLE.get ⟨9, by decide⟩ x := by
  rw [DEC_TABLE_row]
  show _ = Rdec9 _
  rw [Rdec9_comb]
  refine fin_at _ (fun y => comb 0xf2891cd602afc4f1abeeadbf3d5a6f01#128 0x27d1386f049d4b21951f99bd7ab4de02#128 0x4e6170de08f99642e93ef1b9f4ab7f04#128 0x9cc2e07f1031ef84117c21b12b95fe08#128 0xfb4703fe20621dcb22f842a156e93f10#128 0x358e063f40c43a5544338481ac117e20#128 0x6adf0c7e804b74aa8866cbc19b22fc40#128 0xd47d18fcc396e897d3cc5541f5443b80#128 (lut P_INV y)) (fun n => ?_) x
  rw [decC_9 n, pinv_fin n]

/-! #### dec, byte position 10 -/
def Rdec10 (v : BitVec 8) : BitVec 128 := rev128 (Linv (setb 0#128 10 v))
theorem Rdec10_xor (a b : BitVec 8) : Rdec10 (a ^^^ b) = Rdec10 a ^^^ Rdec10 b := by
  simp only [Rdec10, setb_xor10, Linv_xor, rev128_xor]
theorem Rdec10_zero : Rdec10 0#8 = 0#128 := by
  have h := Rdec10_xor 0#8 0#8
  simp only [BitVec.xor_self] at h
  exact h
theorem Rdec10_ite (c : Bool) (a : BitVec 8) : Rdec10 (if c then a else 0#8) = if c then Rdec10 a else 0#128 := by
  cases c <;> simp [Rdec10_zero]
theorem Rdec10_b0 : Rdec10 0x01#8 = 0x8e484311ebbc2d2e8d127c60944477c0#128 := by
  rw [Rdec10, setb_unit10, ← l_bwd_eq_Linv, ← lbwdB_pack kuznyechik_compact_decrypt_block_tbl0 kuznyechik_compact_decrypt_block_tbl1 kuznyechik_compact_decrypt_block_tbl2 kuznyechik_compact_decrypt_block_tbl3 kuznyechik_compact_decrypt_block_tbl4 kuznyechik_compact_decrypt_block_tbl5 kuznyechik_compact_decrypt_block_tbl6 gfD]
  decide +kernel
theorem Rdec10_b1 : Rdec10 0x02#8 = 0xdf90862215bb5a5cd924f8c0eb88ee43#128 := by
  rw [Rdec10, setb_unit10, ← l_bwd_eq_Linv, ← lbwdB_pack kuznyechik_compact_decrypt_block_tbl0 kuznyechik_compact_decrypt_block_tbl1 kuznyechik_compact_decrypt_block_tbl2 kuznyechik_compact_decrypt_block_tbl3 kuznyechik_compact_decrypt_block_tbl4 kuznyechik_compact_decrypt_block_tbl5 kuznyechik_compact_decrypt_block_tbl6 gfD]
  decide +kernel
theorem Rdec10_b2 : Rdec10 0x04#8 = 0x7de3cf442ab5b4b87148334315d31f86#128 := by
  rw [Rdec10, setb_unit10, ← l_bwd_eq_Linv, ← lbwdB_pack kuznyechik_compact_decrypt_block_tbl0 kuznyechik_compact_decrypt_block_tbl1 kuznyechik_compact_decrypt_block_tbl2 kuznyechik_compact_decrypt_block_tbl3 kuznyechik_compact_decrypt_block_tbl4 kuznyechik_compact_decrypt_block_tbl5 kuznyechik_compact_decrypt_block_tbl6 gfD]
  decide +kernel
theorem Rdec10_b3 : Rdec10 0x08#8 = 0xfa055d8854a9abb3e29066862a653ecf#128 := by
  rw [Rdec10, setb_unit10, ← l_bwd_eq_Linv, ← lbwdB_pack kuznyechik_compact_decrypt_block_tbl0 kuznyechik_compact_decrypt_block_tbl1 kuznyechik_compact_decrypt_block_tbl2 kuznyechik_compact_decrypt_block_tbl3 kuznyechik_compact_decrypt_block_tbl4 kuznyechik_compact_decrypt_block_tbl5 kuznyechik_compact_decrypt_block_tbl6 gfD]
  decide +kernel
theorem Rdec10_b4 : Rdec10 0x10#8 = 0x370abad3a89195a507e3cccf54ca7c5d#128 := by
  rw [Rdec10, setb_unit10, ← l_bwd_eq_Linv, ← lbwdB_pack kuznyechik_compact_decrypt_block_tbl0 kuznyechik_compact_decrypt_block_tbl1 kuznyechik_compact_decrypt_block_tbl2 kuznyechik_compact_decrypt_block_tbl3 kuznyechik_compact_decrypt_block_tbl4 kuznyechik_compact_decrypt_block_tbl5 kuznyechik_compact_decrypt_block_tbl6 gfD]
  decide +kernel
theorem Rdec10_b5 : Rdec10 0x20#8 = 0x6e14b76593e1e9890e055b5da857f8ba#128 := by
  rw [Rdec10, setb_unit10, ← l_bwd_eq_Linv, ← lbwdB_pack kuznyechik_compact_decrypt_block_tbl0 kuznyechik_compact_decrypt_block_tbl1 kuznyechik_compact_decrypt_block_tbl2 kuznyechik_compact_decrypt_block_tbl3 kuznyechik_compact_decrypt_block_tbl4 kuznyechik_compact_decrypt_block_tbl5 kuznyechik_compact_decrypt_block_tbl6 gfD]
  decide +kernel
theorem Rdec10_b6 : Rdec10 0x40#8 = 0xdc28adcae50111d11c0ab6ba93ae33b7#128 := by
  rw [Rdec10, setb_unit10, ← l_bwd_eq_Linv, ← lbwdB_pack kuznyechik_compact_decrypt_block_tbl0 kuznyechik_compact_decrypt_block_tbl1 kuznyechik_compact_decrypt_block_tbl2 kuznyechik_compact_decrypt_block_tbl3 kuznyechik_compact_decrypt_block_tbl4 kuznyechik_compact_decrypt_block_tbl5 kuznyechik_compact_decrypt_block_tbl6 gfD]
  decide +kernel
theorem Rdec10_b7 : Rdec10 0x80#8 = 0x7b509957090222613814afb7e59f66ad#128 := by
  rw [Rdec10, setb_unit10, ← l_bwd_eq_Linv, ← lbwdB_pack kuznyechik_compact_decrypt_block_tbl0 kuznyechik_compact_decrypt_block_tbl1 kuznyechik_compact_decrypt_block_tbl2 kuznyechik_compact_decrypt_block_tbl3 kuznyechik_compact_decrypt_block_tbl4 kuznyechik_compact_decrypt_block_tbl5 kuznyechik_compact_decrypt_block_tbl6 gfD]
  decide +kernel
theorem Rdec10_comb (v : BitVec 8) : Rdec10 v = comb 0x8e484311ebbc2d2e8d127c60944477c0#128 0xdf90862215bb5a5cd924f8c0eb88ee43#128 0x7de3cf442ab5b4b87148334315d31f86#128 0xfa055d8854a9abb3e29066862a653ecf#128 0x370abad3a89195a507e3cccf54ca7c5d#128 0x6e14b76593e1e9890e055b5da857f8ba#128 0xdc28adcae50111d11c0ab6ba93ae33b7#128 0x7b509957090222613814afb7e59f66ad#128 v := by
  have h := congrArg Rdec10 (bits8 v)
  rw [← h]
  simp only [Rdec10_xor, Rdec10_ite, Rdec10_b0, Rdec10_b1, Rdec10_b2, Rdec10_b3, Rdec10_b4, Rdec10_b5, Rdec10_b6, Rdec10_b7, comb]
theorem decC_10 : ∀ n : Fin 256, BC.Gen.tblAt kuznyechik_soft_decrypt_block_tbl10 n.val 128 = comb 0x8e484311ebbc2d2e8d127c60944477c0#128 0xdf90862215bb5a5cd924f8c0eb88ee43#128 0x7de3cf442ab5b4b87148334315d31f86#128 0xfa055d8854a9abb3e29066862a653ecf#128 0x370abad3a89195a507e3cccf54ca7c5d#128 0x6e14b76593e1e9890e055b5da857f8ba#128 0xdc28adcae50111d11c0ab6ba93ae33b7#128 0x7b509957090222613814afb7e59f66ad#128 (BC.Gen.tblAt kuznyechik_compact_decrypt_block_tbl7 n.val 8) := by decide +kernel
theorem decT_10 (x : BitVec 8) : BC.Gen.tblAt kuznyechik_soft_decrypt_block_tbl10 (x.setWidth 64).toNat 128 = row DEC_TABLE.get ⟨10, by decide⟩ x := by
  rw [DEC_TABLE_row]
  show _ = Rdec10 _
  rw [Rdec10_comb]
  refine fin_at _ (fun y => comb 0x8e484311ebbc2d2e8d127c60944477c0#128 0xdf90862215bb5a5cd924f8c0eb88ee43#128 0x7de3cf442ab5b4b87148334315d31f86#128 0xfa055d8854a9abb3e29066862a653ecf#128 0x370abad3a89195a507e3cccf54ca7c5d#128 0x6e14b76593e1e9890e055b5da857f8ba#128 0xdc28adcae50111d11c0ab6ba93ae33b7#128 0x7b509957090222613814afb7e59f66ad#128 (lut P_INV y)) (fun n => ?_) x
  rw [decC_10 n, pinv_fin n]

/-! #### dec, byte position 11 -/
def Rdec11 (v : BitVec 8) : BitVec 128 := rev128 (Linv (setb 0#128 11 v))
theorem Rdec11_xor (a b : BitVec 8) : Rdec11 (a ^^^ b) = Rdec11 a ^^^ Rdec11 b := by
  simp only [Rdec11, setb_xor11, Linv_xor, rev128_xor]
theorem Rdec11_zero : Rdec11 0#8 = 0#128 := by
  have h := Rdec11_xor 0#8 0#8
  simp only [BitVec.xor_self] at h
  exact h
theorem Rdec11_ite (c : Bool) (a : BitVec 8) : Rdec11 (if c then a else 0#8) = if c then Rdec11 a else 0#128 := by
  cases c <;> simp [Rdec11_zero]
theorem Rdec11_b0 : Rdec11 0x01#8 = 0x9390681c20c506bbcb8d1ae9f3975dc2#128 := by
  rw [Rdec11, setb_unit11, ← l_bwd_eq_Linv, ← lbwdB_pack kuznyechik_compact_decrypt_block_tbl0 kuznyechik_compact_decrypt_block_tbl1 kuznyechik_compact_decrypt_block_tbl2 kuznyechik_compact_decrypt_block_tbl3 kuznyechik_compact_decrypt_block_tbl4 kuznyechik_compact_decrypt_block_tbl5 kuznyechik_compact_decrypt_block_tbl6 gfD]
  decide +kernel
theorem Rdec11_b1 : Rdec11 0x02#8 = 0xe5e3d03840490cb555d9341125edba47#128 := by
  rw [Rdec11, setb_unit11, ← l_bwd_eq_Linv, ← lbwdB_pack kuznyechik_compact_decrypt_block_tbl0 kuznyechik_compact_decrypt_block_tbl1 kuznyechik_compact_decrypt_block_tbl2 kuznyechik_compact_decrypt_block_tbl3 kuznyechik_compact_decrypt_block_tbl4 kuznyechik_compact_decrypt_block_tbl5 kuznyechik_compact_decrypt_block_tbl6 gfD]
  decide +kernel
theorem Rdec11_b2 : Rdec11 0x04#8 = 0x9056370809218a9aa7168224a19b78e#128 := by
  rw [Rdec11, setb_unit11, ← l_bwd_eq_Linv, ← lbwdB_pack kuznyechik_compact_decrypt_block_tbl0 kuznyechik_compact_decrypt_block_tbl1 kuznyechik_compact_decrypt_block_tbl2 kuznyechik_compact_decrypt_block_tbl3 kuznyechik_compact_decrypt_block_tbl4 kuznyechik_compact_decrypt_block_tbl5 kuznyechik_compact_decrypt_block_tbl6 gfD]
  decide +kernel
theorem Rdec11_b3 : Rdec11 0x08#8 = 0x120ac6e0c3e7309197e2d0449432addf#128 := by
  rw [Rdec11, setb_unit11, ← l_bwd_eq_Linv, ← lbwdB_pack kuznyechik_compact_decrypt_block_tbl0 kuznyechik_compact_decrypt_block_tbl1 kuznyechik_compact_decrypt_block_tbl2 kuznyechik_compact_decrypt_block_tbl3 kuznyechik_compact_decrypt_block_tbl4 kuznyechik_compact_decrypt_block_tbl5 kuznyechik_compact_decrypt_block_tbl6 gfD]
  decide +kernel
theorem Rdec11_b4 : Rdec11 0x10#8 = 0x24144f03450d60e1ed076388eb64997d#128 := by
  rw [Rdec11, setb_unit11, ← l_bwd_eq_Linv, ← lbwdB_pack kuznyechik_compact_decrypt_block_tbl0 kuznyechik_compact_decrypt_block_tbl1 kuznyechik_compact_decrypt_block_tbl2 kuznyechik_compact_decrypt_block_tbl3 kuznyechik_compact_decrypt_block_tbl4 kuznyechik_compact_decrypt_block_tbl5 kuznyechik_compact_decrypt_block_tbl6 gfD]
  decide +kernel
theorem Rdec11_b5 : Rdec11 0x20#8 = 0x48289e068a1ac001190ec6d315c8f1fa#128 := by
  rw [Rdec11, setb_unit11, ← l_bwd_eq_Linv, ← lbwdB_pack kuznyechik_compact_decrypt_block_tbl0 kuznyechik_compact_decrypt_block_tbl1 kuznyechik_compact_decrypt_block_tbl2 kuznyechik_compact_decrypt_block_tbl3 kuznyechik_compact_decrypt_block_tbl4 kuznyechik_compact_decrypt_block_tbl5 kuznyechik_compact_decrypt_block_tbl6 gfD]
  decide +kernel
theorem Rdec11_b6 : Rdec11 0x40#8 = 0x9050ff0cd7344302321c4f652a532137#128 := by
  rw [Rdec11, setb_unit11, ← l_bwd_eq_Linv, ← lbwdB_pack kuznyechik_compact_decrypt_block_tbl0 kuznyechik_compact_decrypt_block_tbl1 kuznyechik_compact_decrypt_block_tbl2 kuznyechik_compact_decrypt_block_tbl3 kuznyechik_compact_decrypt_block_tbl4 kuznyechik_compact_decrypt_block_tbl5 kuznyechik_compact_decrypt_block_tbl6 gfD]
  decide +kernel
theorem Rdec11_b7 : Rdec11 0x80#8 = 0xe3a03d186d68860464389eca54a6426e#128 := by
  rw [Rdec11, setb_unit11, ← l_bwd_eq_Linv, ← lbwdB_pack kuznyechik_compact_decrypt_block_tbl0 kuznyechik_compact_decrypt_block_tbl1 kuznyechik_compact_decrypt_block_tbl2 kuznyechik_compact_decrypt_block_tbl3 kuznyechik_compact_decrypt_block_tbl4 kuznyechik_compact_decrypt_block_tbl5 kuznyechik_compact_decrypt_block_tbl6 gfD]
  decide +kernel
theorem Rdec11_comb (v : BitVec 8) : Rdec11 v = comb 0x9390681c20c506bbcb8d1ae9f3975dc2#128 0xe5e3d03840490cb555d9341125edba47#128 0x9056370809218a9aa7168224a19b78e#128 0x120ac6e0c3e7309197e2d0449432addf#128 0x24144f03450d60e1ed076388eb64997d#128 0x48289e068a1ac001190ec6d315c8f1fa#128 0x9050ff0cd7344302321c4f652a532137#128 0xe3a03d186d68860464389eca54a6426e#128 v := by
  have h := congrArg Rdec11 (bits8 v)
  rw [← h]
  simp only [Rdec11_xor, Rdec11_ite, Rdec11_b0, Rdec11_b1, Rdec11_b2, Rdec11_b3, Rdec11_b4, Rdec11_b5, Rdec11_b6, Rdec11_b7, comb]
theorem decC_11 : ∀ n : Fin 256, BC.Gen.tblAt kuznyechik_soft_decrypt_block_tbl11 n.val 128 = comb 0x9390681c20c506bbcb8d1ae9f3975dc2#128 0xe5e3d03840490cb555d9341125edba47#128 0x9056370809218a9aa7168224a19b78e#128 0x120ac6e0c3e7309197e2d0449432addf#128 0x24144f03450d60e1ed076388eb64997d#128 0x48289e068a1ac001190ec6d315c8f1fa#128 0x9050ff0cd7344302321c4f652a532137#128 0xe3a03d186d68860464389eca54a6426e#128 (BC.Gen.tblAt kuznyechik_compact_decrypt_block_tbl7 n.val 8) := by decide +kernel
theorem decT_11 (x : BitVec 8) : BC.Gen.tblAt kuznyechik_soft_decrypt_block_tbl11 (x.setWidth 64).toNat 128 = row DEC_TABLE.get ⟨11, by decide⟩ x := by
  rw [DEC_TABLE_row]
  show _ = Rdec11 _
  rw [Rdec11_comb]
  refine fin_at _ (fun y => comb 0x9390681c20c506bbcb8d1ae9f3975dc2#128 0xe5e3d03840490cb555d9341125edba47#128 0x9056370809218a9aa7168224a19b78e#128 0x120ac6e0c3e7309197e2d0449432addf#128 0x24144f03450d60e1ed076388eb64997d#128 0x48289e068a1ac001190ec6d315c8f1fa#128 0x9050ff0cd7344302321c4f652a532137#128 0xe3a03d186d68860464389eca54a6426e#128 (lut P_INV y)) (fun n => ?_) x
  rw [decC_11 n, pinv_fin n]

/-! #### dec, byte position 12 -/
def Rdec12 (v : BitVec 8) : BitVec 128 := rev128 (Linv (setb 0#128 12 v))
theorem Rdec12_xor (a b : BitVec 8) : Rdec12 (a ^^^ b) = Rdec12 a ^^^ Rdec12 b := by
  simp only [Rdec12, setb_xor12, Linv_xor, rev128_xor]
theorem Rdec12_zero : Rdec12 0#8 = 0#128 := by
  have h := Rdec12_xor 0#8 0#8
  simp only [BitVec.xor_self] at h
  exact h
theorem Rdec12_ite (c : Bool) (a : BitVec 8) : Rdec12 (if c then a else 0#8) = if c then Rdec12 a else 0#128 := by
  cases c <;> simp [Rdec12_zero]
theorem Rdec12_b0 : Rdec12 0x01#8 = 0xbfda700cca0c171a142f6830d9ca9610#128 := by
  rw [Rdec12, setb_unit12, ← l_bwd_eq_Linv, ← lbwdB_pack kuznyechik_compact_decrypt_block_tbl0 kuznyechik_compact_decrypt_block_tbl1 kuznyechik_compact_decrypt_block_tbl2 kuznyechik_compact_decrypt_block_tbl3 kuznyechik_compact_decrypt_block_tbl4 kuznyechik_compact_decrypt_block_tbl5 kuznyechik_compact_decrypt_block_tbl6 gfD]
  decide +kernel
theorem Rdec12_b1 : Rdec12 0x02#8 = 0xbd77e01857182e34285ed0607157ef20#128 := by
  rw [Rdec12, setb_unit12, ← l_bwd_eq_Linv, ← lbwdB_pack kuznyechik_compact_decrypt_block_tbl0 kuznyechik_compact_decrypt_block_tbl1 kuznyechik_compact_decrypt_block_tbl2 kuznyechik_compact_decrypt_block_tbl3 kuznyechik_compact_decrypt_block_tbl4 kuznyechik_compact_decrypt_block_tbl5 kuznyechik_compact_decrypt_block_tbl6 gfD]
  decide +kernel
theorem Rdec12_b2 : Rdec12 0x04#8 = 0xb9ee0330ae305c6850bc63c0e2ae1d40#128 := by
  rw [Rdec12, setb_unit12, ← l_bwd_eq_Linv, ← lbwdB_pack kuznyechik_compact_decrypt_block_tbl0 kuznyechik_compact_decrypt_block_tbl1 kuznyechik_compact_decrypt_block_tbl2 kuznyechik_compact_decrypt_block_tbl3 kuznyechik_compact_decrypt_block_tbl4 kuznyechik_compact_decrypt_block_tbl5 kuznyechik_compact_decrypt_block_tbl6 gfD]
  decide +kernel
theorem Rdec12_b3 : Rdec12 0x08#8 = 0xb11f06609f60b8d0a0bbc643079f3a80#128 := by
  rw [Rdec12, setb_unit12, ← l_bwd_eq_Linv, ← lbwdB_pack kuznyechik_compact_decrypt_block_tbl0 kuznyechik_compact_decrypt_block_tbl1 kuznyechik_compact_decrypt_block_tbl2 kuznyechik_compact_decrypt_block_tbl3 kuznyechik_compact_decrypt_block_tbl4 kuznyechik_compact_decrypt_block_tbl5 kuznyechik_compact_decrypt_block_tbl6 gfD]
  decide +kernel
theorem Rdec12_b4 : Rdec12 0x10#8 = 0xa13e0cc0fdc0b36383b54f860efd74c3#128 := by
  rw [Rdec12, setb_unit12, ← l_bwd_eq_Linv, ← lbwdB_pack kuznyechik_compact_decrypt_block_tbl0 kuznyechik_compact_decrypt_block_tbl1 kuznyechik_compact_decrypt_block_tbl2 kuznyechik_compact_decrypt_block_tbl3 kuznyechik_compact_decrypt_block_tbl4 kuznyechik_compact_decrypt_block_tbl5 kuznyechik_compact_decrypt_block_tbl6 gfD]
  decide +kernel
theorem Rdec12_b5 : Rdec12 0x20#8 = 0x817c18433943a5c6c5a99ecf1c39e845#128 := by
  rw [Rdec12, setb_unit12, ← l_bwd_eq_Linv, ← lbwdB_pack kuznyechik_compact_decrypt_block_tbl0 kuznyechik_compact_decrypt_block_tbl1 kuznyechik_compact_decrypt_block_tbl2 kuznyechik_compact_decrypt_block_tbl3 kuznyechik_compact_decrypt_block_tbl4 kuznyechik_compact_decrypt_block_tbl5 kuznyechik_compact_decrypt_block_tbl6 gfD]
  decide +kernel
theorem Rdec12_b6 : Rdec12 0x40#8 = 0xc1f830867286894f4991ff5d3872138a#128 := by
  rw [Rdec12, setb_unit12, ← l_bwd_eq_Linv, ← lbwdB_pack kuznyechik_compact_decrypt_block_tbl0 kuznyechik_compact_decrypt_block_tbl1 kuznyechik_compact_decrypt_block_tbl2 kuznyechik_compact_decrypt_block_tbl3 kuznyechik_compact_decrypt_block_tbl4 kuznyechik_compact_decrypt_block_tbl5 kuznyechik_compact_decrypt_block_tbl6 gfD]
  decide +kernel
theorem Rdec12_b7 : Rdec12 0x80#8 = 0x413360cfe4cfd19e92e13dba70e426d7#128 := by
  rw [Rdec12, setb_unit12, ← l_bwd_eq_Linv, ← lbwdB_pack kuznyechik_compact_decrypt_block_tbl0 kuznyechik_compact_decrypt_block_tbl1 kuznyechik_compact_decrypt_block_tbl2 kuznyechik_compact_decrypt_block_tbl3 kuznyechik_compact_decrypt_block_tbl4 kuznyechik_compact_decrypt_block_tbl5 kuznyechik_compact_decrypt_block_tbl6 gfD]
  decide +kernel
theorem Rdec12_comb (v : BitVec 8) : Rdec12 v = comb 0xbfda700cca0c171a142f6830d9ca9610#128 0xbd77e01857182e34285ed0607157ef20#128 0xb9ee0330ae305c6850bc63c0e2ae1d40#128 0xb11f06609f60b8d0a0bbc643079f3a80#128 0xa13e0cc0fdc0b36383b54f860efd74c3#128 0x817c18433943a5c6c5a99ecf1c39e845#128 0xc1f830867286894f4991ff5d3872138a#128 0x413360cfe4cfd19e92e13dba70e426d7#128 v := by
  have h := congrArg Rdec12 (bits8 v)
  rw [← h]
  simp only [Rdec12_xor, Rdec12_ite, Rdec12_b0, Rdec12_b1, Rdec12_b2, Rdec12_b3, Rdec12_b4, Rdec12_b5, Rdec12_b6, Rdec12_b7, comb]
theorem decC_12 : ∀ n : Fin 256, BC.Gen.tblAt kuznyechik_soft_decrypt_block_tbl12 n.val 128 = comb 0xbfda700cca0c171a142f6830d9ca9610#128 0xbd77e01857182e34285ed0607157ef20#128 0xb9ee0330ae305c6850bc63c0e2ae1d40#128 0xb11f06609f60b8d0a0bbc643079f3a80#128 0xa13e0cc0fdc0b36383b54f860efd74c3#128 0x817c18433943a5c6c5a99ecf1c39e845#128 0xc1f830867286894f4991ff5d3872138a#128 0x413360cfe4cfd19e92e13dba70e426d7#128 (BC.Gen.tblAt kuznyechik_compact_decrypt_block_tbl7 n.val 8) := by decide +kernel
theorem decT_12 (x : BitVec 8) : BC.Gen.tblAt kuznyechik_soft_decrypt_block_tbl12 (x.setWidth 64).toNat 128 = row DEC_TABLE.get ⟨12, by decide⟩ x := by
  rw [DEC_TABLE_row]
  show _ = Rdec12 _
  rw [Rdec12_comb]
  refine fin_at _ (fun y => comb 0xbfda700cca0c171a142f6830d9ca9610#128 0xbd77e01857182e34285ed0607157ef20#128 0xb9ee0330ae305c6850bc63c0e2ae1d40#128 0xb11f06609f60b8d0a0bbc643079f3a80#128 0xa13e0cc0fdc0b36383b54f860efd74c3#128 0x817c18433943a5c6c5a99ecf1c39e845#128 0xc1f830867286894f4991ff5d3872138a#128 0x413360cfe4cfd19e92e13dba70e426d7#128 (lut P_INV y)) (fun n => ?_) x
  rw [decC_12 n, pinv_fin n]

/-! #### dec, byte position 13 -/
def Rdec13 (v : BitVec 8) : BitVec 128 := rev128 (Linv (setb 0#128 13 v))
theorem Rdec13_xor (a b : BitVec 8) : Rdec13 (a ^^^ b) = Rdec13 a ^^^ Rdec13 b := by
  simp only [Rdec13, setb_xor13, Linv_xor, rev128_xor]
theorem Rdec13_zero : Rdec13 0#8 = 0#128 := by
  have h := Rdec13_xor 0#8 0#8
  simp only [BitVec.xor_self] at h
  exact h
theorem Rdec13_ite (c : Bool) (a : BitVec 8) : Rdec13 (if c then a else 0#8) = if c then Rdec13 a else 0#128 := by
  cases c <;> simp [Rdec13_zero]
theorem Rdec13_b0 : Rdec13 0x01#8 = 0x74c687106bec624e87b8be5ed0757485#128 := by
  rw [Rdec13, setb_unit13, ← l_bwd_eq_Linv, ← lbwdB_pack kuznyechik_compact_decrypt_block_tbl0 kuznyechik_compact_decrypt_block_tbl1 kuznyechik_compact_decrypt_block_tbl2 kuznyechik_compact_decrypt_block_tbl3 kuznyechik_compact_decrypt_block_tbl4 kuznyechik_compact_decrypt_block_tbl5 kuznyechik_compact_decrypt_block_tbl6 gfD]
  decide +kernel
theorem Rdec13_b1 : Rdec13 0x02#8 = 0xe84fcd20d61bc49ccdb3bfbc63eae8c9#128 := by
  rw [Rdec13, setb_unit13, ← l_bwd_eq_Linv, ← lbwdB_pack kuznyechik_compact_decrypt_block_tbl0 kuznyechik_compact_decrypt_block_tbl1 kuznyechik_compact_decrypt_block_tbl2 kuznyechik_compact_decrypt_block_tbl3 kuznyechik_compact_decrypt_block_tbl4 kuznyechik_compact_decrypt_block_tbl5 kuznyechik_compact_decrypt_block_tbl6 gfD]
  decide +kernel
theorem Rdec13_b2 : Rdec13 0x04#8 = 0x139e59406f364bfb59a5bdbbc6171351#128 := by
  rw [Rdec13, setb_unit13, ← l_bwd_eq_Linv, ← lbwdB_pack kuznyechik_compact_decrypt_block_tbl0 kuznyechik_compact_decrypt_block_tbl1 kuznyechik_compact_decrypt_block_tbl2 kuznyechik_compact_decrypt_block_tbl3 kuznyechik_compact_decrypt_block_tbl4 kuznyechik_compact_decrypt_block_tbl5 kuznyechik_compact_decrypt_block_tbl6 gfD]
  decide +kernel
theorem Rdec13_b3 : Rdec13 0x08#8 = 0x26ffb280de6c9635b289b9b54f2e26a2#128 := by
  rw [Rdec13, setb_unit13, ← l_bwd_eq_Linv, ← lbwdB_pack kuznyechik_compact_decrypt_block_tbl0 kuznyechik_compact_decrypt_block_tbl1 kuznyechik_compact_decrypt_block_tbl2 kuznyechik_compact_decrypt_block_tbl3 kuznyechik_compact_decrypt_block_tbl4 kuznyechik_compact_decrypt_block_tbl5 kuznyechik_compact_decrypt_block_tbl6 gfD]
  decide +kernel
theorem Rdec13_b4 : Rdec13 0x10#8 = 0x4c3da7c37fd8ef6aa7d1b1a99e5c4c87#128 := by
  rw [Rdec13, setb_unit13, ← l_bwd_eq_Linv, ← lbwdB_pack kuznyechik_compact_decrypt_block_tbl0 kuznyechik_compact_decrypt_block_tbl1 kuznyechik_compact_decrypt_block_tbl2 kuznyechik_compact_decrypt_block_tbl3 kuznyechik_compact_decrypt_block_tbl4 kuznyechik_compact_decrypt_block_tbl5 kuznyechik_compact_decrypt_block_tbl6 gfD]
  decide +kernel
theorem Rdec13_b5 : Rdec13 0x20#8 = 0x987a8d45fe731dd48d61a191ffb898cd#128 := by
  rw [Rdec13, setb_unit13, ← l_bwd_eq_Linv, ← lbwdB_pack kuznyechik_compact_decrypt_block_tbl0 kuznyechik_compact_decrypt_block_tbl1 kuznyechik_compact_decrypt_block_tbl2 kuznyechik_compact_decrypt_block_tbl3 kuznyechik_compact_decrypt_block_tbl4 kuznyechik_compact_decrypt_block_tbl5 kuznyechik_compact_decrypt_block_tbl6 gfD]
  decide +kernel
theorem Rdec13_b6 : Rdec13 0x40#8 = 0xf3f4d98a3fe63a6bd9c281e13db3f359#128 := by
  rw [Rdec13, setb_unit13, ← l_bwd_eq_Linv, ← lbwdB_pack kuznyechik_compact_decrypt_block_tbl0 kuznyechik_compact_decrypt_block_tbl1 kuznyechik_compact_decrypt_block_tbl2 kuznyechik_compact_decrypt_block_tbl3 kuznyechik_compact_decrypt_block_tbl4 kuznyechik_compact_decrypt_block_tbl5 kuznyechik_compact_decrypt_block_tbl6 gfD]
  decide +kernel
theorem Rdec13_b7 : Rdec13 0x80#8 = 0x252b71d77e0f74d67147c1017aa525b2#128 := by
  rw [Rdec13, setb_unit13, ← l_bwd_eq_Linv, ← lbwdB_pack kuznyechik_compact_decrypt_block_tbl0 kuznyechik_compact_decrypt_block_tbl1 kuznyechik_compact_decrypt_block_tbl2 kuznyechik_compact_decrypt_block_tbl3 kuznyechik_compact_decrypt_block_tbl4 kuznyechik_compact_decrypt_block_tbl5 kuznyechik_compact_decrypt_block_tbl6 gfD]
  decide +kernel
theorem Rdec13_comb (v : BitVec 8) : Rdec13 v = comb 0x74c687106bec624e87b8be5ed0757485#128 0xe84fcd20d61bc49ccdb3bfbc63eae8c9#128 0x139e59406f364bfb59a5bdbbc6171351#128 0x26ffb280de6c9635b289b9b54f2e26a2#128 0x4c3da7c37fd8ef6aa7d1b1a99e5c4c87#128 0x987a8d45fe731dd48d61a191ffb898cd#128 0xf3f4d98a3fe63a6bd9c281e13db3f359#128 0x252b71d77e0f74d67147c1017aa525b2#128 v := by
  have h := congrArg Rdec13 (bits8 v)
  rw [← h]
  simp only [Rdec13_xor, Rdec13_ite, Rdec13_b0, Rdec13_b1, Rdec13_b2, Rdec13_b3, Rdec13_b4, Rdec13_b5, Rdec13_b6, Rdec13_b7, comb]
theorem decC_13 : ∀ n : Fin 256, BC.Gen.tblAt kuznyechik_soft_decrypt_block_tbl13 n.val 128 = comb 0x74c687106bec624e87b8be5ed0757485#128 0xe84fcd20d61bc49ccdb3bfbc63eae8c9#128 0x139e59406f364bfb59a5bdbbc6171351#128 0x26ffb280de6c9635b289b9b54f2e26a2#128 0x4c3da7c37fd8ef6aa7d1b1a99e5c4c87#128 0x987a8d45fe731dd48d61a191ffb898cd#128 0xf3f4d98a3fe63a6bd9c281e13db3f359#128 0x252b71d77e0f74d67147c1017aa525b2#128 (BC.Gen.tblAt kuznyechik_compact_decrypt_block_tbl7 n.val 8) := by decide +kernel
theorem decT_13 (x : BitVec 8) : BC.Gen.tblAt kuznyechik_soft_decrypt_block_tbl13 (x.setWidth 64).toNat 128 = row DEC_TABLE.get ⟨13, by decide⟩ x := by
  rw [DEC_TABLE_row]
  show _ = Rdec13 _
  rw [Rdec13_comb]
  refine fin_at _ (fun y => comb 0x74c687106bec624e87b8be5ed0757485#128 0xe84fcd20d61bc49ccdb3bfbc63eae8c9#128 0x139e59406f364bfb59a5bdbbc6171351#128 0x26ffb280de6c9635b289b9b54f2e26a2#128 0x4c3da7c37fd8ef6aa7d1b1a99e5c4c87#128 0x987a8d45fe731dd48d61a191ffb898cd#128 0xf3f4d98a3fe63a6bd9c281e13db3f359#128 0x252b71d77e0f74d67147c1017aa525b2#128 (lut P_INV y)) (fun n => ?_) x
  rw [decC_13 n, pinv_fin n]

/-! #### dec, byte position 14 -/
def Rdec14 (v : BitVec 8) : BitVec 128 := rev128 (Linv (setb 0#128 14 v))
theorem Rdec14_xor (a b : BitVec 8) : Rdec14 (a ^^^ b) = Rdec14 a ^^^ Rdec14 b := by
  simp only [Rdec14, setb_xor14, Linv_xor, rev128_xor]
theorem Rdec14_zero : Rdec14 0#8 = 0#128 := by
  have h := Rdec14_xor 0#8 0#8
  simp only [BitVec.xor_self] at h
  exact h
theorem Rdec14_ite (c : Bool) (a : BitVec 8) : Rdec14 (if c then a else 0#8) = if c then Rdec14 a else 0#128 := by
  cases c <;> simp [Rdec14_zero]
theorem Rdec14_b0 : Rdec14 0x01#8 = 0x9820c833f276d5e649d49f95e9992d20#128 := by
  rw [Rdec14, setb_unit14, ← l_bwd_eq_Linv, ← lbwdB_pack kuznyechik_compact_decrypt_block_tbl0 kuznyechik_compact_decrypt_block_tbl1 kuznyechik_compact_decrypt_block_tbl2 kuznyechik_compact_decrypt_block_tbl3 kuznyechik_compact_decrypt_block_tbl4 kuznyechik_compact_decrypt_block_tbl5 kuznyechik_compact_decrypt_block_tbl6 gfD]
  decide +kernel
theorem Rdec14_b1 : Rdec14 0x02#8 = 0xf340536627ec690f926bfde911f15a40#128 := by
  rw [Rdec14, setb_unit14, ← l_bwd_eq_Linv, ← lbwdB_pack kuznyechik_compact_decrypt_block_tbl0 kuznyechik_compact_decrypt_block_tbl1 kuznyechik_compact_decrypt_block_tbl2 kuznyechik_compact_decrypt_block_tbl3 kuznyechik_compact_decrypt_block_tbl4 kuznyechik_compact_decrypt_block_tbl5 kuznyechik_compact_decrypt_block_tbl6 gfD]
  decide +kernel
theorem Rdec14_b2 : Rdec14 0x04#8 = 0x2580a6cc4e1bd21ee7d639112221b480#128 := by
  rw [Rdec14, setb_unit14, ← l_bwd_eq_Linv, ← lbwdB_pack kuznyechik_compact_decrypt_block_tbl0 kuznyechik_compact_decrypt_block_tbl1 kuznyechik_compact_decrypt_block_tbl2 kuznyechik_compact_decrypt_block_tbl3 kuznyechik_compact_decrypt_block_tbl4 kuznyechik_compact_decrypt_block_tbl5 kuznyechik_compact_decrypt_block_tbl6 gfD]
  decide +kernel
theorem Rdec14_b3 : Rdec14 0x08#8 = 0x4ac38f5b9c36673c0d6f72224442abc3#128 := by
  rw [Rdec14, setb_unit14, ← l_bwd_eq_Linv, ← lbwdB_pack kuznyechik_compact_decrypt_block_tbl0 kuznyechik_compact_decrypt_block_tbl1 kuznyechik_compact_decrypt_block_tbl2 kuznyechik_compact_decrypt_block_tbl3 kuznyechik_compact_decrypt_block_tbl4 kuznyechik_compact_decrypt_block_tbl5 kuznyechik_compact_decrypt_block_tbl6 gfD]
  decide +kernel
theorem Rdec14_b4 : Rdec14 0x10#8 = 0x9445ddb6fb6cce781adee44488849545#128 := by
  rw [Rdec14, setb_unit14, ← l_bwd_eq_Linv, ← lbwdB_pack kuznyechik_compact_decrypt_block_tbl0 kuznyechik_compact_decrypt_block_tbl1 kuznyechik_compact_decrypt_block_tbl2 kuznyechik_compact_decrypt_block_tbl3 kuznyechik_compact_decrypt_block_tbl4 kuznyechik_compact_decrypt_block_tbl5 kuznyechik_compact_decrypt_block_tbl6 gfD]
  decide +kernel
theorem Rdec14_b5 : Rdec14 0x20#8 = 0xeb8a79af35d85ff0347f0b88d3cbe98a#128 := by
  rw [Rdec14, setb_unit14, ← l_bwd_eq_Linv, ← lbwdB_pack kuznyechik_compact_decrypt_block_tbl0 kuznyechik_compact_decrypt_block_tbl1 kuznyechik_compact_decrypt_block_tbl2 kuznyechik_compact_decrypt_block_tbl3 kuznyechik_compact_decrypt_block_tbl4 kuznyechik_compact_decrypt_block_tbl5 kuznyechik_compact_decrypt_block_tbl6 gfD]
  decide +kernel
theorem Rdec14_b6 : Rdec14 0x40#8 = 0x15d7f29d6a73be2368fe16d3655511d7#128 := by
  rw [Rdec14, setb_unit14, ← l_bwd_eq_Linv, ← lbwdB_pack kuznyechik_compact_decrypt_block_tbl0 kuznyechik_compact_decrypt_block_tbl1 kuznyechik_compact_decrypt_block_tbl2 kuznyechik_compact_decrypt_block_tbl3 kuznyechik_compact_decrypt_block_tbl4 kuznyechik_compact_decrypt_block_tbl5 kuznyechik_compact_decrypt_block_tbl6 gfD]
  decide +kernel
theorem Rdec14_b7 : Rdec14 0x80#8 = 0x2a6d27f9d4e6bf46d03f2c65caaa226d#128 := by
  rw [Rdec14, setb_unit14, ← l_bwd_eq_Linv, ← lbwdB_pack kuznyechik_compact_decrypt_block_tbl0 kuznyechik_compact_decrypt_block_tbl1 kuznyechik_compact_decrypt_block_tbl2 kuznyechik_compact_decrypt_block_tbl3 kuznyechik_compact_decrypt_block_tbl4 kuznyechik_compact_decrypt_block_tbl5 kuznyechik_compact_decrypt_block_tbl6 gfD]
  decide +kernel
theorem Rdec14_comb (v : BitVec 8) : Rdec14 v = comb 0x9820c833f276d5e649d49f95e9992d20#128 0xf340536627ec690f926bfde911f15a40#128 0x2580a6cc4e1bd21ee7d639112221b480#128 0x4ac38f5b9c36673c0d6f72224442abc3#128 0x9445ddb6fb6cce781adee44488849545#128 0xeb8a79af35d85ff0347f0b88d3cbe98a#128 0x15d7f29d6a73be2368fe16d3655511d7#128 0x2a6d27f9d4e6bf46d03f2c65caaa226d#128 v := by
  have h := congrArg Rdec14 (bits8 v)
  rw [← h]
  simp only [Rdec14_xor, Rdec14_ite, Rdec14_b0, Rdec14_b1, Rdec14_b2, Rdec14_b3, Rdec14_b4, Rdec14_b5, Rdec14_b6, Rdec14_b7, comb]
theorem decC_14 : ∀ n : Fin 256, BC.Gen.tblAt kuznyechik_soft_decrypt_block_tbl14 n.val 128 = comb 0x9820c833f276d5e649d49f95e9992d20#128 0xf340536627ec690f926bfde911f15a40#128 0x2580a6cc4e1bd21ee7d639112221b480#128 0x4ac38f5b9c36673c0d6f72224442abc3#128 0x9445ddb6fb6cce781adee44488849545#128 0xeb8a79af35d85ff0347f0b88d3cbe98a#128 0x15d7f29d6a73be2368fe16d3655511d7#128 0x2a6d27f9d4e6bf46d03f2c65caaa226d#128 (BC.Gen.tblAt kuznyechik_compact_decrypt_block_tbl7 n.val 8) := by decide +kernel
theorem decT_14 (x : BitVec 8) : BC.Gen.tblAt kuznyechik_soft_decrypt_block_tbl14 (x.setWidth 64).toNat 128 = row DEC_TABLE.get ⟨14, by decide⟩ x := by
  rw [DEC_TABLE_row]
  show _ = Rdec14 _
  rw [Rdec14_comb]
  refine fin_at _ (fun y => comb 0x9820c833f276d5e649d49f95e9992d20#128 0xf340536627ec690f926bfde911f15a40#128 0x2580a6cc4e1bd21ee7d639112221b480#128 0x4ac38f5b9c36673c0d6f72224442abc3#128 0x9445ddb6fb6cce781adee44488849545#128 0xeb8a79af35d85ff0347f0b88d3cbe98a#128 0x15d7f29d6a73be2368fe16d3655511d7#128 0x2a6d27f9d4e6bf46d03f2c65caaa226d#128 (lut P_INV y)) (fun n => ?_) x
  rw [decC_14 n, pinv_fin n]

/-! #### dec, byte position 15 -/
def Rdec15 (v : BitVec 8) : BitVec 128 := rev128 (Linv (setb 0#128 15 v))
theorem Rdec15_xor (a b : BitVec 8) : Rdec15 (a ^^^ b) = Rdec15 a ^^^ Rdec15 b := by
  simp only [Rdec15, setb_xor15, Linv_xor, rev128_xor]
theorem Rdec15_zero : Rdec15 0#8 = 0#128 := by
  have h := Rdec15_xor 0#8 0#8
  simp only [BitVec.xor_self] at h
  exact h
theorem Rdec15_ite (c : Bool) (a : BitVec 8) : Rdec15 (if c then a else 0#8) = if c then Rdec15 a else 0#128 := by
  cases c <;> simp [Rdec15_zero]
theorem Rdec15_b0 : Rdec15 0x01#8 = 0xcf6ea276726c487ab85d27bd10dd8494#128 := by
  rw [Rdec15, setb_unit15, ← l_bwd_eq_Linv, ← lbwdB_pack kuznyechik_compact_decrypt_block_tbl0 kuznyechik_compact_decrypt_block_tbl1 kuznyechik_compact_decrypt_block_tbl2 kuznyechik_compact_decrypt_block_tbl3 kuznyechik_compact_decrypt_block_tbl4 kuznyechik_compact_decrypt_block_tbl5 kuznyechik_compact_decrypt_block_tbl6 gfD]
  decide +kernel
theorem Rdec15_b1 : Rdec15 0x02#8 = 0x5ddc87ece4d890f4b3ba4eb92079cbeb#128 := by
  rw [Rdec15, setb_unit15, ← l_bwd_eq_Linv, ← lbwdB_pack kuznyechik_compact_decrypt_block_tbl0 kuznyechik_compact_decrypt_block_tbl1 kuznyechik_compact_decrypt_block_tbl2 kuznyechik_compact_decrypt_block_tbl3 kuznyechik_compact_decrypt_block_tbl4 kuznyechik_compact_decrypt_block_tbl5 kuznyechik_compact_decrypt_block_tbl6 gfD]
  decide +kernel
theorem Rdec15_b2 : Rdec15 0x04#8 = 0xba7bcd1b0b73e32ba5b79cb140f25515#128 := by
  rw [Rdec15, setb_unit15, ← l_bwd_eq_Linv, ← lbwdB_pack kuznyechik_compact_decrypt_block_tbl0 kuznyechik_compact_decrypt_block_tbl1 kuznyechik_compact_decrypt_block_tbl2 kuznyechik_compact_decrypt_block_tbl3 kuznyechik_compact_decrypt_block_tbl4 kuznyechik_compact_decrypt_block_tbl5 kuznyechik_compact_decrypt_block_tbl6 gfD]
  decide +kernel
theorem Rdec15_b3 : Rdec15 0x08#8 = 0xb7f6593616e6055689adfba18027aa2a#128 := by
  rw [Rdec15, setb_unit15, ← l_bwd_eq_Linv, ← lbwdB_pack kuznyechik_compact_decrypt_block_tbl0 kuznyechik_compact_decrypt_block_tbl1 kuznyechik_compact_decrypt_block_tbl2 kuznyechik_compact_decrypt_block_tbl3 kuznyechik_compact_decrypt_block_tbl4 kuznyechik_compact_decrypt_block_tbl5 kuznyechik_compact_decrypt_block_tbl6 gfD]
  decide +kernel
theorem Rdec15_b4 : Rdec15 0x10#8 = 0xad2fb26c2c0f0aacd1993581c34e9754#128 := by
  rw [Rdec15, setb_unit15, ← l_bwd_eq_Linv, ← lbwdB_pack kuznyechik_compact_decrypt_block_tbl0 kuznyechik_compact_decrypt_block_tbl1 kuznyechik_compact_decrypt_block_tbl2 kuznyechik_compact_decrypt_block_tbl3 kuznyechik_compact_decrypt_block_tbl4 kuznyechik_compact_decrypt_block_tbl5 kuznyechik_compact_decrypt_block_tbl6 gfD]
  decide +kernel
theorem Rdec15_b5 : Rdec15 0x20#8 = 0x995ea7d8581e149b61f16ac1459ceda8#128 := by
  rw [Rdec15, setb_unit15, ← l_bwd_eq_Linv, ← lbwdB_pack kuznyechik_compact_decrypt_block_tbl0 kuznyechik_compact_decrypt_block_tbl1 kuznyechik_compact_decrypt_block_tbl2 kuznyechik_compact_decrypt_block_tbl3 kuznyechik_compact_decrypt_block_tbl4 kuznyechik_compact_decrypt_block_tbl5 kuznyechik_compact_decrypt_block_tbl6 gfD]
  decide +kernel
theorem Rdec15_b6 : Rdec15 0x40#8 = 0xf1bc8d73b03c28f5c221d4418afb1993#128 := by
  rw [Rdec15, setb_unit15, ← l_bwd_eq_Linv, ← lbwdB_pack kuznyechik_compact_decrypt_block_tbl0 kuznyechik_compact_decrypt_block_tbl1 kuznyechik_compact_decrypt_block_tbl2 kuznyechik_compact_decrypt_block_tbl3 kuznyechik_compact_decrypt_block_tbl4 kuznyechik_compact_decrypt_block_tbl5 kuznyechik_compact_decrypt_block_tbl6 gfD]
  decide +kernel
theorem Rdec15_b7 : Rdec15 0x80#8 = 0x21bbd9e6a378502947426b82d73532e5#128 := by
  rw [Rdec15, setb_unit15, ← l_bwd_eq_Linv, ← lbwdB_pack kuznyechik_compact_decrypt_block_tbl0 kuznyechik_compact_decrypt_block_tbl1 kuznyechik_compact_decrypt_block_tbl2 kuznyechik_compact_decrypt_block_tbl3 kuznyechik_compact_decrypt_block_tbl4 kuznyechik_compact_decrypt_block_tbl5 kuznyechik_compact_decrypt_block_tbl6 gfD]
  decide +kernel
theorem Rdec15_comb (v : BitVec 8) : Rdec15 v = comb 0xcf6ea276726c487ab85d27bd10dd8494#128 0x5ddc87ece4d890f4b3ba4eb92079cbeb#128 0xba7bcd1b0b73e32ba5b79cb140f25515#128 0xb7f6593616e6055689adfba18027aa2a#128 0xad2fb26c2c0f0aacd1993581c34e9754#128 0x995ea7d8581e149b61f16ac1459ceda8#128 0xf1bc8d73b03c28f5c221d4418afb1993#128 0x21bbd9e6a378502947426b82d73532e5#128 v := by
  have h := congrArg Rdec15 (bits8 v)
  rw [← h]
  simp only [Rdec15_xor, Rdec15_ite, Rdec15_b0, Rdec15_b1, Rdec15_b2, Rdec15_b3, Rdec15_b4, Rdec15_b5, Rdec15_b6, Rdec15_b7, comb]
theorem decC_15 : ∀ n : Fin 256, BC.Gen.tblAt kuznyechik_soft_decrypt_block_tbl15 n.val 128 = comb 0xcf6ea276726c487ab85d27bd10dd8494#128 0x5ddc87ece4d890f4b3ba4eb92079cbeb#128 0xba7bcd1b0b73e32ba5b79cb140f25515#128 0xb7f6593616e6055689adfba18027aa2a#128 0xad2fb26c2c0f0aacd1993581c34e9754#128 0x995ea7d8581e149b61f16ac1459ceda8#128 0xf1bc8d73b03c28f5c221d4418afb1993#128 0x21bbd9e6a378502947426b82d73532e5#128 (BC.Gen.tblAt kuznyechik_compact_decrypt_block_tbl7 n.val 8) := by decide +kernel
theorem decT_15 (x : BitVec 8) : BC.Gen.tblAt kuznyechik_soft_decrypt_block_tbl15 (x.setWidth 64).toNat 128 = row DEC_TABLE.get ⟨15, by decide⟩ x := by
  rw [DEC_TABLE_row]
  show _ = Rdec15 _
  rw [Rdec15_comb]
  refine fin_at _ (fun y => comb 0xcf6ea276726c487ab85d27bd10dd8494#128 0x5ddc87ece4d890f4b3ba4eb92079cbeb#128 0xba7bcd1b0b73e32ba5b79cb140f25515#128 0xb7f6593616e6055689adfba18027aa2a#128 0xad2fb26c2c0f0aacd1993581c34e9754#128 0x995ea7d8581e149b61f16ac1459ceda8#128 0xf1bc8d73b03c28f5c221d4418afb1993#128 0x21bbd9e6a378502947426b82d73532e5#128 (lut P_INV y)) (fun n => ?_) x
  rw [decC_15 n, pinv_fin n]

end BC.GenCipher.Kuznyechik
