import BlockCiphers.Proofs.AesFs32KeyForm
import BlockCiphers.Proofs.AesFs32CommSB
import BlockCiphers.Proofs.AesFs32CommMC
import BlockCiphers.Proofs.AesFs32CommIMC
import BlockCiphers.Proofs.AesFs32CommLin
import BlockCiphers.Proofs.AesFs32MixNots
import BlockCiphers.Proofs.AesFs32StLemmas
/-!
C02 stages (iii) and (vi) for fixslice32: **the whole fixsliced encryption / decryption is the
FIPS-197 Cipher / InvCipher in each of the two lanes**, for round keys given in fixsliced form
(`fsKey` normal, `fsKeyC` compact; `Proofs/AesFs32KeyForm` shows that every `Nat → St` has this form).

`cipherK nr K` / `invCipherK nr K` are `BC.Spec.Aes.cipher` / `invCipher` with the round keys as a
function (`cipher_eq_cipherK : cipher nr w = cipherK nr (roundKey w)` by `rfl`).

Proof: unroll the loops, substitute the key forms, rewrite with the per-step commutation lemmas
(S-box: `sub_bytes_rep*`; MixColumns∘ShiftRows: `mix_columns_*_rep`; AddRoundKey: linearity; NOT
compensation) — the result is syntactically the unrolled FIPS-197 cipher.
-/
namespace BC.AesFs32
open BC.Spec.Aes
set_option linter.unusedSimpArgs false

theorem range9 : List.range 9 = [0,1,2,3,4,5,6,7,8] := by decide
theorem range11 : List.range 11 = [0,1,2,3,4,5,6,7,8,9,10] := by decide
theorem range13 : List.range 13 = [0,1,2,3,4,5,6,7,8,9,10,11,12] := by decide

theorem ark_isr1 (a b : St) : add_round_key (inv_shift_rows_1 a) (inv_shift_rows_1 b) = inv_shift_rows_1 (add_round_key a b) := ark_shift_rows_3 a b
theorem ark_isr2 (a b : St) : add_round_key (inv_shift_rows_2 a) (inv_shift_rows_2 b) = inv_shift_rows_2 (add_round_key a b) := ark_shift_rows_2 a b
theorem ark_isr3 (a b : St) : add_round_key (inv_shift_rows_3 a) (inv_shift_rows_3 b) = inv_shift_rows_3 (add_round_key a b) := ark_shift_rows_1 a b
theorem sr2_isr1 (s : St) : shift_rows_2 (inv_shift_rows_1 s) = inv_shift_rows_3 s := shift_rows_2_3 s
theorem isr2_isr3 (s : St) : inv_shift_rows_2 (inv_shift_rows_3 s) = inv_shift_rows_1 s := shift_rows_2_1 s

/-- last round of encryption: the state is in representation 3 (= one real ShiftRows applied) -/
theorem ark_final (b0 b1 k0 k1 : BitVec 128) :
    add_round_key (inv_shift_rows_3 (bitslice b0 b1)) (bitslice k0 k1) =
      bitslice (shiftRows b0 ^^^ k0) (shiftRows b1 ^^^ k1) := by
  rw [inv_shift_rows_3, shift_rows_1_bitslice, add_round_key_bitslice]

/-- first step of decryption -/
theorem dec_start (c0 c1 k0 k1 : BitVec 128) :
    inv_sub_bytes (add_round_key (bitslice c0 c1) (sub_bytes_nots (bitslice k0 k1))) =
      inv_shift_rows_3 (bitslice (invSubBytes (invShiftRows (c0 ^^^ k0))) (invSubBytes (invShiftRows (c1 ^^^ k1)))) := by
  rw [ark_nots_right, add_round_key_bitslice, bitslice_eq_rep3, inv_sub_bytes_rep3]

set_option maxRecDepth 100000 in
theorem aes128_encrypt_cipherK (rk : Nat → St) (K : Nat → Batch)
    (h : ∀ r, r ≤ 10 → rk r = fsKey 10 r (K r)) (b : Batch) :
    aes128_encrypt rk b =
      ⟨cipherK 10 (fun r => (K r).b0) b.b0, cipherK 10 (fun r => (K r).b1) b.b1⟩ := by
  have h0 := h 0 (by omega)
  have h1 := h 1 (by omega)
  have h2 := h 2 (by omega)
  have h3 := h 3 (by omega)
  have h4 := h 4 (by omega)
  have h5 := h 5 (by omega)
  have h6 := h 6 (by omega)
  have h7 := h 7 (by omega)
  have h8 := h 8 (by omega)
  have h9 := h 9 (by omega)
  have h10 := h 10 (by omega)
  simp [fsKey, fsKeyC, repSt, bitsliceB] at h0 h1 h2 h3 h4 h5 h6 h7 h8 h9 h10
  simp only [aes128_encrypt, aes128_encrypt_loop, Nat.reduceAdd, Nat.reduceSub, Nat.reduceDiv, Nat.reduceBEq, Bool.false_eq_true, if_false, if_true, ite_true, ite_false,
    h0, h1, h2, h3, h4, h5, h6, h7, h8, h9, h10]
  simp only [add_round_key_bitslice, sub_bytes_rep0, sub_bytes_rep1, sub_bytes_rep2, sub_bytes_rep3,
    mix_columns_0_nots, mix_columns_1_nots, mix_columns_2_nots, mix_columns_3_nots,
    mix_columns_0_rep, mix_columns_1_rep, mix_columns_2_rep, mix_columns_3_rep,
    ark_nots_nots, ark_isr1, ark_isr2, ark_isr3, sr2_isr1, ark_final, inv_bitslice_bitslice]
  simp only [cipherK, range9, List.foldl, addRoundKey, Nat.reduceAdd, Nat.reduceSub, Nat.reduceDiv, Nat.reduceBEq, Bool.false_eq_true, if_false, if_true, ite_true, ite_false]

set_option maxRecDepth 100000 in
theorem aes128_decrypt_invCipherK (rk : Nat → St) (K : Nat → Batch)
    (h : ∀ r, r ≤ 10 → rk r = fsKey 10 r (K r)) (b : Batch) :
    aes128_decrypt rk b =
      ⟨invCipherK 10 (fun r => (K r).b0) b.b0, invCipherK 10 (fun r => (K r).b1) b.b1⟩ := by
  have h0 := h 0 (by omega)
  have h1 := h 1 (by omega)
  have h2 := h 2 (by omega)
  have h3 := h 3 (by omega)
  have h4 := h 4 (by omega)
  have h5 := h 5 (by omega)
  have h6 := h 6 (by omega)
  have h7 := h 7 (by omega)
  have h8 := h 8 (by omega)
  have h9 := h 9 (by omega)
  have h10 := h 10 (by omega)
  simp [fsKey, fsKeyC, repSt, bitsliceB] at h0 h1 h2 h3 h4 h5 h6 h7 h8 h9 h10
  simp only [aes128_decrypt, aes128_decrypt_loop, Nat.reduceAdd, Nat.reduceSub, Nat.reduceDiv, Nat.reduceBEq, Bool.false_eq_true, if_false, if_true, ite_true, ite_false,
    h0, h1, h2, h3, h4, h5, h6, h7, h8, h9, h10]
  simp only [dec_start]
  simp only [add_round_key_bitslice, inv_sub_bytes_rep0, inv_sub_bytes_rep1, inv_sub_bytes_rep2, inv_sub_bytes_rep3,
    inv_mix_columns_0_nots, inv_mix_columns_1_nots, inv_mix_columns_2_nots, inv_mix_columns_3_nots,
    inv_mix_columns_0_rep, inv_mix_columns_1_rep, inv_mix_columns_2_rep, inv_mix_columns_3_rep,
    ark_nots_right, ark_isr1, ark_isr2, ark_isr3, isr2_isr3, inv_bitslice_bitslice]
  simp only [invCipherK, range9, List.foldl, addRoundKey, Nat.reduceAdd, Nat.reduceSub, Nat.reduceDiv, Nat.reduceBEq, Bool.false_eq_true, if_false, if_true, ite_true, ite_false]

set_option maxRecDepth 100000 in
theorem aes128_encrypt_compact_cipherK (rk : Nat → St) (K : Nat → Batch)
    (h : ∀ r, r ≤ 10 → rk r = fsKeyC r (K r)) (b : Batch) :
    aes128_encrypt_compact rk b =
      ⟨cipherK 10 (fun r => (K r).b0) b.b0, cipherK 10 (fun r => (K r).b1) b.b1⟩ := by
  have h0 := h 0 (by omega)
  have h1 := h 1 (by omega)
  have h2 := h 2 (by omega)
  have h3 := h 3 (by omega)
  have h4 := h 4 (by omega)
  have h5 := h 5 (by omega)
  have h6 := h 6 (by omega)
  have h7 := h 7 (by omega)
  have h8 := h 8 (by omega)
  have h9 := h 9 (by omega)
  have h10 := h 10 (by omega)
  simp [fsKey, fsKeyC, repSt, bitsliceB] at h0 h1 h2 h3 h4 h5 h6 h7 h8 h9 h10
  simp only [aes128_encrypt_compact, aes128_encrypt_loop_compact, Nat.reduceAdd, Nat.reduceSub, Nat.reduceDiv, Nat.reduceBEq, Bool.false_eq_true, if_false, if_true, ite_true, ite_false,
    h0, h1, h2, h3, h4, h5, h6, h7, h8, h9, h10]
  simp only [add_round_key_bitslice, sub_bytes_rep0, sub_bytes_rep1, sub_bytes_rep2, sub_bytes_rep3,
    mix_columns_0_nots, mix_columns_1_nots, mix_columns_2_nots, mix_columns_3_nots,
    mix_columns_0_rep, mix_columns_1_rep, mix_columns_2_rep, mix_columns_3_rep,
    ark_nots_nots, ark_isr1, ark_isr2, ark_isr3, sr2_isr1, ark_final, inv_bitslice_bitslice]
  simp only [cipherK, range9, List.foldl, addRoundKey, Nat.reduceAdd, Nat.reduceSub, Nat.reduceDiv, Nat.reduceBEq, Bool.false_eq_true, if_false, if_true, ite_true, ite_false]

set_option maxRecDepth 100000 in
theorem aes128_decrypt_compact_invCipherK (rk : Nat → St) (K : Nat → Batch)
    (h : ∀ r, r ≤ 10 → rk r = fsKeyC r (K r)) (b : Batch) :
    aes128_decrypt_compact rk b =
      ⟨invCipherK 10 (fun r => (K r).b0) b.b0, invCipherK 10 (fun r => (K r).b1) b.b1⟩ := by
  have h0 := h 0 (by omega)
  have h1 := h 1 (by omega)
  have h2 := h 2 (by omega)
  have h3 := h 3 (by omega)
  have h4 := h 4 (by omega)
  have h5 := h 5 (by omega)
  have h6 := h 6 (by omega)
  have h7 := h 7 (by omega)
  have h8 := h 8 (by omega)
  have h9 := h 9 (by omega)
  have h10 := h 10 (by omega)
  simp [fsKey, fsKeyC, repSt, bitsliceB] at h0 h1 h2 h3 h4 h5 h6 h7 h8 h9 h10
  simp only [aes128_decrypt_compact, aes128_decrypt_loop_compact, Nat.reduceAdd, Nat.reduceSub, Nat.reduceDiv, Nat.reduceBEq, Bool.false_eq_true, if_false, if_true, ite_true, ite_false,
    h0, h1, h2, h3, h4, h5, h6, h7, h8, h9, h10]
  simp only [dec_start]
  simp only [add_round_key_bitslice, inv_sub_bytes_rep0, inv_sub_bytes_rep1, inv_sub_bytes_rep2, inv_sub_bytes_rep3,
    inv_mix_columns_0_nots, inv_mix_columns_1_nots, inv_mix_columns_2_nots, inv_mix_columns_3_nots,
    inv_mix_columns_0_rep, inv_mix_columns_1_rep, inv_mix_columns_2_rep, inv_mix_columns_3_rep,
    ark_nots_right, ark_isr1, ark_isr2, ark_isr3, isr2_isr3, inv_bitslice_bitslice]
  simp only [invCipherK, range9, List.foldl, addRoundKey, Nat.reduceAdd, Nat.reduceSub, Nat.reduceDiv, Nat.reduceBEq, Bool.false_eq_true, if_false, if_true, ite_true, ite_false]

set_option maxRecDepth 100000 in
theorem aes192_encrypt_cipherK (rk : Nat → St) (K : Nat → Batch)
    (h : ∀ r, r ≤ 12 → rk r = fsKey 12 r (K r)) (b : Batch) :
    aes192_encrypt rk b =
      ⟨cipherK 12 (fun r => (K r).b0) b.b0, cipherK 12 (fun r => (K r).b1) b.b1⟩ := by
  have h0 := h 0 (by omega)
  have h1 := h 1 (by omega)
  have h2 := h 2 (by omega)
  have h3 := h 3 (by omega)
  have h4 := h 4 (by omega)
  have h5 := h 5 (by omega)
  have h6 := h 6 (by omega)
  have h7 := h 7 (by omega)
  have h8 := h 8 (by omega)
  have h9 := h 9 (by omega)
  have h10 := h 10 (by omega)
  have h11 := h 11 (by omega)
  have h12 := h 12 (by omega)
  simp [fsKey, fsKeyC, repSt, bitsliceB] at h0 h1 h2 h3 h4 h5 h6 h7 h8 h9 h10 h11 h12
  simp only [aes192_encrypt, aes192_encrypt_loop, Nat.reduceAdd, Nat.reduceSub, Nat.reduceDiv, Nat.reduceBEq, Bool.false_eq_true, if_false, if_true, ite_true, ite_false,
    h0, h1, h2, h3, h4, h5, h6, h7, h8, h9, h10, h11, h12]
  simp only [add_round_key_bitslice, sub_bytes_rep0, sub_bytes_rep1, sub_bytes_rep2, sub_bytes_rep3,
    mix_columns_0_nots, mix_columns_1_nots, mix_columns_2_nots, mix_columns_3_nots,
    mix_columns_0_rep, mix_columns_1_rep, mix_columns_2_rep, mix_columns_3_rep,
    ark_nots_nots, ark_isr1, ark_isr2, ark_isr3, sr2_isr1, ark_final, inv_bitslice_bitslice]
  simp only [cipherK, range11, List.foldl, addRoundKey, Nat.reduceAdd, Nat.reduceSub, Nat.reduceDiv, Nat.reduceBEq, Bool.false_eq_true, if_false, if_true, ite_true, ite_false]

set_option maxRecDepth 100000 in
theorem aes192_decrypt_invCipherK (rk : Nat → St) (K : Nat → Batch)
    (h : ∀ r, r ≤ 12 → rk r = fsKey 12 r (K r)) (b : Batch) :
    aes192_decrypt rk b =
      ⟨invCipherK 12 (fun r => (K r).b0) b.b0, invCipherK 12 (fun r => (K r).b1) b.b1⟩ := by
  have h0 := h 0 (by omega)
  have h1 := h 1 (by omega)
  have h2 := h 2 (by omega)
  have h3 := h 3 (by omega)
  have h4 := h 4 (by omega)
  have h5 := h 5 (by omega)
  have h6 := h 6 (by omega)
  have h7 := h 7 (by omega)
  have h8 := h 8 (by omega)
  have h9 := h 9 (by omega)
  have h10 := h 10 (by omega)
  have h11 := h 11 (by omega)
  have h12 := h 12 (by omega)
  simp [fsKey, fsKeyC, repSt, bitsliceB] at h0 h1 h2 h3 h4 h5 h6 h7 h8 h9 h10 h11 h12
  simp only [aes192_decrypt, aes192_decrypt_loop, Nat.reduceAdd, Nat.reduceSub, Nat.reduceDiv, Nat.reduceBEq, Bool.false_eq_true, if_false, if_true, ite_true, ite_false,
    h0, h1, h2, h3, h4, h5, h6, h7, h8, h9, h10, h11, h12]
  simp only [dec_start]
  simp only [add_round_key_bitslice, inv_sub_bytes_rep0, inv_sub_bytes_rep1, inv_sub_bytes_rep2, inv_sub_bytes_rep3,
    inv_mix_columns_0_nots, inv_mix_columns_1_nots, inv_mix_columns_2_nots, inv_mix_columns_3_nots,
    inv_mix_columns_0_rep, inv_mix_columns_1_rep, inv_mix_columns_2_rep, inv_mix_columns_3_rep,
    ark_nots_right, ark_isr1, ark_isr2, ark_isr3, isr2_isr3, inv_bitslice_bitslice]
  simp only [invCipherK, range11, List.foldl, addRoundKey, Nat.reduceAdd, Nat.reduceSub, Nat.reduceDiv, Nat.reduceBEq, Bool.false_eq_true, if_false, if_true, ite_true, ite_false]

set_option maxRecDepth 100000 in
theorem aes192_encrypt_compact_cipherK (rk : Nat → St) (K : Nat → Batch)
    (h : ∀ r, r ≤ 12 → rk r = fsKeyC r (K r)) (b : Batch) :
    aes192_encrypt_compact rk b =
      ⟨cipherK 12 (fun r => (K r).b0) b.b0, cipherK 12 (fun r => (K r).b1) b.b1⟩ := by
  have h0 := h 0 (by omega)
  have h1 := h 1 (by omega)
  have h2 := h 2 (by omega)
  have h3 := h 3 (by omega)
  have h4 := h 4 (by omega)
  have h5 := h 5 (by omega)
  have h6 := h 6 (by omega)
  have h7 := h 7 (by omega)
  have h8 := h 8 (by omega)
  have h9 := h 9 (by omega)
  have h10 := h 10 (by omega)
  have h11 := h 11 (by omega)
  have h12 := h 12 (by omega)
  simp [fsKey, fsKeyC, repSt, bitsliceB] at h0 h1 h2 h3 h4 h5 h6 h7 h8 h9 h10 h11 h12
  simp only [aes192_encrypt_compact, aes192_encrypt_loop_compact, Nat.reduceAdd, Nat.reduceSub, Nat.reduceDiv, Nat.reduceBEq, Bool.false_eq_true, if_false, if_true, ite_true, ite_false,
    h0, h1, h2, h3, h4, h5, h6, h7, h8, h9, h10, h11, h12]
  simp only [add_round_key_bitslice, sub_bytes_rep0, sub_bytes_rep1, sub_bytes_rep2, sub_bytes_rep3,
    mix_columns_0_nots, mix_columns_1_nots, mix_columns_2_nots, mix_columns_3_nots,
    mix_columns_0_rep, mix_columns_1_rep, mix_columns_2_rep, mix_columns_3_rep,
    ark_nots_nots, ark_isr1, ark_isr2, ark_isr3, sr2_isr1, ark_final, inv_bitslice_bitslice]
  simp only [cipherK, range11, List.foldl, addRoundKey, Nat.reduceAdd, Nat.reduceSub, Nat.reduceDiv, Nat.reduceBEq, Bool.false_eq_true, if_false, if_true, ite_true, ite_false]

set_option maxRecDepth 100000 in
theorem aes192_decrypt_compact_invCipherK (rk : Nat → St) (K : Nat → Batch)
    (h : ∀ r, r ≤ 12 → rk r = fsKeyC r (K r)) (b : Batch) :
    aes192_decrypt_compact rk b =
      ⟨invCipherK 12 (fun r => (K r).b0) b.b0, invCipherK 12 (fun r => (K r).b1) b.b1⟩ := by
  have h0 := h 0 (by omega)
  have h1 := h 1 (by omega)
  have h2 := h 2 (by omega)
  have h3 := h 3 (by omega)
  have h4 := h 4 (by omega)
  have h5 := h 5 (by omega)
  have h6 := h 6 (by omega)
  have h7 := h 7 (by omega)
  have h8 := h 8 (by omega)
  have h9 := h 9 (by omega)
  have h10 := h 10 (by omega)
  have h11 := h 11 (by omega)
  have h12 := h 12 (by omega)
  simp [fsKey, fsKeyC, repSt, bitsliceB] at h0 h1 h2 h3 h4 h5 h6 h7 h8 h9 h10 h11 h12
  simp only [aes192_decrypt_compact, aes192_decrypt_loop_compact, Nat.reduceAdd, Nat.reduceSub, Nat.reduceDiv, Nat.reduceBEq, Bool.false_eq_true, if_false, if_true, ite_true, ite_false,
    h0, h1, h2, h3, h4, h5, h6, h7, h8, h9, h10, h11, h12]
  simp only [dec_start]
  simp only [add_round_key_bitslice, inv_sub_bytes_rep0, inv_sub_bytes_rep1, inv_sub_bytes_rep2, inv_sub_bytes_rep3,
    inv_mix_columns_0_nots, inv_mix_columns_1_nots, inv_mix_columns_2_nots, inv_mix_columns_3_nots,
    inv_mix_columns_0_rep, inv_mix_columns_1_rep, inv_mix_columns_2_rep, inv_mix_columns_3_rep,
    ark_nots_right, ark_isr1, ark_isr2, ark_isr3, isr2_isr3, inv_bitslice_bitslice]
  simp only [invCipherK, range11, List.foldl, addRoundKey, Nat.reduceAdd, Nat.reduceSub, Nat.reduceDiv, Nat.reduceBEq, Bool.false_eq_true, if_false, if_true, ite_true, ite_false]

set_option maxRecDepth 100000 in
theorem aes256_encrypt_cipherK (rk : Nat → St) (K : Nat → Batch)
    (h : ∀ r, r ≤ 14 → rk r = fsKey 14 r (K r)) (b : Batch) :
    aes256_encrypt rk b =
      ⟨cipherK 14 (fun r => (K r).b0) b.b0, cipherK 14 (fun r => (K r).b1) b.b1⟩ := by
  have h0 := h 0 (by omega)
  have h1 := h 1 (by omega)
  have h2 := h 2 (by omega)
  have h3 := h 3 (by omega)
  have h4 := h 4 (by omega)
  have h5 := h 5 (by omega)
  have h6 := h 6 (by omega)
  have h7 := h 7 (by omega)
  have h8 := h 8 (by omega)
  have h9 := h 9 (by omega)
  have h10 := h 10 (by omega)
  have h11 := h 11 (by omega)
  have h12 := h 12 (by omega)
  have h13 := h 13 (by omega)
  have h14 := h 14 (by omega)
  simp [fsKey, fsKeyC, repSt, bitsliceB] at h0 h1 h2 h3 h4 h5 h6 h7 h8 h9 h10 h11 h12 h13 h14
  simp only [aes256_encrypt, aes256_encrypt_loop, Nat.reduceAdd, Nat.reduceSub, Nat.reduceDiv, Nat.reduceBEq, Bool.false_eq_true, if_false, if_true, ite_true, ite_false,
    h0, h1, h2, h3, h4, h5, h6, h7, h8, h9, h10, h11, h12, h13, h14]
  simp only [add_round_key_bitslice, sub_bytes_rep0, sub_bytes_rep1, sub_bytes_rep2, sub_bytes_rep3,
    mix_columns_0_nots, mix_columns_1_nots, mix_columns_2_nots, mix_columns_3_nots,
    mix_columns_0_rep, mix_columns_1_rep, mix_columns_2_rep, mix_columns_3_rep,
    ark_nots_nots, ark_isr1, ark_isr2, ark_isr3, sr2_isr1, ark_final, inv_bitslice_bitslice]
  simp only [cipherK, range13, List.foldl, addRoundKey, Nat.reduceAdd, Nat.reduceSub, Nat.reduceDiv, Nat.reduceBEq, Bool.false_eq_true, if_false, if_true, ite_true, ite_false]

set_option maxRecDepth 100000 in
theorem aes256_decrypt_invCipherK (rk : Nat → St) (K : Nat → Batch)
    (h : ∀ r, r ≤ 14 → rk r = fsKey 14 r (K r)) (b : Batch) :
    aes256_decrypt rk b =
      ⟨invCipherK 14 (fun r => (K r).b0) b.b0, invCipherK 14 (fun r => (K r).b1) b.b1⟩ := by
  have h0 := h 0 (by omega)
  have h1 := h 1 (by omega)
  have h2 := h 2 (by omega)
  have h3 := h 3 (by omega)
  have h4 := h 4 (by omega)
  have h5 := h 5 (by omega)
  have h6 := h 6 (by omega)
  have h7 := h 7 (by omega)
  have h8 := h 8 (by omega)
  have h9 := h 9 (by omega)
  have h10 := h 10 (by omega)
  have h11 := h 11 (by omega)
  have h12 := h 12 (by omega)
  have h13 := h 13 (by omega)
  have h14 := h 14 (by omega)
  simp [fsKey, fsKeyC, repSt, bitsliceB] at h0 h1 h2 h3 h4 h5 h6 h7 h8 h9 h10 h11 h12 h13 h14
  simp only [aes256_decrypt, aes256_decrypt_loop, Nat.reduceAdd, Nat.reduceSub, Nat.reduceDiv, Nat.reduceBEq, Bool.false_eq_true, if_false, if_true, ite_true, ite_false,
    h0, h1, h2, h3, h4, h5, h6, h7, h8, h9, h10, h11, h12, h13, h14]
  simp only [dec_start]
  simp only [add_round_key_bitslice, inv_sub_bytes_rep0, inv_sub_bytes_rep1, inv_sub_bytes_rep2, inv_sub_bytes_rep3,
    inv_mix_columns_0_nots, inv_mix_columns_1_nots, inv_mix_columns_2_nots, inv_mix_columns_3_nots,
    inv_mix_columns_0_rep, inv_mix_columns_1_rep, inv_mix_columns_2_rep, inv_mix_columns_3_rep,
    ark_nots_right, ark_isr1, ark_isr2, ark_isr3, isr2_isr3, inv_bitslice_bitslice]
  simp only [invCipherK, range13, List.foldl, addRoundKey, Nat.reduceAdd, Nat.reduceSub, Nat.reduceDiv, Nat.reduceBEq, Bool.false_eq_true, if_false, if_true, ite_true, ite_false]

set_option maxRecDepth 100000 in
theorem aes256_encrypt_compact_cipherK (rk : Nat → St) (K : Nat → Batch)
    (h : ∀ r, r ≤ 14 → rk r = fsKeyC r (K r)) (b : Batch) :
    aes256_encrypt_compact rk b =
      ⟨cipherK 14 (fun r => (K r).b0) b.b0, cipherK 14 (fun r => (K r).b1) b.b1⟩ := by
  have h0 := h 0 (by omega)
  have h1 := h 1 (by omega)
  have h2 := h 2 (by omega)
  have h3 := h 3 (by omega)
  have h4 := h 4 (by omega)
  have h5 := h 5 (by omega)
  have h6 := h 6 (by omega)
  have h7 := h 7 (by omega)
  have h8 := h 8 (by omega)
  have h9 := h 9 (by omega)
  have h10 := h 10 (by omega)
  have h11 := h 11 (by omega)
  have h12 := h 12 (by omega)
  have h13 := h 13 (by omega)
  have h14 := h 14 (by omega)
  simp [fsKey, fsKeyC, repSt, bitsliceB] at h0 h1 h2 h3 h4 h5 h6 h7 h8 h9 h10 h11 h12 h13 h14
  simp only [aes256_encrypt_compact, aes256_encrypt_loop_compact, Nat.reduceAdd, Nat.reduceSub, Nat.reduceDiv, Nat.reduceBEq, Bool.false_eq_true, if_false, if_true, ite_true, ite_false,
    h0, h1, h2, h3, h4, h5, h6, h7, h8, h9, h10, h11, h12, h13, h14]
  simp only [add_round_key_bitslice, sub_bytes_rep0, sub_bytes_rep1, sub_bytes_rep2, sub_bytes_rep3,
    mix_columns_0_nots, mix_columns_1_nots, mix_columns_2_nots, mix_columns_3_nots,
    mix_columns_0_rep, mix_columns_1_rep, mix_columns_2_rep, mix_columns_3_rep,
    ark_nots_nots, ark_isr1, ark_isr2, ark_isr3, sr2_isr1, ark_final, inv_bitslice_bitslice]
  simp only [cipherK, range13, List.foldl, addRoundKey, Nat.reduceAdd, Nat.reduceSub, Nat.reduceDiv, Nat.reduceBEq, Bool.false_eq_true, if_false, if_true, ite_true, ite_false]

set_option maxRecDepth 100000 in
theorem aes256_decrypt_compact_invCipherK (rk : Nat → St) (K : Nat → Batch)
    (h : ∀ r, r ≤ 14 → rk r = fsKeyC r (K r)) (b : Batch) :
    aes256_decrypt_compact rk b =
      ⟨invCipherK 14 (fun r => (K r).b0) b.b0, invCipherK 14 (fun r => (K r).b1) b.b1⟩ := by
  have h0 := h 0 (by omega)
  have h1 := h 1 (by omega)
  have h2 := h 2 (by omega)
  have h3 := h 3 (by omega)
  have h4 := h 4 (by omega)
  have h5 := h 5 (by omega)
  have h6 := h 6 (by omega)
  have h7 := h 7 (by omega)
  have h8 := h 8 (by omega)
  have h9 := h 9 (by omega)
  have h10 := h 10 (by omega)
  have h11 := h 11 (by omega)
  have h12 := h 12 (by omega)
  have h13 := h 13 (by omega)
  have h14 := h 14 (by omega)
  simp [fsKey, fsKeyC, repSt, bitsliceB] at h0 h1 h2 h3 h4 h5 h6 h7 h8 h9 h10 h11 h12 h13 h14
  simp only [aes256_decrypt_compact, aes256_decrypt_loop_compact, Nat.reduceAdd, Nat.reduceSub, Nat.reduceDiv, Nat.reduceBEq, Bool.false_eq_true, if_false, if_true, ite_true, ite_false,
    h0, h1, h2, h3, h4, h5, h6, h7, h8, h9, h10, h11, h12, h13, h14]
  simp only [dec_start]
  simp only [add_round_key_bitslice, inv_sub_bytes_rep0, inv_sub_bytes_rep1, inv_sub_bytes_rep2, inv_sub_bytes_rep3,
    inv_mix_columns_0_nots, inv_mix_columns_1_nots, inv_mix_columns_2_nots, inv_mix_columns_3_nots,
    inv_mix_columns_0_rep, inv_mix_columns_1_rep, inv_mix_columns_2_rep, inv_mix_columns_3_rep,
    ark_nots_right, ark_isr1, ark_isr2, ark_isr3, isr2_isr3, inv_bitslice_bitslice]
  simp only [invCipherK, range13, List.foldl, addRoundKey, Nat.reduceAdd, Nat.reduceSub, Nat.reduceDiv, Nat.reduceBEq, Bool.false_eq_true, if_false, if_true, ite_true, ite_false]

end BC.AesFs32
