import BlockCiphers.Gen.Keys_Aria
import BlockCiphers.Impl.Aria
import Std.Tactic.BVDecide
/-
Tie of the regenerated ARIA constructors (`Gen/Keys_Aria.lean`: `Aria128::new`, `Aria192::new`, `Aria256::new`, translated
from `/repo/aria/src/aria{128,192,256}.rs` with `fo`/`fe`/`a`/`diffuse` inlined and `DIFFUSE_CONSTS` folded to literals) to
the key schedules `new128` / `new192` / `new256` of the hand-written model `Impl/Aria.lean`, for EVERY key:
the flattened struct fields (`ek[0..RK]` then `dk[0..RK]`) are exactly the model's `ek` and `dk` arrays.

Structure: the generated text is, by reflexivity, the `w0..w3` chain and the `ek`/`dk` array literals written with
`gfo`, `gfe`, `ga` (= `fo`, `fe`, `a` over the regenerated tables `BC.Gen.aria_SB1..4`, `*_struct` theorems);
`gfo = fo`, `gfe = fe`, `ga = a` by the entry-wise table lemmas (`decide +kernel` over the 256 indices) and reflexivity of
the unrolled `diffuse`; the key bytes → `kl`/`kr` glue is the only `bv_decide`.
-/
namespace BC.GenKeys.Aria
open BC.Gen.Fn
set_option maxRecDepth 100000

/-! ### table look-ups -/

/-- `SB1[x as usize]` as the translator writes it -/
def gsb1 (b : BitVec 8) : BitVec 8 := BC.Gen.tblAt BC.Gen.aria_SB1 (b.setWidth 64).toNat 8
theorem sb1_entry : ∀ n : Fin 256, BC.Gen.tblAt BC.Gen.aria_SB1 n.val 8 = BC.Aria.SB1T.getD n.val 0#8 := by
  decide +kernel
theorem gsb1_eq (b : BitVec 8) : gsb1 b = BC.Aria.sb1 b := by
  have hb : (b.setWidth 64).toNat = b.toNat := by
    rw [BitVec.toNat_setWidth]; exact Nat.mod_eq_of_lt (by have := b.isLt; omega)
  have h := sb1_entry ⟨b.toNat, b.isLt⟩
  simp only at h
  have hs : b.toNat < BC.Aria.SB1T.size := by rw [BC.Aria.SB1T_size]; exact b.isLt
  rw [gsb1, hb, h, BC.Aria.sb1, Array.getD, dif_pos hs]
  rfl

/-- `SB2[x as usize]` as the translator writes it -/
def gsb2 (b : BitVec 8) : BitVec 8 := BC.Gen.tblAt BC.Gen.aria_SB2 (b.setWidth 64).toNat 8
theorem sb2_entry : ∀ n : Fin 256, BC.Gen.tblAt BC.Gen.aria_SB2 n.val 8 = BC.Aria.SB2T.getD n.val 0#8 := by
  decide +kernel
theorem gsb2_eq (b : BitVec 8) : gsb2 b = BC.Aria.sb2 b := by
  have hb : (b.setWidth 64).toNat = b.toNat := by
    rw [BitVec.toNat_setWidth]; exact Nat.mod_eq_of_lt (by have := b.isLt; omega)
  have h := sb2_entry ⟨b.toNat, b.isLt⟩
  simp only at h
  have hs : b.toNat < BC.Aria.SB2T.size := by rw [BC.Aria.SB2T_size]; exact b.isLt
  rw [gsb2, hb, h, BC.Aria.sb2, Array.getD, dif_pos hs]
  rfl

/-- `SB3[x as usize]` as the translator writes it -/
def gsb3 (b : BitVec 8) : BitVec 8 := BC.Gen.tblAt BC.Gen.aria_SB3 (b.setWidth 64).toNat 8
theorem sb3_entry : ∀ n : Fin 256, BC.Gen.tblAt BC.Gen.aria_SB3 n.val 8 = BC.Aria.SB3T.getD n.val 0#8 := by
  decide +kernel
theorem gsb3_eq (b : BitVec 8) : gsb3 b = BC.Aria.sb3 b := by
  have hb : (b.setWidth 64).toNat = b.toNat := by
    rw [BitVec.toNat_setWidth]; exact Nat.mod_eq_of_lt (by have := b.isLt; omega)
  have h := sb3_entry ⟨b.toNat, b.isLt⟩
  simp only at h
  have hs : b.toNat < BC.Aria.SB3T.size := by rw [BC.Aria.SB3T_size]; exact b.isLt
  rw [gsb3, hb, h, BC.Aria.sb3, Array.getD, dif_pos hs]
  rfl

/-- `SB4[x as usize]` as the translator writes it -/
def gsb4 (b : BitVec 8) : BitVec 8 := BC.Gen.tblAt BC.Gen.aria_SB4 (b.setWidth 64).toNat 8
theorem sb4_entry : ∀ n : Fin 256, BC.Gen.tblAt BC.Gen.aria_SB4 n.val 8 = BC.Aria.SB4T.getD n.val 0#8 := by
  decide +kernel
theorem gsb4_eq (b : BitVec 8) : gsb4 b = BC.Aria.sb4 b := by
  have hb : (b.setWidth 64).toNat = b.toNat := by
    rw [BitVec.toNat_setWidth]; exact Nat.mod_eq_of_lt (by have := b.isLt; omega)
  have h := sb4_entry ⟨b.toNat, b.isLt⟩
  simp only at h
  have hs : b.toNat < BC.Aria.SB4T.size := by rw [BC.Aria.SB4T_size]; exact b.isLt
  rw [gsb4, hb, h, BC.Aria.sb4, Array.getD, dif_pos hs]
  rfl

/-! ### `diffuse`, `fo`, `fe`, `a` in the shape of the generated text -/

/-- utils.rs `diffuse` unrolled (`DIFFUSE_CONSTS` are literals in the generated text) -/
def gdiffuse (b0 b1 b2 b3 b4 b5 b6 b7 b8 b9 b10 b11 b12 b13 b14 b15 : BitVec 8) : BitVec 128 :=
  ((((((((((((((((0x0#128 ^^^ 0x00000001010001000101000000010100#128 * b0.setWidth 128) ^^^ 0x00000100000100010101000001000001#128 * b1.setWidth 128) ^^^ 0x00010000010001000000010101000001#128 * b2.setWidth 128) ^^^ 0x01000000000100010000010100010100#128 * b3.setWidth 128) ^^^ 0x01000100000100000100000100000101#128 * b4.setWidth 128) ^^^ 0x00010001010000000001010000000101#128 * b5.setWidth 128) ^^^ 0x01000100000000010001010001010000#128 * b6.setWidth 128) ^^^ 0x00010001000001000100000101010000#128 * b7.setWidth 128) ^^^ 0x01010000010000010000010000010001#128 * b8.setWidth 128) ^^^ 0x01010000000101000000000101000100#128 * b9.setWidth 128) ^^^ 0x00000101000101000100000000010001#128 * b10.setWidth 128) ^^^ 0x00000101010000010001000001000100#128 * b11.setWidth 128) ^^^ 0x00010100000001010001000101000000#128 * b12.setWidth 128) ^^^ 0x01000001000001010100010000010000#128 * b13.setWidth 128) ^^^ 0x01000001010100000001000100000100#128 * b14.setWidth 128) ^^^ 0x00010100010100000100010000000001#128 * b15.setWidth 128)
theorem gdiffuse_eq (b0 b1 b2 b3 b4 b5 b6 b7 b8 b9 b10 b11 b12 b13 b14 b15 : BitVec 8) :
    gdiffuse b0 b1 b2 b3 b4 b5 b6 b7 b8 b9 b10 b11 b12 b13 b14 b15 = BC.Aria.diffuse [b0, b1, b2, b3, b4, b5, b6, b7, b8, b9, b10, b11, b12, b13, b14, b15] := rfl

def gfo (x : BitVec 128) : BitVec 128 :=
  gdiffuse (gsb1 (x.extractLsb' 120 8)) (gsb2 (x.extractLsb' 112 8)) (gsb3 (x.extractLsb' 104 8)) (gsb4 (x.extractLsb' 96 8)) (gsb1 (x.extractLsb' 88 8)) (gsb2 (x.extractLsb' 80 8)) (gsb3 (x.extractLsb' 72 8)) (gsb4 (x.extractLsb' 64 8)) (gsb1 (x.extractLsb' 56 8)) (gsb2 (x.extractLsb' 48 8)) (gsb3 (x.extractLsb' 40 8)) (gsb4 (x.extractLsb' 32 8)) (gsb1 (x.extractLsb' 24 8)) (gsb2 (x.extractLsb' 16 8)) (gsb3 (x.extractLsb' 8 8)) (gsb4 (x.extractLsb' 0 8))
theorem gfo_eq (x : BitVec 128) : gfo x = BC.Aria.fo x := by
  simp only [gfo, gdiffuse_eq, gsb1_eq, gsb2_eq, gsb3_eq, gsb4_eq]
  rfl

def gfe (x : BitVec 128) : BitVec 128 :=
  gdiffuse (gsb3 (x.extractLsb' 120 8)) (gsb4 (x.extractLsb' 112 8)) (gsb1 (x.extractLsb' 104 8)) (gsb2 (x.extractLsb' 96 8)) (gsb3 (x.extractLsb' 88 8)) (gsb4 (x.extractLsb' 80 8)) (gsb1 (x.extractLsb' 72 8)) (gsb2 (x.extractLsb' 64 8)) (gsb3 (x.extractLsb' 56 8)) (gsb4 (x.extractLsb' 48 8)) (gsb1 (x.extractLsb' 40 8)) (gsb2 (x.extractLsb' 32 8)) (gsb3 (x.extractLsb' 24 8)) (gsb4 (x.extractLsb' 16 8)) (gsb1 (x.extractLsb' 8 8)) (gsb2 (x.extractLsb' 0 8))
theorem gfe_eq (x : BitVec 128) : gfe x = BC.Aria.fe x := by
  simp only [gfe, gdiffuse_eq, gsb1_eq, gsb2_eq, gsb3_eq, gsb4_eq]
  rfl

def ga (x : BitVec 128) : BitVec 128 :=
  gdiffuse (x.extractLsb' 120 8) (x.extractLsb' 112 8) (x.extractLsb' 104 8) (x.extractLsb' 96 8) (x.extractLsb' 88 8) (x.extractLsb' 80 8) (x.extractLsb' 72 8) (x.extractLsb' 64 8) (x.extractLsb' 56 8) (x.extractLsb' 48 8) (x.extractLsb' 40 8) (x.extractLsb' 32 8) (x.extractLsb' 24 8) (x.extractLsb' 16 8) (x.extractLsb' 8 8) (x.extractLsb' 0 8)
theorem ga_eq (x : BitVec 128) : ga x = BC.Aria.a x := by
  simp only [ga, gdiffuse_eq]
  rfl

/-- the struct `Aria<13> { ek, dk }` of the model flattened in declaration order -/
def t26 (k : BC.Aria.Keys) : BitVec 128 × BitVec 128 × BitVec 128 × BitVec 128 × BitVec 128 × BitVec 128 × BitVec 128 × BitVec 128 × BitVec 128 × BitVec 128 × BitVec 128 × BitVec 128 × BitVec 128 × BitVec 128 × BitVec 128 × BitVec 128 × BitVec 128 × BitVec 128 × BitVec 128 × BitVec 128 × BitVec 128 × BitVec 128 × BitVec 128 × BitVec 128 × BitVec 128 × BitVec 128 :=
  (k.ek.getD 0 0, k.ek.getD 1 0, k.ek.getD 2 0, k.ek.getD 3 0, k.ek.getD 4 0, k.ek.getD 5 0, k.ek.getD 6 0, k.ek.getD 7 0, k.ek.getD 8 0, k.ek.getD 9 0, k.ek.getD 10 0, k.ek.getD 11 0, k.ek.getD 12 0, k.dk.getD 0 0, k.dk.getD 1 0, k.dk.getD 2 0, k.dk.getD 3 0, k.dk.getD 4 0, k.dk.getD 5 0, k.dk.getD 6 0, k.dk.getD 7 0, k.dk.getD 8 0, k.dk.getD 9 0, k.dk.getD 10 0, k.dk.getD 11 0, k.dk.getD 12 0)
def l26 (t : BitVec 128 × BitVec 128 × BitVec 128 × BitVec 128 × BitVec 128 × BitVec 128 × BitVec 128 × BitVec 128 × BitVec 128 × BitVec 128 × BitVec 128 × BitVec 128 × BitVec 128 × BitVec 128 × BitVec 128 × BitVec 128 × BitVec 128 × BitVec 128 × BitVec 128 × BitVec 128 × BitVec 128 × BitVec 128 × BitVec 128 × BitVec 128 × BitVec 128 × BitVec 128) : List (BitVec 128) :=
  [t.1, t.2.1, t.2.2.1, t.2.2.2.1, t.2.2.2.2.1, t.2.2.2.2.2.1, t.2.2.2.2.2.2.1, t.2.2.2.2.2.2.2.1, t.2.2.2.2.2.2.2.2.1, t.2.2.2.2.2.2.2.2.2.1, t.2.2.2.2.2.2.2.2.2.2.1, t.2.2.2.2.2.2.2.2.2.2.2.1, t.2.2.2.2.2.2.2.2.2.2.2.2.1, t.2.2.2.2.2.2.2.2.2.2.2.2.2.1, t.2.2.2.2.2.2.2.2.2.2.2.2.2.2.1, t.2.2.2.2.2.2.2.2.2.2.2.2.2.2.2.1, t.2.2.2.2.2.2.2.2.2.2.2.2.2.2.2.2.1, t.2.2.2.2.2.2.2.2.2.2.2.2.2.2.2.2.2.1, t.2.2.2.2.2.2.2.2.2.2.2.2.2.2.2.2.2.2.1, t.2.2.2.2.2.2.2.2.2.2.2.2.2.2.2.2.2.2.2.1, t.2.2.2.2.2.2.2.2.2.2.2.2.2.2.2.2.2.2.2.2.1, t.2.2.2.2.2.2.2.2.2.2.2.2.2.2.2.2.2.2.2.2.2.1, t.2.2.2.2.2.2.2.2.2.2.2.2.2.2.2.2.2.2.2.2.2.2.1, t.2.2.2.2.2.2.2.2.2.2.2.2.2.2.2.2.2.2.2.2.2.2.2.1, t.2.2.2.2.2.2.2.2.2.2.2.2.2.2.2.2.2.2.2.2.2.2.2.2.1, t.2.2.2.2.2.2.2.2.2.2.2.2.2.2.2.2.2.2.2.2.2.2.2.2.2]
/-- the struct `Aria<15> { ek, dk }` of the model flattened in declaration order -/
def t30 (k : BC.Aria.Keys) : BitVec 128 × BitVec 128 × BitVec 128 × BitVec 128 × BitVec 128 × BitVec 128 × BitVec 128 × BitVec 128 × BitVec 128 × BitVec 128 × BitVec 128 × BitVec 128 × BitVec 128 × BitVec 128 × BitVec 128 × BitVec 128 × BitVec 128 × BitVec 128 × BitVec 128 × BitVec 128 × BitVec 128 × BitVec 128 × BitVec 128 × BitVec 128 × BitVec 128 × BitVec 128 × BitVec 128 × BitVec 128 × BitVec 128 × BitVec 128 :=
  (k.ek.getD 0 0, k.ek.getD 1 0, k.ek.getD 2 0, k.ek.getD 3 0, k.ek.getD 4 0, k.ek.getD 5 0, k.ek.getD 6 0, k.ek.getD 7 0, k.ek.getD 8 0, k.ek.getD 9 0, k.ek.getD 10 0, k.ek.getD 11 0, k.ek.getD 12 0, k.ek.getD 13 0, k.ek.getD 14 0, k.dk.getD 0 0, k.dk.getD 1 0, k.dk.getD 2 0, k.dk.getD 3 0, k.dk.getD 4 0, k.dk.getD 5 0, k.dk.getD 6 0, k.dk.getD 7 0, k.dk.getD 8 0, k.dk.getD 9 0, k.dk.getD 10 0, k.dk.getD 11 0, k.dk.getD 12 0, k.dk.getD 13 0, k.dk.getD 14 0)
def l30 (t : BitVec 128 × BitVec 128 × BitVec 128 × BitVec 128 × BitVec 128 × BitVec 128 × BitVec 128 × BitVec 128 × BitVec 128 × BitVec 128 × BitVec 128 × BitVec 128 × BitVec 128 × BitVec 128 × BitVec 128 × BitVec 128 × BitVec 128 × BitVec 128 × BitVec 128 × BitVec 128 × BitVec 128 × BitVec 128 × BitVec 128 × BitVec 128 × BitVec 128 × BitVec 128 × BitVec 128 × BitVec 128 × BitVec 128 × BitVec 128) : List (BitVec 128) :=
  [t.1, t.2.1, t.2.2.1, t.2.2.2.1, t.2.2.2.2.1, t.2.2.2.2.2.1, t.2.2.2.2.2.2.1, t.2.2.2.2.2.2.2.1, t.2.2.2.2.2.2.2.2.1, t.2.2.2.2.2.2.2.2.2.1, t.2.2.2.2.2.2.2.2.2.2.1, t.2.2.2.2.2.2.2.2.2.2.2.1, t.2.2.2.2.2.2.2.2.2.2.2.2.1, t.2.2.2.2.2.2.2.2.2.2.2.2.2.1, t.2.2.2.2.2.2.2.2.2.2.2.2.2.2.1, t.2.2.2.2.2.2.2.2.2.2.2.2.2.2.2.1, t.2.2.2.2.2.2.2.2.2.2.2.2.2.2.2.2.1, t.2.2.2.2.2.2.2.2.2.2.2.2.2.2.2.2.2.1, t.2.2.2.2.2.2.2.2.2.2.2.2.2.2.2.2.2.2.1, t.2.2.2.2.2.2.2.2.2.2.2.2.2.2.2.2.2.2.2.1, t.2.2.2.2.2.2.2.2.2.2.2.2.2.2.2.2.2.2.2.2.1, t.2.2.2.2.2.2.2.2.2.2.2.2.2.2.2.2.2.2.2.2.2.1, t.2.2.2.2.2.2.2.2.2.2.2.2.2.2.2.2.2.2.2.2.2.2.1, t.2.2.2.2.2.2.2.2.2.2.2.2.2.2.2.2.2.2.2.2.2.2.2.1, t.2.2.2.2.2.2.2.2.2.2.2.2.2.2.2.2.2.2.2.2.2.2.2.2.1, t.2.2.2.2.2.2.2.2.2.2.2.2.2.2.2.2.2.2.2.2.2.2.2.2.2.1, t.2.2.2.2.2.2.2.2.2.2.2.2.2.2.2.2.2.2.2.2.2.2.2.2.2.2.1, t.2.2.2.2.2.2.2.2.2.2.2.2.2.2.2.2.2.2.2.2.2.2.2.2.2.2.2.1, t.2.2.2.2.2.2.2.2.2.2.2.2.2.2.2.2.2.2.2.2.2.2.2.2.2.2.2.2.1, t.2.2.2.2.2.2.2.2.2.2.2.2.2.2.2.2.2.2.2.2.2.2.2.2.2.2.2.2.2]
/-- the struct `Aria<17> { ek, dk }` of the model flattened in declaration order -/
def t34 (k : BC.Aria.Keys) : BitVec 128 × BitVec 128 × BitVec 128 × BitVec 128 × BitVec 128 × BitVec 128 × BitVec 128 × BitVec 128 × BitVec 128 × BitVec 128 × BitVec 128 × BitVec 128 × BitVec 128 × BitVec 128 × BitVec 128 × BitVec 128 × BitVec 128 × BitVec 128 × BitVec 128 × BitVec 128 × BitVec 128 × BitVec 128 × BitVec 128 × BitVec 128 × BitVec 128 × BitVec 128 × BitVec 128 × BitVec 128 × BitVec 128 × BitVec 128 × BitVec 128 × BitVec 128 × BitVec 128 × BitVec 128 :=
  (k.ek.getD 0 0, k.ek.getD 1 0, k.ek.getD 2 0, k.ek.getD 3 0, k.ek.getD 4 0, k.ek.getD 5 0, k.ek.getD 6 0, k.ek.getD 7 0, k.ek.getD 8 0, k.ek.getD 9 0, k.ek.getD 10 0, k.ek.getD 11 0, k.ek.getD 12 0, k.ek.getD 13 0, k.ek.getD 14 0, k.ek.getD 15 0, k.ek.getD 16 0, k.dk.getD 0 0, k.dk.getD 1 0, k.dk.getD 2 0, k.dk.getD 3 0, k.dk.getD 4 0, k.dk.getD 5 0, k.dk.getD 6 0, k.dk.getD 7 0, k.dk.getD 8 0, k.dk.getD 9 0, k.dk.getD 10 0, k.dk.getD 11 0, k.dk.getD 12 0, k.dk.getD 13 0, k.dk.getD 14 0, k.dk.getD 15 0, k.dk.getD 16 0)
def l34 (t : BitVec 128 × BitVec 128 × BitVec 128 × BitVec 128 × BitVec 128 × BitVec 128 × BitVec 128 × BitVec 128 × BitVec 128 × BitVec 128 × BitVec 128 × BitVec 128 × BitVec 128 × BitVec 128 × BitVec 128 × BitVec 128 × BitVec 128 × BitVec 128 × BitVec 128 × BitVec 128 × BitVec 128 × BitVec 128 × BitVec 128 × BitVec 128 × BitVec 128 × BitVec 128 × BitVec 128 × BitVec 128 × BitVec 128 × BitVec 128 × BitVec 128 × BitVec 128 × BitVec 128 × BitVec 128) : List (BitVec 128) :=
  [t.1, t.2.1, t.2.2.1, t.2.2.2.1, t.2.2.2.2.1, t.2.2.2.2.2.1, t.2.2.2.2.2.2.1, t.2.2.2.2.2.2.2.1, t.2.2.2.2.2.2.2.2.1, t.2.2.2.2.2.2.2.2.2.1, t.2.2.2.2.2.2.2.2.2.2.1, t.2.2.2.2.2.2.2.2.2.2.2.1, t.2.2.2.2.2.2.2.2.2.2.2.2.1, t.2.2.2.2.2.2.2.2.2.2.2.2.2.1, t.2.2.2.2.2.2.2.2.2.2.2.2.2.2.1, t.2.2.2.2.2.2.2.2.2.2.2.2.2.2.2.1, t.2.2.2.2.2.2.2.2.2.2.2.2.2.2.2.2.1, t.2.2.2.2.2.2.2.2.2.2.2.2.2.2.2.2.2.1, t.2.2.2.2.2.2.2.2.2.2.2.2.2.2.2.2.2.2.1, t.2.2.2.2.2.2.2.2.2.2.2.2.2.2.2.2.2.2.2.1, t.2.2.2.2.2.2.2.2.2.2.2.2.2.2.2.2.2.2.2.2.1, t.2.2.2.2.2.2.2.2.2.2.2.2.2.2.2.2.2.2.2.2.2.1, t.2.2.2.2.2.2.2.2.2.2.2.2.2.2.2.2.2.2.2.2.2.2.1, t.2.2.2.2.2.2.2.2.2.2.2.2.2.2.2.2.2.2.2.2.2.2.2.1, t.2.2.2.2.2.2.2.2.2.2.2.2.2.2.2.2.2.2.2.2.2.2.2.2.1, t.2.2.2.2.2.2.2.2.2.2.2.2.2.2.2.2.2.2.2.2.2.2.2.2.2.1, t.2.2.2.2.2.2.2.2.2.2.2.2.2.2.2.2.2.2.2.2.2.2.2.2.2.2.1, t.2.2.2.2.2.2.2.2.2.2.2.2.2.2.2.2.2.2.2.2.2.2.2.2.2.2.2.1, t.2.2.2.2.2.2.2.2.2.2.2.2.2.2.2.2.2.2.2.2.2.2.2.2.2.2.2.2.1, t.2.2.2.2.2.2.2.2.2.2.2.2.2.2.2.2.2.2.2.2.2.2.2.2.2.2.2.2.2.1, t.2.2.2.2.2.2.2.2.2.2.2.2.2.2.2.2.2.2.2.2.2.2.2.2.2.2.2.2.2.2.1, t.2.2.2.2.2.2.2.2.2.2.2.2.2.2.2.2.2.2.2.2.2.2.2.2.2.2.2.2.2.2.2.1, t.2.2.2.2.2.2.2.2.2.2.2.2.2.2.2.2.2.2.2.2.2.2.2.2.2.2.2.2.2.2.2.2.1, t.2.2.2.2.2.2.2.2.2.2.2.2.2.2.2.2.2.2.2.2.2.2.2.2.2.2.2.2.2.2.2.2.2]

/-! ### `Aria128::new` -/

def kl128 (key : BitVec 128) : BitVec 128 := ((key.extractLsb' 120 8) ++ (key.extractLsb' 112 8) ++ (key.extractLsb' 104 8) ++ (key.extractLsb' 96 8) ++ (key.extractLsb' 88 8) ++ (key.extractLsb' 80 8) ++ (key.extractLsb' 72 8) ++ (key.extractLsb' 64 8) ++ (key.extractLsb' 56 8) ++ (key.extractLsb' 48 8) ++ (key.extractLsb' 40 8) ++ (key.extractLsb' 32 8) ++ (key.extractLsb' 24 8) ++ (key.extractLsb' 16 8) ++ (key.extractLsb' 8 8) ++ (key.extractLsb' 0 8))
theorem kl128_eq (key : BitVec 128) : kl128 key = key := by
  unfold kl128; bv_decide
/-- `aria128_new` written with `gfo`, `gfe`, `ga` -/
def ks128 (key : BitVec 128) : BitVec 128 × BitVec 128 × BitVec 128 × BitVec 128 × BitVec 128 × BitVec 128 × BitVec 128 × BitVec 128 × BitVec 128 × BitVec 128 × BitVec 128 × BitVec 128 × BitVec 128 × BitVec 128 × BitVec 128 × BitVec 128 × BitVec 128 × BitVec 128 × BitVec 128 × BitVec 128 × BitVec 128 × BitVec 128 × BitVec 128 × BitVec 128 × BitVec 128 × BitVec 128 :=
  let kl := kl128 key
  let kr := 0x0#128
  let w1 := gfo (kl ^^^ BC.Aria.C1) ^^^ kr
  let w2 := gfe (w1 ^^^ BC.Aria.C2) ^^^ kl
  let w3 := gfo (w2 ^^^ BC.Aria.C3) ^^^ w1
  (kl ^^^ (w1.rotateRight 19), w1 ^^^ (w2.rotateRight 19), w2 ^^^ (w3.rotateRight 19), w3 ^^^ (kl.rotateRight 19), kl ^^^ (w1.rotateRight 31), w1 ^^^ (w2.rotateRight 31), w2 ^^^ (w3.rotateRight 31), w3 ^^^ (kl.rotateRight 31), kl ^^^ (w1.rotateLeft 61), w1 ^^^ (w2.rotateLeft 61), w2 ^^^ (w3.rotateLeft 61), w3 ^^^ (kl.rotateLeft 61), kl ^^^ (w1.rotateLeft 31), kl ^^^ (w1.rotateLeft 31), ga (w3 ^^^ (kl.rotateLeft 61)), ga (w2 ^^^ (w3.rotateLeft 61)), ga (w1 ^^^ (w2.rotateLeft 61)), ga (kl ^^^ (w1.rotateLeft 61)), ga (w3 ^^^ (kl.rotateRight 31)), ga (w2 ^^^ (w3.rotateRight 31)), ga (w1 ^^^ (w2.rotateRight 31)), ga (kl ^^^ (w1.rotateRight 31)), ga (w3 ^^^ (kl.rotateRight 19)), ga (w2 ^^^ (w3.rotateRight 19)), ga (w1 ^^^ (w2.rotateRight 19)), kl ^^^ (w1.rotateRight 19))

/-- the generated text IS that composition -/
theorem aria128_new_struct (key : BitVec 128) : aria128_new key = ks128 key := rfl

/-- aria128.rs `new` = the model's `new128`, all keys: fields `ek[0..13]`, `dk[0..13]` -/
theorem aria128_new_eq (key : BitVec 128) : aria128_new key = t26 (BC.Aria.new128 key) := by
  rw [aria128_new_struct]
  simp only [ks128, gfo_eq, gfe_eq, ga_eq, kl128_eq]
  rfl

/-- list form: the 26 fields are exactly `ek ++ dk` of the model -/
theorem aria128_new_list (key : BitVec 128) :
    l26 (aria128_new key) = (BC.Aria.new128 key).ek.toList ++ (BC.Aria.new128 key).dk.toList := by
  rw [aria128_new_eq]
  rfl


/-! ### `Aria192::new` -/

def kl192 (key : BitVec 192) : BitVec 128 := ((key.extractLsb' 184 8) ++ (key.extractLsb' 176 8) ++ (key.extractLsb' 168 8) ++ (key.extractLsb' 160 8) ++ (key.extractLsb' 152 8) ++ (key.extractLsb' 144 8) ++ (key.extractLsb' 136 8) ++ (key.extractLsb' 128 8) ++ (key.extractLsb' 120 8) ++ (key.extractLsb' 112 8) ++ (key.extractLsb' 104 8) ++ (key.extractLsb' 96 8) ++ (key.extractLsb' 88 8) ++ (key.extractLsb' 80 8) ++ (key.extractLsb' 72 8) ++ (key.extractLsb' 64 8))
def kr192 (key : BitVec 192) : BitVec 64 := ((key.extractLsb' 56 8) ++ (key.extractLsb' 48 8) ++ (key.extractLsb' 40 8) ++ (key.extractLsb' 32 8) ++ (key.extractLsb' 24 8) ++ (key.extractLsb' 16 8) ++ (key.extractLsb' 8 8) ++ (key.extractLsb' 0 8))
theorem kl192_eq (key : BitVec 192) : kl192 key = key.extractLsb' 64 128 := by
  unfold kl192; bv_decide
theorem kr192_eq (key : BitVec 192) : kr192 key = key.extractLsb' 0 64 := by
  unfold kr192; bv_decide
/-- `aria192_new` written with `gfo`, `gfe`, `ga` -/
def ks192 (key : BitVec 192) : BitVec 128 × BitVec 128 × BitVec 128 × BitVec 128 × BitVec 128 × BitVec 128 × BitVec 128 × BitVec 128 × BitVec 128 × BitVec 128 × BitVec 128 × BitVec 128 × BitVec 128 × BitVec 128 × BitVec 128 × BitVec 128 × BitVec 128 × BitVec 128 × BitVec 128 × BitVec 128 × BitVec 128 × BitVec 128 × BitVec 128 × BitVec 128 × BitVec 128 × BitVec 128 × BitVec 128 × BitVec 128 × BitVec 128 × BitVec 128 :=
  let kl := kl192 key
  let kr := ((kr192 key).setWidth 128) <<< 64
  let w1 := gfo (kl ^^^ BC.Aria.C2) ^^^ kr
  let w2 := gfe (w1 ^^^ BC.Aria.C3) ^^^ kl
  let w3 := gfo (w2 ^^^ BC.Aria.C1) ^^^ w1
  (kl ^^^ (w1.rotateRight 19), w1 ^^^ (w2.rotateRight 19), w2 ^^^ (w3.rotateRight 19), w3 ^^^ (kl.rotateRight 19), kl ^^^ (w1.rotateRight 31), w1 ^^^ (w2.rotateRight 31), w2 ^^^ (w3.rotateRight 31), w3 ^^^ (kl.rotateRight 31), kl ^^^ (w1.rotateLeft 61), w1 ^^^ (w2.rotateLeft 61), w2 ^^^ (w3.rotateLeft 61), w3 ^^^ (kl.rotateLeft 61), kl ^^^ (w1.rotateLeft 31), w1 ^^^ (w2.rotateLeft 31), w2 ^^^ (w3.rotateLeft 31), w2 ^^^ (w3.rotateLeft 31), ga (w1 ^^^ (w2.rotateLeft 31)), ga (kl ^^^ (w1.rotateLeft 31)), ga (w3 ^^^ (kl.rotateLeft 61)), ga (w2 ^^^ (w3.rotateLeft 61)), ga (w1 ^^^ (w2.rotateLeft 61)), ga (kl ^^^ (w1.rotateLeft 61)), ga (w3 ^^^ (kl.rotateRight 31)), ga (w2 ^^^ (w3.rotateRight 31)), ga (w1 ^^^ (w2.rotateRight 31)), ga (kl ^^^ (w1.rotateRight 31)), ga (w3 ^^^ (kl.rotateRight 19)), ga (w2 ^^^ (w3.rotateRight 19)), ga (w1 ^^^ (w2.rotateRight 19)), kl ^^^ (w1.rotateRight 19))

/-- the generated text IS that composition -/
theorem aria192_new_struct (key : BitVec 192) : aria192_new key = ks192 key := rfl

/-- aria192.rs `new` = the model's `new192`, all keys: fields `ek[0..15]`, `dk[0..15]` -/
theorem aria192_new_eq (key : BitVec 192) : aria192_new key = t30 (BC.Aria.new192 key) := by
  rw [aria192_new_struct]
  simp only [ks192, gfo_eq, gfe_eq, ga_eq, kl192_eq, kr192_eq]
  rfl

/-- list form: the 30 fields are exactly `ek ++ dk` of the model -/
theorem aria192_new_list (key : BitVec 192) :
    l30 (aria192_new key) = (BC.Aria.new192 key).ek.toList ++ (BC.Aria.new192 key).dk.toList := by
  rw [aria192_new_eq]
  rfl


/-! ### `Aria256::new` -/

def kl256 (key : BitVec 256) : BitVec 128 := ((key.extractLsb' 248 8) ++ (key.extractLsb' 240 8) ++ (key.extractLsb' 232 8) ++ (key.extractLsb' 224 8) ++ (key.extractLsb' 216 8) ++ (key.extractLsb' 208 8) ++ (key.extractLsb' 200 8) ++ (key.extractLsb' 192 8) ++ (key.extractLsb' 184 8) ++ (key.extractLsb' 176 8) ++ (key.extractLsb' 168 8) ++ (key.extractLsb' 160 8) ++ (key.extractLsb' 152 8) ++ (key.extractLsb' 144 8) ++ (key.extractLsb' 136 8) ++ (key.extractLsb' 128 8))
def kr256 (key : BitVec 256) : BitVec 128 := ((key.extractLsb' 120 8) ++ (key.extractLsb' 112 8) ++ (key.extractLsb' 104 8) ++ (key.extractLsb' 96 8) ++ (key.extractLsb' 88 8) ++ (key.extractLsb' 80 8) ++ (key.extractLsb' 72 8) ++ (key.extractLsb' 64 8) ++ (key.extractLsb' 56 8) ++ (key.extractLsb' 48 8) ++ (key.extractLsb' 40 8) ++ (key.extractLsb' 32 8) ++ (key.extractLsb' 24 8) ++ (key.extractLsb' 16 8) ++ (key.extractLsb' 8 8) ++ (key.extractLsb' 0 8))
theorem kl256_eq (key : BitVec 256) : kl256 key = key.extractLsb' 128 128 := by
  unfold kl256; bv_decide
theorem kr256_eq (key : BitVec 256) : kr256 key = key.extractLsb' 0 128 := by
  unfold kr256; bv_decide
/-- `aria256_new` written with `gfo`, `gfe`, `ga` -/
def ks256 (key : BitVec 256) : BitVec 128 × BitVec 128 × BitVec 128 × BitVec 128 × BitVec 128 × BitVec 128 × BitVec 128 × BitVec 128 × BitVec 128 × BitVec 128 × BitVec 128 × BitVec 128 × BitVec 128 × BitVec 128 × BitVec 128 × BitVec 128 × BitVec 128 × BitVec 128 × BitVec 128 × BitVec 128 × BitVec 128 × BitVec 128 × BitVec 128 × BitVec 128 × BitVec 128 × BitVec 128 × BitVec 128 × BitVec 128 × BitVec 128 × BitVec 128 × BitVec 128 × BitVec 128 × BitVec 128 × BitVec 128 :=
  let kl := kl256 key
  let kr := kr256 key
  let w1 := gfo (kl ^^^ BC.Aria.C3) ^^^ kr
  let w2 := gfe (w1 ^^^ BC.Aria.C1) ^^^ kl
  let w3 := gfo (w2 ^^^ BC.Aria.C2) ^^^ w1
  (kl ^^^ (w1.rotateRight 19), w1 ^^^ (w2.rotateRight 19), w2 ^^^ (w3.rotateRight 19), w3 ^^^ (kl.rotateRight 19), kl ^^^ (w1.rotateRight 31), w1 ^^^ (w2.rotateRight 31), w2 ^^^ (w3.rotateRight 31), w3 ^^^ (kl.rotateRight 31), kl ^^^ (w1.rotateLeft 61), w1 ^^^ (w2.rotateLeft 61), w2 ^^^ (w3.rotateLeft 61), w3 ^^^ (kl.rotateLeft 61), kl ^^^ (w1.rotateLeft 31), w1 ^^^ (w2.rotateLeft 31), w2 ^^^ (w3.rotateLeft 31), w3 ^^^ (kl.rotateLeft 31), kl ^^^ (w1.rotateLeft 19), kl ^^^ (w1.rotateLeft 19), ga (w3 ^^^ (kl.rotateLeft 31)), ga (w2 ^^^ (w3.rotateLeft 31)), ga (w1 ^^^ (w2.rotateLeft 31)), ga (kl ^^^ (w1.rotateLeft 31)), ga (w3 ^^^ (kl.rotateLeft 61)), ga (w2 ^^^ (w3.rotateLeft 61)), ga (w1 ^^^ (w2.rotateLeft 61)), ga (kl ^^^ (w1.rotateLeft 61)), ga (w3 ^^^ (kl.rotateRight 31)), ga (w2 ^^^ (w3.rotateRight 31)), ga (w1 ^^^ (w2.rotateRight 31)), ga (kl ^^^ (w1.rotateRight 31)), ga (w3 ^^^ (kl.rotateRight 19)), ga (w2 ^^^ (w3.rotateRight 19)), ga (w1 ^^^ (w2.rotateRight 19)), kl ^^^ (w1.rotateRight 19))

/-- the generated text IS that composition -/
theorem aria256_new_struct (key : BitVec 256) : aria256_new key = ks256 key := rfl

/-- aria256.rs `new` = the model's `new256`, all keys: fields `ek[0..17]`, `dk[0..17]` -/
theorem aria256_new_eq (key : BitVec 256) : aria256_new key = t34 (BC.Aria.new256 key) := by
  rw [aria256_new_struct]
  simp only [ks256, gfo_eq, gfe_eq, ga_eq, kl256_eq, kr256_eq]
  rfl

/-- list form: the 34 fields are exactly `ek ++ dk` of the model -/
theorem aria256_new_list (key : BitVec 256) :
    l34 (aria256_new key) = (BC.Aria.new256 key).ek.toList ++ (BC.Aria.new256 key).dk.toList := by
  rw [aria256_new_eq]
  rfl

end BC.GenKeys.Aria