import Std.Tactic.BVDecide
import BlockCiphers.Spec.Aes
import BlockCiphers.Proofs.AesSboxInv
/-
FIPS-197 at the specification level (`Spec/Aes.lean`): byte-wise view of the state, the four layer
inverses, linearity of (Inv)MixColumns, SubBytes/ShiftRows commute, and

  `invCipher_cipher : invCipher nr w (cipher nr w b) = b`,  `cipher_invCipher : cipher nr w (invCipher nr w b) = b`

for every number of rounds `nr`, every expanded key `w` (any array of words) and every block — C01 for
AES at the specification level.
-/
namespace BC.Spec.Aes

theorem range16 : List.range 16 = [0,1,2,3,4,5,6,7,8,9,10,11,12,13,14,15] := by decide

/-- `ofFn` written out -/
theorem ofFn_eq (f : Nat → BitVec 8) : ofFn f =
    ((f 0).setWidth 128 <<< 120) ||| ((f 1).setWidth 128 <<< 112) ||| ((f 2).setWidth 128 <<< 104) |||
    ((f 3).setWidth 128 <<< 96) ||| ((f 4).setWidth 128 <<< 88) ||| ((f 5).setWidth 128 <<< 80) |||
    ((f 6).setWidth 128 <<< 72) ||| ((f 7).setWidth 128 <<< 64) ||| ((f 8).setWidth 128 <<< 56) |||
    ((f 9).setWidth 128 <<< 48) ||| ((f 10).setWidth 128 <<< 40) ||| ((f 11).setWidth 128 <<< 32) |||
    ((f 12).setWidth 128 <<< 24) ||| ((f 13).setWidth 128 <<< 16) ||| ((f 14).setWidth 128 <<< 8) |||
    (f 15).setWidth 128 := by
  simp only [ofFn, range16, List.foldl_cons, List.foldl_nil]
  generalize f 0 = a0; generalize f 1 = a1; generalize f 2 = a2; generalize f 3 = a3
  generalize f 4 = a4; generalize f 5 = a5; generalize f 6 = a6; generalize f 7 = a7
  generalize f 8 = a8; generalize f 9 = a9; generalize f 10 = a10; generalize f 11 = a11
  generalize f 12 = a12; generalize f 13 = a13; generalize f 14 = a14; generalize f 15 = a15
  bv_decide (config := { timeout := 600 })

theorem getB_ofFn (f : Nat → BitVec 8) (i : Nat) (hi : i < 16) : getB (ofFn f) i = f i := by
  have h : i = 0 ∨ i = 1 ∨ i = 2 ∨ i = 3 ∨ i = 4 ∨ i = 5 ∨ i = 6 ∨ i = 7 ∨ i = 8 ∨ i = 9 ∨ i = 10 ∨
      i = 11 ∨ i = 12 ∨ i = 13 ∨ i = 14 ∨ i = 15 := by omega
  rw [ofFn_eq]
  rcases h with h|h|h|h|h|h|h|h|h|h|h|h|h|h|h|h <;> subst h <;> simp only [getB] <;>
  (generalize f 0 = a0; generalize f 1 = a1; generalize f 2 = a2; generalize f 3 = a3
   generalize f 4 = a4; generalize f 5 = a5; generalize f 6 = a6; generalize f 7 = a7
   generalize f 8 = a8; generalize f 9 = a9; generalize f 10 = a10; generalize f 11 = a11
   generalize f 12 = a12; generalize f 13 = a13; generalize f 14 = a14; generalize f 15 = a15
   bv_decide (config := { timeout := 600 }))

theorem ofFn_getB (s : BitVec 128) : ofFn (getB s) = s := by
  rw [ofFn_eq]; simp only [getB]; bv_decide (config := { timeout := 600 })

theorem ofFn_congr {f g : Nat → BitVec 8} (h : ∀ i, i < 16 → f i = g i) : ofFn f = ofFn g := by
  rw [ofFn_eq, ofFn_eq]
  rw [h 0 (by omega), h 1 (by omega), h 2 (by omega), h 3 (by omega), h 4 (by omega), h 5 (by omega),
    h 6 (by omega), h 7 (by omega), h 8 (by omega), h 9 (by omega), h 10 (by omega), h 11 (by omega),
    h 12 (by omega), h 13 (by omega), h 14 (by omega), h 15 (by omega)]

theorem ext_getB {s t : BitVec 128} (h : ∀ i, i < 16 → getB s i = getB t i) : s = t := by
  rw [← ofFn_getB s, ← ofFn_getB t]; exact ofFn_congr h


/-! ### GF(2^8) constant multiplications in closed form (all 256 inputs, kernel) -/

theorem gmul_02 (x : BitVec 8) : gmul 0x02#8 x = xtime x :=
  forall_bv8 (P := fun x => gmul 0x02#8 x = xtime x) (by decide +kernel) x
theorem gmul_03 (x : BitVec 8) : gmul 0x03#8 x = xtime x ^^^ x :=
  forall_bv8 (P := fun x => gmul 0x03#8 x = xtime x ^^^ x) (by decide +kernel) x
theorem gmul_09 (x : BitVec 8) : gmul 0x09#8 x = xtime (xtime (xtime x)) ^^^ x :=
  forall_bv8 (P := fun x => gmul 0x09#8 x = xtime (xtime (xtime x)) ^^^ x) (by decide +kernel) x
theorem gmul_0b (x : BitVec 8) : gmul 0x0b#8 x = xtime (xtime (xtime x)) ^^^ xtime x ^^^ x :=
  forall_bv8 (P := fun x => gmul 0x0b#8 x = xtime (xtime (xtime x)) ^^^ xtime x ^^^ x) (by decide +kernel) x
theorem gmul_0d (x : BitVec 8) : gmul 0x0d#8 x = xtime (xtime (xtime x)) ^^^ xtime (xtime x) ^^^ x :=
  forall_bv8 (P := fun x => gmul 0x0d#8 x = xtime (xtime (xtime x)) ^^^ xtime (xtime x) ^^^ x) (by decide +kernel) x
theorem gmul_0e (x : BitVec 8) : gmul 0x0e#8 x = xtime (xtime (xtime x)) ^^^ xtime (xtime x) ^^^ xtime x :=
  forall_bv8 (P := fun x => gmul 0x0e#8 x = xtime (xtime (xtime x)) ^^^ xtime (xtime x) ^^^ xtime x) (by decide +kernel) x


theorem xtime_xor (a b : BitVec 8) : xtime (a ^^^ b) = xtime a ^^^ xtime b := by
  unfold xtime; bv_decide (config := { timeout := 600 })

theorem lt16_cases {i : Nat} (hi : i < 16) : i = 0 ∨ i = 1 ∨ i = 2 ∨ i = 3 ∨ i = 4 ∨ i = 5 ∨ i = 6 ∨ i = 7 ∨
    i = 8 ∨ i = 9 ∨ i = 10 ∨ i = 11 ∨ i = 12 ∨ i = 13 ∨ i = 14 ∨ i = 15 := by omega

/-- prove a statement about byte `i < 16` of a state by the 16 cases -/
macro "bytes16 " hi:ident : tactic =>
  `(tactic| (rcases lt16_cases $hi with h|h|h|h|h|h|h|h|h|h|h|h|h|h|h|h <;> subst h))


/-- one output byte of MixColumns from the column bytes, starting at the output row -/
def mcB (a b c d : BitVec 8) : BitVec 8 := gmul 0x02#8 a ^^^ gmul 0x03#8 b ^^^ c ^^^ d
/-- one output byte of InvMixColumns -/
def imcB (a b c d : BitVec 8) : BitVec 8 := gmul 0x0e#8 a ^^^ gmul 0x0b#8 b ^^^ gmul 0x0d#8 c ^^^ gmul 0x09#8 d

theorem getB_mixColumns (s : BitVec 128) (i : Nat) (hi : i < 16) :
    getB (mixColumns s) i =
      mcB (getB s (i % 4 + 4 * (i / 4))) (getB s ((i % 4 + 1) % 4 + 4 * (i / 4)))
        (getB s ((i % 4 + 2) % 4 + 4 * (i / 4))) (getB s ((i % 4 + 3) % 4 + 4 * (i / 4))) := by
  simp only [mixColumns, mcB, getB_ofFn _ i hi, Nat.add_zero, Nat.mod_mod]

theorem getB_invMixColumns (s : BitVec 128) (i : Nat) (hi : i < 16) :
    getB (invMixColumns s) i =
      imcB (getB s (i % 4 + 4 * (i / 4))) (getB s ((i % 4 + 1) % 4 + 4 * (i / 4)))
        (getB s ((i % 4 + 2) % 4 + 4 * (i / 4))) (getB s ((i % 4 + 3) % 4 + 4 * (i / 4))) := by
  simp only [invMixColumns, imcB, getB_ofFn _ i hi, Nat.add_zero, Nat.mod_mod]

theorem imcB_mcB (a b c d : BitVec 8) : imcB (mcB a b c d) (mcB b c d a) (mcB c d a b) (mcB d a b c) = a := by
  simp only [imcB, mcB, gmul_02, gmul_03, gmul_09, gmul_0b, gmul_0d, gmul_0e, xtime_xor]
  bv_decide (config := { timeout := 600 })

theorem mcB_imcB (a b c d : BitVec 8) : mcB (imcB a b c d) (imcB b c d a) (imcB c d a b) (imcB d a b c) = a := by
  simp only [imcB, mcB, gmul_02, gmul_03, gmul_09, gmul_0b, gmul_0d, gmul_0e, xtime_xor]
  bv_decide (config := { timeout := 600 })

theorem invMixColumns_mixColumns (s : BitVec 128) : invMixColumns (mixColumns s) = s := by
  apply ext_getB; intro i hi
  rw [getB_invMixColumns _ i hi]
  bytes16 hi <;>
  simp (disch := omega) only [Nat.reduceMod, Nat.reduceDiv, Nat.reduceAdd, Nat.reduceMul, getB_mixColumns] <;>
  exact imcB_mcB _ _ _ _

theorem mixColumns_invMixColumns (s : BitVec 128) : mixColumns (invMixColumns s) = s := by
  apply ext_getB; intro i hi
  rw [getB_mixColumns _ i hi]
  bytes16 hi <;>
  simp (disch := omega) only [Nat.reduceMod, Nat.reduceDiv, Nat.reduceAdd, Nat.reduceMul, getB_invMixColumns] <;>
  exact mcB_imcB _ _ _ _


/-! ### MixColumns / InvMixColumns are linear -/

theorem mcB_xor (a b c d a' b' c' d' : BitVec 8) :
    mcB (a ^^^ a') (b ^^^ b') (c ^^^ c') (d ^^^ d') = mcB a b c d ^^^ mcB a' b' c' d' := by
  simp only [mcB, gmul_02, gmul_03, xtime_xor]; bv_decide (config := { timeout := 600 })

theorem imcB_xor (a b c d a' b' c' d' : BitVec 8) :
    imcB (a ^^^ a') (b ^^^ b') (c ^^^ c') (d ^^^ d') = imcB a b c d ^^^ imcB a' b' c' d' := by
  simp only [imcB, gmul_09, gmul_0b, gmul_0d, gmul_0e, xtime_xor]; bv_decide (config := { timeout := 600 })

theorem getB_xor (s t : BitVec 128) (i : Nat) : getB (s ^^^ t) i = getB s i ^^^ getB t i := by
  simp only [getB, BitVec.ushiftRight_xor_distrib, BitVec.setWidth_xor]

theorem mixColumns_xor (s t : BitVec 128) : mixColumns (s ^^^ t) = mixColumns s ^^^ mixColumns t := by
  apply ext_getB; intro i hi
  simp only [getB_xor, getB_mixColumns _ i hi, mcB_xor]

theorem invMixColumns_xor (s t : BitVec 128) : invMixColumns (s ^^^ t) = invMixColumns s ^^^ invMixColumns t := by
  apply ext_getB; intro i hi
  simp only [getB_xor, getB_invMixColumns _ i hi, imcB_xor]

/-! ### SubBytes, ShiftRows -/

theorem getB_subBytes (s : BitVec 128) (i : Nat) (hi : i < 16) : getB (subBytes s) i = sboxT (getB s i) := by
  simp only [subBytes, getB_ofFn _ i hi]
theorem getB_invSubBytes (s : BitVec 128) (i : Nat) (hi : i < 16) : getB (invSubBytes s) i = invSboxT (getB s i) := by
  simp only [invSubBytes, getB_ofFn _ i hi]
theorem getB_shiftRows (s : BitVec 128) (i : Nat) (hi : i < 16) :
    getB (shiftRows s) i = getB s (i % 4 + 4 * ((i / 4 + i % 4) % 4)) := by
  simp only [shiftRows, getB_ofFn _ i hi]
theorem getB_invShiftRows (s : BitVec 128) (i : Nat) (hi : i < 16) :
    getB (invShiftRows s) i = getB s (i % 4 + 4 * ((i / 4 + 4 - i % 4) % 4)) := by
  simp only [invShiftRows, getB_ofFn _ i hi]

theorem invSubBytes_subBytes (s : BitVec 128) : invSubBytes (subBytes s) = s := by
  apply ext_getB; intro i hi
  rw [getB_invSubBytes _ i hi, getB_subBytes _ i hi, invSboxT_sboxT]

theorem subBytes_invSubBytes (s : BitVec 128) : subBytes (invSubBytes s) = s := by
  apply ext_getB; intro i hi
  rw [getB_subBytes _ i hi, getB_invSubBytes _ i hi, sboxT_invSboxT]

theorem invShiftRows_shiftRows (s : BitVec 128) : invShiftRows (shiftRows s) = s := by
  apply ext_getB; intro i hi
  rw [getB_invShiftRows _ i hi, getB_shiftRows _ _ (by omega)]
  congr 1; omega

theorem shiftRows_invShiftRows (s : BitVec 128) : shiftRows (invShiftRows s) = s := by
  apply ext_getB; intro i hi
  rw [getB_shiftRows _ i hi, getB_invShiftRows _ _ (by omega)]
  congr 1; omega

/-- SubBytes is bytewise and ShiftRows moves bytes: they commute (FIPS-197 §5.3.5, property 1) -/
theorem subBytes_shiftRows (s : BitVec 128) : subBytes (shiftRows s) = shiftRows (subBytes s) := by
  apply ext_getB; intro i hi
  rw [getB_subBytes _ i hi, getB_shiftRows _ i hi, getB_shiftRows _ i hi, getB_subBytes _ _ (by omega)]

theorem invSubBytes_invShiftRows (s : BitVec 128) : invSubBytes (invShiftRows s) = invShiftRows (invSubBytes s) := by
  apply ext_getB; intro i hi
  rw [getB_invSubBytes _ i hi, getB_invShiftRows _ i hi, getB_invShiftRows _ i hi, getB_invSubBytes _ _ (by omega)]

theorem addRoundKey_addRoundKey (s k : BitVec 128) : addRoundKey (addRoundKey s k) k = s := by
  simp only [addRoundKey]; bv_decide (config := { timeout := 600 })

/-! ### Cipher / InvCipher are mutually inverse for every round count and every key schedule -/

/-- a middle round of `cipher` with round key `k` -/
def encRound (k s : BitVec 128) : BitVec 128 := addRoundKey (mixColumns (shiftRows (subBytes s))) k
/-- a middle round of `invCipher` with round key `k` -/
def decRound (k s : BitVec 128) : BitVec 128 := invMixColumns (addRoundKey (invSubBytes (invShiftRows s)) k)

theorem decRound_encRound (k s : BitVec 128) :
    decRound k (shiftRows (subBytes (encRound k s))) = shiftRows (subBytes s) := by
  simp only [decRound, encRound, invShiftRows_shiftRows, invSubBytes_subBytes, addRoundKey_addRoundKey,
    invMixColumns_mixColumns]

theorem encRound_decRound (k s : BitVec 128) :
    encRound k (invSubBytes (invShiftRows (decRound k s))) = invSubBytes (invShiftRows s) := by
  simp only [decRound, encRound, shiftRows_invShiftRows, subBytes_invSubBytes, addRoundKey_addRoundKey,
    mixColumns_invMixColumns]

/-- running `n` rounds `E 1 … E n` and then `D n … D 1` where `D k` undoes `E k` up to a fixed
re-coding `T` of the state -/
theorem fold_undo {α : Type} (E D : Nat → α → α) (T : α → α)
    (h : ∀ k s, D k (T (E k s)) = T s) (n : Nat) (s : α) :
    (List.range n).foldl (fun s r => D (n - r) s) (T ((List.range n).foldl (fun s r => E (r + 1) s) s)) = T s := by
  induction n generalizing s with
  | zero => rfl
  | succ n ih =>
    have inner : (List.range (n + 1)).foldl (fun s r => E (r + 1) s) s
        = E (n + 1) ((List.range n).foldl (fun s r => E (r + 1) s) s) := by
      rw [List.range_succ, List.foldl_append, List.foldl_cons, List.foldl_nil]
    have outer : ∀ x, (List.range (n + 1)).foldl (fun s r => D (n + 1 - r) s) x
        = (List.range n).foldl (fun s r => D (n - r) s) (D (n + 1) x) := by
      intro x
      rw [List.range_succ_eq_map, List.foldl_cons, List.foldl_map]
      simp only [Nat.sub_zero, Nat.succ_eq_add_one, Nat.add_sub_add_right]
    rw [inner, outer, h, ih]

/-- the other order: `D n … D 1` first, then `E 1 … E n` -/
theorem fold_redo {α : Type} (E D : Nat → α → α) (T : α → α)
    (h : ∀ k s, E k (T (D k s)) = T s) (n : Nat) (s : α) :
    (List.range n).foldl (fun s r => E (r + 1) s) (T ((List.range n).foldl (fun s r => D (n - r) s) s)) = T s := by
  induction n generalizing s with
  | zero => rfl
  | succ n ih =>
    have inner : ∀ x, (List.range (n + 1)).foldl (fun s r => E (r + 1) s) x
        = E (n + 1) ((List.range n).foldl (fun s r => E (r + 1) s) x) := by
      intro x
      rw [List.range_succ, List.foldl_append, List.foldl_cons, List.foldl_nil]
    have outer : (List.range (n + 1)).foldl (fun s r => D (n + 1 - r) s) s
        = (List.range n).foldl (fun s r => D (n - r) s) (D (n + 1) s) := by
      rw [List.range_succ_eq_map, List.foldl_cons, List.foldl_map]
      simp only [Nat.sub_zero, Nat.succ_eq_add_one, Nat.add_sub_add_right]
    rw [inner, outer, ih, h]

theorem cipher_eq (nr : Nat) (w : Array (BitVec 32)) (b : BitVec 128) :
    cipher nr w b = addRoundKey (shiftRows (subBytes
      ((List.range (nr - 1)).foldl (fun s r => encRound (roundKey w (r + 1)) s) (addRoundKey b (roundKey w 0)))))
      (roundKey w nr) := rfl

theorem invCipher_eq (nr : Nat) (w : Array (BitVec 32)) (b : BitVec 128) :
    invCipher nr w b = addRoundKey (invSubBytes (invShiftRows
      ((List.range (nr - 1)).foldl (fun s r => decRound (roundKey w (nr - 1 - r)) s) (addRoundKey b (roundKey w nr)))))
      (roundKey w 0) := rfl

/-- **C01 (specification level)**: InvCipher undoes Cipher — all round counts, all key schedules, all blocks -/
theorem invCipher_cipher (nr : Nat) (w : Array (BitVec 32)) (b : BitVec 128) :
    invCipher nr w (cipher nr w b) = b := by
  rw [invCipher_eq, cipher_eq, addRoundKey_addRoundKey]
  have h := fold_undo (fun k s => encRound (roundKey w k) s) (fun k s => decRound (roundKey w k) s)
    (fun s => shiftRows (subBytes s)) (fun k s => decRound_encRound _ s) (nr - 1) (addRoundKey b (roundKey w 0))
  rw [h, invShiftRows_shiftRows, invSubBytes_subBytes, addRoundKey_addRoundKey]

theorem cipher_invCipher (nr : Nat) (w : Array (BitVec 32)) (b : BitVec 128) :
    cipher nr w (invCipher nr w b) = b := by
  rw [invCipher_eq, cipher_eq, addRoundKey_addRoundKey]
  have h := fold_redo (fun k s => encRound (roundKey w k) s) (fun k s => decRound (roundKey w k) s)
    (fun s => invSubBytes (invShiftRows s)) (fun k s => encRound_decRound _ s) (nr - 1) (addRoundKey b (roundKey w nr))
  rw [h, subBytes_invSubBytes, shiftRows_invShiftRows, addRoundKey_addRoundKey]

/-- for the three standard key sizes (any key byte string) -/
theorem decrypt_encrypt (key : Bytes) (b : BitVec 128) : decrypt key (encrypt key b) = b :=
  invCipher_cipher _ _ b
theorem encrypt_decrypt (key : Bytes) (b : BitVec 128) : encrypt key (decrypt key b) = b :=
  cipher_invCipher _ _ b

end BC.Spec.Aes
