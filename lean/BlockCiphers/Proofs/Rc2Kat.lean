import BlockCiphers.Proofs.Rc2Spec
/-
RFC 2268 §5 test vectors, evaluated by the Lean kernel (`decide +kernel`) through the specification
`Spec.Rc2.encrypt`, and transported to the model of the crate with the conformance theorems.
(/repo/rc2/tests/data/{1..8} are these eight vectors.)
-/
namespace BC.Rc2
open BC.Spec.Rc2


section Vectors

def key88 : Bytes := [0x88#8, 0xbc#8, 0xa9#8, 0x0e#8, 0x90#8, 0x87#8, 0x5a#8, 0x7f#8,
  0x0f#8, 0x79#8, 0xc3#8, 0x84#8, 0x62#8, 0x7b#8, 0xaf#8, 0xb2#8]
def key33 : Bytes := key88 ++ [0x16#8, 0xf8#8, 0x0a#8, 0x6f#8, 0x85#8, 0x92#8, 0x05#8, 0x84#8,
  0xc4#8, 0x2f#8, 0xce#8, 0xb0#8, 0xbe#8, 0x25#8, 0x5d#8, 0xaf#8, 0x1e#8]
def zero8 : Bytes := List.replicate 8 0#8
def ones8 : Bytes := List.replicate 8 0xff#8

/-- key length 8, effective 63 bits, key 00…00, plaintext 00…00 → ebb773f9 93278eff -/
theorem rfc_vector1 : BC.Spec.Rc2.encrypt zero8 63 zero8
    = [0xeb#8, 0xb7#8, 0x73#8, 0xf9#8, 0x93#8, 0x27#8, 0x8e#8, 0xff#8] := by decide +kernel
/-- key length 8, effective 64 bits, key ff…ff, plaintext ff…ff → 278b27e4 2e2f0d49 -/
theorem rfc_vector2 : BC.Spec.Rc2.encrypt ones8 64 ones8
    = [0x27#8, 0x8b#8, 0x27#8, 0xe4#8, 0x2e#8, 0x2f#8, 0x0d#8, 0x49#8] := by decide +kernel
/-- key 30000000 00000000, effective 64, plaintext 10000000 00000001 → 30649edf 9be7d2c2 -/
theorem rfc_vector3 : BC.Spec.Rc2.encrypt [0x30#8, 0#8, 0#8, 0#8, 0#8, 0#8, 0#8, 0#8] 64
      [0x10#8, 0#8, 0#8, 0#8, 0#8, 0#8, 0#8, 0x01#8]
    = [0x30#8, 0x64#8, 0x9e#8, 0xdf#8, 0x9b#8, 0xe7#8, 0xd2#8, 0xc2#8] := by decide +kernel
/-- key 88 (1 byte), effective 64 → 61a8a244 adacccf0 -/
theorem rfc_vector4 : BC.Spec.Rc2.encrypt [0x88#8] 64 zero8
    = [0x61#8, 0xa8#8, 0xa2#8, 0x44#8, 0xad#8, 0xac#8, 0xcc#8, 0xf0#8] := by decide +kernel
/-- key 88bca90e 90875a (7 bytes), effective 64 → 6ccf4308 974c267f -/
theorem rfc_vector5 : BC.Spec.Rc2.encrypt (key88.take 7) 64 zero8
    = [0x6c#8, 0xcf#8, 0x43#8, 0x08#8, 0x97#8, 0x4c#8, 0x26#8, 0x7f#8] := by decide +kernel
/-- 16-byte key, effective 64 → 1a807d27 2bbe5db1 -/
theorem rfc_vector6 : BC.Spec.Rc2.encrypt key88 64 zero8
    = [0x1a#8, 0x80#8, 0x7d#8, 0x27#8, 0x2b#8, 0xbe#8, 0x5d#8, 0xb1#8] := by decide +kernel
/-- 16-byte key, effective 128 → 2269552a b0f85ca6 -/
theorem rfc_vector7 : BC.Spec.Rc2.encrypt key88 128 zero8
    = [0x22#8, 0x69#8, 0x55#8, 0x2a#8, 0xb0#8, 0xf8#8, 0x5c#8, 0xa6#8] := by decide +kernel
/-- 33-byte key, effective 129 → 5b78d3a4 3dfff1f1 -/
theorem rfc_vector8 : BC.Spec.Rc2.encrypt key33 129 zero8
    = [0x5b#8, 0x78#8, 0xd3#8, 0xa4#8, 0x3d#8, 0xff#8, 0xf1#8, 0xf1#8] := by decide +kernel

/-- the same vectors through the model of the crate (`new_with_eff_key_len`, `encrypt_block`, `decrypt_block`) -/
theorem impl_vector1 : liftBlock 8 (encrypt (newWithEffKeyLen zero8 63)) zero8
    = [0xeb#8, 0xb7#8, 0x73#8, 0xf9#8, 0x93#8, 0x27#8, 0x8e#8, 0xff#8] := by
  rw [rc2eff_encrypt_conforms _ _ _ (by decide)]; exact rfc_vector1
theorem impl_vector8 : liftBlock 8 (encrypt (newWithEffKeyLen key33 129)) zero8
    = [0x5b#8, 0x78#8, 0xd3#8, 0xa4#8, 0x3d#8, 0xff#8, 0xf1#8, 0xf1#8] := by
  rw [rc2eff_encrypt_conforms _ _ _ (by decide)]; exact rfc_vector8
/-- vector 7 is the one reachable through `new_from_slice` (T1 = 8·16); /repo/rc2/tests also runs
vectors 1–3 through `new_from_slice` (vector 1 then with T1 = 64 instead of the RFC's 63) -/
theorem impl_vector7 : (newFromSlice key88).map (fun ks => liftBlock 8 (encrypt ks) zero8)
    = some [0x22#8, 0x69#8, 0x55#8, 0x2a#8, 0xb0#8, 0xf8#8, 0x5c#8, 0xa6#8] := by
  rw [newFromSlice_eq _ (by decide), Option.map_some, rc2eff_encrypt_conforms _ _ _ (by decide)]
  exact congrArg some rfc_vector7
theorem repo_vector1_t64 : BC.Spec.Rc2.encrypt zero8 64 zero8
    = [0xeb#8, 0xb7#8, 0x73#8, 0xf9#8, 0x93#8, 0x27#8, 0x8e#8, 0xff#8] := by decide +kernel
theorem rfc_vector8_dec : BC.Spec.Rc2.decrypt key33 129 [0x5b#8, 0x78#8, 0xd3#8, 0xa4#8, 0x3d#8, 0xff#8, 0xf1#8, 0xf1#8]
    = zero8 := by decide +kernel

end Vectors

end BC.Rc2
