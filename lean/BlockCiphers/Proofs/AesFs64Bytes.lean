import BlockCiphers.Proofs.AesFs64Aes128
import BlockCiphers.Proofs.AesFs64Aes192
import BlockCiphers.Proofs.AesFs64Aes256
/-!
C02 for fixslice64 stated against `BC.Spec.Aes.encrypt` / `decrypt` on byte-string keys: for every key
of 16 / 24 / 32 bytes, `soft.rs`' single-block functions and each lane of the 4-block batch functions
(normal and compact) compute FIPS-197.  The only new ingredient is the byte glue
`keyWords kb = words (packBE n kb)`.
-/
namespace BC.AesFs64
open BC.Spec.Aes BC
set_option linter.unusedSimpArgs false

theorem exists_cons_of_length {α : Type} (l : List α) (n : Nat) (h : l.length = n + 1) :
    ∃ a t, l = a :: t ∧ t.length = n := by
  cases l with
  | nil => simp at h
  | cons a t => exact ⟨a, t, rfl, by simpa using h⟩

theorem keyWords_16 (a0 a1 a2 a3 a4 a5 a6 a7 a8 a9 a10 a11 a12 a13 a14 a15 : BitVec 8) :
    keyWords [a0, a1, a2, a3, a4, a5, a6, a7, a8, a9, a10, a11, a12, a13, a14, a15] =
      words128 (packBE 16 [a0, a1, a2, a3, a4, a5, a6, a7, a8, a9, a10, a11, a12, a13, a14, a15]) := by
  have h0 := a0.isLt; have h1 := a1.isLt; have h2 := a2.isLt; have h3 := a3.isLt
  have h4 := a4.isLt; have h5 := a5.isLt; have h6 := a6.isLt; have h7 := a7.isLt
  have h8 := a8.isLt; have h9 := a9.isLt; have h10 := a10.isLt; have h11 := a11.isLt
  have h12 := a12.isLt; have h13 := a13.isLt; have h14 := a14.isLt; have h15 := a15.isLt
  simp only [keyWords, wordsBE, words128, packBE, bytesToNat, List.foldl]
  rw [chunksOf]; simp only [Nat.reduceDiv, List.drop, List.take, if_false, Nat.reduceEqDiff, List.map, reduceCtorEq]
  rw [chunksOf]; simp only [Nat.reduceDiv, List.drop, List.take, if_false, Nat.reduceEqDiff, List.map, reduceCtorEq]
  rw [chunksOf]; simp only [Nat.reduceDiv, List.drop, List.take, if_false, Nat.reduceEqDiff, List.map, reduceCtorEq]
  rw [chunksOf]; simp only [Nat.reduceDiv, List.drop, List.take, if_false, Nat.reduceEqDiff, List.map, reduceCtorEq]
  rw [chunksOf]
  simp only [List.map, List.foldl, List.cons.injEq, and_true]
  refine ⟨?_, ?_, ?_, ?_⟩ <;> (apply BitVec.eq_of_toNat_eq; simp only [BitVec.toNat_ofNat, BitVec.extractLsb'_toNat, Nat.shiftRight_eq_div_pow]; omega)

theorem keyWords_of_length_16 (kb : Bytes) (h : kb.length = 16) : keyWords kb = words128 (packBE 16 kb) := by
  obtain ⟨a0, t0, e0, g0⟩ := exists_cons_of_length kb 15 h
  obtain ⟨a1, t1, e1, g1⟩ := exists_cons_of_length t0 14 g0
  obtain ⟨a2, t2, e2, g2⟩ := exists_cons_of_length t1 13 g1
  obtain ⟨a3, t3, e3, g3⟩ := exists_cons_of_length t2 12 g2
  obtain ⟨a4, t4, e4, g4⟩ := exists_cons_of_length t3 11 g3
  obtain ⟨a5, t5, e5, g5⟩ := exists_cons_of_length t4 10 g4
  obtain ⟨a6, t6, e6, g6⟩ := exists_cons_of_length t5 9 g5
  obtain ⟨a7, t7, e7, g7⟩ := exists_cons_of_length t6 8 g6
  obtain ⟨a8, t8, e8, g8⟩ := exists_cons_of_length t7 7 g7
  obtain ⟨a9, t9, e9, g9⟩ := exists_cons_of_length t8 6 g8
  obtain ⟨a10, t10, e10, g10⟩ := exists_cons_of_length t9 5 g9
  obtain ⟨a11, t11, e11, g11⟩ := exists_cons_of_length t10 4 g10
  obtain ⟨a12, t12, e12, g12⟩ := exists_cons_of_length t11 3 g11
  obtain ⟨a13, t13, e13, g13⟩ := exists_cons_of_length t12 2 g12
  obtain ⟨a14, t14, e14, g14⟩ := exists_cons_of_length t13 1 g13
  obtain ⟨a15, t15, e15, g15⟩ := exists_cons_of_length t14 0 g14
  have e : t15 = [] := List.eq_nil_of_length_eq_zero g15
  subst e e15 e14 e13 e12 e11 e10 e9 e8 e7 e6 e5 e4 e3 e2 e1 e0
  exact keyWords_16 a0 a1 a2 a3 a4 a5 a6 a7 a8 a9 a10 a11 a12 a13 a14 a15

theorem keyWords_24 (a0 a1 a2 a3 a4 a5 a6 a7 a8 a9 a10 a11 a12 a13 a14 a15 a16 a17 a18 a19 a20 a21 a22 a23 : BitVec 8) :
    keyWords [a0, a1, a2, a3, a4, a5, a6, a7, a8, a9, a10, a11, a12, a13, a14, a15, a16, a17, a18, a19, a20, a21, a22, a23] =
      words192 (packBE 24 [a0, a1, a2, a3, a4, a5, a6, a7, a8, a9, a10, a11, a12, a13, a14, a15, a16, a17, a18, a19, a20, a21, a22, a23]) := by
  have h0 := a0.isLt; have h1 := a1.isLt; have h2 := a2.isLt; have h3 := a3.isLt
  have h4 := a4.isLt; have h5 := a5.isLt; have h6 := a6.isLt; have h7 := a7.isLt
  have h8 := a8.isLt; have h9 := a9.isLt; have h10 := a10.isLt; have h11 := a11.isLt
  have h12 := a12.isLt; have h13 := a13.isLt; have h14 := a14.isLt; have h15 := a15.isLt
  have h16 := a16.isLt; have h17 := a17.isLt; have h18 := a18.isLt; have h19 := a19.isLt
  have h20 := a20.isLt; have h21 := a21.isLt; have h22 := a22.isLt; have h23 := a23.isLt
  simp only [keyWords, wordsBE, words192, packBE, bytesToNat, List.foldl]
  rw [chunksOf]; simp only [Nat.reduceDiv, List.drop, List.take, if_false, Nat.reduceEqDiff, List.map, reduceCtorEq]
  rw [chunksOf]; simp only [Nat.reduceDiv, List.drop, List.take, if_false, Nat.reduceEqDiff, List.map, reduceCtorEq]
  rw [chunksOf]; simp only [Nat.reduceDiv, List.drop, List.take, if_false, Nat.reduceEqDiff, List.map, reduceCtorEq]
  rw [chunksOf]; simp only [Nat.reduceDiv, List.drop, List.take, if_false, Nat.reduceEqDiff, List.map, reduceCtorEq]
  rw [chunksOf]; simp only [Nat.reduceDiv, List.drop, List.take, if_false, Nat.reduceEqDiff, List.map, reduceCtorEq]
  rw [chunksOf]; simp only [Nat.reduceDiv, List.drop, List.take, if_false, Nat.reduceEqDiff, List.map, reduceCtorEq]
  rw [chunksOf]
  simp only [List.map, List.foldl, List.cons.injEq, and_true]
  refine ⟨?_, ?_, ?_, ?_, ?_, ?_⟩ <;> (apply BitVec.eq_of_toNat_eq; simp only [BitVec.toNat_ofNat, BitVec.extractLsb'_toNat, Nat.shiftRight_eq_div_pow]; omega)

theorem keyWords_of_length_24 (kb : Bytes) (h : kb.length = 24) : keyWords kb = words192 (packBE 24 kb) := by
  obtain ⟨a0, t0, e0, g0⟩ := exists_cons_of_length kb 23 h
  obtain ⟨a1, t1, e1, g1⟩ := exists_cons_of_length t0 22 g0
  obtain ⟨a2, t2, e2, g2⟩ := exists_cons_of_length t1 21 g1
  obtain ⟨a3, t3, e3, g3⟩ := exists_cons_of_length t2 20 g2
  obtain ⟨a4, t4, e4, g4⟩ := exists_cons_of_length t3 19 g3
  obtain ⟨a5, t5, e5, g5⟩ := exists_cons_of_length t4 18 g4
  obtain ⟨a6, t6, e6, g6⟩ := exists_cons_of_length t5 17 g5
  obtain ⟨a7, t7, e7, g7⟩ := exists_cons_of_length t6 16 g6
  obtain ⟨a8, t8, e8, g8⟩ := exists_cons_of_length t7 15 g7
  obtain ⟨a9, t9, e9, g9⟩ := exists_cons_of_length t8 14 g8
  obtain ⟨a10, t10, e10, g10⟩ := exists_cons_of_length t9 13 g9
  obtain ⟨a11, t11, e11, g11⟩ := exists_cons_of_length t10 12 g10
  obtain ⟨a12, t12, e12, g12⟩ := exists_cons_of_length t11 11 g11
  obtain ⟨a13, t13, e13, g13⟩ := exists_cons_of_length t12 10 g12
  obtain ⟨a14, t14, e14, g14⟩ := exists_cons_of_length t13 9 g13
  obtain ⟨a15, t15, e15, g15⟩ := exists_cons_of_length t14 8 g14
  obtain ⟨a16, t16, e16, g16⟩ := exists_cons_of_length t15 7 g15
  obtain ⟨a17, t17, e17, g17⟩ := exists_cons_of_length t16 6 g16
  obtain ⟨a18, t18, e18, g18⟩ := exists_cons_of_length t17 5 g17
  obtain ⟨a19, t19, e19, g19⟩ := exists_cons_of_length t18 4 g18
  obtain ⟨a20, t20, e20, g20⟩ := exists_cons_of_length t19 3 g19
  obtain ⟨a21, t21, e21, g21⟩ := exists_cons_of_length t20 2 g20
  obtain ⟨a22, t22, e22, g22⟩ := exists_cons_of_length t21 1 g21
  obtain ⟨a23, t23, e23, g23⟩ := exists_cons_of_length t22 0 g22
  have e : t23 = [] := List.eq_nil_of_length_eq_zero g23
  subst e e23 e22 e21 e20 e19 e18 e17 e16 e15 e14 e13 e12 e11 e10 e9 e8 e7 e6 e5 e4 e3 e2 e1 e0
  exact keyWords_24 a0 a1 a2 a3 a4 a5 a6 a7 a8 a9 a10 a11 a12 a13 a14 a15 a16 a17 a18 a19 a20 a21 a22 a23

theorem keyWords_32 (a0 a1 a2 a3 a4 a5 a6 a7 a8 a9 a10 a11 a12 a13 a14 a15 a16 a17 a18 a19 a20 a21 a22 a23 a24 a25 a26 a27 a28 a29 a30 a31 : BitVec 8) :
    keyWords [a0, a1, a2, a3, a4, a5, a6, a7, a8, a9, a10, a11, a12, a13, a14, a15, a16, a17, a18, a19, a20, a21, a22, a23, a24, a25, a26, a27, a28, a29, a30, a31] =
      words256 (packBE 32 [a0, a1, a2, a3, a4, a5, a6, a7, a8, a9, a10, a11, a12, a13, a14, a15, a16, a17, a18, a19, a20, a21, a22, a23, a24, a25, a26, a27, a28, a29, a30, a31]) := by
  have h0 := a0.isLt; have h1 := a1.isLt; have h2 := a2.isLt; have h3 := a3.isLt
  have h4 := a4.isLt; have h5 := a5.isLt; have h6 := a6.isLt; have h7 := a7.isLt
  have h8 := a8.isLt; have h9 := a9.isLt; have h10 := a10.isLt; have h11 := a11.isLt
  have h12 := a12.isLt; have h13 := a13.isLt; have h14 := a14.isLt; have h15 := a15.isLt
  have h16 := a16.isLt; have h17 := a17.isLt; have h18 := a18.isLt; have h19 := a19.isLt
  have h20 := a20.isLt; have h21 := a21.isLt; have h22 := a22.isLt; have h23 := a23.isLt
  have h24 := a24.isLt; have h25 := a25.isLt; have h26 := a26.isLt; have h27 := a27.isLt
  have h28 := a28.isLt; have h29 := a29.isLt; have h30 := a30.isLt; have h31 := a31.isLt
  simp only [keyWords, wordsBE, words256, packBE, bytesToNat, List.foldl]
  rw [chunksOf]; simp only [Nat.reduceDiv, List.drop, List.take, if_false, Nat.reduceEqDiff, List.map, reduceCtorEq]
  rw [chunksOf]; simp only [Nat.reduceDiv, List.drop, List.take, if_false, Nat.reduceEqDiff, List.map, reduceCtorEq]
  rw [chunksOf]; simp only [Nat.reduceDiv, List.drop, List.take, if_false, Nat.reduceEqDiff, List.map, reduceCtorEq]
  rw [chunksOf]; simp only [Nat.reduceDiv, List.drop, List.take, if_false, Nat.reduceEqDiff, List.map, reduceCtorEq]
  rw [chunksOf]; simp only [Nat.reduceDiv, List.drop, List.take, if_false, Nat.reduceEqDiff, List.map, reduceCtorEq]
  rw [chunksOf]; simp only [Nat.reduceDiv, List.drop, List.take, if_false, Nat.reduceEqDiff, List.map, reduceCtorEq]
  rw [chunksOf]; simp only [Nat.reduceDiv, List.drop, List.take, if_false, Nat.reduceEqDiff, List.map, reduceCtorEq]
  rw [chunksOf]; simp only [Nat.reduceDiv, List.drop, List.take, if_false, Nat.reduceEqDiff, List.map, reduceCtorEq]
  rw [chunksOf]
  simp only [List.map, List.foldl, List.cons.injEq, and_true]
  refine ⟨?_, ?_, ?_, ?_, ?_, ?_, ?_, ?_⟩ <;> (apply BitVec.eq_of_toNat_eq; simp only [BitVec.toNat_ofNat, BitVec.extractLsb'_toNat, Nat.shiftRight_eq_div_pow]; omega)

theorem keyWords_of_length_32 (kb : Bytes) (h : kb.length = 32) : keyWords kb = words256 (packBE 32 kb) := by
  obtain ⟨a0, t0, e0, g0⟩ := exists_cons_of_length kb 31 h
  obtain ⟨a1, t1, e1, g1⟩ := exists_cons_of_length t0 30 g0
  obtain ⟨a2, t2, e2, g2⟩ := exists_cons_of_length t1 29 g1
  obtain ⟨a3, t3, e3, g3⟩ := exists_cons_of_length t2 28 g2
  obtain ⟨a4, t4, e4, g4⟩ := exists_cons_of_length t3 27 g3
  obtain ⟨a5, t5, e5, g5⟩ := exists_cons_of_length t4 26 g4
  obtain ⟨a6, t6, e6, g6⟩ := exists_cons_of_length t5 25 g5
  obtain ⟨a7, t7, e7, g7⟩ := exists_cons_of_length t6 24 g6
  obtain ⟨a8, t8, e8, g8⟩ := exists_cons_of_length t7 23 g7
  obtain ⟨a9, t9, e9, g9⟩ := exists_cons_of_length t8 22 g8
  obtain ⟨a10, t10, e10, g10⟩ := exists_cons_of_length t9 21 g9
  obtain ⟨a11, t11, e11, g11⟩ := exists_cons_of_length t10 20 g10
  obtain ⟨a12, t12, e12, g12⟩ := exists_cons_of_length t11 19 g11
  obtain ⟨a13, t13, e13, g13⟩ := exists_cons_of_length t12 18 g12
  obtain ⟨a14, t14, e14, g14⟩ := exists_cons_of_length t13 17 g13
  obtain ⟨a15, t15, e15, g15⟩ := exists_cons_of_length t14 16 g14
  obtain ⟨a16, t16, e16, g16⟩ := exists_cons_of_length t15 15 g15
  obtain ⟨a17, t17, e17, g17⟩ := exists_cons_of_length t16 14 g16
  obtain ⟨a18, t18, e18, g18⟩ := exists_cons_of_length t17 13 g17
  obtain ⟨a19, t19, e19, g19⟩ := exists_cons_of_length t18 12 g18
  obtain ⟨a20, t20, e20, g20⟩ := exists_cons_of_length t19 11 g19
  obtain ⟨a21, t21, e21, g21⟩ := exists_cons_of_length t20 10 g20
  obtain ⟨a22, t22, e22, g22⟩ := exists_cons_of_length t21 9 g21
  obtain ⟨a23, t23, e23, g23⟩ := exists_cons_of_length t22 8 g22
  obtain ⟨a24, t24, e24, g24⟩ := exists_cons_of_length t23 7 g23
  obtain ⟨a25, t25, e25, g25⟩ := exists_cons_of_length t24 6 g24
  obtain ⟨a26, t26, e26, g26⟩ := exists_cons_of_length t25 5 g25
  obtain ⟨a27, t27, e27, g27⟩ := exists_cons_of_length t26 4 g26
  obtain ⟨a28, t28, e28, g28⟩ := exists_cons_of_length t27 3 g27
  obtain ⟨a29, t29, e29, g29⟩ := exists_cons_of_length t28 2 g28
  obtain ⟨a30, t30, e30, g30⟩ := exists_cons_of_length t29 1 g29
  obtain ⟨a31, t31, e31, g31⟩ := exists_cons_of_length t30 0 g30
  have e : t31 = [] := List.eq_nil_of_length_eq_zero g31
  subst e e31 e30 e29 e28 e27 e26 e25 e24 e23 e22 e21 e20 e19 e18 e17 e16 e15 e14 e13 e12 e11 e10 e9 e8 e7 e6 e5 e4 e3 e2 e1 e0
  exact keyWords_32 a0 a1 a2 a3 a4 a5 a6 a7 a8 a9 a10 a11 a12 a13 a14 a15 a16 a17 a18 a19 a20 a21 a22 a23 a24 a25 a26 a27 a28 a29 a30 a31

/-- **AES-128, fixslice64 normal = FIPS-197** for every 16-byte key, every block / batch -/
theorem aes128_eq_spec (kb : Bytes) (h : kb.length = 16) :
    (∀ x, single (aes128_encrypt (rkFn (aes128_key_schedule (packBE 16 kb)))) x = Spec.Aes.encrypt kb x) ∧
    (∀ x, single (aes128_decrypt (rkFn (aes128_key_schedule (packBE 16 kb)))) x = Spec.Aes.decrypt kb x) ∧
    (∀ b, aes128_encrypt (rkFn (aes128_key_schedule (packBE 16 kb))) b = b.map (Spec.Aes.encrypt kb)) ∧
    (∀ b, aes128_decrypt (rkFn (aes128_key_schedule (packBE 16 kb))) b = b.map (Spec.Aes.decrypt kb)) := by
  have hw := keyWords_of_length_16 kb h
  have he : ∀ x, Spec.Aes.encrypt kb x = cipher 10 (keyExpansion 4 10 (words128 (packBE 16 kb))) x := by
    intro x; simp only [Spec.Aes.encrypt, h, nrOf, hw, Nat.reduceDiv, Nat.reduceAdd]
  have hd : ∀ x, Spec.Aes.decrypt kb x = invCipher 10 (keyExpansion 4 10 (words128 (packBE 16 kb))) x := by
    intro x; simp only [Spec.Aes.decrypt, h, nrOf, hw, Nat.reduceDiv, Nat.reduceAdd]
  have hfe : Spec.Aes.encrypt kb = cipherK 10 (rk128 (packBE 16 kb)) := funext he
  have hfd : Spec.Aes.decrypt kb = invCipherK 10 (rk128 (packBE 16 kb)) := funext hd
  refine ⟨fun x => ?_, fun x => ?_, fun b => ?_, fun b => ?_⟩
  · rw [he]; exact (aes128_conforms (packBE 16 kb) ⟨0, 0, 0, 0⟩).2.2.1 x
  · rw [hd]; exact (aes128_conforms (packBE 16 kb) ⟨0, 0, 0, 0⟩).2.2.2 x
  · rw [hfe]; exact (aes128_conforms (packBE 16 kb) b).1
  · rw [hfd]; exact (aes128_conforms (packBE 16 kb) b).2.1

/-- **AES-128, fixslice64 compact = FIPS-197** for every 16-byte key, every block / batch -/
theorem aes128_compact_eq_spec (kb : Bytes) (h : kb.length = 16) :
    (∀ x, single (aes128_encrypt_compact (rkFn (aes128_key_schedule_compact (packBE 16 kb)))) x = Spec.Aes.encrypt kb x) ∧
    (∀ x, single (aes128_decrypt_compact (rkFn (aes128_key_schedule_compact (packBE 16 kb)))) x = Spec.Aes.decrypt kb x) ∧
    (∀ b, aes128_encrypt_compact (rkFn (aes128_key_schedule_compact (packBE 16 kb))) b = b.map (Spec.Aes.encrypt kb)) ∧
    (∀ b, aes128_decrypt_compact (rkFn (aes128_key_schedule_compact (packBE 16 kb))) b = b.map (Spec.Aes.decrypt kb)) := by
  have hw := keyWords_of_length_16 kb h
  have he : ∀ x, Spec.Aes.encrypt kb x = cipher 10 (keyExpansion 4 10 (words128 (packBE 16 kb))) x := by
    intro x; simp only [Spec.Aes.encrypt, h, nrOf, hw, Nat.reduceDiv, Nat.reduceAdd]
  have hd : ∀ x, Spec.Aes.decrypt kb x = invCipher 10 (keyExpansion 4 10 (words128 (packBE 16 kb))) x := by
    intro x; simp only [Spec.Aes.decrypt, h, nrOf, hw, Nat.reduceDiv, Nat.reduceAdd]
  have hfe : Spec.Aes.encrypt kb = cipherK 10 (rk128 (packBE 16 kb)) := funext he
  have hfd : Spec.Aes.decrypt kb = invCipherK 10 (rk128 (packBE 16 kb)) := funext hd
  refine ⟨fun x => ?_, fun x => ?_, fun b => ?_, fun b => ?_⟩
  · rw [he]; exact (aes128_compact_conforms (packBE 16 kb) ⟨0, 0, 0, 0⟩).2.2.1 x
  · rw [hd]; exact (aes128_compact_conforms (packBE 16 kb) ⟨0, 0, 0, 0⟩).2.2.2 x
  · rw [hfe]; exact (aes128_compact_conforms (packBE 16 kb) b).1
  · rw [hfd]; exact (aes128_compact_conforms (packBE 16 kb) b).2.1

/-- **AES-192, fixslice64 normal = FIPS-197** for every 24-byte key, every block / batch -/
theorem aes192_eq_spec (kb : Bytes) (h : kb.length = 24) :
    (∀ x, single (aes192_encrypt (rkFn (aes192_key_schedule (packBE 24 kb)))) x = Spec.Aes.encrypt kb x) ∧
    (∀ x, single (aes192_decrypt (rkFn (aes192_key_schedule (packBE 24 kb)))) x = Spec.Aes.decrypt kb x) ∧
    (∀ b, aes192_encrypt (rkFn (aes192_key_schedule (packBE 24 kb))) b = b.map (Spec.Aes.encrypt kb)) ∧
    (∀ b, aes192_decrypt (rkFn (aes192_key_schedule (packBE 24 kb))) b = b.map (Spec.Aes.decrypt kb)) := by
  have hw := keyWords_of_length_24 kb h
  have he : ∀ x, Spec.Aes.encrypt kb x = cipher 12 (keyExpansion 6 12 (words192 (packBE 24 kb))) x := by
    intro x; simp only [Spec.Aes.encrypt, h, nrOf, hw, Nat.reduceDiv, Nat.reduceAdd]
  have hd : ∀ x, Spec.Aes.decrypt kb x = invCipher 12 (keyExpansion 6 12 (words192 (packBE 24 kb))) x := by
    intro x; simp only [Spec.Aes.decrypt, h, nrOf, hw, Nat.reduceDiv, Nat.reduceAdd]
  have hfe : Spec.Aes.encrypt kb = cipherK 12 (rk192 (packBE 24 kb)) := funext he
  have hfd : Spec.Aes.decrypt kb = invCipherK 12 (rk192 (packBE 24 kb)) := funext hd
  refine ⟨fun x => ?_, fun x => ?_, fun b => ?_, fun b => ?_⟩
  · rw [he]; exact (aes192_conforms (packBE 24 kb) ⟨0, 0, 0, 0⟩).2.2.1 x
  · rw [hd]; exact (aes192_conforms (packBE 24 kb) ⟨0, 0, 0, 0⟩).2.2.2 x
  · rw [hfe]; exact (aes192_conforms (packBE 24 kb) b).1
  · rw [hfd]; exact (aes192_conforms (packBE 24 kb) b).2.1

/-- **AES-192, fixslice64 compact = FIPS-197** for every 24-byte key, every block / batch -/
theorem aes192_compact_eq_spec (kb : Bytes) (h : kb.length = 24) :
    (∀ x, single (aes192_encrypt_compact (rkFn (aes192_key_schedule_compact (packBE 24 kb)))) x = Spec.Aes.encrypt kb x) ∧
    (∀ x, single (aes192_decrypt_compact (rkFn (aes192_key_schedule_compact (packBE 24 kb)))) x = Spec.Aes.decrypt kb x) ∧
    (∀ b, aes192_encrypt_compact (rkFn (aes192_key_schedule_compact (packBE 24 kb))) b = b.map (Spec.Aes.encrypt kb)) ∧
    (∀ b, aes192_decrypt_compact (rkFn (aes192_key_schedule_compact (packBE 24 kb))) b = b.map (Spec.Aes.decrypt kb)) := by
  have hw := keyWords_of_length_24 kb h
  have he : ∀ x, Spec.Aes.encrypt kb x = cipher 12 (keyExpansion 6 12 (words192 (packBE 24 kb))) x := by
    intro x; simp only [Spec.Aes.encrypt, h, nrOf, hw, Nat.reduceDiv, Nat.reduceAdd]
  have hd : ∀ x, Spec.Aes.decrypt kb x = invCipher 12 (keyExpansion 6 12 (words192 (packBE 24 kb))) x := by
    intro x; simp only [Spec.Aes.decrypt, h, nrOf, hw, Nat.reduceDiv, Nat.reduceAdd]
  have hfe : Spec.Aes.encrypt kb = cipherK 12 (rk192 (packBE 24 kb)) := funext he
  have hfd : Spec.Aes.decrypt kb = invCipherK 12 (rk192 (packBE 24 kb)) := funext hd
  refine ⟨fun x => ?_, fun x => ?_, fun b => ?_, fun b => ?_⟩
  · rw [he]; exact (aes192_compact_conforms (packBE 24 kb) ⟨0, 0, 0, 0⟩).2.2.1 x
  · rw [hd]; exact (aes192_compact_conforms (packBE 24 kb) ⟨0, 0, 0, 0⟩).2.2.2 x
  · rw [hfe]; exact (aes192_compact_conforms (packBE 24 kb) b).1
  · rw [hfd]; exact (aes192_compact_conforms (packBE 24 kb) b).2.1

/-- **AES-256, fixslice64 normal = FIPS-197** for every 32-byte key, every block / batch -/
theorem aes256_eq_spec (kb : Bytes) (h : kb.length = 32) :
    (∀ x, single (aes256_encrypt (rkFn (aes256_key_schedule (packBE 32 kb)))) x = Spec.Aes.encrypt kb x) ∧
    (∀ x, single (aes256_decrypt (rkFn (aes256_key_schedule (packBE 32 kb)))) x = Spec.Aes.decrypt kb x) ∧
    (∀ b, aes256_encrypt (rkFn (aes256_key_schedule (packBE 32 kb))) b = b.map (Spec.Aes.encrypt kb)) ∧
    (∀ b, aes256_decrypt (rkFn (aes256_key_schedule (packBE 32 kb))) b = b.map (Spec.Aes.decrypt kb)) := by
  have hw := keyWords_of_length_32 kb h
  have he : ∀ x, Spec.Aes.encrypt kb x = cipher 14 (keyExpansion 8 14 (words256 (packBE 32 kb))) x := by
    intro x; simp only [Spec.Aes.encrypt, h, nrOf, hw, Nat.reduceDiv, Nat.reduceAdd]
  have hd : ∀ x, Spec.Aes.decrypt kb x = invCipher 14 (keyExpansion 8 14 (words256 (packBE 32 kb))) x := by
    intro x; simp only [Spec.Aes.decrypt, h, nrOf, hw, Nat.reduceDiv, Nat.reduceAdd]
  have hfe : Spec.Aes.encrypt kb = cipherK 14 (rk256 (packBE 32 kb)) := funext he
  have hfd : Spec.Aes.decrypt kb = invCipherK 14 (rk256 (packBE 32 kb)) := funext hd
  refine ⟨fun x => ?_, fun x => ?_, fun b => ?_, fun b => ?_⟩
  · rw [he]; exact (aes256_conforms (packBE 32 kb) ⟨0, 0, 0, 0⟩).2.2.1 x
  · rw [hd]; exact (aes256_conforms (packBE 32 kb) ⟨0, 0, 0, 0⟩).2.2.2 x
  · rw [hfe]; exact (aes256_conforms (packBE 32 kb) b).1
  · rw [hfd]; exact (aes256_conforms (packBE 32 kb) b).2.1

/-- **AES-256, fixslice64 compact = FIPS-197** for every 32-byte key, every block / batch -/
theorem aes256_compact_eq_spec (kb : Bytes) (h : kb.length = 32) :
    (∀ x, single (aes256_encrypt_compact (rkFn (aes256_key_schedule_compact (packBE 32 kb)))) x = Spec.Aes.encrypt kb x) ∧
    (∀ x, single (aes256_decrypt_compact (rkFn (aes256_key_schedule_compact (packBE 32 kb)))) x = Spec.Aes.decrypt kb x) ∧
    (∀ b, aes256_encrypt_compact (rkFn (aes256_key_schedule_compact (packBE 32 kb))) b = b.map (Spec.Aes.encrypt kb)) ∧
    (∀ b, aes256_decrypt_compact (rkFn (aes256_key_schedule_compact (packBE 32 kb))) b = b.map (Spec.Aes.decrypt kb)) := by
  have hw := keyWords_of_length_32 kb h
  have he : ∀ x, Spec.Aes.encrypt kb x = cipher 14 (keyExpansion 8 14 (words256 (packBE 32 kb))) x := by
    intro x; simp only [Spec.Aes.encrypt, h, nrOf, hw, Nat.reduceDiv, Nat.reduceAdd]
  have hd : ∀ x, Spec.Aes.decrypt kb x = invCipher 14 (keyExpansion 8 14 (words256 (packBE 32 kb))) x := by
    intro x; simp only [Spec.Aes.decrypt, h, nrOf, hw, Nat.reduceDiv, Nat.reduceAdd]
  have hfe : Spec.Aes.encrypt kb = cipherK 14 (rk256 (packBE 32 kb)) := funext he
  have hfd : Spec.Aes.decrypt kb = invCipherK 14 (rk256 (packBE 32 kb)) := funext hd
  refine ⟨fun x => ?_, fun x => ?_, fun b => ?_, fun b => ?_⟩
  · rw [he]; exact (aes256_compact_conforms (packBE 32 kb) ⟨0, 0, 0, 0⟩).2.2.1 x
  · rw [hd]; exact (aes256_compact_conforms (packBE 32 kb) ⟨0, 0, 0, 0⟩).2.2.2 x
  · rw [hfe]; exact (aes256_compact_conforms (packBE 32 kb) b).1
  · rw [hfd]; exact (aes256_compact_conforms (packBE 32 kb) b).2.1

end BC.AesFs64
