import Lean
import BlockCiphers.Gen.Cipher_Cast5
import BlockCiphers.Impl.Cast5
import BlockCiphers.Proofs.GenTables
import Std.Tactic.BVDecide
/-
Tie of the regenerated `Cast5::encrypt_block` / `decrypt_block` (`Gen/Cipher_Cast5.lean`; the translator emits one pair for
`small_key = false` (16 rounds, `cast5_16r_*`) and one for `small_key = true` (12 rounds, `cast5_12r_*`)) to the model
`Impl/Cast5.lean`, for ALL masking / rotate keys and ALL blocks.

* `tbl_eq`: a look-up `tblAt cast5_Sj n 32` in the regenerated table is the model's `Consts.Sj[n]!` (from the list
  equalities `cast5_Sj_eq` of `Proofs/GenTables.lean`);
* `f1g/f2g/f3g` are the inlined `f1!/f2!/f3!` of the generated text, `f?g_eq` ties them to the model's `f1/f2/f3`
  (only index normalisation `(x.setWidth 64).toNat = x.toNat`, no bit-blasting: the rounds are ARX);
* per function: `extract_lets`, each `r_{i+1}` is recognised (`rfl`) as `r_{i-1} ^^^ f?g r_i m rot`, and the model's
  unrolled rounds are rewritten one at a time onto the generated variables.
This file is produced by `tools/gen_cast5.py` from the generated text (it refers to the `let` names of
`Gen/Cipher_Cast5.lean`): after a re-translation re-run the script, then check the file with `lean`.
-/
namespace BC.GenCipher.Cast5
open BC.Gen.Fn BC.Cast5
set_option maxRecDepth 100000

open Lean Elab Tactic Meta in
/-- make the (hygienic) names of the local `let` variables introduced by `extract_lets` accessible -/
elab "name_lets" : tactic => do
  liftMetaTactic fun g => g.withContext do
    let mut lctx ← getLCtx
    for d in lctx do
      if d.isLet then lctx := lctx.setUserName d.fvarId d.userName.eraseMacroScopes
    let g' ← mkFreshExprMVarAt lctx (← getLocalInstances) (← g.getType) .syntheticOpaque (← g.getTag)
    g.assign g'
    return [g'.mvarId!]

/-! ### tables and indices -/

/-- a look-up in a regenerated `[u32; N]` table that equals (as a list of numbers) a model table is the model's
`a[n]!`, for every index (both give 0 out of range) -/
theorem tbl_eq (t : Array Nat) (a : Array (BitVec 32)) (h : t.toList = BC.GenTables.nats32 a) (n : Nat) :
    BC.Gen.tblAt t n 32 = a[n]! := by
  have h1 := congrArg (fun l => l[n]?) h
  simp only [BC.GenTables.nats32, List.getElem?_map, Array.getElem?_toList] at h1
  unfold BC.Gen.tblAt
  rw [Array.getD_eq_getD_getElem?, h1, getElem!_def]
  cases a[n]? with
  | none => rfl
  | some v => simp

theorem s1 (n : Nat) : BC.Gen.tblAt BC.Gen.cast5_S1 n 32 = Consts.S1[n]! := tbl_eq _ _ BC.GenTables.cast5_S1_eq n
theorem s2 (n : Nat) : BC.Gen.tblAt BC.Gen.cast5_S2 n 32 = Consts.S2[n]! := tbl_eq _ _ BC.GenTables.cast5_S2_eq n
theorem s3 (n : Nat) : BC.Gen.tblAt BC.Gen.cast5_S3 n 32 = Consts.S3[n]! := tbl_eq _ _ BC.GenTables.cast5_S3_eq n
theorem s4 (n : Nat) : BC.Gen.tblAt BC.Gen.cast5_S4 n 32 = Consts.S4[n]! := tbl_eq _ _ BC.GenTables.cast5_S4_eq n

/-- `x as usize` of a `u32` -/
theorem idx (x : BitVec 32) : (x.setWidth 64).toNat = x.toNat := by
  rw [BitVec.toNat_setWidth]; have := x.isLt; omega
/-- `u32::from(rot)` of a `u8` -/
theorem rot (x : BitVec 8) : (x.setWidth 32).toNat = x.toNat := by
  rw [BitVec.toNat_setWidth]; have := x.isLt; omega

/-! ### the inlined `f1!`, `f2!`, `f3!` -/

def f1g (d m : BitVec 32) (r : BitVec 8) : BitVec 32 :=
  let i := (m + d).rotateLeft (r.setWidth 32).toNat
  (((BC.Gen.tblAt BC.Gen.cast5_S1 ((i >>> 24).setWidth 64).toNat 32) ^^^ (BC.Gen.tblAt BC.Gen.cast5_S2 (((i >>> 16) &&& 0xff#32).setWidth 64).toNat 32)) - (BC.Gen.tblAt BC.Gen.cast5_S3 (((i >>> 8) &&& 0xff#32).setWidth 64).toNat 32)) + (BC.Gen.tblAt BC.Gen.cast5_S4 ((i &&& 0xff#32).setWidth 64).toNat 32)
def f2g (d m : BitVec 32) (r : BitVec 8) : BitVec 32 :=
  let i := (m ^^^ d).rotateLeft (r.setWidth 32).toNat
  (((BC.Gen.tblAt BC.Gen.cast5_S1 ((i >>> 24).setWidth 64).toNat 32) - (BC.Gen.tblAt BC.Gen.cast5_S2 (((i >>> 16) &&& 0xff#32).setWidth 64).toNat 32)) + (BC.Gen.tblAt BC.Gen.cast5_S3 (((i >>> 8) &&& 0xff#32).setWidth 64).toNat 32)) ^^^ (BC.Gen.tblAt BC.Gen.cast5_S4 ((i &&& 0xff#32).setWidth 64).toNat 32)
def f3g (d m : BitVec 32) (r : BitVec 8) : BitVec 32 :=
  let i := (m - d).rotateLeft (r.setWidth 32).toNat
  (((BC.Gen.tblAt BC.Gen.cast5_S1 ((i >>> 24).setWidth 64).toNat 32) + (BC.Gen.tblAt BC.Gen.cast5_S2 (((i >>> 16) &&& 0xff#32).setWidth 64).toNat 32)) ^^^ (BC.Gen.tblAt BC.Gen.cast5_S3 (((i >>> 8) &&& 0xff#32).setWidth 64).toNat 32)) - (BC.Gen.tblAt BC.Gen.cast5_S4 ((i &&& 0xff#32).setWidth 64).toNat 32)

theorem f1g_eq (d m : BitVec 32) (r : BitVec 8) : f1g d m r = f1 d m r := by
  simp only [f1g, f1, s1, s2, s3, s4, idx, rot]
theorem f2g_eq (d m : BitVec 32) (r : BitVec 8) : f2g d m r = f2 d m r := by
  simp only [f2g, f2, s1, s2, s3, s4, idx, rot]
theorem f3g_eq (d m : BitVec 32) (r : BitVec 8) : f3g d m r = f3 d m r := by
  simp only [f3g, f3, s1, s2, s3, s4, idx, rot]

/-! ### block bytes, key material, rounds -/

def hi4 (b : BitVec 64) : BitVec 32 :=
  (b.extractLsb' 56 8) ++ (b.extractLsb' 48 8) ++ (b.extractLsb' 40 8) ++ (b.extractLsb' 32 8)
def lo4 (b : BitVec 64) : BitVec 32 :=
  (b.extractLsb' 24 8) ++ (b.extractLsb' 16 8) ++ (b.extractLsb' 8 8) ++ (b.extractLsb' 0 8)

theorem read_bytes (b : BitVec 64) : readBlock b = { l := hi4 b, r := lo4 b } := by
  simp only [readBlock, hi4, lo4, LR.mk.injEq]
  constructor <;> bv_decide

theorem out_bytes (x y : BitVec 32) :
    (x.extractLsb' 24 8) ++ (x.extractLsb' 16 8) ++ (x.extractLsb' 8 8) ++ (x.extractLsb' 0 8) ++
      (y.extractLsb' 24 8) ++ (y.extractLsb' 16 8) ++ (y.extractLsb' 8 8) ++ (y.extractLsb' 0 8) = x ++ y := by
  bv_decide

/-- the struct `Cast5 { masking, rotate, small_key }` with explicit elements -/
def mk (m0 m1 m2 m3 m4 m5 m6 m7 m8 m9 m10 m11 m12 m13 m14 m15 : BitVec 32) (r0 r1 r2 r3 r4 r5 r6 r7 r8 r9 r10 r11 r12 r13 r14 r15 : BitVec 8) (sk : Bool) : Keys :=
  { masking := #[m0, m1, m2, m3, m4, m5, m6, m7, m8, m9, m10, m11, m12, m13, m14, m15], rotate := #[r0, r1, r2, r3, r4, r5, r6, r7, r8, r9, r10, r11, r12, r13, r14, r15], small_key := sk }

theorem r1 (m : BitVec 32) (rot : BitVec 8) (x y : BitVec 32) : round1 m rot ⟨x, y⟩ = ⟨y, x ^^^ f1 y m rot⟩ := rfl
theorem r2 (m : BitVec 32) (rot : BitVec 8) (x y : BitVec 32) : round2 m rot ⟨x, y⟩ = ⟨y, x ^^^ f2 y m rot⟩ := rfl
theorem r3 (m : BitVec 32) (rot : BitVec 8) (x y : BitVec 32) : round3 m rot ⟨x, y⟩ = ⟨y, x ^^^ f3 y m rot⟩ := rfl

theorem enc16 (m0 m1 m2 m3 m4 m5 m6 m7 m8 m9 m10 m11 m12 m13 m14 m15 : BitVec 32) (r0 r1 r2 r3 r4 r5 r6 r7 r8 r9 r10 r11 r12 r13 r14 r15 : BitVec 8) (x : LR) : encRounds (mk m0 m1 m2 m3 m4 m5 m6 m7 m8 m9 m10 m11 m12 m13 m14 m15 r0 r1 r2 r3 r4 r5 r6 r7 r8 r9 r10 r11 r12 r13 r14 r15 false) x =
    round1 m15 r15 (round3 m14 r14 (round2 m13 r13 (round1 m12 r12 (round3 m11 r11 (round2 m10 r10 (round1 m9 r9
    (round3 m8 r8 (round2 m7 r7 (round1 m6 r6 (round3 m5 r5 (round2 m4 r4 (round1 m3 r3 (round3 m2 r2 (round2 m1 r1
    (round1 m0 r0 x))))))))))))))) := rfl
theorem enc12 (m0 m1 m2 m3 m4 m5 m6 m7 m8 m9 m10 m11 m12 m13 m14 m15 : BitVec 32) (r0 r1 r2 r3 r4 r5 r6 r7 r8 r9 r10 r11 r12 r13 r14 r15 : BitVec 8) (x : LR) : encRounds (mk m0 m1 m2 m3 m4 m5 m6 m7 m8 m9 m10 m11 m12 m13 m14 m15 r0 r1 r2 r3 r4 r5 r6 r7 r8 r9 r10 r11 r12 r13 r14 r15 true) x =
    round3 m11 r11 (round2 m10 r10 (round1 m9 r9
    (round3 m8 r8 (round2 m7 r7 (round1 m6 r6 (round3 m5 r5 (round2 m4 r4 (round1 m3 r3 (round3 m2 r2 (round2 m1 r1
    (round1 m0 r0 x))))))))))) := rfl
theorem dec16 (m0 m1 m2 m3 m4 m5 m6 m7 m8 m9 m10 m11 m12 m13 m14 m15 : BitVec 32) (r0 r1 r2 r3 r4 r5 r6 r7 r8 r9 r10 r11 r12 r13 r14 r15 : BitVec 8) (x : LR) : decRounds (mk m0 m1 m2 m3 m4 m5 m6 m7 m8 m9 m10 m11 m12 m13 m14 m15 r0 r1 r2 r3 r4 r5 r6 r7 r8 r9 r10 r11 r12 r13 r14 r15 false) x =
    round1 m0 r0 (round2 m1 r1 (round3 m2 r2 (round1 m3 r3 (round2 m4 r4 (round3 m5 r5 (round1 m6 r6 (round2 m7 r7
    (round3 m8 r8 (round1 m9 r9 (round2 m10 r10 (round3 m11 r11 (round1 m12 r12 (round2 m13 r13 (round3 m14 r14
    (round1 m15 r15 x))))))))))))))) := rfl
theorem dec12 (m0 m1 m2 m3 m4 m5 m6 m7 m8 m9 m10 m11 m12 m13 m14 m15 : BitVec 32) (r0 r1 r2 r3 r4 r5 r6 r7 r8 r9 r10 r11 r12 r13 r14 r15 : BitVec 8) (x : LR) : decRounds (mk m0 m1 m2 m3 m4 m5 m6 m7 m8 m9 m10 m11 m12 m13 m14 m15 r0 r1 r2 r3 r4 r5 r6 r7 r8 r9 r10 r11 r12 r13 r14 r15 true) x =
    round1 m0 r0 (round2 m1 r1 (round3 m2 r2 (round1 m3 r3 (round2 m4 r4 (round3 m5 r5 (round1 m6 r6 (round2 m7 r7
    (round3 m8 r8 (round1 m9 r9 (round2 m10 r10 (round3 m11 r11 x))))))))))) := rfl

/-- `cast5_16r_encrypt_block` (regenerated `Cast5::encrypt_block`, `small_key = false`) is the model's `encrypt`, for all keys and blocks -/
theorem cast5_16r_encrypt_block_eq (self_masking0 self_masking1 self_masking2 self_masking3 self_masking4 self_masking5 self_masking6 self_masking7 self_masking8 self_masking9 self_masking10 self_masking11 self_masking12 self_masking13 self_masking14 self_masking15 : BitVec 32)
    (self_rotate0 self_rotate1 self_rotate2 self_rotate3 self_rotate4 self_rotate5 self_rotate6 self_rotate7 self_rotate8 self_rotate9 self_rotate10 self_rotate11 self_rotate12 self_rotate13 self_rotate14 self_rotate15 : BitVec 8) (block : BitVec 64) :
    cast5_16r_encrypt_block self_masking0 self_masking1 self_masking2 self_masking3 self_masking4 self_masking5 self_masking6 self_masking7 self_masking8 self_masking9 self_masking10 self_masking11 self_masking12 self_masking13 self_masking14 self_masking15
      self_rotate0 self_rotate1 self_rotate2 self_rotate3 self_rotate4 self_rotate5 self_rotate6 self_rotate7 self_rotate8 self_rotate9 self_rotate10 self_rotate11 self_rotate12 self_rotate13 self_rotate14 self_rotate15 block =
    encrypt (mk self_masking0 self_masking1 self_masking2 self_masking3 self_masking4 self_masking5 self_masking6 self_masking7 self_masking8 self_masking9 self_masking10 self_masking11 self_masking12 self_masking13 self_masking14 self_masking15
      self_rotate0 self_rotate1 self_rotate2 self_rotate3 self_rotate4 self_rotate5 self_rotate6 self_rotate7 self_rotate8 self_rotate9 self_rotate10 self_rotate11 self_rotate12 self_rotate13 self_rotate14 self_rotate15 false) block := by
  unfold cast5_16r_encrypt_block
  extract_lets -merge
  name_lets
  have hl : readBlock block = { l := l, r := r } := read_bytes block
  have h0 : r_1 = l ^^^ f1 r self_masking0 self_rotate0 := (f1g_eq r self_masking0 self_rotate0) ▸ rfl
  have h1 : r_2 = r ^^^ f2 r_1 self_masking1 self_rotate1 := (f2g_eq r_1 self_masking1 self_rotate1) ▸ rfl
  have h2 : r_3 = r_1 ^^^ f3 r_2 self_masking2 self_rotate2 := (f3g_eq r_2 self_masking2 self_rotate2) ▸ rfl
  have h3 : r_4 = r_2 ^^^ f1 r_3 self_masking3 self_rotate3 := (f1g_eq r_3 self_masking3 self_rotate3) ▸ rfl
  have h4 : r_5 = r_3 ^^^ f2 r_4 self_masking4 self_rotate4 := (f2g_eq r_4 self_masking4 self_rotate4) ▸ rfl
  have h5 : r_6 = r_4 ^^^ f3 r_5 self_masking5 self_rotate5 := (f3g_eq r_5 self_masking5 self_rotate5) ▸ rfl
  have h6 : r_7 = r_5 ^^^ f1 r_6 self_masking6 self_rotate6 := (f1g_eq r_6 self_masking6 self_rotate6) ▸ rfl
  have h7 : r_8 = r_6 ^^^ f2 r_7 self_masking7 self_rotate7 := (f2g_eq r_7 self_masking7 self_rotate7) ▸ rfl
  have h8 : r_9 = r_7 ^^^ f3 r_8 self_masking8 self_rotate8 := (f3g_eq r_8 self_masking8 self_rotate8) ▸ rfl
  have h9 : r_10 = r_8 ^^^ f1 r_9 self_masking9 self_rotate9 := (f1g_eq r_9 self_masking9 self_rotate9) ▸ rfl
  have h10 : r_11 = r_9 ^^^ f2 r_10 self_masking10 self_rotate10 := (f2g_eq r_10 self_masking10 self_rotate10) ▸ rfl
  have h11 : r_12 = r_10 ^^^ f3 r_11 self_masking11 self_rotate11 := (f3g_eq r_11 self_masking11 self_rotate11) ▸ rfl
  have h12 : r_13 = r_11 ^^^ f1 r_12 self_masking12 self_rotate12 := (f1g_eq r_12 self_masking12 self_rotate12) ▸ rfl
  have h13 : r_14 = r_12 ^^^ f2 r_13 self_masking13 self_rotate13 := (f2g_eq r_13 self_masking13 self_rotate13) ▸ rfl
  have h14 : r_15 = r_13 ^^^ f3 r_14 self_masking14 self_rotate14 := (f3g_eq r_14 self_masking14 self_rotate14) ▸ rfl
  have h15 : r_16 = r_14 ^^^ f1 r_15 self_masking15 self_rotate15 := (f1g_eq r_15 self_masking15 self_rotate15) ▸ rfl
  have R0 : round1 self_masking0 self_rotate0 ⟨l, r⟩ = ⟨r, r_1⟩ := by rw [r1, ← h0]
  have R1 : round2 self_masking1 self_rotate1 ⟨r, r_1⟩ = ⟨r_1, r_2⟩ := by rw [r2, ← h1]
  have R2 : round3 self_masking2 self_rotate2 ⟨r_1, r_2⟩ = ⟨r_2, r_3⟩ := by rw [r3, ← h2]
  have R3 : round1 self_masking3 self_rotate3 ⟨r_2, r_3⟩ = ⟨r_3, r_4⟩ := by rw [r1, ← h3]
  have R4 : round2 self_masking4 self_rotate4 ⟨r_3, r_4⟩ = ⟨r_4, r_5⟩ := by rw [r2, ← h4]
  have R5 : round3 self_masking5 self_rotate5 ⟨r_4, r_5⟩ = ⟨r_5, r_6⟩ := by rw [r3, ← h5]
  have R6 : round1 self_masking6 self_rotate6 ⟨r_5, r_6⟩ = ⟨r_6, r_7⟩ := by rw [r1, ← h6]
  have R7 : round2 self_masking7 self_rotate7 ⟨r_6, r_7⟩ = ⟨r_7, r_8⟩ := by rw [r2, ← h7]
  have R8 : round3 self_masking8 self_rotate8 ⟨r_7, r_8⟩ = ⟨r_8, r_9⟩ := by rw [r3, ← h8]
  have R9 : round1 self_masking9 self_rotate9 ⟨r_8, r_9⟩ = ⟨r_9, r_10⟩ := by rw [r1, ← h9]
  have R10 : round2 self_masking10 self_rotate10 ⟨r_9, r_10⟩ = ⟨r_10, r_11⟩ := by rw [r2, ← h10]
  have R11 : round3 self_masking11 self_rotate11 ⟨r_10, r_11⟩ = ⟨r_11, r_12⟩ := by rw [r3, ← h11]
  have R12 : round1 self_masking12 self_rotate12 ⟨r_11, r_12⟩ = ⟨r_12, r_13⟩ := by rw [r1, ← h12]
  have R13 : round2 self_masking13 self_rotate13 ⟨r_12, r_13⟩ = ⟨r_13, r_14⟩ := by rw [r2, ← h13]
  have R14 : round3 self_masking14 self_rotate14 ⟨r_13, r_14⟩ = ⟨r_14, r_15⟩ := by rw [r3, ← h14]
  have R15 : round1 self_masking15 self_rotate15 ⟨r_14, r_15⟩ = ⟨r_15, r_16⟩ := by rw [r1, ← h15]
  rw [out_bytes, encrypt, enc16, hl, R0, R1, R2, R3, R4, R5, R6, R7, R8, R9, R10, R11, R12, R13, R14, R15]
  rfl

/-- `cast5_16r_decrypt_block` (regenerated `Cast5::decrypt_block`, `small_key = false`) is the model's `decrypt`, for all keys and blocks -/
theorem cast5_16r_decrypt_block_eq (self_masking0 self_masking1 self_masking2 self_masking3 self_masking4 self_masking5 self_masking6 self_masking7 self_masking8 self_masking9 self_masking10 self_masking11 self_masking12 self_masking13 self_masking14 self_masking15 : BitVec 32)
    (self_rotate0 self_rotate1 self_rotate2 self_rotate3 self_rotate4 self_rotate5 self_rotate6 self_rotate7 self_rotate8 self_rotate9 self_rotate10 self_rotate11 self_rotate12 self_rotate13 self_rotate14 self_rotate15 : BitVec 8) (block : BitVec 64) :
    cast5_16r_decrypt_block self_masking0 self_masking1 self_masking2 self_masking3 self_masking4 self_masking5 self_masking6 self_masking7 self_masking8 self_masking9 self_masking10 self_masking11 self_masking12 self_masking13 self_masking14 self_masking15
      self_rotate0 self_rotate1 self_rotate2 self_rotate3 self_rotate4 self_rotate5 self_rotate6 self_rotate7 self_rotate8 self_rotate9 self_rotate10 self_rotate11 self_rotate12 self_rotate13 self_rotate14 self_rotate15 block =
    decrypt (mk self_masking0 self_masking1 self_masking2 self_masking3 self_masking4 self_masking5 self_masking6 self_masking7 self_masking8 self_masking9 self_masking10 self_masking11 self_masking12 self_masking13 self_masking14 self_masking15
      self_rotate0 self_rotate1 self_rotate2 self_rotate3 self_rotate4 self_rotate5 self_rotate6 self_rotate7 self_rotate8 self_rotate9 self_rotate10 self_rotate11 self_rotate12 self_rotate13 self_rotate14 self_rotate15 false) block := by
  unfold cast5_16r_decrypt_block
  extract_lets -merge
  name_lets
  have hl : readBlock block = { l := l, r := r } := read_bytes block
  have h0 : r_1 = l ^^^ f1 r self_masking15 self_rotate15 := (f1g_eq r self_masking15 self_rotate15) ▸ rfl
  have h1 : r_2 = r ^^^ f3 r_1 self_masking14 self_rotate14 := (f3g_eq r_1 self_masking14 self_rotate14) ▸ rfl
  have h2 : r_3 = r_1 ^^^ f2 r_2 self_masking13 self_rotate13 := (f2g_eq r_2 self_masking13 self_rotate13) ▸ rfl
  have h3 : r_4 = r_2 ^^^ f1 r_3 self_masking12 self_rotate12 := (f1g_eq r_3 self_masking12 self_rotate12) ▸ rfl
  have h4 : r_5 = r_3 ^^^ f3 r_4 self_masking11 self_rotate11 := (f3g_eq r_4 self_masking11 self_rotate11) ▸ rfl
  have h5 : r_6 = r_4 ^^^ f2 r_5 self_masking10 self_rotate10 := (f2g_eq r_5 self_masking10 self_rotate10) ▸ rfl
  have h6 : r_7 = r_5 ^^^ f1 r_6 self_masking9 self_rotate9 := (f1g_eq r_6 self_masking9 self_rotate9) ▸ rfl
  have h7 : r_8 = r_6 ^^^ f3 r_7 self_masking8 self_rotate8 := (f3g_eq r_7 self_masking8 self_rotate8) ▸ rfl
  have h8 : r_9 = r_7 ^^^ f2 r_8 self_masking7 self_rotate7 := (f2g_eq r_8 self_masking7 self_rotate7) ▸ rfl
  have h9 : r_10 = r_8 ^^^ f1 r_9 self_masking6 self_rotate6 := (f1g_eq r_9 self_masking6 self_rotate6) ▸ rfl
  have h10 : r_11 = r_9 ^^^ f3 r_10 self_masking5 self_rotate5 := (f3g_eq r_10 self_masking5 self_rotate5) ▸ rfl
  have h11 : r_12 = r_10 ^^^ f2 r_11 self_masking4 self_rotate4 := (f2g_eq r_11 self_masking4 self_rotate4) ▸ rfl
  have h12 : r_13 = r_11 ^^^ f1 r_12 self_masking3 self_rotate3 := (f1g_eq r_12 self_masking3 self_rotate3) ▸ rfl
  have h13 : r_14 = r_12 ^^^ f3 r_13 self_masking2 self_rotate2 := (f3g_eq r_13 self_masking2 self_rotate2) ▸ rfl
  have h14 : r_15 = r_13 ^^^ f2 r_14 self_masking1 self_rotate1 := (f2g_eq r_14 self_masking1 self_rotate1) ▸ rfl
  have h15 : r_16 = r_14 ^^^ f1 r_15 self_masking0 self_rotate0 := (f1g_eq r_15 self_masking0 self_rotate0) ▸ rfl
  have R0 : round1 self_masking15 self_rotate15 ⟨l, r⟩ = ⟨r, r_1⟩ := by rw [r1, ← h0]
  have R1 : round3 self_masking14 self_rotate14 ⟨r, r_1⟩ = ⟨r_1, r_2⟩ := by rw [r3, ← h1]
  have R2 : round2 self_masking13 self_rotate13 ⟨r_1, r_2⟩ = ⟨r_2, r_3⟩ := by rw [r2, ← h2]
  have R3 : round1 self_masking12 self_rotate12 ⟨r_2, r_3⟩ = ⟨r_3, r_4⟩ := by rw [r1, ← h3]
  have R4 : round3 self_masking11 self_rotate11 ⟨r_3, r_4⟩ = ⟨r_4, r_5⟩ := by rw [r3, ← h4]
  have R5 : round2 self_masking10 self_rotate10 ⟨r_4, r_5⟩ = ⟨r_5, r_6⟩ := by rw [r2, ← h5]
  have R6 : round1 self_masking9 self_rotate9 ⟨r_5, r_6⟩ = ⟨r_6, r_7⟩ := by rw [r1, ← h6]
  have R7 : round3 self_masking8 self_rotate8 ⟨r_6, r_7⟩ = ⟨r_7, r_8⟩ := by rw [r3, ← h7]
  have R8 : round2 self_masking7 self_rotate7 ⟨r_7, r_8⟩ = ⟨r_8, r_9⟩ := by rw [r2, ← h8]
  have R9 : round1 self_masking6 self_rotate6 ⟨r_8, r_9⟩ = ⟨r_9, r_10⟩ := by rw [r1, ← h9]
  have R10 : round3 self_masking5 self_rotate5 ⟨r_9, r_10⟩ = ⟨r_10, r_11⟩ := by rw [r3, ← h10]
  have R11 : round2 self_masking4 self_rotate4 ⟨r_10, r_11⟩ = ⟨r_11, r_12⟩ := by rw [r2, ← h11]
  have R12 : round1 self_masking3 self_rotate3 ⟨r_11, r_12⟩ = ⟨r_12, r_13⟩ := by rw [r1, ← h12]
  have R13 : round3 self_masking2 self_rotate2 ⟨r_12, r_13⟩ = ⟨r_13, r_14⟩ := by rw [r3, ← h13]
  have R14 : round2 self_masking1 self_rotate1 ⟨r_13, r_14⟩ = ⟨r_14, r_15⟩ := by rw [r2, ← h14]
  have R15 : round1 self_masking0 self_rotate0 ⟨r_14, r_15⟩ = ⟨r_15, r_16⟩ := by rw [r1, ← h15]
  rw [out_bytes, decrypt, dec16, hl, R0, R1, R2, R3, R4, R5, R6, R7, R8, R9, R10, R11, R12, R13, R14, R15]
  rfl

/-- `cast5_12r_encrypt_block` (regenerated `Cast5::encrypt_block`, `small_key = true`) is the model's `encrypt`, for all keys and blocks -/
theorem cast5_12r_encrypt_block_eq (self_masking0 self_masking1 self_masking2 self_masking3 self_masking4 self_masking5 self_masking6 self_masking7 self_masking8 self_masking9 self_masking10 self_masking11 self_masking12 self_masking13 self_masking14 self_masking15 : BitVec 32)
    (self_rotate0 self_rotate1 self_rotate2 self_rotate3 self_rotate4 self_rotate5 self_rotate6 self_rotate7 self_rotate8 self_rotate9 self_rotate10 self_rotate11 self_rotate12 self_rotate13 self_rotate14 self_rotate15 : BitVec 8) (block : BitVec 64) :
    cast5_12r_encrypt_block self_masking0 self_masking1 self_masking2 self_masking3 self_masking4 self_masking5 self_masking6 self_masking7 self_masking8 self_masking9 self_masking10 self_masking11 self_masking12 self_masking13 self_masking14 self_masking15
      self_rotate0 self_rotate1 self_rotate2 self_rotate3 self_rotate4 self_rotate5 self_rotate6 self_rotate7 self_rotate8 self_rotate9 self_rotate10 self_rotate11 self_rotate12 self_rotate13 self_rotate14 self_rotate15 block =
    encrypt (mk self_masking0 self_masking1 self_masking2 self_masking3 self_masking4 self_masking5 self_masking6 self_masking7 self_masking8 self_masking9 self_masking10 self_masking11 self_masking12 self_masking13 self_masking14 self_masking15
      self_rotate0 self_rotate1 self_rotate2 self_rotate3 self_rotate4 self_rotate5 self_rotate6 self_rotate7 self_rotate8 self_rotate9 self_rotate10 self_rotate11 self_rotate12 self_rotate13 self_rotate14 self_rotate15 true) block := by
  unfold cast5_12r_encrypt_block
  extract_lets -merge
  name_lets
  have hl : readBlock block = { l := l, r := r } := read_bytes block
  have h0 : r_1 = l ^^^ f1 r self_masking0 self_rotate0 := (f1g_eq r self_masking0 self_rotate0) ▸ rfl
  have h1 : r_2 = r ^^^ f2 r_1 self_masking1 self_rotate1 := (f2g_eq r_1 self_masking1 self_rotate1) ▸ rfl
  have h2 : r_3 = r_1 ^^^ f3 r_2 self_masking2 self_rotate2 := (f3g_eq r_2 self_masking2 self_rotate2) ▸ rfl
  have h3 : r_4 = r_2 ^^^ f1 r_3 self_masking3 self_rotate3 := (f1g_eq r_3 self_masking3 self_rotate3) ▸ rfl
  have h4 : r_5 = r_3 ^^^ f2 r_4 self_masking4 self_rotate4 := (f2g_eq r_4 self_masking4 self_rotate4) ▸ rfl
  have h5 : r_6 = r_4 ^^^ f3 r_5 self_masking5 self_rotate5 := (f3g_eq r_5 self_masking5 self_rotate5) ▸ rfl
  have h6 : r_7 = r_5 ^^^ f1 r_6 self_masking6 self_rotate6 := (f1g_eq r_6 self_masking6 self_rotate6) ▸ rfl
  have h7 : r_8 = r_6 ^^^ f2 r_7 self_masking7 self_rotate7 := (f2g_eq r_7 self_masking7 self_rotate7) ▸ rfl
  have h8 : r_9 = r_7 ^^^ f3 r_8 self_masking8 self_rotate8 := (f3g_eq r_8 self_masking8 self_rotate8) ▸ rfl
  have h9 : r_10 = r_8 ^^^ f1 r_9 self_masking9 self_rotate9 := (f1g_eq r_9 self_masking9 self_rotate9) ▸ rfl
  have h10 : r_11 = r_9 ^^^ f2 r_10 self_masking10 self_rotate10 := (f2g_eq r_10 self_masking10 self_rotate10) ▸ rfl
  have h11 : r_12 = r_10 ^^^ f3 r_11 self_masking11 self_rotate11 := (f3g_eq r_11 self_masking11 self_rotate11) ▸ rfl
  have R0 : round1 self_masking0 self_rotate0 ⟨l, r⟩ = ⟨r, r_1⟩ := by rw [r1, ← h0]
  have R1 : round2 self_masking1 self_rotate1 ⟨r, r_1⟩ = ⟨r_1, r_2⟩ := by rw [r2, ← h1]
  have R2 : round3 self_masking2 self_rotate2 ⟨r_1, r_2⟩ = ⟨r_2, r_3⟩ := by rw [r3, ← h2]
  have R3 : round1 self_masking3 self_rotate3 ⟨r_2, r_3⟩ = ⟨r_3, r_4⟩ := by rw [r1, ← h3]
  have R4 : round2 self_masking4 self_rotate4 ⟨r_3, r_4⟩ = ⟨r_4, r_5⟩ := by rw [r2, ← h4]
  have R5 : round3 self_masking5 self_rotate5 ⟨r_4, r_5⟩ = ⟨r_5, r_6⟩ := by rw [r3, ← h5]
  have R6 : round1 self_masking6 self_rotate6 ⟨r_5, r_6⟩ = ⟨r_6, r_7⟩ := by rw [r1, ← h6]
  have R7 : round2 self_masking7 self_rotate7 ⟨r_6, r_7⟩ = ⟨r_7, r_8⟩ := by rw [r2, ← h7]
  have R8 : round3 self_masking8 self_rotate8 ⟨r_7, r_8⟩ = ⟨r_8, r_9⟩ := by rw [r3, ← h8]
  have R9 : round1 self_masking9 self_rotate9 ⟨r_8, r_9⟩ = ⟨r_9, r_10⟩ := by rw [r1, ← h9]
  have R10 : round2 self_masking10 self_rotate10 ⟨r_9, r_10⟩ = ⟨r_10, r_11⟩ := by rw [r2, ← h10]
  have R11 : round3 self_masking11 self_rotate11 ⟨r_10, r_11⟩ = ⟨r_11, r_12⟩ := by rw [r3, ← h11]
  rw [out_bytes, encrypt, enc12, hl, R0, R1, R2, R3, R4, R5, R6, R7, R8, R9, R10, R11]
  rfl

/-- `cast5_12r_decrypt_block` (regenerated `Cast5::decrypt_block`, `small_key = true`) is the model's `decrypt`, for all keys and blocks -/
theorem cast5_12r_decrypt_block_eq (self_masking0 self_masking1 self_masking2 self_masking3 self_masking4 self_masking5 self_masking6 self_masking7 self_masking8 self_masking9 self_masking10 self_masking11 self_masking12 self_masking13 self_masking14 self_masking15 : BitVec 32)
    (self_rotate0 self_rotate1 self_rotate2 self_rotate3 self_rotate4 self_rotate5 self_rotate6 self_rotate7 self_rotate8 self_rotate9 self_rotate10 self_rotate11 self_rotate12 self_rotate13 self_rotate14 self_rotate15 : BitVec 8) (block : BitVec 64) :
    cast5_12r_decrypt_block self_masking0 self_masking1 self_masking2 self_masking3 self_masking4 self_masking5 self_masking6 self_masking7 self_masking8 self_masking9 self_masking10 self_masking11 self_masking12 self_masking13 self_masking14 self_masking15
      self_rotate0 self_rotate1 self_rotate2 self_rotate3 self_rotate4 self_rotate5 self_rotate6 self_rotate7 self_rotate8 self_rotate9 self_rotate10 self_rotate11 self_rotate12 self_rotate13 self_rotate14 self_rotate15 block =
    decrypt (mk self_masking0 self_masking1 self_masking2 self_masking3 self_masking4 self_masking5 self_masking6 self_masking7 self_masking8 self_masking9 self_masking10 self_masking11 self_masking12 self_masking13 self_masking14 self_masking15
      self_rotate0 self_rotate1 self_rotate2 self_rotate3 self_rotate4 self_rotate5 self_rotate6 self_rotate7 self_rotate8 self_rotate9 self_rotate10 self_rotate11 self_rotate12 self_rotate13 self_rotate14 self_rotate15 true) block := by
  unfold cast5_12r_decrypt_block
  extract_lets -merge
  name_lets
  have hl : readBlock block = { l := l, r := r } := read_bytes block
  have h0 : r_1 = l ^^^ f3 r self_masking11 self_rotate11 := (f3g_eq r self_masking11 self_rotate11) ▸ rfl
  have h1 : r_2 = r ^^^ f2 r_1 self_masking10 self_rotate10 := (f2g_eq r_1 self_masking10 self_rotate10) ▸ rfl
  have h2 : r_3 = r_1 ^^^ f1 r_2 self_masking9 self_rotate9 := (f1g_eq r_2 self_masking9 self_rotate9) ▸ rfl
  have h3 : r_4 = r_2 ^^^ f3 r_3 self_masking8 self_rotate8 := (f3g_eq r_3 self_masking8 self_rotate8) ▸ rfl
  have h4 : r_5 = r_3 ^^^ f2 r_4 self_masking7 self_rotate7 := (f2g_eq r_4 self_masking7 self_rotate7) ▸ rfl
  have h5 : r_6 = r_4 ^^^ f1 r_5 self_masking6 self_rotate6 := (f1g_eq r_5 self_masking6 self_rotate6) ▸ rfl
  have h6 : r_7 = r_5 ^^^ f3 r_6 self_masking5 self_rotate5 := (f3g_eq r_6 self_masking5 self_rotate5) ▸ rfl
  have h7 : r_8 = r_6 ^^^ f2 r_7 self_masking4 self_rotate4 := (f2g_eq r_7 self_masking4 self_rotate4) ▸ rfl
  have h8 : r_9 = r_7 ^^^ f1 r_8 self_masking3 self_rotate3 := (f1g_eq r_8 self_masking3 self_rotate3) ▸ rfl
  have h9 : r_10 = r_8 ^^^ f3 r_9 self_masking2 self_rotate2 := (f3g_eq r_9 self_masking2 self_rotate2) ▸ rfl
  have h10 : r_11 = r_9 ^^^ f2 r_10 self_masking1 self_rotate1 := (f2g_eq r_10 self_masking1 self_rotate1) ▸ rfl
  have h11 : r_12 = r_10 ^^^ f1 r_11 self_masking0 self_rotate0 := (f1g_eq r_11 self_masking0 self_rotate0) ▸ rfl
  have R0 : round3 self_masking11 self_rotate11 ⟨l, r⟩ = ⟨r, r_1⟩ := by rw [r3, ← h0]
  have R1 : round2 self_masking10 self_rotate10 ⟨r, r_1⟩ = ⟨r_1, r_2⟩ := by rw [r2, ← h1]
  have R2 : round1 self_masking9 self_rotate9 ⟨r_1, r_2⟩ = ⟨r_2, r_3⟩ := by rw [r1, ← h2]
  have R3 : round3 self_masking8 self_rotate8 ⟨r_2, r_3⟩ = ⟨r_3, r_4⟩ := by rw [r3, ← h3]
  have R4 : round2 self_masking7 self_rotate7 ⟨r_3, r_4⟩ = ⟨r_4, r_5⟩ := by rw [r2, ← h4]
  have R5 : round1 self_masking6 self_rotate6 ⟨r_4, r_5⟩ = ⟨r_5, r_6⟩ := by rw [r1, ← h5]
  have R6 : round3 self_masking5 self_rotate5 ⟨r_5, r_6⟩ = ⟨r_6, r_7⟩ := by rw [r3, ← h6]
  have R7 : round2 self_masking4 self_rotate4 ⟨r_6, r_7⟩ = ⟨r_7, r_8⟩ := by rw [r2, ← h7]
  have R8 : round1 self_masking3 self_rotate3 ⟨r_7, r_8⟩ = ⟨r_8, r_9⟩ := by rw [r1, ← h8]
  have R9 : round3 self_masking2 self_rotate2 ⟨r_8, r_9⟩ = ⟨r_9, r_10⟩ := by rw [r3, ← h9]
  have R10 : round2 self_masking1 self_rotate1 ⟨r_9, r_10⟩ = ⟨r_10, r_11⟩ := by rw [r2, ← h10]
  have R11 : round1 self_masking0 self_rotate0 ⟨r_10, r_11⟩ = ⟨r_11, r_12⟩ := by rw [r1, ← h11]
  rw [out_bytes, decrypt, dec12, hl, R0, R1, R2, R3, R4, R5, R6, R7, R8, R9, R10, R11]
  rfl

end BC.GenCipher.Cast5
