import BlockCiphers.Gen.Cipher_Cast6
import BlockCiphers.Gen.Keys_Cast6
import BlockCiphers.Proofs.GenCipherCast6
import BlockCiphers.Proofs.GenKeysCast6
import BlockCiphers.Proofs.Cast6
import BlockCiphers.Proofs.Cast6Spec
/-!
Code-level theorems for CAST-256 (CAST6): statements mention ONLY the regenerated code
(`BC.Gen.Fn.cast6_new_from_slice_<n>`, `cast6_encrypt_block`, `cast6_decrypt_block`) and the specification
`BC.Spec.Cast6` (RFC 2612).  One family per accepted key length n = 16, 20, 24, 28, 32 bytes; the key is a
`BitVec (8·n)` whose most significant byte is byte 0 of the Rust slice (`unpackBE n key` on the Spec side).
Composition of
  (1) `BC.Cast6.decrypt_encrypt_key`, `encrypt_decrypt_key` (Proofs/Cast6.lean; Thm C01), `encrypt_eq_spec`,
      `decrypt_eq_spec` (Proofs/Cast6Spec.lean; Thm C08),
  (2) `BC.GenCipher.Cast6.cast6_encrypt_block_eq` / `cast6_decrypt_block_eq`,
  (3) `BC.GenKeys.Cast6.new_from_slice_<n>_eq`.
-/
set_option maxRecDepth 100000
namespace BC.Code.Cast6
open BC BC.Gen.Fn

/-! ### glue: the struct rebuilt from its flattened fields behaves like the struct (only `km i`, `kr i`, `i < 12`, are read) -/

theorem mk_enc (c : BC.Cast6.Cast6) (b : BitVec 128) :
    BC.Cast6.encrypt (BC.GenCipher.Cast6.mk (c.km 0).m0 (c.km 0).m1 (c.km 0).m2 (c.km 0).m3 (c.km 1).m0 (c.km 1).m1 (c.km 1).m2 (c.km 1).m3 (c.km 2).m0 (c.km 2).m1 (c.km 2).m2 (c.km 2).m3 (c.km 3).m0 (c.km 3).m1 (c.km 3).m2 (c.km 3).m3 (c.km 4).m0 (c.km 4).m1 (c.km 4).m2 (c.km 4).m3 (c.km 5).m0 (c.km 5).m1 (c.km 5).m2 (c.km 5).m3 (c.km 6).m0 (c.km 6).m1 (c.km 6).m2 (c.km 6).m3 (c.km 7).m0 (c.km 7).m1 (c.km 7).m2 (c.km 7).m3 (c.km 8).m0 (c.km 8).m1 (c.km 8).m2 (c.km 8).m3 (c.km 9).m0 (c.km 9).m1 (c.km 9).m2 (c.km 9).m3 (c.km 10).m0 (c.km 10).m1 (c.km 10).m2 (c.km 10).m3 (c.km 11).m0 (c.km 11).m1 (c.km 11).m2 (c.km 11).m3
      (c.kr 0).r0 (c.kr 0).r1 (c.kr 0).r2 (c.kr 0).r3 (c.kr 1).r0 (c.kr 1).r1 (c.kr 1).r2 (c.kr 1).r3 (c.kr 2).r0 (c.kr 2).r1 (c.kr 2).r2 (c.kr 2).r3 (c.kr 3).r0 (c.kr 3).r1 (c.kr 3).r2 (c.kr 3).r3 (c.kr 4).r0 (c.kr 4).r1 (c.kr 4).r2 (c.kr 4).r3 (c.kr 5).r0 (c.kr 5).r1 (c.kr 5).r2 (c.kr 5).r3 (c.kr 6).r0 (c.kr 6).r1 (c.kr 6).r2 (c.kr 6).r3 (c.kr 7).r0 (c.kr 7).r1 (c.kr 7).r2 (c.kr 7).r3 (c.kr 8).r0 (c.kr 8).r1 (c.kr 8).r2 (c.kr 8).r3 (c.kr 9).r0 (c.kr 9).r1 (c.kr 9).r2 (c.kr 9).r3 (c.kr 10).r0 (c.kr 10).r1 (c.kr 10).r2 (c.kr 10).r3 (c.kr 11).r0 (c.kr 11).r1 (c.kr 11).r2 (c.kr 11).r3) b = BC.Cast6.encrypt c b := rfl

theorem mk_dec (c : BC.Cast6.Cast6) (b : BitVec 128) :
    BC.Cast6.decrypt (BC.GenCipher.Cast6.mk (c.km 0).m0 (c.km 0).m1 (c.km 0).m2 (c.km 0).m3 (c.km 1).m0 (c.km 1).m1 (c.km 1).m2 (c.km 1).m3 (c.km 2).m0 (c.km 2).m1 (c.km 2).m2 (c.km 2).m3 (c.km 3).m0 (c.km 3).m1 (c.km 3).m2 (c.km 3).m3 (c.km 4).m0 (c.km 4).m1 (c.km 4).m2 (c.km 4).m3 (c.km 5).m0 (c.km 5).m1 (c.km 5).m2 (c.km 5).m3 (c.km 6).m0 (c.km 6).m1 (c.km 6).m2 (c.km 6).m3 (c.km 7).m0 (c.km 7).m1 (c.km 7).m2 (c.km 7).m3 (c.km 8).m0 (c.km 8).m1 (c.km 8).m2 (c.km 8).m3 (c.km 9).m0 (c.km 9).m1 (c.km 9).m2 (c.km 9).m3 (c.km 10).m0 (c.km 10).m1 (c.km 10).m2 (c.km 10).m3 (c.km 11).m0 (c.km 11).m1 (c.km 11).m2 (c.km 11).m3
      (c.kr 0).r0 (c.kr 0).r1 (c.kr 0).r2 (c.kr 0).r3 (c.kr 1).r0 (c.kr 1).r1 (c.kr 1).r2 (c.kr 1).r3 (c.kr 2).r0 (c.kr 2).r1 (c.kr 2).r2 (c.kr 2).r3 (c.kr 3).r0 (c.kr 3).r1 (c.kr 3).r2 (c.kr 3).r3 (c.kr 4).r0 (c.kr 4).r1 (c.kr 4).r2 (c.kr 4).r3 (c.kr 5).r0 (c.kr 5).r1 (c.kr 5).r2 (c.kr 5).r3 (c.kr 6).r0 (c.kr 6).r1 (c.kr 6).r2 (c.kr 6).r3 (c.kr 7).r0 (c.kr 7).r1 (c.kr 7).r2 (c.kr 7).r3 (c.kr 8).r0 (c.kr 8).r1 (c.kr 8).r2 (c.kr 8).r3 (c.kr 9).r0 (c.kr 9).r1 (c.kr 9).r2 (c.kr 9).r3 (c.kr 10).r0 (c.kr 10).r1 (c.kr 10).r2 (c.kr 10).r3 (c.kr 11).r0 (c.kr 11).r1 (c.kr 11).r2 (c.kr 11).r3) b = BC.Cast6.decrypt c b := rfl

/-- `Cast6::new_from_slice(key).encrypt_block(b)` for a 16-byte key, on the regenerated code -/
def enc_16 (key : BitVec 128) (b : BitVec 128) : BitVec 128 :=
  match cast6_new_from_slice_16 key with
  | (m0_0, m0_1, m0_2, m0_3, m1_0, m1_1, m1_2, m1_3, m2_0, m2_1, m2_2, m2_3, m3_0, m3_1, m3_2, m3_3, m4_0, m4_1, m4_2, m4_3, m5_0, m5_1, m5_2, m5_3, m6_0, m6_1, m6_2, m6_3, m7_0, m7_1, m7_2, m7_3, m8_0, m8_1, m8_2, m8_3, m9_0, m9_1, m9_2, m9_3, m10_0, m10_1, m10_2, m10_3, m11_0, m11_1, m11_2, m11_3, r0_0, r0_1, r0_2, r0_3, r1_0, r1_1, r1_2, r1_3, r2_0, r2_1, r2_2, r2_3, r3_0, r3_1, r3_2, r3_3, r4_0, r4_1, r4_2, r4_3, r5_0, r5_1, r5_2, r5_3, r6_0, r6_1, r6_2, r6_3, r7_0, r7_1, r7_2, r7_3, r8_0, r8_1, r8_2, r8_3, r9_0, r9_1, r9_2, r9_3, r10_0, r10_1, r10_2, r10_3, r11_0, r11_1, r11_2, r11_3) =>
    cast6_encrypt_block m0_0 m0_1 m0_2 m0_3 m1_0 m1_1 m1_2 m1_3 m2_0 m2_1 m2_2 m2_3 m3_0 m3_1 m3_2 m3_3 m4_0 m4_1 m4_2 m4_3 m5_0 m5_1 m5_2 m5_3 m6_0 m6_1 m6_2 m6_3 m7_0 m7_1 m7_2 m7_3 m8_0 m8_1 m8_2 m8_3 m9_0 m9_1 m9_2 m9_3 m10_0 m10_1 m10_2 m10_3 m11_0 m11_1 m11_2 m11_3 r0_0 r0_1 r0_2 r0_3 r1_0 r1_1 r1_2 r1_3 r2_0 r2_1 r2_2 r2_3 r3_0 r3_1 r3_2 r3_3 r4_0 r4_1 r4_2 r4_3 r5_0 r5_1 r5_2 r5_3 r6_0 r6_1 r6_2 r6_3 r7_0 r7_1 r7_2 r7_3 r8_0 r8_1 r8_2 r8_3 r9_0 r9_1 r9_2 r9_3 r10_0 r10_1 r10_2 r10_3 r11_0 r11_1 r11_2 r11_3 b

/-- `Cast6::new_from_slice(key).decrypt_block(b)` for a 16-byte key, on the regenerated code -/
def dec_16 (key : BitVec 128) (b : BitVec 128) : BitVec 128 :=
  match cast6_new_from_slice_16 key with
  | (m0_0, m0_1, m0_2, m0_3, m1_0, m1_1, m1_2, m1_3, m2_0, m2_1, m2_2, m2_3, m3_0, m3_1, m3_2, m3_3, m4_0, m4_1, m4_2, m4_3, m5_0, m5_1, m5_2, m5_3, m6_0, m6_1, m6_2, m6_3, m7_0, m7_1, m7_2, m7_3, m8_0, m8_1, m8_2, m8_3, m9_0, m9_1, m9_2, m9_3, m10_0, m10_1, m10_2, m10_3, m11_0, m11_1, m11_2, m11_3, r0_0, r0_1, r0_2, r0_3, r1_0, r1_1, r1_2, r1_3, r2_0, r2_1, r2_2, r2_3, r3_0, r3_1, r3_2, r3_3, r4_0, r4_1, r4_2, r4_3, r5_0, r5_1, r5_2, r5_3, r6_0, r6_1, r6_2, r6_3, r7_0, r7_1, r7_2, r7_3, r8_0, r8_1, r8_2, r8_3, r9_0, r9_1, r9_2, r9_3, r10_0, r10_1, r10_2, r10_3, r11_0, r11_1, r11_2, r11_3) =>
    cast6_decrypt_block m0_0 m0_1 m0_2 m0_3 m1_0 m1_1 m1_2 m1_3 m2_0 m2_1 m2_2 m2_3 m3_0 m3_1 m3_2 m3_3 m4_0 m4_1 m4_2 m4_3 m5_0 m5_1 m5_2 m5_3 m6_0 m6_1 m6_2 m6_3 m7_0 m7_1 m7_2 m7_3 m8_0 m8_1 m8_2 m8_3 m9_0 m9_1 m9_2 m9_3 m10_0 m10_1 m10_2 m10_3 m11_0 m11_1 m11_2 m11_3 r0_0 r0_1 r0_2 r0_3 r1_0 r1_1 r1_2 r1_3 r2_0 r2_1 r2_2 r2_3 r3_0 r3_1 r3_2 r3_3 r4_0 r4_1 r4_2 r4_3 r5_0 r5_1 r5_2 r5_3 r6_0 r6_1 r6_2 r6_3 r7_0 r7_1 r7_2 r7_3 r8_0 r8_1 r8_2 r8_3 r9_0 r9_1 r9_2 r9_3 r10_0 r10_1 r10_2 r10_3 r11_0 r11_1 r11_2 r11_3 b

theorem enc_16_eq_impl (key : BitVec 128) (b : BitVec 128) :
    enc_16 key b = BC.Cast6.encrypt (BC.Cast6.keySchedule (unpackBE 16 key)) b := by
  unfold enc_16
  rw [BC.GenKeys.Cast6.new_from_slice_16_eq key]
  simp only [BC.GenKeys.Cast6.c6Tuple]
  rw [BC.GenCipher.Cast6.cast6_encrypt_block_eq]
  exact mk_enc _ b

theorem dec_16_eq_impl (key : BitVec 128) (b : BitVec 128) :
    dec_16 key b = BC.Cast6.decrypt (BC.Cast6.keySchedule (unpackBE 16 key)) b := by
  unfold dec_16
  rw [BC.GenKeys.Cast6.new_from_slice_16_eq key]
  simp only [BC.GenKeys.Cast6.c6Tuple]
  rw [BC.GenCipher.Cast6.cast6_decrypt_block_eq]
  exact mk_dec _ b

theorem accepts_16 (key : BitVec 128) : BC.Cast6.accepts (unpackBE 16 key).length = true := by
  simp [unpackBE, BC.Cast6.accepts]

theorem dec_enc_16 (key : BitVec 128) (b : BitVec 128) : dec_16 key (enc_16 key b) = b := by
  rw [enc_16_eq_impl, dec_16_eq_impl, BC.Cast6.decrypt_encrypt_key]

theorem enc_dec_16 (key : BitVec 128) (b : BitVec 128) : enc_16 key (dec_16 key b) = b := by
  rw [enc_16_eq_impl, dec_16_eq_impl, BC.Cast6.encrypt_decrypt_key]

/-- the regenerated CAST-256 code = RFC 2612, 16-byte keys -/
theorem enc_16_eq_spec (key : BitVec 128) (b : BitVec 128) : enc_16 key b = BC.Spec.Cast6.encrypt (unpackBE 16 key) b := by
  rw [enc_16_eq_impl, BC.Cast6.encrypt_eq_spec _ (accepts_16 key)]

theorem dec_16_eq_spec (key : BitVec 128) (b : BitVec 128) : dec_16 key b = BC.Spec.Cast6.decrypt (unpackBE 16 key) b := by
  rw [dec_16_eq_impl, BC.Cast6.decrypt_eq_spec _ (accepts_16 key)]

/-- `Cast6::new_from_slice(key).encrypt_block(b)` for a 20-byte key, on the regenerated code -/
def enc_20 (key : BitVec 160) (b : BitVec 128) : BitVec 128 :=
  match cast6_new_from_slice_20 key with
  | (m0_0, m0_1, m0_2, m0_3, m1_0, m1_1, m1_2, m1_3, m2_0, m2_1, m2_2, m2_3, m3_0, m3_1, m3_2, m3_3, m4_0, m4_1, m4_2, m4_3, m5_0, m5_1, m5_2, m5_3, m6_0, m6_1, m6_2, m6_3, m7_0, m7_1, m7_2, m7_3, m8_0, m8_1, m8_2, m8_3, m9_0, m9_1, m9_2, m9_3, m10_0, m10_1, m10_2, m10_3, m11_0, m11_1, m11_2, m11_3, r0_0, r0_1, r0_2, r0_3, r1_0, r1_1, r1_2, r1_3, r2_0, r2_1, r2_2, r2_3, r3_0, r3_1, r3_2, r3_3, r4_0, r4_1, r4_2, r4_3, r5_0, r5_1, r5_2, r5_3, r6_0, r6_1, r6_2, r6_3, r7_0, r7_1, r7_2, r7_3, r8_0, r8_1, r8_2, r8_3, r9_0, r9_1, r9_2, r9_3, r10_0, r10_1, r10_2, r10_3, r11_0, r11_1, r11_2, r11_3) =>
    cast6_encrypt_block m0_0 m0_1 m0_2 m0_3 m1_0 m1_1 m1_2 m1_3 m2_0 m2_1 m2_2 m2_3 m3_0 m3_1 m3_2 m3_3 m4_0 m4_1 m4_2 m4_3 m5_0 m5_1 m5_2 m5_3 m6_0 m6_1 m6_2 m6_3 m7_0 m7_1 m7_2 m7_3 m8_0 m8_1 m8_2 m8_3 m9_0 m9_1 m9_2 m9_3 m10_0 m10_1 m10_2 m10_3 m11_0 m11_1 m11_2 m11_3 r0_0 r0_1 r0_2 r0_3 r1_0 r1_1 r1_2 r1_3 r2_0 r2_1 r2_2 r2_3 r3_0 r3_1 r3_2 r3_3 r4_0 r4_1 r4_2 r4_3 r5_0 r5_1 r5_2 r5_3 r6_0 r6_1 r6_2 r6_3 r7_0 r7_1 r7_2 r7_3 r8_0 r8_1 r8_2 r8_3 r9_0 r9_1 r9_2 r9_3 r10_0 r10_1 r10_2 r10_3 r11_0 r11_1 r11_2 r11_3 b

/-- `Cast6::new_from_slice(key).decrypt_block(b)` for a 20-byte key, on the regenerated code -/
def dec_20 (key : BitVec 160) (b : BitVec 128) : BitVec 128 :=
  match cast6_new_from_slice_20 key with
  | (m0_0, m0_1, m0_2, m0_3, m1_0, m1_1, m1_2, m1_3, m2_0, m2_1, m2_2, m2_3, m3_0, m3_1, m3_2, m3_3, m4_0, m4_1, m4_2, m4_3, m5_0, m5_1, m5_2, m5_3, m6_0, m6_1, m6_2, m6_3, m7_0, m7_1, m7_2, m7_3, m8_0, m8_1, m8_2, m8_3, m9_0, m9_1, m9_2, m9_3, m10_0, m10_1, m10_2, m10_3, m11_0, m11_1, m11_2, m11_3, r0_0, r0_1, r0_2, r0_3, r1_0, r1_1, r1_2, r1_3, r2_0, r2_1, r2_2, r2_3, r3_0, r3_1, r3_2, r3_3, r4_0, r4_1, r4_2, r4_3, r5_0, r5_1, r5_2, r5_3, r6_0, r6_1, r6_2, r6_3, r7_0, r7_1, r7_2, r7_3, r8_0, r8_1, r8_2, r8_3, r9_0, r9_1, r9_2, r9_3, r10_0, r10_1, r10_2, r10_3, r11_0, r11_1, r11_2, r11_3) =>
    cast6_decrypt_block m0_0 m0_1 m0_2 m0_3 m1_0 m1_1 m1_2 m1_3 m2_0 m2_1 m2_2 m2_3 m3_0 m3_1 m3_2 m3_3 m4_0 m4_1 m4_2 m4_3 m5_0 m5_1 m5_2 m5_3 m6_0 m6_1 m6_2 m6_3 m7_0 m7_1 m7_2 m7_3 m8_0 m8_1 m8_2 m8_3 m9_0 m9_1 m9_2 m9_3 m10_0 m10_1 m10_2 m10_3 m11_0 m11_1 m11_2 m11_3 r0_0 r0_1 r0_2 r0_3 r1_0 r1_1 r1_2 r1_3 r2_0 r2_1 r2_2 r2_3 r3_0 r3_1 r3_2 r3_3 r4_0 r4_1 r4_2 r4_3 r5_0 r5_1 r5_2 r5_3 r6_0 r6_1 r6_2 r6_3 r7_0 r7_1 r7_2 r7_3 r8_0 r8_1 r8_2 r8_3 r9_0 r9_1 r9_2 r9_3 r10_0 r10_1 r10_2 r10_3 r11_0 r11_1 r11_2 r11_3 b

theorem enc_20_eq_impl (key : BitVec 160) (b : BitVec 128) :
    enc_20 key b = BC.Cast6.encrypt (BC.Cast6.keySchedule (unpackBE 20 key)) b := by
  unfold enc_20
  rw [BC.GenKeys.Cast6.new_from_slice_20_eq key]
  simp only [BC.GenKeys.Cast6.c6Tuple]
  rw [BC.GenCipher.Cast6.cast6_encrypt_block_eq]
  exact mk_enc _ b

theorem dec_20_eq_impl (key : BitVec 160) (b : BitVec 128) :
    dec_20 key b = BC.Cast6.decrypt (BC.Cast6.keySchedule (unpackBE 20 key)) b := by
  unfold dec_20
  rw [BC.GenKeys.Cast6.new_from_slice_20_eq key]
  simp only [BC.GenKeys.Cast6.c6Tuple]
  rw [BC.GenCipher.Cast6.cast6_decrypt_block_eq]
  exact mk_dec _ b

theorem accepts_20 (key : BitVec 160) : BC.Cast6.accepts (unpackBE 20 key).length = true := by
  simp [unpackBE, BC.Cast6.accepts]

theorem dec_enc_20 (key : BitVec 160) (b : BitVec 128) : dec_20 key (enc_20 key b) = b := by
  rw [enc_20_eq_impl, dec_20_eq_impl, BC.Cast6.decrypt_encrypt_key]

theorem enc_dec_20 (key : BitVec 160) (b : BitVec 128) : enc_20 key (dec_20 key b) = b := by
  rw [enc_20_eq_impl, dec_20_eq_impl, BC.Cast6.encrypt_decrypt_key]

/-- the regenerated CAST-256 code = RFC 2612, 20-byte keys -/
theorem enc_20_eq_spec (key : BitVec 160) (b : BitVec 128) : enc_20 key b = BC.Spec.Cast6.encrypt (unpackBE 20 key) b := by
  rw [enc_20_eq_impl, BC.Cast6.encrypt_eq_spec _ (accepts_20 key)]

theorem dec_20_eq_spec (key : BitVec 160) (b : BitVec 128) : dec_20 key b = BC.Spec.Cast6.decrypt (unpackBE 20 key) b := by
  rw [dec_20_eq_impl, BC.Cast6.decrypt_eq_spec _ (accepts_20 key)]

/-- `Cast6::new_from_slice(key).encrypt_block(b)` for a 24-byte key, on the regenerated code -/
def enc_24 (key : BitVec 192) (b : BitVec 128) : BitVec 128 :=
  match cast6_new_from_slice_24 key with
  | (m0_0, m0_1, m0_2, m0_3, m1_0, m1_1, m1_2, m1_3, m2_0, m2_1, m2_2, m2_3, m3_0, m3_1, m3_2, m3_3, m4_0, m4_1, m4_2, m4_3, m5_0, m5_1, m5_2, m5_3, m6_0, m6_1, m6_2, m6_3, m7_0, m7_1, m7_2, m7_3, m8_0, m8_1, m8_2, m8_3, m9_0, m9_1, m9_2, m9_3, m10_0, m10_1, m10_2, m10_3, m11_0, m11_1, m11_2, m11_3, r0_0, r0_1, r0_2, r0_3, r1_0, r1_1, r1_2, r1_3, r2_0, r2_1, r2_2, r2_3, r3_0, r3_1, r3_2, r3_3, r4_0, r4_1, r4_2, r4_3, r5_0, r5_1, r5_2, r5_3, r6_0, r6_1, r6_2, r6_3, r7_0, r7_1, r7_2, r7_3, r8_0, r8_1, r8_2, r8_3, r9_0, r9_1, r9_2, r9_3, r10_0, r10_1, r10_2, r10_3, r11_0, r11_1, r11_2, r11_3) =>
    cast6_encrypt_block m0_0 m0_1 m0_2 m0_3 m1_0 m1_1 m1_2 m1_3 m2_0 m2_1 m2_2 m2_3 m3_0 m3_1 m3_2 m3_3 m4_0 m4_1 m4_2 m4_3 m5_0 m5_1 m5_2 m5_3 m6_0 m6_1 m6_2 m6_3 m7_0 m7_1 m7_2 m7_3 m8_0 m8_1 m8_2 m8_3 m9_0 m9_1 m9_2 m9_3 m10_0 m10_1 m10_2 m10_3 m11_0 m11_1 m11_2 m11_3 r0_0 r0_1 r0_2 r0_3 r1_0 r1_1 r1_2 r1_3 r2_0 r2_1 r2_2 r2_3 r3_0 r3_1 r3_2 r3_3 r4_0 r4_1 r4_2 r4_3 r5_0 r5_1 r5_2 r5_3 r6_0 r6_1 r6_2 r6_3 r7_0 r7_1 r7_2 r7_3 r8_0 r8_1 r8_2 r8_3 r9_0 r9_1 r9_2 r9_3 r10_0 r10_1 r10_2 r10_3 r11_0 r11_1 r11_2 r11_3 b

/-- `Cast6::new_from_slice(key).decrypt_block(b)` for a 24-byte key, on the regenerated code -/
def dec_24 (key : BitVec 192) (b : BitVec 128) : BitVec 128 :=
  match cast6_new_from_slice_24 key with
  | (m0_0, m0_1, m0_2, m0_3, m1_0, m1_1, m1_2, m1_3, m2_0, m2_1, m2_2, m2_3, m3_0, m3_1, m3_2, m3_3, m4_0, m4_1, m4_2, m4_3, m5_0, m5_1, m5_2, m5_3, m6_0, m6_1, m6_2, m6_3, m7_0, m7_1, m7_2, m7_3, m8_0, m8_1, m8_2, m8_3, m9_0, m9_1, m9_2, m9_3, m10_0, m10_1, m10_2, m10_3, m11_0, m11_1, m11_2, m11_3, r0_0, r0_1, r0_2, r0_3, r1_0, r1_1, r1_2, r1_3, r2_0, r2_1, r2_2, r2_3, r3_0, r3_1, r3_2, r3_3, r4_0, r4_1, r4_2, r4_3, r5_0, r5_1, r5_2, r5_3, r6_0, r6_1, r6_2, r6_3, r7_0, r7_1, r7_2, r7_3, r8_0, r8_1, r8_2, r8_3, r9_0, r9_1, r9_2, r9_3, r10_0, r10_1, r10_2, r10_3, r11_0, r11_1, r11_2, r11_3) =>
    cast6_decrypt_block m0_0 m0_1 m0_2 m0_3 m1_0 m1_1 m1_2 m1_3 m2_0 m2_1 m2_2 m2_3 m3_0 m3_1 m3_2 m3_3 m4_0 m4_1 m4_2 m4_3 m5_0 m5_1 m5_2 m5_3 m6_0 m6_1 m6_2 m6_3 m7_0 m7_1 m7_2 m7_3 m8_0 m8_1 m8_2 m8_3 m9_0 m9_1 m9_2 m9_3 m10_0 m10_1 m10_2 m10_3 m11_0 m11_1 m11_2 m11_3 r0_0 r0_1 r0_2 r0_3 r1_0 r1_1 r1_2 r1_3 r2_0 r2_1 r2_2 r2_3 r3_0 r3_1 r3_2 r3_3 r4_0 r4_1 r4_2 r4_3 r5_0 r5_1 r5_2 r5_3 r6_0 r6_1 r6_2 r6_3 r7_0 r7_1 r7_2 r7_3 r8_0 r8_1 r8_2 r8_3 r9_0 r9_1 r9_2 r9_3 r10_0 r10_1 r10_2 r10_3 r11_0 r11_1 r11_2 r11_3 b

theorem enc_24_eq_impl (key : BitVec 192) (b : BitVec 128) :
    enc_24 key b = BC.Cast6.encrypt (BC.Cast6.keySchedule (unpackBE 24 key)) b := by
  unfold enc_24
  rw [BC.GenKeys.Cast6.new_from_slice_24_eq key]
  simp only [BC.GenKeys.Cast6.c6Tuple]
  rw [BC.GenCipher.Cast6.cast6_encrypt_block_eq]
  exact mk_enc _ b

theorem dec_24_eq_impl (key : BitVec 192) (b : BitVec 128) :
    dec_24 key b = BC.Cast6.decrypt (BC.Cast6.keySchedule (unpackBE 24 key)) b := by
  unfold dec_24
  rw [BC.GenKeys.Cast6.new_from_slice_24_eq key]
  simp only [BC.GenKeys.Cast6.c6Tuple]
  rw [BC.GenCipher.Cast6.cast6_decrypt_block_eq]
  exact mk_dec _ b

theorem accepts_24 (key : BitVec 192) : BC.Cast6.accepts (unpackBE 24 key).length = true := by
  simp [unpackBE, BC.Cast6.accepts]

theorem dec_enc_24 (key : BitVec 192) (b : BitVec 128) : dec_24 key (enc_24 key b) = b := by
  rw [enc_24_eq_impl, dec_24_eq_impl, BC.Cast6.decrypt_encrypt_key]

theorem enc_dec_24 (key : BitVec 192) (b : BitVec 128) : enc_24 key (dec_24 key b) = b := by
  rw [enc_24_eq_impl, dec_24_eq_impl, BC.Cast6.encrypt_decrypt_key]

/-- the regenerated CAST-256 code = RFC 2612, 24-byte keys -/
theorem enc_24_eq_spec (key : BitVec 192) (b : BitVec 128) : enc_24 key b = BC.Spec.Cast6.encrypt (unpackBE 24 key) b := by
  rw [enc_24_eq_impl, BC.Cast6.encrypt_eq_spec _ (accepts_24 key)]

theorem dec_24_eq_spec (key : BitVec 192) (b : BitVec 128) : dec_24 key b = BC.Spec.Cast6.decrypt (unpackBE 24 key) b := by
  rw [dec_24_eq_impl, BC.Cast6.decrypt_eq_spec _ (accepts_24 key)]

/-- `Cast6::new_from_slice(key).encrypt_block(b)` for a 28-byte key, on the regenerated code -/
def enc_28 (key : BitVec 224) (b : BitVec 128) : BitVec 128 :=
  match cast6_new_from_slice_28 key with
  | (m0_0, m0_1, m0_2, m0_3, m1_0, m1_1, m1_2, m1_3, m2_0, m2_1, m2_2, m2_3, m3_0, m3_1, m3_2, m3_3, m4_0, m4_1, m4_2, m4_3, m5_0, m5_1, m5_2, m5_3, m6_0, m6_1, m6_2, m6_3, m7_0, m7_1, m7_2, m7_3, m8_0, m8_1, m8_2, m8_3, m9_0, m9_1, m9_2, m9_3, m10_0, m10_1, m10_2, m10_3, m11_0, m11_1, m11_2, m11_3, r0_0, r0_1, r0_2, r0_3, r1_0, r1_1, r1_2, r1_3, r2_0, r2_1, r2_2, r2_3, r3_0, r3_1, r3_2, r3_3, r4_0, r4_1, r4_2, r4_3, r5_0, r5_1, r5_2, r5_3, r6_0, r6_1, r6_2, r6_3, r7_0, r7_1, r7_2, r7_3, r8_0, r8_1, r8_2, r8_3, r9_0, r9_1, r9_2, r9_3, r10_0, r10_1, r10_2, r10_3, r11_0, r11_1, r11_2, r11_3) =>
    cast6_encrypt_block m0_0 m0_1 m0_2 m0_3 m1_0 m1_1 m1_2 m1_3 m2_0 m2_1 m2_2 m2_3 m3_0 m3_1 m3_2 m3_3 m4_0 m4_1 m4_2 m4_3 m5_0 m5_1 m5_2 m5_3 m6_0 m6_1 m6_2 m6_3 m7_0 m7_1 m7_2 m7_3 m8_0 m8_1 m8_2 m8_3 m9_0 m9_1 m9_2 m9_3 m10_0 m10_1 m10_2 m10_3 m11_0 m11_1 m11_2 m11_3 r0_0 r0_1 r0_2 r0_3 r1_0 r1_1 r1_2 r1_3 r2_0 r2_1 r2_2 r2_3 r3_0 r3_1 r3_2 r3_3 r4_0 r4_1 r4_2 r4_3 r5_0 r5_1 r5_2 r5_3 r6_0 r6_1 r6_2 r6_3 r7_0 r7_1 r7_2 r7_3 r8_0 r8_1 r8_2 r8_3 r9_0 r9_1 r9_2 r9_3 r10_0 r10_1 r10_2 r10_3 r11_0 r11_1 r11_2 r11_3 b

/-- `Cast6::new_from_slice(key).decrypt_block(b)` for a 28-byte key, on the regenerated code -/
def dec_28 (key : BitVec 224) (b : BitVec 128) : BitVec 128 :=
  match cast6_new_from_slice_28 key with
  | (m0_0, m0_1, m0_2, m0_3, m1_0, m1_1, m1_2, m1_3, m2_0, m2_1, m2_2, m2_3, m3_0, m3_1, m3_2, m3_3, m4_0, m4_1, m4_2, m4_3, m5_0, m5_1, m5_2, m5_3, m6_0, m6_1, m6_2, m6_3, m7_0, m7_1, m7_2, m7_3, m8_0, m8_1, m8_2, m8_3, m9_0, m9_1, m9_2, m9_3, m10_0, m10_1, m10_2, m10_3, m11_0, m11_1, m11_2, m11_3, r0_0, r0_1, r0_2, r0_3, r1_0, r1_1, r1_2, r1_3, r2_0, r2_1, r2_2, r2_3, r3_0, r3_1, r3_2, r3_3, r4_0, r4_1, r4_2, r4_3, r5_0, r5_1, r5_2, r5_3, r6_0, r6_1, r6_2, r6_3, r7_0, r7_1, r7_2, r7_3, r8_0, r8_1, r8_2, r8_3, r9_0, r9_1, r9_2, r9_3, r10_0, r10_1, r10_2, r10_3, r11_0, r11_1, r11_2, r11_3) =>
    cast6_decrypt_block m0_0 m0_1 m0_2 m0_3 m1_0 m1_1 m1_2 m1_3 m2_0 m2_1 m2_2 m2_3 m3_0 m3_1 m3_2 m3_3 m4_0 m4_1 m4_2 m4_3 m5_0 m5_1 m5_2 m5_3 m6_0 m6_1 m6_2 m6_3 m7_0 m7_1 m7_2 m7_3 m8_0 m8_1 m8_2 m8_3 m9_0 m9_1 m9_2 m9_3 m10_0 m10_1 m10_2 m10_3 m11_0 m11_1 m11_2 m11_3 r0_0 r0_1 r0_2 r0_3 r1_0 r1_1 r1_2 r1_3 r2_0 r2_1 r2_2 r2_3 r3_0 r3_1 r3_2 r3_3 r4_0 r4_1 r4_2 r4_3 r5_0 r5_1 r5_2 r5_3 r6_0 r6_1 r6_2 r6_3 r7_0 r7_1 r7_2 r7_3 r8_0 r8_1 r8_2 r8_3 r9_0 r9_1 r9_2 r9_3 r10_0 r10_1 r10_2 r10_3 r11_0 r11_1 r11_2 r11_3 b

theorem enc_28_eq_impl (key : BitVec 224) (b : BitVec 128) :
    enc_28 key b = BC.Cast6.encrypt (BC.Cast6.keySchedule (unpackBE 28 key)) b := by
  unfold enc_28
  rw [BC.GenKeys.Cast6.new_from_slice_28_eq key]
  simp only [BC.GenKeys.Cast6.c6Tuple]
  rw [BC.GenCipher.Cast6.cast6_encrypt_block_eq]
  exact mk_enc _ b

theorem dec_28_eq_impl (key : BitVec 224) (b : BitVec 128) :
    dec_28 key b = BC.Cast6.decrypt (BC.Cast6.keySchedule (unpackBE 28 key)) b := by
  unfold dec_28
  rw [BC.GenKeys.Cast6.new_from_slice_28_eq key]
  simp only [BC.GenKeys.Cast6.c6Tuple]
  rw [BC.GenCipher.Cast6.cast6_decrypt_block_eq]
  exact mk_dec _ b

theorem accepts_28 (key : BitVec 224) : BC.Cast6.accepts (unpackBE 28 key).length = true := by
  simp [unpackBE, BC.Cast6.accepts]

theorem dec_enc_28 (key : BitVec 224) (b : BitVec 128) : dec_28 key (enc_28 key b) = b := by
  rw [enc_28_eq_impl, dec_28_eq_impl, BC.Cast6.decrypt_encrypt_key]

theorem enc_dec_28 (key : BitVec 224) (b : BitVec 128) : enc_28 key (dec_28 key b) = b := by
  rw [enc_28_eq_impl, dec_28_eq_impl, BC.Cast6.encrypt_decrypt_key]

/-- the regenerated CAST-256 code = RFC 2612, 28-byte keys -/
theorem enc_28_eq_spec (key : BitVec 224) (b : BitVec 128) : enc_28 key b = BC.Spec.Cast6.encrypt (unpackBE 28 key) b := by
  rw [enc_28_eq_impl, BC.Cast6.encrypt_eq_spec _ (accepts_28 key)]

theorem dec_28_eq_spec (key : BitVec 224) (b : BitVec 128) : dec_28 key b = BC.Spec.Cast6.decrypt (unpackBE 28 key) b := by
  rw [dec_28_eq_impl, BC.Cast6.decrypt_eq_spec _ (accepts_28 key)]

/-- `Cast6::new_from_slice(key).encrypt_block(b)` for a 32-byte key, on the regenerated code -/
def enc_32 (key : BitVec 256) (b : BitVec 128) : BitVec 128 :=
  match cast6_new_from_slice_32 key with
  | (m0_0, m0_1, m0_2, m0_3, m1_0, m1_1, m1_2, m1_3, m2_0, m2_1, m2_2, m2_3, m3_0, m3_1, m3_2, m3_3, m4_0, m4_1, m4_2, m4_3, m5_0, m5_1, m5_2, m5_3, m6_0, m6_1, m6_2, m6_3, m7_0, m7_1, m7_2, m7_3, m8_0, m8_1, m8_2, m8_3, m9_0, m9_1, m9_2, m9_3, m10_0, m10_1, m10_2, m10_3, m11_0, m11_1, m11_2, m11_3, r0_0, r0_1, r0_2, r0_3, r1_0, r1_1, r1_2, r1_3, r2_0, r2_1, r2_2, r2_3, r3_0, r3_1, r3_2, r3_3, r4_0, r4_1, r4_2, r4_3, r5_0, r5_1, r5_2, r5_3, r6_0, r6_1, r6_2, r6_3, r7_0, r7_1, r7_2, r7_3, r8_0, r8_1, r8_2, r8_3, r9_0, r9_1, r9_2, r9_3, r10_0, r10_1, r10_2, r10_3, r11_0, r11_1, r11_2, r11_3) =>
    cast6_encrypt_block m0_0 m0_1 m0_2 m0_3 m1_0 m1_1 m1_2 m1_3 m2_0 m2_1 m2_2 m2_3 m3_0 m3_1 m3_2 m3_3 m4_0 m4_1 m4_2 m4_3 m5_0 m5_1 m5_2 m5_3 m6_0 m6_1 m6_2 m6_3 m7_0 m7_1 m7_2 m7_3 m8_0 m8_1 m8_2 m8_3 m9_0 m9_1 m9_2 m9_3 m10_0 m10_1 m10_2 m10_3 m11_0 m11_1 m11_2 m11_3 r0_0 r0_1 r0_2 r0_3 r1_0 r1_1 r1_2 r1_3 r2_0 r2_1 r2_2 r2_3 r3_0 r3_1 r3_2 r3_3 r4_0 r4_1 r4_2 r4_3 r5_0 r5_1 r5_2 r5_3 r6_0 r6_1 r6_2 r6_3 r7_0 r7_1 r7_2 r7_3 r8_0 r8_1 r8_2 r8_3 r9_0 r9_1 r9_2 r9_3 r10_0 r10_1 r10_2 r10_3 r11_0 r11_1 r11_2 r11_3 b

/-- `Cast6::new_from_slice(key).decrypt_block(b)` for a 32-byte key, on the regenerated code -/
def dec_32 (key : BitVec 256) (b : BitVec 128) : BitVec 128 :=
  match cast6_new_from_slice_32 key with
  | (m0_0, m0_1, m0_2, m0_3, m1_0, m1_1, m1_2, m1_3, m2_0, m2_1, m2_2, m2_3, m3_0, m3_1, m3_2, m3_3, m4_0, m4_1, m4_2, m4_3, m5_0, m5_1, m5_2, m5_3, m6_0, m6_1, m6_2, m6_3, m7_0, m7_1, m7_2, m7_3, m8_0, m8_1, m8_2, m8_3, m9_0, m9_1, m9_2, m9_3, m10_0, m10_1, m10_2, m10_3, m11_0, m11_1, m11_2, m11_3, r0_0, r0_1, r0_2, r0_3, r1_0, r1_1, r1_2, r1_3, r2_0, r2_1, r2_2, r2_3, r3_0, r3_1, r3_2, r3_3, r4_0, r4_1, r4_2, r4_3, r5_0, r5_1, r5_2, r5_3, r6_0, r6_1, r6_2, r6_3, r7_0, r7_1, r7_2, r7_3, r8_0, r8_1, r8_2, r8_3, r9_0, r9_1, r9_2, r9_3, r10_0, r10_1, r10_2, r10_3, r11_0, r11_1, r11_2, r11_3) =>
    cast6_decrypt_block m0_0 m0_1 m0_2 m0_3 m1_0 m1_1 m1_2 m1_3 m2_0 m2_1 m2_2 m2_3 m3_0 m3_1 m3_2 m3_3 m4_0 m4_1 m4_2 m4_3 m5_0 m5_1 m5_2 m5_3 m6_0 m6_1 m6_2 m6_3 m7_0 m7_1 m7_2 m7_3 m8_0 m8_1 m8_2 m8_3 m9_0 m9_1 m9_2 m9_3 m10_0 m10_1 m10_2 m10_3 m11_0 m11_1 m11_2 m11_3 r0_0 r0_1 r0_2 r0_3 r1_0 r1_1 r1_2 r1_3 r2_0 r2_1 r2_2 r2_3 r3_0 r3_1 r3_2 r3_3 r4_0 r4_1 r4_2 r4_3 r5_0 r5_1 r5_2 r5_3 r6_0 r6_1 r6_2 r6_3 r7_0 r7_1 r7_2 r7_3 r8_0 r8_1 r8_2 r8_3 r9_0 r9_1 r9_2 r9_3 r10_0 r10_1 r10_2 r10_3 r11_0 r11_1 r11_2 r11_3 b

theorem enc_32_eq_impl (key : BitVec 256) (b : BitVec 128) :
    enc_32 key b = BC.Cast6.encrypt (BC.Cast6.keySchedule (unpackBE 32 key)) b := by
  unfold enc_32
  rw [BC.GenKeys.Cast6.new_from_slice_32_eq key]
  simp only [BC.GenKeys.Cast6.c6Tuple]
  rw [BC.GenCipher.Cast6.cast6_encrypt_block_eq]
  exact mk_enc _ b

theorem dec_32_eq_impl (key : BitVec 256) (b : BitVec 128) :
    dec_32 key b = BC.Cast6.decrypt (BC.Cast6.keySchedule (unpackBE 32 key)) b := by
  unfold dec_32
  rw [BC.GenKeys.Cast6.new_from_slice_32_eq key]
  simp only [BC.GenKeys.Cast6.c6Tuple]
  rw [BC.GenCipher.Cast6.cast6_decrypt_block_eq]
  exact mk_dec _ b

theorem accepts_32 (key : BitVec 256) : BC.Cast6.accepts (unpackBE 32 key).length = true := by
  simp [unpackBE, BC.Cast6.accepts]

theorem dec_enc_32 (key : BitVec 256) (b : BitVec 128) : dec_32 key (enc_32 key b) = b := by
  rw [enc_32_eq_impl, dec_32_eq_impl, BC.Cast6.decrypt_encrypt_key]

theorem enc_dec_32 (key : BitVec 256) (b : BitVec 128) : enc_32 key (dec_32 key b) = b := by
  rw [enc_32_eq_impl, dec_32_eq_impl, BC.Cast6.encrypt_decrypt_key]

/-- the regenerated CAST-256 code = RFC 2612, 32-byte keys -/
theorem enc_32_eq_spec (key : BitVec 256) (b : BitVec 128) : enc_32 key b = BC.Spec.Cast6.encrypt (unpackBE 32 key) b := by
  rw [enc_32_eq_impl, BC.Cast6.encrypt_eq_spec _ (accepts_32 key)]

theorem dec_32_eq_spec (key : BitVec 256) (b : BitVec 128) : dec_32 key b = BC.Spec.Cast6.decrypt (unpackBE 32 key) b := by
  rw [dec_32_eq_impl, BC.Cast6.decrypt_eq_spec _ (accepts_32 key)]

end BC.Code.Cast6
