import BlockCiphers.Proofs.Belt
/-
BelT wide block (C18 / C01): `belt_wblock_dec` inverts `belt_wblock_enc` and vice versa for EVERY input of
at least 32 bytes (any length, not only multiples of 16), every key and every `usize` width; shorter
inputs give the length error and leave the buffer unmodified.

Structure: a buffer of length `len ≥ 32` is `r1 ++ M ++ rt` (first block, middle, last 16 bytes); one
encryption round maps it to `M ++ (rt ⊕ E(s) ⊕ ⟨i⟩) ++ s` with `s = r1 ⊕ Σ(M ++ rt)`, one decryption round
maps `M ++ T ++ S` to `(S ⊕ Σ(M ++ T')) ++ M ++ T'` with `T' = T ⊕ E(S) ⊕ ⟨i⟩` (`Σ` = xor of the full
16-byte chunks among all but the last byte).  A decryption round with the same counter undoes an
encryption round; induction over the `2n` rounds.  Nothing about `E = belt_block_raw` is used except that
it returns 16 bytes.
-/
namespace BC.Belt

/-! ### `xor_set` -/

theorem xorSet_length (a b : Bytes) : (xorSet a b).length = a.length := by
  induction a generalizing b with
  | nil => cases b <;> rfl
  | cons x a ih => cases b with
    | nil => rfl
    | cons y b => simp [xorSet, ih]

theorem xorSet_nil_right (a : Bytes) : xorSet a [] = a := by cases a <;> rfl

theorem xorSet_cancel (a b : Bytes) : xorSet (xorSet a b) b = a := by
  induction a generalizing b with
  | nil => cases b <;> rfl
  | cons x a ih => cases b with
    | nil => rfl
    | cons y b =>
      simp only [xorSet, ih, List.cons.injEq, and_true]
      rw [BitVec.xor_assoc, BitVec.xor_self, BitVec.xor_zero]

theorem xorSet_right_comm (a b c : Bytes) : xorSet (xorSet a b) c = xorSet (xorSet a c) b := by
  induction a generalizing b c with
  | nil => cases b <;> cases c <;> rfl
  | cons x a ih =>
    cases b with
    | nil => simp only [xorSet_nil_right]
    | cons y b =>
      cases c with
      | nil => simp only [xorSet_nil_right]
      | cons z c =>
        simp only [xorSet, ih b c, List.cons.injEq, and_true]
        rw [BitVec.xor_assoc, BitVec.xor_comm y z, ← BitVec.xor_assoc]

theorem xorSet_zero_left (n : Nat) (r : Bytes) (h : r.length = n) : xorSet (List.replicate n 0#8) r = r := by
  induction n generalizing r with
  | zero => cases r with
    | nil => rfl
    | cons _ _ => simp at h
  | succ n ih => cases r with
    | nil => simp at h
    | cons y r =>
      simp only [List.replicate_succ, xorSet, List.cons.injEq, BitVec.zero_xor, true_and]
      exact ih r (by simpa using h)

theorem foldl_xorSet_length (a : Bytes) (L : List Bytes) : (L.foldl xorSet a).length = a.length := by
  induction L generalizing a with
  | nil => rfl
  | cons c L ih => rw [List.foldl_cons, ih, xorSet_length]

theorem foldl_xorSet_comm (a c : Bytes) (L : List Bytes) :
    L.foldl xorSet (xorSet a c) = xorSet (L.foldl xorSet a) c := by
  induction L generalizing a with
  | nil => rfl
  | cons d L ih => rw [List.foldl_cons, List.foldl_cons, xorSet_right_comm, ih]

/-- xoring the same chunks twice cancels -/
theorem foldl_xorSet_cancel (a : Bytes) (L : List Bytes) : L.foldl xorSet (L.foldl xorSet a) = a := by
  induction L generalizing a with
  | nil => rfl
  | cons c L ih =>
    rw [List.foldl_cons, List.foldl_cons, foldl_xorSet_comm (L.foldl xorSet (xorSet a c)) c L, ih,
      xorSet_cancel]

/-- `rt ⊕ e ⊕ c ⊕ e ⊕ c = rt` -/
theorem xorSet_cancel2 (t e c : Bytes) : xorSet (xorSet (xorSet (xorSet t e) c) e) c = t := by
  rw [xorSet_right_comm (xorSet t e) c e, xorSet_cancel, xorSet_cancel]

/-! ### slices of `A ++ B ++ C` -/

theorem slice_mid (A B C : Bytes) : slice (A ++ B ++ C) A.length (A.length + B.length) = B := by
  simp [slice, List.take_append]

theorem setSlice_mid (A B C v : Bytes) (hv : v.length = B.length) :
    setSlice (A ++ B ++ C) A.length v = A ++ v ++ C := by
  simp [setSlice, List.drop_append, hv]

theorem modifySlice_mid (A B C : Bytes) (f : Bytes → Bytes) (hf : (f B).length = B.length) :
    modifySlice (A ++ B ++ C) A.length (A.length + B.length) f = A ++ f B ++ C := by
  rw [modifySlice, slice_mid, setSlice_mid A B C _ hf]

theorem chunksExact_cons (r Z : Bytes) (hr : r.length = 16) :
    chunksExact 16 (r ++ Z) = r :: chunksExact 16 Z := by
  rw [chunksExact]
  have h : ¬ (16 = 0 ∨ (r ++ Z).length < 16) := by simp [hr]
  rw [dif_neg h]
  simp [hr]

/-- xor of the full 16-byte chunks among all but the last byte of `Z`, folded into `acc` -/
def sigma (acc Z : Bytes) : Bytes := (chunksExact 16 (Z.take (Z.length - 1))).foldl xorSet acc

theorem sigma_length (acc Z : Bytes) : (sigma acc Z).length = acc.length := foldl_xorSet_length _ _
theorem sigma_sigma (acc Z : Bytes) : sigma (sigma acc Z) Z = acc := foldl_xorSet_cancel _ _

theorem rawBytes_length (key : Key) (s : Bytes) : (rawBytes key s).length = 16 := by
  simp [rawBytes, unpackBE]

/-! ### normal forms of the two round functions -/

/-- one encryption round on `r1 ++ M ++ rt` -/
theorem wblockEncRound_nf (ub : Nat) (key : Key) (i : Nat) (r1 M rt : Bytes)
    (h1 : r1.length = 16) (ht : rt.length = 16) :
    wblockEncRound ub key (32 + M.length) i (r1 ++ M ++ rt) =
      M ++ xorSet (xorSet rt (rawBytes key (sigma r1 (M ++ rt)))) (usizeLE ub i) ++ sigma r1 (M ++ rt) := by
  have hs : (chunksExact 16 (slice (r1 ++ M ++ rt) 0 (32 + M.length - 1))).foldl xorSet zeroBlock
      = sigma r1 (M ++ rt) := by
    have e : slice (r1 ++ M ++ rt) 0 (32 + M.length - 1) = r1 ++ (M ++ rt).take ((M ++ rt).length - 1) := by
      simp only [slice, List.drop_zero, List.append_assoc, List.length_append, ht]
      rw [List.take_append, h1]
      have : 32 + M.length - 1 - 16 = M.length + 16 - 1 := by omega
      rw [this, List.take_of_length_le (by omega : r1.length ≤ 32 + M.length - 1)]
    rw [e, chunksExact_cons _ _ h1, List.foldl_cons, zeroBlock, xorSet_zero_left 16 r1 h1]
    rfl
  have hsl : (sigma r1 (M ++ rt)).length = 16 := by rw [sigma_length, h1]
  unfold wblockEncRound
  simp only [hs]
  -- copy_within(16.., 0)
  have hcw : copyWithin (r1 ++ M ++ rt) 16 (32 + M.length) 0 = M ++ rt ++ rt := by
    have e1 : slice (r1 ++ M ++ rt) 16 (32 + M.length) = M ++ rt := by
      have := slice_mid r1 (M ++ rt) []
      simp only [List.append_nil, h1, List.length_append, ht] at this
      rw [← List.append_assoc] at this
      have e : 16 + (M.length + 16) = 32 + M.length := by omega
      rw [e] at this; exact this
    rw [copyWithin, e1]
    have := setSlice_mid [] r1 (M ++ rt) (M ++ rt)
    simp [setSlice, List.take_append, List.drop_append, h1, ht]
  rw [hcw]
  -- tail2.copy_from_slice(&s)
  have e2 : 32 + M.length - 16 = (M ++ rt).length := by simp [ht]; omega
  have hts : setSlice (M ++ rt ++ rt) (32 + M.length - 16) (sigma r1 (M ++ rt)) = M ++ rt ++ sigma r1 (M ++ rt) := by
    rw [e2]
    have := setSlice_mid (M ++ rt) rt [] (sigma r1 (M ++ rt)) (by rw [hsl, ht])
    simpa using this
  rw [hts]
  -- the two xor_set on tail1
  have e3 : 32 + M.length - 32 = M.length := by omega
  have e4 : 32 + M.length - 16 = M.length + rt.length := by rw [ht]; omega
  rw [e3, e4,
    modifySlice_mid M rt _ (fun t => xorSet t (rawBytes key (sigma r1 (M ++ rt)))) (xorSet_length _ _)]
  have e5 : M.length + rt.length = M.length + (xorSet rt (rawBytes key (sigma r1 (M ++ rt)))).length := by
    rw [xorSet_length]
  rw [e5, modifySlice_mid M _ _ (fun t => xorSet t (usizeLE ub i)) (xorSet_length _ _)]

/-- one decryption round on `M ++ T ++ S` -/
theorem wblockDecRound_nf (ub : Nat) (key : Key) (i : Nat) (M T S : Bytes)
    (hT : T.length = 16) (hS : S.length = 16) :
    wblockDecRound ub key (32 + M.length) i (M ++ T ++ S) =
      sigma S (M ++ xorSet (xorSet T (rawBytes key S)) (usizeLE ub i)) ++ M ++
        xorSet (xorSet T (rawBytes key S)) (usizeLE ub i) := by
  unfold wblockDecRound
  have etp : 32 + M.length - 16 = (M ++ T).length := by simp only [List.length_append, hT]; omega
  have elen : 32 + M.length = (M ++ T).length + S.length := by
    simp only [List.length_append, hT, hS]; omega
  -- s = data[tail_pos..]
  have hs : slice (M ++ T ++ S) (32 + M.length - 16) (32 + M.length) = S := by
    rw [etp, elen]
    have := slice_mid (M ++ T) S []
    simpa using this
  simp only [hs]
  -- copy_within(..tail_pos, 16)
  let X := (M ++ T ++ S).take 16
  have hX : X.length = 16 := by simp only [X, List.length_take, List.length_append, hT, hS]; omega
  have hcw : copyWithin (M ++ T ++ S) 0 (32 + M.length - 16) 16 = X ++ M ++ T := by
    have e1 : slice (M ++ T ++ S) 0 (32 + M.length - 16) = M ++ T := by
      rw [etp, slice, List.drop_zero, List.take_left' rfl]
    rw [copyWithin, e1]
    simp only [setSlice]
    have : List.drop (16 + (M ++ T).length) (M ++ T ++ S) = [] := by
      apply List.drop_of_length_le; simp [hT, hS]; omega
    rw [this]; simp [X]
  rw [hcw]
  -- the two xor_set on data[tail_pos..]
  have etp2 : 32 + M.length - 16 = (X ++ M).length := by simp [hX]; omega
  have elen2 : 32 + M.length = (X ++ M).length + T.length := by simp [hX, hT]; omega
  have hm1 : ∀ f : Bytes → Bytes, (∀ t, (f t).length = t.length) →
      ∀ T0 : Bytes, T0.length = 16 →
      modifySlice (X ++ M ++ T0) (32 + M.length - 16) (32 + M.length) f = X ++ M ++ f T0 := by
    intro f hf T0 hT0
    have e5 : 32 + M.length = (X ++ M).length + T0.length := by simp [hX, hT0]; omega
    rw [etp2, e5]
    have := modifySlice_mid (X ++ M) T0 [] f (hf T0)
    simpa using this
  rw [hm1 _ (fun t => xorSet_length t _) T hT,
    hm1 _ (fun t => xorSet_length t _) _ (by rw [xorSet_length, hT])]
  -- r1
  generalize hT' : xorSet (xorSet T (rawBytes key S)) (usizeLE ub i) = T'
  have hT'l : T'.length = 16 := by rw [← hT', xorSet_length, xorSet_length, hT]
  have hr1 : ((chunksExact 16 (slice (X ++ M ++ T') 0 (32 + M.length - 1))).drop 1).foldl xorSet S
      = sigma S (M ++ T') := by
    have e : slice (X ++ M ++ T') 0 (32 + M.length - 1) = X ++ (M ++ T').take ((M ++ T').length - 1) := by
      simp only [slice, List.drop_zero, List.append_assoc, List.length_append, hT'l]
      rw [List.take_append, hX]
      have : 32 + M.length - 1 - 16 = M.length + 16 - 1 := by omega
      rw [this, List.take_of_length_le (by omega : X.length ≤ 32 + M.length - 1)]
    rw [e, chunksExact_cons _ _ hX, List.drop_one, List.tail_cons]
    rfl
  rw [hr1]
  have hsl : (sigma S (M ++ T')).length = 16 := by rw [sigma_length, hS]
  have := setSlice_mid [] X (M ++ T') (sigma S (M ++ T')) (by rw [hsl, hX])
  simpa [List.append_assoc] using this

/-! ### one round of decryption undoes one round of encryption at the same counter, and conversely -/

/-- a buffer of length `32 + m` is `r1 ++ M ++ rt` -/
theorem split_first (data : Bytes) (m : Nat) (h : data.length = 32 + m) :
    ∃ r1 M rt : Bytes, data = r1 ++ M ++ rt ∧ r1.length = 16 ∧ M.length = m ∧ rt.length = 16 := by
  refine ⟨data.take 16, (data.drop 16).take m, data.drop (16 + m), ?_, ?_, ?_, ?_⟩
  · rw [List.append_assoc, ← List.drop_drop, List.take_append_drop, List.take_append_drop]
  · simp; omega
  · simp; omega
  · simp; omega

/-- a buffer of length `32 + m` is `M ++ T ++ S` -/
theorem split_last (data : Bytes) (m : Nat) (h : data.length = 32 + m) :
    ∃ M T S : Bytes, data = M ++ T ++ S ∧ M.length = m ∧ T.length = 16 ∧ S.length = 16 := by
  refine ⟨data.take m, (data.drop m).take 16, data.drop (m + 16), ?_, ?_, ?_, ?_⟩
  · rw [List.append_assoc, ← List.drop_drop, List.take_append_drop, List.take_append_drop]
  · simp; omega
  · simp; omega
  · simp; omega

theorem wblockEncRound_length (ub : Nat) (key : Key) (len i : Nat) (data : Bytes)
    (hl : data.length = len) (h32 : 32 ≤ len) : (wblockEncRound ub key len i data).length = len := by
  obtain ⟨r1, M, rt, rfl, h1, hM, ht⟩ := split_first data (len - 32) (by omega)
  have e : len = 32 + M.length := by omega
  rw [e, wblockEncRound_nf ub key i r1 M rt h1 ht]
  simp [xorSet_length, sigma_length, h1, ht]; omega

theorem wblockDecRound_length (ub : Nat) (key : Key) (len i : Nat) (data : Bytes)
    (hl : data.length = len) (h32 : 32 ≤ len) : (wblockDecRound ub key len i data).length = len := by
  obtain ⟨M, T, S, rfl, hM, hT, hS⟩ := split_last data (len - 32) (by omega)
  have e : len = 32 + M.length := by omega
  rw [e, wblockDecRound_nf ub key i M T S hT hS]
  simp [xorSet_length, sigma_length, hT, hS]; omega

theorem wblockDecRound_wblockEncRound (ub : Nat) (key : Key) (len i : Nat) (data : Bytes)
    (hl : data.length = len) (h32 : 32 ≤ len) :
    wblockDecRound ub key len i (wblockEncRound ub key len i data) = data := by
  obtain ⟨r1, M, rt, rfl, h1, hM, ht⟩ := split_first data (len - 32) (by omega)
  have e : len = 32 + M.length := by omega
  rw [e, wblockEncRound_nf ub key i r1 M rt h1 ht,
    wblockDecRound_nf ub key i M _ _ (by rw [xorSet_length, xorSet_length, ht]) (by rw [sigma_length, h1]),
    xorSet_cancel2, sigma_sigma]

theorem wblockEncRound_wblockDecRound (ub : Nat) (key : Key) (len i : Nat) (data : Bytes)
    (hl : data.length = len) (h32 : 32 ≤ len) :
    wblockEncRound ub key len i (wblockDecRound ub key len i data) = data := by
  obtain ⟨M, T, S, rfl, hM, hT, hS⟩ := split_last data (len - 32) (by omega)
  have e : len = 32 + M.length := by omega
  rw [e, wblockDecRound_nf ub key i M T S hT hS,
    wblockEncRound_nf ub key i _ M _ (by rw [sigma_length, hS]) (by rw [xorSet_length, xorSet_length, hT]),
    sigma_sigma, xorSet_cancel2]

/-! ### the loops -/

/-- loop inversion with an invariant (here: the buffer length) -/
theorem foldl_inv_of_invariant {α ι : Type} (P : α → Prop) (f g : ι → α → α) (l : List ι)
    (hP : ∀ i s, P s → P (f i s)) (h : ∀ i s, P s → g i (f i s) = s) (s : α) (hs : P s) :
    l.reverse.foldl (fun s i => g i s) (l.foldl (fun s i => f i s) s) = s ∧
      P (l.foldl (fun s i => f i s) s) := by
  induction l generalizing s with
  | nil => exact ⟨rfl, hs⟩
  | cons i l ih =>
    simp only [List.reverse_cons, List.foldl_append, List.foldl_cons, List.foldl_nil]
    obtain ⟨h1, h2⟩ := ih (f i s) (hP i s hs)
    exact ⟨by rw [h1, h i s hs], h2⟩

theorem wblockEncU_ok (ub : Nat) (data : Bytes) (key : Key) (h : 32 ≤ data.length) :
    (wblockEncU ub data key).1 = .ok ∧ (wblockEncU ub data key).2.length = data.length := by
  unfold wblockEncU
  rw [if_neg (by omega)]
  refine ⟨rfl, ?_⟩
  exact (foldl_inv_of_invariant (fun s : Bytes => s.length = data.length)
    (wblockEncRound ub key data.length) (wblockDecRound ub key data.length) _
    (fun i s hs => wblockEncRound_length ub key _ i s hs h)
    (fun i s hs => wblockDecRound_wblockEncRound ub key _ i s hs h) data rfl).2

theorem wblockDecU_ok (ub : Nat) (data : Bytes) (key : Key) (h : 32 ≤ data.length) :
    (wblockDecU ub data key).1 = .ok ∧ (wblockDecU ub data key).2.length = data.length := by
  unfold wblockDecU
  rw [if_neg (by omega)]
  refine ⟨rfl, ?_⟩
  exact (foldl_inv_of_invariant (fun s : Bytes => s.length = data.length)
    (wblockDecRound ub key data.length) (wblockEncRound ub key data.length) _
    (fun i s hs => wblockDecRound_length ub key _ i s hs h)
    (fun i s hs => wblockEncRound_wblockDecRound ub key _ i s hs h) data rfl).2

/-- C18/C01: `belt_wblock_dec` after `belt_wblock_enc` returns `Ok` and restores the buffer, for every
input of at least 32 bytes -/
theorem wblockDecU_wblockEncU (ub : Nat) (data : Bytes) (key : Key) (h : 32 ≤ data.length) :
    wblockDecU ub (wblockEncU ub data key).2 key = (.ok, data) := by
  obtain ⟨_, hlen⟩ := wblockEncU_ok ub data key h
  have hlen' := hlen
  unfold wblockEncU at hlen ⊢
  rw [if_neg (by omega)] at hlen ⊢
  unfold wblockDecU
  simp only at hlen ⊢
  rw [if_neg (by omega), hlen]
  congr 1
  exact (foldl_inv_of_invariant (fun s : Bytes => s.length = data.length)
    (wblockEncRound ub key data.length) (wblockDecRound ub key data.length) _
    (fun i s hs => wblockEncRound_length ub key _ i s hs h)
    (fun i s hs => wblockDecRound_wblockEncRound ub key _ i s hs h) data rfl).1

/-- the other order -/
theorem wblockEncU_wblockDecU (ub : Nat) (data : Bytes) (key : Key) (h : 32 ≤ data.length) :
    wblockEncU ub (wblockDecU ub data key).2 key = (.ok, data) := by
  obtain ⟨_, hlen⟩ := wblockDecU_ok ub data key h
  unfold wblockDecU at hlen ⊢
  rw [if_neg (by omega)] at hlen ⊢
  unfold wblockEncU
  simp only at hlen ⊢
  rw [if_neg (by omega), hlen]
  congr 1
  have := (foldl_inv_of_invariant (fun s : Bytes => s.length = data.length)
    (wblockDecRound ub key data.length) (wblockEncRound ub key data.length)
    (List.range' 1 (2 * ((data.length + 15) / 16))).reverse
    (fun i s hs => wblockDecRound_length ub key _ i s hs h)
    (fun i s hs => wblockEncRound_wblockDecRound ub key _ i s hs h) data rfl).1
  rw [List.reverse_reverse] at this
  exact this

/-- C18: inputs shorter than 32 bytes give the length error and the buffer is returned unmodified -/
theorem wblockEncU_short (ub : Nat) (data : Bytes) (key : Key) (h : data.length < 32) :
    wblockEncU ub data key = (.invalidLength, data) := by
  unfold wblockEncU; rw [if_pos (by omega)]

theorem wblockDecU_short (ub : Nat) (data : Bytes) (key : Key) (h : data.length < 32) :
    wblockDecU ub data key = (.invalidLength, data) := by
  unfold wblockDecU; rw [if_pos (by omega)]

/-! ### the 64-bit instance run by the harness -/

theorem wblockDec_wblockEnc (data : Bytes) (key : Key) (h : 32 ≤ data.length) :
    wblockDec (wblockEnc data key).2 key = (.ok, data) := wblockDecU_wblockEncU 8 data key h
theorem wblockEnc_wblockDec (data : Bytes) (key : Key) (h : 32 ≤ data.length) :
    wblockEnc (wblockDec data key).2 key = (.ok, data) := wblockEncU_wblockDecU 8 data key h
theorem wblockEnc_ok (data : Bytes) (key : Key) (h : 32 ≤ data.length) : (wblockEnc data key).1 = .ok :=
  (wblockEncU_ok 8 data key h).1
theorem wblockDec_ok (data : Bytes) (key : Key) (h : 32 ≤ data.length) : (wblockDec data key).1 = .ok :=
  (wblockDecU_ok 8 data key h).1
theorem wblockEnc_short (data : Bytes) (key : Key) (h : data.length < 32) :
    wblockEnc data key = (.invalidLength, data) := wblockEncU_short 8 data key h
theorem wblockDec_short (data : Bytes) (key : Key) (h : data.length < 32) :
    wblockDec data key = (.invalidLength, data) := wblockDecU_short 8 data key h

end BC.Belt
