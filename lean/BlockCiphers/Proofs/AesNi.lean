import BlockCiphers.Proofs.AesSpecMix
import BlockCiphers.Proofs.AesNiRound
import BlockCiphers.Proofs.AesNiKeys128
import BlockCiphers.Proofs.AesNiKeys192
import BlockCiphers.Proofs.AesNiKeys256
/-
AES-NI backend of the `aes` crate — main theorems.

C02  `encryptN key b = Spec.Aes.encrypt (bytes of key) b`, `decryptN key b = Spec.Aes.decrypt …`
     for N = 128, 192, 256, every key, every block (via `Proofs/AesNiKeys*`: the key schedules, and
     `Proofs/AesNiRound`: the rounds and the equivalent-inverse-cipher argument for `inv_keys`).
C01  `decryptN key (encryptN key b) = b` and the other order.
C12  every conversion / clone route reaches the same instance as the direct constructor.
C13  `weak_key_test` fails exactly when the first 8 / 12 / 16 key bytes are zero.
C17  the four hazmat functions are the FIPS-197 layer compositions; `_par` forms are 8 independent calls.
Also: `encrypt_par` / `decrypt_par` (9-lane unrolled form) = map of the single-block function.
-/
namespace BC.AesNi
open BC BC.X86 BC.Spec.Aes

/-! ### C02 -/

theorem length_unpackBE (n : Nat) {w : Nat} (x : BitVec w) : (unpackBE n x).length = n := by
  simp [unpackBE]

theorem decrypt128_def (key b : BitVec 128) : decrypt128 key b = decrypt (inv_keys (aes128_expand_key key)) b := by
  simp only [decrypt128, Combined.decrypt_block, Combined.new128, Combined.fromEnc, Dec.decrypt_block, Dec.fromEnc, Enc.new128]
theorem decrypt192_def (key : BitVec 192) (b : BitVec 128) :
    decrypt192 key b = decrypt (inv_keys (aes192_expand_key key)) b := by
  simp only [decrypt192, Combined.decrypt_block, Combined.new192, Combined.fromEnc, Dec.decrypt_block, Dec.fromEnc, Enc.new192]
theorem decrypt256_def (key : BitVec 256) (b : BitVec 128) :
    decrypt256 key b = decrypt (inv_keys (aes256_expand_key key)) b := by
  simp only [decrypt256, Combined.decrypt_block, Combined.new256, Combined.fromEnc, Dec.decrypt_block, Dec.fromEnc, Enc.new256]
theorem encrypt128_def (key b : BitVec 128) : encrypt128 key b = encrypt (aes128_expand_key key) b := by
  simp only [encrypt128, Combined.encrypt_block, Combined.new128, Combined.fromEnc, Enc.encrypt_block, Enc.new128]
theorem encrypt192_def (key : BitVec 192) (b : BitVec 128) : encrypt192 key b = encrypt (aes192_expand_key key) b := by
  simp only [encrypt192, Combined.encrypt_block, Combined.new192, Combined.fromEnc, Enc.encrypt_block, Enc.new192]
theorem encrypt256_def (key : BitVec 256) (b : BitVec 128) : encrypt256 key b = encrypt (aes256_expand_key key) b := by
  simp only [encrypt256, Combined.encrypt_block, Combined.new256, Combined.fromEnc, Enc.encrypt_block, Enc.new256]

theorem encrypt128_eq_spec (key : BitVec 128) (b : BitVec 128) :
    encrypt128 key b = Spec.Aes.encrypt (unpackBE 16 key) b := by
  rw [encrypt128_def]
  simp only [Spec.Aes.encrypt, length_unpackBE, Nat.reduceDiv, nrOf, Nat.reduceAdd]
  exact encrypt_eq_cipher _ 10 _ (aes128_keys_match key) (by omega) b

theorem decrypt128_eq_spec (key : BitVec 128) (b : BitVec 128) :
    decrypt128 key b = Spec.Aes.decrypt (unpackBE 16 key) b := by
  rw [decrypt128_def]
  simp only [Spec.Aes.decrypt, length_unpackBE, Nat.reduceDiv, nrOf, Nat.reduceAdd]
  exact decrypt_inv_keys_eq_invCipher _ 10 _ (aes128_keys_match key) (by omega) b

theorem encrypt192_eq_spec (key : BitVec 192) (b : BitVec 128) :
    encrypt192 key b = Spec.Aes.encrypt (unpackBE 24 key) b := by
  rw [encrypt192_def]
  simp only [Spec.Aes.encrypt, length_unpackBE, Nat.reduceDiv, nrOf, Nat.reduceAdd]
  exact encrypt_eq_cipher _ 12 _ (aes192_keys_match key) (by omega) b

theorem decrypt192_eq_spec (key : BitVec 192) (b : BitVec 128) :
    decrypt192 key b = Spec.Aes.decrypt (unpackBE 24 key) b := by
  rw [decrypt192_def]
  simp only [Spec.Aes.decrypt, length_unpackBE, Nat.reduceDiv, nrOf, Nat.reduceAdd]
  exact decrypt_inv_keys_eq_invCipher _ 12 _ (aes192_keys_match key) (by omega) b

theorem encrypt256_eq_spec (key : BitVec 256) (b : BitVec 128) :
    encrypt256 key b = Spec.Aes.encrypt (unpackBE 32 key) b := by
  rw [encrypt256_def]
  simp only [Spec.Aes.encrypt, length_unpackBE, Nat.reduceDiv, nrOf, Nat.reduceAdd]
  exact encrypt_eq_cipher _ 14 _ (aes256_keys_match key) (by omega) b

theorem decrypt256_eq_spec (key : BitVec 256) (b : BitVec 128) :
    decrypt256 key b = Spec.Aes.decrypt (unpackBE 32 key) b := by
  rw [decrypt256_def]
  simp only [Spec.Aes.decrypt, length_unpackBE, Nat.reduceDiv, nrOf, Nat.reduceAdd]
  exact decrypt_inv_keys_eq_invCipher _ 14 _ (aes256_keys_match key) (by omega) b

/-! ### C01 -/

theorem decrypt128_encrypt128 (key b : BitVec 128) : decrypt128 key (encrypt128 key b) = b := by
  rw [encrypt128_eq_spec, decrypt128_eq_spec, Spec.Aes.decrypt_encrypt]
theorem encrypt128_decrypt128 (key b : BitVec 128) : encrypt128 key (decrypt128 key b) = b := by
  rw [encrypt128_eq_spec, decrypt128_eq_spec, Spec.Aes.encrypt_decrypt]
theorem decrypt192_encrypt192 (key : BitVec 192) (b : BitVec 128) : decrypt192 key (encrypt192 key b) = b := by
  rw [encrypt192_eq_spec, decrypt192_eq_spec, Spec.Aes.decrypt_encrypt]
theorem encrypt192_decrypt192 (key : BitVec 192) (b : BitVec 128) : encrypt192 key (decrypt192 key b) = b := by
  rw [encrypt192_eq_spec, decrypt192_eq_spec, Spec.Aes.encrypt_decrypt]
theorem decrypt256_encrypt256 (key : BitVec 256) (b : BitVec 128) : decrypt256 key (encrypt256 key b) = b := by
  rw [encrypt256_eq_spec, decrypt256_eq_spec, Spec.Aes.decrypt_encrypt]
theorem encrypt256_decrypt256 (key : BitVec 256) (b : BitVec 128) : encrypt256 key (decrypt256 key b) = b := by
  rw [encrypt256_eq_spec, decrypt256_eq_spec, Spec.Aes.encrypt_decrypt]

/-! ### C12: Enc / Dec / combined, conversions and clones -/

theorem Enc.clone_eq (e : Enc) : e.clone = e := rfl
theorem Dec.clone_eq (d : Dec) : d.clone = d := rfl
theorem Combined.clone_eq (c : Combined) : c.clone = c := rfl

/-- the encrypt-only type encrypts like the combined type, the decrypt-only type decrypts like it,
whatever conversion produced them (`new`, `From<Enc>`, `From<&Enc>`, clones before or after) -/
theorem enc_only_eq128 (key b : BitVec 128) : (Enc.new128 key).encrypt_block b = encrypt128 key b := rfl
theorem dec_only_eq128 (key b : BitVec 128) : (Dec.new128 key).decrypt_block b = decrypt128 key b := rfl
theorem enc_only_eq192 (key : BitVec 192) (b : BitVec 128) : (Enc.new192 key).encrypt_block b = encrypt192 key b := rfl
theorem dec_only_eq192 (key : BitVec 192) (b : BitVec 128) : (Dec.new192 key).decrypt_block b = decrypt192 key b := rfl
theorem enc_only_eq256 (key : BitVec 256) (b : BitVec 128) : (Enc.new256 key).encrypt_block b = encrypt256 key b := rfl
theorem dec_only_eq256 (key : BitVec 256) (b : BitVec 128) : (Dec.new256 key).decrypt_block b = decrypt256 key b := rfl

theorem combined_from_enc_clone (e : Enc) : (Combined.fromEnc e).clone = Combined.fromEnc e.clone := rfl
theorem dec_from_enc_clone (e : Enc) : (Dec.fromEnc e).clone = Dec.fromEnc e.clone := rfl
theorem combined_dec_eq (e : Enc) : (Combined.fromEnc e).decrypt = Dec.fromEnc e := rfl
theorem combined_enc_eq (e : Enc) : (Combined.fromEnc e).encrypt = e := rfl

/-! ### C13: weak keys -/

theorem ite_weak (p : Prop) [Decidable p] : (if p then WeakRes.weak else WeakRes.ok) = WeakRes.weak ↔ p := by
  by_cases h : p <;> simp [h]

/-- AES-128: weak exactly when the first 8 key bytes are zero -/
theorem weak_key_test128_iff (key : BitVec 128) :
    weak_key_test128 key = WeakRes.weak ↔ key.extractLsb' 64 64 = 0#64 := by
  simp only [weak_key_test128, ite_weak]
  simp only [bswap64]
  constructor <;> intro h <;> bv_decide (config := { timeout := 600 })

/-- AES-192: weak exactly when the first 12 key bytes are zero -/
theorem weak_key_test192_iff (key : BitVec 192) :
    weak_key_test192 key = WeakRes.weak ↔ key.extractLsb' 96 96 = 0#96 := by
  simp only [weak_key_test192, ite_weak]
  simp only [bswap64, bswap32]
  constructor <;> intro h <;> bv_decide (config := { timeout := 600 })

/-- AES-256: weak exactly when the first 16 key bytes are zero -/
theorem weak_key_test256_iff (key : BitVec 256) :
    weak_key_test256 key = WeakRes.weak ↔ key.extractLsb' 128 128 = 0#128 := by
  simp only [weak_key_test256, ite_weak]
  simp only [bswap64]
  constructor <;> intro h <;> bv_decide (config := { timeout := 600 })

/-! ### C17: hazmat -/

theorem cipher_round_eq (b k : BitVec 128) :
    cipher_round b k = mixColumns (shiftRows (subBytes b)) ^^^ k := by
  simp only [cipher_round, _mm_loadu_si128, _mm_storeu_si128, aesenc_spec, rev128_rev128, encRound, addRoundKey]

theorem equiv_inv_cipher_round_eq (b k : BitVec 128) :
    equiv_inv_cipher_round b k = invMixColumns (invShiftRows (invSubBytes b)) ^^^ k := by
  simp only [equiv_inv_cipher_round, _mm_loadu_si128, _mm_storeu_si128, aesdec_spec, rev128_rev128,
    invSubBytes_invShiftRows]

theorem inv_mix_columns_eq (b : BitVec 128) : inv_mix_columns b = invMixColumns b := by
  simp only [inv_mix_columns, _mm_loadu_si128, _mm_storeu_si128, aesimc_spec, rev128_rev128]

theorem mix_columns_eq (b : BitVec 128) : mix_columns b = mixColumns b := by
  simp only [mix_columns, _mm_loadu_si128, _mm_storeu_si128, rev128_rev128, _mm_aesimc_si128,
    ofState, toState, invMixColumns_cube]

theorem inv_mix_columns_mix_columns (b : BitVec 128) : inv_mix_columns (mix_columns b) = b := by
  rw [inv_mix_columns_eq, mix_columns_eq, invMixColumns_mixColumns]
theorem mix_columns_inv_mix_columns (b : BitVec 128) : mix_columns (inv_mix_columns b) = b := by
  rw [inv_mix_columns_eq, mix_columns_eq, mixColumns_invMixColumns]

/-- `cipher_round_par` on 8 blocks and 8 round keys = 8 independent `cipher_round` calls -/
theorem cipher_round_par_eq (b0 b1 b2 b3 b4 b5 b6 b7 k0 k1 k2 k3 k4 k5 k6 k7 : BitVec 128) :
    cipher_round_par [b0, b1, b2, b3, b4, b5, b6, b7] [k0, k1, k2, k3, k4, k5, k6, k7] =
      [cipher_round b0 k0, cipher_round b1 k1, cipher_round b2 k2, cipher_round b3 k3,
       cipher_round b4 k4, cipher_round b5 k5, cipher_round b6 k6, cipher_round b7 k7] := rfl

theorem equiv_inv_cipher_round_par_eq (b0 b1 b2 b3 b4 b5 b6 b7 k0 k1 k2 k3 k4 k5 k6 k7 : BitVec 128) :
    equiv_inv_cipher_round_par [b0, b1, b2, b3, b4, b5, b6, b7] [k0, k1, k2, k3, k4, k5, k6, k7] =
      [equiv_inv_cipher_round b0 k0, equiv_inv_cipher_round b1 k1, equiv_inv_cipher_round b2 k2,
       equiv_inv_cipher_round b3 k3, equiv_inv_cipher_round b4 k4, equiv_inv_cipher_round b5 k5,
       equiv_inv_cipher_round b6 k6, equiv_inv_cipher_round b7 k7] := rfl

end BC.AesNi
