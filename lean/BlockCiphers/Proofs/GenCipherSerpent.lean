import BlockCiphers.Gen.Cipher_Serpent
import BlockCiphers.Impl.Serpent
import BlockCiphers.Proofs.GenFuncsSerpent
import Std.Tactic.BVDecide
/-
Tie of the regenerated whole-cipher functions of the `serpent` crate (`Gen/Cipher_Serpent.lean`: `Serpent::encrypt_block`,
`Serpent::decrypt_block`, both for the default build and for `--cfg serpent_no_unroll`) to the model
`BC.Serpent.encrypt/decrypt/encryptLoop/decryptLoop` of `Impl/Serpent.lean`, for ALL 33×4 round-key words and ALL blocks.

Structure (no bit-blasting of the 32 rounds):
 1. `P.encrypt / P.decrypt` : the model's cipher with the leaf functions (`xor`, S-boxes, linear transforms,
    `read_words`, `write_words`) as parameters; the model is the instance `P.model` (by `rfl`).
 2. `P.gen` : the instance whose leaves are the *regenerated* leaf functions `BC.Gen.Fn.serpent_*` of `Gen/Funcs.lean`
    (wrapped from tuples to `Words`).  `P.gen = P.model` follows from the leaf theorems of `Proofs/GenFuncsSerpent.lean`.
 3. The regenerated whole function is the regenerated leaves inlined: unfolding both sides (`simp only`, Gen side only)
    gives syntactically the same term.
-/
namespace BC.GenCipher.Serpent
open BC.Gen.Fn BC.Serpent
set_option maxRecDepth 100000
set_option linter.unusedSimpArgs false
set_option linter.unusedVariables false

/-- the leaf functions the block functions are made of -/
structure P where
  xor : Words → Words → Words
  lt : Words → Words
  ltInv : Words → Words
  e0 : Words → Words
  e1 : Words → Words
  e2 : Words → Words
  e3 : Words → Words
  e4 : Words → Words
  e5 : Words → Words
  e6 : Words → Words
  e7 : Words → Words
  d0 : Words → Words
  d1 : Words → Words
  d2 : Words → Words
  d3 : Words → Words
  d4 : Words → Words
  d5 : Words → Words
  d6 : Words → Words
  d7 : Words → Words
  rd : BitVec 128 → Words
  wr : Words → BitVec 128

namespace P
/-- `apply_s` over the leaves of `p` -/
def applyS (p : P) (index : Nat) (w : Words) : Words :=
  match index % 8 with
  | 0 => p.e0 w
  | 1 => p.e1 w
  | 2 => p.e2 w
  | 3 => p.e3 w
  | 4 => p.e4 w
  | 5 => p.e5 w
  | 6 => p.e6 w
  | 7 => p.e7 w
  | _ => w
/-- `apply_s_inv` over the leaves of `p` -/
def applySInv (p : P) (index : Nat) (w : Words) : Words :=
  match index % 8 with
  | 0 => p.d0 w
  | 1 => p.d1 w
  | 2 => p.d2 w
  | 3 => p.d3 w
  | 4 => p.d4 w
  | 5 => p.d5 w
  | 6 => p.d6 w
  | 7 => p.d7 w
  | _ => w
def encBody (p : P) (rk : RoundKeys) (b : Words) (i : Nat) : Words :=
  let xb := p.xor b (rk.get i)
  let s := p.applyS i xb
  p.lt s
def decBody (p : P) (rk : RoundKeys) (b : Words) (i : Nat) : Words :=
  let i := 30 - i
  let s := p.ltInv b
  let xb := p.applySInv i s
  p.xor xb (rk.get i)
def encryptWordsWith (p : P) (u : (Words → Nat → Words) → Words → Words) (rk : RoundKeys) (b : Words) : Words :=
  let b := u (p.encBody rk) b
  let xb := p.xor b (rk.get (ROUNDS - 1))
  let s := p.applyS (ROUNDS - 1) xb
  p.xor s (rk.get ROUNDS)
def decryptWordsWith (p : P) (u : (Words → Nat → Words) → Words → Words) (rk : RoundKeys) (b : Words) : Words :=
  let s := p.xor b (rk.get ROUNDS)
  let xb := p.applySInv (ROUNDS - 1) s
  let b := p.xor xb (rk.get (ROUNDS - 1))
  u (p.decBody rk) b
def encrypt (p : P) (rk : RoundKeys) (blk : BitVec 128) : BitVec 128 :=
  p.wr (p.encryptWordsWith unroll31 rk (p.rd blk))
def decrypt (p : P) (rk : RoundKeys) (blk : BitVec 128) : BitVec 128 :=
  p.wr (p.decryptWordsWith unroll31 rk (p.rd blk))

/-- the hand-written model's leaves -/
def model : P :=
  { xor := BC.Serpent.xor, lt := linearTransform, ltInv := linearTransformInv,
    e0 := sboxE0, e1 := sboxE1, e2 := sboxE2, e3 := sboxE3, e4 := sboxE4, e5 := sboxE5, e6 := sboxE6, e7 := sboxE7,
    d0 := sboxD0, d1 := sboxD1, d2 := sboxD2, d3 := sboxD3, d4 := sboxD4, d5 := sboxD5, d6 := sboxD6, d7 := sboxD7,
    rd := readWords, wr := writeWords }

/-- tuple (as returned by the regenerated functions) → `Words` -/
def ofTup (t : BitVec 32 × BitVec 32 × BitVec 32 × BitVec 32) : Words := ⟨t.1, t.2.1, t.2.2.1, t.2.2.2⟩

/-- the regenerated leaves (`Gen/Funcs.lean`) -/
def gen : P :=
  { xor := fun a k => ofTup (serpent_xor a.w0 a.w1 a.w2 a.w3 k.w0 k.w1 k.w2 k.w3),
    lt := fun w => ofTup (serpent_linear_transform w.w0 w.w1 w.w2 w.w3),
    ltInv := fun w => ofTup (serpent_linear_transform_inv w.w0 w.w1 w.w2 w.w3),
    e0 := fun w => ofTup (serpent_sbox_e0 w.w0 w.w1 w.w2 w.w3),
    e1 := fun w => ofTup (serpent_sbox_e1 w.w0 w.w1 w.w2 w.w3),
    e2 := fun w => ofTup (serpent_sbox_e2 w.w0 w.w1 w.w2 w.w3),
    e3 := fun w => ofTup (serpent_sbox_e3 w.w0 w.w1 w.w2 w.w3),
    e4 := fun w => ofTup (serpent_sbox_e4 w.w0 w.w1 w.w2 w.w3),
    e5 := fun w => ofTup (serpent_sbox_e5 w.w0 w.w1 w.w2 w.w3),
    e6 := fun w => ofTup (serpent_sbox_e6 w.w0 w.w1 w.w2 w.w3),
    e7 := fun w => ofTup (serpent_sbox_e7 w.w0 w.w1 w.w2 w.w3),
    d0 := fun w => ofTup (serpent_sbox_d0 w.w0 w.w1 w.w2 w.w3),
    d1 := fun w => ofTup (serpent_sbox_d1 w.w0 w.w1 w.w2 w.w3),
    d2 := fun w => ofTup (serpent_sbox_d2 w.w0 w.w1 w.w2 w.w3),
    d3 := fun w => ofTup (serpent_sbox_d3 w.w0 w.w1 w.w2 w.w3),
    d4 := fun w => ofTup (serpent_sbox_d4 w.w0 w.w1 w.w2 w.w3),
    d5 := fun w => ofTup (serpent_sbox_d5 w.w0 w.w1 w.w2 w.w3),
    d6 := fun w => ofTup (serpent_sbox_d6 w.w0 w.w1 w.w2 w.w3),
    d7 := fun w => ofTup (serpent_sbox_d7 w.w0 w.w1 w.w2 w.w3),
    rd := fun b => ofTup (serpent_read_words b),
    wr := fun w => serpent_write_words w.w0 w.w1 w.w2 w.w3 }

theorem ofTup_tup (w : Words) : ofTup (BC.GenFuncs.Serpent.tup w) = w := rfl

/-- regenerated leaves = model leaves (from `Proofs/GenFuncsSerpent.lean`) -/
theorem gen_eq_model : gen = model := by
  open BC.GenFuncs.Serpent in
  simp only [gen, model, xor_eq, linear_transform_eq, linear_transform_inv_eq,
    sbox_e0_eq, sbox_e1_eq, sbox_e2_eq, sbox_e3_eq, sbox_e4_eq, sbox_e5_eq, sbox_e6_eq, sbox_e7_eq,
    sbox_d0_eq, sbox_d1_eq, sbox_d2_eq, sbox_d3_eq, sbox_d4_eq, sbox_d5_eq, sbox_d6_eq, sbox_d7_eq,
    read_words_eq, write_words_eq, ofTup_tup]

theorem model_encrypt (rk : RoundKeys) (b : BitVec 128) : model.encrypt rk b = BC.Serpent.encrypt rk b := rfl
theorem model_decrypt (rk : RoundKeys) (b : BitVec 128) : model.decrypt rk b = BC.Serpent.decrypt rk b := rfl
end P

/-- `for i in 0..31` and the 31 pasted copies are the same function -/
theorem loop31_eq_unroll31 : loop31 = unroll31 := rfl
theorem encryptLoop_eq_encrypt : encryptLoop = BC.Serpent.encrypt := rfl
theorem decryptLoop_eq_decrypt : decryptLoop = BC.Serpent.decrypt := rfl

/-- the 33 round keys as the model's `RoundKeys` -/
def mkRk (W0 W1 W2 W3 W4 W5 W6 W7 W8 W9 W10 W11 W12 W13 W14 W15 W16 W17 W18 W19 W20 W21 W22 W23 W24 W25 W26 W27 W28 W29 W30 W31 W32 : Words) : RoundKeys := #[W0, W1, W2, W3, W4, W5, W6, W7, W8, W9, W10, W11, W12, W13, W14, W15, W16, W17, W18, W19, W20, W21, W22, W23, W24, W25, W26, W27, W28, W29, W30, W31, W32]

theorem get_0 (W0 W1 W2 W3 W4 W5 W6 W7 W8 W9 W10 W11 W12 W13 W14 W15 W16 W17 W18 W19 W20 W21 W22 W23 W24 W25 W26 W27 W28 W29 W30 W31 W32 : Words) : (mkRk W0 W1 W2 W3 W4 W5 W6 W7 W8 W9 W10 W11 W12 W13 W14 W15 W16 W17 W18 W19 W20 W21 W22 W23 W24 W25 W26 W27 W28 W29 W30 W31 W32).get 0 = W0 := rfl
theorem get_1 (W0 W1 W2 W3 W4 W5 W6 W7 W8 W9 W10 W11 W12 W13 W14 W15 W16 W17 W18 W19 W20 W21 W22 W23 W24 W25 W26 W27 W28 W29 W30 W31 W32 : Words) : (mkRk W0 W1 W2 W3 W4 W5 W6 W7 W8 W9 W10 W11 W12 W13 W14 W15 W16 W17 W18 W19 W20 W21 W22 W23 W24 W25 W26 W27 W28 W29 W30 W31 W32).get 1 = W1 := rfl
theorem get_2 (W0 W1 W2 W3 W4 W5 W6 W7 W8 W9 W10 W11 W12 W13 W14 W15 W16 W17 W18 W19 W20 W21 W22 W23 W24 W25 W26 W27 W28 W29 W30 W31 W32 : Words) : (mkRk W0 W1 W2 W3 W4 W5 W6 W7 W8 W9 W10 W11 W12 W13 W14 W15 W16 W17 W18 W19 W20 W21 W22 W23 W24 W25 W26 W27 W28 W29 W30 W31 W32).get 2 = W2 := rfl
theorem get_3 (W0 W1 W2 W3 W4 W5 W6 W7 W8 W9 W10 W11 W12 W13 W14 W15 W16 W17 W18 W19 W20 W21 W22 W23 W24 W25 W26 W27 W28 W29 W30 W31 W32 : Words) : (mkRk W0 W1 W2 W3 W4 W5 W6 W7 W8 W9 W10 W11 W12 W13 W14 W15 W16 W17 W18 W19 W20 W21 W22 W23 W24 W25 W26 W27 W28 W29 W30 W31 W32).get 3 = W3 := rfl
theorem get_4 (W0 W1 W2 W3 W4 W5 W6 W7 W8 W9 W10 W11 W12 W13 W14 W15 W16 W17 W18 W19 W20 W21 W22 W23 W24 W25 W26 W27 W28 W29 W30 W31 W32 : Words) : (mkRk W0 W1 W2 W3 W4 W5 W6 W7 W8 W9 W10 W11 W12 W13 W14 W15 W16 W17 W18 W19 W20 W21 W22 W23 W24 W25 W26 W27 W28 W29 W30 W31 W32).get 4 = W4 := rfl
theorem get_5 (W0 W1 W2 W3 W4 W5 W6 W7 W8 W9 W10 W11 W12 W13 W14 W15 W16 W17 W18 W19 W20 W21 W22 W23 W24 W25 W26 W27 W28 W29 W30 W31 W32 : Words) : (mkRk W0 W1 W2 W3 W4 W5 W6 W7 W8 W9 W10 W11 W12 W13 W14 W15 W16 W17 W18 W19 W20 W21 W22 W23 W24 W25 W26 W27 W28 W29 W30 W31 W32).get 5 = W5 := rfl
theorem get_6 (W0 W1 W2 W3 W4 W5 W6 W7 W8 W9 W10 W11 W12 W13 W14 W15 W16 W17 W18 W19 W20 W21 W22 W23 W24 W25 W26 W27 W28 W29 W30 W31 W32 : Words) : (mkRk W0 W1 W2 W3 W4 W5 W6 W7 W8 W9 W10 W11 W12 W13 W14 W15 W16 W17 W18 W19 W20 W21 W22 W23 W24 W25 W26 W27 W28 W29 W30 W31 W32).get 6 = W6 := rfl
theorem get_7 (W0 W1 W2 W3 W4 W5 W6 W7 W8 W9 W10 W11 W12 W13 W14 W15 W16 W17 W18 W19 W20 W21 W22 W23 W24 W25 W26 W27 W28 W29 W30 W31 W32 : Words) : (mkRk W0 W1 W2 W3 W4 W5 W6 W7 W8 W9 W10 W11 W12 W13 W14 W15 W16 W17 W18 W19 W20 W21 W22 W23 W24 W25 W26 W27 W28 W29 W30 W31 W32).get 7 = W7 := rfl
theorem get_8 (W0 W1 W2 W3 W4 W5 W6 W7 W8 W9 W10 W11 W12 W13 W14 W15 W16 W17 W18 W19 W20 W21 W22 W23 W24 W25 W26 W27 W28 W29 W30 W31 W32 : Words) : (mkRk W0 W1 W2 W3 W4 W5 W6 W7 W8 W9 W10 W11 W12 W13 W14 W15 W16 W17 W18 W19 W20 W21 W22 W23 W24 W25 W26 W27 W28 W29 W30 W31 W32).get 8 = W8 := rfl
theorem get_9 (W0 W1 W2 W3 W4 W5 W6 W7 W8 W9 W10 W11 W12 W13 W14 W15 W16 W17 W18 W19 W20 W21 W22 W23 W24 W25 W26 W27 W28 W29 W30 W31 W32 : Words) : (mkRk W0 W1 W2 W3 W4 W5 W6 W7 W8 W9 W10 W11 W12 W13 W14 W15 W16 W17 W18 W19 W20 W21 W22 W23 W24 W25 W26 W27 W28 W29 W30 W31 W32).get 9 = W9 := rfl
theorem get_10 (W0 W1 W2 W3 W4 W5 W6 W7 W8 W9 W10 W11 W12 W13 W14 W15 W16 W17 W18 W19 W20 W21 W22 W23 W24 W25 W26 W27 W28 W29 W30 W31 W32 : Words) : (mkRk W0 W1 W2 W3 W4 W5 W6 W7 W8 W9 W10 W11 W12 W13 W14 W15 W16 W17 W18 W19 W20 W21 W22 W23 W24 W25 W26 W27 W28 W29 W30 W31 W32).get 10 = W10 := rfl
theorem get_11 (W0 W1 W2 W3 W4 W5 W6 W7 W8 W9 W10 W11 W12 W13 W14 W15 W16 W17 W18 W19 W20 W21 W22 W23 W24 W25 W26 W27 W28 W29 W30 W31 W32 : Words) : (mkRk W0 W1 W2 W3 W4 W5 W6 W7 W8 W9 W10 W11 W12 W13 W14 W15 W16 W17 W18 W19 W20 W21 W22 W23 W24 W25 W26 W27 W28 W29 W30 W31 W32).get 11 = W11 := rfl
theorem get_12 (W0 W1 W2 W3 W4 W5 W6 W7 W8 W9 W10 W11 W12 W13 W14 W15 W16 W17 W18 W19 W20 W21 W22 W23 W24 W25 W26 W27 W28 W29 W30 W31 W32 : Words) : (mkRk W0 W1 W2 W3 W4 W5 W6 W7 W8 W9 W10 W11 W12 W13 W14 W15 W16 W17 W18 W19 W20 W21 W22 W23 W24 W25 W26 W27 W28 W29 W30 W31 W32).get 12 = W12 := rfl
theorem get_13 (W0 W1 W2 W3 W4 W5 W6 W7 W8 W9 W10 W11 W12 W13 W14 W15 W16 W17 W18 W19 W20 W21 W22 W23 W24 W25 W26 W27 W28 W29 W30 W31 W32 : Words) : (mkRk W0 W1 W2 W3 W4 W5 W6 W7 W8 W9 W10 W11 W12 W13 W14 W15 W16 W17 W18 W19 W20 W21 W22 W23 W24 W25 W26 W27 W28 W29 W30 W31 W32).get 13 = W13 := rfl
theorem get_14 (W0 W1 W2 W3 W4 W5 W6 W7 W8 W9 W10 W11 W12 W13 W14 W15 W16 W17 W18 W19 W20 W21 W22 W23 W24 W25 W26 W27 W28 W29 W30 W31 W32 : Words) : (mkRk W0 W1 W2 W3 W4 W5 W6 W7 W8 W9 W10 W11 W12 W13 W14 W15 W16 W17 W18 W19 W20 W21 W22 W23 W24 W25 W26 W27 W28 W29 W30 W31 W32).get 14 = W14 := rfl
theorem get_15 (W0 W1 W2 W3 W4 W5 W6 W7 W8 W9 W10 W11 W12 W13 W14 W15 W16 W17 W18 W19 W20 W21 W22 W23 W24 W25 W26 W27 W28 W29 W30 W31 W32 : Words) : (mkRk W0 W1 W2 W3 W4 W5 W6 W7 W8 W9 W10 W11 W12 W13 W14 W15 W16 W17 W18 W19 W20 W21 W22 W23 W24 W25 W26 W27 W28 W29 W30 W31 W32).get 15 = W15 := rfl
theorem get_16 (W0 W1 W2 W3 W4 W5 W6 W7 W8 W9 W10 W11 W12 W13 W14 W15 W16 W17 W18 W19 W20 W21 W22 W23 W24 W25 W26 W27 W28 W29 W30 W31 W32 : Words) : (mkRk W0 W1 W2 W3 W4 W5 W6 W7 W8 W9 W10 W11 W12 W13 W14 W15 W16 W17 W18 W19 W20 W21 W22 W23 W24 W25 W26 W27 W28 W29 W30 W31 W32).get 16 = W16 := rfl
theorem get_17 (W0 W1 W2 W3 W4 W5 W6 W7 W8 W9 W10 W11 W12 W13 W14 W15 W16 W17 W18 W19 W20 W21 W22 W23 W24 W25 W26 W27 W28 W29 W30 W31 W32 : Words) : (mkRk W0 W1 W2 W3 W4 W5 W6 W7 W8 W9 W10 W11 W12 W13 W14 W15 W16 W17 W18 W19 W20 W21 W22 W23 W24 W25 W26 W27 W28 W29 W30 W31 W32).get 17 = W17 := rfl
theorem get_18 (W0 W1 W2 W3 W4 W5 W6 W7 W8 W9 W10 W11 W12 W13 W14 W15 W16 W17 W18 W19 W20 W21 W22 W23 W24 W25 W26 W27 W28 W29 W30 W31 W32 : Words) : (mkRk W0 W1 W2 W3 W4 W5 W6 W7 W8 W9 W10 W11 W12 W13 W14 W15 W16 W17 W18 W19 W20 W21 W22 W23 W24 W25 W26 W27 W28 W29 W30 W31 W32).get 18 = W18 := rfl
theorem get_19 (W0 W1 W2 W3 W4 W5 W6 W7 W8 W9 W10 W11 W12 W13 W14 W15 W16 W17 W18 W19 W20 W21 W22 W23 W24 W25 W26 W27 W28 W29 W30 W31 W32 : Words) : (mkRk W0 W1 W2 W3 W4 W5 W6 W7 W8 W9 W10 W11 W12 W13 W14 W15 W16 W17 W18 W19 W20 W21 W22 W23 W24 W25 W26 W27 W28 W29 W30 W31 W32).get 19 = W19 := rfl
theorem get_20 (W0 W1 W2 W3 W4 W5 W6 W7 W8 W9 W10 W11 W12 W13 W14 W15 W16 W17 W18 W19 W20 W21 W22 W23 W24 W25 W26 W27 W28 W29 W30 W31 W32 : Words) : (mkRk W0 W1 W2 W3 W4 W5 W6 W7 W8 W9 W10 W11 W12 W13 W14 W15 W16 W17 W18 W19 W20 W21 W22 W23 W24 W25 W26 W27 W28 W29 W30 W31 W32).get 20 = W20 := rfl
theorem get_21 (W0 W1 W2 W3 W4 W5 W6 W7 W8 W9 W10 W11 W12 W13 W14 W15 W16 W17 W18 W19 W20 W21 W22 W23 W24 W25 W26 W27 W28 W29 W30 W31 W32 : Words) : (mkRk W0 W1 W2 W3 W4 W5 W6 W7 W8 W9 W10 W11 W12 W13 W14 W15 W16 W17 W18 W19 W20 W21 W22 W23 W24 W25 W26 W27 W28 W29 W30 W31 W32).get 21 = W21 := rfl
theorem get_22 (W0 W1 W2 W3 W4 W5 W6 W7 W8 W9 W10 W11 W12 W13 W14 W15 W16 W17 W18 W19 W20 W21 W22 W23 W24 W25 W26 W27 W28 W29 W30 W31 W32 : Words) : (mkRk W0 W1 W2 W3 W4 W5 W6 W7 W8 W9 W10 W11 W12 W13 W14 W15 W16 W17 W18 W19 W20 W21 W22 W23 W24 W25 W26 W27 W28 W29 W30 W31 W32).get 22 = W22 := rfl
theorem get_23 (W0 W1 W2 W3 W4 W5 W6 W7 W8 W9 W10 W11 W12 W13 W14 W15 W16 W17 W18 W19 W20 W21 W22 W23 W24 W25 W26 W27 W28 W29 W30 W31 W32 : Words) : (mkRk W0 W1 W2 W3 W4 W5 W6 W7 W8 W9 W10 W11 W12 W13 W14 W15 W16 W17 W18 W19 W20 W21 W22 W23 W24 W25 W26 W27 W28 W29 W30 W31 W32).get 23 = W23 := rfl
theorem get_24 (W0 W1 W2 W3 W4 W5 W6 W7 W8 W9 W10 W11 W12 W13 W14 W15 W16 W17 W18 W19 W20 W21 W22 W23 W24 W25 W26 W27 W28 W29 W30 W31 W32 : Words) : (mkRk W0 W1 W2 W3 W4 W5 W6 W7 W8 W9 W10 W11 W12 W13 W14 W15 W16 W17 W18 W19 W20 W21 W22 W23 W24 W25 W26 W27 W28 W29 W30 W31 W32).get 24 = W24 := rfl
theorem get_25 (W0 W1 W2 W3 W4 W5 W6 W7 W8 W9 W10 W11 W12 W13 W14 W15 W16 W17 W18 W19 W20 W21 W22 W23 W24 W25 W26 W27 W28 W29 W30 W31 W32 : Words) : (mkRk W0 W1 W2 W3 W4 W5 W6 W7 W8 W9 W10 W11 W12 W13 W14 W15 W16 W17 W18 W19 W20 W21 W22 W23 W24 W25 W26 W27 W28 W29 W30 W31 W32).get 25 = W25 := rfl
theorem get_26 (W0 W1 W2 W3 W4 W5 W6 W7 W8 W9 W10 W11 W12 W13 W14 W15 W16 W17 W18 W19 W20 W21 W22 W23 W24 W25 W26 W27 W28 W29 W30 W31 W32 : Words) : (mkRk W0 W1 W2 W3 W4 W5 W6 W7 W8 W9 W10 W11 W12 W13 W14 W15 W16 W17 W18 W19 W20 W21 W22 W23 W24 W25 W26 W27 W28 W29 W30 W31 W32).get 26 = W26 := rfl
theorem get_27 (W0 W1 W2 W3 W4 W5 W6 W7 W8 W9 W10 W11 W12 W13 W14 W15 W16 W17 W18 W19 W20 W21 W22 W23 W24 W25 W26 W27 W28 W29 W30 W31 W32 : Words) : (mkRk W0 W1 W2 W3 W4 W5 W6 W7 W8 W9 W10 W11 W12 W13 W14 W15 W16 W17 W18 W19 W20 W21 W22 W23 W24 W25 W26 W27 W28 W29 W30 W31 W32).get 27 = W27 := rfl
theorem get_28 (W0 W1 W2 W3 W4 W5 W6 W7 W8 W9 W10 W11 W12 W13 W14 W15 W16 W17 W18 W19 W20 W21 W22 W23 W24 W25 W26 W27 W28 W29 W30 W31 W32 : Words) : (mkRk W0 W1 W2 W3 W4 W5 W6 W7 W8 W9 W10 W11 W12 W13 W14 W15 W16 W17 W18 W19 W20 W21 W22 W23 W24 W25 W26 W27 W28 W29 W30 W31 W32).get 28 = W28 := rfl
theorem get_29 (W0 W1 W2 W3 W4 W5 W6 W7 W8 W9 W10 W11 W12 W13 W14 W15 W16 W17 W18 W19 W20 W21 W22 W23 W24 W25 W26 W27 W28 W29 W30 W31 W32 : Words) : (mkRk W0 W1 W2 W3 W4 W5 W6 W7 W8 W9 W10 W11 W12 W13 W14 W15 W16 W17 W18 W19 W20 W21 W22 W23 W24 W25 W26 W27 W28 W29 W30 W31 W32).get 29 = W29 := rfl
theorem get_30 (W0 W1 W2 W3 W4 W5 W6 W7 W8 W9 W10 W11 W12 W13 W14 W15 W16 W17 W18 W19 W20 W21 W22 W23 W24 W25 W26 W27 W28 W29 W30 W31 W32 : Words) : (mkRk W0 W1 W2 W3 W4 W5 W6 W7 W8 W9 W10 W11 W12 W13 W14 W15 W16 W17 W18 W19 W20 W21 W22 W23 W24 W25 W26 W27 W28 W29 W30 W31 W32).get 30 = W30 := rfl
theorem get_31 (W0 W1 W2 W3 W4 W5 W6 W7 W8 W9 W10 W11 W12 W13 W14 W15 W16 W17 W18 W19 W20 W21 W22 W23 W24 W25 W26 W27 W28 W29 W30 W31 W32 : Words) : (mkRk W0 W1 W2 W3 W4 W5 W6 W7 W8 W9 W10 W11 W12 W13 W14 W15 W16 W17 W18 W19 W20 W21 W22 W23 W24 W25 W26 W27 W28 W29 W30 W31 W32).get 31 = W31 := rfl
theorem get_32 (W0 W1 W2 W3 W4 W5 W6 W7 W8 W9 W10 W11 W12 W13 W14 W15 W16 W17 W18 W19 W20 W21 W22 W23 W24 W25 W26 W27 W28 W29 W30 W31 W32 : Words) : (mkRk W0 W1 W2 W3 W4 W5 W6 W7 W8 W9 W10 W11 W12 W13 W14 W15 W16 W17 W18 W19 W20 W21 W22 W23 W24 W25 W26 W27 W28 W29 W30 W31 W32).get 32 = W32 := rfl

/-- the regenerated `encrypt_block` is the composition of the regenerated leaves -/
theorem encrypt_block_gen (W0 W1 W2 W3 W4 W5 W6 W7 W8 W9 W10 W11 W12 W13 W14 W15 W16 W17 W18 W19 W20 W21 W22 W23 W24 W25 W26 W27 W28 W29 W30 W31 W32 : Words) (b : BitVec 128) :
    serpent_encrypt_block W0.w0 W0.w1 W0.w2 W0.w3 W1.w0 W1.w1 W1.w2 W1.w3 W2.w0 W2.w1 W2.w2 W2.w3 W3.w0 W3.w1 W3.w2 W3.w3 W4.w0 W4.w1 W4.w2 W4.w3 W5.w0 W5.w1 W5.w2 W5.w3 W6.w0 W6.w1 W6.w2 W6.w3 W7.w0 W7.w1 W7.w2 W7.w3 W8.w0 W8.w1 W8.w2 W8.w3 W9.w0 W9.w1 W9.w2 W9.w3 W10.w0 W10.w1 W10.w2 W10.w3 W11.w0 W11.w1 W11.w2 W11.w3 W12.w0 W12.w1 W12.w2 W12.w3 W13.w0 W13.w1 W13.w2 W13.w3 W14.w0 W14.w1 W14.w2 W14.w3 W15.w0 W15.w1 W15.w2 W15.w3 W16.w0 W16.w1 W16.w2 W16.w3 W17.w0 W17.w1 W17.w2 W17.w3 W18.w0 W18.w1 W18.w2 W18.w3 W19.w0 W19.w1 W19.w2 W19.w3 W20.w0 W20.w1 W20.w2 W20.w3 W21.w0 W21.w1 W21.w2 W21.w3 W22.w0 W22.w1 W22.w2 W22.w3 W23.w0 W23.w1 W23.w2 W23.w3 W24.w0 W24.w1 W24.w2 W24.w3 W25.w0 W25.w1 W25.w2 W25.w3 W26.w0 W26.w1 W26.w2 W26.w3 W27.w0 W27.w1 W27.w2 W27.w3 W28.w0 W28.w1 W28.w2 W28.w3 W29.w0 W29.w1 W29.w2 W29.w3 W30.w0 W30.w1 W30.w2 W30.w3 W31.w0 W31.w1 W31.w2 W31.w3 W32.w0 W32.w1 W32.w2 W32.w3 b
      = P.gen.encrypt (mkRk W0 W1 W2 W3 W4 W5 W6 W7 W8 W9 W10 W11 W12 W13 W14 W15 W16 W17 W18 W19 W20 W21 W22 W23 W24 W25 W26 W27 W28 W29 W30 W31 W32) b := by
  simp only [serpent_encrypt_block, P.encrypt, P.encryptWordsWith, P.encBody, P.applyS, P.applySInv, P.gen, P.ofTup, ROUNDS, Nat.reduceSub, Nat.reduceMod, unroll31, get_0, get_1, get_2, get_3, get_4, get_5, get_6, get_7, get_8, get_9, get_10, get_11, get_12, get_13, get_14, get_15, get_16, get_17, get_18, get_19, get_20, get_21, get_22, get_23, get_24, get_25, get_26, get_27, get_28, get_29, get_30, get_31, get_32,
    serpent_xor, serpent_linear_transform, serpent_linear_transform_inv, serpent_read_words, serpent_write_words,
    serpent_sbox_e0, serpent_sbox_e1, serpent_sbox_e2, serpent_sbox_e3, serpent_sbox_e4, serpent_sbox_e5, serpent_sbox_e6, serpent_sbox_e7,
    serpent_sbox_d0, serpent_sbox_d1, serpent_sbox_d2, serpent_sbox_d3, serpent_sbox_d4, serpent_sbox_d5, serpent_sbox_d6, serpent_sbox_d7]

/-- the regenerated `decrypt_block` is the composition of the regenerated leaves -/
theorem decrypt_block_gen (W0 W1 W2 W3 W4 W5 W6 W7 W8 W9 W10 W11 W12 W13 W14 W15 W16 W17 W18 W19 W20 W21 W22 W23 W24 W25 W26 W27 W28 W29 W30 W31 W32 : Words) (b : BitVec 128) :
    serpent_decrypt_block W0.w0 W0.w1 W0.w2 W0.w3 W1.w0 W1.w1 W1.w2 W1.w3 W2.w0 W2.w1 W2.w2 W2.w3 W3.w0 W3.w1 W3.w2 W3.w3 W4.w0 W4.w1 W4.w2 W4.w3 W5.w0 W5.w1 W5.w2 W5.w3 W6.w0 W6.w1 W6.w2 W6.w3 W7.w0 W7.w1 W7.w2 W7.w3 W8.w0 W8.w1 W8.w2 W8.w3 W9.w0 W9.w1 W9.w2 W9.w3 W10.w0 W10.w1 W10.w2 W10.w3 W11.w0 W11.w1 W11.w2 W11.w3 W12.w0 W12.w1 W12.w2 W12.w3 W13.w0 W13.w1 W13.w2 W13.w3 W14.w0 W14.w1 W14.w2 W14.w3 W15.w0 W15.w1 W15.w2 W15.w3 W16.w0 W16.w1 W16.w2 W16.w3 W17.w0 W17.w1 W17.w2 W17.w3 W18.w0 W18.w1 W18.w2 W18.w3 W19.w0 W19.w1 W19.w2 W19.w3 W20.w0 W20.w1 W20.w2 W20.w3 W21.w0 W21.w1 W21.w2 W21.w3 W22.w0 W22.w1 W22.w2 W22.w3 W23.w0 W23.w1 W23.w2 W23.w3 W24.w0 W24.w1 W24.w2 W24.w3 W25.w0 W25.w1 W25.w2 W25.w3 W26.w0 W26.w1 W26.w2 W26.w3 W27.w0 W27.w1 W27.w2 W27.w3 W28.w0 W28.w1 W28.w2 W28.w3 W29.w0 W29.w1 W29.w2 W29.w3 W30.w0 W30.w1 W30.w2 W30.w3 W31.w0 W31.w1 W31.w2 W31.w3 W32.w0 W32.w1 W32.w2 W32.w3 b
      = P.gen.decrypt (mkRk W0 W1 W2 W3 W4 W5 W6 W7 W8 W9 W10 W11 W12 W13 W14 W15 W16 W17 W18 W19 W20 W21 W22 W23 W24 W25 W26 W27 W28 W29 W30 W31 W32) b := by
  simp only [serpent_decrypt_block, P.decrypt, P.decryptWordsWith, P.decBody, P.applyS, P.applySInv, P.gen, P.ofTup, ROUNDS, Nat.reduceSub, Nat.reduceMod, unroll31, get_0, get_1, get_2, get_3, get_4, get_5, get_6, get_7, get_8, get_9, get_10, get_11, get_12, get_13, get_14, get_15, get_16, get_17, get_18, get_19, get_20, get_21, get_22, get_23, get_24, get_25, get_26, get_27, get_28, get_29, get_30, get_31, get_32,
    serpent_xor, serpent_linear_transform, serpent_linear_transform_inv, serpent_read_words, serpent_write_words,
    serpent_sbox_e0, serpent_sbox_e1, serpent_sbox_e2, serpent_sbox_e3, serpent_sbox_e4, serpent_sbox_e5, serpent_sbox_e6, serpent_sbox_e7,
    serpent_sbox_d0, serpent_sbox_d1, serpent_sbox_d2, serpent_sbox_d3, serpent_sbox_d4, serpent_sbox_d5, serpent_sbox_d6, serpent_sbox_d7]

/-- **Serpent `encrypt_block` (default build)**: regenerated function = model, all round keys, all blocks -/
theorem encrypt_block_eq (W0 W1 W2 W3 W4 W5 W6 W7 W8 W9 W10 W11 W12 W13 W14 W15 W16 W17 W18 W19 W20 W21 W22 W23 W24 W25 W26 W27 W28 W29 W30 W31 W32 : Words) (b : BitVec 128) :
    serpent_encrypt_block W0.w0 W0.w1 W0.w2 W0.w3 W1.w0 W1.w1 W1.w2 W1.w3 W2.w0 W2.w1 W2.w2 W2.w3 W3.w0 W3.w1 W3.w2 W3.w3 W4.w0 W4.w1 W4.w2 W4.w3 W5.w0 W5.w1 W5.w2 W5.w3 W6.w0 W6.w1 W6.w2 W6.w3 W7.w0 W7.w1 W7.w2 W7.w3 W8.w0 W8.w1 W8.w2 W8.w3 W9.w0 W9.w1 W9.w2 W9.w3 W10.w0 W10.w1 W10.w2 W10.w3 W11.w0 W11.w1 W11.w2 W11.w3 W12.w0 W12.w1 W12.w2 W12.w3 W13.w0 W13.w1 W13.w2 W13.w3 W14.w0 W14.w1 W14.w2 W14.w3 W15.w0 W15.w1 W15.w2 W15.w3 W16.w0 W16.w1 W16.w2 W16.w3 W17.w0 W17.w1 W17.w2 W17.w3 W18.w0 W18.w1 W18.w2 W18.w3 W19.w0 W19.w1 W19.w2 W19.w3 W20.w0 W20.w1 W20.w2 W20.w3 W21.w0 W21.w1 W21.w2 W21.w3 W22.w0 W22.w1 W22.w2 W22.w3 W23.w0 W23.w1 W23.w2 W23.w3 W24.w0 W24.w1 W24.w2 W24.w3 W25.w0 W25.w1 W25.w2 W25.w3 W26.w0 W26.w1 W26.w2 W26.w3 W27.w0 W27.w1 W27.w2 W27.w3 W28.w0 W28.w1 W28.w2 W28.w3 W29.w0 W29.w1 W29.w2 W29.w3 W30.w0 W30.w1 W30.w2 W30.w3 W31.w0 W31.w1 W31.w2 W31.w3 W32.w0 W32.w1 W32.w2 W32.w3 b
      = BC.Serpent.encrypt #[W0, W1, W2, W3, W4, W5, W6, W7, W8, W9, W10, W11, W12, W13, W14, W15, W16, W17, W18, W19, W20, W21, W22, W23, W24, W25, W26, W27, W28, W29, W30, W31, W32] b := by
  rw [encrypt_block_gen, P.gen_eq_model, P.model_encrypt, mkRk]

/-- **Serpent `decrypt_block` (default build)** -/
theorem decrypt_block_eq (W0 W1 W2 W3 W4 W5 W6 W7 W8 W9 W10 W11 W12 W13 W14 W15 W16 W17 W18 W19 W20 W21 W22 W23 W24 W25 W26 W27 W28 W29 W30 W31 W32 : Words) (b : BitVec 128) :
    serpent_decrypt_block W0.w0 W0.w1 W0.w2 W0.w3 W1.w0 W1.w1 W1.w2 W1.w3 W2.w0 W2.w1 W2.w2 W2.w3 W3.w0 W3.w1 W3.w2 W3.w3 W4.w0 W4.w1 W4.w2 W4.w3 W5.w0 W5.w1 W5.w2 W5.w3 W6.w0 W6.w1 W6.w2 W6.w3 W7.w0 W7.w1 W7.w2 W7.w3 W8.w0 W8.w1 W8.w2 W8.w3 W9.w0 W9.w1 W9.w2 W9.w3 W10.w0 W10.w1 W10.w2 W10.w3 W11.w0 W11.w1 W11.w2 W11.w3 W12.w0 W12.w1 W12.w2 W12.w3 W13.w0 W13.w1 W13.w2 W13.w3 W14.w0 W14.w1 W14.w2 W14.w3 W15.w0 W15.w1 W15.w2 W15.w3 W16.w0 W16.w1 W16.w2 W16.w3 W17.w0 W17.w1 W17.w2 W17.w3 W18.w0 W18.w1 W18.w2 W18.w3 W19.w0 W19.w1 W19.w2 W19.w3 W20.w0 W20.w1 W20.w2 W20.w3 W21.w0 W21.w1 W21.w2 W21.w3 W22.w0 W22.w1 W22.w2 W22.w3 W23.w0 W23.w1 W23.w2 W23.w3 W24.w0 W24.w1 W24.w2 W24.w3 W25.w0 W25.w1 W25.w2 W25.w3 W26.w0 W26.w1 W26.w2 W26.w3 W27.w0 W27.w1 W27.w2 W27.w3 W28.w0 W28.w1 W28.w2 W28.w3 W29.w0 W29.w1 W29.w2 W29.w3 W30.w0 W30.w1 W30.w2 W30.w3 W31.w0 W31.w1 W31.w2 W31.w3 W32.w0 W32.w1 W32.w2 W32.w3 b
      = BC.Serpent.decrypt #[W0, W1, W2, W3, W4, W5, W6, W7, W8, W9, W10, W11, W12, W13, W14, W15, W16, W17, W18, W19, W20, W21, W22, W23, W24, W25, W26, W27, W28, W29, W30, W31, W32] b := by
  rw [decrypt_block_gen, P.gen_eq_model, P.model_decrypt, mkRk]

/-- **Serpent `encrypt_block` (`--cfg serpent_no_unroll`)** -/
theorem loop_encrypt_block_eq (W0 W1 W2 W3 W4 W5 W6 W7 W8 W9 W10 W11 W12 W13 W14 W15 W16 W17 W18 W19 W20 W21 W22 W23 W24 W25 W26 W27 W28 W29 W30 W31 W32 : Words) (b : BitVec 128) :
    serpent_loop_encrypt_block W0.w0 W0.w1 W0.w2 W0.w3 W1.w0 W1.w1 W1.w2 W1.w3 W2.w0 W2.w1 W2.w2 W2.w3 W3.w0 W3.w1 W3.w2 W3.w3 W4.w0 W4.w1 W4.w2 W4.w3 W5.w0 W5.w1 W5.w2 W5.w3 W6.w0 W6.w1 W6.w2 W6.w3 W7.w0 W7.w1 W7.w2 W7.w3 W8.w0 W8.w1 W8.w2 W8.w3 W9.w0 W9.w1 W9.w2 W9.w3 W10.w0 W10.w1 W10.w2 W10.w3 W11.w0 W11.w1 W11.w2 W11.w3 W12.w0 W12.w1 W12.w2 W12.w3 W13.w0 W13.w1 W13.w2 W13.w3 W14.w0 W14.w1 W14.w2 W14.w3 W15.w0 W15.w1 W15.w2 W15.w3 W16.w0 W16.w1 W16.w2 W16.w3 W17.w0 W17.w1 W17.w2 W17.w3 W18.w0 W18.w1 W18.w2 W18.w3 W19.w0 W19.w1 W19.w2 W19.w3 W20.w0 W20.w1 W20.w2 W20.w3 W21.w0 W21.w1 W21.w2 W21.w3 W22.w0 W22.w1 W22.w2 W22.w3 W23.w0 W23.w1 W23.w2 W23.w3 W24.w0 W24.w1 W24.w2 W24.w3 W25.w0 W25.w1 W25.w2 W25.w3 W26.w0 W26.w1 W26.w2 W26.w3 W27.w0 W27.w1 W27.w2 W27.w3 W28.w0 W28.w1 W28.w2 W28.w3 W29.w0 W29.w1 W29.w2 W29.w3 W30.w0 W30.w1 W30.w2 W30.w3 W31.w0 W31.w1 W31.w2 W31.w3 W32.w0 W32.w1 W32.w2 W32.w3 b
      = BC.Serpent.encryptLoop #[W0, W1, W2, W3, W4, W5, W6, W7, W8, W9, W10, W11, W12, W13, W14, W15, W16, W17, W18, W19, W20, W21, W22, W23, W24, W25, W26, W27, W28, W29, W30, W31, W32] b := by
  rw [encryptLoop_eq_encrypt, ← encrypt_block_eq]; rfl

/-- **Serpent `decrypt_block` (`--cfg serpent_no_unroll`)** -/
theorem loop_decrypt_block_eq (W0 W1 W2 W3 W4 W5 W6 W7 W8 W9 W10 W11 W12 W13 W14 W15 W16 W17 W18 W19 W20 W21 W22 W23 W24 W25 W26 W27 W28 W29 W30 W31 W32 : Words) (b : BitVec 128) :
    serpent_loop_decrypt_block W0.w0 W0.w1 W0.w2 W0.w3 W1.w0 W1.w1 W1.w2 W1.w3 W2.w0 W2.w1 W2.w2 W2.w3 W3.w0 W3.w1 W3.w2 W3.w3 W4.w0 W4.w1 W4.w2 W4.w3 W5.w0 W5.w1 W5.w2 W5.w3 W6.w0 W6.w1 W6.w2 W6.w3 W7.w0 W7.w1 W7.w2 W7.w3 W8.w0 W8.w1 W8.w2 W8.w3 W9.w0 W9.w1 W9.w2 W9.w3 W10.w0 W10.w1 W10.w2 W10.w3 W11.w0 W11.w1 W11.w2 W11.w3 W12.w0 W12.w1 W12.w2 W12.w3 W13.w0 W13.w1 W13.w2 W13.w3 W14.w0 W14.w1 W14.w2 W14.w3 W15.w0 W15.w1 W15.w2 W15.w3 W16.w0 W16.w1 W16.w2 W16.w3 W17.w0 W17.w1 W17.w2 W17.w3 W18.w0 W18.w1 W18.w2 W18.w3 W19.w0 W19.w1 W19.w2 W19.w3 W20.w0 W20.w1 W20.w2 W20.w3 W21.w0 W21.w1 W21.w2 W21.w3 W22.w0 W22.w1 W22.w2 W22.w3 W23.w0 W23.w1 W23.w2 W23.w3 W24.w0 W24.w1 W24.w2 W24.w3 W25.w0 W25.w1 W25.w2 W25.w3 W26.w0 W26.w1 W26.w2 W26.w3 W27.w0 W27.w1 W27.w2 W27.w3 W28.w0 W28.w1 W28.w2 W28.w3 W29.w0 W29.w1 W29.w2 W29.w3 W30.w0 W30.w1 W30.w2 W30.w3 W31.w0 W31.w1 W31.w2 W31.w3 W32.w0 W32.w1 W32.w2 W32.w3 b
      = BC.Serpent.decryptLoop #[W0, W1, W2, W3, W4, W5, W6, W7, W8, W9, W10, W11, W12, W13, W14, W15, W16, W17, W18, W19, W20, W21, W22, W23, W24, W25, W26, W27, W28, W29, W30, W31, W32] b := by
  rw [decryptLoop_eq_decrypt, ← decrypt_block_eq]; rfl

/-! The same four theorems with the 132 round-key words as separate variables (the flattened struct field). -/

theorem encrypt_block_eq' (k0_0 k0_1 k0_2 k0_3 k1_0 k1_1 k1_2 k1_3 k2_0 k2_1 k2_2 k2_3 k3_0 k3_1 k3_2 k3_3 k4_0 k4_1 k4_2 k4_3 k5_0 k5_1 k5_2 k5_3 k6_0 k6_1 k6_2 k6_3 k7_0 k7_1 k7_2 k7_3 k8_0 k8_1 k8_2 k8_3 k9_0 k9_1 k9_2 k9_3 k10_0 k10_1 k10_2 k10_3 k11_0 k11_1 k11_2 k11_3 k12_0 k12_1 k12_2 k12_3 k13_0 k13_1 k13_2 k13_3 k14_0 k14_1 k14_2 k14_3 k15_0 k15_1 k15_2 k15_3 k16_0 k16_1 k16_2 k16_3 k17_0 k17_1 k17_2 k17_3 k18_0 k18_1 k18_2 k18_3 k19_0 k19_1 k19_2 k19_3 k20_0 k20_1 k20_2 k20_3 k21_0 k21_1 k21_2 k21_3 k22_0 k22_1 k22_2 k22_3 k23_0 k23_1 k23_2 k23_3 k24_0 k24_1 k24_2 k24_3 k25_0 k25_1 k25_2 k25_3 k26_0 k26_1 k26_2 k26_3 k27_0 k27_1 k27_2 k27_3 k28_0 k28_1 k28_2 k28_3 k29_0 k29_1 k29_2 k29_3 k30_0 k30_1 k30_2 k30_3 k31_0 k31_1 k31_2 k31_3 k32_0 k32_1 k32_2 k32_3 : BitVec 32) (b : BitVec 128) :
    serpent_encrypt_block k0_0 k0_1 k0_2 k0_3 k1_0 k1_1 k1_2 k1_3 k2_0 k2_1 k2_2 k2_3 k3_0 k3_1 k3_2 k3_3 k4_0 k4_1 k4_2 k4_3 k5_0 k5_1 k5_2 k5_3 k6_0 k6_1 k6_2 k6_3 k7_0 k7_1 k7_2 k7_3 k8_0 k8_1 k8_2 k8_3 k9_0 k9_1 k9_2 k9_3 k10_0 k10_1 k10_2 k10_3 k11_0 k11_1 k11_2 k11_3 k12_0 k12_1 k12_2 k12_3 k13_0 k13_1 k13_2 k13_3 k14_0 k14_1 k14_2 k14_3 k15_0 k15_1 k15_2 k15_3 k16_0 k16_1 k16_2 k16_3 k17_0 k17_1 k17_2 k17_3 k18_0 k18_1 k18_2 k18_3 k19_0 k19_1 k19_2 k19_3 k20_0 k20_1 k20_2 k20_3 k21_0 k21_1 k21_2 k21_3 k22_0 k22_1 k22_2 k22_3 k23_0 k23_1 k23_2 k23_3 k24_0 k24_1 k24_2 k24_3 k25_0 k25_1 k25_2 k25_3 k26_0 k26_1 k26_2 k26_3 k27_0 k27_1 k27_2 k27_3 k28_0 k28_1 k28_2 k28_3 k29_0 k29_1 k29_2 k29_3 k30_0 k30_1 k30_2 k30_3 k31_0 k31_1 k31_2 k31_3 k32_0 k32_1 k32_2 k32_3 b
      = BC.Serpent.encrypt #[⟨k0_0, k0_1, k0_2, k0_3⟩, ⟨k1_0, k1_1, k1_2, k1_3⟩, ⟨k2_0, k2_1, k2_2, k2_3⟩, ⟨k3_0, k3_1, k3_2, k3_3⟩, ⟨k4_0, k4_1, k4_2, k4_3⟩, ⟨k5_0, k5_1, k5_2, k5_3⟩, ⟨k6_0, k6_1, k6_2, k6_3⟩, ⟨k7_0, k7_1, k7_2, k7_3⟩, ⟨k8_0, k8_1, k8_2, k8_3⟩, ⟨k9_0, k9_1, k9_2, k9_3⟩, ⟨k10_0, k10_1, k10_2, k10_3⟩, ⟨k11_0, k11_1, k11_2, k11_3⟩, ⟨k12_0, k12_1, k12_2, k12_3⟩, ⟨k13_0, k13_1, k13_2, k13_3⟩, ⟨k14_0, k14_1, k14_2, k14_3⟩, ⟨k15_0, k15_1, k15_2, k15_3⟩, ⟨k16_0, k16_1, k16_2, k16_3⟩, ⟨k17_0, k17_1, k17_2, k17_3⟩, ⟨k18_0, k18_1, k18_2, k18_3⟩, ⟨k19_0, k19_1, k19_2, k19_3⟩, ⟨k20_0, k20_1, k20_2, k20_3⟩, ⟨k21_0, k21_1, k21_2, k21_3⟩, ⟨k22_0, k22_1, k22_2, k22_3⟩, ⟨k23_0, k23_1, k23_2, k23_3⟩, ⟨k24_0, k24_1, k24_2, k24_3⟩, ⟨k25_0, k25_1, k25_2, k25_3⟩, ⟨k26_0, k26_1, k26_2, k26_3⟩, ⟨k27_0, k27_1, k27_2, k27_3⟩, ⟨k28_0, k28_1, k28_2, k28_3⟩, ⟨k29_0, k29_1, k29_2, k29_3⟩, ⟨k30_0, k30_1, k30_2, k30_3⟩, ⟨k31_0, k31_1, k31_2, k31_3⟩, ⟨k32_0, k32_1, k32_2, k32_3⟩] b :=
  encrypt_block_eq ⟨k0_0, k0_1, k0_2, k0_3⟩ ⟨k1_0, k1_1, k1_2, k1_3⟩ ⟨k2_0, k2_1, k2_2, k2_3⟩ ⟨k3_0, k3_1, k3_2, k3_3⟩ ⟨k4_0, k4_1, k4_2, k4_3⟩ ⟨k5_0, k5_1, k5_2, k5_3⟩ ⟨k6_0, k6_1, k6_2, k6_3⟩ ⟨k7_0, k7_1, k7_2, k7_3⟩ ⟨k8_0, k8_1, k8_2, k8_3⟩ ⟨k9_0, k9_1, k9_2, k9_3⟩ ⟨k10_0, k10_1, k10_2, k10_3⟩ ⟨k11_0, k11_1, k11_2, k11_3⟩ ⟨k12_0, k12_1, k12_2, k12_3⟩ ⟨k13_0, k13_1, k13_2, k13_3⟩ ⟨k14_0, k14_1, k14_2, k14_3⟩ ⟨k15_0, k15_1, k15_2, k15_3⟩ ⟨k16_0, k16_1, k16_2, k16_3⟩ ⟨k17_0, k17_1, k17_2, k17_3⟩ ⟨k18_0, k18_1, k18_2, k18_3⟩ ⟨k19_0, k19_1, k19_2, k19_3⟩ ⟨k20_0, k20_1, k20_2, k20_3⟩ ⟨k21_0, k21_1, k21_2, k21_3⟩ ⟨k22_0, k22_1, k22_2, k22_3⟩ ⟨k23_0, k23_1, k23_2, k23_3⟩ ⟨k24_0, k24_1, k24_2, k24_3⟩ ⟨k25_0, k25_1, k25_2, k25_3⟩ ⟨k26_0, k26_1, k26_2, k26_3⟩ ⟨k27_0, k27_1, k27_2, k27_3⟩ ⟨k28_0, k28_1, k28_2, k28_3⟩ ⟨k29_0, k29_1, k29_2, k29_3⟩ ⟨k30_0, k30_1, k30_2, k30_3⟩ ⟨k31_0, k31_1, k31_2, k31_3⟩ ⟨k32_0, k32_1, k32_2, k32_3⟩ b

theorem decrypt_block_eq' (k0_0 k0_1 k0_2 k0_3 k1_0 k1_1 k1_2 k1_3 k2_0 k2_1 k2_2 k2_3 k3_0 k3_1 k3_2 k3_3 k4_0 k4_1 k4_2 k4_3 k5_0 k5_1 k5_2 k5_3 k6_0 k6_1 k6_2 k6_3 k7_0 k7_1 k7_2 k7_3 k8_0 k8_1 k8_2 k8_3 k9_0 k9_1 k9_2 k9_3 k10_0 k10_1 k10_2 k10_3 k11_0 k11_1 k11_2 k11_3 k12_0 k12_1 k12_2 k12_3 k13_0 k13_1 k13_2 k13_3 k14_0 k14_1 k14_2 k14_3 k15_0 k15_1 k15_2 k15_3 k16_0 k16_1 k16_2 k16_3 k17_0 k17_1 k17_2 k17_3 k18_0 k18_1 k18_2 k18_3 k19_0 k19_1 k19_2 k19_3 k20_0 k20_1 k20_2 k20_3 k21_0 k21_1 k21_2 k21_3 k22_0 k22_1 k22_2 k22_3 k23_0 k23_1 k23_2 k23_3 k24_0 k24_1 k24_2 k24_3 k25_0 k25_1 k25_2 k25_3 k26_0 k26_1 k26_2 k26_3 k27_0 k27_1 k27_2 k27_3 k28_0 k28_1 k28_2 k28_3 k29_0 k29_1 k29_2 k29_3 k30_0 k30_1 k30_2 k30_3 k31_0 k31_1 k31_2 k31_3 k32_0 k32_1 k32_2 k32_3 : BitVec 32) (b : BitVec 128) :
    serpent_decrypt_block k0_0 k0_1 k0_2 k0_3 k1_0 k1_1 k1_2 k1_3 k2_0 k2_1 k2_2 k2_3 k3_0 k3_1 k3_2 k3_3 k4_0 k4_1 k4_2 k4_3 k5_0 k5_1 k5_2 k5_3 k6_0 k6_1 k6_2 k6_3 k7_0 k7_1 k7_2 k7_3 k8_0 k8_1 k8_2 k8_3 k9_0 k9_1 k9_2 k9_3 k10_0 k10_1 k10_2 k10_3 k11_0 k11_1 k11_2 k11_3 k12_0 k12_1 k12_2 k12_3 k13_0 k13_1 k13_2 k13_3 k14_0 k14_1 k14_2 k14_3 k15_0 k15_1 k15_2 k15_3 k16_0 k16_1 k16_2 k16_3 k17_0 k17_1 k17_2 k17_3 k18_0 k18_1 k18_2 k18_3 k19_0 k19_1 k19_2 k19_3 k20_0 k20_1 k20_2 k20_3 k21_0 k21_1 k21_2 k21_3 k22_0 k22_1 k22_2 k22_3 k23_0 k23_1 k23_2 k23_3 k24_0 k24_1 k24_2 k24_3 k25_0 k25_1 k25_2 k25_3 k26_0 k26_1 k26_2 k26_3 k27_0 k27_1 k27_2 k27_3 k28_0 k28_1 k28_2 k28_3 k29_0 k29_1 k29_2 k29_3 k30_0 k30_1 k30_2 k30_3 k31_0 k31_1 k31_2 k31_3 k32_0 k32_1 k32_2 k32_3 b
      = BC.Serpent.decrypt #[⟨k0_0, k0_1, k0_2, k0_3⟩, ⟨k1_0, k1_1, k1_2, k1_3⟩, ⟨k2_0, k2_1, k2_2, k2_3⟩, ⟨k3_0, k3_1, k3_2, k3_3⟩, ⟨k4_0, k4_1, k4_2, k4_3⟩, ⟨k5_0, k5_1, k5_2, k5_3⟩, ⟨k6_0, k6_1, k6_2, k6_3⟩, ⟨k7_0, k7_1, k7_2, k7_3⟩, ⟨k8_0, k8_1, k8_2, k8_3⟩, ⟨k9_0, k9_1, k9_2, k9_3⟩, ⟨k10_0, k10_1, k10_2, k10_3⟩, ⟨k11_0, k11_1, k11_2, k11_3⟩, ⟨k12_0, k12_1, k12_2, k12_3⟩, ⟨k13_0, k13_1, k13_2, k13_3⟩, ⟨k14_0, k14_1, k14_2, k14_3⟩, ⟨k15_0, k15_1, k15_2, k15_3⟩, ⟨k16_0, k16_1, k16_2, k16_3⟩, ⟨k17_0, k17_1, k17_2, k17_3⟩, ⟨k18_0, k18_1, k18_2, k18_3⟩, ⟨k19_0, k19_1, k19_2, k19_3⟩, ⟨k20_0, k20_1, k20_2, k20_3⟩, ⟨k21_0, k21_1, k21_2, k21_3⟩, ⟨k22_0, k22_1, k22_2, k22_3⟩, ⟨k23_0, k23_1, k23_2, k23_3⟩, ⟨k24_0, k24_1, k24_2, k24_3⟩, ⟨k25_0, k25_1, k25_2, k25_3⟩, ⟨k26_0, k26_1, k26_2, k26_3⟩, ⟨k27_0, k27_1, k27_2, k27_3⟩, ⟨k28_0, k28_1, k28_2, k28_3⟩, ⟨k29_0, k29_1, k29_2, k29_3⟩, ⟨k30_0, k30_1, k30_2, k30_3⟩, ⟨k31_0, k31_1, k31_2, k31_3⟩, ⟨k32_0, k32_1, k32_2, k32_3⟩] b :=
  decrypt_block_eq ⟨k0_0, k0_1, k0_2, k0_3⟩ ⟨k1_0, k1_1, k1_2, k1_3⟩ ⟨k2_0, k2_1, k2_2, k2_3⟩ ⟨k3_0, k3_1, k3_2, k3_3⟩ ⟨k4_0, k4_1, k4_2, k4_3⟩ ⟨k5_0, k5_1, k5_2, k5_3⟩ ⟨k6_0, k6_1, k6_2, k6_3⟩ ⟨k7_0, k7_1, k7_2, k7_3⟩ ⟨k8_0, k8_1, k8_2, k8_3⟩ ⟨k9_0, k9_1, k9_2, k9_3⟩ ⟨k10_0, k10_1, k10_2, k10_3⟩ ⟨k11_0, k11_1, k11_2, k11_3⟩ ⟨k12_0, k12_1, k12_2, k12_3⟩ ⟨k13_0, k13_1, k13_2, k13_3⟩ ⟨k14_0, k14_1, k14_2, k14_3⟩ ⟨k15_0, k15_1, k15_2, k15_3⟩ ⟨k16_0, k16_1, k16_2, k16_3⟩ ⟨k17_0, k17_1, k17_2, k17_3⟩ ⟨k18_0, k18_1, k18_2, k18_3⟩ ⟨k19_0, k19_1, k19_2, k19_3⟩ ⟨k20_0, k20_1, k20_2, k20_3⟩ ⟨k21_0, k21_1, k21_2, k21_3⟩ ⟨k22_0, k22_1, k22_2, k22_3⟩ ⟨k23_0, k23_1, k23_2, k23_3⟩ ⟨k24_0, k24_1, k24_2, k24_3⟩ ⟨k25_0, k25_1, k25_2, k25_3⟩ ⟨k26_0, k26_1, k26_2, k26_3⟩ ⟨k27_0, k27_1, k27_2, k27_3⟩ ⟨k28_0, k28_1, k28_2, k28_3⟩ ⟨k29_0, k29_1, k29_2, k29_3⟩ ⟨k30_0, k30_1, k30_2, k30_3⟩ ⟨k31_0, k31_1, k31_2, k31_3⟩ ⟨k32_0, k32_1, k32_2, k32_3⟩ b

theorem loop_encrypt_block_eq' (k0_0 k0_1 k0_2 k0_3 k1_0 k1_1 k1_2 k1_3 k2_0 k2_1 k2_2 k2_3 k3_0 k3_1 k3_2 k3_3 k4_0 k4_1 k4_2 k4_3 k5_0 k5_1 k5_2 k5_3 k6_0 k6_1 k6_2 k6_3 k7_0 k7_1 k7_2 k7_3 k8_0 k8_1 k8_2 k8_3 k9_0 k9_1 k9_2 k9_3 k10_0 k10_1 k10_2 k10_3 k11_0 k11_1 k11_2 k11_3 k12_0 k12_1 k12_2 k12_3 k13_0 k13_1 k13_2 k13_3 k14_0 k14_1 k14_2 k14_3 k15_0 k15_1 k15_2 k15_3 k16_0 k16_1 k16_2 k16_3 k17_0 k17_1 k17_2 k17_3 k18_0 k18_1 k18_2 k18_3 k19_0 k19_1 k19_2 k19_3 k20_0 k20_1 k20_2 k20_3 k21_0 k21_1 k21_2 k21_3 k22_0 k22_1 k22_2 k22_3 k23_0 k23_1 k23_2 k23_3 k24_0 k24_1 k24_2 k24_3 k25_0 k25_1 k25_2 k25_3 k26_0 k26_1 k26_2 k26_3 k27_0 k27_1 k27_2 k27_3 k28_0 k28_1 k28_2 k28_3 k29_0 k29_1 k29_2 k29_3 k30_0 k30_1 k30_2 k30_3 k31_0 k31_1 k31_2 k31_3 k32_0 k32_1 k32_2 k32_3 : BitVec 32) (b : BitVec 128) :
    serpent_loop_encrypt_block k0_0 k0_1 k0_2 k0_3 k1_0 k1_1 k1_2 k1_3 k2_0 k2_1 k2_2 k2_3 k3_0 k3_1 k3_2 k3_3 k4_0 k4_1 k4_2 k4_3 k5_0 k5_1 k5_2 k5_3 k6_0 k6_1 k6_2 k6_3 k7_0 k7_1 k7_2 k7_3 k8_0 k8_1 k8_2 k8_3 k9_0 k9_1 k9_2 k9_3 k10_0 k10_1 k10_2 k10_3 k11_0 k11_1 k11_2 k11_3 k12_0 k12_1 k12_2 k12_3 k13_0 k13_1 k13_2 k13_3 k14_0 k14_1 k14_2 k14_3 k15_0 k15_1 k15_2 k15_3 k16_0 k16_1 k16_2 k16_3 k17_0 k17_1 k17_2 k17_3 k18_0 k18_1 k18_2 k18_3 k19_0 k19_1 k19_2 k19_3 k20_0 k20_1 k20_2 k20_3 k21_0 k21_1 k21_2 k21_3 k22_0 k22_1 k22_2 k22_3 k23_0 k23_1 k23_2 k23_3 k24_0 k24_1 k24_2 k24_3 k25_0 k25_1 k25_2 k25_3 k26_0 k26_1 k26_2 k26_3 k27_0 k27_1 k27_2 k27_3 k28_0 k28_1 k28_2 k28_3 k29_0 k29_1 k29_2 k29_3 k30_0 k30_1 k30_2 k30_3 k31_0 k31_1 k31_2 k31_3 k32_0 k32_1 k32_2 k32_3 b
      = BC.Serpent.encryptLoop #[⟨k0_0, k0_1, k0_2, k0_3⟩, ⟨k1_0, k1_1, k1_2, k1_3⟩, ⟨k2_0, k2_1, k2_2, k2_3⟩, ⟨k3_0, k3_1, k3_2, k3_3⟩, ⟨k4_0, k4_1, k4_2, k4_3⟩, ⟨k5_0, k5_1, k5_2, k5_3⟩, ⟨k6_0, k6_1, k6_2, k6_3⟩, ⟨k7_0, k7_1, k7_2, k7_3⟩, ⟨k8_0, k8_1, k8_2, k8_3⟩, ⟨k9_0, k9_1, k9_2, k9_3⟩, ⟨k10_0, k10_1, k10_2, k10_3⟩, ⟨k11_0, k11_1, k11_2, k11_3⟩, ⟨k12_0, k12_1, k12_2, k12_3⟩, ⟨k13_0, k13_1, k13_2, k13_3⟩, ⟨k14_0, k14_1, k14_2, k14_3⟩, ⟨k15_0, k15_1, k15_2, k15_3⟩, ⟨k16_0, k16_1, k16_2, k16_3⟩, ⟨k17_0, k17_1, k17_2, k17_3⟩, ⟨k18_0, k18_1, k18_2, k18_3⟩, ⟨k19_0, k19_1, k19_2, k19_3⟩, ⟨k20_0, k20_1, k20_2, k20_3⟩, ⟨k21_0, k21_1, k21_2, k21_3⟩, ⟨k22_0, k22_1, k22_2, k22_3⟩, ⟨k23_0, k23_1, k23_2, k23_3⟩, ⟨k24_0, k24_1, k24_2, k24_3⟩, ⟨k25_0, k25_1, k25_2, k25_3⟩, ⟨k26_0, k26_1, k26_2, k26_3⟩, ⟨k27_0, k27_1, k27_2, k27_3⟩, ⟨k28_0, k28_1, k28_2, k28_3⟩, ⟨k29_0, k29_1, k29_2, k29_3⟩, ⟨k30_0, k30_1, k30_2, k30_3⟩, ⟨k31_0, k31_1, k31_2, k31_3⟩, ⟨k32_0, k32_1, k32_2, k32_3⟩] b :=
  loop_encrypt_block_eq ⟨k0_0, k0_1, k0_2, k0_3⟩ ⟨k1_0, k1_1, k1_2, k1_3⟩ ⟨k2_0, k2_1, k2_2, k2_3⟩ ⟨k3_0, k3_1, k3_2, k3_3⟩ ⟨k4_0, k4_1, k4_2, k4_3⟩ ⟨k5_0, k5_1, k5_2, k5_3⟩ ⟨k6_0, k6_1, k6_2, k6_3⟩ ⟨k7_0, k7_1, k7_2, k7_3⟩ ⟨k8_0, k8_1, k8_2, k8_3⟩ ⟨k9_0, k9_1, k9_2, k9_3⟩ ⟨k10_0, k10_1, k10_2, k10_3⟩ ⟨k11_0, k11_1, k11_2, k11_3⟩ ⟨k12_0, k12_1, k12_2, k12_3⟩ ⟨k13_0, k13_1, k13_2, k13_3⟩ ⟨k14_0, k14_1, k14_2, k14_3⟩ ⟨k15_0, k15_1, k15_2, k15_3⟩ ⟨k16_0, k16_1, k16_2, k16_3⟩ ⟨k17_0, k17_1, k17_2, k17_3⟩ ⟨k18_0, k18_1, k18_2, k18_3⟩ ⟨k19_0, k19_1, k19_2, k19_3⟩ ⟨k20_0, k20_1, k20_2, k20_3⟩ ⟨k21_0, k21_1, k21_2, k21_3⟩ ⟨k22_0, k22_1, k22_2, k22_3⟩ ⟨k23_0, k23_1, k23_2, k23_3⟩ ⟨k24_0, k24_1, k24_2, k24_3⟩ ⟨k25_0, k25_1, k25_2, k25_3⟩ ⟨k26_0, k26_1, k26_2, k26_3⟩ ⟨k27_0, k27_1, k27_2, k27_3⟩ ⟨k28_0, k28_1, k28_2, k28_3⟩ ⟨k29_0, k29_1, k29_2, k29_3⟩ ⟨k30_0, k30_1, k30_2, k30_3⟩ ⟨k31_0, k31_1, k31_2, k31_3⟩ ⟨k32_0, k32_1, k32_2, k32_3⟩ b

theorem loop_decrypt_block_eq' (k0_0 k0_1 k0_2 k0_3 k1_0 k1_1 k1_2 k1_3 k2_0 k2_1 k2_2 k2_3 k3_0 k3_1 k3_2 k3_3 k4_0 k4_1 k4_2 k4_3 k5_0 k5_1 k5_2 k5_3 k6_0 k6_1 k6_2 k6_3 k7_0 k7_1 k7_2 k7_3 k8_0 k8_1 k8_2 k8_3 k9_0 k9_1 k9_2 k9_3 k10_0 k10_1 k10_2 k10_3 k11_0 k11_1 k11_2 k11_3 k12_0 k12_1 k12_2 k12_3 k13_0 k13_1 k13_2 k13_3 k14_0 k14_1 k14_2 k14_3 k15_0 k15_1 k15_2 k15_3 k16_0 k16_1 k16_2 k16_3 k17_0 k17_1 k17_2 k17_3 k18_0 k18_1 k18_2 k18_3 k19_0 k19_1 k19_2 k19_3 k20_0 k20_1 k20_2 k20_3 k21_0 k21_1 k21_2 k21_3 k22_0 k22_1 k22_2 k22_3 k23_0 k23_1 k23_2 k23_3 k24_0 k24_1 k24_2 k24_3 k25_0 k25_1 k25_2 k25_3 k26_0 k26_1 k26_2 k26_3 k27_0 k27_1 k27_2 k27_3 k28_0 k28_1 k28_2 k28_3 k29_0 k29_1 k29_2 k29_3 k30_0 k30_1 k30_2 k30_3 k31_0 k31_1 k31_2 k31_3 k32_0 k32_1 k32_2 k32_3 : BitVec 32) (b : BitVec 128) :
    serpent_loop_decrypt_block k0_0 k0_1 k0_2 k0_3 k1_0 k1_1 k1_2 k1_3 k2_0 k2_1 k2_2 k2_3 k3_0 k3_1 k3_2 k3_3 k4_0 k4_1 k4_2 k4_3 k5_0 k5_1 k5_2 k5_3 k6_0 k6_1 k6_2 k6_3 k7_0 k7_1 k7_2 k7_3 k8_0 k8_1 k8_2 k8_3 k9_0 k9_1 k9_2 k9_3 k10_0 k10_1 k10_2 k10_3 k11_0 k11_1 k11_2 k11_3 k12_0 k12_1 k12_2 k12_3 k13_0 k13_1 k13_2 k13_3 k14_0 k14_1 k14_2 k14_3 k15_0 k15_1 k15_2 k15_3 k16_0 k16_1 k16_2 k16_3 k17_0 k17_1 k17_2 k17_3 k18_0 k18_1 k18_2 k18_3 k19_0 k19_1 k19_2 k19_3 k20_0 k20_1 k20_2 k20_3 k21_0 k21_1 k21_2 k21_3 k22_0 k22_1 k22_2 k22_3 k23_0 k23_1 k23_2 k23_3 k24_0 k24_1 k24_2 k24_3 k25_0 k25_1 k25_2 k25_3 k26_0 k26_1 k26_2 k26_3 k27_0 k27_1 k27_2 k27_3 k28_0 k28_1 k28_2 k28_3 k29_0 k29_1 k29_2 k29_3 k30_0 k30_1 k30_2 k30_3 k31_0 k31_1 k31_2 k31_3 k32_0 k32_1 k32_2 k32_3 b
      = BC.Serpent.decryptLoop #[⟨k0_0, k0_1, k0_2, k0_3⟩, ⟨k1_0, k1_1, k1_2, k1_3⟩, ⟨k2_0, k2_1, k2_2, k2_3⟩, ⟨k3_0, k3_1, k3_2, k3_3⟩, ⟨k4_0, k4_1, k4_2, k4_3⟩, ⟨k5_0, k5_1, k5_2, k5_3⟩, ⟨k6_0, k6_1, k6_2, k6_3⟩, ⟨k7_0, k7_1, k7_2, k7_3⟩, ⟨k8_0, k8_1, k8_2, k8_3⟩, ⟨k9_0, k9_1, k9_2, k9_3⟩, ⟨k10_0, k10_1, k10_2, k10_3⟩, ⟨k11_0, k11_1, k11_2, k11_3⟩, ⟨k12_0, k12_1, k12_2, k12_3⟩, ⟨k13_0, k13_1, k13_2, k13_3⟩, ⟨k14_0, k14_1, k14_2, k14_3⟩, ⟨k15_0, k15_1, k15_2, k15_3⟩, ⟨k16_0, k16_1, k16_2, k16_3⟩, ⟨k17_0, k17_1, k17_2, k17_3⟩, ⟨k18_0, k18_1, k18_2, k18_3⟩, ⟨k19_0, k19_1, k19_2, k19_3⟩, ⟨k20_0, k20_1, k20_2, k20_3⟩, ⟨k21_0, k21_1, k21_2, k21_3⟩, ⟨k22_0, k22_1, k22_2, k22_3⟩, ⟨k23_0, k23_1, k23_2, k23_3⟩, ⟨k24_0, k24_1, k24_2, k24_3⟩, ⟨k25_0, k25_1, k25_2, k25_3⟩, ⟨k26_0, k26_1, k26_2, k26_3⟩, ⟨k27_0, k27_1, k27_2, k27_3⟩, ⟨k28_0, k28_1, k28_2, k28_3⟩, ⟨k29_0, k29_1, k29_2, k29_3⟩, ⟨k30_0, k30_1, k30_2, k30_3⟩, ⟨k31_0, k31_1, k31_2, k31_3⟩, ⟨k32_0, k32_1, k32_2, k32_3⟩] b :=
  loop_decrypt_block_eq ⟨k0_0, k0_1, k0_2, k0_3⟩ ⟨k1_0, k1_1, k1_2, k1_3⟩ ⟨k2_0, k2_1, k2_2, k2_3⟩ ⟨k3_0, k3_1, k3_2, k3_3⟩ ⟨k4_0, k4_1, k4_2, k4_3⟩ ⟨k5_0, k5_1, k5_2, k5_3⟩ ⟨k6_0, k6_1, k6_2, k6_3⟩ ⟨k7_0, k7_1, k7_2, k7_3⟩ ⟨k8_0, k8_1, k8_2, k8_3⟩ ⟨k9_0, k9_1, k9_2, k9_3⟩ ⟨k10_0, k10_1, k10_2, k10_3⟩ ⟨k11_0, k11_1, k11_2, k11_3⟩ ⟨k12_0, k12_1, k12_2, k12_3⟩ ⟨k13_0, k13_1, k13_2, k13_3⟩ ⟨k14_0, k14_1, k14_2, k14_3⟩ ⟨k15_0, k15_1, k15_2, k15_3⟩ ⟨k16_0, k16_1, k16_2, k16_3⟩ ⟨k17_0, k17_1, k17_2, k17_3⟩ ⟨k18_0, k18_1, k18_2, k18_3⟩ ⟨k19_0, k19_1, k19_2, k19_3⟩ ⟨k20_0, k20_1, k20_2, k20_3⟩ ⟨k21_0, k21_1, k21_2, k21_3⟩ ⟨k22_0, k22_1, k22_2, k22_3⟩ ⟨k23_0, k23_1, k23_2, k23_3⟩ ⟨k24_0, k24_1, k24_2, k24_3⟩ ⟨k25_0, k25_1, k25_2, k25_3⟩ ⟨k26_0, k26_1, k26_2, k26_3⟩ ⟨k27_0, k27_1, k27_2, k27_3⟩ ⟨k28_0, k28_1, k28_2, k28_3⟩ ⟨k29_0, k29_1, k29_2, k29_3⟩ ⟨k30_0, k30_1, k30_2, k30_3⟩ ⟨k31_0, k31_1, k31_2, k31_3⟩ ⟨k32_0, k32_1, k32_2, k32_3⟩ b

end BC.GenCipher.Serpent
