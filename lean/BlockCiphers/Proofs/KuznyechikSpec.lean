import BlockCiphers.Proofs.KuznyechikGf
import BlockCiphers.Proofs.KuznyechikBytes
import BlockCiphers.Proofs.KuznyechikSbox
/-
Kuznyechik, facts about the STANDARD (Spec/Kuznyechik.lean): R and R⁻¹, L and L⁻¹, S and S⁻¹ are mutually inverse,
R, R⁻¹, L, L⁻¹ are additive (GF(2)-linear), and decryption D inverts encryption E (both orders) for any ten
iteration keys.
-/
namespace BC.Kuznyechik
open BC.Spec.Kuznyechik

theorem Rinv_R (a : BitVec 128) : Rinv (R a) = a := by
  simp only [R, Rinv, ell, byte, gfmul_one]
  simp only [gfmul_eq_gfc]
  simp only [gfc, bitmask]
  bv_decide (config := { timeout := 120 })

theorem R_Rinv (a : BitVec 128) : R (Rinv a) = a := by
  simp only [R, Rinv, ell, byte, gfmul_one]
  simp only [gfmul_eq_gfc]
  simp only [gfc, bitmask]
  bv_decide (config := { timeout := 120 })

/-- R is additive -/
theorem R_xor (a b : BitVec 128) : R (a ^^^ b) = R a ^^^ R b := by
  simp only [R, ell, byte, gfmul_one]
  simp only [gfmul_eq_gfc]
  simp only [gfc, bitmask]
  bv_decide (config := { timeout := 120 })

theorem Rinv_xor (a b : BitVec 128) : Rinv (a ^^^ b) = Rinv a ^^^ Rinv b := by
  simp only [Rinv, ell, byte, gfmul_one]
  simp only [gfmul_eq_gfc]
  simp only [gfc, bitmask]
  bv_decide (config := { timeout := 120 })

theorem iter_xor (f : BitVec 128 → BitVec 128) (h : ∀ a b, f (a ^^^ b) = f a ^^^ f b) (n : Nat) (a b : BitVec 128) :
    iter f n (a ^^^ b) = iter f n a ^^^ iter f n b := by
  induction n generalizing a b with
  | zero => rfl
  | succ n ih => rw [iter, iter, iter, h, ih]

theorem Linv_L (a : BitVec 128) : Linv (L a) = a := iter_inv R Rinv Rinv_R 16 a
theorem L_Linv (a : BitVec 128) : L (Linv a) = a := iter_inv Rinv R R_Rinv 16 a
/-- L is additive -/
theorem L_xor (a b : BitVec 128) : L (a ^^^ b) = L a ^^^ L b := iter_xor R R_xor 16 a b
theorem Linv_xor (a b : BitVec 128) : Linv (a ^^^ b) = Linv a ^^^ Linv b := iter_xor Rinv Rinv_xor 16 a b

theorem Sinv_S (a : BitVec 128) : Sinv (S a) = a := by
  rw [Sinv_eq_mapBytes, S_eq_mapBytes]; exact mapBytes_inv pi piInv piInv_pi a
theorem S_Sinv (a : BitVec 128) : S (Sinv a) = a := by
  rw [Sinv_eq_mapBytes, S_eq_mapBytes]; exact mapBytes_inv piInv pi pi_piInv a

theorem X_X (k a : BitVec 128) : X k (X k a) = a := by
  simp only [X]; bv_decide

theorem SinvLinvX_LSX (k k' a : BitVec 128) : SinvLinvX k' (X k' (LSX k a)) = X k a := by
  simp only [SinvLinvX, LSX, X_X, Linv_L, Sinv_S]

theorem LSX_SinvLinvX (k k' a : BitVec 128) : LSX k (X k (SinvLinvX k' a)) = X k' a := by
  simp only [SinvLinvX, LSX, X_X, S_Sinv, L_Linv]

/-- §4.4: D inverts E for any ten iteration keys -/
theorem D_E (k1 k2 k3 k4 k5 k6 k7 k8 k9 k10 a : BitVec 128) :
    D [k1, k2, k3, k4, k5, k6, k7, k8, k9, k10] (E [k1, k2, k3, k4, k5, k6, k7, k8, k9, k10] a) = a := by
  simp only [D, E, List.getLastD, List.getLast, List.dropLast, List.headD, List.tail, List.reverse,
    List.reverseAux, List.foldl, SinvLinvX_LSX, X_X]

/-- §4.4: E inverts D for any ten iteration keys -/
theorem E_D (k1 k2 k3 k4 k5 k6 k7 k8 k9 k10 a : BitVec 128) :
    E [k1, k2, k3, k4, k5, k6, k7, k8, k9, k10] (D [k1, k2, k3, k4, k5, k6, k7, k8, k9, k10] a) = a := by
  simp only [D, E, List.getLastD, List.getLast, List.dropLast, List.headD, List.tail, List.reverse,
    List.reverseAux, List.foldl, LSX_SinvLinvX, X_X]

theorem roundKeys_eq (K : BitVec 256) : ∃ k1 k2 k3 k4 k5 k6 k7 k8 k9 k10,
    roundKeys K = [k1, k2, k3, k4, k5, k6, k7, k8, k9, k10] := ⟨_, _, _, _, _, _, _, _, _, _, rfl⟩

/-- GOST R 34.12-2015 decryption inverts encryption, for every key and block -/
theorem spec_decrypt_encrypt (K : BitVec 256) (a : BitVec 128) : decrypt K (encrypt K a) = a := by
  obtain ⟨k1, k2, k3, k4, k5, k6, k7, k8, k9, k10, h⟩ := roundKeys_eq K
  rw [decrypt, encrypt, h, D_E]

theorem spec_encrypt_decrypt (K : BitVec 256) (a : BitVec 128) : encrypt K (decrypt K a) = a := by
  obtain ⟨k1, k2, k3, k4, k5, k6, k7, k8, k9, k10, h⟩ := roundKeys_eq K
  rw [decrypt, encrypt, h, E_D]

end BC.Kuznyechik
