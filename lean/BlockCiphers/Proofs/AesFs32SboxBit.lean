import BlockCiphers.Proofs.AesFs32Defs
/-!
C02 stage (i), byte level: the Boyar–Peralta circuit instantiated at width 1 is the FIPS-197 S-box
up to the four omitted NOTs (constant 0x63); the inverse circuit is InvSubBytes of `x ⊕ 0x63`.
Complete enumeration of the 256 inputs in the kernel.
-/
namespace BC.AesFs32
open BC.Spec.Aes

theorem sub_bytes_bit_spec : ∀ x : BitVec 8, sub_bytes_bit x = sbox x ^^^ 0x63#8 := by decide +kernel

theorem sboxCirc_spec : ∀ x : BitVec 8, sboxCirc x = sbox x := by decide +kernel

theorem inv_sub_bytes_bit_spec : ∀ x : BitVec 8, inv_sub_bytes_bit x = invSbox (x ^^^ 0x63#8) := by
  decide +kernel

theorem sboxT_eq_sbox : ∀ x : BitVec 8, sboxT x = sbox x := by decide +kernel
theorem invSboxT_eq_invSbox : ∀ x : BitVec 8, invSboxT x = invSbox x := by decide +kernel

theorem sboxCirc_eq_sboxT (x : BitVec 8) : sboxCirc x = sboxT x := by
  rw [sboxCirc_spec, sboxT_eq_sbox]

theorem invSboxCirc_eq (x : BitVec 8) : invSboxCirc x = invSboxT (x ^^^ 0x63#8) := by
  rw [invSboxCirc, inv_sub_bytes_bit_spec, invSboxT_eq_invSbox]

end BC.AesFs32
