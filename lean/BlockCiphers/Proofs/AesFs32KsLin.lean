import BlockCiphers.Proofs.AesFs32Defs
import Std.Tactic.BVDecide
/-!
C02 stage (iv)/(v), linear part of the AES-128/256 key-schedule round in bitsliced form:
`xor_columns` applied to the packed previous key `P` and the packed, S-boxed, rcon-ed copy `Y`
is the packing of the FIPS-197 word recurrence `linKS` (RotWord + Rcon, prefix XOR over the four words).
256 input bits per lemma.
-/
namespace BC.AesFs32
open BC.Spec.Aes
set_option linter.unusedSimpArgs false

/-- next round key from `P` (the key `Nk` words back) and `Y = SubBytes(previous round key)`;
only the last word of `Y` is used: `temp = RotWord?(Y₃) ⊕ rc` -/
def linKS (rot : Bool) (rc : BitVec 32) (P Y : BitVec 128) : BitVec 128 :=
  let p0 := P.extractLsb' 96 32
  let p1 := P.extractLsb' 64 32
  let p2 := P.extractLsb' 32 32
  let p3 := P.extractLsb' 0 32
  let y3 := Y.extractLsb' 0 32
  let t := (if rot then y3.rotateLeft 8 else y3) ^^^ rc
  let n0 := p0 ^^^ t
  let n1 := p1 ^^^ n0
  let n2 := p2 ^^^ n1
  let n3 := p3 ^^^ n2
  (n0.setWidth 128 <<< 96) ||| (n1.setWidth 128 <<< 64) ||| (n2.setWidth 128 <<< 32) ||| n3.setWidth 128

/-- the `add_round_constant_bit` calls of key-schedule round `rcon` (0-based) of AES-128 -/
def arc128 (rcon : Nat) (s : St) : St :=
  if rcon < 8 then add_round_constant_bit s rcon
  else add_round_constant_bit (add_round_constant_bit (add_round_constant_bit (add_round_constant_bit s (rcon - 8)) (rcon - 7)) (rcon - 5)) (rcon - 4)

set_option maxRecDepth 1000000 in
theorem ks_step_rot_0 (P Y : BitVec 128) :
    xor_columns_st (bitslice P P) (arc128 0 (bitslice Y Y)) (ror_distance 1 3) =
      bitslice (linKS true 0x01000000#32 P Y) (linKS true 0x01000000#32 P Y) := by
  simp only [xor_columns_st, St.zip, xor_columns_w, ror, ror_distance, arc128, add_round_constant_bit, St.modify, linKS,
    Nat.reduceLT, Nat.reduceSub, if_true, if_false, ite_true, ite_false,
    bitslice, index_swaps, delta_swap_2, le32, St.mk.injEq]
  bv_decide (config := { timeout := 1800 })

set_option maxRecDepth 1000000 in
theorem ks_step_rot_1 (P Y : BitVec 128) :
    xor_columns_st (bitslice P P) (arc128 1 (bitslice Y Y)) (ror_distance 1 3) =
      bitslice (linKS true 0x02000000#32 P Y) (linKS true 0x02000000#32 P Y) := by
  simp only [xor_columns_st, St.zip, xor_columns_w, ror, ror_distance, arc128, add_round_constant_bit, St.modify, linKS,
    Nat.reduceLT, Nat.reduceSub, if_true, if_false, ite_true, ite_false,
    bitslice, index_swaps, delta_swap_2, le32, St.mk.injEq]
  bv_decide (config := { timeout := 1800 })

set_option maxRecDepth 1000000 in
theorem ks_step_rot_2 (P Y : BitVec 128) :
    xor_columns_st (bitslice P P) (arc128 2 (bitslice Y Y)) (ror_distance 1 3) =
      bitslice (linKS true 0x04000000#32 P Y) (linKS true 0x04000000#32 P Y) := by
  simp only [xor_columns_st, St.zip, xor_columns_w, ror, ror_distance, arc128, add_round_constant_bit, St.modify, linKS,
    Nat.reduceLT, Nat.reduceSub, if_true, if_false, ite_true, ite_false,
    bitslice, index_swaps, delta_swap_2, le32, St.mk.injEq]
  bv_decide (config := { timeout := 1800 })

set_option maxRecDepth 1000000 in
theorem ks_step_rot_3 (P Y : BitVec 128) :
    xor_columns_st (bitslice P P) (arc128 3 (bitslice Y Y)) (ror_distance 1 3) =
      bitslice (linKS true 0x08000000#32 P Y) (linKS true 0x08000000#32 P Y) := by
  simp only [xor_columns_st, St.zip, xor_columns_w, ror, ror_distance, arc128, add_round_constant_bit, St.modify, linKS,
    Nat.reduceLT, Nat.reduceSub, if_true, if_false, ite_true, ite_false,
    bitslice, index_swaps, delta_swap_2, le32, St.mk.injEq]
  bv_decide (config := { timeout := 1800 })

set_option maxRecDepth 1000000 in
theorem ks_step_rot_4 (P Y : BitVec 128) :
    xor_columns_st (bitslice P P) (arc128 4 (bitslice Y Y)) (ror_distance 1 3) =
      bitslice (linKS true 0x10000000#32 P Y) (linKS true 0x10000000#32 P Y) := by
  simp only [xor_columns_st, St.zip, xor_columns_w, ror, ror_distance, arc128, add_round_constant_bit, St.modify, linKS,
    Nat.reduceLT, Nat.reduceSub, if_true, if_false, ite_true, ite_false,
    bitslice, index_swaps, delta_swap_2, le32, St.mk.injEq]
  bv_decide (config := { timeout := 1800 })

set_option maxRecDepth 1000000 in
theorem ks_step_rot_5 (P Y : BitVec 128) :
    xor_columns_st (bitslice P P) (arc128 5 (bitslice Y Y)) (ror_distance 1 3) =
      bitslice (linKS true 0x20000000#32 P Y) (linKS true 0x20000000#32 P Y) := by
  simp only [xor_columns_st, St.zip, xor_columns_w, ror, ror_distance, arc128, add_round_constant_bit, St.modify, linKS,
    Nat.reduceLT, Nat.reduceSub, if_true, if_false, ite_true, ite_false,
    bitslice, index_swaps, delta_swap_2, le32, St.mk.injEq]
  bv_decide (config := { timeout := 1800 })

set_option maxRecDepth 1000000 in
theorem ks_step_rot_6 (P Y : BitVec 128) :
    xor_columns_st (bitslice P P) (arc128 6 (bitslice Y Y)) (ror_distance 1 3) =
      bitslice (linKS true 0x40000000#32 P Y) (linKS true 0x40000000#32 P Y) := by
  simp only [xor_columns_st, St.zip, xor_columns_w, ror, ror_distance, arc128, add_round_constant_bit, St.modify, linKS,
    Nat.reduceLT, Nat.reduceSub, if_true, if_false, ite_true, ite_false,
    bitslice, index_swaps, delta_swap_2, le32, St.mk.injEq]
  bv_decide (config := { timeout := 1800 })

set_option maxRecDepth 1000000 in
theorem ks_step_rot_7 (P Y : BitVec 128) :
    xor_columns_st (bitslice P P) (arc128 7 (bitslice Y Y)) (ror_distance 1 3) =
      bitslice (linKS true 0x80000000#32 P Y) (linKS true 0x80000000#32 P Y) := by
  simp only [xor_columns_st, St.zip, xor_columns_w, ror, ror_distance, arc128, add_round_constant_bit, St.modify, linKS,
    Nat.reduceLT, Nat.reduceSub, if_true, if_false, ite_true, ite_false,
    bitslice, index_swaps, delta_swap_2, le32, St.mk.injEq]
  bv_decide (config := { timeout := 1800 })

set_option maxRecDepth 1000000 in
theorem ks_step_rot_8 (P Y : BitVec 128) :
    xor_columns_st (bitslice P P) (arc128 8 (bitslice Y Y)) (ror_distance 1 3) =
      bitslice (linKS true 0x1b000000#32 P Y) (linKS true 0x1b000000#32 P Y) := by
  simp only [xor_columns_st, St.zip, xor_columns_w, ror, ror_distance, arc128, add_round_constant_bit, St.modify, linKS,
    Nat.reduceLT, Nat.reduceSub, if_true, if_false, ite_true, ite_false,
    bitslice, index_swaps, delta_swap_2, le32, St.mk.injEq]
  bv_decide (config := { timeout := 1800 })

set_option maxRecDepth 1000000 in
theorem ks_step_rot_9 (P Y : BitVec 128) :
    xor_columns_st (bitslice P P) (arc128 9 (bitslice Y Y)) (ror_distance 1 3) =
      bitslice (linKS true 0x36000000#32 P Y) (linKS true 0x36000000#32 P Y) := by
  simp only [xor_columns_st, St.zip, xor_columns_w, ror, ror_distance, arc128, add_round_constant_bit, St.modify, linKS,
    Nat.reduceLT, Nat.reduceSub, if_true, if_false, ite_true, ite_false,
    bitslice, index_swaps, delta_swap_2, le32, St.mk.injEq]
  bv_decide (config := { timeout := 1800 })

set_option maxRecDepth 1000000 in
theorem ks_step_norot (P Y : BitVec 128) :
    xor_columns_st (bitslice P P) (bitslice Y Y) (ror_distance 0 3) =
      bitslice (linKS false 0#32 P Y) (linKS false 0#32 P Y) := by
  simp only [xor_columns_st, St.zip, xor_columns_w, ror, ror_distance, linKS,
    if_true, if_false, ite_true, ite_false, Bool.false_eq_true,
    bitslice, index_swaps, delta_swap_2, le32, St.mk.injEq]
  bv_decide (config := { timeout := 1800 })

end BC.AesFs32
