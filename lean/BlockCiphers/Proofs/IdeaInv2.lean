import BlockCiphers.Proofs.IdeaInvDefs
/- exhaustive kernel evaluation of `InvOk a` for the arguments `a` whose top nibble is 8..11
   (4 × 4096 cases; split so that every declaration stays small in time and memory) -/
namespace BC.Idea
theorem invOk_8 : ∀ (m : BitVec 4) (l : BitVec 8), InvOk ((8#4 ++ m) ++ l) := by decide +kernel
theorem invOk_9 : ∀ (m : BitVec 4) (l : BitVec 8), InvOk ((9#4 ++ m) ++ l) := by decide +kernel
theorem invOk_10 : ∀ (m : BitVec 4) (l : BitVec 8), InvOk ((10#4 ++ m) ++ l) := by decide +kernel
theorem invOk_11 : ∀ (m : BitVec 4) (l : BitVec 8), InvOk ((11#4 ++ m) ++ l) := by decide +kernel

end BC.Idea
