import BlockCiphers.Gen.Keys_Des
import BlockCiphers.Impl.Des
import BlockCiphers.Proofs.GenFuncsDes
import Std.Tactic.BVDecide
/-
Tie of the regenerated DES / Triple-DES constructors (`Gen/Keys_Des.lean`, translated from `/repo/des/src/{utils,des,tdes}.rs`)
to the key schedules of the hand-written model `Impl/Des.lean`: for EVERY key the regenerated constructor returns exactly
the round keys of `BC.Des.genKeys` (resp. of `Tdes3.new` / `Tdes2.new`: `d1`, `d2`, `d3` in field order).
Structure of the proofs: the generated text is, by reflexivity, `pc1`, sixteen times (two 28-bit rotations + `pc2`)
written with the regenerated leaf functions `des_pc1`, `des_pc2` (`gen_keys_struct`); the leaf functions are rewritten with
`GenFuncs.Des.pc1_eq`, `pc2_eq`; what remains is the unfolding of `genKeysLoop` over `SHIFTS`, again by reflexivity.
-/
namespace BC.GenKeys.Des
open BC.Gen.Fn
set_option maxRecDepth 100000

/-- the first 16 elements of a list of round keys as the flattened struct fields -/
def t16 (l : List (BitVec 64)) : BitVec 64 × BitVec 64 × BitVec 64 × BitVec 64 × BitVec 64 × BitVec 64 × BitVec 64 × BitVec 64 × BitVec 64 × BitVec 64 × BitVec 64 × BitVec 64 × BitVec 64 × BitVec 64 × BitVec 64 × BitVec 64 :=
  (l.getD 0 0, l.getD 1 0, l.getD 2 0, l.getD 3 0, l.getD 4 0, l.getD 5 0, l.getD 6 0, l.getD 7 0, l.getD 8 0, l.getD 9 0, l.getD 10 0, l.getD 11 0, l.getD 12 0, l.getD 13 0, l.getD 14 0, l.getD 15 0)
/-- the flattened struct fields as a list -/
def l16 (t : BitVec 64 × BitVec 64 × BitVec 64 × BitVec 64 × BitVec 64 × BitVec 64 × BitVec 64 × BitVec 64 × BitVec 64 × BitVec 64 × BitVec 64 × BitVec 64 × BitVec 64 × BitVec 64 × BitVec 64 × BitVec 64) : List (BitVec 64) :=
  [t.1, t.2.1, t.2.2.1, t.2.2.2.1, t.2.2.2.2.1, t.2.2.2.2.2.1, t.2.2.2.2.2.2.1, t.2.2.2.2.2.2.2.1, t.2.2.2.2.2.2.2.2.1, t.2.2.2.2.2.2.2.2.2.1, t.2.2.2.2.2.2.2.2.2.2.1, t.2.2.2.2.2.2.2.2.2.2.2.1, t.2.2.2.2.2.2.2.2.2.2.2.2.1, t.2.2.2.2.2.2.2.2.2.2.2.2.2.1, t.2.2.2.2.2.2.2.2.2.2.2.2.2.2.1, t.2.2.2.2.2.2.2.2.2.2.2.2.2.2.2]
/-- the first 32 elements of a list of round keys as the flattened struct fields -/
def t32 (l : List (BitVec 64)) : BitVec 64 × BitVec 64 × BitVec 64 × BitVec 64 × BitVec 64 × BitVec 64 × BitVec 64 × BitVec 64 × BitVec 64 × BitVec 64 × BitVec 64 × BitVec 64 × BitVec 64 × BitVec 64 × BitVec 64 × BitVec 64 × BitVec 64 × BitVec 64 × BitVec 64 × BitVec 64 × BitVec 64 × BitVec 64 × BitVec 64 × BitVec 64 × BitVec 64 × BitVec 64 × BitVec 64 × BitVec 64 × BitVec 64 × BitVec 64 × BitVec 64 × BitVec 64 :=
  (l.getD 0 0, l.getD 1 0, l.getD 2 0, l.getD 3 0, l.getD 4 0, l.getD 5 0, l.getD 6 0, l.getD 7 0, l.getD 8 0, l.getD 9 0, l.getD 10 0, l.getD 11 0, l.getD 12 0, l.getD 13 0, l.getD 14 0, l.getD 15 0, l.getD 16 0, l.getD 17 0, l.getD 18 0, l.getD 19 0, l.getD 20 0, l.getD 21 0, l.getD 22 0, l.getD 23 0, l.getD 24 0, l.getD 25 0, l.getD 26 0, l.getD 27 0, l.getD 28 0, l.getD 29 0, l.getD 30 0, l.getD 31 0)
/-- the flattened struct fields as a list -/
def l32 (t : BitVec 64 × BitVec 64 × BitVec 64 × BitVec 64 × BitVec 64 × BitVec 64 × BitVec 64 × BitVec 64 × BitVec 64 × BitVec 64 × BitVec 64 × BitVec 64 × BitVec 64 × BitVec 64 × BitVec 64 × BitVec 64 × BitVec 64 × BitVec 64 × BitVec 64 × BitVec 64 × BitVec 64 × BitVec 64 × BitVec 64 × BitVec 64 × BitVec 64 × BitVec 64 × BitVec 64 × BitVec 64 × BitVec 64 × BitVec 64 × BitVec 64 × BitVec 64) : List (BitVec 64) :=
  [t.1, t.2.1, t.2.2.1, t.2.2.2.1, t.2.2.2.2.1, t.2.2.2.2.2.1, t.2.2.2.2.2.2.1, t.2.2.2.2.2.2.2.1, t.2.2.2.2.2.2.2.2.1, t.2.2.2.2.2.2.2.2.2.1, t.2.2.2.2.2.2.2.2.2.2.1, t.2.2.2.2.2.2.2.2.2.2.2.1, t.2.2.2.2.2.2.2.2.2.2.2.2.1, t.2.2.2.2.2.2.2.2.2.2.2.2.2.1, t.2.2.2.2.2.2.2.2.2.2.2.2.2.2.1, t.2.2.2.2.2.2.2.2.2.2.2.2.2.2.2.1, t.2.2.2.2.2.2.2.2.2.2.2.2.2.2.2.2.1, t.2.2.2.2.2.2.2.2.2.2.2.2.2.2.2.2.2.1, t.2.2.2.2.2.2.2.2.2.2.2.2.2.2.2.2.2.2.1, t.2.2.2.2.2.2.2.2.2.2.2.2.2.2.2.2.2.2.2.1, t.2.2.2.2.2.2.2.2.2.2.2.2.2.2.2.2.2.2.2.2.1, t.2.2.2.2.2.2.2.2.2.2.2.2.2.2.2.2.2.2.2.2.2.1, t.2.2.2.2.2.2.2.2.2.2.2.2.2.2.2.2.2.2.2.2.2.2.1, t.2.2.2.2.2.2.2.2.2.2.2.2.2.2.2.2.2.2.2.2.2.2.2.1, t.2.2.2.2.2.2.2.2.2.2.2.2.2.2.2.2.2.2.2.2.2.2.2.2.1, t.2.2.2.2.2.2.2.2.2.2.2.2.2.2.2.2.2.2.2.2.2.2.2.2.2.1, t.2.2.2.2.2.2.2.2.2.2.2.2.2.2.2.2.2.2.2.2.2.2.2.2.2.2.1, t.2.2.2.2.2.2.2.2.2.2.2.2.2.2.2.2.2.2.2.2.2.2.2.2.2.2.2.1, t.2.2.2.2.2.2.2.2.2.2.2.2.2.2.2.2.2.2.2.2.2.2.2.2.2.2.2.2.1, t.2.2.2.2.2.2.2.2.2.2.2.2.2.2.2.2.2.2.2.2.2.2.2.2.2.2.2.2.2.1, t.2.2.2.2.2.2.2.2.2.2.2.2.2.2.2.2.2.2.2.2.2.2.2.2.2.2.2.2.2.2.1, t.2.2.2.2.2.2.2.2.2.2.2.2.2.2.2.2.2.2.2.2.2.2.2.2.2.2.2.2.2.2.2]
/-- the first 48 elements of a list of round keys as the flattened struct fields -/
def t48 (l : List (BitVec 64)) : BitVec 64 × BitVec 64 × BitVec 64 × BitVec 64 × BitVec 64 × BitVec 64 × BitVec 64 × BitVec 64 × BitVec 64 × BitVec 64 × BitVec 64 × BitVec 64 × BitVec 64 × BitVec 64 × BitVec 64 × BitVec 64 × BitVec 64 × BitVec 64 × BitVec 64 × BitVec 64 × BitVec 64 × BitVec 64 × BitVec 64 × BitVec 64 × BitVec 64 × BitVec 64 × BitVec 64 × BitVec 64 × BitVec 64 × BitVec 64 × BitVec 64 × BitVec 64 × BitVec 64 × BitVec 64 × BitVec 64 × BitVec 64 × BitVec 64 × BitVec 64 × BitVec 64 × BitVec 64 × BitVec 64 × BitVec 64 × BitVec 64 × BitVec 64 × BitVec 64 × BitVec 64 × BitVec 64 × BitVec 64 :=
  (l.getD 0 0, l.getD 1 0, l.getD 2 0, l.getD 3 0, l.getD 4 0, l.getD 5 0, l.getD 6 0, l.getD 7 0, l.getD 8 0, l.getD 9 0, l.getD 10 0, l.getD 11 0, l.getD 12 0, l.getD 13 0, l.getD 14 0, l.getD 15 0, l.getD 16 0, l.getD 17 0, l.getD 18 0, l.getD 19 0, l.getD 20 0, l.getD 21 0, l.getD 22 0, l.getD 23 0, l.getD 24 0, l.getD 25 0, l.getD 26 0, l.getD 27 0, l.getD 28 0, l.getD 29 0, l.getD 30 0, l.getD 31 0, l.getD 32 0, l.getD 33 0, l.getD 34 0, l.getD 35 0, l.getD 36 0, l.getD 37 0, l.getD 38 0, l.getD 39 0, l.getD 40 0, l.getD 41 0, l.getD 42 0, l.getD 43 0, l.getD 44 0, l.getD 45 0, l.getD 46 0, l.getD 47 0)
/-- the flattened struct fields as a list -/
def l48 (t : BitVec 64 × BitVec 64 × BitVec 64 × BitVec 64 × BitVec 64 × BitVec 64 × BitVec 64 × BitVec 64 × BitVec 64 × BitVec 64 × BitVec 64 × BitVec 64 × BitVec 64 × BitVec 64 × BitVec 64 × BitVec 64 × BitVec 64 × BitVec 64 × BitVec 64 × BitVec 64 × BitVec 64 × BitVec 64 × BitVec 64 × BitVec 64 × BitVec 64 × BitVec 64 × BitVec 64 × BitVec 64 × BitVec 64 × BitVec 64 × BitVec 64 × BitVec 64 × BitVec 64 × BitVec 64 × BitVec 64 × BitVec 64 × BitVec 64 × BitVec 64 × BitVec 64 × BitVec 64 × BitVec 64 × BitVec 64 × BitVec 64 × BitVec 64 × BitVec 64 × BitVec 64 × BitVec 64 × BitVec 64) : List (BitVec 64) :=
  [t.1, t.2.1, t.2.2.1, t.2.2.2.1, t.2.2.2.2.1, t.2.2.2.2.2.1, t.2.2.2.2.2.2.1, t.2.2.2.2.2.2.2.1, t.2.2.2.2.2.2.2.2.1, t.2.2.2.2.2.2.2.2.2.1, t.2.2.2.2.2.2.2.2.2.2.1, t.2.2.2.2.2.2.2.2.2.2.2.1, t.2.2.2.2.2.2.2.2.2.2.2.2.1, t.2.2.2.2.2.2.2.2.2.2.2.2.2.1, t.2.2.2.2.2.2.2.2.2.2.2.2.2.2.1, t.2.2.2.2.2.2.2.2.2.2.2.2.2.2.2.1, t.2.2.2.2.2.2.2.2.2.2.2.2.2.2.2.2.1, t.2.2.2.2.2.2.2.2.2.2.2.2.2.2.2.2.2.1, t.2.2.2.2.2.2.2.2.2.2.2.2.2.2.2.2.2.2.1, t.2.2.2.2.2.2.2.2.2.2.2.2.2.2.2.2.2.2.2.1, t.2.2.2.2.2.2.2.2.2.2.2.2.2.2.2.2.2.2.2.2.1, t.2.2.2.2.2.2.2.2.2.2.2.2.2.2.2.2.2.2.2.2.2.1, t.2.2.2.2.2.2.2.2.2.2.2.2.2.2.2.2.2.2.2.2.2.2.1, t.2.2.2.2.2.2.2.2.2.2.2.2.2.2.2.2.2.2.2.2.2.2.2.1, t.2.2.2.2.2.2.2.2.2.2.2.2.2.2.2.2.2.2.2.2.2.2.2.2.1, t.2.2.2.2.2.2.2.2.2.2.2.2.2.2.2.2.2.2.2.2.2.2.2.2.2.1, t.2.2.2.2.2.2.2.2.2.2.2.2.2.2.2.2.2.2.2.2.2.2.2.2.2.2.1, t.2.2.2.2.2.2.2.2.2.2.2.2.2.2.2.2.2.2.2.2.2.2.2.2.2.2.2.1, t.2.2.2.2.2.2.2.2.2.2.2.2.2.2.2.2.2.2.2.2.2.2.2.2.2.2.2.2.1, t.2.2.2.2.2.2.2.2.2.2.2.2.2.2.2.2.2.2.2.2.2.2.2.2.2.2.2.2.2.1, t.2.2.2.2.2.2.2.2.2.2.2.2.2.2.2.2.2.2.2.2.2.2.2.2.2.2.2.2.2.2.1, t.2.2.2.2.2.2.2.2.2.2.2.2.2.2.2.2.2.2.2.2.2.2.2.2.2.2.2.2.2.2.2.1, t.2.2.2.2.2.2.2.2.2.2.2.2.2.2.2.2.2.2.2.2.2.2.2.2.2.2.2.2.2.2.2.2.1, t.2.2.2.2.2.2.2.2.2.2.2.2.2.2.2.2.2.2.2.2.2.2.2.2.2.2.2.2.2.2.2.2.2.1, t.2.2.2.2.2.2.2.2.2.2.2.2.2.2.2.2.2.2.2.2.2.2.2.2.2.2.2.2.2.2.2.2.2.2.1, t.2.2.2.2.2.2.2.2.2.2.2.2.2.2.2.2.2.2.2.2.2.2.2.2.2.2.2.2.2.2.2.2.2.2.2.1, t.2.2.2.2.2.2.2.2.2.2.2.2.2.2.2.2.2.2.2.2.2.2.2.2.2.2.2.2.2.2.2.2.2.2.2.2.1, t.2.2.2.2.2.2.2.2.2.2.2.2.2.2.2.2.2.2.2.2.2.2.2.2.2.2.2.2.2.2.2.2.2.2.2.2.2.1, t.2.2.2.2.2.2.2.2.2.2.2.2.2.2.2.2.2.2.2.2.2.2.2.2.2.2.2.2.2.2.2.2.2.2.2.2.2.2.1, t.2.2.2.2.2.2.2.2.2.2.2.2.2.2.2.2.2.2.2.2.2.2.2.2.2.2.2.2.2.2.2.2.2.2.2.2.2.2.2.1, t.2.2.2.2.2.2.2.2.2.2.2.2.2.2.2.2.2.2.2.2.2.2.2.2.2.2.2.2.2.2.2.2.2.2.2.2.2.2.2.2.1, t.2.2.2.2.2.2.2.2.2.2.2.2.2.2.2.2.2.2.2.2.2.2.2.2.2.2.2.2.2.2.2.2.2.2.2.2.2.2.2.2.2.1, t.2.2.2.2.2.2.2.2.2.2.2.2.2.2.2.2.2.2.2.2.2.2.2.2.2.2.2.2.2.2.2.2.2.2.2.2.2.2.2.2.2.2.1, t.2.2.2.2.2.2.2.2.2.2.2.2.2.2.2.2.2.2.2.2.2.2.2.2.2.2.2.2.2.2.2.2.2.2.2.2.2.2.2.2.2.2.2.1, t.2.2.2.2.2.2.2.2.2.2.2.2.2.2.2.2.2.2.2.2.2.2.2.2.2.2.2.2.2.2.2.2.2.2.2.2.2.2.2.2.2.2.2.2.1, t.2.2.2.2.2.2.2.2.2.2.2.2.2.2.2.2.2.2.2.2.2.2.2.2.2.2.2.2.2.2.2.2.2.2.2.2.2.2.2.2.2.2.2.2.2.1, t.2.2.2.2.2.2.2.2.2.2.2.2.2.2.2.2.2.2.2.2.2.2.2.2.2.2.2.2.2.2.2.2.2.2.2.2.2.2.2.2.2.2.2.2.2.2.1, t.2.2.2.2.2.2.2.2.2.2.2.2.2.2.2.2.2.2.2.2.2.2.2.2.2.2.2.2.2.2.2.2.2.2.2.2.2.2.2.2.2.2.2.2.2.2.2]

/-- `gen_keys` written with the regenerated leaf functions `des_pc1`, `des_pc2` and the model's `rotate` -/
def ks (key : BitVec 64) : BitVec 64 × BitVec 64 × BitVec 64 × BitVec 64 × BitVec 64 × BitVec 64 × BitVec 64 × BitVec 64 × BitVec 64 × BitVec 64 × BitVec 64 × BitVec 64 × BitVec 64 × BitVec 64 × BitVec 64 × BitVec 64 :=
  let k := des_pc1 key >>> 8
  let c0 := k >>> 28
  let d0 := k &&& 0x0FFFFFFF#64
  let c1 := BC.Des.rotate c0 1
  let d1 := BC.Des.rotate d0 1
  let c2 := BC.Des.rotate c1 1
  let d2 := BC.Des.rotate d1 1
  let c3 := BC.Des.rotate c2 2
  let d3 := BC.Des.rotate d2 2
  let c4 := BC.Des.rotate c3 2
  let d4 := BC.Des.rotate d3 2
  let c5 := BC.Des.rotate c4 2
  let d5 := BC.Des.rotate d4 2
  let c6 := BC.Des.rotate c5 2
  let d6 := BC.Des.rotate d5 2
  let c7 := BC.Des.rotate c6 2
  let d7 := BC.Des.rotate d6 2
  let c8 := BC.Des.rotate c7 2
  let d8 := BC.Des.rotate d7 2
  let c9 := BC.Des.rotate c8 1
  let d9 := BC.Des.rotate d8 1
  let c10 := BC.Des.rotate c9 2
  let d10 := BC.Des.rotate d9 2
  let c11 := BC.Des.rotate c10 2
  let d11 := BC.Des.rotate d10 2
  let c12 := BC.Des.rotate c11 2
  let d12 := BC.Des.rotate d11 2
  let c13 := BC.Des.rotate c12 2
  let d13 := BC.Des.rotate d12 2
  let c14 := BC.Des.rotate c13 2
  let d14 := BC.Des.rotate d13 2
  let c15 := BC.Des.rotate c14 2
  let d15 := BC.Des.rotate d14 2
  let c16 := BC.Des.rotate c15 1
  let d16 := BC.Des.rotate d15 1
  (des_pc2 (((c1 <<< 28) ||| d1) <<< 8), des_pc2 (((c2 <<< 28) ||| d2) <<< 8), des_pc2 (((c3 <<< 28) ||| d3) <<< 8), des_pc2 (((c4 <<< 28) ||| d4) <<< 8), des_pc2 (((c5 <<< 28) ||| d5) <<< 8), des_pc2 (((c6 <<< 28) ||| d6) <<< 8), des_pc2 (((c7 <<< 28) ||| d7) <<< 8), des_pc2 (((c8 <<< 28) ||| d8) <<< 8), des_pc2 (((c9 <<< 28) ||| d9) <<< 8), des_pc2 (((c10 <<< 28) ||| d10) <<< 8), des_pc2 (((c11 <<< 28) ||| d11) <<< 8), des_pc2 (((c12 <<< 28) ||| d12) <<< 8), des_pc2 (((c13 <<< 28) ||| d13) <<< 8), des_pc2 (((c14 <<< 28) ||| d14) <<< 8), des_pc2 (((c15 <<< 28) ||| d15) <<< 8), des_pc2 (((c16 <<< 28) ||| d16) <<< 8))

/-- the generated text IS that composition (the shifts `SHIFTS[i]` are folded to literals by the translator) -/
theorem gen_keys_struct (key : BitVec 64) : des_gen_keys key = ks key := rfl

theorem ks_eq (key : BitVec 64) : ks key = t16 (BC.Des.genKeys key) := by
  simp only [ks, BC.GenFuncs.Des.pc1_eq, BC.GenFuncs.Des.pc2_eq]
  rfl

/-- utils.rs `gen_keys` = the model's `genKeys`, all keys -/
theorem gen_keys_eq (key : BitVec 64) : des_gen_keys key = t16 (BC.Des.genKeys key) := by
  rw [gen_keys_struct, ks_eq]

theorem genKeys_length (key : BitVec 64) : (BC.Des.genKeys key).length = 16 := rfl

theorem l16_t16 (l : List (BitVec 64)) (h : l.length = 16) : l16 (t16 l) = l := by
  match l, h with
  | [_, _, _, _, _, _, _, _, _, _, _, _, _, _, _, _], _ => rfl

/-- list form: the 16 fields of `Des { keys }` are exactly the list `genKeys key` -/
theorem gen_keys_list (key : BitVec 64) : l16 (des_gen_keys key) = BC.Des.genKeys key := by
  rw [gen_keys_eq, l16_t16 _ (genKeys_length key)]

/-! ### `Des::new`: `u64::from_be_bytes(key.0)` then `gen_keys` -/

/-- `u64::from_be_bytes` of the 8 key bytes as the translator writes it -/
def be8 (key : BitVec 64) : BitVec 64 := ((key.extractLsb' 56 8) ++ (key.extractLsb' 48 8) ++ (key.extractLsb' 40 8) ++ (key.extractLsb' 32 8) ++ (key.extractLsb' 24 8) ++ (key.extractLsb' 16 8) ++ (key.extractLsb' 8 8) ++ (key.extractLsb' 0 8))
theorem be8_eq (key : BitVec 64) : be8 key = key := by
  unfold be8; bv_decide

theorem new_struct (key : BitVec 64) : des_new key = des_gen_keys (be8 key) := rfl

/-- des.rs `Des::new` = the model's `genKeys` on the big-endian number of the key bytes, all keys -/
theorem new_eq (key : BitVec 64) : des_new key = t16 (BC.Des.genKeys key) := by
  rw [new_struct, be8_eq, gen_keys_eq]

theorem new_list (key : BitVec 64) : l16 (des_new key) = BC.Des.genKeys key := by
  rw [new_struct, be8_eq, gen_keys_list]

/-! ### tdes.rs: `TdesEde3::new`, `TdesEee3::new` (fields `d1, d2, d3`), `TdesEde2::new`, `TdesEee2::new` (fields `d1, d2`) -/

def p1of3 (key : BitVec 192) : BitVec 64 := ((key.extractLsb' 184 8) ++ (key.extractLsb' 176 8) ++ (key.extractLsb' 168 8) ++ (key.extractLsb' 160 8) ++ (key.extractLsb' 152 8) ++ (key.extractLsb' 144 8) ++ (key.extractLsb' 136 8) ++ (key.extractLsb' 128 8))
theorem p1of3_eq (key : BitVec 192) : p1of3 key = BC.Des.k1of3 key := by
  unfold p1of3 BC.Des.k1of3; bv_decide
def p2of3 (key : BitVec 192) : BitVec 64 := ((key.extractLsb' 120 8) ++ (key.extractLsb' 112 8) ++ (key.extractLsb' 104 8) ++ (key.extractLsb' 96 8) ++ (key.extractLsb' 88 8) ++ (key.extractLsb' 80 8) ++ (key.extractLsb' 72 8) ++ (key.extractLsb' 64 8))
theorem p2of3_eq (key : BitVec 192) : p2of3 key = BC.Des.k2of3 key := by
  unfold p2of3 BC.Des.k2of3; bv_decide
def p3of3 (key : BitVec 192) : BitVec 64 := ((key.extractLsb' 56 8) ++ (key.extractLsb' 48 8) ++ (key.extractLsb' 40 8) ++ (key.extractLsb' 32 8) ++ (key.extractLsb' 24 8) ++ (key.extractLsb' 16 8) ++ (key.extractLsb' 8 8) ++ (key.extractLsb' 0 8))
theorem p3of3_eq (key : BitVec 192) : p3of3 key = BC.Des.k3of3 key := by
  unfold p3of3 BC.Des.k3of3; bv_decide
def p1of2 (key : BitVec 128) : BitVec 64 := ((key.extractLsb' 120 8) ++ (key.extractLsb' 112 8) ++ (key.extractLsb' 104 8) ++ (key.extractLsb' 96 8) ++ (key.extractLsb' 88 8) ++ (key.extractLsb' 80 8) ++ (key.extractLsb' 72 8) ++ (key.extractLsb' 64 8))
theorem p1of2_eq (key : BitVec 128) : p1of2 key = BC.Des.k1of2 key := by
  unfold p1of2 BC.Des.k1of2; bv_decide
def p2of2 (key : BitVec 128) : BitVec 64 := ((key.extractLsb' 56 8) ++ (key.extractLsb' 48 8) ++ (key.extractLsb' 40 8) ++ (key.extractLsb' 32 8) ++ (key.extractLsb' 24 8) ++ (key.extractLsb' 16 8) ++ (key.extractLsb' 8 8) ++ (key.extractLsb' 0 8))
theorem p2of2_eq (key : BitVec 128) : p2of2 key = BC.Des.k2of2 key := by
  unfold p2of2 BC.Des.k2of2; bv_decide

/-- concatenation of the flattened fields of three / two `Des` structs -/
def cat3 (a b c : BitVec 64 × BitVec 64 × BitVec 64 × BitVec 64 × BitVec 64 × BitVec 64 × BitVec 64 × BitVec 64 × BitVec 64 × BitVec 64 × BitVec 64 × BitVec 64 × BitVec 64 × BitVec 64 × BitVec 64 × BitVec 64) : BitVec 64 × BitVec 64 × BitVec 64 × BitVec 64 × BitVec 64 × BitVec 64 × BitVec 64 × BitVec 64 × BitVec 64 × BitVec 64 × BitVec 64 × BitVec 64 × BitVec 64 × BitVec 64 × BitVec 64 × BitVec 64 × BitVec 64 × BitVec 64 × BitVec 64 × BitVec 64 × BitVec 64 × BitVec 64 × BitVec 64 × BitVec 64 × BitVec 64 × BitVec 64 × BitVec 64 × BitVec 64 × BitVec 64 × BitVec 64 × BitVec 64 × BitVec 64 × BitVec 64 × BitVec 64 × BitVec 64 × BitVec 64 × BitVec 64 × BitVec 64 × BitVec 64 × BitVec 64 × BitVec 64 × BitVec 64 × BitVec 64 × BitVec 64 × BitVec 64 × BitVec 64 × BitVec 64 × BitVec 64 :=
  (a.1, a.2.1, a.2.2.1, a.2.2.2.1, a.2.2.2.2.1, a.2.2.2.2.2.1, a.2.2.2.2.2.2.1, a.2.2.2.2.2.2.2.1, a.2.2.2.2.2.2.2.2.1, a.2.2.2.2.2.2.2.2.2.1, a.2.2.2.2.2.2.2.2.2.2.1, a.2.2.2.2.2.2.2.2.2.2.2.1, a.2.2.2.2.2.2.2.2.2.2.2.2.1, a.2.2.2.2.2.2.2.2.2.2.2.2.2.1, a.2.2.2.2.2.2.2.2.2.2.2.2.2.2.1, a.2.2.2.2.2.2.2.2.2.2.2.2.2.2.2, b.1, b.2.1, b.2.2.1, b.2.2.2.1, b.2.2.2.2.1, b.2.2.2.2.2.1, b.2.2.2.2.2.2.1, b.2.2.2.2.2.2.2.1, b.2.2.2.2.2.2.2.2.1, b.2.2.2.2.2.2.2.2.2.1, b.2.2.2.2.2.2.2.2.2.2.1, b.2.2.2.2.2.2.2.2.2.2.2.1, b.2.2.2.2.2.2.2.2.2.2.2.2.1, b.2.2.2.2.2.2.2.2.2.2.2.2.2.1, b.2.2.2.2.2.2.2.2.2.2.2.2.2.2.1, b.2.2.2.2.2.2.2.2.2.2.2.2.2.2.2, c.1, c.2.1, c.2.2.1, c.2.2.2.1, c.2.2.2.2.1, c.2.2.2.2.2.1, c.2.2.2.2.2.2.1, c.2.2.2.2.2.2.2.1, c.2.2.2.2.2.2.2.2.1, c.2.2.2.2.2.2.2.2.2.1, c.2.2.2.2.2.2.2.2.2.2.1, c.2.2.2.2.2.2.2.2.2.2.2.1, c.2.2.2.2.2.2.2.2.2.2.2.2.1, c.2.2.2.2.2.2.2.2.2.2.2.2.2.1, c.2.2.2.2.2.2.2.2.2.2.2.2.2.2.1, c.2.2.2.2.2.2.2.2.2.2.2.2.2.2.2)
def cat2 (a b : BitVec 64 × BitVec 64 × BitVec 64 × BitVec 64 × BitVec 64 × BitVec 64 × BitVec 64 × BitVec 64 × BitVec 64 × BitVec 64 × BitVec 64 × BitVec 64 × BitVec 64 × BitVec 64 × BitVec 64 × BitVec 64) : BitVec 64 × BitVec 64 × BitVec 64 × BitVec 64 × BitVec 64 × BitVec 64 × BitVec 64 × BitVec 64 × BitVec 64 × BitVec 64 × BitVec 64 × BitVec 64 × BitVec 64 × BitVec 64 × BitVec 64 × BitVec 64 × BitVec 64 × BitVec 64 × BitVec 64 × BitVec 64 × BitVec 64 × BitVec 64 × BitVec 64 × BitVec 64 × BitVec 64 × BitVec 64 × BitVec 64 × BitVec 64 × BitVec 64 × BitVec 64 × BitVec 64 × BitVec 64 :=
  (a.1, a.2.1, a.2.2.1, a.2.2.2.1, a.2.2.2.2.1, a.2.2.2.2.2.1, a.2.2.2.2.2.2.1, a.2.2.2.2.2.2.2.1, a.2.2.2.2.2.2.2.2.1, a.2.2.2.2.2.2.2.2.2.1, a.2.2.2.2.2.2.2.2.2.2.1, a.2.2.2.2.2.2.2.2.2.2.2.1, a.2.2.2.2.2.2.2.2.2.2.2.2.1, a.2.2.2.2.2.2.2.2.2.2.2.2.2.1, a.2.2.2.2.2.2.2.2.2.2.2.2.2.2.1, a.2.2.2.2.2.2.2.2.2.2.2.2.2.2.2, b.1, b.2.1, b.2.2.1, b.2.2.2.1, b.2.2.2.2.1, b.2.2.2.2.2.1, b.2.2.2.2.2.2.1, b.2.2.2.2.2.2.2.1, b.2.2.2.2.2.2.2.2.1, b.2.2.2.2.2.2.2.2.2.1, b.2.2.2.2.2.2.2.2.2.2.1, b.2.2.2.2.2.2.2.2.2.2.2.1, b.2.2.2.2.2.2.2.2.2.2.2.2.1, b.2.2.2.2.2.2.2.2.2.2.2.2.2.1, b.2.2.2.2.2.2.2.2.2.2.2.2.2.2.1, b.2.2.2.2.2.2.2.2.2.2.2.2.2.2.2)

theorem cat3_t16 (l1 l2 l3 : List (BitVec 64)) (h1 : l1.length = 16) (h2 : l2.length = 16) (h3 : l3.length = 16) :
    cat3 (t16 l1) (t16 l2) (t16 l3) = t48 (l1 ++ l2 ++ l3) := by
  match l1, h1, l2, h2, l3, h3 with
  | [_, _, _, _, _, _, _, _, _, _, _, _, _, _, _, _], _, [_, _, _, _, _, _, _, _, _, _, _, _, _, _, _, _], _, [_, _, _, _, _, _, _, _, _, _, _, _, _, _, _, _], _ => rfl
theorem cat2_t16 (l1 l2 : List (BitVec 64)) (h1 : l1.length = 16) (h2 : l2.length = 16) :
    cat2 (t16 l1) (t16 l2) = t32 (l1 ++ l2) := by
  match l1, h1, l2, h2 with
  | [_, _, _, _, _, _, _, _, _, _, _, _, _, _, _, _], _, [_, _, _, _, _, _, _, _, _, _, _, _, _, _, _, _], _ => rfl
theorem l48_t48 (l : List (BitVec 64)) (h : l.length = 48) : l48 (t48 l) = l := by
  match l, h with
  | _ :: _ :: _ :: _ :: _ :: _ :: _ :: _ :: _ :: _ :: _ :: _ :: _ :: _ :: _ :: _ :: _ :: _ :: _ :: _ :: _ :: _ :: _ :: _ :: _ :: _ :: _ :: _ :: _ :: _ :: _ :: _ :: _ :: _ :: _ :: _ :: _ :: _ :: _ :: _ :: _ :: _ :: _ :: _ :: _ :: _ :: _ :: _ :: [], _ => rfl
theorem l32_t32 (l : List (BitVec 64)) (h : l.length = 32) : l32 (t32 l) = l := by
  match l, h with
  | [_, _, _, _, _, _, _, _, _, _, _, _, _, _, _, _, _, _, _, _, _, _, _, _, _, _, _, _, _, _, _, _], _ => rfl

/-- the fields of the model's `Tdes3` / `Tdes2` in declaration order -/
def fields3 (t : BC.Des.Tdes3) : List (BitVec 64) := t.d1 ++ t.d2 ++ t.d3
def fields2 (t : BC.Des.Tdes2) : List (BitVec 64) := t.d1 ++ t.d2
theorem fields3_length (key : BitVec 192) : (fields3 (BC.Des.Tdes3.new key)).length = 48 := rfl
theorem fields2_length (key : BitVec 128) : (fields2 (BC.Des.Tdes2.new key)).length = 32 := rfl

theorem tdesede3_new_struct (key : BitVec 192) : tdesede3_new key = cat3 (des_gen_keys (p1of3 key)) (des_gen_keys (p2of3 key)) (des_gen_keys (p3of3 key)) := rfl

/-- tdes.rs `TdesEde3::new` = the model's `Tdes3.new`, all keys -/
theorem tdesede3_new_eq (key : BitVec 192) : tdesede3_new key = t48 (fields3 (BC.Des.Tdes3.new key)) := by
  rw [tdesede3_new_struct, p1of3_eq, p2of3_eq, p3of3_eq]
  simp only [gen_keys_eq]
  rw [cat3_t16 _ _ _ (genKeys_length _) (genKeys_length _) (genKeys_length _)]
  rfl

theorem tdesede3_new_list (key : BitVec 192) : l48 (tdesede3_new key) = fields3 (BC.Des.Tdes3.new key) := by
  rw [tdesede3_new_eq, l48_t48 _ (fields3_length key)]

theorem tdeseee3_new_struct (key : BitVec 192) : tdeseee3_new key = cat3 (des_gen_keys (p1of3 key)) (des_gen_keys (p2of3 key)) (des_gen_keys (p3of3 key)) := rfl

/-- tdes.rs `TdesEee3::new` = the model's `Tdes3.new`, all keys -/
theorem tdeseee3_new_eq (key : BitVec 192) : tdeseee3_new key = t48 (fields3 (BC.Des.Tdes3.new key)) := by
  rw [tdeseee3_new_struct, p1of3_eq, p2of3_eq, p3of3_eq]
  simp only [gen_keys_eq]
  rw [cat3_t16 _ _ _ (genKeys_length _) (genKeys_length _) (genKeys_length _)]
  rfl

theorem tdeseee3_new_list (key : BitVec 192) : l48 (tdeseee3_new key) = fields3 (BC.Des.Tdes3.new key) := by
  rw [tdeseee3_new_eq, l48_t48 _ (fields3_length key)]

theorem tdesede2_new_struct (key : BitVec 128) : tdesede2_new key = cat2 (des_gen_keys (p1of2 key)) (des_gen_keys (p2of2 key)) := rfl

/-- tdes.rs `TdesEde2::new` = the model's `Tdes2.new`, all keys -/
theorem tdesede2_new_eq (key : BitVec 128) : tdesede2_new key = t32 (fields2 (BC.Des.Tdes2.new key)) := by
  rw [tdesede2_new_struct, p1of2_eq, p2of2_eq]
  simp only [gen_keys_eq]
  rw [cat2_t16 _ _ (genKeys_length _) (genKeys_length _)]
  rfl

theorem tdesede2_new_list (key : BitVec 128) : l32 (tdesede2_new key) = fields2 (BC.Des.Tdes2.new key) := by
  rw [tdesede2_new_eq, l32_t32 _ (fields2_length key)]

theorem tdeseee2_new_struct (key : BitVec 128) : tdeseee2_new key = cat2 (des_gen_keys (p1of2 key)) (des_gen_keys (p2of2 key)) := rfl

/-- tdes.rs `TdesEee2::new` = the model's `Tdes2.new`, all keys -/
theorem tdeseee2_new_eq (key : BitVec 128) : tdeseee2_new key = t32 (fields2 (BC.Des.Tdes2.new key)) := by
  rw [tdeseee2_new_struct, p1of2_eq, p2of2_eq]
  simp only [gen_keys_eq]
  rw [cat2_t16 _ _ (genKeys_length _) (genKeys_length _)]
  rfl

theorem tdeseee2_new_list (key : BitVec 128) : l32 (tdeseee2_new key) = fields2 (BC.Des.Tdes2.new key) := by
  rw [tdeseee2_new_eq, l32_t32 _ (fields2_length key)]

end BC.GenKeys.Des