import BlockCiphers.Proofs.Rc2
import BlockCiphers.Spec.Rc2
import BlockCiphers.Api
/-
RC2: the crate (model `Impl/Rc2.lean`) against RFC 2268 (`Spec/Rc2.lean`).

* `PI_TABLE_eq_spec`: the crate's decimal table = the RFC's hexadecimal PITABLE;
* `expandKey_eq_spec`: `expand_key(key, t1)` = §2 for every key and every effective key length (in
  particular for all `1 ≤ len ≤ 128`, `1 ≤ t1 ≤ 1024`, where the Rust does not panic);
* `encryptWords_eq_spec` / `decryptWords_eq_spec`: the loops with the running `j` = §3 / §4
  (5 + mash + 6 + mash + 5 rounds) for every expanded key;
* `encrypt_eq_spec` / `decrypt_eq_spec`: on 8-byte blocks (little-endian words);
* `rc2_conforms`: `new_from_slice(key)` then `encrypt_block` = RFC 2268 with `T1 = 8·len`.
-/
namespace BC.Rc2
open BC.Spec.Rc2

/-! ### key expansion -/

theorem PI_TABLE_eq_spec : PI_TABLE = PITABLE := by decide +kernel

theorem piAt_eq_spec (x : BitVec 8) : piAt x.toNat = pitable x := by
  unfold piAt pitable; rw [PI_TABLE_eq_spec]

theorem rdb_eq_Lget (v : Vector (BitVec 8) 128) (i : Nat) : rdb v i = Lget v i := by
  unfold rdb Lget Vector.getD
  by_cases h : i < 128 <;> simp [h]

/-- `(u32::from(a) + u32::from(b)) & 0xff` is the byte sum modulo 256 -/
theorem pos_eq (a b : BitVec 8) : ((a.setWidth 32 + b.setWidth 32) &&& 0xff#32).toNat = (a + b).toNat := by
  have h : (a.setWidth 32 + b.setWidth 32) &&& 0xff#32 = (a + b).setWidth 32 := by bv_decide (config := { timeout := 600 })
  rw [h, BitVec.toNat_setWidth]
  have := (a + b).isLt
  omega

theorem expandStep1_eq_spec (keyLen : Nat) :
    expandStep1 keyLen = fun L i => L.setIfInBounds i (pitable (Lget L (i - 1) + Lget L (i - keyLen))) := by
  funext L i
  simp only [expandStep1, pos_eq, piAt_eq_spec, rdb_eq_Lget]

theorem expandStep2_eq_spec (t8 : Nat) :
    expandStep2 t8 = fun L i => L.setIfInBounds i (pitable (Lget L (i + 1) ^^^ Lget L (i + t8))) := by
  funext L i
  simp only [expandStep2, piAt_eq_spec, rdb_eq_Lget]

/-- the 128-byte buffer: `expand_key` = RFC 2268 §2, for every key and every `t1` -/
theorem expandBuffer_eq_spec (key : Bytes) (t1 : Nat) : expandBuffer key t1 = expandL key t1 := by
  unfold expandBuffer expandL
  simp only [expandStep1_eq_spec, expandStep2_eq_spec, piAt_eq_spec, rdb_eq_Lget, Nat.shiftRight_eq_div_pow]

theorem word_eq (lo hi : BitVec 8) :
    (hi.setWidth 16 <<< 8) + lo.setWidth 16 = lo.setWidth 16 + 256#16 * hi.setWidth 16 := by bv_decide (config := { timeout := 600 })

/-- **C09 (key schedule)**: `Rc2::expand_key(key, t1)` is the key expansion of RFC 2268 §2 -/
theorem expandKey_eq_spec (key : Bytes) (t1 : Nat) : expandKey key t1 = BC.Spec.Rc2.expandKey key t1 := by
  unfold expandKey BC.Spec.Rc2.expandKey
  simp only [expandBuffer_eq_spec, rdb_eq_Lget, word_eq]

/-- the statement in the form of the property: all key lengths 1..128, all effective lengths 1..1024
(exactly the arguments for which `new_with_eff_key_len` returns, `effPanic_none_iff`) -/
theorem expandKey_eq_spec_domain (key : Bytes) (t1 : Nat)
    (_hk : 1 ≤ key.length ∧ key.length ≤ 128) (_ht : 1 ≤ t1 ∧ t1 ≤ 1024) :
    newWithEffKeyLen key t1 = BC.Spec.Rc2.expandKey key t1 := expandKey_eq_spec key t1

/-! ### rounds -/

/-- `r: [u16; 4]` as the RFC's `R[0..3]` -/
def toVec (s : St) : Vector (BitVec 16) 4 := #v[s.r0, s.r1, s.r2, s.r3]

theorem keyAt_eq_Kget (k : Vector (BitVec 16) 64) (j : Nat) : keyAt k j = Kget k j := by
  unfold keyAt Kget Vector.getD
  by_cases h : j < 64 <;> simp [h]

theorem keyMasked_eq_Kget (k : Vector (BitVec 16) 64) (r : BitVec 16) :
    keyMasked k r = Kget k (r &&& 63#16).toNat := by
  have hlt : (r &&& 63#16).toNat < 64 := by
    have := and_toNat_le r 63#16
    have h : (63#16).toNat = 63 := by decide
    omega
  unfold keyMasked Kget Vector.getD Array.getD
  rw [dif_pos (by rw [Vector.size_toArray]; exact hlt)]
  rfl

theorem mixingRound_eq (k : Vector (BitVec 16) 64) (s : St) (j : Nat) :
    mixingRound k { R := toVec s, j := j } = { R := toVec (mixAt k j s), j := j + 4 } := by
  simp only [mixAt, keyAt_eq_Kget]
  rfl

theorem mashingRound_eq (k : Vector (BitVec 16) 64) (s : St) (j : Nat) :
    mashingRound k { R := toVec s, j := j } = { R := toVec (mash k s), j := j } := by
  simp only [mash, keyMasked_eq_Kget]
  rfl

theorem rMixingRound_eq (k : Vector (BitVec 16) 64) (s : St) (j : Nat) :
    rMixingRound k { R := toVec s, j := j } = { R := toVec (rmixDown k j s), j := j - 1 - 1 - 1 - 1 } := by
  simp only [rmixDown, keyAt_eq_Kget]
  rfl

theorem rMashingRound_eq (k : Vector (BitVec 16) 64) (s : St) (j : Nat) :
    rMashingRound k { R := toVec s, j := j } = { R := toVec (reverseMash k s), j := j } := by
  simp only [reverseMash, keyMasked_eq_Kget]
  rfl

/-- **C09 (encryption)**: the `for i in 0..16 { mix; if i == 4 || i == 10 { mash } }` loop is RFC 2268 §3 -/
theorem encryptWords_eq_spec (k : Vector (BitVec 16) 64) (s : St) :
    toVec (encryptWords k s) = BC.Spec.Rc2.encryptWords k (toVec s) := by
  rw [encryptWords_closed]
  simp only [BC.Spec.Rc2.encryptWords, iter, mixingRound_eq, mashingRound_eq]

/-- **C09 (decryption)**: the decryption loop is RFC 2268 §4 -/
theorem decryptWords_eq_spec (k : Vector (BitVec 16) 64) (s : St) :
    toVec (decryptWords k s) = BC.Spec.Rc2.decryptWords k (toVec s) := by
  rw [decryptWords_closed]
  simp [BC.Spec.Rc2.decryptWords, iter, rMixingRound_eq, rMashingRound_eq, rmixDown, rmixAt]

/-! ### 8-byte blocks -/

theorem packBE8 (b0 b1 b2 b3 b4 b5 b6 b7 : BitVec 8) :
    packBE 8 [b0, b1, b2, b3, b4, b5, b6, b7] = b0 ++ b1 ++ b2 ++ b3 ++ b4 ++ b5 ++ b6 ++ b7 := by
  simp only [packBE, bytesToNat, List.foldl_cons, List.foldl_nil, Nat.zero_mul, Nat.zero_add]
  simp only [BitVec.ofNat_add, BitVec.ofNat_mul, BitVec.ofNat_toNat]
  bv_decide (config := { timeout := 600 })

theorem toVec_load (b0 b1 b2 b3 b4 b5 b6 b7 : BitVec 8) :
    toVec (load (packBE 8 [b0, b1, b2, b3, b4, b5, b6, b7])) = wordsOfBlock [b0, b1, b2, b3, b4, b5, b6, b7] := by
  rw [packBE8]
  apply Vector.ext
  intro i hi
  have : i = 0 ∨ i = 1 ∨ i = 2 ∨ i = 3 := by omega
  rcases this with rfl | rfl | rfl | rfl <;>
    (simp [toVec, load, wordsOfBlock, bswap16]; bv_decide (config := { timeout := 600 }))

theorem byte16_eq_spec (w : BitVec 16) (c : Nat) :
    (w >>> (8 * c)).setWidth 8 = BitVec.ofNat 8 (w.toNat / 256 ^ c % 256) := by
  apply BitVec.eq_of_toNat_eq
  simp only [BitVec.toNat_setWidth, BitVec.toNat_ushiftRight, BitVec.toNat_ofNat, Nat.shiftRight_eq_div_pow]
  have : (256 : Nat) ^ c = 2 ^ (8 * c) := by rw [Nat.pow_mul]
  rw [this]
  simp

theorem unpack_store (s : St) : unpackBE 8 (store s) = blockOfWords (toVec s) := by
  cases s with | mk r0 r1 r2 r3 =>
  simp only [unpackBE, blockOfWords, ← byte16_eq_spec]
  apply List.map_congr_left
  intro k hk
  have hk8 : k < 8 := by simpa using hk
  have : k = 0 ∨ k = 1 ∨ k = 2 ∨ k = 3 ∨ k = 4 ∨ k = 5 ∨ k = 6 ∨ k = 7 := by omega
  rcases this with rfl | rfl | rfl | rfl | rfl | rfl | rfl | rfl <;>
    (simp [toVec, store, Rget, bswap16, Vector.getD]; bv_decide (config := { timeout := 600 }))


theorem length8 (blk : Bytes) (h : blk.length = 8) :
    ∃ b0 b1 b2 b3 b4 b5 b6 b7, blk = [b0, b1, b2, b3, b4, b5, b6, b7] := by
  match blk, h with
  | [b0, b1, b2, b3, b4, b5, b6, b7], _ => exact ⟨b0, b1, b2, b3, b4, b5, b6, b7, rfl⟩

/-- `encrypt_block` on an 8-byte block = RFC 2268 §3 on the little-endian words, for every expanded key -/
theorem encrypt_eq_spec (k : Vector (BitVec 16) 64) (blk : Bytes) (h : blk.length = 8) :
    liftBlock 8 (encrypt k) blk = blockOfWords (BC.Spec.Rc2.encryptWords k (wordsOfBlock blk)) := by
  obtain ⟨b0, b1, b2, b3, b4, b5, b6, b7, rfl⟩ := length8 blk h
  unfold liftBlock encrypt
  rw [unpack_store, encryptWords_eq_spec, toVec_load]

theorem decrypt_eq_spec (k : Vector (BitVec 16) 64) (blk : Bytes) (h : blk.length = 8) :
    liftBlock 8 (decrypt k) blk = blockOfWords (BC.Spec.Rc2.decryptWords k (wordsOfBlock blk)) := by
  obtain ⟨b0, b1, b2, b3, b4, b5, b6, b7, rfl⟩ := length8 blk h
  unfold liftBlock decrypt
  rw [unpack_store, decryptWords_eq_spec, toVec_load]

/-- **C09**: `Rc2::new_with_eff_key_len(key, t1)` then `encrypt_block` / `decrypt_block` compute RFC 2268
with `T1 = t1` (every key, every effective length — in particular 1..=128 bytes, 1..=1024 bits) -/
theorem rc2eff_encrypt_conforms (key : Bytes) (t1 : Nat) (blk : Bytes) (h : blk.length = 8) :
    liftBlock 8 (encrypt (newWithEffKeyLen key t1)) blk = BC.Spec.Rc2.encrypt key t1 blk := by
  rw [encrypt_eq_spec _ _ h]; unfold newWithEffKeyLen BC.Spec.Rc2.encrypt; rw [expandKey_eq_spec]

theorem rc2eff_decrypt_conforms (key : Bytes) (t1 : Nat) (blk : Bytes) (h : blk.length = 8) :
    liftBlock 8 (decrypt (newWithEffKeyLen key t1)) blk = BC.Spec.Rc2.decrypt key t1 blk := by
  rw [decrypt_eq_spec _ _ h]; unfold newWithEffKeyLen BC.Spec.Rc2.decrypt; rw [expandKey_eq_spec]

/-- **C09 + C11**: `Rc2::new_from_slice(key)` (1..=128 bytes) is RFC 2268 with `T1 = 8·len` -/
theorem rc2_conforms (key : Bytes) (hk : 1 ≤ key.length ∧ key.length ≤ 128) (blk : Bytes) (h : blk.length = 8) :
    ∃ ks, newFromSlice key = some ks ∧
      liftBlock 8 (encrypt ks) blk = BC.Spec.Rc2.encrypt key (8 * key.length) blk ∧
      liftBlock 8 (decrypt ks) blk = BC.Spec.Rc2.decrypt key (8 * key.length) blk :=
  ⟨_, newFromSlice_eq key hk, rc2eff_encrypt_conforms key _ blk h, rc2eff_decrypt_conforms key _ blk h⟩

end BC.Rc2
